(* C03, copying path (Model/FixCopy.v): ConstrainedQuadraticModel::fix_variables /
   fix_variables_expr build, for every expression of the model, an expression of the NEW model
   whose energy at every sample of the new model is the energy of the source at that sample
   extended by the fixed values; the result is well formed; and it agrees with the in-place path
   (fix_variable issued one at a time with the shifted indices) - both stand for
   relabel new_index (Poly.fix_variables fs (abs_expr src)). *)
From Coq Require Import List ZArith QArith Qcanon Bool Arith Lia.
From Dimod Require Import Base.Util Model.Poly Model.Expr Model.ExprOps Model.FixCopy
  Proofs.PolyFacts Proofs.CoeffSound Proofs.ExprFacts Proofs.ExprViewFacts Proofs.ExprSim Proofs.CqmSim.
Import ListNotations.
Open Scope Qc_scope.

(* ================================================================== *)
(* 1. fix_variables_expr for ANY old_to_new / assignments vectors      *)
(* ================================================================== *)

(* every new index handed out is an index of the new model *)
Definition O2nOk (n' : nat) (o2n : list (option nat)) : Prop :=
  forall v k, o2n_get o2n v = Some k -> (k < n')%nat.

(* the value of a new variable is in its domain as far as term folding is concerned *)
Definition FoldOk (vt' : nat -> vartype) (s' : sample) (k : nat) : Prop :=
  match vt' k with BINARY => s' k * s' k = s' k | SPIN => s' k * s' k = 1 | _ => True end.

(* where add_quadratic_back folds a self interaction the sample must be in the domain *)
Definition FoldCond (vt' : nat -> vartype) (s' : sample) (vars : list nat) (o2n : list (option nat)) (quad : list lqterm) : Prop :=
  forall t, In t quad -> forall k,
    o2n_get o2n (nth (fst (fst t)) vars 0%nat) = Some k ->
    o2n_get o2n (nth (snd (fst t)) vars 0%nat) = Some k -> FoldOk vt' s' k.

Lemma respects_FoldOk : forall vt' s' k, respects vt' s' -> FoldOk vt' s' k.
Proof. intros vt' s' k H. unfold FoldOk. specialize (H k). destruct (vt' k); try exact H; exact I. Qed.

Lemma respects_FoldCond : forall vt' s' vars o2n quad, respects vt' s' -> FoldCond vt' s' vars o2n quad.
Proof. intros vt' s' vars o2n quad H t _ k _ _. apply respects_FoldOk. exact H. Qed.

Lemma fve_lin_fold : forall n' o2n asg s' l dst, O2nOk n' o2n -> ExprInv n' dst ->
  ExprInv n' (fold_left (fve_lin_step o2n asg) l dst)
  /\ energy (abs_expr (fold_left (fve_lin_step o2n asg) l dst)) s'
     = energy (abs_expr dst) s' + lin_energy l (lift_sample o2n asg s').
Proof.
  intros n' o2n asg s' l. induction l as [|[v b] r IH]; intros dst HO I.
  - split; [exact I|]. unfold lin_energy. cbn [fold_left map qsum]. ring.
  - cbn [fold_left]. unfold fve_lin_step at 2 4. rewrite lin_energy_cons. cbn [fst snd].
    destruct (o2n_get o2n v) as [k|] eqn:E.
    + pose proof (HO v k E) as Hk.
      assert (L : lift_sample o2n asg s' v = s' k) by (unfold lift_sample; rewrite E; reflexivity).
      destruct (IH (m_add_linear k b dst) HO (add_linear_inv n' dst k b I Hk)) as [I' E'].
      split; [exact I'|]. rewrite E', (add_linear_sim n' dst k b s' I Hk), energy_add_linear, L. ring.
    + assert (L : lift_sample o2n asg s' v = asg_get asg v) by (unfold lift_sample; rewrite E; reflexivity).
      destruct (IH (m_add_offset (b * asg_get asg v) dst) HO (add_offset_inv n' dst _ I)) as [I' E'].
      split; [exact I'|]. rewrite E', add_offset_abs, energy_add_offset, L. ring.
Qed.

Lemma fve_quad_fold : forall n' vt' vars o2n asg s' l dst, O2nOk n' o2n -> ExprInv n' dst ->
  ExprInv n' (fold_left (fve_quad_step vt' vars o2n asg) l dst)
  /\ (FoldCond vt' s' vars o2n l ->
      energy (abs_expr (fold_left (fve_quad_step vt' vars o2n asg) l dst)) s'
      = energy (abs_expr dst) s' + quad_energy (map (to_model vars) l) (lift_sample o2n asg s')).
Proof.
  intros n' vt' vars o2n asg s' l. induction l as [|t r IH]; intros dst HO I.
  - split; [exact I|]. intros _. unfold quad_energy. cbn [fold_left map qsum]. ring.
  - cbn [fold_left map]. rewrite quad_energy_cons. unfold to_model at 1 2 3. cbn [fst snd].
    assert (FC : FoldCond vt' s' vars o2n (t :: r) -> FoldCond vt' s' vars o2n r).
    { intros H t' Hin. apply H. right. exact Hin. }
    unfold fve_quad_step at 2 4.
    set (u := nth (fst (fst t)) vars 0%nat). set (v := nth (snd (fst t)) vars 0%nat).
    assert (Lu : lift_sample o2n asg s' u = match o2n_get o2n u with Some k => s' k | None => asg_get asg u end) by reflexivity.
    assert (Lv : lift_sample o2n asg s' v = match o2n_get o2n v with Some k => s' k | None => asg_get asg v end) by reflexivity.
    rewrite Lu, Lv. clear Lu Lv.
    destruct (o2n_get o2n u) as [ku|] eqn:Eu; destruct (o2n_get o2n v) as [kv|] eqn:Ev.
    + pose proof (HO u ku Eu) as Hu. pose proof (HO v kv Ev) as Hv.
      destruct (IH (m_add_quadratic vt' ku kv (snd t) dst) HO (add_quadratic_inv n' vt' dst ku kv _ I Hu Hv)) as [I' E'].
      split; [exact I'|]. intros H. rewrite (E' (FC H)).
      rewrite (add_quadratic_sim n' vt' dst ku kv (snd t) s' I Hu Hv). unfold spec_add_quadratic.
      rewrite energy_add_quadratic_raw, !energy_add_linear.
      destruct (Nat.eqb_spec ku kv) as [<-|Hne]; [|ring].
      pose proof (H t (or_introl eq_refl) ku Eu Ev) as F. unfold FoldOk in F.
      destruct (vt' ku); try ring.
      * replace (snd t * s' ku * s' ku) with (snd t * (s' ku * s' ku)) by ring. rewrite F. ring.
      * replace (snd t * s' ku * s' ku) with (snd t * (s' ku * s' ku)) by ring. rewrite F. ring.
    + pose proof (HO u ku Eu) as Hu.
      destruct (IH (m_add_linear ku (asg_get asg v * snd t) dst) HO (add_linear_inv n' dst ku _ I Hu)) as [I' E'].
      split; [exact I'|]. intros H. rewrite (E' (FC H)), (add_linear_sim n' dst ku _ s' I Hu), energy_add_linear. ring.
    + pose proof (HO v kv Ev) as Hv.
      destruct (IH (m_add_linear kv (asg_get asg u * snd t) dst) HO (add_linear_inv n' dst kv _ I Hv)) as [I' E'].
      split; [exact I'|]. intros H. rewrite (E' (FC H)), (add_linear_sim n' dst kv _ s' I Hv), energy_add_linear. ring.
    + destruct (IH (m_add_offset (asg_get asg u * asg_get asg v * snd t) dst) HO (add_offset_inv n' dst _ I)) as [I' E'].
      split; [exact I'|]. intros H. rewrite (E' (FC H)), add_offset_abs, energy_add_offset. ring.
Qed.

(* the result is a well-formed expression of the new model (n' variables) *)
Theorem fix_copy_expr_inv : forall n' vt' src o2n asg, O2nOk n' o2n ->
  ExprInv n' (fix_variables_expr vt' src o2n asg).
Proof.
  intros n' vt' src o2n asg HO. unfold fix_variables_expr.
  refine (proj1 (fve_quad_fold n' vt' _ o2n asg (fun _ => 0) _ _ HO _)).
  refine (proj1 (fve_lin_fold n' o2n asg (fun _ => 0) _ _ HO _)).
  apply add_offset_inv. apply empty_inv.
Qed.

(* its energy at a sample of the new model is the energy of the source at the lifted sample *)
Theorem fix_copy_expr_energy : forall n' vt' src o2n asg s', O2nOk n' o2n ->
  FoldCond vt' s' (e_vars src) o2n (e_quad src) ->
  energy (abs_expr (fix_variables_expr vt' src o2n asg)) s' = energy (abs_expr src) (lift_sample o2n asg s').
Proof.
  intros n' vt' src o2n asg s' HO FC. unfold fix_variables_expr.
  pose proof (add_offset_inv n' e_empty (e_off src) (empty_inv n')) as I0.
  destruct (fve_lin_fold n' o2n asg s' (combine (e_vars src) (e_lin src)) _ HO I0) as [I1 E1].
  destruct (fve_quad_fold n' vt' (e_vars src) o2n asg s' (e_quad src) _ HO I1) as [_ E2].
  rewrite (E2 FC), E1, add_offset_abs, energy_add_offset.
  rewrite (energy_abs src). unfold LinE, QuadE, energy, abs_expr, e_empty. cbn [p_off p_lin p_quad e_off e_vars e_lin e_quad combine map].
  unfold lin_energy at 1, quad_energy at 1. cbn [map qsum]. ring.
Qed.

(* the local indices of dst: the linear phase enforces the surviving variables of src in source
   order, so the new local index of a surviving variable is its rank among the surviving local
   variables of src - a strictly monotone map (the hypothesis mono_keep of Proofs/FixCopyBack.v) *)
Definition new_vars_of (o2n : list (option nat)) (l : list (nat * Qc)) : list nat :=
  flat_map (fun vb => match o2n_get o2n (fst vb) with Some k => [k] | None => [] end) l.

Lemma fve_lin_vars : forall n' o2n asg l dst, O2nOk n' o2n -> ExprInv n' dst ->
  NoDup (e_vars dst ++ new_vars_of o2n l) ->
  e_vars (fold_left (fve_lin_step o2n asg) l dst) = e_vars dst ++ new_vars_of o2n l.
Proof.
  intros n' o2n asg l. induction l as [|[v b] r IH]; intros dst HO I ND.
  - cbn [fold_left new_vars_of flat_map]. rewrite app_nil_r. reflexivity.
  - cbn [fold_left]. unfold fve_lin_step at 2. unfold new_vars_of in *. cbn [flat_map fst] in *.
    destruct (o2n_get o2n v) as [k|] eqn:E.
    + pose proof (HO v k E) as Hk. cbn [app] in ND.
      assert (Hn : ~ In k (e_vars dst)).
      { intros C. apply NoDup_remove_2 in ND. apply ND. apply in_or_app. left. exact C. }
      assert (EV : e_vars (m_add_linear k b dst) = e_vars dst ++ [k]).
      { unfold m_add_linear. rewrite (enforce_absent n' dst k I Hn). reflexivity. }
      rewrite IH; [|exact HO|apply add_linear_inv; assumption|].
      * rewrite EV, <- app_assoc. reflexivity.
      * rewrite EV, <- app_assoc. exact ND.
    + cbn [app] in *. rewrite IH; [reflexivity|exact HO|apply add_offset_inv; exact I|exact ND].
Qed.

Theorem fix_copy_lin_phase_vars : forall n' src o2n asg, O2nOk n' o2n ->
  NoDup (new_vars_of o2n (combine (e_vars src) (e_lin src))) ->
  e_vars (fold_left (fve_lin_step o2n asg) (combine (e_vars src) (e_lin src)) (m_add_offset (e_off src) e_empty))
  = new_vars_of o2n (combine (e_vars src) (e_lin src)).
Proof.
  intros n' src o2n asg HO ND.
  apply (fve_lin_vars n' o2n asg _ (m_add_offset (e_off src) e_empty) HO); [apply add_offset_inv, empty_inv|exact ND].
Qed.

(* ================================================================== *)
(* 2. the vectors fix_variables builds                                  *)
(* ================================================================== *)

Definition memn (v : nat) (l : list nat) : bool := existsb (Nat.eqb v) l.

Lemma memn_In : forall v l, memn v l = true <-> In v l.
Proof. intros v l. unfold memn. apply existsb_eqb_In. Qed.

Lemma nth_upd_nth_same : forall {A} (f : A -> A) l i d, (i < length l)%nat -> nth i (upd_nth i f l) d = f (nth i l d).
Proof.
  intros A f l. induction l as [|x r IH]; intros i d H; cbn [length] in H; [lia|].
  destruct i; cbn [upd_nth nth]; [reflexivity|]. apply IH. lia.
Qed.

Lemma nth_upd_nth_other : forall {A} (f : A -> A) l i j d, i <> j -> nth i (upd_nth j f l) d = nth i l d.
Proof.
  intros A f l. induction l as [|x r IH]; intros i j d H; [destruct j; reflexivity|].
  destruct j; destruct i; cbn [upd_nth nth]; try reflexivity; [lia|]. apply IH. lia.
Qed.

Lemma mark_fold_length : forall fixed m, length (fold_left (fun m v => upd_nth v (fun _ => true) m) fixed m) = length m.
Proof. induction fixed as [|a r IH]; intros m; cbn [fold_left]; [reflexivity|]. rewrite IH. apply upd_nth_length. Qed.

Lemma mark_fold_nth : forall fixed m v, (v < length m)%nat ->
  nth v (fold_left (fun m v => upd_nth v (fun _ => true) m) fixed m) false = memn v fixed || nth v m false.
Proof.
  induction fixed as [|a r IH]; intros m v H; cbn [fold_left]; [reflexivity|].
  rewrite IH by (rewrite upd_nth_length; exact H). unfold memn. cbn [existsb].
  destruct (Nat.eqb_spec v a) as [->|Hne].
  - rewrite nth_upd_nth_same by exact H. rewrite orb_true_r. reflexivity.
  - rewrite nth_upd_nth_other by exact Hne. reflexivity.
Qed.

Lemma mark_fixed_length : forall n fixed, length (mark_fixed n fixed) = n.
Proof. intros n fixed. unfold mark_fixed. rewrite mark_fold_length. apply repeat_length. Qed.

Lemma nth_repeat_any : forall {A} (x : A) n v, nth v (repeat x n) x = x.
Proof. intros A x n. induction n as [|n IH]; intros v; destruct v; cbn [repeat nth]; try reflexivity. apply IH. Qed.

Lemma mark_fixed_nth : forall n fixed v, (v < n)%nat -> nth v (mark_fixed n fixed) false = memn v fixed.
Proof.
  intros n fixed v H. unfold mark_fixed. rewrite mark_fold_nth by (rewrite repeat_length; exact H).
  rewrite nth_repeat_any. apply orb_false_r.
Qed.

(* number of un-fixed variables below v *)
Definition unfixed_below (marks : list bool) (v : nat) : nat := length (filter negb (firstn v marks)).

Lemma number_from_nth : forall marks next v, (v < length marks)%nat ->
  nth v (number_from next marks) None
  = if nth v marks false then None else Some (next + unfixed_below marks v)%nat.
Proof.
  induction marks as [|m r IH]; intros next v H; cbn [length] in H; [lia|].
  destruct v as [|v].
  - destruct m; cbn [number_from nth]; [reflexivity|]. unfold unfixed_below. cbn [firstn filter length]. f_equal. lia.
  - destruct m; cbn [number_from nth]; rewrite IH by lia; destruct (nth v r false); try reflexivity;
      unfold unfixed_below; cbn [firstn filter negb length]; f_equal; lia.
Qed.

Lemma number_from_nth_out : forall marks next v, (length marks <= v)%nat -> nth v (number_from next marks) None = None.
Proof.
  induction marks as [|m r IH]; intros next v H; [destruct v; reflexivity|].
  cbn [length] in H. destruct v; [lia|]. destruct m; cbn [number_from nth]; apply IH; lia.
Qed.

Lemma unfixed_below_S : forall marks v, (v < length marks)%nat ->
  unfixed_below marks (S v) = (unfixed_below marks v + if nth v marks false then 0 else 1)%nat.
Proof.
  induction marks as [|m r IH]; intros v H; cbn [length] in H; [lia|].
  destruct v as [|v].
  - unfold unfixed_below. destruct m; reflexivity.
  - unfold unfixed_below in *. specialize (IH v ltac:(lia)).
    cbn [firstn nth] in *. destruct m; cbn [filter negb length]; rewrite IH; lia.
Qed.

Definition fixed_below (fixed : list nat) (v : nat) : nat := length (filter (fun w => (w <? v)%nat) fixed).

Lemma fixed_below_S : forall fixed v, NoDup fixed ->
  fixed_below fixed (S v) = (fixed_below fixed v + if memn v fixed then 1 else 0)%nat.
Proof.
  unfold fixed_below, memn. induction fixed as [|a r IH]; intros v ND; [reflexivity|].
  inversion ND as [|? ? Hn ND']; subst. cbn [filter existsb]. rewrite Nat.eqb_sym.
  destruct (Nat.eqb_spec a v) as [->|Hne].
  - assert (M : existsb (Nat.eqb v) r = false).
    { destruct (existsb (Nat.eqb v) r) eqn:E; [|reflexivity]. apply existsb_eqb_In in E. contradiction. }
    specialize (IH v ND'). rewrite M in IH. cbn [orb].
    destruct (Nat.ltb_spec v (S v)); [|lia]. destruct (Nat.ltb_spec v v); [lia|]. cbn [length]. lia.
  - cbn [orb]. pose proof (IH v ND') as P.
    destruct (existsb (Nat.eqb v) r);
    destruct (Nat.ltb_spec a (S v)); destruct (Nat.ltb_spec a v); cbn [length]; lia.
Qed.

Lemma unfixed_plus_fixed : forall n fixed v, NoDup fixed -> (v <= n)%nat ->
  (unfixed_below (mark_fixed n fixed) v + fixed_below fixed v = v)%nat.
Proof.
  intros n fixed v ND. induction v as [|v IH]; intros H.
  - unfold unfixed_below, fixed_below. cbn [firstn filter length].
    rewrite (filter_ext _ (fun _ => false)); [|intros a; reflexivity].
    induction fixed; [reflexivity|]. cbn [filter]. inversion ND; subst. auto.
  - rewrite unfixed_below_S by (rewrite mark_fixed_length; lia).
    rewrite mark_fixed_nth by lia. rewrite (fixed_below_S fixed v ND).
    specialize (IH ltac:(lia)). destruct (memn v fixed); lia.
Qed.

(* old_to_new: -1 on the fixed variables, otherwise the rank among the survivors *)
Theorem old_to_new_spec : forall n fixed v, NoDup fixed -> (v < n)%nat ->
  o2n_get (old_to_new_of n fixed) v = if memn v fixed then None else Some (new_index fixed v).
Proof.
  intros n fixed v ND H. unfold o2n_get, old_to_new_of.
  rewrite number_from_nth by (rewrite mark_fixed_length; exact H). rewrite mark_fixed_nth by exact H.
  destruct (memn v fixed); [reflexivity|]. f_equal. cbn [Nat.add].
  pose proof (unfixed_plus_fixed n fixed v ND ltac:(lia)) as P. unfold new_index. fold (fixed_below fixed v). lia.
Qed.

Theorem old_to_new_out : forall n fixed v, (n <= v)%nat -> o2n_get (old_to_new_of n fixed) v = None.
Proof.
  intros n fixed v H. unfold o2n_get, old_to_new_of. apply number_from_nth_out. rewrite mark_fixed_length. exact H.
Qed.

Lemma fixed_below_le : forall fixed v, NoDup fixed -> (fixed_below fixed v <= v)%nat.
Proof.
  intros fixed v ND. induction v as [|v IH].
  - unfold fixed_below. rewrite (filter_ext _ (fun _ => false)); [|intros a; reflexivity].
    clear ND. induction fixed; [cbn; lia|]. cbn [filter]. exact IHfixed.
  - rewrite fixed_below_S by exact ND. destruct (memn v fixed); lia.
Qed.

Lemma fixed_below_all : forall fixed n, Forall (fun w => (w < n)%nat) fixed -> fixed_below fixed n = length fixed.
Proof.
  intros fixed n F. unfold fixed_below. induction F as [|a r Ha F IH]; [reflexivity|].
  cbn [filter]. destruct (Nat.ltb_spec a n); [|lia]. cbn [length]. rewrite IH. reflexivity.
Qed.

Lemma fixed_below_mono : forall fixed u v, (u <= v)%nat -> (fixed_below fixed u <= fixed_below fixed v)%nat.
Proof.
  intros fixed u v H. unfold fixed_below. induction fixed as [|a r IH]; [cbn; lia|].
  cbn [filter]. destruct (Nat.ltb_spec a u); destruct (Nat.ltb_spec a v); cbn [length]; lia.
Qed.

Lemma unfixed_below_mono : forall marks u v, (u <= v)%nat -> (unfixed_below marks u <= unfixed_below marks v)%nat.
Proof.
  intros marks u v H. unfold unfixed_below. replace v with (u + (v - u))%nat by lia.
  generalize (v - u)%nat as d. clear H. revert u.
  induction marks as [|x l IHl]; intros c d; [destruct c; destruct d; cbn; lia|].
  destruct c as [|c]; [cbn [firstn filter length]; lia|].
  cbn [Nat.add firstn filter]. specialize (IHl c d). destruct (negb x); cbn [length]; lia.
Qed.

(* the new indices are indices of the new model, which has n - #fixed variables *)
Theorem old_to_new_ok : forall n fixed, NoDup fixed -> Forall (fun w => (w < n)%nat) fixed ->
  O2nOk (n - length fixed) (old_to_new_of n fixed).
Proof.
  intros n fixed ND F v k E. destruct (Nat.lt_ge_cases v n) as [H|H].
  - rewrite (old_to_new_spec n fixed v ND H) in E. destruct (memn v fixed) eqn:M; [discriminate|].
    injection E as <-. unfold new_index. fold (fixed_below fixed v).
    pose proof (unfixed_plus_fixed n fixed v ND ltac:(lia)) as P1.
    pose proof (unfixed_plus_fixed n fixed (S v) ND ltac:(lia)) as P2.
    rewrite unfixed_below_S in P2 by (rewrite mark_fixed_length; lia).
    rewrite mark_fixed_nth, M in P2 by exact H.
    pose proof (unfixed_plus_fixed n fixed n ND ltac:(lia)) as P3.
    rewrite (fixed_below_all fixed n F) in P3.
    pose proof (unfixed_below_mono (mark_fixed n fixed) (S v) n ltac:(lia)) as P5.
    rewrite unfixed_below_S in P5 by (rewrite mark_fixed_length; lia).
    rewrite mark_fixed_nth, M in P5 by exact H.
    pose proof (fixed_below_S fixed v ND) as P4. rewrite M in P4. lia.
  - rewrite (old_to_new_out n fixed v H) in E. discriminate.
Qed.

(* distinct surviving variables get distinct new indices *)
Theorem old_to_new_inj : forall n fixed u v k, NoDup fixed ->
  o2n_get (old_to_new_of n fixed) u = Some k -> o2n_get (old_to_new_of n fixed) v = Some k -> u = v.
Proof.
  intros n fixed u v k ND Eu Ev.
  assert (W : forall a b ka kb, (a < b)%nat -> (b < n)%nat -> memn a fixed = false -> memn b fixed = false ->
              new_index fixed a = ka -> new_index fixed b = kb -> (ka < kb)%nat).
  { intros a b ka kb Hab Hb Ma Mb <- <-. unfold new_index. fold (fixed_below fixed a) (fixed_below fixed b).
    pose proof (unfixed_plus_fixed n fixed a ND ltac:(lia)) as P1.
    pose proof (unfixed_plus_fixed n fixed (S a) ND ltac:(lia)) as P2.
    pose proof (unfixed_plus_fixed n fixed b ND ltac:(lia)) as P3.
    rewrite unfixed_below_S in P2 by (rewrite mark_fixed_length; lia).
    rewrite mark_fixed_nth, Ma in P2 by lia.
    pose proof (fixed_below_S fixed a ND) as P4. rewrite Ma in P4.
    pose proof (fixed_below_mono fixed (S a) b ltac:(lia)) as P5.
    pose proof (unfixed_below_mono (mark_fixed n fixed) (S a) b ltac:(lia)) as P6.
    rewrite unfixed_below_S in P6 by (rewrite mark_fixed_length; lia).
    rewrite mark_fixed_nth, Ma in P6 by lia.
    lia. }
  destruct (Nat.lt_ge_cases u n) as [Hu|Hu]; [|rewrite old_to_new_out in Eu by exact Hu; discriminate].
  destruct (Nat.lt_ge_cases v n) as [Hv|Hv]; [|rewrite old_to_new_out in Ev by exact Hv; discriminate].
  rewrite (old_to_new_spec n fixed u ND Hu) in Eu. rewrite (old_to_new_spec n fixed v ND Hv) in Ev.
  destruct (memn u fixed) eqn:Mu; [discriminate|]. destruct (memn v fixed) eqn:Mv; [discriminate|].
  injection Eu as Eu. injection Ev as Ev.
  destruct (Nat.lt_trichotomy u v) as [L|[L|L]]; [|exact L|].
  - pose proof (W u v k k L Hv Mu Mv Eu Ev). lia.
  - pose proof (W v u k k L Hu Mv Mu Ev Eu). lia.
Qed.

(* assignments: the value given for each fixed variable (distinct variables) *)
Lemma asg_fold_length : forall (fs : list (nat * Qc)) a,
  length (fold_left (fun a f => upd_nth (fst f) (fun _ => snd f) a) fs a) = length a.
Proof. induction fs as [|f r IH]; intros a; cbn [fold_left]; [reflexivity|]. rewrite IH. apply upd_nth_length. Qed.

Lemma asg_fold_notin : forall (fs : list (nat * Qc)) a v, ~ In v (map fst fs) ->
  nth v (fold_left (fun a f => upd_nth (fst f) (fun _ => snd f) a) fs a) 0 = nth v a 0.
Proof.
  induction fs as [|f r IH]; intros a v H; cbn [fold_left]; [reflexivity|]. cbn [map In] in H.
  rewrite IH by tauto. apply nth_upd_nth_other. intros ->. tauto.
Qed.

Lemma asg_fold_in : forall (fs : list (nat * Qc)) a v x, NoDup (map fst fs) -> In (v, x) fs -> (v < length a)%nat ->
  nth v (fold_left (fun a f => upd_nth (fst f) (fun _ => snd f) a) fs a) 0 = x.
Proof.
  induction fs as [|f r IH]; intros a v x ND Hin H; [destruct Hin|]. cbn [fold_left].
  cbn [map] in ND. inversion ND as [|? ? Hn ND']; subst. destruct Hin as [->|Hin].
  - cbn [fst snd] in *. rewrite asg_fold_notin by exact Hn. apply nth_upd_nth_same. exact H.
  - apply IH; [exact ND'|exact Hin|rewrite upd_nth_length; exact H].
Qed.

Theorem assignments_spec : forall n fs v x, NoDup (map fst fs) -> In (v, x) fs -> (v < n)%nat ->
  asg_get (assignments_of n fs) v = x.
Proof.
  intros n fs v x ND Hin H. unfold asg_get, assignments_of. apply asg_fold_in; try assumption.
  rewrite repeat_length. exact H.
Qed.

(* ================================================================== *)
(* 3. the copy path with the vectors of fix_variables                   *)
(* ================================================================== *)

(* a list of fixings of the model with n variables: distinct model indices, all in range *)
Definition FixOk (n : nat) (fs : list (nat * Qc)) : Prop :=
  NoDup (map fst fs) /\ Forall (fun w => (w < n)%nat) (map fst fs).

(* the old sample a new sample stands for: fixed variables at their assigned value, surviving
   variables at the value of their new index *)
Definition fix_sample (fs : list (nat * Qc)) (s' : sample) : sample :=
  fold_right (fun f acc => upd acc (fst f) (snd f)) (fun w => s' (new_index (map fst fs) w)) fs.

Lemma fold_upd_notin : forall (fs : list (nat * Qc)) g u, ~ In u (map fst fs) ->
  fold_right (fun f acc => upd acc (fst f) (snd f)) g fs u = g u.
Proof.
  induction fs as [|f r IH]; intros g u H; [reflexivity|]. cbn [fold_right map In] in *.
  unfold upd at 1. destruct (Nat.eqb_spec u (fst f)) as [->|Hne]; [tauto|]. apply IH. tauto.
Qed.

Lemma fold_upd_in : forall (fs : list (nat * Qc)) g u x, NoDup (map fst fs) -> In (u, x) fs ->
  fold_right (fun f acc => upd acc (fst f) (snd f)) g fs u = x.
Proof.
  induction fs as [|f r IH]; intros g u x ND Hin; [destruct Hin|]. cbn [fold_right map] in *.
  inversion ND as [|? ? Hn ND']; subst. unfold upd at 1. destruct Hin as [->|Hin].
  - cbn [fst snd]. rewrite Nat.eqb_refl. reflexivity.
  - destruct (Nat.eqb_spec u (fst f)) as [->|Hne]; [|apply IH; assumption].
    exfalso. apply Hn. apply in_map_iff. exists (fst f, x). split; [reflexivity|exact Hin].
Qed.

Lemma lift_is_fix_sample : forall n fs s' u, FixOk n fs -> (u < n)%nat ->
  lift_sample (old_to_new_of n (map fst fs)) (assignments_of n fs) s' u = fix_sample fs s' u.
Proof.
  intros n fs s' u [ND F] H. unfold lift_sample, fix_sample. rewrite (old_to_new_spec n _ u ND H).
  destruct (memn u (map fst fs)) eqn:M.
  - apply memn_In in M. apply in_map_iff in M. destruct M as [[u' x] [E Hin]]. cbn [fst] in E. subst u'.
    rewrite (assignments_spec n fs u x ND Hin H). symmetry. apply fold_upd_in; assumption.
  - assert (Hn : ~ In u (map fst fs)) by (intros C; apply memn_In in C; congruence).
    rewrite fold_upd_notin by exact Hn. reflexivity.
Qed.

Section Copy.
Variables (n : nat) (vt' : nat -> vartype) (fs : list (nat * Qc)).
Let o2n := old_to_new_of n (map fst fs).
Let asg := assignments_of n fs.

(* fix_copy_inv *)
Theorem fix_copy_inv : forall src, FixOk n fs ->
  ExprInv (n - length fs) (fix_variables_expr vt' src o2n asg).
Proof.
  intros src [ND F]. apply fix_copy_expr_inv. rewrite <- (map_length fst fs).
  apply old_to_new_ok; assumption.
Qed.

(* the energy of the copy at a sample of the new model = the energy of the source at the
   sample that gives every fixed variable its assigned value and every surviving variable
   the value of its new index *)
Theorem fix_copy_energy_lift : forall src s', ExprInv n src -> FixOk n fs -> respects vt' s' ->
  energy (abs_expr (fix_variables_expr vt' src o2n asg)) s' = energy (abs_expr src) (lift_sample o2n asg s').
Proof.
  intros src s' I [ND F] R. apply (fix_copy_expr_energy (n - length (map fst fs))).
  - apply old_to_new_ok; assumption.
  - apply respects_FoldCond. exact R.
Qed.

(* a source without a BINARY/SPIN self-loop among the surviving variables: nothing is folded *)
Definition NoFoldLoops (src : mexpr) : Prop :=
  forall t, In t (e_quad src) -> fst (fst t) = snd (fst t) ->
    forall k, o2n_get o2n (nth (fst (fst t)) (e_vars src) 0%nat) = Some k ->
      match vt' k with BINARY | SPIN => False | _ => True end.

Lemma NoFoldLoops_FoldCond : forall src s', ExprInv n src -> FixOk n fs -> NoFoldLoops src ->
  FoldCond vt' s' (e_vars src) o2n (e_quad src).
Proof.
  intros src s' I [ND F] NF t Hin k Eu Ev.
  pose proof (old_to_new_inj n (map fst fs) _ _ k ND Eu Ev) as E.
  pose proof (inv_quad _ _ I) as QD. rewrite Forall_forall in QD. destruct (QD t Hin) as [Ha Hb].
  assert (Eab : fst (fst t) = snd (fst t)).
  { apply (proj1 (NoDup_nth (e_vars src) 0%nat) (inv_nodup _ _ I)); assumption. }
  specialize (NF t Hin Eab k Eu). unfold FoldOk. destruct (vt' k); solve [destruct NF | exact NF].
Qed.

Theorem fix_copy_energy_lift_nofold : forall src s', ExprInv n src -> FixOk n fs -> NoFoldLoops src ->
  energy (abs_expr (fix_variables_expr vt' src o2n asg)) s' = energy (abs_expr src) (lift_sample o2n asg s').
Proof.
  intros src s' I OK NF. pose proof OK as [ND F]. apply (fix_copy_expr_energy (n - length (map fst fs))).
  - apply old_to_new_ok; assumption.
  - apply NoFoldLoops_FoldCond; assumption.
Qed.

Lemma lift_energy_spec : forall src s', ExprInv n src -> FixOk n fs ->
  energy (abs_expr src) (lift_sample o2n asg s')
  = energy (relabel (new_index (map fst fs)) (Poly.fix_variables fs (abs_expr src))) s'.
Proof.
  intros src s' I OK. rewrite energy_relabel, fix_variables_energy.
  apply (energy_abs_ext n src _ _ I). intros u Hu.
  pose proof (inv_lt _ _ I) as LT. rewrite Forall_forall in LT.
  apply (lift_is_fix_sample n fs s' u OK (LT u Hu)).
Qed.

(* cqm_fix_copy_energy, against the polynomial-level specification of C03 *)
Theorem fix_copy_spec : forall src s', ExprInv n src -> FixOk n fs -> respects vt' s' ->
  energy (abs_expr (fix_variables_expr vt' src o2n asg)) s'
  = energy (relabel (new_index (map fst fs)) (Poly.fix_variables fs (abs_expr src))) s'.
Proof. intros src s' I OK R. rewrite fix_copy_energy_lift by assumption. apply lift_energy_spec; assumption. Qed.

Theorem fix_copy_spec_peq : forall src, ExprInv n src -> FixOk n fs -> NoFoldLoops src ->
  peq (abs_expr (fix_variables_expr vt' src o2n asg))
      (relabel (new_index (map fst fs)) (Poly.fix_variables fs (abs_expr src))).
Proof. intros src I OK NF s'. rewrite fix_copy_energy_lift_nofold by assumption. apply lift_energy_spec; assumption. Qed.
End Copy.

(* ================================================================== *)
(* 4. the in-place path, issued with the shifted indices                 *)
(* ================================================================== *)

Definition inplace_expr (l : list (nat * Qc)) (e : mexpr) : mexpr :=
  fold_left (fun e f => m_fix (fst f) (snd f) e) l e.

Lemma shift_fixings_from_comp : forall fs g h,
  shift_fixings_from (fun w => g (h w)) fs = shift_fixings_from g (map (fun f => (h (fst f), snd f)) fs).
Proof.
  induction fs as [|f r IH]; intros g h; [reflexivity|]. cbn [shift_fixings_from map fst snd]. f_equal.
  apply (IH (fun w => shift (g (h (fst f))) (g w)) h).
Qed.

Lemma shift_fixings_from_map : forall fs g,
  shift_fixings_from g fs = shift_fixings_from (fun w => w) (map (fun f => (g (fst f), snd f)) fs).
Proof. intros fs g. apply (shift_fixings_from_comp fs (fun w => w) g). Qed.

Lemma shift_fixings_cons : forall v a r,
  shift_fixings ((v, a) :: r) = (v, a) :: shift_fixings (map (fun f => (shift v (fst f), snd f)) r).
Proof. intros v a r. unfold shift_fixings. cbn [shift_fixings_from fst snd]. f_equal. apply shift_fixings_from_map. Qed.

Lemma shift_lt_iff : forall v x w, x <> v -> w <> v -> (shift v x <? shift v w)%nat = (x <? w)%nat.
Proof.
  intros v x w Hx Hw.
  assert (Sx : shift v x = if (v <? x)%nat then pred x else x) by reflexivity.
  assert (Sw : shift v w = if (v <? w)%nat then pred w else w) by reflexivity.
  destruct (Nat.ltb_spec v x); destruct (Nat.ltb_spec v w);
    destruct (Nat.ltb_spec x w); destruct (Nat.ltb_spec (shift v x) (shift v w)); try reflexivity; lia.
Qed.

Lemma new_index_shift : forall v vs w, w <> v -> ~ In v vs ->
  new_index (v :: vs) w = new_index (map (shift v) vs) (shift v w).
Proof.
  intros v vs w Hw Hn. unfold new_index. cbn [filter].
  assert (E : length (filter (fun x => (x <? shift v w)%nat) (map (shift v) vs)) = length (filter (fun x => (x <? w)%nat) vs)).
  { induction vs as [|x r IH]; [reflexivity|]. cbn [map filter]. cbn [In] in Hn.
    rewrite shift_lt_iff by (try exact Hw; intros ->; tauto).
    destruct (x <? w)%nat; cbn [length]; rewrite IH by tauto; reflexivity. }
  rewrite E. unfold shift. destruct (Nat.ltb_spec v w); cbn [length]; lia.
Qed.

Lemma fold_upd_shift : forall v (r : list (nat * Qc)) g g' w, w <> v -> ~ In v (map fst r) ->
  (~ In w (map fst r) -> g' (shift v w) = g w) ->
  fold_right (fun f acc => upd acc (fst f) (snd f)) g' (map (fun f => (shift v (fst f), snd f)) r) (shift v w)
  = fold_right (fun f acc => upd acc (fst f) (snd f)) g r w.
Proof.
  intros v r g g' w Hw. induction r as [|f r IH]; intros Hn Hg; [apply Hg; intros []|].
  cbn [map fold_right fst snd In] in *. unfold upd at 1 3.
  destruct (Nat.eqb_spec w (fst f)) as [->|Hne].
  - rewrite Nat.eqb_refl. reflexivity.
  - destruct (Nat.eqb_spec (shift v w) (shift v (fst f))) as [E|_].
    + exfalso. apply Hne. apply (shift_inj v); try assumption. intros C. apply Hn. left. exact C.
    + apply IH; [tauto|]. intros H. apply Hg. intros [C|C]; [apply Hne; symmetry; exact C|exact (H C)].
Qed.

Lemma FixOk_tail : forall n v a r, FixOk n ((v, a) :: r) ->
  (v < n)%nat /\ ~ In v (map fst r) /\ FixOk (pred n) (map (fun f => (shift v (fst f), snd f)) r).
Proof.
  intros n v a r [ND F]. cbn [map fst] in *. inversion ND as [|? ? Hn ND']; subst. inversion F as [|? ? Hv F']; subst.
  split; [exact Hv|]. split; [exact Hn|]. unfold FixOk. rewrite map_map. cbn [fst].
  rewrite <- (map_map fst (shift v)). split.
  - apply NoDup_map_shift; assumption.
  - rewrite Forall_forall in *. intros x Hx. apply in_map_iff in Hx. destruct Hx as [y [<- Hy]].
    apply shift_lt; [apply F'; exact Hy| intros ->; contradiction|exact Hv].
Qed.

(* the in-place path against the same polynomial-level specification *)
Theorem fix_inplace_spec : forall fs n e, ExprInv n e -> FixOk n fs ->
  ExprInv (n - length fs) (inplace_expr (shift_fixings fs) e)
  /\ peq (abs_expr (inplace_expr (shift_fixings fs) e))
         (relabel (new_index (map fst fs)) (Poly.fix_variables fs (abs_expr e))).
Proof.
  intros fs. remember (length fs) as k eqn:Hk. revert fs Hk.
  induction k as [|k IH]; intros fs Hk n e I OK; destruct fs as [|[v a] r]; cbn [length] in Hk; try discriminate.
  - cbn [shift_fixings shift_fixings_from inplace_expr fold_left length]. rewrite Nat.sub_0_r. split; [exact I|].
    intros s. rewrite energy_relabel. cbn [Poly.fix_variables fold_left map].
    apply energy_ext. intros w. unfold new_index. cbn [filter length]. rewrite Nat.sub_0_r. reflexivity.
  - destruct (FixOk_tail n v a r OK) as [Hv [Hn OK']].
    rewrite shift_fixings_cons. unfold inplace_expr. cbn [fold_left fst snd]. fold (inplace_expr (shift_fixings (map (fun f => (shift v (fst f), snd f)) r)) (m_fix v a e)).
    destruct (IH (map (fun f => (shift v (fst f), snd f)) r) ltac:(rewrite map_length; lia) (pred n) (m_fix v a e) (fix_inv n e v a I Hv) OK') as [I' E'].
    split; [replace (n - S k)%nat with (pred n - k)%nat by lia; exact I'|].
    intros s. rewrite (E' s). rewrite !energy_relabel, !fix_variables_energy. rewrite (fix_energy n e v a _ I).
    apply energy_ext. intros w. cbn [fold_right fst snd map].
    assert (U : forall g x, upd g v a x = if (x =? v)%nat then a else g x) by reflexivity. rewrite !U.
    destruct (Nat.eqb_spec w v) as [->|Hne]; [reflexivity|].
    apply (fold_upd_shift v r _ _ w Hne Hn). intros Hw.
    rewrite map_map. cbn [fst]. rewrite <- (map_map fst (shift v)). rewrite <- new_index_shift by assumption. reflexivity.
Qed.

(* fix_paths_agree, expression level: both paths stand for the same polynomial *)
Theorem fix_paths_agree_expr : forall n vt' fs src s', ExprInv n src -> FixOk n fs -> respects vt' s' ->
  energy (abs_expr (fix_variables_expr vt' src (old_to_new_of n (map fst fs)) (assignments_of n fs))) s'
  = energy (abs_expr (inplace_expr (shift_fixings fs) src)) s'.
Proof.
  intros n vt' fs src s' I OK R. rewrite (fix_copy_spec n vt' fs src s' I OK R).
  symmetry. apply (proj2 (fix_inplace_spec fs n src I OK)).
Qed.

Theorem fix_paths_agree_expr_peq : forall n vt' fs src, ExprInv n src -> FixOk n fs -> NoFoldLoops n vt' fs src ->
  peq (abs_expr (fix_variables_expr vt' src (old_to_new_of n (map fst fs)) (assignments_of n fs)))
      (abs_expr (inplace_expr (shift_fixings fs) src)).
Proof.
  intros n vt' fs src I OK NF s'. rewrite (fix_copy_spec_peq n vt' fs src I OK NF s').
  symmetry. apply (proj2 (fix_inplace_spec fs n src I OK)).
Qed.

(* ================================================================== *)
(* 5. the whole constrained model                                       *)
(* ================================================================== *)

Lemma Forall2_map_same : forall {A B C} (R : B -> C -> Prop) (f : A -> B) (g : A -> C) l,
  (forall x, In x l -> R (f x) (g x)) -> Forall2 R (map f l) (map g l).
Proof.
  intros A B C R f g l. induction l as [|x r IH]; intros H; cbn [map]; constructor.
  - apply H. left. reflexivity.
  - apply IH. intros y Hy. apply H. right. exact Hy.
Qed.

(* the variables of the new model are the surviving ones, in order *)
Lemma surviving_number : forall {A} marks next (l : list A) u k, length l = length marks ->
  nth u (number_from next marks) None = Some k ->
  (next <= k)%nat /\ nth_error (surviving (number_from next marks) l) (k - next) = nth_error l u.
Proof.
  intros A marks. induction marks as [|m r IH]; intros next l u k HL E.
  - destruct u; discriminate E.
  - destruct l as [|x l]; cbn [length] in HL; [discriminate|].
    destruct m; cbn [number_from] in *; unfold surviving in *; cbn [combine filter fst map] in *.
    + destruct u as [|u]; cbn [nth] in E; [discriminate|]. cbn [nth_error]. apply IH; [lia|exact E].
    + destruct u as [|u]; cbn [nth] in E.
      * injection E as <-. split; [lia|]. rewrite Nat.sub_diag. reflexivity.
      * destruct (IH (S next) l u k ltac:(lia) E) as [H1 H2]. split; [lia|].
        replace (k - next)%nat with (S (k - S next)) by lia. cbn [nth_error snd]. exact H2.
Qed.

Lemma surviving_length : forall {A} marks next (l : list A), length l = length marks ->
  length (surviving (number_from next marks) l) = unfixed_below marks (length marks).
Proof.
  intros A marks. unfold unfixed_below. induction marks as [|m r IH]; intros next l HL; [reflexivity|].
  destruct l as [|x l]; cbn [length] in HL; [discriminate|].
  destruct m; cbn [number_from length firstn filter negb]; unfold surviving in *; cbn [combine filter fst map length].
  - apply IH. lia.
  - f_equal. apply IH. lia.
Qed.

Theorem copy_info_length : forall fs q, FixOk (length (m_info q)) fs ->
  length (m_info (cqm_fix_variables_copy fs q)) = (length (m_info q) - length fs)%nat.
Proof.
  intros fs q [ND F]. unfold cqm_fix_variables_copy. cbn [m_info]. unfold old_to_new_of.
  rewrite surviving_length by (rewrite mark_fixed_length; reflexivity). rewrite mark_fixed_length.
  pose proof (unfixed_plus_fixed (length (m_info q)) (map fst fs) (length (m_info q)) ND (le_n _)) as P.
  rewrite (fixed_below_all _ _ F), map_length in P. lia.
Qed.

(* new variable k carries the vartype and bounds of the old variable it stands for *)
Theorem copy_info_nth : forall fs q u k,
  o2n_get (old_to_new_of (length (m_info q)) (map fst fs)) u = Some k ->
  nth_error (m_info (cqm_fix_variables_copy fs q)) k = nth_error (m_info q) u.
Proof.
  intros fs q u k E. unfold cqm_fix_variables_copy. cbn [m_info]. unfold o2n_get, old_to_new_of in *.
  destruct (surviving_number (mark_fixed (length (m_info q)) (map fst fs)) 0 (m_info q) u k
              ltac:(rewrite mark_fixed_length; reflexivity) E) as [_ H].
  rewrite Nat.sub_0_r in H. exact H.
Qed.

(* the attributes the property compares *)
Definition con_attrs (k : mcon) := (mc_sense k, mc_rhs k, mc_weight k, mc_pen k).

(* cqm_fix_copy_energy: objective and every constraint of the copy, at every sample of the new
   model that respects the new vartypes, have the energy of the original at the lifted sample;
   sense / rhs / weight / penalty are copied; the new model is well formed *)
Theorem cqm_fix_copy_energy : forall fs q, CqmInv q -> FixOk (length (m_info q)) fs ->
  let n := length (m_info q) in
  let q' := cqm_fix_variables_copy fs q in
  let L := lift_sample (old_to_new_of n (map fst fs)) (assignments_of n fs) in
  CqmInv q'
  /\ (forall s', respects (vt_of_info (m_info q')) s' ->
        energy (abs_expr (m_obj q')) s' = energy (abs_expr (m_obj q)) (L s'))
  /\ Forall2 (fun k' k => (forall s', respects (vt_of_info (m_info q')) s' ->
                              energy (abs_expr (mc_e k')) s' = energy (abs_expr (mc_e k)) (L s'))
                          /\ con_attrs k' = con_attrs k) (m_cons q') (m_cons q).
Proof.
  intros fs q [IO IC] OK n q' L. pose proof (copy_info_length fs q OK) as HL. fold n in HL.
  split; [|split].
  - split; unfold q'; rewrite HL.
    + apply fix_copy_inv. exact OK.
    + cbn [m_cons cqm_fix_variables_copy]. apply Forall_map. rewrite Forall_forall. intros k _.
      cbn [fix_copy_con mc_e]. apply fix_copy_inv. exact OK.
  - intros s' R. apply (fix_copy_energy_lift n); assumption.
  - unfold q'. cbn [m_cons cqm_fix_variables_copy]. rewrite <- (map_id (m_cons q)) at 2.
    apply Forall2_map_same. intros k Hk. rewrite Forall_forall in IC. split; [|reflexivity].
    intros s' R. cbn [fix_copy_con mc_e]. apply (fix_copy_energy_lift n); try assumption. apply IC. exact Hk.
Qed.

(* the in-place path on the whole model is the in-place path on every expression *)
Lemma mc_set_e_id : forall k, mc_set_e k (mc_e k) = k.
Proof. intros [e s r w p m]. reflexivity. Qed.

Lemma cqm_inplace_fields : forall l q,
  let q' := fold_left (fun q f => cqm_fix_variable (fst f) (snd f) q) l q in
  m_obj q' = inplace_expr l (m_obj q)
  /\ m_cons q' = map (fun k => mc_set_e k (inplace_expr l (mc_e k))) (m_cons q).
Proof.
  induction l as [|f r IH]; intros q; cbn [fold_left].
  - split; [reflexivity|]. unfold inplace_expr. cbn [fold_left]. rewrite (map_ext _ (fun k => k)) by apply mc_set_e_id.
    symmetry. apply map_id.
  - destruct (IH (cqm_fix_variable (fst f) (snd f) q)) as [H1 H2]. cbn zeta in *. rewrite H1, H2. split.
    + reflexivity.
    + unfold cqm_fix_variable, cqm_remove_variable, cqm_substitute. cbn [m_cons]. rewrite !map_map.
      apply map_ext. intros [e s rr w p m]. reflexivity.
Qed.

(* fix_paths_agree: the copy path and the in-place path (labels looked up in the current model,
   i.e. shifted indices) give, for the objective and every constraint, the same energy at every
   sample respecting the new vartypes, and the same sense / rhs / weight / penalty *)
Theorem fix_paths_agree : forall fs q, CqmInv q -> FixOk (length (m_info q)) fs ->
  let c := cqm_fix_variables_copy fs q in
  let i := cqm_fix_variables_inplace fs q in
  (forall s', respects (vt_of_info (m_info c)) s' -> energy (abs_expr (m_obj c)) s' = energy (abs_expr (m_obj i)) s')
  /\ Forall2 (fun kc ki => (forall s', respects (vt_of_info (m_info c)) s' ->
                              energy (abs_expr (mc_e kc)) s' = energy (abs_expr (mc_e ki)) s')
                           /\ con_attrs kc = con_attrs ki) (m_cons c) (m_cons i).
Proof.
  intros fs q [IO IC] OK c i. unfold i, cqm_fix_variables_inplace.
  destruct (cqm_inplace_fields (shift_fixings fs) q) as [H1 H2]. cbn zeta in H1, H2. rewrite H1, H2. split.
  - intros s' R. apply (fix_paths_agree_expr (length (m_info q))); assumption.
  - unfold c. cbn [m_cons cqm_fix_variables_copy]. apply Forall2_map_same. intros k Hk.
    rewrite Forall_forall in IC. split.
    + intros s' R. destruct k as [e s r w p m]. cbn [fix_copy_con mc_set_e mc_e].
      apply (fix_paths_agree_expr (length (m_info q))); try assumption. apply (IC _ Hk).
    + destruct k as [e s r w p m]. reflexivity.
Qed.

(* without the domain hypothesis: when no self interaction is folded the two paths stand for
   polynomials with equal energy at EVERY sample (hence equal coefficients, Proofs/CoeffSound.v) *)
Theorem fix_paths_agree_peq : forall fs q, CqmInv q -> FixOk (length (m_info q)) fs ->
  let n := length (m_info q) in
  let c := cqm_fix_variables_copy fs q in
  let i := cqm_fix_variables_inplace fs q in
  (NoFoldLoops n (vt_of_info (m_info c)) fs (m_obj q) -> peq (abs_expr (m_obj c)) (abs_expr (m_obj i)))
  /\ (forall j k, nth_error (m_cons q) j = Some k -> NoFoldLoops n (vt_of_info (m_info c)) fs (mc_e k) ->
        exists kc ki, nth_error (m_cons c) j = Some kc /\ nth_error (m_cons i) j = Some ki
                      /\ peq (abs_expr (mc_e kc)) (abs_expr (mc_e ki))).
Proof.
  intros fs q [IO IC] OK n c i. unfold i, cqm_fix_variables_inplace.
  destruct (cqm_inplace_fields (shift_fixings fs) q) as [H1 H2]. cbn zeta in H1, H2. rewrite H1, H2.
  split.
  - intros NF. apply (fix_paths_agree_expr_peq n); assumption.
  - intros j k Hj NF. unfold c. cbn [m_cons cqm_fix_variables_copy].
    eexists. eexists. split; [apply map_nth_error; exact Hj|]. split; [apply map_nth_error; exact Hj|].
    destruct k as [e s r w p m]. cbn [fix_copy_con mc_set_e mc_e] in *.
    apply (fix_paths_agree_expr_peq n); try assumption.
    rewrite Forall_forall in IC. apply (IC _ (nth_error_In _ _ Hj)).
Qed.

(* ================================================================== *)
(* 6. coefficients (what Model/ChkC03.v compares)                       *)
(* ================================================================== *)

(* the copy path's polynomial has, coefficient by coefficient, the coefficients of the
   polynomial-level fix_variables of the source, relabelled to the new indices *)
Theorem fix_copy_coefficients : forall n vt' fs src, ExprInv n src -> FixOk n fs -> NoFoldLoops n vt' fs src ->
  let c := abs_expr (fix_variables_expr vt' src (old_to_new_of n (map fst fs)) (assignments_of n fs)) in
  let spec := relabel (new_index (map fst fs)) (Poly.fix_variables fs (abs_expr src)) in
  p_off c = p_off spec
  /\ (forall x, lin_coeff (p_lin c) x = lin_coeff (p_lin spec) x)
  /\ (forall x y, quad_coeff (p_quad c) x y = quad_coeff (p_quad spec) x y)
  /\ (forall m, poly_coeff_eqb m c spec = true).
Proof.
  intros n vt' fs src I OK NF c spec.
  pose proof (fix_copy_spec_peq n vt' fs src I OK NF) as E. fold c spec in E. unfold peq in E.
  split; [exact (ce_off c spec E)|]. split; [exact (ce_lin c spec E)|]. split; [exact (ce_quad c spec E)|].
  intros m. apply coeff_eq_complete. exact E.
Qed.

(* the same for the in-place path, hence both paths report the same coefficients *)
Theorem fix_paths_same_coefficients : forall n vt' fs src, ExprInv n src -> FixOk n fs -> NoFoldLoops n vt' fs src ->
  let c := abs_expr (fix_variables_expr vt' src (old_to_new_of n (map fst fs)) (assignments_of n fs)) in
  let i := abs_expr (inplace_expr (shift_fixings fs) src) in
  p_off c = p_off i
  /\ (forall x, lin_coeff (p_lin c) x = lin_coeff (p_lin i) x)
  /\ (forall x y, quad_coeff (p_quad c) x y = quad_coeff (p_quad i) x y).
Proof.
  intros n vt' fs src I OK NF c i.
  pose proof (fix_paths_agree_expr_peq n vt' fs src I OK NF) as E. fold c i in E. unfold peq in E.
  split; [exact (ce_off c i E)|]. split; [exact (ce_lin c i E)|exact (ce_quad c i E)].
Qed.

Print Assumptions fix_copy_lin_phase_vars.
Print Assumptions fix_copy_expr_inv.
Print Assumptions fix_copy_expr_energy.
Print Assumptions fix_copy_inv.
Print Assumptions fix_copy_spec.
Print Assumptions fix_copy_spec_peq.
Print Assumptions fix_inplace_spec.
Print Assumptions cqm_fix_copy_energy.
Print Assumptions copy_info_nth.
Print Assumptions fix_paths_agree.
Print Assumptions fix_paths_agree_peq.
Print Assumptions fix_copy_coefficients.
Print Assumptions fix_paths_same_coefficients.
