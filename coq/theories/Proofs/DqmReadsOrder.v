(* C20 - the dict form of get_quadratic lists its triples strictly sorted by (case of u, case of v): no case pair twice. *)
From Coq Require Import List ZArith QArith Qcanon Bool Arith Lia Sorted.
From Dimod Require Import Base.Util Model.Poly Model.Adj Model.AdjMore Model.DqmNative
  Proofs.AdjNb Proofs.AdjInv Proofs.AdjRW Proofs.DqmNativeFacts Proofs.DqmRoundTrip Proofs.DqmReads Proofs.DqmReadsMore.
Import ListNotations.
Local Open Scope nat_scope.

Definition in_span (lo hi : nat) (e : nat * Qc) : bool := (lo <=? fst e) && (fst e <? hi).

Lemma filter_none {A} (p : A -> bool) l : (forall x, In x l -> p x = false) -> filter p l = [].
Proof.
  induction l as [|a l IH]; intros H; [reflexivity|]. cbn [filter]. rewrite (H a (or_introl eq_refl)).
  apply IH. intros x Hx. apply H. right. exact Hx.
Qed.

Lemma span_from_filter lo hi n : ksorted n -> span_from lo hi n = filter (in_span lo hi) n.
Proof.
  intros HS. induction n as [|[w x] r IH]; [reflexivity|].
  apply ksorted_cons in HS. destruct HS as [HL HS']. specialize (IH HS').
  cbn [span_from]. destruct (Nat.ltb_spec w lo) as [L|L].
  - cbn [filter]. unfold in_span at 1. cbn [fst]. destruct (Nat.leb_spec lo w); [lia|]. cbn [andb]. exact IH.
  - assert (T : forall l, ksorted l -> (forall e', In e' l -> lo <= fst e') ->
                (fix take (n : nbh) : nbh := match n with [] => [] | (w, b) :: r => if w <? hi then (w, b) :: take r else [] end) l
                = filter (in_span lo hi) l).
    { clear. induction l as [|[w x] r IH]; intros HS Hlo; [reflexivity|].
      apply ksorted_cons in HS. destruct HS as [HL HS']. cbn [filter]. unfold in_span at 1. cbn [fst].
      pose proof (Hlo (w, x) (or_introl eq_refl)) as Hw. cbn [fst] in Hw.
      destruct (Nat.leb_spec lo w); [|lia]. cbn [andb]. destruct (Nat.ltb_spec w hi) as [L|L].
      - f_equal. apply IH; [exact HS'|]. intros e' He'. apply Hlo. right. exact He'.
      - symmetry. apply filter_none. intros e He. unfold in_span. pose proof (HL e He).
        destruct (Nat.ltb_spec (fst e) hi); [lia|]. apply andb_false_r. }
    apply (T ((w, x) :: r)).
    + apply ksorted_cons. split; assumption.
    + intros e' [<-|He']; [exact L|]. pose proof (HL e' He'). cbn [fst]. lia.
Qed.

Lemma ksorted_filter (p : nat * Qc -> bool) n : ksorted n -> ksorted (filter p n).
Proof.
  unfold ksorted. induction n as [|e r IH]; intros KS; [constructor|]. cbn [filter].
  apply StronglySorted_inv in KS. destruct KS as [KS F]. destruct (p e).
  - cbn [map]. constructor; [apply IH; exact KS|]. apply Forall_forall. intros x Hx. apply in_map_iff in Hx.
    destruct Hx as [e' [<- He']]. apply filter_In in He'. destruct He' as [He' _].
    rewrite Forall_forall in F. apply F. apply in_map. exact He'.
  - apply IH. exact KS.
Qed.

Lemma row_sorted cu lo (sp : nbh) :
  ksorted sp -> (forall e, In e sp -> lo <= fst e) ->
  StronglySorted coo_lt (map (fun e => (cu, fst e - lo, snd e)) sp).
Proof.
  induction sp as [|[w x] r IH]; intros KS Hlo; [constructor|]. apply ksorted_cons in KS. destruct KS as [HL KS].
  cbn [map]. constructor.
  - apply IH; [exact KS|]. intros e He. apply Hlo. right. exact He.
  - apply Forall_forall. intros t Ht. apply in_map_iff in Ht. destruct Ht as [e [<- He]]. right. cbn [fst snd].
    split; [reflexivity|]. pose proof (HL e He). pose proof (Hlo (w, x) (or_introl eq_refl)). cbn [fst] in *. lia.
Qed.

Theorem get_quadratic_sorted d u v l :
  DInv d -> u < d_nvars d -> get_quadratic d u v = Some l -> StronglySorted coo_lt l.
Proof.
  intros HD Hu HG. unfold get_quadratic in HG. destruct (lb_has v (d_nb d u)); [|discriminate]. injection HG as <-.
  apply DInv_iff in HD. destruct HD as [HI _].
  apply flat_map_sorted.
  - rewrite <- (map_id (seq 0 (d_ncases d u))). apply (DqmOneHot.SS_map_seq (fun x => x)). intros x y _ H _. exact H.
  - intros cu _. apply row_sorted.
    + rewrite span_from_filter by (apply Inv_sorted; exact HI). apply ksorted_filter. apply Inv_sorted. exact HI.
    + intros e He. apply span_from_In in He; [|apply Inv_sorted; exact HI]. lia.
  - intros x y a c Hxy Ha Hc. apply in_map_iff in Ha, Hc. destruct Ha as [ea [<- _]], Hc as [ec [<- _]].
    left. cbn [fst]. exact Hxy.
Qed.

Theorem get_quadratic_keys_NoDup d u v l :
  DInv d -> u < d_nvars d -> get_quadratic d u v = Some l -> NoDup (map fst l).
Proof. intros HD Hu HG. apply coo_sorted_NoDup. apply (get_quadratic_sorted d u v l HD Hu HG). Qed.

Print Assumptions get_quadratic_sorted.
Print Assumptions get_quadratic_keys_NoDup.
