(* Energy identities of the plain-polynomial level. *)
From Coq Require Import List ZArith QArith Qcanon Bool Arith Lia.
From Dimod Require Import Base.Util Model.Poly.
Import ListNotations.
Open Scope Qc_scope.

Ltac se := unfold energy, lin_energy, quad_energy, lterm_val, qterm_val, pzero; cbn [map qsum p_off p_lin p_quad fst snd app].

Lemma qsum_app l1 l2 : qsum (l1 ++ l2) = qsum l1 + qsum l2.
Proof. induction l1 as [|x xs IH]; cbn [qsum app]; [ring|rewrite IH; ring]. Qed.

Lemma lin_energy_app a b s : lin_energy (a ++ b) s = lin_energy a s + lin_energy b s.
Proof. unfold lin_energy. rewrite map_app, qsum_app. reflexivity. Qed.

Lemma quad_energy_app a b s : quad_energy (a ++ b) s = quad_energy a s + quad_energy b s.
Proof. unfold quad_energy. rewrite map_app, qsum_app. reflexivity. Qed.

Lemma lin_energy_cons t l s : lin_energy (t :: l) s = snd t * s (fst t) + lin_energy l s.
Proof. reflexivity. Qed.

Lemma quad_energy_cons t l s :
  quad_energy (t :: l) s = snd t * s (fst (fst t)) * s (snd (fst t)) + quad_energy l s.
Proof. reflexivity. Qed.

Lemma energy_padd a b s : energy (padd a b) s = energy a s + energy b s.
Proof. unfold energy, padd; cbn [p_off p_lin p_quad]. rewrite lin_energy_app, quad_energy_app. ring. Qed.

Lemma energy_pzero s : energy pzero s = 0.
Proof. se. ring. Qed.

Lemma energy_psum l s : energy (psum l) s = qsum (map (fun p => energy p s) l).
Proof.
  induction l as [|p ps IH]; cbn [psum fold_right map qsum].
  - apply energy_pzero.
  - fold (psum ps). rewrite energy_padd, IH. reflexivity.
Qed.

Lemma energy_add_offset b p s : energy (add_offset b p) s = energy p s + b.
Proof. unfold energy, add_offset; cbn [p_off p_lin p_quad]. ring. Qed.

Lemma energy_add_linear v b p s : energy (add_linear v b p) s = energy p s + b * s v.
Proof. unfold energy, add_linear; cbn [p_off p_lin p_quad]. rewrite lin_energy_cons. cbn [fst snd]. ring. Qed.

(* C01/C04/C06: self interactions fold correctly for samples in the variable's domain *)
Lemma energy_add_quadratic vt u v b p s :
  respects vt s -> energy (add_quadratic vt u v b p) s = energy p s + b * s u * s v.
Proof.
  intros Hr. unfold add_quadratic.
  destruct (Nat.eqb_spec u v) as [->|Hne].
  - pose proof (Hr v) as Hv. destruct (vt v).
    + rewrite energy_add_linear. rewrite <- Qcmult_assoc, Hv. reflexivity.
    + rewrite energy_add_offset. rewrite <- Qcmult_assoc, Hv. ring.
    + unfold energy; cbn [p_off p_lin p_quad]. rewrite quad_energy_cons. cbn [fst snd]. ring.
    + unfold energy; cbn [p_off p_lin p_quad]. rewrite quad_energy_cons. cbn [fst snd]. ring.
  - unfold energy; cbn [p_off p_lin p_quad]. rewrite quad_energy_cons. cbn [fst snd]. ring.
Qed.

Lemma lin_energy_scale k l s :
  lin_energy (map (fun t => (fst t, k * snd t)) l) s = k * lin_energy l s.
Proof.
  induction l as [|t l IH]; [se; ring|].
  cbn [map]. rewrite !lin_energy_cons, IH. cbn [fst snd]. ring.
Qed.

Lemma quad_energy_scale k (l : list qterm) s :
  quad_energy (map (fun t => (fst t, k * snd t)) l) s = k * quad_energy l s.
Proof.
  induction l as [|t l IH]; [se; ring|].
  cbn [map]. rewrite !quad_energy_cons, IH. cbn [fst snd]. ring.
Qed.

Lemma energy_scale k p s : energy (scale k p) s = k * energy p s.
Proof. unfold energy, scale; cbn [p_off p_lin p_quad]. rewrite lin_energy_scale, quad_energy_scale. ring. Qed.

Lemma energy_pneg p s : energy (pneg p) s = - energy p s.
Proof. unfold pneg. rewrite energy_scale. ring. Qed.

Lemma energy_psub a b s : energy (psub a b) s = energy a s - energy b s.
Proof. unfold psub. rewrite energy_padd, energy_pneg. ring. Qed.

(* ---------- relabelling ---------- *)
Lemma energy_relabel f p s : energy (relabel f p) s = energy p (fun v => s (f v)).
Proof.
  unfold energy, relabel; cbn [p_off p_lin p_quad]. f_equal; [f_equal|].
  - induction (p_lin p) as [|t l IH]; [reflexivity|]. cbn [map]. rewrite !lin_energy_cons, IH. reflexivity.
  - induction (p_quad p) as [|t l IH]; [reflexivity|]. cbn [map]. rewrite !quad_energy_cons, IH. reflexivity.
Qed.

(* ---------- substitution ---------- *)
Definition aff (s : sample) (v : label) (m c : Qc) : sample := upd s v (m * s v + c).

Lemma aff_same s v m c : aff s v m c v = m * s v + c.
Proof. unfold aff, upd. rewrite Nat.eqb_refl. reflexivity. Qed.

Lemma aff_other s v m c w : w <> v -> aff s v m c w = s w.
Proof. intros H. unfold aff, upd. destruct (Nat.eqb_spec w v); [contradiction|reflexivity]. Qed.

Lemma energy_subst_lterm v m c t s :
  energy (subst_lterm v m c t) s = snd t * aff s v m c (fst t).
Proof.
  unfold subst_lterm. destruct (Nat.eqb_spec (fst t) v) as [E|E].
  - rewrite E, aff_same. se. ring.
  - rewrite aff_other by assumption. se. ring.
Qed.

Lemma energy_subst_qterm v m c t s :
  energy (subst_qterm v m c t) s =
  snd t * aff s v m c (fst (fst t)) * aff s v m c (snd (fst t)).
Proof.
  destruct t as [[x y] b]. cbn [fst snd subst_qterm].
  destruct (Nat.eqb_spec x v) as [Ex|Ex]; destruct (Nat.eqb_spec y v) as [Ey|Ey]; subst;
    rewrite ?aff_same; rewrite ?aff_other by assumption;
    unfold two; se; ring.
Qed.

Theorem energy_substitute v m c p s :
  energy (substitute v m c p) s = energy p (aff s v m c).
Proof.
  unfold substitute. rewrite !energy_padd, !energy_psum, !map_map.
  unfold energy at 1; cbn [p_off p_lin p_quad]. unfold energy at 3.
  unfold lin_energy at 1, quad_energy at 1; cbn [map qsum].
  assert (HL : qsum (map (fun x => energy (subst_lterm v m c x) s) (p_lin p)) = lin_energy (p_lin p) (aff s v m c)).
  { unfold lin_energy. f_equal. apply map_ext. intros t. apply energy_subst_lterm. }
  assert (HQ : qsum (map (fun x => energy (subst_qterm v m c x) s) (p_quad p)) = quad_energy (p_quad p) (aff s v m c)).
  { unfold quad_energy. f_equal. apply map_ext. intros t. apply energy_subst_qterm. }
  rewrite HL, HQ. ring.
Qed.

(* ---------- removal of a variable that no longer matters ---------- *)
Lemma lin_energy_remove v l s s' :
  (forall w, w <> v -> s w = s' w) ->
  (forall t, In t l -> fst t = v -> snd t = 0) ->
  lin_energy (filter (fun t => negb (fst t =? v)%nat) l) s' = lin_energy l s.
Proof.
  intros Hs. induction l as [|t l IH]; intros H0; [reflexivity|].
  cbn [filter]. destruct (Nat.eqb_spec (fst t) v) as [E|E]; cbn [negb].
  - rewrite lin_energy_cons, IH by (intros; apply H0; [right|]; assumption).
    rewrite (H0 t (or_introl eq_refl) E). ring.
  - rewrite !lin_energy_cons, IH by (intros; apply H0; [right|]; assumption).
    rewrite (Hs _ E). reflexivity.
Qed.

Lemma quad_energy_remove v (l : list qterm) s s' :
  (forall w, w <> v -> s w = s' w) ->
  (forall t, In t l -> mentions v t = true -> snd t = 0) ->
  quad_energy (filter (fun t => negb (mentions v t)) l) s' = quad_energy l s.
Proof.
  intros Hs. induction l as [|t l IH]; intros H0; [reflexivity|].
  cbn [filter]. destruct (mentions v t) eqn:E; cbn [negb].
  - rewrite quad_energy_cons, IH by (intros; apply H0; [right|]; assumption).
    rewrite (H0 t (or_introl eq_refl) E). ring.
  - rewrite !quad_energy_cons, IH by (intros; apply H0; [right|]; assumption).
    unfold mentions in E. apply orb_false_elim in E. destruct E as [E1 E2].
    apply Nat.eqb_neq in E1, E2. rewrite (Hs _ E1), (Hs _ E2). reflexivity.
Qed.

(* after substitute v 0 a every term mentioning v has coefficient 0 *)
Lemma psum_lin_in (ps : list poly) t :
  In t (p_lin (psum ps)) -> exists p, In p ps /\ In t (p_lin p).
Proof.
  induction ps as [|p ps IH]; cbn; [tauto|]. fold (psum ps).
  rewrite in_app_iff. intros [H|H]; [exists p; auto|].
  destruct (IH H) as [q [Hq Ht]]. exists q; auto.
Qed.

Lemma psum_quad_in (ps : list poly) t :
  In t (p_quad (psum ps)) -> exists p, In p ps /\ In t (p_quad p).
Proof.
  induction ps as [|p ps IH]; cbn; [tauto|]. fold (psum ps).
  rewrite in_app_iff. intros [H|H]; [exists p; auto|].
  destruct (IH H) as [q [Hq Ht]]. exists q; auto.
Qed.

Lemma substitute0_lin_zero v a p t :
  In t (p_lin (substitute v 0 a p)) -> fst t = v -> snd t = 0.
Proof.
  unfold substitute; cbn [padd p_lin app]. rewrite in_app_iff. intros [H|H] E.
  - apply psum_lin_in in H. destruct H as [q [Hq Ht]]. apply in_map_iff in Hq.
    destruct Hq as [t0 [<- _]]. unfold subst_lterm in Ht.
    destruct (Nat.eqb_spec (fst t0) v) as [E0|E0]; cbn in Ht; destruct Ht as [<-|[]]; cbn in *.
    + ring.
    + contradiction.
  - apply psum_lin_in in H. destruct H as [q [Hq Ht]]. apply in_map_iff in Hq.
    destruct Hq as [[[x y] b] [<- _]]. cbn [subst_qterm] in Ht.
    destruct (Nat.eqb_spec x v) as [Ex|Ex]; destruct (Nat.eqb_spec y v) as [Ey|Ey];
      cbn in Ht; try destruct Ht as [<-|[]]; try contradiction; cbn in *; subst; try contradiction; unfold two; ring.
Qed.

Lemma substitute0_quad_zero v a p t :
  In t (p_quad (substitute v 0 a p)) -> mentions v t = true -> snd t = 0.
Proof.
  unfold substitute; cbn [padd p_quad app]. rewrite in_app_iff. intros [H|H] E.
  - apply psum_quad_in in H. destruct H as [q [Hq Ht]]. apply in_map_iff in Hq.
    destruct Hq as [t0 [<- _]]. unfold subst_lterm in Ht.
    destruct (fst t0 =? v)%nat; cbn in Ht; contradiction.
  - apply psum_quad_in in H. destruct H as [q [Hq Ht]]. apply in_map_iff in Hq.
    destruct Hq as [[[x y] b] [<- _]]. cbn [subst_qterm] in Ht.
    destruct (Nat.eqb_spec x v) as [Ex|Ex]; destruct (Nat.eqb_spec y v) as [Ey|Ey];
      cbn in Ht; try destruct Ht as [<-|[]]; try contradiction; cbn; try ring.
    unfold mentions in E; cbn in E. apply orb_true_iff in E.
    destruct E as [E|E]; apply Nat.eqb_eq in E; contradiction.
Qed.

(* C03: fixing v to a  =  evaluating with v := a ; the value the remaining
   sample gives to v is irrelevant *)
Theorem energy_fix_variable v a p s :
  energy (fix_variable v a p) s = energy p (upd s v a).
Proof.
  unfold fix_variable.
  transitivity (energy (substitute v 0 a p) s).
  - unfold energy, remove_variable; cbn [p_off p_lin p_quad]. f_equal; [f_equal|].
    + apply lin_energy_remove; [reflexivity|]. intros t. apply substitute0_lin_zero.
    + apply quad_energy_remove; [reflexivity|]. intros t. apply substitute0_quad_zero.
  - rewrite energy_substitute. f_equal. unfold aff. f_equal. ring.
Qed.

Lemma remove_variable_no_mention_lin v p t : In t (p_lin (remove_variable v p)) -> fst t <> v.
Proof. cbn. rewrite filter_In. intros [_ H]. apply negb_true_iff, Nat.eqb_neq in H. exact H. Qed.

Lemma remove_variable_no_mention_quad v p t :
  In t (p_quad (remove_variable v p)) -> fst (fst t) <> v /\ snd (fst t) <> v.
Proof.
  cbn. rewrite filter_In. intros [_ H]. apply negb_true_iff in H. unfold mentions in H.
  apply orb_false_elim in H. destruct H as [H1 H2]. apply Nat.eqb_neq in H1, H2. auto.
Qed.

(* removing a variable does not touch any coefficient of the other variables *)
Lemma lin_coeff_remove_other v w l :
  w <> v -> lin_coeff (filter (fun t => negb (fst t =? v)%nat) l) w = lin_coeff l w.
Proof.
  intros H. unfold lin_coeff. induction l as [|t l IH]; [reflexivity|].
  cbn [filter]. destruct (Nat.eqb_spec (fst t) v) as [E|E]; cbn [negb filter].
  - destruct (Nat.eqb_spec (fst t) w); [congruence|]. exact IH.
  - destruct (Nat.eqb_spec (fst t) w); cbn [map qsum]; rewrite IH; reflexivity.
Qed.

Lemma quad_coeff_remove_other v x y (l : list qterm) :
  x <> v -> y <> v ->
  quad_coeff (filter (fun t => negb (mentions v t)) l) x y = quad_coeff l x y.
Proof.
  intros Hx Hy. unfold quad_coeff. induction l as [|t l IH]; [reflexivity|].
  cbn [filter]. destruct (mentions v t) eqn:E; cbn [negb filter].
  - assert (same_pair x y (fst (fst t)) (snd (fst t)) = false) as ->; [|exact IH].
    unfold mentions in E. unfold same_pair. apply orb_true_iff in E.
    destruct E as [E|E]; apply Nat.eqb_eq in E;
      repeat match goal with |- context [(?a =? ?b)%nat] => destruct (Nat.eqb_spec a b) end;
      try reflexivity; congruence.
  - destruct (same_pair x y _ _); cbn [map qsum]; rewrite IH; reflexivity.
Qed.

Theorem fix_variables_energy fs p s :
  energy (fix_variables fs p) s =
  energy p (fold_right (fun f acc => upd acc (fst f) (snd f)) s fs).
Proof.
  revert p. induction fs as [|f fs IH]; intros p; [reflexivity|].
  cbn [fix_variables fold_left fold_right]. fold (fix_variables fs (fix_variable (fst f) (snd f) p)).
  rewrite IH, energy_fix_variable. reflexivity.
Qed.

(* ---------- spin/binary (C02) ---------- *)
Lemma two_half : two * half = 1.
Proof. unfold half, two. field. intro H. discriminate H. Qed.

Theorem spin_to_binary_energy v p x :
  energy (spin_to_binary v p) x = energy p (upd x v (two * x v - 1)).
Proof. unfold spin_to_binary. rewrite energy_substitute. unfold aff. f_equal. Qed.

Theorem binary_to_spin_energy v p s :
  energy (binary_to_spin v p) s = energy p (upd s v ((s v + 1) * half)).
Proof. unfold binary_to_spin. rewrite energy_substitute. unfold aff. f_equal. f_equal. ring. Qed.

Lemma upd_upd_same (s : sample) v a b w : upd (upd s v a) v b w = upd s v b w.
Proof. unfold upd. destruct (w =? v)%nat; reflexivity. Qed.

Lemma energy_ext p s s' : (forall w, s w = s' w) -> energy p s = energy p s'.
Proof.
  intros H. unfold energy. f_equal; [f_equal|].
  - unfold lin_energy. f_equal. apply map_ext. intros t. unfold lterm_val. rewrite H. reflexivity.
  - unfold quad_energy. f_equal. apply map_ext. intros t. unfold qterm_val. rewrite !H. reflexivity.
Qed.

(* there and back is the identity on energies *)
Theorem spin_binary_roundtrip_energy v p s :
  energy (binary_to_spin v (spin_to_binary v p)) s = energy p s.
Proof.
  rewrite binary_to_spin_energy, spin_to_binary_energy.
  apply energy_ext. intros w. unfold upd. destruct (Nat.eqb_spec w v) as [->|]; [|reflexivity].
  rewrite Nat.eqb_refl.
  transitivity ((s v + 1) * (two * half) - 1); [ring|]. rewrite two_half. ring.
Qed.

Theorem flip_spin_energy v p s : energy (flip_spin v p) s = energy p (upd s v (- s v)).
Proof. unfold flip_spin. rewrite energy_substitute. unfold aff. f_equal. f_equal. ring. Qed.

Theorem flip_binary_energy v p s : energy (flip_binary v p) s = energy p (upd s v (1 - s v)).
Proof. unfold flip_binary. rewrite energy_substitute. unfold aff. f_equal. f_equal. ring. Qed.

Theorem substitute_many_energy vs m c p s :
  NoDup vs ->
  energy (substitute_many vs m c p) s =
  energy p (fun w => if existsb (Nat.eqb w) vs then m * s w + c else s w).
Proof.
  revert p. induction vs as [|v vs IH]; intros p Hnd; [reflexivity|].
  inversion Hnd as [|? ? Hni Hnd']; subst.
  cbn [substitute_many fold_left]. fold (substitute_many vs m c (substitute v m c p)).
  rewrite IH by assumption. rewrite energy_substitute. apply energy_ext. intros w.
  unfold aff, upd. cbn [existsb]. destruct (Nat.eqb_spec w v) as [->|Hne]; cbn [orb].
  - assert (existsb (Nat.eqb v) vs = false) as ->; [|reflexivity].
    apply not_true_is_false. intros H. apply existsb_exists in H. destruct H as [x [Hx E]].
    apply Nat.eqb_eq in E. subst. contradiction.
  - reflexivity.
Qed.

(* ---------- products of linear models (C06) ---------- *)
Lemma energy_mul_lterms vt t1 t2 s :
  respects vt s -> energy (mul_lterms vt t1 t2) s = (snd t1 * s (fst t1)) * (snd t2 * s (fst t2)).
Proof. intros H. unfold mul_lterms. rewrite energy_add_quadratic by assumption. rewrite energy_pzero. ring. Qed.

Lemma qsum_flat_map_mul vt (la lb : list lterm) s :
  respects vt s ->
  qsum (map (fun p => energy p s) (flat_map (fun t1 => map (mul_lterms vt t1) lb) la))
  = lin_energy la s * lin_energy lb s.
Proof.
  intros H. induction la as [|t la IH].
  - se. cbn [flat_map map qsum]. ring.
  - cbn [flat_map]. rewrite map_app, qsum_app, IH, lin_energy_cons.
    assert (E : qsum (map (fun p => energy p s) (map (mul_lterms vt t) lb)) = snd t * s (fst t) * lin_energy lb s).
    { clear IH. induction lb as [|u lb IH2]; [se; ring|].
      cbn [map qsum]. rewrite IH2, energy_mul_lterms, lin_energy_cons by assumption. ring. }
    rewrite E. ring.
Qed.

Theorem pmul_linear_energy vt a b s :
  p_quad a = [] -> p_quad b = [] -> respects vt s ->
  energy (pmul_linear vt a b) s = energy a s * energy b s.
Proof.
  intros Ha Hb Hr. unfold pmul_linear. rewrite energy_padd, energy_psum, qsum_flat_map_mul by assumption.
  unfold energy; cbn [p_off p_lin p_quad]. rewrite Ha, Hb, lin_energy_app, !lin_energy_scale.
  se. ring.
Qed.
