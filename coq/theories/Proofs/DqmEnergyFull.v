(* C20 - cyDiscreteQuadraticModel: what energies / get_quadratic read does not depend on how adj_ was produced.
   energies (the `if v > u: break` walk over adj_[u]) is the FULL case-level lower triangle: offset + for every variable
   the linear bias of its chosen case + for every pair of variables the stored bias between their chosen cases
   (pairs adj_ does not record have no stored bias).  Hence the to_numpy_vectors/from_numpy_vectors rebuild keeps every
   energy, and every get_quadratic answer it gives is the old one. *)
From Coq Require Import List ZArith QArith Qcanon Bool Arith Lia Sorted.
From Dimod Require Import Base.Util Model.Poly Model.Adj Model.AdjMore Model.DqmNative
  Proofs.AdjNb Proofs.AdjInv Proofs.AdjRW Proofs.AdjEnergy Proofs.DqmNativeFacts Proofs.DqmRoundTrip Proofs.DqmReads
  Proofs.DqmRoundTripId.
Import ListNotations.
Local Open Scope nat_scope.

Definition valid_sample (d : dqm) (s : list nat) : Prop := forall u, u < d_nvars d -> nth u s 0 < d_ncases d u.

Lemma SS_filter (p : nat -> bool) l : StronglySorted lt l -> StronglySorted lt (filter p l).
Proof.
  induction 1 as [|a l HS IH HF]; [constructor|]. cbn [filter]. destruct (p a); [|exact IH].
  constructor; [exact IH|]. rewrite Forall_forall in *. intros x Hx. apply filter_In in Hx. apply HF, Hx.
Qed.

Lemma qsum_sorted_fill (q : nat -> Qc) : forall n s l,
  StronglySorted lt l -> (forall x, In x l -> s <= x < s + n) ->
  (forall v, s <= v < s + n -> ~ In v l -> q v = 0%Qc) ->
  qsum (map q l) = qsum (map q (seq s n)).
Proof.
  induction n as [|n IH]; intros s l HS HR HZ.
  - destruct l as [|x r]; [reflexivity|]. pose proof (HR x (or_introl eq_refl)). lia.
  - cbn [seq map qsum]. destruct l as [|a r].
    + rewrite (HZ s) by (simpl; lia || tauto). rewrite <- (IH (S s) []).
      * cbn [map qsum]. ring.
      * constructor.
      * intros x [].
      * intros v Hv _. apply HZ; [lia|intros []].
    + apply StronglySorted_inv in HS. destruct HS as [HS HF]. rewrite Forall_forall in HF.
      destruct (Nat.eq_dec a s) as [E|Ne].
      * subst a. cbn [map qsum]. f_equal. apply IH; [exact HS| |].
        -- intros x Hx. pose proof (HF x Hx). pose proof (HR x (or_intror Hx)). lia.
        -- intros v Hv Hn. apply HZ; [lia|]. intros [E|Hin]; [lia|contradiction].
      * pose proof (HR a (or_introl eq_refl)) as Ha.
        rewrite (HZ s).
        -- rewrite <- (IH (S s) (a :: r)).
           ++ ring.
           ++ constructor; [exact HS|apply Forall_forall; exact HF].
           ++ intros x [E|Hx]; [subst x; lia|]. pose proof (HF x Hx). pose proof (HR x (or_intror Hx)). lia.
           ++ intros v Hv Hn. apply HZ; [lia|exact Hn].
        -- lia.
        -- intros [E|Hin]; [lia|]. pose proof (HF s Hin). lia.
Qed.

Lemma var_of_vof d ci : var_of d ci = vof (d_st d) ci.
Proof. reflexivity. Qed.

(* a pair of variables that adj_ does not record has no stored bias between any of their cases *)
Lemma unrecorded_pair_zero d u v cu cv :
  DInv d -> u < d_nvars d -> v < d_nvars d -> cu < d_ncases d u -> cv < d_ncases d v ->
  ~ In v (d_nb d u) -> nb_get (cs d v cv) (nb (d_b d) (cs d u cu)) = None.
Proof.
  intros HD Hu Hv Hcu Hcv Hn. pose proof HD as HP. apply DInv_iff in HP.
  destruct HP as [HI [_ [H3 [_ [H5 [H6 [W C]]]]]]].
  destruct (st_facts (d_st d) (d_nvars d) (nvars (d_b d)) H3 H5 H6 u cu Hu Hcu) as [Bu Eu].
  destruct (st_facts (d_st d) (d_nvars d) (nvars (d_b d)) H3 H5 H6 v cv Hv Hcv) as [Bv Ev].
  destruct (nb_get (cs d v cv) (nb (d_b d) (cs d u cu))) as [x|] eqn:E; [|reflexivity]. exfalso. apply Hn.
  apply nb_get_In_1 in E.
  destruct (C (cs d u cu) (cs d v cv) Bu) as [_ L].
  { apply in_map_iff. exists (cs d v cv, x). split; [reflexivity|exact E]. }
  rewrite !var_of_vof in L. unfold cs, d_start in L. rewrite Eu, Ev in L.
  apply lb_has_In in L; [exact L|]. apply (AdjWf_sorted (d_adj d) u W).
Qed.

Local Open Scope Qc_scope.

Theorem d_energy_full d s :
  DInv d -> valid_sample d s ->
  d_energy d s =
  off (d_b d)
  + qsum (map (fun u => linear (d_b d) (cs d u (nth u s 0%nat))
                        + qsum (map (fun v => quadratic (d_b d) (cs d u (nth u s 0%nat)) (cs d v (nth v s 0%nat)))
                                    (seq 0 u)))
              (seq 0 (d_nvars d))).
Proof.
  intros HD HV. rewrite (d_energy_is_sum d s HD). f_equal. apply qsum_map_ext_in. intros u Hu. apply in_seq in Hu.
  f_equal. pose proof (DInv_adjwf d HD) as W.
  apply (qsum_sorted_fill _ u 0%nat).
  - apply SS_filter. apply sorted_nat_iff. apply (AdjWf_sorted (d_adj d) u W).
  - intros x Hx. apply filter_In in Hx. destruct Hx as [_ Hx]. apply Nat.ltb_lt in Hx. lia.
  - intros v Hv Hn. unfold quadratic.
    rewrite (unrecorded_pair_zero d u v (nth u s 0%nat) (nth v s 0%nat)); [reflexivity|exact HD|lia|lia| | |].
    + apply HV. lia.
    + apply HV. lia.
    + intros Hin. apply Hn. apply filter_In. split; [exact Hin|]. apply Nat.ltb_lt. lia.
Qed.

Theorem round_trip_energy d s :
  DInv d -> valid_sample d s -> d_energy (round_trip d) s = d_energy d s.
Proof.
  intros HD HV. pose proof (round_trip_preserves_DInv d HD) as HD'.
  assert (En : d_nvars (round_trip d) = d_nvars d).
  { rewrite (round_trip_eq d HD). unfold d_nvars at 1. cbn [d_adj]. apply afc_length. }
  assert (HV' : valid_sample (round_trip d) s).
  { intros u Hu. rewrite En in Hu. unfold d_ncases, d_start. rewrite round_trip_st. apply (HV u Hu). }
  rewrite (d_energy_full _ s HD' HV'), (d_energy_full d s HD HV), En.
  rewrite (round_trip_b_identity d HD). unfold cs, d_start. rewrite round_trip_st. reflexivity.
Qed.

Local Close Scope Qc_scope.

(* the rebuilt adj_ is a subset of the old one *)
Theorem round_trip_adj_subset d u v :
  DInv d -> u < d_nvars d -> In v (d_nb (round_trip d) u) -> In v (d_nb d u).
Proof.
  intros HD Hu Hv. apply (round_trip_adj_exact d u v Hu) in Hv. rewrite (round_trip_b_identity d HD) in Hv.
  destruct Hv as [ci [w [A [B [Hw ->]]]]].
  pose proof HD as HP. apply DInv_iff in HP. destruct HP as [HI [_ [H3 [_ [H5 [H6 [W C]]]]]]].
  assert (Hci : ci < nvars (d_b d)).
  { destruct (Nat.lt_ge_cases ci (nvars (d_b d))) as [L|G]; [exact L|]. unfold keys, nb in Hw.
    rewrite nth_overflow in Hw by (rewrite (Inv_len_adj _ HI); exact G). destruct Hw. }
  destruct (C ci w Hci Hw) as [_ L].
  assert (Eu : var_of d ci = u).
  { unfold d_ncases in B.
    destruct (st_facts (d_st d) (d_nvars d) (nvars (d_b d)) H3 H5 H6 u (ci - d_start d u) Hu) as [_ E'].
    - unfold d_start in *. lia.
    - unfold d_start in *. replace (nth u (d_st d) 0 + (ci - nth u (d_st d) 0)) with ci in E' by lia. exact E'. }
  rewrite Eu in L. apply lb_has_In in L; [exact L|]. apply (AdjWf_sorted (d_adj d) u W).
Qed.

(* whatever get_quadratic answers after the rebuild, it answered before *)
Theorem round_trip_get_quadratic d u v l :
  DInv d -> u < d_nvars d -> get_quadratic (round_trip d) u v = Some l -> get_quadratic d u v = Some l.
Proof.
  intros HD Hu. unfold get_quadratic.
  destruct (lb_has v (d_nb (round_trip d) u)) eqn:E1; [|discriminate].
  pose proof (round_trip_preserves_DInv d HD) as HD'.
  apply lb_has_In in E1; [|apply (AdjWf_sorted _ u (DInv_adjwf _ HD'))].
  apply (round_trip_adj_subset d u v HD Hu) in E1.
  apply lb_has_In in E1; [|apply (AdjWf_sorted _ u (DInv_adjwf _ HD))]. rewrite E1.
  rewrite (round_trip_b_identity d HD). unfold d_ncases, cs, d_start. rewrite round_trip_st. intros H. exact H.
Qed.

(* and a pair the rebuild dropped had nothing to list *)
Theorem round_trip_get_quadratic_dropped d u v l :
  DInv d -> u < d_nvars d -> v < d_nvars d ->
  get_quadratic d u v = Some l -> get_quadratic (round_trip d) u v = None -> l = [].
Proof.
  intros HD Hu Hv HG HN.
  destruct l as [|[[cu cv] x] r]; [reflexivity|]. exfalso.
  pose proof (round_trip_preserves_DInv d HD) as HD'.
  assert (En : d_nvars (round_trip d) = d_nvars d).
  { rewrite (round_trip_eq d HD). unfold d_nvars at 1. cbn [d_adj]. apply afc_length. }
  apply (get_quadratic_none_iff (round_trip d) u v HD') in HN; [|rewrite En; exact Hu]. apply HN. clear HN.
  (* the listed entry is a stored case interaction *)
  pose proof HG as HG'. unfold get_quadratic in HG'. destruct (lb_has v (d_nb d u)); [|discriminate].
  injection HG' as HG'.
  assert (Hin : In (cu, cv, x) ((cu, cv, x) :: r)) by (left; reflexivity).
  rewrite <- HG' in Hin. apply in_flat_map in Hin. destruct Hin as [cu' [Hcu He]]. apply in_seq in Hcu.
  apply in_map_iff in He. destruct He as [[w y] [E He]]. cbn [fst snd] in E. injection E as E1 E2 E3. subst cu' y.
  pose proof HD as HP. apply DInv_iff in HP. destruct HP as [HI [_ [H3 [_ [H5 [H6 _]]]]]].
  apply span_from_In in He; [|apply Inv_sorted; exact HI]. destruct He as [A [B C]]. cbn [fst] in B, C.
  apply (round_trip_adj_exact d u v Hu). rewrite (round_trip_b_identity d HD).
  exists (cs d u cu), w. split; [unfold cs; lia|]. split; [unfold cs; lia|]. split.
  - unfold keys. apply in_map_iff. exists (w, x). split; [reflexivity|exact A].
  - rewrite var_of_vof.
    destruct (st_facts (d_st d) (d_nvars d) (nvars (d_b d)) H3 H5 H6 v (w - d_start d v) Hv) as [_ E'].
    + unfold d_start in *. lia.
    + unfold d_start in *. replace (nth v (d_st d) 0 + (w - nth v (d_st d) 0)) with w in E' by lia. symmetry. exact E'.
Qed.

Print Assumptions d_energy_full.
Print Assumptions round_trip_energy.
Print Assumptions round_trip_adj_subset.
Print Assumptions round_trip_get_quadratic.
Print Assumptions round_trip_get_quadratic_dropped.
