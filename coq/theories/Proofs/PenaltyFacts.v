(* C15: product penalties (and_gate, _spin_product) and the assembly of make_quadratic *)
From Coq Require Import List ZArith QArith Qcanon Bool Arith Lia.
From Dimod Require Import Base.Util Model.Poly Model.HPoly Model.Reduce
  Proofs.PolyFacts Proofs.HPolyFacts Proofs.ReduceFacts.
Import ListNotations.
Open Scope Qc_scope.

(* closed rational facts by computation *)
Ltac qc_closed :=
  match goal with
  | |- @eq Qc _ _ => apply Qc_is_canon; vm_compute; reflexivity
  | |- Qcle _ _ => unfold Qcle; vm_compute; discriminate
  | |- Qclt _ _ => unfold Qclt; vm_compute; reflexivity
  | |- (@eq Qc _ _) -> False =>
      let H := fresh in intros H; apply (f_equal (fun q : Qc => Qnum (this q))) in H; vm_compute in H; discriminate H
  | |- ~ (@eq Qc _ _) =>
      let H := fresh in intros H; apply (f_equal (fun q : Qc => Qnum (this q))) in H; vm_compute in H; discriminate H
  end.

(* ---------- scaling by a positive strength ---------- *)
Lemma scale_nonneg (s e : Qc) : 0 < s -> 0 <= e -> 0 <= s * e.
Proof.
  intros Hs He. replace 0 with (0 * e) by ring.
  apply Qcmult_le_compat_r; [apply Qclt_le_weak; exact Hs|exact He].
Qed.

Lemma scale_gap (s e : Qc) : 0 < s -> 1 <= e -> s <= s * e.
Proof.
  intros Hs He. replace s with (1 * s) at 1 by ring. replace (s * e) with (e * s) by ring.
  apply Qcmult_le_compat_r; [exact He|apply Qclt_le_weak; exact Hs].
Qed.

Lemma scale_zero (s e : Qc) : 0 < s -> (s * e = 0 <-> e = 0).
Proof.
  intros Hs. split; intros H; [|rewrite H; ring].
  destruct (Qcmult_integral _ _ H) as [H0|H0]; [|exact H0].
  subst s. exfalso. revert Hs. unfold Qclt. apply Qlt_irrefl.
Qed.

(* ---------- AND penalty: 8 rows ---------- *)
Lemma and_pen_table (x y z : bool) :
  0 <= and_pen (b2q x) (b2q y) (b2q z) /\
  (and_pen (b2q x) (b2q y) (b2q z) = 0 <-> z = andb x y) /\
  (z <> andb x y -> 1 <= and_pen (b2q x) (b2q y) (b2q z)).
Proof.
  destruct x, y, z; cbn [b2q andb]; (split; [qc_closed|split; [split; intros H; try reflexivity; try discriminate H; try qc_closed; exfalso; revert H; qc_closed|intros H; try congruence; qc_closed]]).
Qed.

Lemma b2q_mul x y : b2q x * b2q y = b2q (andb x y).
Proof. destruct x, y; cbn [b2q andb]; ring. Qed.

Lemma b2q_inj x y : b2q x = b2q y -> x = y.
Proof. destruct x, y; cbn [b2q]; intros H; try reflexivity; exfalso; revert H; qc_closed. Qed.

Lemma binary_b2q (q : Qc) : q = 0 \/ q = 1 -> exists b, q = b2q b.
Proof. intros [->| ->]; [exists false|exists true]; reflexivity. Qed.

Theorem and_penalty_facts (x y z : Qc) :
  (x = 0 \/ x = 1) -> (y = 0 \/ y = 1) -> (z = 0 \/ z = 1) ->
  0 <= and_pen x y z /\ (and_pen x y z = 0 <-> z = x * y) /\ (z <> x * y -> 1 <= and_pen x y z).
Proof.
  intros Hx Hy Hz. apply binary_b2q in Hx, Hy, Hz.
  destruct Hx as [bx ->], Hy as [by_ ->], Hz as [bz ->].
  destruct (and_pen_table bx by_ bz) as [H0 [H1 H2]]. rewrite b2q_mul.
  split; [exact H0|]. split.
  - rewrite H1. split; [intros ->; reflexivity|apply b2q_inj].
  - intros H. apply H2. intros E. apply H. rewrite E. reflexivity.
Qed.

Theorem and_penalty_scaled (s x y z : Qc) :
  0 < s -> (x = 0 \/ x = 1) -> (y = 0 \/ y = 1) -> (z = 0 \/ z = 1) ->
  0 <= s * and_pen x y z /\ (s * and_pen x y z = 0 <-> z = x * y) /\
  (z <> x * y -> s <= s * and_pen x y z).
Proof.
  intros Hs Hx Hy Hz. destruct (and_penalty_facts x y z Hx Hy Hz) as [H0 [H1 H2]].
  split; [apply scale_nonneg; assumption|]. split.
  - rewrite (scale_zero s _ Hs). exact H1.
  - intros H. apply scale_gap; [exact Hs|apply H2; exact H].
Qed.

(* ---------- spin product penalty: 16 rows ---------- *)
Lemma spin_pen_table (x y z w : bool) :
  0 <= spin_pen (s2q x) (s2q y) (s2q z) (s2q w) /\
  (z = Bool.eqb x y -> spin_pen (s2q x) (s2q y) (s2q z) (s2q (opt_aux x y)) = 0) /\
  (z <> Bool.eqb x y -> 1 <= spin_pen (s2q x) (s2q y) (s2q z) (s2q w)).
Proof.
  destruct x, y, z, w; cbn [s2q Bool.eqb opt_aux andb negb];
    (split; [qc_closed|split; intros H; try congruence; try discriminate H; qc_closed]).
Qed.

(* the minimum over the auxiliary is attained only there when the product is right:
   with the product right the other auxiliary value costs at least 1 as well or 0 *)
Lemma s2q_mul x y : s2q x * s2q y = s2q (Bool.eqb x y).
Proof. destruct x, y; cbn [s2q Bool.eqb]; ring. Qed.

Lemma s2q_inj x y : s2q x = s2q y -> x = y.
Proof. destruct x, y; cbn [s2q]; intros H; try reflexivity; exfalso; revert H; qc_closed. Qed.

Lemma spin_s2q (q : Qc) : q = 1 \/ q = - (1) -> q = s2q (is_one q).
Proof.
  intros [->| ->]; unfold is_one.
  - reflexivity.
  - replace (Qc_eqb (- (1)) 1) with false by (vm_compute; reflexivity). reflexivity.
Qed.

Theorem spin_penalty_facts (x y z : Qc) :
  (x = 1 \/ x = - (1)) -> (y = 1 \/ y = - (1)) -> (z = 1 \/ z = - (1)) ->
  (forall w, (w = 1 \/ w = - (1)) -> 0 <= spin_pen x y z w) /\
  (z = x * y -> spin_pen x y z (s2q (opt_aux (is_one x) (is_one y))) = 0) /\
  (z <> x * y -> forall w, (w = 1 \/ w = - (1)) -> 1 <= spin_pen x y z w).
Proof.
  intros Hx Hy Hz. apply spin_s2q in Hx, Hy, Hz. rewrite Hx, Hy, Hz.
  set (bx := is_one x). set (by_ := is_one y). set (bz := is_one z).
  assert (Ebx : is_one (s2q bx) = bx) by (destruct bx; vm_compute; reflexivity).
  assert (Eby : is_one (s2q by_) = by_) by (destruct by_; vm_compute; reflexivity).
  rewrite Ebx, Eby. rewrite s2q_mul.
  split; [|split].
  - intros w Hw. apply spin_s2q in Hw. rewrite Hw. apply (spin_pen_table bx by_ bz (is_one w)).
  - intros E. apply s2q_inj in E. apply (spin_pen_table bx by_ bz true). exact E.
  - intros E w Hw. apply spin_s2q in Hw. rewrite Hw. apply (spin_pen_table bx by_ bz (is_one w)).
    intros E'. apply E. rewrite E'. reflexivity.
Qed.

Theorem spin_penalty_scaled (s x y z : Qc) :
  0 < s -> (x = 1 \/ x = - (1)) -> (y = 1 \/ y = - (1)) -> (z = 1 \/ z = - (1)) ->
  (forall w, (w = 1 \/ w = - (1)) -> 0 <= s * spin_pen x y z w) /\
  (z = x * y -> s * spin_pen x y z (s2q (opt_aux (is_one x) (is_one y))) = 0) /\
  (z <> x * y -> forall w, (w = 1 \/ w = - (1)) -> s <= s * spin_pen x y z w).
Proof.
  intros Hs Hx Hy Hz. destruct (spin_penalty_facts x y z Hx Hy Hz) as [H0 [H1 H2]].
  split; [|split].
  - intros w Hw. apply scale_nonneg; [exact Hs|apply H0; exact Hw].
  - intros E. rewrite (H1 E). ring.
  - intros E w Hw. apply scale_gap; [exact Hs|apply H2; assumption].
Qed.

(* ---------- penalty polynomials evaluate to the tables ---------- *)
Lemma energy_and_pen_poly u v p (a : sample) :
  energy (and_pen_poly u v p) a = and_pen (a u) (a v) (a p).
Proof.
  unfold energy, and_pen_poly, and_pen, lin_energy, quad_energy, lterm_val, qterm_val.
  cbn [p_off p_lin p_quad map qsum fst snd]. ring.
Qed.

Lemma energy_spin_pen_poly u v p w (a : sample) :
  energy (spin_pen_poly u v p w) a = spin_pen (a u) (a v) (a p) (a w).
Proof.
  unfold energy, spin_pen_poly, spin_pen, lin_energy, quad_energy, lterm_val, qterm_val.
  cbn [p_off p_lin p_quad map qsum fst snd]. ring.
Qed.

(* ---------- make_quadratic: energy = strength * penalties + reduced objective ---------- *)
Theorem mq_binary_energy s cons red (a : sample) :
  energy (mq_binary s cons red) a = s * and_pen_sum cons a + energy (poly_of_hpoly red) a.
Proof.
  unfold mq_binary. rewrite energy_padd. f_equal.
  rewrite energy_psum, map_map. unfold and_pen_sum.
  induction cons as [|[[u v] p] r IH]; cbn [map qsum]; [ring|].
  rewrite IH, energy_scale, energy_and_pen_poly. ring.
Qed.

Theorem mq_spin_energy s cons red (a : sample) :
  energy (mq_spin s cons red) a = s * spin_pen_sum cons a + energy (poly_of_hpoly red) a.
Proof.
  unfold mq_spin. rewrite energy_padd. f_equal.
  rewrite energy_psum, map_map. unfold spin_pen_sum.
  induction cons as [|[[[u v] p] w] r IH]; cbn [map qsum]; [ring|].
  rewrite IH, energy_scale, energy_spin_pen_poly. ring.
Qed.

(* ---------- sums of penalties ---------- *)
Lemma Qc_le_add_nonneg (a b : Qc) : 0 <= a -> 0 <= b -> 0 <= a + b.
Proof. intros Ha Hb. replace 0 with (0 + 0) by ring. apply Qcplus_le_compat; assumption. Qed.

Lemma Qc_le_add_gap (a b : Qc) : 1 <= a -> 0 <= b -> 1 <= a + b.
Proof. intros Ha Hb. replace 1 with (1 + 0) by ring. apply Qcplus_le_compat; assumption. Qed.

Lemma Qc_le_add_gap' (a b : Qc) : 0 <= a -> 1 <= b -> 1 <= a + b.
Proof. intros Ha Hb. replace 1 with (0 + 1) by ring. apply Qcplus_le_compat; assumption. Qed.

Lemma and_pen_sum_nonneg cons (a : sample) : is_binary a -> 0 <= and_pen_sum cons a.
Proof.
  intros Hb. unfold and_pen_sum. induction cons as [|[[u v] p] r IH]; cbn [map qsum].
  - apply Qcle_refl.
  - apply Qc_le_add_nonneg; [|exact IH]. apply (and_penalty_facts (a u) (a v) (a p)); apply Hb.
Qed.

Lemma and_pen_sum_zero cons (a : sample) : consistent cons a -> is_binary a -> and_pen_sum cons a = 0.
Proof.
  intros Hc Hb. unfold and_pen_sum. induction cons as [|[[u v] p] r IH]; cbn [map qsum]; [reflexivity|].
  rewrite IH by (intros u' v' p' Hin; apply Hc; right; exact Hin).
  destruct (and_penalty_facts (a u) (a v) (a p) (Hb u) (Hb v) (Hb p)) as [_ [H1 _]].
  rewrite (proj2 H1 (Hc u v p (or_introl eq_refl))). ring.
Qed.

Lemma and_pen_sum_gap cons (a : sample) :
  is_binary a -> consistentb cons a = false -> 1 <= and_pen_sum cons a.
Proof.
  intros Hb. unfold and_pen_sum, consistentb.
  induction cons as [|[[u v] p] r IH]; cbn [map qsum forallb]; intros H; [discriminate H|].
  destruct (and_penalty_facts (a u) (a v) (a p) (Hb u) (Hb v) (Hb p)) as [H0 [_ H2]].
  apply andb_false_iff in H. destruct H as [H|H].
  - apply Qc_le_add_gap; [|apply (and_pen_sum_nonneg r a Hb)].
    apply H2. intros E. rewrite E in H. unfold Qc_eqb in H. rewrite Qeq_bool_refl in H. discriminate H.
  - apply Qc_le_add_gap'; [exact H0|apply IH; exact H].
Qed.

Lemma spin_pen_sum_nonneg cons (a : sample) : is_spin a -> 0 <= spin_pen_sum cons a.
Proof.
  intros Hb. unfold spin_pen_sum. induction cons as [|[[[u v] p] w] r IH]; cbn [map qsum].
  - apply Qcle_refl.
  - apply Qc_le_add_nonneg; [|exact IH].
    apply (spin_penalty_facts (a u) (a v) (a p) (Hb u) (Hb v) (Hb p)). apply Hb.
Qed.

Lemma spin_pen_sum_gap cons (a : sample) :
  is_spin a -> consistentb (map drop_aux cons) a = false -> 1 <= spin_pen_sum cons a.
Proof.
  intros Hb. unfold spin_pen_sum, consistentb.
  induction cons as [|[[[u v] p] w] r IH]; cbn [map qsum forallb drop_aux]; intros H; [discriminate H|].
  destruct (spin_penalty_facts (a u) (a v) (a p) (Hb u) (Hb v) (Hb p)) as [H0 [_ H2]].
  apply andb_false_iff in H. destruct H as [H|H].
  - apply Qc_le_add_gap; [|apply (spin_pen_sum_nonneg r a Hb)].
    apply H2; [|apply Hb]. intros E. rewrite E in H. unfold Qc_eqb in H. rewrite Qeq_bool_refl in H. discriminate H.
  - apply Qc_le_add_gap'; [apply H0; apply Hb|apply IH; exact H].
Qed.

(* ---------- optimal auxiliaries ---------- *)
Definition aux_val (a : sample) (c : cons4) : Qc :=
  let '(u, v, _, _) := c in s2q (opt_aux (is_one (a u)) (is_one (a v))).

Lemma set_aux_spec (a : sample) cons : forall vars (acc : sample),
  valid_aux vars cons = true ->
  let r := fold_left (fun acc c => let '(u, v, _, w) := c in
                          upd acc w (s2q (opt_aux (is_one (a u)) (is_one (a v))))) cons acc in
  (forall x, In x vars -> r x = acc x) /\
  (forall u v p w, In (u, v, p, w) cons -> r w = aux_val a (u, v, p, w)).
Proof.
  induction cons as [|[[[u v] p] w] r IH]; intros vars acc Hv; cbn [fold_left].
  - split; [reflexivity|intros ? ? ? ? []].
  - cbn [valid_aux] in Hv. apply andb_true_iff in Hv. destruct Hv as [Hw Hr].
    apply negb_true_iff in Hw. apply mem_false in Hw.
    destruct (IH (w :: vars) (upd acc w (s2q (opt_aux (is_one (a u)) (is_one (a v))))) Hr) as [H1 H2].
    split.
    + intros x Hx. rewrite (H1 x (or_intror Hx)). unfold upd.
      destruct (Nat.eqb_spec x w) as [E|E]; [subst; contradiction|reflexivity].
    + intros u' v' p' w' [E|Hin]; [|apply H2; exact Hin].
      inversion E; subst u' v' p' w'. rewrite (H1 w (or_introl eq_refl)).
      unfold upd. rewrite Nat.eqb_refl. reflexivity.
Qed.

Lemma set_aux_from_spin (a : sample) (cons : list cons4) : forall acc : sample,
  is_spin acc ->
  is_spin (fold_left (fun (acc : sample) (c : cons4) => let '(u, v, _, w) := c in
                          upd acc w (s2q (opt_aux (is_one (a u)) (is_one (a v))))) cons acc).
Proof.
  induction cons as [|[[[u v] p] w] r IH]; intros acc Hacc; cbn [fold_left]; [exact Hacc|].
  apply IH. intros x. unfold upd. destruct (x =? w)%nat; [|apply Hacc].
  destruct (opt_aux (is_one (a u)) (is_one (a v))); cbn [s2q]; tauto.
Qed.

Definition cons4_vars_in (vars : list label) (cons : list cons4) : Prop :=
  forall u v p w, In (u, v, p, w) cons -> In u vars /\ In v vars /\ In p vars.

Theorem set_aux_optimal cons vars (a : sample) :
  is_spin a -> valid_aux vars cons = true -> cons4_vars_in vars cons ->
  consistent (map drop_aux cons) a ->
  (forall x, In x vars -> set_aux cons a x = a x) /\
  is_spin (set_aux cons a) /\
  spin_pen_sum cons (set_aux cons a) = 0.
Proof.
  intros Hs Hv Hin Hc.
  destruct (set_aux_spec a cons vars a Hv) as [H1 H2]. fold (set_aux cons a) in H1, H2.
  split; [exact H1|]. split.
  - unfold set_aux. apply set_aux_from_spin. exact Hs.
  - unfold spin_pen_sum.
    assert (Hall : forall c, In c cons ->
              (let '(u, v, p, w) := c in
               spin_pen (set_aux cons a u) (set_aux cons a v) (set_aux cons a p) (set_aux cons a w)) = 0).
    { intros [[[u v] p] w] Hc4. destruct (Hin u v p w Hc4) as [Hu [Hv' Hp]].
      rewrite (H1 u Hu), (H1 v Hv'), (H1 p Hp), (H2 u v p w Hc4). unfold aux_val.
      apply (spin_penalty_facts (a u) (a v) (a p) (Hs u) (Hs v) (Hs p)).
      apply Hc. apply in_map_iff. exists (u, v, p, w). split; [reflexivity|exact Hc4]. }
    revert Hall. generalize (set_aux cons a). intros b. clear.
    induction cons as [|c r IH]; intros Hall; cbn [map qsum]; [reflexivity|].
    rewrite IH by (intros c' Hc'; apply Hall; right; exact Hc').
    specialize (Hall c (or_introl eq_refl)). destruct c as [[[u v] p] w]. rewrite Hall. ring.
Qed.
