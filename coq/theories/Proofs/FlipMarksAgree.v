(* C03: is_discrete() after fix_variables(inplace=True) versus fix_variables(inplace=False).
   Closes the two points left open in Proofs/FlipMarksFacts.v:
   (1) the executable side condition `onehot_agree fs q = true` of discrete_view_inplace_vs_copy /
       discrete_inplace_implies_copy is PROVED from a structural hypothesis: the two paths build
       structurally equal expressions (same variables_ in the same order, same linear biases as
       lists, same offset, both without interactions) from every LINEAR expression - which is all
       that matters, since only marked constraints influence is_discrete() and a one-hot
       constraint is linear - and, section 7, from every expression that stores no BINARY/SPIN
       self interaction (every expression of the real code), linear or not;
   (2) the "sensible regime": when every marked constraint is one-hot with rhs <> 0 (what
       add_discrete builds, rhs = 1) and BINARY variables are fixed to 0 or 1, both paths report
       the SAME is_discrete() for every constraint. *)
From Coq Require Import List ZArith QArith Qcanon Bool Arith Lia.
From Dimod Require Import Base.Util Model.Poly Model.FixPy Model.Expr Model.FixCopy Model.VartypeOps Model.FlipMarks.
From Dimod Require Import Proofs.PolyFacts Proofs.CoeffSound Proofs.FixPyFacts Proofs.ExprFacts Proofs.ExprSim
  Proofs.CqmSim Proofs.VartypeOpsFacts Proofs.FixCopyFacts Proofs.FlipMarksFacts.
Import ListNotations.
Open Scope Qc_scope.

(* the surviving model variables of an expression, under their new indices: what BOTH paths
   leave in variables_ *)
Definition unfixed (F : list nat) (w : nat) : bool := negb (memn w F).
Definition kept_vars (F : list nat) (vars : list nat) : list nat := map (new_index F) (filter (unfixed F) vars).

(* ================================================================== *)
(* 1. variables_ after the in-place path                                *)
(* ================================================================== *)

Lemma remove_nth_filter : forall (l : list nat) i v, NoDup l -> nth_error l i = Some v ->
  remove_nth i l = filter (fun w => negb (w =? v)%nat) l.
Proof.
  induction l as [|x r IH]; intros i v ND Hi; [destruct i; discriminate|].
  inversion ND as [|? ? Hn ND']; subst. destruct i as [|j]; cbn [nth_error remove_nth filter] in *.
  - injection Hi as ->. rewrite Nat.eqb_refl. cbn [negb]. symmetry. apply filter_all.
    intros y Hy. destruct (Nat.eqb_spec y v) as [->|_]; [contradiction|reflexivity].
  - destruct (Nat.eqb_spec x v) as [->|_].
    + exfalso. apply Hn. eapply nth_error_In. exact Hi.
    + cbn [negb]. f_equal. apply IH; assumption.
Qed.

Lemma fix_vars_filter : forall n e v a, ExprInv n e ->
  e_vars (m_fix v a e) = map (shift v) (filter (fun w => negb (w =? v)%nat) (e_vars e)).
Proof.
  intros n e v a I. unfold m_fix. destruct (reindex_fields v (m_substitute v 0 a e)) as [Hv _]. rewrite Hv. clear Hv.
  destruct (substitute_vars_idx v 0 a e) as [SV SI]. unfold pre_reindex. rewrite SI, (inv_idx _ _ I v).
  pose proof (inv_nodup _ _ I) as ND.
  destruct (index_of v (e_vars e)) as [i|] eqn:F; cbn [snd e_vars]; rewrite SV.
  - apply index_of_nth in F. rewrite (remove_nth_filter _ i v ND F). reflexivity.
  - apply index_of_None in F. f_equal. symmetry. apply filter_all.
    intros y Hy. destruct (Nat.eqb_spec y v) as [->|_]; [contradiction|reflexivity].
Qed.

Lemma memn_shift : forall v x R, x <> v -> ~ In v R -> memn (shift v x) (map (shift v) R) = memn x R.
Proof.
  intros v x R Hx Hn. apply Bool.eq_iff_eq_true. rewrite !memn_In, in_map_iff. split.
  - intros [y [E Hy]]. assert (Hy' : y <> v) by (intros ->; contradiction).
    apply (shift_inj v y x Hy' Hx) in E. subst y. exact Hy.
  - intros H. exists x. split; [reflexivity|exact H].
Qed.

Lemma kept_vars_shift : forall v R vars, ~ In v R ->
  kept_vars (map (shift v) R) (map (shift v) (filter (fun w => negb (w =? v)%nat) vars)) = kept_vars (v :: R) vars.
Proof.
  intros v R vars Hn. unfold kept_vars. induction vars as [|x r IH]; [reflexivity|].
  cbn [filter]. destruct (Nat.eqb_spec x v) as [->|Hx]; cbn [negb].
  - assert (U : unfixed (v :: R) v = false).
    { unfold unfixed, memn. cbn [existsb]. rewrite Nat.eqb_refl. reflexivity. }
    rewrite U. exact IH.
  - assert (U : unfixed (v :: R) x = unfixed R x).
    { unfold unfixed, memn. cbn [existsb]. destruct (Nat.eqb_spec x v) as [|_]; [contradiction|reflexivity]. }
    assert (U' : unfixed (map (shift v) R) (shift v x) = unfixed R x).
    { unfold unfixed. rewrite (memn_shift v x R Hx Hn). reflexivity. }
    cbn [map filter]. rewrite U, U'. destruct (unfixed R x); [|exact IH].
    cbn [map]. rewrite IH. f_equal. symmetry. apply new_index_shift; assumption.
Qed.

(* inplace_vars: variables_ after the successive in-place fix_variable calls *)
Theorem inplace_vars : forall fs n e, ExprInv n e -> FixOk n fs ->
  e_vars (inplace_expr (shift_fixings fs) e) = kept_vars (map fst fs) (e_vars e).
Proof.
  intros fs. remember (length fs) as k eqn:Hk. revert fs Hk.
  induction k as [|k IH]; intros fs Hk n e I OK; destruct fs as [|[v a] r]; cbn [length] in Hk; try discriminate.
  - cbn [shift_fixings shift_fixings_from inplace_expr fold_left map]. unfold kept_vars.
    rewrite filter_all by reflexivity. rewrite <- (map_id (e_vars e)) at 1. apply map_ext.
    intros w. unfold new_index. cbn [filter length]. lia.
  - destruct (FixOk_tail n v a r OK) as [Hv [Hn OK']].
    rewrite shift_fixings_cons. unfold inplace_expr. cbn [fold_left fst snd].
    fold (inplace_expr (shift_fixings (map (fun f => (shift v (fst f), snd f)) r)) (m_fix v a e)).
    rewrite (IH (map (fun f => (shift v (fst f), snd f)) r) ltac:(rewrite map_length; lia) (pred n) (m_fix v a e)
                (fix_inv n e v a I Hv) OK').
    rewrite (fix_vars_filter n e v a I). rewrite map_map. cbn [fst map].
    rewrite <- (map_map fst (shift v)). apply kept_vars_shift. exact Hn.
Qed.

(* ================================================================== *)
(* 2. variables_ after the copy path (linear phase)                     *)
(* ================================================================== *)

Lemma new_vars_combine : forall n F vars (lin : list Qc), NoDup F -> length lin = length vars ->
  Forall (fun u => (u < n)%nat) vars ->
  new_vars_of (old_to_new_of n F) (combine vars lin) = kept_vars F vars.
Proof.
  intros n F vars. induction vars as [|x r IH]; intros lin ND LEN LT; [reflexivity|].
  destruct lin as [|b lr]; [discriminate|]. cbn [length] in LEN. inversion LT as [|? ? Hx LT']; subst.
  unfold new_vars_of, kept_vars in *. cbn [combine flat_map fst filter].
  rewrite (old_to_new_spec n F x ND Hx). unfold unfixed at 1.
  destruct (memn x F); cbn [negb app map]; rewrite (IH lr ND ltac:(lia) LT'); reflexivity.
Qed.

Lemma fve_lin_quad : forall o2n asg l dst, e_quad (fold_left (fve_lin_step o2n asg) l dst) = e_quad dst.
Proof.
  intros o2n asg l. induction l as [|[v b] r IH]; intros dst; [reflexivity|]. cbn [fold_left]. rewrite IH.
  unfold fve_lin_step. destruct (o2n_get o2n v) as [k|]; [|reflexivity].
  unfold m_add_linear, enforce. destruct (idx_find k (e_idx dst)); reflexivity.
Qed.

Lemma fve_linear_src : forall vt' src o2n asg, e_quad src = [] ->
  fix_variables_expr vt' src o2n asg
  = fold_left (fve_lin_step o2n asg) (combine (e_vars src) (e_lin src)) (m_add_offset (e_off src) e_empty).
Proof. intros vt' src o2n asg H. unfold fix_variables_expr. rewrite H. reflexivity. Qed.

(* ================================================================== *)
(* 3. a linear expression: the two paths build the SAME structure       *)
(* ================================================================== *)

Lemma substitute_quad_nil : forall v m c e, e_quad e = [] -> e_quad (m_substitute v m c e) = [].
Proof.
  intros v m c e H. unfold m_substitute. destruct (idx_find v (e_idx e)); [|exact H].
  rewrite base_substitute_eq. cbn zeta. cbn [e_quad]. rewrite H. reflexivity.
Qed.

Lemma fix_quad_nil : forall v a e, e_quad e = [] -> e_quad (m_fix v a e) = [].
Proof.
  intros v a e H. unfold m_fix. destruct (reindex_fields v (m_substitute v 0 a e)) as [_ [_ [Hq _]]]. rewrite Hq.
  pose proof (substitute_quad_nil v 0 a e H) as S. unfold pre_reindex.
  destruct (idx_find v (e_idx (m_substitute v 0 a e))); cbn [snd e_quad]; [|exact S].
  rewrite S. reflexivity.
Qed.

Lemma inplace_quad_nil : forall l e, e_quad e = [] -> e_quad (inplace_expr l e) = [].
Proof.
  induction l as [|f r IH]; intros e H; [exact H|]. unfold inplace_expr. cbn [fold_left].
  apply IH. apply fix_quad_nil. exact H.
Qed.

Lemma lin_list_ext : forall (vars : list nat) (l1 l2 : list Qc), NoDup vars ->
  length l1 = length vars -> length l2 = length vars ->
  (forall v, lin_coeff (combine vars l1) v = lin_coeff (combine vars l2) v) -> l1 = l2.
Proof.
  intros vars l1 l2 ND L1 L2 H. apply (nth_ext l1 l2 0 0); [congruence|].
  intros i Hi. destruct (nth_error vars i) as [v|] eqn:E.
  - rewrite <- (lin_coeff_combine vars l1 i v ND L1 E), <- (lin_coeff_combine vars l2 i v ND L2 E). apply H.
  - apply nth_error_None in E. lia.
Qed.

Lemma linear_NoFoldLoops : forall n vt' fs src, e_quad src = [] -> NoFoldLoops n vt' fs src.
Proof. intros n vt' fs src H t Hin. rewrite H in Hin. destruct Hin. Qed.

(* fix_paths_same_structure_linear: from a linear source both paths give the same variables_
   (as lists), the same linear biases (as lists), the same offset, and no interactions *)
Theorem fix_paths_same_structure_linear : forall n vt' fs src, ExprInv n src -> FixOk n fs -> e_quad src = [] ->
  let c := fix_variables_expr vt' src (old_to_new_of n (map fst fs)) (assignments_of n fs) in
  let i := inplace_expr (shift_fixings fs) src in
  e_vars c = kept_vars (map fst fs) (e_vars src) /\ e_vars i = kept_vars (map fst fs) (e_vars src)
  /\ e_lin c = e_lin i /\ e_off c = e_off i /\ e_quad c = [] /\ e_quad i = [].
Proof.
  intros n vt' fs src I OK HL c i. pose proof OK as [ND F].
  destruct (fix_inplace_spec fs n src I OK) as [Ii _]. fold i in Ii.
  pose proof (fix_copy_inv n vt' fs src OK) as Ic. fold c in Ic.
  pose proof (inplace_vars fs n src I OK) as Vi. fold i in Vi.
  assert (NV : new_vars_of (old_to_new_of n (map fst fs)) (combine (e_vars src) (e_lin src))
               = kept_vars (map fst fs) (e_vars src)).
  { apply new_vars_combine; [exact ND|exact (inv_len _ _ I)|exact (inv_lt _ _ I)]. }
  assert (Vc : e_vars c = kept_vars (map fst fs) (e_vars src)).
  { unfold c. rewrite (fve_linear_src vt' src _ _ HL).
    rewrite (fix_copy_lin_phase_vars (n - length (map fst fs)) src).
    - exact NV.
    - apply old_to_new_ok; assumption.
    - rewrite NV, <- Vi. exact (inv_nodup _ _ Ii). }
  destruct (fix_paths_same_coefficients n vt' fs src I OK (linear_NoFoldLoops n vt' fs src HL)) as [EO [EL _]].
  fold c i in EO, EL.
  split; [exact Vc|]. split; [exact Vi|]. split; [|split; [exact EO|split]].
  - apply (lin_list_ext (e_vars i)); [exact (inv_nodup _ _ Ii)| |exact (inv_len _ _ Ii)|].
    + rewrite (inv_len _ _ Ic). congruence.
    + intros v. specialize (EL v). unfold abs_expr in EL. cbn [p_lin] in EL. rewrite Vc, <- Vi in EL. exact EL.
  - unfold c. rewrite (fve_linear_src vt' src _ _ HL), fve_lin_quad. reflexivity.
  - apply inplace_quad_nil. exact HL.
Qed.

(* ================================================================== *)
(* 4. the vartypes of the surviving variables on both paths             *)
(* ================================================================== *)

Lemma inplace_info_fold : forall l q,
  m_info (fold_left (fun q f => cqm_fix_variable (fst f) (snd f) q) l q)
  = fold_left (fun (i : list minfo) (f : nat * Qc) => remove_nth (fst f) i) l (m_info q).
Proof. induction l as [|f r IH]; intros q; cbn [fold_left]; [reflexivity|]. rewrite IH. reflexivity. Qed.

Lemma inplace_info_nth : forall fs (info : list minfo) u, NoDup (map fst fs) -> ~ In u (map fst fs) ->
  nth_error (fold_left (fun (i : list minfo) (f : nat * Qc) => remove_nth (fst f) i) (shift_fixings fs) info)
            (new_index (map fst fs) u) = nth_error info u.
Proof.
  intros fs. remember (length fs) as k eqn:Hk. revert fs Hk.
  induction k as [|k IH]; intros fs Hk info u ND Hu; destruct fs as [|[v a] r]; cbn [length] in Hk; try discriminate.
  - cbn [shift_fixings shift_fixings_from fold_left map]. unfold new_index. cbn [filter length].
    rewrite Nat.sub_0_r. reflexivity.
  - cbn [map fst] in ND, Hu. inversion ND as [|? ? Hn ND']; subst.
    assert (Huv : u <> v) by (intros ->; apply Hu; left; reflexivity).
    assert (Hur : ~ In u (map fst r)) by (intros C; apply Hu; right; exact C).
    rewrite shift_fixings_cons. cbn [fold_left fst snd map].
    rewrite (new_index_shift v (map fst r) u Huv Hn).
    assert (E : map (shift v) (map fst r) = map fst (map (fun f : nat * Qc => (shift v (fst f), snd f)) r)).
    { rewrite !map_map. reflexivity. }
    rewrite E. rewrite IH.
    + apply nth_error_remove_nth. exact Huv.
    + rewrite map_length. lia.
    + rewrite <- E. apply NoDup_map_shift; assumption.
    + rewrite <- E. intros C. apply in_map_iff in C. destruct C as [y [Ey Hy]].
      assert (Hy' : y <> v) by (intros ->; contradiction).
      apply (shift_inj v y u Hy' Huv) in Ey. subst y. contradiction.
Qed.

Lemma In_kept_vars : forall F vars x, In x (kept_vars F vars) ->
  exists u, In u vars /\ ~ In u F /\ x = new_index F u.
Proof.
  intros F vars x H. unfold kept_vars in H. apply in_map_iff in H. destruct H as [u [E Hu]].
  apply filter_In in Hu. destruct Hu as [Hu M]. exists u. split; [exact Hu|]. split; [|symmetry; exact E].
  intros C. apply memn_In in C. unfold unfixed in M. rewrite C in M. discriminate.
Qed.

(* a surviving variable has, under its new index, the vartype of the original on BOTH paths *)
Lemma vartype_paths : forall fs q u, FixOk (length (m_info q)) fs -> (u < length (m_info q))%nat ->
  ~ In u (map fst fs) ->
  cq_vartype (cqm_fix_variables_inplace fs q) (new_index (map fst fs) u) = cq_vartype q u
  /\ cq_vartype (cqm_fix_variables_copy fs q) (new_index (map fst fs) u) = cq_vartype q u.
Proof.
  intros fs q u [ND F] Hu Hn. unfold cq_vartype. split.
  - unfold cqm_fix_variables_inplace. rewrite inplace_info_fold, inplace_info_nth by assumption. reflexivity.
  - rewrite (copy_info_nth fs q u (new_index (map fst fs) u)); [reflexivity|].
    rewrite (old_to_new_spec _ _ u ND Hu).
    destruct (memn u (map fst fs)) eqn:M; [apply memn_In in M; contradiction|reflexivity].
Qed.

(* ================================================================== *)
(* 5. is_onehot() of a linear constraint is the same on both paths      *)
(* ================================================================== *)

Definition ip_onehot (fs : list (nat * Qc)) (q : mcqm) (k : mcon) : bool :=
  mc_is_onehot (cq_vartype (cqm_fix_variables_inplace fs q)) (inplace_expr (shift_fixings fs) (mc_e k)) (mc_sense k) (mc_rhs k).
Definition cp_onehot (fs : list (nat * Qc)) (q : mcqm) (k : mcon) : bool :=
  let c := cqm_fix_variables_copy fs q in
  mc_is_onehot (cq_vartype c)
    (fix_variables_expr (vt_of_info (m_info c)) (mc_e k) (old_to_new_of (length (m_info q)) (map fst fs))
                        (assignments_of (length (m_info q)) fs)) (mc_sense k) (mc_rhs k).

Lemma onehot_view_inplace_map : forall fs q,
  onehot_view (cqm_fix_variables_inplace fs q) = map (ip_onehot fs q) (m_cons q).
Proof.
  intros fs q. unfold onehot_view, ip_onehot. set (vt := cq_vartype (cqm_fix_variables_inplace fs q)).
  unfold cqm_fix_variables_inplace. destruct (cqm_inplace_fields (shift_fixings fs) q) as [_ H2]. cbn zeta in H2.
  rewrite H2, map_map. apply map_ext. intros [e s r w p m]. reflexivity.
Qed.

Lemma onehot_view_copy_map : forall fs q,
  onehot_view (cqm_fix_variables_copy fs q) = map (cp_onehot fs q) (m_cons q).
Proof.
  intros fs q. unfold onehot_view, cp_onehot. cbn zeta. set (vt := cq_vartype (cqm_fix_variables_copy fs q)).
  unfold cqm_fix_variables_copy at 1. cbn [m_cons]. rewrite map_map. apply map_ext. intros [e s r w p m]. reflexivity.
Qed.

(* onehot_con_agree: for a LINEAR constraint of the original model, is_onehot() of the fixed
   constraint is the same on both paths *)
Theorem onehot_con_agree : forall fs q k, CqmInv q -> FixOk (length (m_info q)) fs -> In k (m_cons q) ->
  e_quad (mc_e k) = [] -> ip_onehot fs q k = cp_onehot fs q k.
Proof.
  intros fs q k [_ IC] OK Hk HL. rewrite Forall_forall in IC. pose proof (IC k Hk) as I.
  unfold ip_onehot, cp_onehot. cbn zeta.
  destruct (fix_paths_same_structure_linear (length (m_info q)) (vt_of_info (m_info (cqm_fix_variables_copy fs q)))
              fs (mc_e k) I OK HL) as [Vc [Vi [EL [EO [Qc0 Qi0]]]]]. cbn zeta in *.
  unfold mc_is_onehot. rewrite Qc0, Qi0, EL, EO, Vc, Vi. f_equal. f_equal.
  apply forallb_ext_in'. intros x Hx. apply In_kept_vars in Hx. destruct Hx as [u [Hu [Hn ->]]].
  pose proof (inv_lt _ _ I) as LT. rewrite Forall_forall in LT.
  destruct (vartype_paths fs q u OK (LT u Hu) Hn) as [-> ->]. reflexivity.
Qed.

Lemma list_eqb_bool_refl : forall l : list bool, list_eqb Bool.eqb l l = true.
Proof. induction l as [|x l IH]; [reflexivity|]. cbn [list_eqb]. rewrite Bool.eqb_reflx, IH. reflexivity. Qed.

(* onehot_agree_holds: the side condition of FlipMarksFacts.discrete_view_inplace_vs_copy holds on
   every well-formed model all of whose constraints are linear *)
Theorem onehot_agree_holds : forall fs q, CqmInv q -> FixOk (length (m_info q)) fs ->
  (forall k, In k (m_cons q) -> e_quad (mc_e k) = []) -> onehot_agree fs q = true.
Proof.
  intros fs q I OK H. unfold onehot_agree. rewrite onehot_view_inplace_map, onehot_view_copy_map.
  rewrite (map_ext_in (ip_onehot fs q) (cp_onehot fs q)).
  - apply list_eqb_bool_refl.
  - intros k Hk. apply onehot_con_agree; try assumption. apply H. exact Hk.
Qed.

(* ---------- the two theorems without the onehot_agree hypothesis ---------- *)
Definition MarkedLinear (q : mcqm) : Prop :=
  forall k, In k (m_cons q) -> mc_mark k = true -> e_quad (mc_e k) = [].

Lemma combine_self_map : forall {A B} (f : A -> B) l, combine l (map f l) = map (fun x => (x, f x)) l.
Proof. intros A B f l. induction l as [|x l IH]; [reflexivity|]. cbn [map combine]. rewrite IH. reflexivity. Qed.

Lemma discrete_view_copy_map : forall fs q, CqmInv q -> FixOk (length (m_info q)) fs ->
  discrete_view (cqm_fix_variables_copy fs q) = map (fun k => mc_mark k && cp_onehot fs q k) (m_cons q).
Proof.
  intros fs q I OK. rewrite (discrete_view_copy fs q I OK), onehot_view_copy_map, combine_self_map, map_map.
  reflexivity.
Qed.

Lemma discrete_view_inplace_map : forall fs q, CqmInv q -> FixOk (length (m_info q)) fs ->
  discrete_view (cy_cqm_fix_variables_inplace fs q)
  = map (fun k => mc_mark k && negb (mark_hit q fs k) && ip_onehot fs q k) (m_cons q).
Proof.
  intros fs q I OK. rewrite (discrete_view_inplace fs q I OK), onehot_view_inplace_map, combine_self_map, map_map.
  reflexivity.
Qed.

(* discrete_view_inplace_vs_copy': when every MARKED constraint is linear (a constraint added by
   add_discrete is; section 7 weakens this to MarkedNoLoops), the in-place path reports a
   constraint discrete iff the copy path does AND no BINARY variable of it was fixed to a
   non-zero value *)
Theorem discrete_view_inplace_vs_copy' : forall fs q, CqmInv q -> FixOk (length (m_info q)) fs -> MarkedLinear q ->
  discrete_view (cy_cqm_fix_variables_inplace fs q)
  = map (fun p => snd p && negb (mark_hit q fs (fst p)))
        (combine (m_cons q) (discrete_view (cqm_fix_variables_copy fs q))).
Proof.
  intros fs q I OK ML. rewrite (discrete_view_inplace_map fs q I OK), (discrete_view_copy_map fs q I OK).
  rewrite combine_self_map, map_map. apply map_ext_in. intros k Hk. cbn [fst snd].
  destruct (mc_mark k) eqn:M; [|reflexivity].
  rewrite (onehot_con_agree fs q k I OK Hk (ML k Hk M)).
  destruct (mark_hit q fs k), (cp_onehot fs q k); reflexivity.
Qed.

Corollary discrete_inplace_implies_copy' : forall fs q j, CqmInv q -> FixOk (length (m_info q)) fs -> MarkedLinear q ->
  nth j (discrete_view (cy_cqm_fix_variables_inplace fs q)) false = true ->
  nth j (discrete_view (cqm_fix_variables_copy fs q)) false = true.
Proof.
  intros fs q j I OK ML. rewrite (discrete_view_inplace_vs_copy' fs q I OK ML).
  generalize (discrete_view (cqm_fix_variables_copy fs q)). generalize (m_cons q). revert j.
  induction j as [|j IH]; intros [|k l] [|d ds]; cbn [combine map nth]; try discriminate.
  - intros H. apply andb_true_iff in H. exact (proj1 H).
  - apply IH.
Qed.

(* ================================================================== *)
(* 6. the sensible regime                                               *)
(* ================================================================== *)

Lemma qeqb_iff : forall a b : Qc, Qc_eqb a b = true <-> a = b.
Proof. intros a b. unfold Qc_eqb. rewrite Qeq_bool_iff. split; [apply Qc_is_canon|intros ->; reflexivity]. Qed.

Lemma lin_energy_zero : forall l : list lterm, lin_energy l (fun _ => 0) = 0.
Proof. induction l as [|t l IH]; [reflexivity|]. rewrite lin_energy_cons, IH. ring. Qed.

Lemma quad_energy_zero : forall l : list qterm, quad_energy l (fun _ => 0) = 0.
Proof. induction l as [|t l IH]; [reflexivity|]. rewrite quad_energy_cons, IH. ring. Qed.

Lemma energy_zero : forall p, energy p (fun _ => 0) = p_off p.
Proof. intros p. unfold energy. rewrite lin_energy_zero, quad_energy_zero. ring. Qed.

Lemma lin_energy_const : forall (vars : list nat) (lin : list Qc) r s, length lin = length vars ->
  (forall b, In b lin -> b = r) -> lin_energy (combine vars lin) s = r * qsum (map s vars).
Proof.
  induction vars as [|x vs IH]; intros lin r s LEN H.
  - cbn [combine map qsum]. unfold lin_energy. cbn [map qsum]. ring.
  - destruct lin as [|b lr]; [discriminate|]. cbn [length] in LEN. cbn [combine map qsum].
    rewrite lin_energy_cons. cbn [fst snd]. rewrite (IH lr r s) by (try lia; intros c Hc; apply H; right; exact Hc).
    rewrite (H b (or_introl eq_refl)). ring.
Qed.

Lemma Qc_le_0_1 : 0 <= 1.
Proof. unfold Qcle, Qle. simpl. lia. Qed.
Lemma Qc_lt_0_1 : 0 < 1.
Proof. unfold Qclt, Qlt. simpl. lia. Qed.

(* a sum of zeros and ones with at least one one is not zero *)
Lemma sum01 : forall (l : list nat) (g : nat -> Qc), (forall x, In x l -> g x = 0 \/ g x = 1) ->
  0 <= qsum (map g l) /\ ((exists x, In x l /\ g x = 1) -> 1 <= qsum (map g l)).
Proof.
  induction l as [|x l IH]; intros g H.
  - split; [apply Qcle_refl|]. intros [y [[] _]].
  - destruct (IH g (fun y Hy => H y (or_intror Hy))) as [A B]. cbn [map qsum].
    assert (G0 : 0 <= g x) by (destruct (H x (or_introl eq_refl)) as [-> | ->]; [apply Qcle_refl|apply Qc_le_0_1]).
    split.
    + replace 0 with (0 + 0) by ring. apply Qcplus_le_compat; assumption.
    + intros [y [[<-|Hy] E]].
      * rewrite E. replace 1 with (1 + 0) at 1 by ring. apply Qcplus_le_compat; [apply Qcle_refl|exact A].
      * replace 1 with (0 + 1) at 1 by ring. apply Qcplus_le_compat; [exact G0|]. apply B. exists y. split; assumption.
Qed.

Lemma sum01_nonzero : forall (l : list nat) (g : nat -> Qc), (forall x, In x l -> g x = 0 \/ g x = 1) ->
  (exists x, In x l /\ g x = 1) -> qsum (map g l) <> 0.
Proof.
  intros l g H E C. destruct (sum01 l g H) as [_ B]. specialize (B E). rewrite C in B.
  exact (Qcle_not_lt _ _ B Qc_lt_0_1).
Qed.

(* the offset the copy path leaves in a linear expression *)
Lemma copy_offset_linear : forall n vt' fs src, ExprInv n src -> FixOk n fs -> e_quad src = [] ->
  e_off (fix_variables_expr vt' src (old_to_new_of n (map fst fs)) (assignments_of n fs))
  = e_off src + lin_energy (combine (e_vars src) (e_lin src))
                           (lift_sample (old_to_new_of n (map fst fs)) (assignments_of n fs) (fun _ => 0)).
Proof.
  intros n vt' fs src I [ND F] HL.
  set (c := fix_variables_expr vt' src (old_to_new_of n (map fst fs)) (assignments_of n fs)).
  change (e_off c) with (p_off (abs_expr c)). rewrite <- energy_zero. unfold c.
  rewrite (fix_copy_expr_energy (n - length (map fst fs))).
  - rewrite energy_abs. unfold LinE, QuadE. rewrite HL. unfold quad_energy. cbn [map qsum]. ring.
  - apply old_to_new_ok; assumption.
  - intros t Hin. rewrite HL in Hin. destruct Hin.
Qed.

(* what is_onehot() = True says about a constraint *)
Lemma onehot_shape : forall vt k, vo_is_onehot vt k = true ->
  e_quad (mc_e k) = [] /\ e_off (mc_e k) = 0 /\ (forall v, In v (e_vars (mc_e k)) -> vt v = BINARY)
  /\ (forall b, In b (e_lin (mc_e k)) -> b = mc_rhs k).
Proof.
  intros vt k H. unfold vo_is_onehot in H. cbn zeta in H.
  repeat (apply andb_true_iff in H; let X := fresh "H" in destruct H as [H X]).
  split; [destruct (e_quad (mc_e k)); [reflexivity|discriminate]|].
  split; [apply qeqb_iff; assumption|]. split.
  - intros v Hv. rewrite forallb_forall in H1. specialize (H1 v Hv). destruct (vt v); try discriminate. reflexivity.
  - intros b Hb. rewrite forallb_forall in H0. apply qeqb_iff. apply H0. exact Hb.
Qed.

(* fixing a member of a one-hot constraint (rhs <> 0) to 1, the other BINARY variables to 0/1:
   the copy path's constraint has a non-zero offset, hence is not one-hot *)
Lemma hit_kills_copy_onehot : forall fs q k, CqmInv q -> FixOk (length (m_info q)) fs -> In k (m_cons q) ->
  vo_is_onehot (cq_vartype q) k = true -> mc_rhs k <> 0 ->
  (forall v a, In (v, a) fs -> cq_vartype q v = BINARY -> a = 0 \/ a = 1) ->
  mark_hit q fs k = true -> cp_onehot fs q k = false.
Proof.
  intros fs q k [_ IC] OK Hk OH R01 DOM HIT. rewrite Forall_forall in IC. pose proof (IC k Hk) as I.
  pose proof OK as [ND F]. destruct (onehot_shape _ _ OH) as [HL [HO [HV HB]]].
  set (n := length (m_info q)) in *.
  pose proof (inv_lt _ _ I) as LT. rewrite Forall_forall in LT.
  set (L := lift_sample (old_to_new_of n (map fst fs)) (assignments_of n fs) (fun _ => 0)).
  assert (LV : forall v, In v (e_vars (mc_e k)) ->
            L v = if memn v (map fst fs) then asg_get (assignments_of n fs) v else 0).
  { intros v Hv. unfold L, lift_sample. rewrite (old_to_new_spec n _ v ND (LT v Hv)).
    destruct (memn v (map fst fs)); reflexivity. }
  assert (S01 : forall v, In v (e_vars (mc_e k)) -> L v = 0 \/ L v = 1).
  { intros v Hv. rewrite (LV v Hv). destruct (memn v (map fst fs)) eqn:M; [|left; reflexivity].
    apply memn_In in M. apply in_map_iff in M. destruct M as [[v' a] [E Hin]]. cbn [fst] in E. subst v'.
    rewrite (assignments_spec n fs v a ND Hin (LT v Hv)). apply (DOM v a Hin). apply HV. exact Hv. }
  assert (S1 : exists v, In v (e_vars (mc_e k)) /\ L v = 1).
  { unfold mark_hit in HIT. apply existsb_exists in HIT. destruct HIT as [[v a] [Hin G]]. cbn [fst snd] in G.
    apply andb_true_iff in G. destruct G as [G G3]. apply andb_true_iff in G. destruct G as [G1 G2].
    assert (Hv : In v (e_vars (mc_e k))) by (apply (hasv_In n (mc_e k) v I); exact G3).
    exists v. split; [exact Hv|]. rewrite (LV v Hv).
    assert (M : memn v (map fst fs) = true).
    { apply memn_In. apply in_map_iff. exists (v, a). split; [reflexivity|exact Hin]. }
    rewrite M, (assignments_spec n fs v a ND Hin (LT v Hv)).
    destruct (DOM v a Hin (HV v Hv)) as [-> | ->]; [|reflexivity].
    exfalso. apply negb_true_iff in G2. assert (T : Qc_eqb 0 0 = true) by (apply qeqb_iff; reflexivity). congruence. }
  assert (NZ : Qc_eqb (e_off (fix_variables_expr (vt_of_info (m_info (cqm_fix_variables_copy fs q))) (mc_e k)
                                (old_to_new_of n (map fst fs)) (assignments_of n fs))) 0 = false).
  { destruct (Qc_eqb _ 0) eqn:E; [|reflexivity]. exfalso. apply qeqb_iff in E.
    rewrite (copy_offset_linear n _ fs (mc_e k) I OK HL) in E. fold L in E.
    rewrite (lin_energy_const _ _ (mc_rhs k) L (inv_len _ _ I) HB), HO in E.
    assert (E' : mc_rhs k * qsum (map L (e_vars (mc_e k))) = 0) by (rewrite <- E; ring).
    apply Qcmult_integral in E'. destruct E' as [E'|E']; [exact (R01 E')|].
    exact (sum01_nonzero _ L S01 S1 E'). }
  unfold cp_onehot. cbn zeta. unfold mc_is_onehot. fold n. rewrite NZ, !andb_false_r. reflexivity.
Qed.

(* discrete_paths_agree_in_domain: every marked constraint of the original model is one-hot
   (is_onehot() True: linear, >= 2 variables, sense ==, no offset, all variables BINARY, all
   biases equal to the rhs) with rhs <> 0 - what add_discrete builds, rhs = 1 - and every BINARY
   variable is fixed to 0 or 1 (the other variables to anything): fix_variables(inplace=True) and
   fix_variables(inplace=False) report the same is_discrete() for every constraint *)
Theorem discrete_paths_agree_in_domain : forall fs q, CqmInv q -> FixOk (length (m_info q)) fs ->
  (forall k, In k (m_cons q) -> mc_mark k = true -> vo_is_onehot (cq_vartype q) k = true /\ mc_rhs k <> 0) ->
  (forall v a, In (v, a) fs -> cq_vartype q v = BINARY -> a = 0 \/ a = 1) ->
  discrete_view (cy_cqm_fix_variables_inplace fs q) = discrete_view (cqm_fix_variables_copy fs q).
Proof.
  intros fs q I OK GEN DOM.
  assert (ML : MarkedLinear q).
  { intros k Hk M. destruct (GEN k Hk M) as [OH _]. exact (proj1 (onehot_shape _ _ OH)). }
  rewrite (discrete_view_inplace_vs_copy' fs q I OK ML), (discrete_view_copy_map fs q I OK).
  rewrite combine_self_map, map_map. apply map_ext_in. intros k Hk. cbn [fst snd].
  destruct (mc_mark k) eqn:M; [|reflexivity]. cbn [andb].
  destruct (mark_hit q fs k) eqn:HIT; [|apply andb_true_r].
  destruct (GEN k Hk M) as [OH R].
  rewrite (hit_kills_copy_onehot fs q k I OK Hk OH R DOM HIT). reflexivity.
Qed.

(* ================================================================== *)
(* 7. beyond linear sources: any source without folded self-loops       *)
(* ================================================================== *)

(* the model-level end points of the stored interactions *)
Definition qends (e : mexpr) : list (nat * nat) :=
  map (fun t => (nth (fst (fst t)) (e_vars e) 0%nat, nth (snd (fst t)) (e_vars e) 0%nat)) (e_quad e).
Definition live (F : list nat) (ab : nat * nat) : bool := unfixed F (fst ab) && unfixed F (snd ab).

Lemma filter_map_comm : forall {A B} (f : A -> B) (g : B -> bool) l,
  filter g (map f l) = map f (filter (fun x => g (f x)) l).
Proof.
  intros A B f g l. induction l as [|x l IH]; [reflexivity|]. cbn [map filter].
  destruct (g (f x)); cbn [map]; rewrite IH; reflexivity.
Qed.

Lemma qends_abs : forall e, qends e = map (fun t : qterm => (fst (fst t), snd (fst t))) (p_quad (abs_expr e)).
Proof. intros e. unfold qends, abs_expr. cbn [p_quad]. rewrite map_map. reflexivity. Qed.

Lemma subst_q_ends : forall i m c t, fst (subst_q i m c t) = fst t.
Proof.
  intros i m c [[a b] w]. unfold subst_q.
  destruct ((a =? i)%nat && (b =? i)%nat); [reflexivity|]. destruct ((a =? i)%nat || (b =? i)%nat); reflexivity.
Qed.

Lemma qends_substitute : forall v m c e, qends (m_substitute v m c e) = qends e.
Proof.
  intros v m c e. unfold m_substitute. destruct (idx_find v (e_idx e)); [|reflexivity].
  rewrite base_substitute_eq. cbn zeta. unfold qends. cbn [e_vars e_quad]. rewrite map_map.
  apply map_ext. intros t. rewrite subst_q_ends. reflexivity.
Qed.

Lemma qends_fix : forall n e v a, ExprInv n e ->
  qends (m_fix v a e)
  = map (fun ab => (shift v (fst ab), shift v (snd ab)))
        (filter (fun ab => negb ((fst ab =? v)%nat || (snd ab =? v)%nat)) (qends e)).
Proof.
  intros n e v a I. unfold m_fix. rewrite qends_abs, (reindex_abs n _ v (substitute_inv n e v 0 a I)).
  rewrite <- (qends_substitute v 0 a e), (qends_abs (m_substitute v 0 a e)).
  unfold relabel, remove_variable. cbn [p_quad]. rewrite map_map, filter_map_comm, map_map. reflexivity.
Qed.

Lemma live_shift : forall v R l, ~ In v R ->
  map (fun ab => (new_index (map (shift v) R) (fst ab), new_index (map (shift v) R) (snd ab)))
      (filter (live (map (shift v) R))
         (map (fun ab => (shift v (fst ab), shift v (snd ab)))
              (filter (fun ab => negb ((fst ab =? v)%nat || (snd ab =? v)%nat)) l)))
  = map (fun ab => (new_index (v :: R) (fst ab), new_index (v :: R) (snd ab))) (filter (live (v :: R)) l).
Proof.
  intros v R l Hn. induction l as [|[x y] r IH]; [reflexivity|]. cbn [filter fst snd].
  assert (Uv : unfixed (v :: R) v = false).
  { unfold unfixed, memn. cbn [existsb]. rewrite Nat.eqb_refl. reflexivity. }
  assert (Uo : forall z, z <> v -> unfixed (v :: R) z = unfixed R z).
  { intros z Hz. unfold unfixed, memn. cbn [existsb]. destruct (Nat.eqb_spec z v) as [|_]; [contradiction|reflexivity]. }
  assert (Us : forall z, z <> v -> unfixed (map (shift v) R) (shift v z) = unfixed R z).
  { intros z Hz. unfold unfixed. rewrite (memn_shift v z R Hz Hn). reflexivity. }
  assert (L1 : forall z, live (v :: R) (v, z) = false).
  { intros z. unfold live. cbn [fst snd]. rewrite Uv. reflexivity. }
  assert (L2 : forall z, live (v :: R) (z, v) = false).
  { intros z. unfold live. cbn [fst snd]. rewrite Uv. apply andb_false_r. }
  destruct (Nat.eqb_spec x v) as [->|Hx].
  - cbn [orb negb]. rewrite L1. exact IH.
  - destruct (Nat.eqb_spec y v) as [->|Hy]; cbn [orb negb].
    + rewrite L2. exact IH.
    + assert (L3 : live (v :: R) (x, y) = live R (x, y)).
      { unfold live. cbn [fst snd]. rewrite (Uo x Hx), (Uo y Hy). reflexivity. }
      assert (L4 : live (map (shift v) R) (shift v x, shift v y) = live R (x, y)).
      { unfold live. cbn [fst snd]. rewrite (Us x Hx), (Us y Hy). reflexivity. }
      cbn [map filter fst snd]. rewrite L3, L4.
      destruct (live R (x, y)); [|exact IH].
      cbn [map fst snd]. rewrite IH. f_equal.
      rewrite <- (new_index_shift v R x Hx Hn), <- (new_index_shift v R y Hy Hn). reflexivity.
Qed.

(* the interactions the in-place path keeps: those between two surviving variables *)
Theorem inplace_qends : forall fs n e, ExprInv n e -> FixOk n fs ->
  qends (inplace_expr (shift_fixings fs) e)
  = map (fun ab => (new_index (map fst fs) (fst ab), new_index (map fst fs) (snd ab)))
        (filter (live (map fst fs)) (qends e)).
Proof.
  intros fs. remember (length fs) as k eqn:Hk. revert fs Hk.
  induction k as [|k IH]; intros fs Hk n e I OK; destruct fs as [|[v a] r]; cbn [length] in Hk; try discriminate.
  - cbn [shift_fixings shift_fixings_from inplace_expr fold_left map].
    rewrite filter_all by reflexivity. rewrite <- (map_id (qends e)) at 1. apply map_ext.
    intros [x y]. unfold new_index. cbn [filter length fst snd]. rewrite !Nat.sub_0_r. reflexivity.
  - destruct (FixOk_tail n v a r OK) as [Hv [Hn OK']].
    rewrite shift_fixings_cons. unfold inplace_expr. cbn [fold_left fst snd].
    fold (inplace_expr (shift_fixings (map (fun f => (shift v (fst f), snd f)) r)) (m_fix v a e)).
    rewrite (IH (map (fun f => (shift v (fst f), snd f)) r) ltac:(rewrite map_length; lia) (pred n) (m_fix v a e)
                (fix_inv n e v a I Hv) OK').
    rewrite (qends_fix n e v a I). rewrite (map_map _ fst). cbn [fst map].
    rewrite <- (map_map fst (shift v)). apply live_shift. exact Hn.
Qed.

(* ---------- the quadratic phase of the copy path ---------- *)
Lemma add_linear_present : forall n e k b, ExprInv n e -> In k (e_vars e) ->
  e_vars (m_add_linear k b e) = e_vars e /\ e_quad (m_add_linear k b e) = e_quad e.
Proof.
  intros n e k b I Hin. unfold m_add_linear. pose proof (enforce_abs_present n e k I Hin) as P.
  destruct (enforce k e) as [e1 i]. cbn [fst] in P. subst e1. split; reflexivity.
Qed.

Lemma In_index_of : forall k l, In k l -> exists i, index_of k l = Some i.
Proof.
  intros k l H. destruct (index_of k l) as [i|] eqn:E; [exists i; reflexivity|].
  apply index_of_None in E. contradiction.
Qed.

Lemma add_quadratic_present : forall n vt e ku kv b, ExprInv n e -> In ku (e_vars e) -> In kv (e_vars e) ->
  (ku = kv -> match vt ku with BINARY | SPIN => False | _ => True end) ->
  e_vars (m_add_quadratic vt ku kv b e) = e_vars e
  /\ length (e_quad (m_add_quadratic vt ku kv b e)) = S (length (e_quad e)).
Proof.
  intros n vt e ku kv b I Hu Hv NF. unfold m_add_quadratic.
  destruct (In_index_of _ _ Hv) as [j Hj]. destruct (In_index_of _ _ Hu) as [i Hi].
  rewrite (enforce_present n e kv j I Hj), (enforce_present n e ku i I Hi).
  unfold base_add_quadratic. destruct (Nat.eqb_spec i j) as [->|_]; [|split; reflexivity].
  apply index_of_nth in Hi. apply index_of_nth in Hj.
  assert (E : ku = kv) by congruence. specialize (NF E).
  rewrite (nth_error_nth _ _ 0%nat Hi). destruct (vt ku); try contradiction; split; reflexivity.
Qed.

Definition both_survive (vars : list nat) (o2n : list (option nat)) (t : lqterm) : bool :=
  match o2n_get o2n (nth (fst (fst t)) vars 0%nat), o2n_get o2n (nth (snd (fst t)) vars 0%nat) with
  | Some _, Some _ => true | _, _ => false end.

Lemma fve_quad_struct : forall n' vt' vars o2n asg, O2nOk n' o2n -> forall l dst, ExprInv n' dst ->
  (forall t k, In t l -> o2n_get o2n (nth (fst (fst t)) vars 0%nat) = Some k -> In k (e_vars dst)) ->
  (forall t k, In t l -> o2n_get o2n (nth (snd (fst t)) vars 0%nat) = Some k -> In k (e_vars dst)) ->
  (forall t k, In t l -> o2n_get o2n (nth (fst (fst t)) vars 0%nat) = Some k ->
               o2n_get o2n (nth (snd (fst t)) vars 0%nat) = Some k ->
               match vt' k with BINARY | SPIN => False | _ => True end) ->
  e_vars (fold_left (fve_quad_step vt' vars o2n asg) l dst) = e_vars dst
  /\ length (e_quad (fold_left (fve_quad_step vt' vars o2n asg) l dst))
     = (length (e_quad dst) + length (filter (both_survive vars o2n) l))%nat.
Proof.
  intros n' vt' vars o2n asg HO l. induction l as [|t r IH]; intros dst I HA HB NF.
  - cbn [fold_left filter length]. split; [reflexivity|lia].
  - cbn [fold_left filter].
    set (u := nth (fst (fst t)) vars 0%nat) in *. set (v := nth (snd (fst t)) vars 0%nat) in *.
    assert (STEP : ExprInv n' (fve_quad_step vt' vars o2n asg dst t)
                   /\ e_vars (fve_quad_step vt' vars o2n asg dst t) = e_vars dst
                   /\ length (e_quad (fve_quad_step vt' vars o2n asg dst t))
                      = (length (e_quad dst) + if both_survive vars o2n t then 1 else 0)%nat).
    { unfold fve_quad_step, both_survive. fold u v.
      pose proof (HA t) as HAt. pose proof (HB t) as HBt. pose proof (NF t) as NFt. fold u in HAt, NFt. fold v in HBt, NFt.
      destruct (o2n_get o2n u) as [ku|] eqn:Eu; destruct (o2n_get o2n v) as [kv|] eqn:Ev.
      - pose proof (HAt ku (or_introl eq_refl) eq_refl) as Hu. pose proof (HBt kv (or_introl eq_refl) eq_refl) as Hv.
        split; [apply add_quadratic_inv; [exact I|exact (HO u ku Eu)|exact (HO v kv Ev)]|].
        destruct (add_quadratic_present n' vt' dst ku kv (snd t) I Hu Hv) as [E1 E2].
        + intros E. subst kv. apply (NFt ku (or_introl eq_refl)); reflexivity.
        + split; [exact E1|]. rewrite E2. lia.
      - pose proof (HAt ku (or_introl eq_refl) eq_refl) as Hu.
        split; [apply add_linear_inv; [exact I|exact (HO u ku Eu)]|].
        destruct (add_linear_present n' dst ku (asg_get asg v * snd t) I Hu) as [E1 E2]. rewrite E1, E2. split; [reflexivity|lia].
      - pose proof (HBt kv (or_introl eq_refl) eq_refl) as Hv.
        split; [apply add_linear_inv; [exact I|exact (HO v kv Ev)]|].
        destruct (add_linear_present n' dst kv (asg_get asg u * snd t) I Hv) as [E1 E2]. rewrite E1, E2. split; [reflexivity|lia].
      - split; [apply add_offset_inv; exact I|]. cbn [m_add_offset e_vars e_quad]. split; [reflexivity|lia]. }
    destruct STEP as [I1 [V1 Q1]].
    destruct (IH (fve_quad_step vt' vars o2n asg dst t) I1) as [V2 Q2].
    + intros t' k Ht' E. rewrite V1. apply (HA t' k (or_intror Ht') E).
    + intros t' k Ht' E. rewrite V1. apply (HB t' k (or_intror Ht') E).
    + intros t' k Ht'. apply (NF t' k (or_intror Ht')).
    + rewrite V2, V1, Q2, Q1. split; [reflexivity|].
      destruct (both_survive vars o2n t); cbn [length]; lia.
Qed.

Lemma In_kept_vars_intro : forall F vars u, In u vars -> memn u F = false -> In (new_index F u) (kept_vars F vars).
Proof.
  intros F vars u Hu M. unfold kept_vars. apply in_map. apply filter_In. split; [exact Hu|].
  unfold unfixed. rewrite M. reflexivity.
Qed.

Lemma filter_map_length : forall {A B} (f : A -> B) (g : B -> bool) l,
  length (filter g (map f l)) = length (filter (fun x => g (f x)) l).
Proof. intros A B f g l. rewrite filter_map_comm, map_length. reflexivity. Qed.

(* fix_paths_same_structure: from ANY well-formed source without a stored BINARY/SPIN self
   interaction among the survivors (true of every expression of the real code) both paths give the
   same variables_ and linear biases (as lists), the same offset and the same NUMBER of stored
   interactions (in particular is_linear() agrees) *)
Theorem fix_paths_same_structure : forall n vt' fs src, ExprInv n src -> FixOk n fs -> NoFoldLoops n vt' fs src ->
  let c := fix_variables_expr vt' src (old_to_new_of n (map fst fs)) (assignments_of n fs) in
  let i := inplace_expr (shift_fixings fs) src in
  e_vars c = kept_vars (map fst fs) (e_vars src) /\ e_vars i = kept_vars (map fst fs) (e_vars src)
  /\ e_lin c = e_lin i /\ e_off c = e_off i /\ length (e_quad c) = length (e_quad i).
Proof.
  intros n vt' fs src I OK NF c i. pose proof OK as [ND F].
  set (o2n := old_to_new_of n (map fst fs)) in *. set (asg := assignments_of n fs) in *.
  destruct (fix_inplace_spec fs n src I OK) as [Ii _]. fold i in Ii.
  pose proof (fix_copy_inv n vt' fs src OK) as Ic. fold o2n asg c in Ic.
  pose proof (inplace_vars fs n src I OK) as Vi. fold i in Vi.
  pose proof (inv_lt _ _ I) as LT. rewrite Forall_forall in LT.
  pose proof (inv_quad _ _ I) as QD. rewrite Forall_forall in QD.
  assert (HO : O2nOk (n - length (map fst fs)) o2n) by (apply old_to_new_ok; assumption).
  assert (NV : new_vars_of o2n (combine (e_vars src) (e_lin src)) = kept_vars (map fst fs) (e_vars src)).
  { apply new_vars_combine; [exact ND|exact (inv_len _ _ I)|exact (inv_lt _ _ I)]. }
  set (d1 := fold_left (fve_lin_step o2n asg) (combine (e_vars src) (e_lin src)) (m_add_offset (e_off src) e_empty)).
  assert (V1 : e_vars d1 = kept_vars (map fst fs) (e_vars src)).
  { unfold d1. rewrite (fix_copy_lin_phase_vars (n - length (map fst fs)) src o2n asg HO); [exact NV|].
    rewrite NV, <- Vi. exact (inv_nodup _ _ Ii). }
  assert (I1 : ExprInv (n - length (map fst fs)) d1).
  { unfold d1. refine (proj1 (fve_lin_fold _ o2n asg (fun _ => 0) _ _ HO _)). apply add_offset_inv. apply empty_inv. }
  assert (Q1 : e_quad d1 = []) by (unfold d1; rewrite fve_lin_quad; reflexivity).
  assert (SV : forall a k, (a < length (e_vars src))%nat -> o2n_get o2n (nth a (e_vars src) 0%nat) = Some k ->
               memn (nth a (e_vars src) 0%nat) (map fst fs) = false /\ k = new_index (map fst fs) (nth a (e_vars src) 0%nat)).
  { intros a k Ha E. unfold o2n in E. rewrite (old_to_new_spec n _ _ ND (LT _ (nth_In _ _ Ha))) in E.
    destruct (memn _ (map fst fs)); [discriminate|]. injection E as <-. split; reflexivity. }
  destruct (fve_quad_struct (n - length (map fst fs)) vt' (e_vars src) o2n asg HO (e_quad src) d1 I1) as [V2 Q2].
  { intros t k Ht E. destruct (QD t Ht) as [Ha _]. destruct (SV _ k Ha E) as [M ->]. rewrite V1.
    apply In_kept_vars_intro; [apply nth_In; exact Ha|exact M]. }
  { intros t k Ht E. destruct (QD t Ht) as [_ Hb]. destruct (SV _ k Hb E) as [M ->]. rewrite V1.
    apply In_kept_vars_intro; [apply nth_In; exact Hb|exact M]. }
  { intros t k Ht Eu Ev. destruct (QD t Ht) as [Ha Hb].
    pose proof (old_to_new_inj n (map fst fs) _ _ k ND Eu Ev) as E.
    assert (Eab : fst (fst t) = snd (fst t)).
    { apply (proj1 (NoDup_nth (e_vars src) 0%nat) (inv_nodup _ _ I)); assumption. }
    exact (NF t Ht Eab k Eu). }
  change (fold_left (fve_quad_step vt' (e_vars src) o2n asg) (e_quad src) d1) with c in V2, Q2.
  assert (Vc : e_vars c = kept_vars (map fst fs) (e_vars src)) by (rewrite V2; exact V1).
  destruct (fix_paths_same_coefficients n vt' fs src I OK NF) as [EO [EL _]]. fold o2n asg c i in EO, EL.
  split; [exact Vc|]. split; [exact Vi|]. split; [|split; [exact EO|]].
  - apply (lin_list_ext (e_vars i)); [exact (inv_nodup _ _ Ii)| |exact (inv_len _ _ Ii)|].
    + rewrite (inv_len _ _ Ic). congruence.
    + intros v. specialize (EL v). unfold abs_expr in EL. cbn [p_lin] in EL. rewrite Vc, <- Vi in EL. exact EL.
  - rewrite Q2, Q1. cbn [length Nat.add].
    assert (LQ : length (e_quad i) = length (qends i)) by (unfold qends; rewrite map_length; reflexivity).
    rewrite LQ. unfold i. rewrite (inplace_qends fs n src I OK), map_length. unfold qends.
    rewrite filter_map_length. f_equal. apply filter_ext_in. intros t Ht. destruct (QD t Ht) as [Ha Hb].
    unfold both_survive, live, unfixed, o2n. cbn [fst snd].
    rewrite (old_to_new_spec n _ _ ND (LT _ (nth_In _ _ Ha))), (old_to_new_spec n _ _ ND (LT _ (nth_In _ _ Hb))).
    destruct (memn (nth (fst (fst t)) (e_vars src) 0%nat) (map fst fs)),
             (memn (nth (snd (fst t)) (e_vars src) 0%nat) (map fst fs)); reflexivity.
Qed.

(* a hypothesis that does not mention the fixings: the expression stores no self interaction of a
   BINARY / SPIN variable of the model (abc.h add_quadratic never stores one) *)
Definition NoStoredLoops (q : mcqm) (e : mexpr) : Prop :=
  forall t, In t (e_quad e) -> fst (fst t) = snd (fst t) ->
    match cq_vartype q (nth (fst (fst t)) (e_vars e) 0%nat) with BINARY | SPIN => False | _ => True end.

Lemma NoStoredLoops_NoFoldLoops : forall fs q e, NoStoredLoops q e ->
  NoFoldLoops (length (m_info q)) (vt_of_info (m_info (cqm_fix_variables_copy fs q))) fs e.
Proof.
  intros fs q e H t Ht Eab k E. specialize (H t Ht Eab).
  set (u := nth (fst (fst t)) (e_vars e) 0%nat) in *.
  pose proof (copy_info_nth fs q u k E) as N. unfold vt_of_info. rewrite N.
  unfold cq_vartype in H. destruct (nth_error (m_info q) u) as [inf|] eqn:Eu; [exact H|].
  apply nth_error_None in Eu. rewrite (old_to_new_out _ _ u Eu) in E. discriminate.
Qed.

Lemma linear_NoStoredLoops : forall q e, e_quad e = [] -> NoStoredLoops q e.
Proof. intros q e H t Ht. rewrite H in Ht. destruct Ht. Qed.

(* onehot_con_agree_noloops: is_onehot() of the fixed constraint is the same on both paths for
   every constraint that stores no BINARY/SPIN self interaction (linear or not) *)
Theorem onehot_con_agree_noloops : forall fs q k, CqmInv q -> FixOk (length (m_info q)) fs -> In k (m_cons q) ->
  NoStoredLoops q (mc_e k) -> ip_onehot fs q k = cp_onehot fs q k.
Proof.
  intros fs q k [_ IC] OK Hk NS. rewrite Forall_forall in IC. pose proof (IC k Hk) as I.
  unfold ip_onehot, cp_onehot. cbn zeta.
  destruct (fix_paths_same_structure (length (m_info q)) (vt_of_info (m_info (cqm_fix_variables_copy fs q)))
              fs (mc_e k) I OK (NoStoredLoops_NoFoldLoops fs q (mc_e k) NS)) as [Vc [Vi [EL [EO LQ]]]]. cbn zeta in *.
  unfold mc_is_onehot. rewrite EL, EO, Vc, Vi.
  assert (EQ : match e_quad (inplace_expr (shift_fixings fs) (mc_e k)) with [] => true | _ => false end
               = match e_quad (fix_variables_expr (vt_of_info (m_info (cqm_fix_variables_copy fs q))) (mc_e k)
                                 (old_to_new_of (length (m_info q)) (map fst fs)) (assignments_of (length (m_info q)) fs))
                 with [] => true | _ => false end).
  { destruct (e_quad (inplace_expr _ _)), (e_quad (fix_variables_expr _ _ _ _)); cbn [length] in LQ;
      try reflexivity; discriminate. }
  rewrite EQ. f_equal. f_equal.
  apply forallb_ext_in'. intros x Hx. apply In_kept_vars in Hx. destruct Hx as [u [Hu [Hn ->]]].
  pose proof (inv_lt _ _ I) as LT. rewrite Forall_forall in LT.
  destruct (vartype_paths fs q u OK (LT u Hu) Hn) as [-> ->]. reflexivity.
Qed.

(* onehot_agree_holds_noloops: the side condition of FlipMarksFacts.discrete_view_inplace_vs_copy
   holds on every well-formed model none of whose constraints stores a BINARY/SPIN self
   interaction - every state of the real code *)
Theorem onehot_agree_holds_noloops : forall fs q, CqmInv q -> FixOk (length (m_info q)) fs ->
  (forall k, In k (m_cons q) -> NoStoredLoops q (mc_e k)) -> onehot_agree fs q = true.
Proof.
  intros fs q I OK H. unfold onehot_agree. rewrite onehot_view_inplace_map, onehot_view_copy_map.
  rewrite (map_ext_in (ip_onehot fs q) (cp_onehot fs q)).
  - apply list_eqb_bool_refl.
  - intros k Hk. apply onehot_con_agree_noloops; try assumption. apply H. exact Hk.
Qed.

Definition MarkedNoLoops (q : mcqm) : Prop :=
  forall k, In k (m_cons q) -> mc_mark k = true -> NoStoredLoops q (mc_e k).

Lemma MarkedLinear_NoLoops : forall q, MarkedLinear q -> MarkedNoLoops q.
Proof. intros q H k Hk M. apply linear_NoStoredLoops. exact (H k Hk M). Qed.

Theorem discrete_view_inplace_vs_copy_noloops : forall fs q, CqmInv q -> FixOk (length (m_info q)) fs -> MarkedNoLoops q ->
  discrete_view (cy_cqm_fix_variables_inplace fs q)
  = map (fun p => snd p && negb (mark_hit q fs (fst p)))
        (combine (m_cons q) (discrete_view (cqm_fix_variables_copy fs q))).
Proof.
  intros fs q I OK ML. rewrite (discrete_view_inplace_map fs q I OK), (discrete_view_copy_map fs q I OK).
  rewrite combine_self_map, map_map. apply map_ext_in. intros k Hk. cbn [fst snd].
  destruct (mc_mark k) eqn:M; [|reflexivity].
  rewrite (onehot_con_agree_noloops fs q k I OK Hk (ML k Hk M)).
  destruct (mark_hit q fs k), (cp_onehot fs q k); reflexivity.
Qed.

Corollary discrete_inplace_implies_copy_noloops : forall fs q j, CqmInv q -> FixOk (length (m_info q)) fs -> MarkedNoLoops q ->
  nth j (discrete_view (cy_cqm_fix_variables_inplace fs q)) false = true ->
  nth j (discrete_view (cqm_fix_variables_copy fs q)) false = true.
Proof.
  intros fs q j I OK ML. rewrite (discrete_view_inplace_vs_copy_noloops fs q I OK ML).
  generalize (discrete_view (cqm_fix_variables_copy fs q)). generalize (m_cons q). revert j.
  induction j as [|j IH]; intros [|k l] [|d ds]; cbn [combine map nth]; try discriminate.
  - intros H. apply andb_true_iff in H. exact (proj1 H).
  - apply IH.
Qed.


(* ================================================================== *)
(* 8. Examples                                                          *)
(* ================================================================== *)

(* the hypotheses of discrete_paths_agree_in_domain are satisfiable on non-trivial data: the
   add_discrete model FlipMarksFacts.ex_d4 (x0+x1+x2+x3 == 1, marked) with the fixings
   {x2: 0, x0: 1}  (real code: is_discrete() False on both paths) and {x2: 0, x0: 0} (True, True) *)
Lemma ex_d4_expr_inv : ExprInv 4 (mkE ex_vars4 ex_idx4 [1; 1; 1; 1] [] 0).
Proof.
  constructor; cbn [e_vars e_idx e_lin e_quad].
  - unfold ex_vars4. repeat constructor; cbn [In]; intros C; repeat (destruct C as [C|C]; [discriminate|]); exact C.
  - unfold ex_vars4. repeat constructor; lia.
  - reflexivity.
  - constructor.
  - intros k. do 5 (destruct k as [|k]; [reflexivity|]). reflexivity.
Qed.

Lemma ex_d4_inv : CqmInv ex_d4.
Proof. split; [exact ex_d4_expr_inv|]. constructor; [exact ex_d4_expr_inv|constructor]. Qed.

Example ex_d4_in_domain : forall a b : Qc, (a = 0 \/ a = 1) -> (b = 0 \/ b = 1) ->
  discrete_view (cy_cqm_fix_variables_inplace [(2%nat, a); (0%nat, b)] ex_d4)
  = discrete_view (cqm_fix_variables_copy [(2%nat, a); (0%nat, b)] ex_d4).
Proof.
  intros a b Ha Hb. apply discrete_paths_agree_in_domain.
  - exact ex_d4_inv.
  - split; cbn [map fst].
    + repeat constructor; cbn [In]; intros C; repeat (destruct C as [C|C]; [discriminate|]); exact C.
    + repeat constructor.
  - intros k [<-|[]] _. split; [vm_compute; reflexivity|]. cbn [mc_rhs]. intros C. discriminate C.
  - intros v x [E|[E|[]]] _; injection E as <- <-; assumption.
Qed.

(* a NON-linear marked constraint  x0*x1 + x1 + x2 + x3 == 1  (marked by hand): outside
   MarkedLinear but inside MarkedNoLoops (section 7): the two paths still build the same structure - the interaction with the
   fixed variable disappears on both (real code: fix x0 := 0 -> is_discrete() True, True, linear
   {1: 1, 2: 1, 3: 1}, quadratic {} on both; fix x0 := 1 -> False, False, linear {1: 2, 2: 1, 3: 1});
   with a zero-bias interaction 0*x1*x2 between two SURVIVING variables both paths keep the
   interaction (real code: quadratic {(1, 2): 0.0}, is_linear() False, is_discrete() False on both) *)
Definition ex_q4 (b : Qc) (i j : nat) : mcqm :=
  mkM (repeat (mkI BINARY 0 1) 4) e_empty
      [mkMC (mkE ex_vars4 ex_idx4 [0; 1; 1; 1] [(i, j, b)] 0) 2 1 None 0 true].
Example ex_nonlinear_marked_agree :
  onehot_agree [(0%nat, 0)] (ex_q4 1 0 1) && views_eqb (both_views [(0%nat, 0)] (ex_q4 1 0 1)) ([true], [true])
  && onehot_agree [(0%nat, 1)] (ex_q4 1 0 1) && views_eqb (both_views [(0%nat, 1)] (ex_q4 1 0 1)) ([false], [false])
  && onehot_agree [(0%nat, 0)] (ex_q4 0 1 2) && views_eqb (both_views [(0%nat, 0)] (ex_q4 0 1 2)) ([false], [false]) = true.
Proof. vm_compute. reflexivity. Qed.

(* where the structural agreement FAILS on the model: a bag that stores a self-interaction of a
   BINARY variable, 0*x0 + x1 + x2 + 0*x3 + 1*x3*x3 == 1.  The in-place path (substitute + reindex)
   keeps the stored term (not linear), the copy path re-adds it through add_quadratic_back, which
   folds it into the linear bias of x3 (linear, one-hot).  Such a bag satisfies ExprInv but is NOT a
   state of the real code (abc.h add_quadratic folds x*x of a BINARY/SPIN variable on entry, see
   FixCopyFacts.NoFoldLoops); the hypothesis "linear" (or NoFoldLoops) excludes it. *)
Definition ex_loop : mcqm :=
  mkM (repeat (mkI BINARY 0 1) 4) e_empty
      [mkMC (mkE ex_vars4 ex_idx4 [0; 1; 1; 0] [(3%nat, 3%nat, 1)] 0) 2 1 None 0 true].
Example onehot_agree_needs_nofold :
  negb (onehot_agree [(0%nat, 0)] ex_loop)
  && views_eqb (both_views [(0%nat, 0)] ex_loop) ([false], [true])
  && negb (mark_hit ex_loop [(0%nat, 0)] (hd (mkMC e_empty 0 0 None 0 false) (m_cons ex_loop)))
  && forallb (fun k => expr_ok (length (m_info ex_loop)) (mc_e k)) (m_cons ex_loop) = true.
Proof. vm_compute. reflexivity. Qed.

Print Assumptions inplace_vars.
Print Assumptions fix_paths_same_structure_linear.
Print Assumptions onehot_con_agree.
Print Assumptions inplace_qends.
Print Assumptions fix_paths_same_structure.
Print Assumptions onehot_con_agree_noloops.
Print Assumptions onehot_agree_holds_noloops.
Print Assumptions discrete_view_inplace_vs_copy_noloops.
Print Assumptions discrete_inplace_implies_copy_noloops.
Print Assumptions onehot_agree_holds.
Print Assumptions discrete_view_inplace_vs_copy'.
Print Assumptions discrete_inplace_implies_copy'.
Print Assumptions discrete_paths_agree_in_domain.
Print Assumptions ex_d4_in_domain.
