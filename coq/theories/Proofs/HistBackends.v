(* C04: the array-order and the dict-order variable disciplines over whole
   histories.  The two differ only in relabel_variables (dict order re-inserts
   the relabelled variables at the end).  For every history of calls that do not
   consult the variable ORDER, run on the two disciplines from related states, the
   outcomes agree call by call and the final states hold the same polynomial and
   the same set of variable records.  The order-consulting calls are
   characterised separately: they act on the last / the i-th variable of the
   respective order. *)
From Coq Require Import List ZArith QArith Qcanon Bool Arith Lia.
From Dimod Require Import Base.Util Model.Poly Model.View Model.Hist Proofs.PolyFacts Proofs.HistFacts Proofs.HistWf Proofs.HistWf2
  Proofs.HistAtomic Proofs.HistGenTie.
Import ListNotations.
Open Scope Qc_scope.

(* same kind (a BQM), same polynomial, same set of variable records *)
Definition sim (s s' : state) : Prop :=
  is_bqm s = true /\ st_kind s = st_kind s' /\ st_poly s = st_poly s' /\ (forall i, In i (st_vars s) <-> In i (st_vars s')).
Definition simr (r r' : res) : Prop := snd r = snd r' /\ sim (fst r) (fst r').

Lemma sim_refl s : is_bqm s = true -> sim s s.
Proof. intros H. split; [exact H|]. split; [reflexivity|]. split; [reflexivity|]. intros i. reflexivity. Qed.

Lemma sim_B' s s' : sim s s' -> is_bqm s' = true.
Proof. intros (H & K & _). unfold is_bqm in *. rewrite <- K. exact H. Qed.

Lemma existsb_iff {A : Type} (f : A -> bool) l l' : (forall i, In i l <-> In i l') -> existsb f l = existsb f l'.
Proof.
  intros H. destruct (existsb f l) eqn:E; symmetry.
  - apply existsb_exists in E. destruct E as [x [Hx Fx]]. apply existsb_exists. exists x. split; [apply H; exact Hx|exact Fx].
  - apply not_true_is_false. intros E'. apply existsb_exists in E'. destruct E' as [x [Hx Fx]].
    assert (existsb f l = true) by (apply existsb_exists; exists x; split; [apply H; exact Hx|exact Fx]). congruence.
Qed.

Lemma sim_has s s' x : sim s s' -> has_var s x = has_var s' x.
Proof. intros (_ & _ & _ & H). unfold has_var. apply existsb_iff. exact H. Qed.

Lemma sim_hasq s s' u v : sim s s' -> hasq s u v = hasq s' u v.
Proof. intros (_ & _ & P & _). unfold hasq. rewrite P. reflexivity. Qed.

Lemma sim_bvt s s' : sim s s' -> bvt s = bvt s'.
Proof. intros (_ & K & _). unfold bvt. rewrite K. reflexivity. Qed.

Lemma sim_vdir h s s' : sim s s' -> vdir_of h s = vdir_of h s'.
Proof. intros H. unfold vdir_of. rewrite (sim_bvt s s' H). reflexivity. Qed.

Lemma sim_with_poly s s' p : sim s s' -> sim (with_poly s p) (with_poly s' p).
Proof. intros (B & K & _ & V). split; [exact B|]. split; [exact K|]. split; [reflexivity|exact V]. Qed.

Lemma sim_ensure v s s' : sim s s' -> sim (ensure v s) (ensure v s').
Proof.
  intros H. pose proof H as (B & K & P & V). unfold ensure. rewrite <- (sim_has s s' v H). destruct (has_var s v); [exact H|].
  split; [exact B|]. split; [exact K|]. split; [exact P|]. intros i. cbn [with_vars st_vars].
  rewrite !in_app_iff, (sim_bvt s s' H), V. reflexivity.
Qed.

Lemma simr_ok s s' : sim s s' -> simr (ok s) (ok s').
Proof. intros H. split; [reflexivity|exact H]. Qed.

Lemma simr_raise b s s' : sim s s' -> simr (raise b s) (raise b s').
Proof. intros H. split; [reflexivity|exact H]. Qed.

Lemma simr_bind r r' g g' : simr r r' -> (forall a a', sim a a' -> simr (g a) (g' a')) -> simr (r >>= g) (r' >>= g').
Proof.
  intros [H1 H2] Hg. unfold bind. rewrite <- H1. destruct (snd r) eqn:E; [apply Hg; exact H2|]. split; [congruence|exact H2].
Qed.

Lemma simr_seqm {A : Type} (f f' : A -> state -> res) l s s' :
  (forall x a a', sim a a' -> simr (f x a) (f' x a')) -> sim s s' -> simr (seqm f l s) (seqm f' l s').
Proof.
  intros Hf. revert s s'. induction l as [|x l IH]; intros s s' H; [apply simr_ok; exact H|].
  cbn [seqm]. apply simr_bind; [apply Hf; exact H|]. intros a a' Ha. apply IH. exact Ha.
Qed.

Lemma sim_kind_some s s' : sim s s' -> exists vt, st_kind s = Some vt /\ st_kind s' = Some vt.
Proof. intros (B & K & _). unfold is_bqm in B. destruct (st_kind s) as [vt|] eqn:E; [|discriminate]. exists vt. split; [reflexivity|congruence]. Qed.

(* ---------- primitives ---------- *)
Lemma simr_resolve v s s' : sim s s' -> simr (resolve v s) (resolve v s').
Proof.
  intros H. destruct (sim_kind_some s s' H) as [vt [K K']].
  rewrite (resolve_bqm_ok v s vt K), (resolve_bqm_ok v s' vt K'). apply simr_ok, sim_ensure, H.
Qed.

Lemma sim_poly s s' : sim s s' -> st_poly s = st_poly s'.
Proof. intros (_ & _ & P & _). exact P. Qed.

Lemma simr_d_add_linear v b s s' : sim s s' -> simr (d_add_linear v b s) (d_add_linear v b s').
Proof.
  intros H. unfold d_add_linear. apply simr_bind; [apply simr_resolve; exact H|].
  intros a a' Ha. rewrite (sim_poly a a' Ha). apply simr_ok, sim_with_poly, Ha.
Qed.

Lemma simr_d_set_linear v b s s' : sim s s' -> simr (d_set_linear v b s) (d_set_linear v b s').
Proof.
  intros H. unfold d_set_linear. apply simr_bind; [apply simr_resolve; exact H|].
  intros a a' Ha. rewrite (sim_poly a a' Ha). apply simr_ok, sim_with_poly, Ha.
Qed.

Lemma sim_guard u v s s' : sim s s' -> quad_guard u v s = quad_guard u v s'.
Proof. intros H. destruct (sim_kind_some s s' H) as [vt [K K']]. unfold quad_guard. rewrite K, K'. reflexivity. Qed.

Lemma simr_d_add_quadratic u v b s s' : sim s s' -> simr (d_add_quadratic u v b s) (d_add_quadratic u v b s').
Proof.
  intros H. unfold d_add_quadratic. rewrite <- (sim_guard u v s s' H). destruct (quad_guard u v s); [apply simr_raise; exact H|].
  apply simr_bind; [apply simr_bind; [apply simr_resolve; exact H|intros; apply simr_resolve; assumption]|].
  intros a a' Ha. rewrite (sim_poly a a' Ha). apply simr_ok, sim_with_poly, Ha.
Qed.

Lemma simr_d_set_quadratic u v b s s' : sim s s' -> simr (d_set_quadratic u v b s) (d_set_quadratic u v b s').
Proof.
  intros H. unfold d_set_quadratic. rewrite <- (sim_guard u v s s' H). destruct (quad_guard u v s); [apply simr_raise; exact H|].
  apply simr_bind; [apply simr_bind; [apply simr_resolve; exact H|intros; apply simr_resolve; assumption]|].
  intros a a' Ha. rewrite (sim_poly a a' Ha). apply simr_ok, sim_with_poly, Ha.
Qed.

Lemma simr_d_remove_interaction u v s s' : sim s s' -> simr (d_remove_interaction u v s) (d_remove_interaction u v s').
Proof.
  intros H. unfold d_remove_interaction. rewrite <- !(sim_has s s' _ H), <- (sim_hasq s s' u v H).
  destruct (has_var s u && has_var s v && hasq s u v); [|apply simr_raise; exact H].
  rewrite (sim_poly s s' H). apply simr_ok, sim_with_poly, H.
Qed.

Lemma simr_d_remove_variable v s s' : sim s s' -> simr (d_remove_variable v s) (d_remove_variable v s').
Proof.
  intros H. unfold d_remove_variable. rewrite <- (sim_has s s' v H). destruct (has_var s v); [|apply simr_raise; exact H].
  pose proof H as (B & K & P & V). split; [reflexivity|]. cbn [ok fst]. split; [exact B|]. split; [exact K|].
  split; [cbn [st_poly]; rewrite P; reflexivity|]. intros i. cbn [st_vars]. rewrite !filter_In, V. reflexivity.
Qed.

Lemma simr_d_add_offset b s s' : sim s s' -> simr (d_add_offset b s) (d_add_offset b s').
Proof. intros H. unfold d_add_offset. rewrite (sim_poly s s' H). apply simr_ok, sim_with_poly, H. Qed.

Lemma simr_d_set_offset b s s' : sim s s' -> simr (d_set_offset b s) (d_set_offset b s').
Proof. intros H. unfold d_set_offset. rewrite (sim_poly s s' H). apply simr_ok, sim_with_poly, H. Qed.

(* ---------- handle-level calls that do not read the variable order ---------- *)
Lemma simr_h_add_linear h v b s s' : sim s s' -> simr (h_add_linear h v b s) (h_add_linear h v b s').
Proof.
  intros H. unfold h_add_linear. rewrite <- (sim_vdir h s s' H). destruct (vdir_of h s) as [[|]|]; try (apply simr_d_add_linear; exact H);
    (apply simr_bind; [apply simr_d_add_linear; exact H|intros; apply simr_d_add_offset; assumption]).
Qed.

Lemma simr_h_add_quadratic h u v b s s' : sim s s' -> simr (h_add_quadratic h u v b s) (h_add_quadratic h u v b s').
Proof.
  intros H. unfold h_add_quadratic. rewrite <- (sim_vdir h s s' H). destruct (vdir_of h s) as [[|]|]; try (apply simr_d_add_quadratic; exact H);
    (apply simr_bind; [apply simr_bind; [apply simr_bind; [apply simr_d_add_quadratic; exact H|]|]|];
     intros; try apply simr_d_add_linear; try apply simr_d_add_offset; assumption).
Qed.

Lemma simr_h_set_offset h b s s' : sim s s' -> simr (h_set_offset h b s) (h_set_offset h b s').
Proof.
  intros H. unfold h_set_offset. rewrite <- (sim_vdir h s s' H), <- (sim_poly s s' H).
  destruct (vdir_of h s); [apply simr_d_add_offset|apply simr_d_set_offset]; exact H.
Qed.

Lemma simr_h_add_variable h v b s s' : sim s s' -> simr (h_add_variable h v b s) (h_add_variable h v b s').
Proof. intros H. unfold h_add_variable. apply simr_bind; [apply simr_resolve; exact H|intros; apply simr_h_add_linear; assumption]. Qed.

Lemma sim_h_get_quadratic h u v s s' : sim s s' -> h_get_quadratic h u v s = h_get_quadratic h u v s'.
Proof.
  intros H. unfold h_get_quadratic, vscale, quad. rewrite <- !(sim_has s s' _ H), <- (sim_hasq s s' u v H), <- (sim_vdir h s s' H), (sim_poly s s' H). reflexivity.
Qed.

Lemma simr_h_set_quadratic h u v b s s' : sim s s' -> simr (h_set_quadratic h u v b s) (h_set_quadratic h u v b s').
Proof.
  intros H. unfold h_set_quadratic. destruct h; [apply simr_d_set_quadratic; exact H|].
  rewrite <- (sim_guard u v s s' H). destruct (quad_guard u v s); [apply simr_raise; exact H|].
  apply simr_bind; [apply simr_bind; [apply simr_bind; [apply simr_h_add_variable; exact H|]|]|].
  - intros; apply simr_h_add_variable; assumption.
  - intros; apply simr_h_add_quadratic; assumption.
  - intros a a' Ha. rewrite (sim_h_get_quadratic (Via wv) u v a a' Ha). apply simr_h_add_quadratic. exact Ha.
Qed.

Lemma simr_h_remove_interaction h u v s s' : sim s s' -> simr (h_remove_interaction h u v s) (h_remove_interaction h u v s').
Proof.
  intros H. unfold h_remove_interaction. rewrite <- (sim_vdir h s s' H), <- (sim_h_get_quadratic h u v s s' H).
  destruct (vdir_of h s); [|apply simr_d_remove_interaction; exact H].
  destruct (h_get_quadratic h u v s); [|apply simr_raise; exact H].
  apply simr_bind; [apply simr_h_set_quadratic; exact H|intros; apply simr_d_remove_interaction; assumption].
Qed.

(* ---------- relabelling: the one place where the disciplines differ ---------- *)
Lemma forallb_ext' {A : Type} (f g : A -> bool) l : (forall x, f x = g x) -> forallb f l = forallb g l.
Proof. intros H. induction l as [|a l IH]; [reflexivity|]. cbn [forallb]. rewrite H, IH. reflexivity. Qed.

Lemma sim_relabel_ok m s s' : sim s s' -> relabel_ok m s = relabel_ok m s'.
Proof.
  intros H. unfold relabel_ok. f_equal. apply forallb_ext'. intros t. rewrite (sim_has s s' _ H). reflexivity.
Qed.

Lemma simr_relabel m s s' : sim s s' -> simr (m_relabel m s) (m_relabel_py m s').
Proof.
  intros H. unfold m_relabel, m_relabel_py. rewrite <- (sim_relabel_ok m s s' H). destruct (relabel_ok m s); [|apply simr_raise; exact H].
  pose proof H as (B & K & P & V). split; [reflexivity|]. cbn [ok fst]. split; [exact B|]. split; [exact K|].
  split; [cbn [move_to_end with_vars relabel_state st_poly]; rewrite P; reflexivity|].
  intros i. unfold move_to_end, with_vars, relabel_state; cbn [st_vars]. rewrite In_moved, !in_map_iff.
  split; intros [j [E Hj]]; exists j; (split; [exact E|apply V; exact Hj]).
Qed.

(* ---------- calls that do not consult the variable order ---------- *)
Definition order_free (ho : handle * op) : bool :=
  match ho with
  | (_, OAddVariable _ _) | (_, OAddLinear _ _) | (_, OAddQuadratic _ _ _) | (_, OSetQuadratic _ _ _)
  | (_, OAddLinearFrom _) | (_, OAddQuadraticFrom _) | (_, ORemoveInteraction _ _) | (_, ORemoveInteractionsFrom _)
  | (_, ORelabel _) | (_, OSetOffset _) | (_, OClear) => true
  | (Direct, OSetLinear _ _) | (Direct, ORemoveVariable (Some _)) | (Direct, ORemoveVariablesFrom _)
  | (Direct, OScale _ [] [] false) => true
  | _ => false
  end.

Theorem backends_step s s' ho :
  order_free ho = true -> sim s s' -> simr (step s ho) (step s' (fst ho, py_op (snd ho))).
Proof.
  destruct ho as [h o]. intros Hc H. pose proof H as (B & _). pose proof (sim_B' s s' H) as B'.
  destruct o; cbn [order_free] in Hc; try discriminate; try (destruct h; discriminate); cbn [fst snd py_op step]; rewrite ?B, ?B'.
  - apply simr_h_add_variable; exact H.
  - apply simr_h_add_linear; exact H.
  - destruct h; [|discriminate]. unfold h_set_linear; cbn [vdir_of]. apply simr_d_set_linear; exact H.
  - apply simr_h_add_quadratic; exact H.
  - apply simr_h_set_quadratic; exact H.
  - apply simr_seqm; [|exact H]. intros; apply simr_h_add_linear; assumption.
  - apply simr_seqm; [|exact H]. intros; apply simr_h_add_quadratic; assumption.
  - destruct h; [|discriminate]. destruct v as [v|]; [|discriminate]. unfold h_remove_variable; cbn [vdir_of]. apply simr_d_remove_variable; exact H.
  - destruct h; [|discriminate]. apply simr_seqm; [|exact H]. intros x a a' Ha. unfold h_remove_variable; cbn [vdir_of]. apply simr_d_remove_variable; exact Ha.
  - apply simr_h_remove_interaction; exact H.
  - apply simr_seqm; [|exact H]. intros; apply simr_h_remove_interaction; assumption.
  - apply simr_relabel; exact H.
  - destruct h; [|discriminate]. destruct iv; [|discriminate]. destruct ii; [|discriminate]. destruct io; [discriminate|].
    cbn [m_scale]. rewrite (sim_poly s s' H). apply simr_ok, sim_with_poly, H.
  - apply simr_h_set_offset; exact H.
  - pose proof H as (_ & K & _). rewrite K. apply simr_ok. split; [exact B'|]. split; [reflexivity|]. split; [reflexivity|]. intros i; reflexivity.
Qed.

(* whole histories: outcomes agree call by call, final states related *)
Fixpoint outcomes (s : state) (l : list (handle * op)) : list outcome :=
  match l with [] => [] | ho :: l' => snd (step s ho) :: outcomes (fst (step s ho)) l' end.

Definition py_hist (l : list (handle * op)) : list (handle * op) := map (fun ho => (fst ho, py_op (snd ho))) l.

Theorem backends_indistinguishable l s s' :
  forallb order_free l = true -> sim s s' ->
  outcomes s l = outcomes s' (py_hist l) /\ sim (run s l) (run s' (py_hist l)).
Proof.
  revert s s'. induction l as [|ho l IH]; intros s s' Hl H; [split; [reflexivity|exact H]|].
  cbn [forallb] in Hl. apply andb_true_iff in Hl. destruct Hl as [Ho Hl].
  destruct (backends_step s s' ho Ho H) as [E1 E2].
  cbn [outcomes py_hist map]. unfold run. cbn [fold_left]. destruct (IH _ _ Hl E2) as [I1 I2].
  split; [rewrite E1; f_equal; exact I1|exact I2].
Qed.

(* coefficient form of the conclusion *)
Corollary backends_same_polynomial l s :
  is_bqm s = true -> forallb order_free l = true ->
  st_poly (run s l) = st_poly (run s (py_hist l))
  /\ (forall i, In i (st_vars (run s l)) <-> In i (st_vars (run s (py_hist l)))).
Proof.
  intros B Hl. destruct (backends_indistinguishable l s s Hl (sim_refl s B)) as [_ (_ & _ & P & V)]. split; assumption.
Qed.

(* ---------- the order-consulting calls: how they diverge ---------- *)
(* pop removes the LAST variable of the respective order *)
Theorem pop_is_remove_last h s :
  step s (h, ORemoveVariable None)
  = match last_label s with Some v => step s (h, ORemoveVariable (Some v)) | None => raise BValue s end.
Proof. cbn [step]. unfold h_remove_variable. destruct (last_label s); reflexivity. Qed.

(* relabel_variables_as_integers gives the i-th variable of the respective order the label i *)
Theorem relabel_ints_is_positional h ints s :
  step s (h, ORelabelInts ints) = step s (h, ORelabel (combine (labels s) ints)).
Proof. reflexivity. Qed.

(* resize(k), k below the size, keeps the first k variables of the respective order *)
Theorem resize_shrink_keeps_prefix h n fresh s :
  is_bqm s = true -> (0 <= n)%Z -> (Z.to_nat n <= num_variables s)%nat ->
  st_vars (fst (step s (h, OResize n fresh))) = firstn (Z.to_nat n) (st_vars s).
Proof.
  intros B Hn Hk. cbn [step]. rewrite B. unfold m_resize. destruct (Z.ltb_spec n 0); [lia|].
  destruct (Nat.leb_spec (Z.to_nat n) (num_variables s)); [reflexivity|lia].
Qed.
