(* The hand-written models of the C++ / Cython conversion paths use exactly the constants and multiplier
   formulas that translators/cpp_vartype_constants.py extracts from the source (Gen/Gen_CppVartype.v).
   Every lemma is by computation-free unfolding (reflexivity): if a literal or a formula changes in abc.h,
   binary_quadratic_model.h, quadratic_model.h, constrained_quadratic_model.h or cyconstrained.pyx the
   generated file changes and this file no longer compiles - the tie between source and model is then
   reported broken instead of silently stale. *)
From Coq Require Import List ZArith QArith Qcanon Bool Arith.
From Dimod Require Import Base.Util Model.Poly Model.Adj Model.Expr Model.AdjSubstAll Model.VartypeOps Gen.Gen_CppVartype.
Import ListNotations.
Open Scope Qc_scope.

(* abc.h substitute_variables *)
Theorem substitute_variables_uses_source_formulas mult c (m : qm) :
  substitute_variables mult c m =
  let '(l1, o1) := sv_pass1 mult c (lin m) (off m) in
  let '(l2, a2, o2) := sv_pass2 (gen_sv_quad_mp mult c) (gen_sv_lin_quad_mp mult c) (gen_sv_quad_offset_mp mult c)
                                l1 (adj m) o1 in
  mkQM l2 a2 o2 (vts m).
Proof. reflexivity. Qed.

(* binary_quadratic_model.h change_vartype *)
Theorem bqm_change_vartype_uses_source_constants t (m : qm) :
  bqm_change_vartype t m =
  if bqm_same_vartype t m then m
  else match t with
       | SPIN => set_all_vts SPIN (substitute_variables (fst gen_bqm_to_spin) (snd gen_bqm_to_spin) m)
       | BINARY => set_all_vts BINARY (substitute_variables (fst gen_bqm_to_binary) (snd gen_bqm_to_binary) m)
       | _ => m
       end.
Proof. reflexivity. Qed.

(* quadratic_model.h change_vartype *)
Definition mult4 (k : Qc * Qc * Qc * Qc) : Qc := fst (fst (fst k)).
Definition off4 (k : Qc * Qc * Qc * Qc) : Qc := snd (fst (fst k)).
Definition lb4 (k : Qc * Qc * Qc * Qc) : Qc := snd (fst k).
Definition ub4 (k : Qc * Qc * Qc * Qc) : Qc := snd k.

Theorem qm_spin_to_binary_uses_source_constants v (q : qmi) :
  qm_spin_to_binary_at v q =
  qi_upd_info v BINARY (fun _ => mkI BINARY (lb4 gen_qm_spin_to_binary) (ub4 gen_qm_spin_to_binary))
    (qi_with_m q (Adj.substitute_variable v (mult4 gen_qm_spin_to_binary) (off4 gen_qm_spin_to_binary) (q_m q))).
Proof. reflexivity. Qed.

Theorem qm_binary_to_spin_uses_source_constants v (q : qmi) :
  qm_binary_to_spin_at v q =
  qi_upd_info v SPIN (fun _ => mkI SPIN (lb4 gen_qm_binary_to_spin) (ub4 gen_qm_binary_to_spin))
    (qi_with_m q (Adj.substitute_variable v (mult4 gen_qm_binary_to_spin) (off4 gen_qm_binary_to_spin) (q_m q))).
Proof. reflexivity. Qed.

(* constrained_quadratic_model.h change_vartype *)
Theorem cqm_spin_to_binary_uses_source_constants v (q : mcqm) :
  cqm_spin_to_binary_at v q =
  cq_upd_info v (fun _ => mkI BINARY (lb4 gen_cqm_spin_to_binary) (ub4 gen_cqm_spin_to_binary))
    (cqm_substitute v (mult4 gen_cqm_spin_to_binary) (off4 gen_cqm_spin_to_binary) q).
Proof. reflexivity. Qed.

Theorem cqm_binary_to_spin_uses_source_constants v (q : mcqm) :
  cqm_binary_to_spin_at v q =
  cq_upd_info v (fun _ => mkI SPIN (lb4 gen_cqm_binary_to_spin) (ub4 gen_cqm_binary_to_spin))
    (cqm_substitute v (mult4 gen_cqm_binary_to_spin) (off4 gen_cqm_binary_to_spin) q).
Proof. reflexivity. Qed.

(* cyconstrained.pyx flip_variable *)
Theorem cqm_flip_variable_uses_source_constants v (q : mcqm) :
  cqm_flip_variable v q =
  match cq_vartype q v with
  | SPIN => Some (cqm_substitute v (fst gen_cqm_flip_spin) (snd gen_cqm_flip_spin) q)
  | BINARY => Some (cqm_substitute v (fst gen_cqm_flip_binary) (snd gen_cqm_flip_binary) q)
  | _ => None
  end.
Proof. reflexivity. Qed.

Print Assumptions substitute_variables_uses_source_formulas.
Print Assumptions bqm_change_vartype_uses_source_constants.
Print Assumptions qm_spin_to_binary_uses_source_constants.
Print Assumptions cqm_flip_variable_uses_source_constants.
