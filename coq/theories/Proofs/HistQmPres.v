(* C04: the QuadraticModel invariant (QM kind, well formed, no REAL interaction) is preserved by every call *)
From Coq Require Import List ZArith QArith Qcanon Bool Arith Lia.
From Dimod Require Import Base.Util Model.Poly Model.View Model.Hist Proofs.PolyFacts Proofs.HistFacts
  Proofs.HistWf Proofs.HistWf2 Proofs.HistAtomic Proofs.HistAtomicQM Proofs.HistQmAtomic.
From Dimod Require Import Model.ChkC04.
Import ListNotations.
Open Scope Qc_scope.

(* ---------- the looping python-level methods, on the base object ---------- *)
Lemma PI_h_add_linear v (b : state -> Qc) : PI (fun s => h_add_linear Direct v (b s) s).
Proof. exact (PI_d_add_linear v b). Qed.
Lemma PI_h_set_linear v (b : state -> Qc) : PI (fun s => h_set_linear Direct v (b s) s).
Proof. exact (PI_d_set_linear v b). Qed.
Lemma PI_h_add_quadratic u v (b : state -> Qc) : PI (fun s => h_add_quadratic Direct u v (b s) s).
Proof. exact (PI_d_add_quadratic u v b). Qed.
Lemma PI_h_set_quadratic u v (b : state -> Qc) : PI (fun s => h_set_quadratic Direct u v (b s) s).
Proof. exact (PI_d_set_quadratic u v b). Qed.
Lemma PI_h_set_offset (b : state -> Qc) : PI (fun s => h_set_offset Direct (b s) s).
Proof. exact (PI_d_set_offset b). Qed.
Lemma PI_h_add_offset (b : state -> Qc) : PI (fun s => h_add_offset Direct (b s) s).
Proof. exact (PI_d_set_offset (fun s => h_get_offset Direct s + b s)). Qed.
Lemma PI_h_remove_interaction u v : PI (h_remove_interaction Direct u v).
Proof. exact (PI_d_remove_interaction u v). Qed.
Lemma PI_h_remove_variable ov : PI (h_remove_variable Direct ov).
Proof.
  intros s Hs. unfold h_remove_variable; cbn [vdir_of].
  destruct (match ov with Some v => Some v | None => last_label s end) as [v|]; [apply PI_d_remove_variable|]; exact Hs.
Qed.

Lemma PI_m_flip v : PI (m_flip Direct v).
Proof.
  intros s Hs. unfold m_flip. destruct (negb (has_var s v)); [exact Hs|].
  destruct (match st_kind s with Some _ => hvt Direct s | None => vt_of s v end); try exact Hs.
  - (* BINARY *)
    apply I_bind; [apply I_bind; [apply PI_seqm; [|exact Hs]|]|].
    + intros t. apply (PI_bind (fun s => h_set_quadratic Direct (fst t) v (- snd t) s)).
      * exact (PI_h_set_quadratic (fst t) v (fun _ => - snd t)).
      * exact (PI_h_add_linear (fst t) (fun _ => snd t)).
    + exact (PI_h_add_offset (fun s => opt0 (h_get_linear Direct v s))).
    + exact (PI_h_set_linear v (fun s => - opt0 (h_get_linear Direct v s))).
  - (* SPIN *)
    apply I_bind; [apply PI_seqm; [|exact Hs]|].
    + intros t. exact (PI_h_set_quadratic (fst t) v (fun _ => - snd t)).
    + exact (PI_h_set_linear v (fun s => - opt0 (h_get_linear Direct v s))).
Qed.

Lemma PI_m_fix v a : PI (m_fix Direct v a).
Proof.
  intros s Hs. unfold m_fix. destruct (negb (has_var s v)); [exact Hs|].
  apply I_bind; [apply I_bind; [apply PI_seqm; [|exact Hs]|]|].
  - intros t. exact (PI_h_add_linear (fst t) (fun _ => a * snd t)).
  - exact (PI_h_add_offset (fun s => a * opt0 (h_get_linear Direct v s))).
  - apply PI_h_remove_variable.
Qed.

Lemma I_scale k s : qm_inv s -> qm_inv (with_poly s (scale k (st_poly s))).
Proof.
  intros Hs. apply I_with_poly; [exact Hs|apply wf_scale; apply Hs|].
  intros t It. cbn [scale p_quad] in It. apply in_map_iff in It. destruct It as [q [<- Iq]].
  left. exists q. split; [exact Iq|reflexivity].
Qed.

Lemma PI_m_scale k iv ii io : PI (m_scale Direct k iv ii io).
Proof.
  assert (Hloop : PI (fun s =>
      seqm (fun v s => if mem_label v iv then ok s
                       else h_set_linear Direct v (k * opt0 (h_get_linear Direct v s)) s) (labels s) s
      >>= (fun s => seqm (fun t s => if mem_pair (fst t) (snd t) ii then ok s
                                     else h_set_quadratic Direct (fst t) (snd t)
                                            (k * opt0 (h_get_quadratic Direct (fst t) (snd t) s)) s)
                         (pairs s) s)
      >>= fun s => if io then ok s else h_set_offset Direct (h_get_offset Direct s * k) s)).
  { intros s Hs. apply I_bind; [apply I_bind; [apply PI_seqm; [|exact Hs]|]|].
    - intros x s' Hs'. destruct (mem_label x iv); [exact Hs'|].
      exact (PI_h_set_linear x (fun s => k * opt0 (h_get_linear Direct x s)) s' Hs').
    - intros s' Hs'. apply PI_seqm; [|exact Hs']. intros t s'' Hs''. destruct (mem_pair (fst t) (snd t) ii); [exact Hs''|].
      exact (PI_h_set_quadratic (fst t) (snd t) (fun s => k * opt0 (h_get_quadratic Direct (fst t) (snd t) s)) s'' Hs'').
    - intros s' Hs'. destruct io; [exact Hs'|]. exact (PI_h_set_offset (fun s => h_get_offset Direct s * k) s' Hs'). }
  intros s Hs. unfold m_scale.
  destruct iv as [|x iv']; [destruct ii as [|y ii']; [destruct io|]|]; try (exact (Hloop s Hs)).
  cbn [fst ok]. apply I_scale. exact Hs.
Qed.

(* ---------- relabelling ---------- *)
Lemma vt_of_relabel_state f s x :
  (forall a b, In a (labels s) -> In b (labels s) -> f a = f b -> a = b) -> In x (labels s) ->
  vt_of (relabel_state f s) (f x) = vt_of s x.
Proof.
  intros Hinj Hx. unfold relabel_state. fold (relab f). unfold vt_of, find_var, bvt; cbn [st_vars st_kind].
  rewrite (find_relab f (st_vars s) x Hinj Hx).
  destruct (find (fun i => (v_lab i =? x)%nat) (st_vars s)); reflexivity.
Qed.

Lemma I_relabel_state f s :
  qm_inv s -> (forall a b, In a (labels s) -> In b (labels s) -> f a = f b -> a = b) -> qm_inv (relabel_state f s).
Proof.
  intros (K & W & R) Hinj. split; [exact K|]. split; [apply wf_relabel_state; assumption|].
  intros t It. cbn [relabel_state st_poly relabel p_quad] in It. apply in_map_iff in It. destruct It as [t0 [<- I0]].
  cbn [fst snd]. destruct W as (_ & _ & Hq & _). destruct (Hq t0 I0) as (L1 & L2 & _).
  rewrite !vt_of_relabel_state by assumption. apply R. exact I0.
Qed.

Lemma I_permuted s vs :
  qm_inv s -> NoDup (map v_lab vs) -> (forall i, In i vs <-> In i (st_vars s)) -> qm_inv (with_vars s vs).
Proof.
  intros (K & W & R) Hnd' Hiff. split; [exact K|]. split; [apply wf_permuted; assumption|].
  pose proof W as (Hnd & _ & Hq & _).
  assert (Hvt : forall x, In x (labels s) -> vt_of (with_vars s vs) x = vt_of s x).
  { intros x Hx. destruct (in_labels_vinfo s x Hx) as [i [Hi <-]].
    rewrite (vt_of_in s i Hnd Hi). apply (vt_of_in (with_vars s vs) i); [exact Hnd'|]. apply Hiff. assumption. }
  intros t It. cbn [with_vars st_poly] in It. destruct (Hq t It) as (L1 & L2 & _).
  rewrite !Hvt by assumption. apply R. exact It.
Qed.

Lemma I_move_to_end T s : qm_inv s -> NoDup T -> qm_inv (move_to_end T s).
Proof.
  intros Hs HT. unfold move_to_end. fold (moved T (st_vars s)). apply I_permuted; [assumption| |].
  - apply moved_nodup; [apply Hs|assumption].
  - intros i. apply moved_in.
Qed.

Lemma PI_m_relabel m : PI (m_relabel m).
Proof.
  intros s Hs. unfold m_relabel. destruct (relabel_ok m s) eqn:E; [|exact Hs].
  cbn [ok fst]. apply I_relabel_state; [assumption|]. intros a b. apply lookup_inj. assumption.
Qed.

Lemma PI_m_relabel_py m : PI (m_relabel_py m).
Proof.
  intros s Hs. unfold m_relabel_py. destruct (relabel_ok m s) eqn:E; [|exact Hs].
  cbn [ok fst]. apply I_move_to_end.
  - apply I_relabel_state; [assumption|]. intros a b. apply lookup_inj. assumption.
  - apply py_moved_nodup. unfold relabel_ok in E. apply andb_true_iff in E. apply nodupb_NoDup. apply E.
Qed.

(* ---------- QM variables, bounds, vartypes ---------- *)
Lemma I_append s (ex : list vinfo) :
  qm_inv s -> NoDup (map v_lab ex) -> (forall i, In i ex -> ~ In (v_lab i) (labels s)) -> qm_inv (with_vars s (st_vars s ++ ex)).
Proof.
  intros (K & W & R) Hex Hfresh. split; [exact K|]. split.
  - apply wf_append; try assumption. intros vt K0. unfold Q in K. congruence.
  - intros t It. cbn [with_vars st_poly] in It. destruct W as (_ & _ & Hq & _). destruct (Hq t It) as (L1 & L2 & _).
    assert (Hvt : forall x, In x (labels s) -> vt_of (with_vars s (st_vars s ++ ex)) x = vt_of s x).
    { intros x Hx. destruct (find_var_some s x Hx) as [i Hi]. unfold vt_of, find_var, bvt, with_vars in *; cbn [st_vars st_kind].
      rewrite (find_app_l _ _ _ _ Hi), Hi. reflexivity. }
    rewrite !Hvt by assumption. apply R. exact It.
Qed.

Lemma PI_q_add_variable vt v lb ub : PI (q_add_variable vt v lb ub).
Proof.
  intros s Hs. unfold q_add_variable. destruct (find_var s v) as [i|] eqn:F.
  - destruct (negb (vartype_eqb (v_vt i) vt)); [exact Hs|].
    match goal with |- context [if ?c then _ else _] => destruct c end; exact Hs.
  - destruct (bounds_for vt lb ub) as [l u]. destruct (bounds_bad vt l u); [exact Hs|]. cbn [ok fst].
    apply I_append; [assumption| |].
    + cbn. constructor; [intros []|constructor].
    + intros i [<-|[]]. cbn [v_lab]. apply find_var_none_notin. assumption.
Qed.

Lemma PI_q_add_linear_dflt v b vt lb ub : PI (q_add_linear_dflt v b vt lb ub).
Proof.
  intros s Hs. unfold q_add_linear_dflt. destruct (has_var s v).
  - exact (PI_d_add_linear v (fun _ => b) s Hs).
  - apply I_bind; [apply PI_q_add_variable; exact Hs|exact (PI_d_add_linear v (fun _ => b))].
Qed.

Lemma find_map_g_real (l : list vinfo) v (g : vinfo -> vinfo) x (dflt : vartype) :
  (forall i, v_lab i = v -> v_lab (g i) = v_lab i) ->
  (forall i, is_real (v_vt i) = false -> is_real (v_vt (g i)) = false) ->
  is_real (match find (fun i => (v_lab i =? x)%nat) l with Some i => v_vt i | None => dflt end) = false ->
  is_real (match find (fun i => (v_lab i =? x)%nat) (map (fun i => if (v_lab i =? v)%nat then g i else i) l)
           with Some i => v_vt i | None => dflt end) = false.
Proof.
  intros Hlab Hreal. induction l as [|a l IH]; [intros Hx; exact Hx|]. cbn [map find].
  destruct (Nat.eqb_spec (v_lab a) v) as [Ea|Ea].
  - rewrite (Hlab a Ea). destruct (Nat.eqb_spec (v_lab a) x) as [Ex|Ex]; [apply Hreal|exact IH].
  - destruct (Nat.eqb_spec (v_lab a) x) as [Ex|Ex]; [intros Hx; exact Hx|exact IH].
Qed.

(* a record rewritten without touching its label: vartype lookups of the other labels are unchanged *)
Lemma I_set_vinfo v g s1 s :
  qm_inv s -> st_kind s1 = st_kind s -> st_vars s1 = st_vars s -> wf (set_vinfo v g s1) ->
  (forall i, v_lab i = v -> v_lab (g i) = v_lab i) ->
  (forall i, is_real (v_vt i) = false -> is_real (v_vt (g i)) = false) ->
  (forall t, In t (p_quad (st_poly s1)) -> exists q, In q (p_quad (st_poly s)) /\ fst t = fst q) ->
  qm_inv (set_vinfo v g s1).
Proof.
  intros (K & W & R) K1 V1 W' Hlab Hreal Hsub. split; [unfold Q in *; cbn [set_vinfo with_vars st_kind]; congruence|]. split; [exact W'|].
  assert (Hvt : forall x, is_real (vt_of s x) = false -> is_real (vt_of (set_vinfo v g s1) x) = false).
  { intros x Hx. unfold vt_of, find_var, bvt, set_vinfo, with_vars in *; cbn [st_vars st_kind] in *.
    rewrite K1, V1. apply find_map_g_real; assumption. }
  intros t It. cbn [set_vinfo with_vars st_poly] in It. destruct (Hsub t It) as [q [Iq E]].
  destruct (R q Iq) as [R1 R2]. rewrite E. split; apply Hvt; assumption.
Qed.

Lemma PI_q_set_lb v b : PI (q_set_lb v b).
Proof.
  intros s Hs. pose proof (pres_q_set_lb v b s (proj1 (proj2 Hs))) as Hw. unfold q_set_lb in *.
  destruct (find_var s v) as [i|]; [|exact Hs].
  match goal with |- context [if ?c then _ else _] => destruct c end; [exact Hs|]. cbn [ok fst] in *.
  apply (I_set_vinfo v _ s s); try assumption; try reflexivity.
  - intros j Hj. exact Hj.
  - intros t It. exists t. split; [exact It|reflexivity].
Qed.

Lemma PI_q_set_ub v b : PI (q_set_ub v b).
Proof.
  intros s Hs. pose proof (pres_q_set_ub v b s (proj1 (proj2 Hs))) as Hw. unfold q_set_ub in *.
  destruct (find_var s v) as [i|]; [|exact Hs].
  match goal with |- context [if ?c then _ else _] => destruct c end; [exact Hs|]. cbn [ok fst] in *.
  apply (I_set_vinfo v _ s s); try assumption; try reflexivity.
  - intros j Hj. exact Hj.
  - intros t It. exists t. split; [exact It|reflexivity].
Qed.

Lemma PI_m_change_vartype_qm vt v : PI (m_change_vartype_qm vt v).
Proof.
  intros s Hs. pose proof Hs as (K & W & R).
  pose proof (wf_m_change_vartype_qm vt v s K W) as Hw. unfold m_change_vartype_qm in *.
  destruct (has_var s v); cbn [negb] in *; [|exact Hs].
  assert (Hg : forall vt' lb ub i, v_lab i = v -> v_lab ((fun _ : vinfo => mkV v vt' lb ub) i) = v_lab i).
  { intros vt' lb ub i E. cbn [v_lab]. symmetry. exact E. }
  assert (Sb : sub_terms (binary_to_spin v (st_poly s)) (st_poly s)) by exact (sub_terms_substitute v half half (st_poly s)).
  assert (Ss : sub_terms (spin_to_binary v (st_poly s)) (st_poly s)) by exact (sub_terms_substitute v two (- (1)) (st_poly s)).
  destruct (vt_of s v) eqn:Ev; destruct vt; cbn [ok raise fst] in *; try (exact Hs).
  - apply (I_set_vinfo v _ (with_poly s (binary_to_spin v (st_poly s))) s); try assumption; try reflexivity;
      [apply Hg|apply Sb].
  - apply (I_set_vinfo v _ s s); try assumption; try reflexivity; [apply Hg|].
    intros t It. exists t. split; [exact It|reflexivity].
  - apply (I_set_vinfo v _ (with_poly s (spin_to_binary v (st_poly s))) s); try assumption; try reflexivity;
      [apply Hg|apply Ss].
  - apply (I_set_vinfo v _ (with_poly s (spin_to_binary v (st_poly s))) s); try assumption; try reflexivity;
      [apply Hg|apply Ss].
Qed.

(* ---------- update(other) ---------- *)
Definition op_ok_qm (o : op) : Prop :=
  match o with OUpdate other => wf other /\ no_real_inter other | _ => True end.

Lemma I_m_update_qm o s : qm_inv s -> wf o -> no_real_inter o -> qm_inv (fst (m_update_qm o s)).
Proof.
  intros Hs Ho Ro. pose proof Hs as (K & W & R). pose proof (wf_m_update_qm o s K W Ho) as Hw.
  unfold m_update_qm in *. destruct (existsb (vinfo_conflict s) (st_vars o)) eqn:C; [exact Hs|].
  cbn [ok fst] in *.
  set (ex := filter (fun i => negb (has_var s (v_lab i))) (st_vars o)) in *.
  assert (Hs1 : qm_inv (with_vars s (st_vars s ++ ex))).
  { apply I_append; [assumption| |].
    - apply NoDup_map_filter. apply Ho.
    - intros i Hi. apply filter_In in Hi. destruct Hi as [_ Hi]. apply negb_true_iff in Hi. intros H. apply has_var_In in H. congruence. }
  pose proof Hs1 as (_ & (Hnd1 & _) & R1). pose proof Ho as (Hndo & _ & Hqo & _).
  assert (Hvt : forall x, In x (labels o) -> vt_of (with_vars s (st_vars s ++ ex)) x = vt_of o x).
  { intros x Hx. destruct (in_labels_vinfo o x Hx) as [i [Hi <-]]. rewrite (vt_of_in o i Hndo Hi).
    destruct (find_var s (v_lab i)) as [j|] eqn:F.
    - assert (Cf : vinfo_conflict s i = false).
      { destruct (vinfo_conflict s i) eqn:Ci; [|reflexivity]. exfalso.
        assert (existsb (vinfo_conflict s) (st_vars o) = true) by (apply existsb_exists; exists i; auto). congruence. }
      unfold vinfo_conflict in Cf. rewrite F in Cf. apply negb_false_iff in Cf.
      apply andb_true_iff in Cf. destruct Cf as [Cf _]. apply andb_true_iff in Cf. destruct Cf as [Cf _].
      unfold vt_of, find_var, with_vars in *; cbn [st_vars st_kind]. rewrite (find_app_l _ _ _ _ F).
      destruct (v_vt i), (v_vt j); try discriminate; reflexivity.
    - assert (Hie : In i ex).
      { apply filter_In. split; [assumption|]. apply negb_true_iff. apply not_true_is_false. intros H.
        apply has_var_In in H. apply (find_var_none_notin s _ F). assumption. }
      apply (vt_of_in (with_vars s (st_vars s ++ ex)) i); [exact Hnd1|]. cbn [with_vars st_vars]. apply in_or_app. right. assumption. }
  apply I_with_poly; [exact Hs1|exact Hw|].
  intros t It. cbn [padd p_quad] in It. apply in_app_or in It. destruct It as [It|It].
  - left. exists t. split; [exact It|reflexivity].
  - right. destruct (Hqo t It) as (L1 & L2 & _). rewrite !Hvt by assumption. apply Ro. exact It.
Qed.

Lemma I_clear : qm_inv (mkSt None [] pzero).
Proof.
  split; [reflexivity|]. split; [apply wf_clear; intros vt H; discriminate|]. intros t [].
Qed.

(* ---------- every call ---------- *)
Theorem qm_inv_step s o : op_ok_qm o -> qm_inv s -> qm_inv (fst (step s (Direct, o))).
Proof.
  intros Ho Hs. pose proof Hs as (K & _ & _).
  assert (Hb : is_bqm s = false) by (unfold is_bqm; rewrite K; reflexivity).
  destruct o; cbn [step]; rewrite ?Hb; try exact Hs.
  - exact (PI_h_add_linear v (fun _ => b) s Hs).
  - exact (PI_h_set_linear v (fun _ => b) s Hs).
  - exact (PI_h_add_quadratic u v (fun _ => b) s Hs).
  - exact (PI_h_set_quadratic u v (fun _ => b) s Hs).
  - apply PI_seqm; [|exact Hs]. intros t. exact (PI_h_add_linear (fst t) (fun _ => snd t)).
  - apply PI_seqm; [|exact Hs]. intros t. exact (PI_h_add_quadratic (fst (fst t)) (snd (fst t)) (fun _ => snd t)).
  - apply PI_h_remove_variable. exact Hs.
  - apply PI_seqm; [|exact Hs]. intros x. apply PI_h_remove_variable.
  - apply PI_h_remove_interaction. exact Hs.
  - apply PI_seqm; [|exact Hs]. intros t. apply PI_h_remove_interaction.
  - apply PI_m_flip. exact Hs.
  - apply PI_m_relabel. exact Hs.
  - unfold m_relabel_ints. apply PI_m_relabel. exact Hs.
  - apply PI_m_relabel_py. exact Hs.
  - unfold m_relabel_ints_py. apply PI_m_relabel_py. exact Hs.
  - apply PI_m_scale. exact Hs.
  - destruct Ho as [Wo Ro]. apply I_m_update_qm; assumption.
  - rewrite K. apply I_clear.
  - apply PI_m_fix. exact Hs.
  - apply PI_q_add_variable. exact Hs.
  - apply PI_q_add_linear_dflt. exact Hs.
  - apply PI_seqm; [|exact Hs]. intros t. apply PI_q_add_linear_dflt.
  - apply PI_seqm; [|exact Hs]. intros x. apply PI_q_add_variable.
  - apply PI_q_set_lb. exact Hs.
  - apply PI_q_set_ub. exact Hs.
  - apply PI_m_change_vartype_qm. exact Hs.
Qed.

Definition qm_hist_ok (l : list (handle * op)) : Prop :=
  Forall (fun ho => fst ho = Direct /\ op_ok_qm (snd ho)) l.

Theorem qm_inv_reachable l : forall s, qm_inv s -> qm_hist_ok l -> qm_inv (run s l).
Proof.
  induction l as [|[h o] l IH]; intros s Hs Hl; [exact Hs|].
  inversion Hl as [|? ? [Hh Ho] Hl']; subst. cbn [fst snd] in *. subst h. unfold run. cbn [fold_left].
  apply IH; [|exact Hl']. apply qm_inv_step; assumption.
Qed.

(* in every state a QuadraticModel can reach - from the empty model or any good state, by any history of
   calls, the looping ones included - every atomic call that raises leaves the model unchanged *)
Theorem qm_reachable_failed_op_is_noop s l o e :
  qm_inv s -> qm_hist_ok l -> atomic o = true ->
  snd (step (run s l) (Direct, o)) = Raised e -> fst (step (run s l) (Direct, o)) = run s l.
Proof.
  intros Hs Hl Ha. destruct (qm_inv_reachable l s Hs Hl) as (K & W & R).
  apply failed_op_is_noop_qm; assumption.
Qed.

(* the executable test the correspondence check evaluates on every reached state *)
Lemma nrib_sound s : Q s -> nrib s = true -> no_real_inter s.
Proof.
  intros K H t It. unfold nrib in H. rewrite K in H. rewrite forallb_forall in H. specialize (H t It).
  apply andb_true_iff in H. destruct H as [H1 H2]. apply negb_true_iff in H1. apply negb_true_iff in H2. auto.
Qed.

Lemma checked_state_is_good s : Q s -> wfb s = true -> nrib s = true -> qm_inv s.
Proof. intros K W N. split; [exact K|]. split; [apply wfb_sound; exact W|apply nrib_sound; assumption]. Qed.

Print Assumptions qm_inv_step.
Print Assumptions qm_reachable_failed_op_is_noop.
