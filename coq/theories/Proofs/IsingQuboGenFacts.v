(* The hand-written constants of Model/IsingQubo.v (two, four, half, quarter, the implicit 1 / -1 / 0) ARE the
   literals of dimod/utilities.py: Model/IsingQuboGen.v repeats the two algorithms over the constants that
   translators/ising_qubo_constants.py extracts from the source (Gen/Gen_IsingQubo.v), and here the two versions are
   proved equal.  Each `gen_* = <hand constant>` lemma is by `reflexivity` (delta-unfolding of names only), so a
   changed literal in utilities.py changes Gen_IsingQubo.v and this file stops compiling. *)
From Coq Require Import List ZArith QArith Qcanon Bool Arith Lia.
From Dimod Require Import Base.Util Model.Poly Model.IsingQubo Gen.Gen_IsingQubo Model.IsingQuboGen
  Proofs.PolyFacts Proofs.IsingQuboFacts.
Import ListNotations.
Open Scope Qc_scope.

(* ---------- the generated constants are the hand-written ones ---------- *)
Lemma gen_i2q_lin_eq : gen_i2q_lin = two.                 Proof. reflexivity. Qed.
Lemma gen_i2q_quad_eq : gen_i2q_quad = four.              Proof. reflexivity. Qed.
Lemma gen_i2q_default_u_eq : gen_i2q_default_u = 0.       Proof. reflexivity. Qed.
Lemma gen_i2q_diag_u_eq : gen_i2q_diag_u = two.           Proof. reflexivity. Qed.
Lemma gen_i2q_default_v_eq : gen_i2q_default_v = 0.       Proof. reflexivity. Qed.
Lemma gen_i2q_diag_v_eq : gen_i2q_diag_v = two.           Proof. reflexivity. Qed.
Lemma gen_i2q_off_J_eq : gen_i2q_off_J = 1.               Proof. reflexivity. Qed.
Lemma gen_i2q_off_h_eq : gen_i2q_off_h = - (1).           Proof. reflexivity. Qed.

Lemma gen_q2i_lin_off_init_eq : gen_q2i_lin_off_init = 0.   Proof. reflexivity. Qed.
Lemma gen_q2i_quad_off_init_eq : gen_q2i_quad_off_init = 0. Proof. reflexivity. Qed.
Lemma gen_q2i_diag_h_eq : gen_q2i_diag_h = half.          Proof. reflexivity. Qed.
Lemma gen_q2i_diag_off_eq : gen_q2i_diag_off = 1.         Proof. reflexivity. Qed.
Lemma gen_q2i_J_eq : gen_q2i_J = quarter.                 Proof. reflexivity. Qed.
Lemma gen_q2i_hu_eq : gen_q2i_hu = quarter.               Proof. reflexivity. Qed.
Lemma gen_q2i_hv_eq : gen_q2i_hv = quarter.               Proof. reflexivity. Qed.
Lemma gen_q2i_quad_off_eq : gen_q2i_quad_off = 1.         Proof. reflexivity. Qed.
Lemma gen_q2i_final_lin_eq : gen_q2i_final_lin = half.    Proof. reflexivity. Qed.
Lemma gen_q2i_final_quad_eq : gen_q2i_final_quad = quarter. Proof. reflexivity. Qed.

(* ---------- the loops ---------- *)
Lemma fold_left_ext_step {A B : Type} (f g : A -> B -> A) :
  (forall a b, f a b = g a b) -> forall l a, fold_left f l a = fold_left g l a.
Proof.
  intros Hfg l. induction l as [|b r IH]; intros a; cbn [fold_left].
  - reflexivity.
  - rewrite Hfg. apply IH.
Qed.

Lemma i2q_init_g_eq h : i2q_init h = i2q_init_g h.
Proof. unfold i2q_init_g, i2q_init. rewrite gen_i2q_lin_eq. reflexivity. Qed.

Lemma i2q_step_g_eq q e : i2q_step q e = i2q_step_g q e.
Proof.
  unfold i2q_step_g, i2q_step.
  rewrite gen_i2q_quad_eq, gen_i2q_default_u_eq, gen_i2q_diag_u_eq, gen_i2q_default_v_eq, gen_i2q_diag_v_eq.
  reflexivity.
Qed.

Lemma q2i_step_g_eq st e : q2i_step st e = q2i_step_g st e.
Proof.
  unfold q2i_step_g, q2i_step.
  rewrite gen_q2i_diag_h_eq, gen_q2i_diag_off_eq, gen_q2i_J_eq, gen_q2i_hu_eq, gen_q2i_hv_eq, gen_q2i_quad_off_eq.
  rewrite !Qcmult_1_l. reflexivity.
Qed.

Lemma q2i_loop_g_eq Q : q2i_loop Q = q2i_loop_g Q.
Proof.
  unfold q2i_loop_g, q2i_loop. rewrite gen_q2i_lin_off_init_eq, gen_q2i_quad_off_init_eq.
  apply fold_left_ext_step. exact q2i_step_g_eq.
Qed.

(* ---------- main equalities ---------- *)
Theorem ising_to_qubo_uses_source_constants :
  forall h J off, IsingQubo.ising_to_qubo h J off = ising_to_qubo_g h J off.
Proof.
  intros h J off. unfold ising_to_qubo_g, ising_to_qubo.
  apply (f_equal2 (@pair qdict Qc)).
  - rewrite (i2q_init_g_eq h). apply fold_left_ext_step. exact i2q_step_g_eq.
  - rewrite gen_i2q_off_J_eq, gen_i2q_off_h_eq. ring.
Qed.

Theorem qubo_to_ising_uses_source_constants :
  forall Q off, IsingQubo.qubo_to_ising Q off = qubo_to_ising_g Q off.
Proof.
  intros Q off. unfold qubo_to_ising_g, qubo_to_ising. cbv zeta.
  rewrite <- q2i_loop_g_eq, gen_q2i_final_lin_eq, gen_q2i_final_quad_eq. reflexivity.
Qed.

(* ---------- the energy theorems, for the versions over the source constants ---------- *)
Theorem ising_to_qubo_g_energy h J off x :
  NoDup (map fst h) -> NoDup (map fst J) -> no_self_key J -> binary_valued x ->
  qubo_energy (fst (ising_to_qubo_g h J off)) (snd (ising_to_qubo_g h J off)) x =
  ising_energy h J off (fun v => two * x v - 1).
Proof.
  rewrite <- ising_to_qubo_uses_source_constants. apply ising_to_qubo_energy.
Qed.

Theorem qubo_to_ising_g_energy Q off s :
  NoDup (map fst Q) -> spin_valued s ->
  ising_energy (fst (fst (qubo_to_ising_g Q off))) (snd (fst (qubo_to_ising_g Q off)))
               (snd (qubo_to_ising_g Q off)) s =
  qubo_energy Q off (fun v => (s v + 1) * half).
Proof.
  rewrite <- qubo_to_ising_uses_source_constants. apply qubo_to_ising_energy.
Qed.

(* the observation checks agree, so a correspondence check may call either *)
Theorem ising_to_qubo_g_matches_eq h J off Qobs offobs :
  ising_to_qubo_g_matches h J off Qobs offobs = ising_to_qubo_matches h J off Qobs offobs.
Proof. unfold ising_to_qubo_g_matches, ising_to_qubo_matches. rewrite ising_to_qubo_uses_source_constants. reflexivity. Qed.

Theorem qubo_to_ising_g_matches_eq Q off hobs Jobs offobs :
  qubo_to_ising_g_matches Q off hobs Jobs offobs = qubo_to_ising_matches Q off hobs Jobs offobs.
Proof. unfold qubo_to_ising_g_matches, qubo_to_ising_matches. rewrite qubo_to_ising_uses_source_constants. reflexivity. Qed.

Print Assumptions ising_to_qubo_uses_source_constants.
Print Assumptions qubo_to_ising_uses_source_constants.
Print Assumptions ising_to_qubo_g_energy.
Print Assumptions qubo_to_ising_g_energy.
