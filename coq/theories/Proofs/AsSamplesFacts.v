(* C01: facts about the samples_like normalisation model Model/AsSamples.v (dimod/sampleset.py : as_samples). *)
From Coq Require Import List ZArith QArith Qcanon Bool Arith Lia Permutation.
From Dimod Require Import Base.Util Model.Poly Model.Samples Gen.Gen_AsSamples Model.AsSamples Model.EnergyCy.
From Dimod Require Import Proofs.PolyFacts Proofs.SamplesFacts Proofs.EnergyCyFacts.
From Dimod Require Model.Adj.
Import ListNotations.
Open Scope Qc_scope.

(* ---------- induction over the nested type ---------- *)
Section SlikeInd.
  Variable P : slike -> Prop.
  Hypothesis HArr : forall a, P (SArr a).
  Hypothesis HMap : forall kv, P (SMap kv).
  Hypothesis HList : forall items, Forall P items -> P (SList items).
  Hypothesis HIter : forall items, Forall P items -> P (SIter items).
  Hypothesis HTup : forall a l, P (STup a l).
  Hypothesis HBad : P STupBad.
  Hypothesis HSet : forall l r, P (SSet l r).
  Fixpoint slike_ind' (s : slike) : P s :=
    match s with
    | SArr a => HArr a
    | SMap kv => HMap kv
    | SList items =>
        HList items ((fix go (l : list slike) : Forall P l :=
                        match l with [] => Forall_nil P | x :: r => Forall_cons x (slike_ind' x) (go r) end) items)
    | SIter items =>
        HIter items ((fix go (l : list slike) : Forall P l :=
                        match l with [] => Forall_nil P | x :: r => Forall_cons x (slike_ind' x) (go r) end) items)
    | STup a l => HTup a l
    | STupBad => HBad
    | SSet l r => HSet l r
    end.
End SlikeInd.

(* ---------- the dispatch constants ---------- *)
Lemma branch_for_mapping : branch_for BMapping = BMapping. Proof. reflexivity. Qed.
Lemma branch_for_iterator : branch_for BIterator = BIterator. Proof. reflexivity. Qed.
Lemma branch_for_tuple : branch_for BTuple = BTuple. Proof. reflexivity. Qed.
Lemma branch_for_sampleset : branch_for BSampleSet = BSampleSet. Proof. reflexivity. Qed.
Lemma reindex_source_later : gen_reindex_source = FromLaterLabels. Proof. reflexivity. Qed.
Lemma mapping_uses_copy : gen_mapping_labels_uses_copy = true. Proof. reflexivity. Qed.
Lemma mixed_to_iterator : gen_mixed_sequence_to_iterator = true. Proof. reflexivity. Qed.

Lemma take_columns_eq first ls a :
  take_columns first ls a = (length first, map (reindex_row first ls) (arr_rows a)).
Proof. reflexivity. Qed.

(* ---------- small list facts ---------- *)
Lemma list_eqb_nat_eq (a b : list nat) : list_eqb Nat.eqb a b = true -> a = b.
Proof.
  revert b. induction a as [|x a IH]; intros [|y b]; cbn [list_eqb]; try discriminate; [reflexivity|].
  intros H. apply andb_true_iff in H. destruct H as [H1 H2]. apply Nat.eqb_eq in H1. subst. f_equal. apply IH, H2.
Qed.

Lemma list_eqb_nat_refl (a : list nat) : list_eqb Nat.eqb a a = true.
Proof. induction a as [|x a IH]; cbn [list_eqb]; [reflexivity|]. rewrite Nat.eqb_refl, IH. reflexivity. Qed.

Lemma same_label_set_iff a b : same_label_set a b = true <-> (forall v, In v a <-> In v b).
Proof.
  unfold same_label_set. rewrite andb_true_iff, !forallb_forall. split.
  - intros [H1 H2] v. split; intros Hv.
    + apply H1 in Hv. apply existsb_exists in Hv. destruct Hv as [x [Hx E]]. apply Nat.eqb_eq in E. subst. exact Hx.
    + apply H2 in Hv. apply existsb_exists in Hv. destruct Hv as [x [Hx E]]. apply Nat.eqb_eq in E. subst. exact Hx.
  - intros H. split; intros v Hv; apply existsb_exists; exists v; (split; [apply H, Hv|apply Nat.eqb_refl]).
Qed.

Lemma Forall2_nth_both {A B} (R : A -> B -> Prop) l l' d d' i :
  Forall2 R l l' -> (i < length l)%nat -> R (nth i l d) (nth i l' d').
Proof.
  intros H. revert i. induction H as [|x y l l' Hxy H IH]; intros i Hi; cbn [length] in Hi; [lia|].
  destruct i as [|i]; cbn [nth]; [exact Hxy|]. apply IH. lia.
Qed.

Lemma Forall2_len {A B} (R : A -> B -> Prop) l l' : Forall2 R l l' -> length l = length l'.
Proof. induction 1; cbn [length]; congruence. Qed.

Lemma Forall_Forall2_map {A B} (P : A -> Prop) (R : A -> B -> Prop) (f : A -> B) l :
  (forall x, P x -> R x (f x)) -> Forall P l -> Forall2 R l (map f l).
Proof. intros H HF. induction HF; cbn [map]; constructor; auto. Qed.

Lemma Forall2_map_left {A A' B} (R : A -> B -> Prop) (R' : A' -> B -> Prop) (f : A -> A') l l' :
  (forall x y, R x y -> R' (f x) y) -> Forall2 R l l' -> Forall2 R' (map f l) l'.
Proof. intros H HF. induction HF; cbn [map]; constructor; auto. Qed.

Lemma forallb_Forall_len (w : nat) (rows : list (list Qc)) :
  forallb (fun r => (length r =? w)%nat) rows = true -> Forall (fun r => length r = w) rows.
Proof.
  intros H. apply Forall_forall. intros r Hr. rewrite forallb_forall in H. apply Nat.eqb_eq, H, Hr.
Qed.

Lemma range_labels_length il n : length (range_labels il n) = n.
Proof. unfold range_labels. rewrite map_length, seq_length. reflexivity. Qed.

(* ---------- rows, association lists ---------- *)
Lemma row_value_combine ls row v :
  length row = length ls -> row_value ls row v = assoc_value (combine ls row) v.
Proof.
  unfold row_value, assoc_value. revert row.
  induction ls as [|x ls IH]; intros [|y row] Hl; cbn [length] in Hl; try discriminate; [reflexivity|].
  cbn [idx_of combine lookup]. destruct (x =? v)%nat; [reflexivity|]. cbn [nth]. apply IH. lia.
Qed.

Lemma row_value_fst_snd kv v : row_value (map fst kv) (map snd kv) v = assoc_value kv v.
Proof.
  unfold row_value, assoc_value. induction kv as [|[k x] kv IH]; [reflexivity|].
  cbn [map fst snd idx_of lookup]. destruct (k =? v)%nat; [reflexivity|]. cbn [nth]. exact IH.
Qed.

(* one output row carries the assignment kv *)
Definition row_ok (labels : list label) (row : list Qc) (kv : list (label * Qc)) : Prop :=
  length row = length labels /\ forall v, In v labels -> row_value labels row v = assoc_value kv v.

(* an output carries the assignments sp, in order *)
Definition good (o : out) (sp : list (list (label * Qc))) : Prop :=
  arr_ncols (fst o) = length (snd o) /\ Forall2 (row_ok (snd o)) (arr_rows (fst o)) sp.

Lemma row_ok_combine labels row : length row = length labels -> row_ok labels row (combine labels row).
Proof. intros H. split; [exact H|]. intros v _. apply row_value_combine, H. Qed.

(* ---------- _sample_array ---------- *)
Lemma sample_array_widths a ar :
  sample_array a = Ok ar -> Forall (fun r => length r = arr_ncols ar) (arr_rows ar).
Proof.
  destruct a as [row|w rows|]; cbn [sample_array].
  - destruct row as [|x row]; intros H; inversion H; subst; cbn [arr_rows arr_ncols fst snd]; repeat constructor.
  - destruct (forallb _ rows) eqn:E; [|discriminate]. intros H; inversion H; subst. cbn [arr_rows arr_ncols fst snd].
    apply forallb_Forall_len, E.
  - discriminate.
Qed.

(* ---------- default body, array-like part ---------- *)
Lemma as_default_arr_good il a o : as_default_arr il a = Ok o -> good o (spec_rows il (SArr a)).
Proof.
  unfold as_default_arr. destruct (sample_array a) as [ar|e] eqn:E; cbn [rbind]; [|discriminate].
  intros H; inversion H; subst; clear H. unfold good. cbn [fst snd]. rewrite range_labels_length. split; [reflexivity|].
  destruct a as [row|w rows|]; cbn [sample_array] in E.
  - destruct row as [|x row]; inversion E; subst; cbn [arr_rows arr_ncols fst snd spec_rows]; [constructor|].
    constructor; [|constructor]. apply row_ok_combine. rewrite range_labels_length. reflexivity.
  - destruct (forallb _ rows) eqn:F; [|discriminate]. inversion E; subst. cbn [arr_rows arr_ncols fst snd spec_rows].
    apply (Forall_Forall2_map (fun r => length r = w)); [|apply forallb_Forall_len, F].
    intros r Hr. apply row_ok_combine. rewrite range_labels_length. exact Hr.
  - discriminate.
Qed.

(* ---------- the tail of the tuple handler ---------- *)
Lemma tuple_tail_ok ar labels o :
  tuple_tail ar labels = Ok o -> Forall (fun r => length r = arr_ncols ar) (arr_rows ar) ->
  snd o = labels /\ arr_rows (fst o) = arr_rows ar /\ arr_ncols (fst o) = length labels /\
  Forall (fun r => length r = length labels) (arr_rows ar).
Proof.
  unfold tuple_tail. destruct ar as [w rows]. unfold arr_nrows, arr_ncols, arr_rows. cbn [fst snd].
  intros H HW. destruct (length rows * w =? 0)%nat eqn:E1.
  - destruct (length rows * length labels =? 0)%nat eqn:E2; cbn [rbind] in H; [|discriminate].
    cbn [fst] in H. rewrite Nat.eqb_refl in H. cbn [negb] in H. inversion H; subst; clear H. cbn [fst snd].
    repeat split. apply Nat.eqb_eq in E1, E2.
    destruct rows as [|r rows]; [constructor|]. cbn [length] in E1, E2.
    assert (w = 0%nat) by lia. assert (length labels = 0%nat) as HL by lia. rewrite HL. subst w. exact HW.
  - cbn [rbind] in H. cbn [fst] in H. destruct (length labels =? w)%nat eqn:E3; cbn [negb] in H; [|discriminate].
    inversion H; subst; clear H. cbn [fst snd]. apply Nat.eqb_eq in E3. rewrite E3. repeat split. exact HW.
Qed.

Lemma as_tuple_arr_good il a labels o :
  as_tuple_arr a labels = Ok o -> good o (spec_rows il (STup (TFArr a) labels)).
Proof.
  unfold as_tuple_arr. destruct (sample_array a) as [ar|e] eqn:E; cbn [rbind]; [|discriminate].
  intros H. destruct (tuple_tail_ok _ _ _ H (sample_array_widths _ _ E)) as [H1 [H2 [H3 H4]]].
  destruct o as [oa ol]. cbn [fst snd] in H1, H2, H3. subst ol. clear H.
  unfold good. cbn [fst snd]. rewrite H2. split; [exact H3|]. clear H2 H3.
  destruct a as [row|w rows|]; cbn [sample_array] in E.
  - destruct row as [|x row]; inversion E; subst; cbn [arr_rows snd spec_rows]; [constructor|].
    constructor; [|constructor]. apply row_ok_combine. cbn [arr_rows snd] in H4. inversion H4; assumption.
  - destruct (forallb _ rows) eqn:F; [|discriminate]. inversion E; subst. cbn [arr_rows snd spec_rows] in *.
    apply (Forall_Forall2_map (fun r => length r = length labels)); [|exact H4].
    intros r Hr. apply row_ok_combine. exact Hr.
  - discriminate.
Qed.

(* ---------- the Mapping handler: always accepted ---------- *)
Lemma as_dict_eq kv : as_dict kv = Ok ((length kv, [map snd kv]), map fst kv).
Proof.
  destruct kv as [|p kv]; [reflexivity|]. unfold as_dict. rewrite branch_for_tuple.
  unfold as_tuple_arr. cbn [sample_array map rbind]. unfold tuple_tail, arr_nrows, arr_ncols, arr_rows.
  cbn [fst snd length Nat.mul Nat.add Nat.eqb rbind]. rewrite !map_length, Nat.eqb_refl. reflexivity.
Qed.

Lemma dict_out_good kv : good ((length kv, [map snd kv]), map fst kv) [kv].
Proof.
  unfold good. cbn [fst snd arr_ncols arr_rows]. rewrite map_length. split; [reflexivity|].
  constructor; [|constructor]. split; [rewrite !map_length; reflexivity|]. intros v _. apply row_value_fst_snd.
Qed.

(* ---------- the deprecated (mapping, labels) form ---------- *)
Lemma lookup_dict_set d v x k :
  lookup (dict_set d v x) k = if (v =? k)%nat then Some x else lookup d k.
Proof.
  induction d as [|[k0 y] d IH]; cbn [dict_set lookup].
  - reflexivity.
  - destruct (Nat.eqb_spec k0 v) as [->|Hne]; cbn [lookup].
    + destruct (v =? k)%nat; reflexivity.
    + destruct (Nat.eqb_spec k0 k) as [->|Hne2].
      * destruct (Nat.eqb_spec v k); [congruence|reflexivity].
      * exact IH.
Qed.

Lemma lookup_in_keys d k x : lookup d k = Some x -> In k (map fst d).
Proof.
  induction d as [|[k0 y] d IH]; cbn [lookup map fst In]; [discriminate|].
  destruct (Nat.eqb_spec k0 k); [left; assumption|right; auto].
Qed.

Lemma keys_dict_set d v x :
  map fst (dict_set d v x) = if existsb (Nat.eqb v) (map fst d) then map fst d else map fst d ++ [v].
Proof.
  induction d as [|[k0 y] d IH]; cbn [dict_set map fst existsb app]; [reflexivity|].
  rewrite (Nat.eqb_sym v k0). destruct (k0 =? v)%nat; cbn [map fst orb]; [reflexivity|].
  rewrite IH. destruct (existsb (Nat.eqb v) (map fst d)); reflexivity.
Qed.

Lemma build_copy_len kv labels d d' :
  build_copy kv labels d = Some d' -> (length d' <= length d + length labels)%nat.
Proof.
  revert d. induction labels as [|v r IH]; intros d; cbn [build_copy length].
  - intros H; inversion H; lia.
  - destruct (lookup kv v) as [x|]; [|discriminate]. intros H. apply IH in H.
    assert (length (dict_set d v x) <= S (length d))%nat; [|lia].
    rewrite <- (map_length fst (dict_set d v x)), keys_dict_set, <- (map_length fst d).
    destruct (existsb _ _); [lia|rewrite app_length; cbn [length]; lia].
Qed.

Lemma build_copy_keys kv labels d d' :
  build_copy kv labels d = Some d' -> length d' = (length d + length labels)%nat ->
  map fst d' = map fst d ++ labels.
Proof.
  revert d. induction labels as [|v r IH]; intros d; cbn [build_copy length].
  - intros H _; inversion H. rewrite app_nil_r. reflexivity.
  - destruct (lookup kv v) as [x|]; [|discriminate]. intros H HL.
    pose proof (build_copy_len _ _ _ _ H) as Hle.
    assert (length (dict_set d v x) = length (map fst (dict_set d v x))) as E0 by (rewrite map_length; reflexivity).
    rewrite keys_dict_set in E0. destruct (existsb (Nat.eqb v) (map fst d)) eqn:E.
    + rewrite map_length in E0. lia.
    + rewrite app_length, map_length in E0. cbn [length] in E0.
      rewrite (IH _ H) by lia. rewrite keys_dict_set, E, <- app_assoc. reflexivity.
Qed.

Lemma build_copy_values kv labels d d' :
  build_copy kv labels d = Some d' ->
  (forall k x, lookup d k = Some x -> lookup kv k = Some x) ->
  forall k x, lookup d' k = Some x -> lookup kv k = Some x.
Proof.
  revert d. induction labels as [|v r IH]; intros d; cbn [build_copy].
  - intros H; inversion H; subst. auto.
  - destruct (lookup kv v) as [y|] eqn:E; [|discriminate]. intros H Hd. apply (IH _ H).
    intros k x. rewrite lookup_dict_set. destruct (Nat.eqb_spec v k) as [->|]; [|apply Hd].
    intros Hx; inversion Hx; subst. exact E.
Qed.

Lemma build_copy_all_found kv labels d d' :
  build_copy kv labels d = Some d' -> forall v, In v labels -> exists x, lookup kv v = Some x.
Proof.
  revert d. induction labels as [|v r IH]; intros d; cbn [build_copy In]; [tauto|].
  destruct (lookup kv v) as [y|] eqn:E; [|discriminate]. intros H w [<-|Hw]; [eauto|]. eapply IH; eauto.
Qed.

Lemma assoc_of_keys d v : In v (map fst d) -> exists x, lookup d v = Some x.
Proof.
  induction d as [|[k y] d IH]; cbn [map fst In lookup]; [tauto|].
  destruct (Nat.eqb_spec k v); [eauto|]. intros [H|H]; [contradiction|auto].
Qed.

Lemma as_tuple_map_good kv labels o : as_tuple (TFMap kv) labels = Ok o -> good o [kv].
Proof.
  cbn [as_tuple]. destruct (build_copy kv labels []) as [d|] eqn:B; [|discriminate].
  rewrite branch_for_mapping, mapping_uses_copy, as_dict_eq. cbn [rbind fst]. intros H.
  assert (Forall (fun r => length r = arr_ncols (length d, [map snd d])) (arr_rows (length d, [map snd d]))) as HW.
  { cbn [arr_rows arr_ncols fst snd]. constructor; [apply map_length|constructor]. }
  destruct (tuple_tail_ok _ _ _ H HW) as [H1 [H2 [H3 H4]]].
  destruct o as [oa ol]. cbn [fst snd] in H1, H2, H3. subst ol. clear H HW.
  unfold good. cbn [fst snd]. rewrite H2. split; [exact H3|]. clear H2 H3. cbn [arr_rows snd] in *.
  constructor; [|constructor]. inversion H4 as [|? ? HL _]; subst. split; [exact HL|].
  rewrite map_length in HL.
  assert (map fst d = labels) as HK.
  { rewrite (build_copy_keys _ _ _ _ B) by (cbn [length]; lia). reflexivity. }
  intros v Hv. rewrite <- HK at 1. rewrite row_value_fst_snd. unfold assoc_value.
  rewrite <- HK in Hv. destruct (assoc_of_keys _ _ Hv) as [x Hx]. rewrite Hx.
  rewrite (build_copy_values _ _ _ _ B) with (x := x); [reflexivity| |exact Hx].
  intros k y Hy. discriminate.
Qed.

(* ---------- the iterator handler ---------- *)
Lemma iter_step_good first o sp a :
  iter_step first o = Ok a -> good o sp -> Forall2 (row_ok first) (arr_rows a) sp.
Proof.
  destruct o as [a0 labels]. unfold iter_step, good. cbn [fst snd]. intros H [_ HG].
  destruct (list_eqb Nat.eqb labels first) eqn:E; cbn [negb] in H.
  - inversion H; subst. apply list_eqb_nat_eq in E. subst. exact HG.
  - destruct (same_label_set labels first) eqn:S; cbn [negb] in H; [|discriminate].
    inversion H; subst; clear H. rewrite take_columns_eq. cbn [arr_rows snd].
    rewrite same_label_set_iff in S.
    apply (Forall2_map_left (row_ok labels)); [|exact HG].
    intros row kv [HL HV]. split; [unfold reindex_row; apply map_length|].
    intros v Hv. rewrite reindex_row_value by exact Hv. apply HV, S, Hv.
Qed.

Lemma iter_rest_good first rest sps stack :
  Forall2 (fun r sp => forall o, r = Ok o -> good o sp) rest sps ->
  iter_rest first rest = Ok stack ->
  Forall2 (row_ok first) (concat (map arr_rows stack)) (concat sps).
Proof.
  intros HF. revert stack. induction HF as [|r sp rest sps Hr HF IH]; intros stack; cbn [iter_rest].
  - intros H; inversion H. constructor.
  - destruct r as [o|e]; cbn [rbind]; [|discriminate].
    destruct (iter_step first o) as [a|e] eqn:ES; cbn [rbind]; [|discriminate].
    destruct (iter_rest first rest) as [l|e] eqn:ER; cbn [rbind]; [|discriminate].
    intros H; inversion H; subst. cbn [map concat]. apply Forall2_app.
    + eapply iter_step_good; [exact ES|]. apply Hr. reflexivity.
    + apply IH. reflexivity.
Qed.

Lemma as_iterator_good results sps o :
  Forall2 (fun r sp => forall o, r = Ok o -> good o sp) results sps ->
  as_iterator results = Ok o -> good o (concat sps).
Proof.
  intros HF. destruct HF as [|r sp rest sps Hr HF]; cbn [as_iterator].
  - intros H; inversion H. split; [reflexivity|constructor].
  - destruct r as [o1|e]; cbn [rbind]; [|discriminate].
    destruct (iter_rest (snd o1) rest) as [stack|e] eqn:ER; cbn [rbind]; [|discriminate].
    unfold vstack. destruct (forallb _ stack); cbn [rbind]; [|discriminate].
    intros H; inversion H; subst; clear H. destruct (Hr _ eq_refl) as [G1 G2].
    unfold good. cbn [fst snd arr_ncols arr_rows concat]. split; [exact G1|].
    apply Forall2_app; [exact G2|]. eapply iter_rest_good; eauto.
Qed.

Lemma results_specs (f : slike -> res out) (g : slike -> list (list (label * Qc))) items :
  Forall (fun s => forall o, f s = Ok o -> good o (g s)) items ->
  Forall2 (fun r sp => forall o, r = Ok o -> good o sp) (map f items) (map g items).
Proof. induction 1; cbn [map]; constructor; auto. Qed.

(* ---------- the whole function ---------- *)
Theorem as_samples_full_good il s o : as_samples_full il s = Ok o -> good o (spec_rows il s).
Proof.
  revert o. induction s as [a|kv|items IH|items IH|a labels| |labels rows] using slike_ind'; intros o;
    cbn [as_samples_full spec_rows].
  - apply as_default_arr_good.
  - rewrite branch_for_mapping, as_dict_eq. intros H; inversion H. apply dict_out_good.
  - destruct (gen_mixed_sequence_to_iterator && existsb is_map items).
    + rewrite branch_for_iterator. apply as_iterator_good, results_specs, IH.
    + unfold list_as_arrlike. destruct (flat_rows items) as [[|r rs]|]; [| |discriminate].
      * apply (as_default_arr_good il (A1 [])).
      * apply (as_default_arr_good il (A2 (length r) (r :: rs))).
  - rewrite branch_for_iterator. apply as_iterator_good, results_specs, IH.
  - rewrite branch_for_tuple. destruct a as [al|kv|]; cbn [as_tuple].
    + intros H. exact (as_tuple_arr_good il al labels o H).
    + apply as_tuple_map_good.
    + discriminate.
  - rewrite branch_for_tuple. discriminate.
  - rewrite branch_for_sampleset. destruct (forallb _ rows) eqn:F; [|discriminate].
    intros H; inversion H; subst; clear H. split; [reflexivity|]. cbn [fst snd arr_rows].
    apply (Forall_Forall2_map (fun r => length r = length labels)); [|apply forallb_Forall_len, F].
    intros r Hr. apply row_ok_combine, Hr.
Qed.

(* as_samples_table: every accepted input yields as many rows as the input has assignments, every row has one entry
   per label, and the value of every output label in row i is the value the i-th assignment of the input gives it
   (first binding wins, for duplicated labels of a (array, labels) tuple).  No duplicate-freeness is needed. *)
Theorem as_samples_table il s rows labels :
  as_samples il s = Some (rows, labels) ->
  length rows = length (spec_rows il s) /\
  Forall (fun r => length r = length labels) rows /\
  forall i v, (i < length rows)%nat -> In v labels ->
              table_of (rows, labels) v i = assoc_value (nth i (spec_rows il s) []) v.
Proof.
  unfold as_samples. destruct (as_samples_full il s) as [[a l]|e] eqn:E; [|discriminate].
  intros H; inversion H; subst; clear H. destruct (as_samples_full_good _ _ _ E) as [_ G]. cbn [fst snd] in G.
  split; [eapply Forall2_len; exact G|]. split.
  - clear E. induction G as [|r kv rs kvs [HL _] G IH]; constructor; auto.
  - intros i v Hi Hv. unfold table_of. cbn [fst snd].
    exact (proj2 (Forall2_nth_both _ _ _ [] [] i G Hi) v Hv).
Qed.

(* the shape is determined by (rows, labels): shape[1] = len(labels) *)
Theorem as_samples_full_shape il s a labels :
  as_samples_full il s = Ok (a, labels) -> arr_ncols a = length labels.
Proof. intros H. exact (proj1 (as_samples_full_good _ _ _ H)). Qed.

(* ====================================================================================================
   energies do not depend on the accepted form
   ==================================================================================================== *)
(* two labelled row lists that give every model variable the same values have the same energies (cyQMBase._energies) *)
Theorem energies_cy_rows_agree m vars L1 R1 L2 R2 :
  Adj.Inv m -> length vars = Adj.nvars m ->
  (forall v, In v vars -> In v L1) -> (forall v, In v vars -> In v L2) ->
  Forall2 (fun r1 r2 => forall v, In v vars -> row_value L1 r1 v = row_value L2 r2 v) R1 R2 ->
  energies_cy m vars L1 R1 = energies_cy m vars L2 R2.
Proof.
  intros HI HL H1 H2 HF. rewrite !energies_cy_eq_spec by assumption. unfold energies.
  rewrite (proj2 (covers_spec L1 vars) H1), (proj2 (covers_spec L2 vars) H2). f_equal.
  induction HF as [|r1 r2 R1 R2 Hr HF IH]; cbn [map]; [reflexivity|]. f_equal; [|exact IH].
  apply (energy_depends_on_vars _ vars); [apply qm_poly_labels_mentions; assumption|].
  intros v Hv. unfold row_sample. apply Hr, Hv.
Qed.

Theorem energies_cy_as_samples_form_independent il m vars s1 s2 R1 L1 R2 L2 :
  Adj.Inv m -> length vars = Adj.nvars m ->
  as_samples il s1 = Some (R1, L1) -> as_samples il s2 = Some (R2, L2) ->
  (forall v, In v vars -> In v L1) -> (forall v, In v vars -> In v L2) ->
  Forall2 (fun r1 r2 => forall v, In v vars -> row_value L1 r1 v = row_value L2 r2 v) R1 R2 ->
  energies_cy m vars L1 R1 = energies_cy m vars L2 R2.
Proof. intros HI HL _ _. apply energies_cy_rows_agree; assumption. Qed.

(* ====================================================================================================
   the forms of one assignment table agree
   ==================================================================================================== *)
(* the output (rows, labels) gives every label of L, in every row, the value the table (L, R) gives it *)
Definition table_agrees (o : list (list Qc) * list label) (L : list label) (R : list (list Qc)) : Prop :=
  Forall2 (fun row r => forall v, In v L -> row_value (snd o) row v = row_value L r v) (fst o) R.

Definition dict_out (m : list (label * Qc)) : out := ((length m, [map snd m]), map fst m).

Lemma as_full_map il m : as_samples_full il (SMap m) = Ok (dict_out m).
Proof. cbn [as_samples_full]. rewrite branch_for_mapping. apply as_dict_eq. Qed.

Lemma map_fst_combine {A B} (l : list A) (l' : list B) : length l' = length l -> map fst (combine l l') = l.
Proof.
  revert l'. induction l as [|x l IH]; intros [|y l'] H; cbn [length] in H; try discriminate; [reflexivity|].
  cbn [combine map fst]. rewrite IH by lia. reflexivity.
Qed.

Lemma map_snd_combine {A B} (l : list A) (l' : list B) : length l' = length l -> map snd (combine l l') = l'.
Proof.
  revert l'. induction l as [|x l IH]; intros [|y l'] H; cbn [length] in H; try discriminate; [reflexivity|].
  cbn [combine map snd]. rewrite IH by lia. reflexivity.
Qed.

(* --- lookups under permutation --- *)
Lemma lookup_some_in m v x : lookup m v = Some x -> In (v, x) m.
Proof.
  induction m as [|[k y] m IH]; cbn [lookup In]; [discriminate|].
  destruct (Nat.eqb_spec k v) as [->|]; [intros H; inversion H; left; reflexivity|right; auto].
Qed.

Lemma in_lookup_nodup m v x : NoDup (map fst m) -> In (v, x) m -> lookup m v = Some x.
Proof.
  induction m as [|[k y] m IH]; cbn [map fst lookup In]; [tauto|]. intros ND. inversion ND as [|? ? Hn ND']; subst.
  intros [H|H].
  - inversion H; subst. rewrite Nat.eqb_refl. reflexivity.
  - destruct (Nat.eqb_spec k v) as [->|]; [|auto]. exfalso. apply Hn. apply (in_map fst) in H. exact H.
Qed.

Lemma lookup_none_notin m v : lookup m v = None -> ~ In v (map fst m).
Proof. intros H Hin. destruct (assoc_of_keys _ _ Hin) as [x Hx]. congruence. Qed.

Lemma assoc_value_perm m m' v :
  NoDup (map fst m) -> Permutation m m' -> assoc_value m v = assoc_value m' v.
Proof.
  intros ND HP. unfold assoc_value.
  assert (NoDup (map fst m')) as ND' by (eapply Permutation_NoDup; [apply Permutation_map, HP|exact ND]).
  destruct (lookup m v) as [x|] eqn:E.
  - apply lookup_some_in in E. apply (Permutation_in _ HP) in E. rewrite (in_lookup_nodup _ _ _ ND' E). reflexivity.
  - apply lookup_none_notin in E. destruct (lookup m' v) as [y|] eqn:E'; [|reflexivity]. exfalso. apply E.
    apply lookup_in_keys in E'. eapply Permutation_in; [apply Permutation_sym, Permutation_map, HP|exact E'].
Qed.

(* --- a list (or iterator) of dicts --- *)
Lemma iter_step_dict_ncols first m a :
  iter_step first (dict_out m) = Ok a -> arr_ncols a = length first.
Proof.
  unfold iter_step, dict_out. cbv beta iota.
  destruct (list_eqb Nat.eqb (map fst m) first) eqn:E; cbn [negb].
  - intros H; inversion H; subst. apply list_eqb_nat_eq in E. subst. cbn [arr_ncols fst]. rewrite map_length. reflexivity.
  - destruct (same_label_set (map fst m) first); cbn [negb]; [|discriminate].
    intros H; inversion H; subst. reflexivity.
Qed.

Lemma iter_step_dict_accept first m :
  (forall v, In v (map fst m) <-> In v first) -> exists a, iter_step first (dict_out m) = Ok a.
Proof.
  intros HS. unfold iter_step, dict_out. cbv beta iota.
  destruct (list_eqb Nat.eqb (map fst m) first); cbn [negb]; [eauto|].
  rewrite (proj2 (same_label_set_iff _ _) HS). cbn [negb]. eauto.
Qed.

Lemma iter_step_dict_reject first m :
  ~ (forall v, In v (map fst m) <-> In v first) -> iter_step first (dict_out m) = Err ValueError.
Proof.
  intros HS. unfold iter_step, dict_out. cbv beta iota.
  destruct (list_eqb Nat.eqb (map fst m) first) eqn:E; cbn [negb].
  - exfalso. apply HS. apply list_eqb_nat_eq in E. rewrite E. tauto.
  - destruct (same_label_set (map fst m) first) eqn:S; cbn [negb]; [|reflexivity].
    exfalso. apply HS, same_label_set_iff, S.
Qed.

Lemma iter_rest_dicts_accept first ms :
  (forall m, In m ms -> forall v, In v (map fst m) <-> In v first) ->
  exists stack, iter_rest first (map (fun m => Ok (dict_out m)) ms) = Ok stack /\
                Forall (fun a => arr_ncols a = length first) stack.
Proof.
  induction ms as [|m ms IH]; intros H; cbn [map iter_rest]; [eexists; split; [reflexivity|constructor]|].
  destruct (iter_step_dict_accept first m (H m (or_introl eq_refl))) as [a Ha].
  destruct IH as [stack [HS HF]]; [intros m' Hm'; apply H; right; exact Hm'|].
  cbn [rbind]. rewrite Ha. cbn [rbind]. rewrite HS. cbn [rbind]. eexists; split; [reflexivity|].
  constructor; [eapply iter_step_dict_ncols; exact Ha|exact HF].
Qed.

Lemma iter_rest_dicts_reject first ms :
  (exists m, In m ms /\ ~ (forall v, In v (map fst m) <-> In v first)) ->
  iter_rest first (map (fun m => Ok (dict_out m)) ms) = Err ValueError.
Proof.
  induction ms as [|m ms IH]; intros [m0 [Hin Hbad]]; [destruct Hin|]. cbn [map iter_rest rbind].
  destruct Hin as [<-|Hin].
  - rewrite iter_step_dict_reject by exact Hbad. reflexivity.
  - destruct (iter_step first (dict_out m)) as [a|e] eqn:E; cbn [rbind].
    + rewrite IH by eauto. reflexivity.
    + unfold iter_step, dict_out in E. cbv beta iota in E.
      destruct (negb (list_eqb Nat.eqb (map fst m) first)); [|discriminate].
      destruct (negb (same_label_set (map fst m) first)); inversion E; reflexivity.
Qed.

Lemma full_SList il items :
  existsb is_map items = true ->
  as_samples_full il (SList items) = as_iterator (map (as_samples_full il) items).
Proof.
  intros H. cbn [as_samples_full]. rewrite H, mixed_to_iterator, branch_for_iterator. reflexivity.
Qed.

Lemma full_SIter il items :
  as_samples_full il (SIter items) = as_iterator (map (as_samples_full il) items).
Proof. cbn [as_samples_full]. rewrite branch_for_iterator. reflexivity. Qed.

Lemma full_list_of_dicts il m1 ms :
  as_samples_full il (SList (map SMap (m1 :: ms))) =
  as_iterator (Ok (dict_out m1) :: map (fun m => Ok (dict_out m)) ms).
Proof.
  rewrite full_SList by reflexivity. cbn [map].
  rewrite as_full_map. do 2 f_equal. rewrite map_map. apply map_ext. intros m. apply as_full_map.
Qed.

Lemma full_iter_of_dicts il ms :
  as_samples_full il (SIter (map SMap ms)) = as_iterator (map (fun m => Ok (dict_out m)) ms).
Proof.
  rewrite full_SIter. f_equal. rewrite map_map. apply map_ext. intros m. apply as_full_map.
Qed.

Lemma as_iterator_cons o1 rest :
  as_iterator (Ok o1 :: rest) =
  rbind (iter_rest (snd o1) rest) (fun stack => rbind (vstack (fst o1) stack) (fun a => Ok (a, snd o1))).
Proof. reflexivity. Qed.

Lemma as_iterator_dicts_accept m1 ms :
  (forall m, In m ms -> forall v, In v (map fst m) <-> In v (map fst m1)) ->
  exists rows, as_iterator (Ok (dict_out m1) :: map (fun m => Ok (dict_out m)) ms) = Ok ((length m1, rows), map fst m1).
Proof.
  intros H. rewrite as_iterator_cons.
  change (snd (dict_out m1)) with (map fst m1). change (fst (dict_out m1)) with (length m1, [map snd m1]).
  destruct (iter_rest_dicts_accept (map fst m1) ms H) as [stack [HS HF]]. rewrite HS. cbn [rbind].
  unfold vstack.
  match goal with |- context [forallb ?f stack] => assert (forallb f stack = true) as HB end.
  { apply forallb_forall. intros a Ha. rewrite Forall_forall in HF. apply Nat.eqb_eq.
    cbn [arr_ncols fst]. rewrite <- (map_length fst m1). apply (HF a Ha). }
  rewrite HB. cbn [rbind arr_ncols fst]. eexists. reflexivity.
Qed.

Lemma as_iterator_dicts_reject m1 ms :
  (exists m, In m ms /\ ~ (forall v, In v (map fst m) <-> In v (map fst m1))) ->
  as_iterator (Ok (dict_out m1) :: map (fun m => Ok (dict_out m)) ms) = Err ValueError.
Proof.
  intros H. rewrite as_iterator_cons. change (snd (dict_out m1)) with (map fst m1).
  rewrite (iter_rest_dicts_reject _ _ H). reflexivity.
Qed.

(* as_samples_none_iff (1): a non-empty list of dicts is rejected exactly when a later dict has another key SET than
   the first (the order of the keys never matters); the exception is ValueError *)
Theorem as_samples_list_of_dicts_none_iff il m1 ms :
  as_samples il (SList (map SMap (m1 :: ms))) = None <->
  exists m, In m ms /\ ~ (forall v, In v (map fst m) <-> In v (map fst m1)).
Proof.
  unfold as_samples. rewrite full_list_of_dicts. split.
  - intros HN.
    destruct (forallb (fun m => same_label_set (map fst m) (map fst m1)) ms) eqn:E.
    + exfalso. rewrite forallb_forall in E.
      destruct (as_iterator_dicts_accept m1 ms) as [rows Hr];
        [intros m Hm; apply same_label_set_iff, E, Hm|]. rewrite Hr in HN. discriminate.
    + apply forallb_false_ex in E. destruct E as [m [Hm HF]]. exists m. split; [exact Hm|].
      intros HS. apply same_label_set_iff in HS. congruence.
  - intros H. rewrite (as_iterator_dicts_reject _ _ H). reflexivity.
Qed.

Theorem as_samples_list_of_dicts_value_error il m1 ms :
  (exists m, In m ms /\ ~ (forall v, In v (map fst m) <-> In v (map fst m1))) ->
  as_samples_full il (SList (map SMap (m1 :: ms))) = Err ValueError.
Proof. intros H. rewrite full_list_of_dicts. apply as_iterator_dicts_reject, H. Qed.

Lemma concat_singletons {A} (l : list A) : concat (map (fun x => [x]) l) = l.
Proof. induction l as [|x l IH]; cbn [map concat app]; [reflexivity|]. rewrite IH. reflexivity. Qed.

Lemma Forall2_compose {A B C} (R1 : A -> B -> Prop) (R2 : B -> C -> Prop) (R3 : A -> C -> Prop) l1 l2 l3 :
  (forall x y z, R1 x y -> R2 y z -> R3 x z) -> Forall2 R1 l1 l2 -> Forall2 R2 l2 l3 -> Forall2 R3 l1 l3.
Proof.
  intros H H1. revert l3. induction H1 as [|x y l1 l2 Hxy H1 IH]; intros l3 H2; inversion H2; subst; constructor; eauto.
Qed.

Lemma perm_keys (L : list label) (m : list (label * Qc)) (r : list Qc) :
  length r = length L -> Permutation m (combine L r) -> Permutation (map fst m) L.
Proof. intros Hl Hp. pose proof (Permutation_map fst Hp) as Q. rewrite map_fst_combine in Q by exact Hl. exact Q. Qed.

Lemma perm_keys_all (L : list label) (ms : list (list (label * Qc))) (R : list (list Qc)) :
  Forall (fun r => length r = length L) R -> Forall2 (fun m r => Permutation m (combine L r)) ms R ->
  forall m, In m ms -> Permutation (map fst m) L.
Proof.
  intros HW HP. revert HW. induction HP as [|m0 r0 ms R Hp HP IH]; intros HW m Hm; [destruct Hm|].
  inversion HW; subst. destruct Hm as [<-|Hm]; [eapply perm_keys; eauto|apply IH; assumption].
Qed.

(* rows as dicts, each in its own key order *)
Lemma dicts_agree il L R ms s :
  s = SList (map SMap ms) \/ s = SIter (map SMap ms) ->
  NoDup L -> Forall (fun r => length r = length L) R ->
  Forall2 (fun m r => Permutation m (combine L r)) ms R ->
  exists o, as_samples il s = Some o /\ table_agrees o L R.
Proof.
  intros Hs ND HW HP.
  assert (forall (m : list (label * Qc)) (r : list Qc), length r = length L -> Permutation m (combine L r) -> Permutation (map fst m) L) as PK.
  { intros m r Hl Hp. pose proof (Permutation_map fst Hp) as Q. rewrite map_fst_combine in Q by exact Hl. exact Q. }
  assert (exists a labels, as_samples_full il s = Ok (a, labels) /\ (ms <> [] -> Permutation labels L)
                           /\ spec_rows il s = ms) as HA.
  { destruct ms as [|m1 ms'].
    - inversion HP; subst. destruct Hs as [->| ->]; eexists; eexists; (split; [reflexivity|]); split; try reflexivity; congruence.
    - inversion HP as [|? r1 ? R' Hp1 HP']; subst. inversion HW as [|? ? Hl1 HW']; subst.
      assert (forall m, In m ms' -> forall v, In v (map fst m) <-> In v (map fst m1)) as HSets.
      { intros m Hm v.
        assert (Permutation (map fst m) L) as Pm by (eapply perm_keys_all; eauto).
        pose proof (PK _ _ Hl1 Hp1) as P1. split; intros Hv.
        - eapply Permutation_in; [apply Permutation_sym, P1|]. eapply Permutation_in; [exact Pm|exact Hv].
        - eapply Permutation_in; [apply Permutation_sym, Pm|]. eapply Permutation_in; [exact P1|exact Hv]. }
      destruct (as_iterator_dicts_accept m1 ms' HSets) as [rows Hr].
      exists (length m1, rows), (map fst m1). split; [|split].
      + destruct Hs as [->| ->]; [rewrite full_list_of_dicts|rewrite full_iter_of_dicts; cbn [map]]; exact Hr.
      + intros _. eapply PK; eauto.
      + destruct Hs as [->| ->]; cbn [spec_rows map existsb is_map].
        * rewrite mixed_to_iterator. cbn [andb orb concat]. rewrite map_map.
          change (concat (map (fun m => [m]) ms')) with (concat (map (fun m => [m]) ms')).
          cbn [app]. f_equal. rewrite <- (concat_singletons ms') at 2. f_equal.
        * cbn [concat app]. f_equal. rewrite map_map. rewrite <- (concat_singletons ms') at 2. f_equal. }
  destruct HA as [a [labels [HF [HL HSp]]]]. exists (arr_rows a, labels). split.
  - unfold as_samples. rewrite HF. reflexivity.
  - destruct (as_samples_full_good _ _ _ HF) as [_ G]. cbn [fst snd] in G. rewrite HSp in G. clear HSp.
    unfold table_agrees. cbn [fst snd].
    assert (Forall2 (fun m r => length r = length L /\ Permutation m (combine L r)) ms R) as HP2.
    { clear G HL HF Hs. revert HW. induction HP as [|m0 r0 ms R Hp HP IH]; intros HW; [constructor|].
      inversion HW; subst. constructor; [split; assumption|apply IH; assumption]. }
    assert (ms = [] \/ ms <> []) as [Hnil|Hne] by (destruct ms; [left; reflexivity|right; discriminate]).
    { subst ms. inversion HP2; subst. remember (arr_rows a) as rs eqn:Ers. clear Ers. destruct rs; [constructor|inversion G]. }
    eapply Forall2_compose; [|exact G|exact HP2].
    intros row m r H1 H2. cbv beta in H1, H2. intros v Hv. destruct H1 as [_ HV]. destruct H2 as [Hl Hp].
    rewrite HV by (eapply Permutation_in; [apply Permutation_sym, HL, Hne|exact Hv]).
    rewrite (row_value_combine L r v Hl). apply assoc_value_perm; [|exact Hp].
    eapply Permutation_NoDup; [apply Permutation_sym; eapply (Permutation_map fst); exact Hp|].
    rewrite map_fst_combine by exact Hl. exact ND.
Qed.

(* ---------- exact outputs of the other forms ---------- *)
Lemma tuple_tail_exact rows L' : tuple_tail (length L', rows) L' = Ok ((length L', rows), L').
Proof.
  unfold tuple_tail, arr_nrows, arr_ncols, arr_rows. cbn [fst snd].
  destruct (length rows * length L' =? 0)%nat; cbn [rbind fst]; rewrite Nat.eqb_refl; reflexivity.
Qed.

Lemma Forall_forallb_len (w : nat) (rows : list (list Qc)) :
  Forall (fun r => length r = w) rows -> forallb (fun r => (length r =? w)%nat) rows = true.
Proof. intros H. apply forallb_forall. rewrite Forall_forall in H. intros r Hr. apply Nat.eqb_eq, H, Hr. Qed.

(* (2-d array-like, labels): returned as given *)
Theorem as_samples_tuple_2d il L' R' :
  Forall (fun r => length r = length L') R' ->
  as_samples_full il (STup (TFArr (A2 (length L') R')) L') = Ok ((length L', R'), L').
Proof.
  intros H. cbn [as_samples_full]. rewrite branch_for_tuple. cbn [as_tuple]. unfold as_tuple_arr. cbn [sample_array].
  rewrite (Forall_forallb_len _ _ H). cbn [rbind]. apply tuple_tail_exact.
Qed.

(* SampleSet: variables and record.sample *)
Theorem as_samples_sampleset il L' R' :
  Forall (fun r => length r = length L') R' ->
  as_samples_full il (SSet L' R') = Ok ((length L', R'), L').
Proof.
  intros H. cbn [as_samples_full]. rewrite branch_for_sampleset, (Forall_forallb_len _ _ H). reflexivity.
Qed.

(* one dict: one row, labels in key order *)
Theorem as_samples_dict_row il L r :
  length r = length L -> as_samples_full il (SMap (combine L r)) = Ok ((length L, [r]), L).
Proof.
  intros H. rewrite as_full_map. unfold dict_out.
  rewrite map_fst_combine, map_snd_combine, combine_length, H, Nat.min_id by exact H. reflexivity.
Qed.

Lemma dict_set_fresh d v x : ~ In v (map fst d) -> dict_set d v x = d ++ [(v, x)].
Proof.
  induction d as [|[k y] d IH]; cbn [map fst In dict_set app]; [reflexivity|]. intros H.
  destruct (Nat.eqb_spec k v) as [->|]; [exfalso; apply H; left; reflexivity|]. rewrite IH by tauto. reflexivity.
Qed.

Lemma build_copy_nodup kv labels d :
  NoDup (map fst d ++ labels) -> (forall v, In v labels -> In v (map fst kv)) ->
  build_copy kv labels d = Some (d ++ map (fun v => (v, assoc_value kv v)) labels).
Proof.
  revert d. induction labels as [|v r IH]; intros d ND HK; cbn [build_copy map]; [rewrite app_nil_r; reflexivity|].
  destruct (assoc_of_keys kv v (HK v (or_introl eq_refl))) as [x Hx]. rewrite Hx.
  assert (~ In v (map fst d)) as Hn.
  { intros Hin. apply NoDup_remove_2 in ND. apply ND. apply in_or_app. left. exact Hin. }
  rewrite dict_set_fresh by exact Hn. rewrite IH.
  - rewrite <- app_assoc. cbn [app]. unfold assoc_value at 2. rewrite Hx. reflexivity.
  - rewrite map_app, <- app_assoc. exact ND.
  - intros w Hw. apply HK. right. exact Hw.
Qed.

(* the deprecated (mapping, labels) form with duplicate-free labels that are keys: the values in the order of labels *)
Theorem as_samples_deprecated il kv L' :
  NoDup L' -> (forall v, In v L' -> In v (map fst kv)) ->
  as_samples_full il (STup (TFMap kv) L') = Ok ((length L', [map (assoc_value kv) L']), L').
Proof.
  intros ND HK. cbn [as_samples_full]. rewrite branch_for_tuple. cbn [as_tuple].
  rewrite (build_copy_nodup kv L' []) by assumption. cbn [app].
  rewrite branch_for_mapping, mapping_uses_copy, as_dict_eq. cbn [rbind fst].
  rewrite map_length, !map_map. cbn [fst snd]. apply tuple_tail_exact.
Qed.

Lemma lookup_notin_none kv v : ~ In v (map fst kv) -> lookup kv v = None.
Proof. intros H. destruct (lookup kv v) as [x|] eqn:E; [|reflexivity]. exfalso. apply H. eapply lookup_in_keys, E. Qed.

Lemma build_copy_missing kv labels d :
  (exists v, In v labels /\ lookup kv v = None) -> build_copy kv labels d = None.
Proof.
  revert d. induction labels as [|v0 r IH]; intros d [v [Hin Hv]]; [destruct Hin|]. cbn [build_copy].
  destruct (lookup kv v0) as [x|] eqn:E; [|reflexivity]. apply IH. exists v. split; [|exact Hv].
  destruct Hin as [<-|Hin]; [congruence|exact Hin].
Qed.

(* as_samples_none_iff (3): the deprecated form with a label that is not a key: ValueError("inconsistent labels") *)
Theorem as_samples_deprecated_missing il kv labels :
  (exists v, In v labels /\ ~ In v (map fst kv)) ->
  as_samples_full il (STup (TFMap kv) labels) = Err ValueError.
Proof.
  intros [v [Hin Hn]]. cbn [as_samples_full]. rewrite branch_for_tuple. cbn [as_tuple].
  rewrite build_copy_missing; [reflexivity|]. exists v. split; [exact Hin|apply lookup_notin_none, Hn].
Qed.

Theorem as_samples_deprecated_none_iff il kv labels :
  NoDup labels ->
  (as_samples il (STup (TFMap kv) labels) = None <-> exists v, In v labels /\ ~ In v (map fst kv)).
Proof.
  intros ND. unfold as_samples. split.
  - intros HN. destruct (forallb (fun v => existsb (Nat.eqb v) (map fst kv)) labels) eqn:E.
    + exfalso. rewrite as_samples_deprecated in HN; [discriminate|exact ND|].
      intros v Hv. rewrite forallb_forall in E. apply E in Hv. apply existsb_exists in Hv.
      destruct Hv as [x [Hx Ex]]. apply Nat.eqb_eq in Ex. subst. exact Hx.
    + apply forallb_false_ex in E. destruct E as [v [Hv HF]]. exists v. split; [exact Hv|].
      intros Hin. assert (existsb (Nat.eqb v) (map fst kv) = true); [|congruence].
      apply existsb_exists. exists v. split; [exact Hin|apply Nat.eqb_refl].
  - intros H. rewrite (as_samples_deprecated_missing _ _ _ H). reflexivity.
Qed.

(* as_samples_none_iff (2): (non-empty 2-d array, labels) is rejected exactly when the label count is not shape[1] *)
Theorem as_samples_tuple_none_iff il w rows labels :
  rows <> [] -> w <> 0%nat -> Forall (fun r => length r = w) rows ->
  (as_samples il (STup (TFArr (A2 w rows)) labels) = None <-> length labels <> w) /\
  (length labels <> w -> as_samples_full il (STup (TFArr (A2 w rows)) labels) = Err ValueError).
Proof.
  intros Hr Hw HF. unfold as_samples. cbn [as_samples_full]. rewrite branch_for_tuple. cbn [as_tuple].
  unfold as_tuple_arr. cbn [sample_array]. rewrite (Forall_forallb_len _ _ HF). cbn [rbind].
  unfold tuple_tail, arr_nrows, arr_ncols, arr_rows. cbn [fst snd].
  assert ((length rows * w =? 0)%nat = false) as E.
  { apply Nat.eqb_neq. destruct rows; [congruence|]. cbn [length]. destruct w; [congruence|]. cbn [Nat.mul Nat.add]. lia. }
  rewrite E. cbn [rbind fst]. destruct (Nat.eqb_spec (length labels) w) as [Heq|Hne]; cbn [negb].
  - split; [split; [discriminate|intros H; contradiction]|intros H; contradiction].
  - split; [split; [intros _; exact Hne|reflexivity]|reflexivity].
Qed.

Lemma Forall2_map_self {A B} (R : B -> A -> Prop) (f : A -> B) l : (forall x, R (f x) x) -> Forall2 R (map f l) l.
Proof. intros H. induction l; cbn [map]; constructor; auto. Qed.

Lemma reindex_rows_width L' L (R : list (list Qc)) : Forall (fun r => length r = length L') (map (reindex_row L' L) R).
Proof. apply Forall_forall. intros r Hr. apply in_map_iff in Hr. destruct Hr as [r0 [<- _]]. apply map_length. Qed.

(* as_samples_forms_agree: one assignment table (labels L duplicate-free, rows R of width |L|) passed
   - as a list or an iterator of dicts, each row with its own key order (ms),
   - as (2-d array, labels L') or as a SampleSet over L', for any column order / superset L' of L (the rows re-indexed),
   - (one row) as a dict in any key order, or in the deprecated (dict, labels L') form in any label order,
   is accepted and yields an output giving every label of L in every row the value of the table. *)
Theorem as_samples_forms_agree il L R :
  NoDup L -> Forall (fun r => length r = length L) R ->
  (forall ms, Forall2 (fun m r => Permutation m (combine L r)) ms R ->
     (exists o, as_samples il (SList (map SMap ms)) = Some o /\ table_agrees o L R) /\
     (exists o, as_samples il (SIter (map SMap ms)) = Some o /\ table_agrees o L R)) /\
  (forall L', (forall v, In v L -> In v L') ->
     (exists o, as_samples il (STup (TFArr (A2 (length L') (map (reindex_row L' L) R))) L') = Some o /\ table_agrees o L R) /\
     (exists o, as_samples il (SSet L' (map (reindex_row L' L) R)) = Some o /\ table_agrees o L R)) /\
  (forall r m, R = [r] -> Permutation m (combine L r) ->
     (exists o, as_samples il (SMap m) = Some o /\ table_agrees o L R) /\
     (forall L', NoDup L' -> (forall v, In v L <-> In v L') ->
        exists o, as_samples il (STup (TFMap m) L') = Some o /\ table_agrees o L R)).
Proof.
  intros ND HW. split; [|split].
  - intros ms HP. split; eapply dicts_agree; eauto.
  - intros L' Hsub.
    assert (table_agrees (map (reindex_row L' L) R, L') L R) as HT.
    { unfold table_agrees. cbn [fst snd]. apply Forall2_map_self. intros r v Hv. apply reindex_row_value, Hsub, Hv. }
    split; eexists; (split; [|exact HT]); unfold as_samples.
    + rewrite as_samples_tuple_2d by apply reindex_rows_width. reflexivity.
    + rewrite as_samples_sampleset by apply reindex_rows_width. reflexivity.
  - intros r m -> HP. inversion HW as [|? ? Hl _]; subst.
    assert (NoDup (map fst m)) as NDm.
    { eapply Permutation_NoDup; [apply Permutation_sym, (perm_keys L m r Hl HP)|exact ND]. }
    assert (forall v, assoc_value m v = row_value L r v) as HV.
    { intros v. rewrite (row_value_combine L r v Hl). apply assoc_value_perm; assumption. }
    split.
    + exists ([map snd m], map fst m). split; [unfold as_samples; rewrite as_full_map; reflexivity|].
      unfold table_agrees. cbn [fst snd]. constructor; [|constructor]. intros v _. rewrite row_value_fst_snd. apply HV.
    + intros L' ND' HS.
      assert (forall v, In v L' -> In v (map fst m)) as HK.
      { intros v Hv. eapply Permutation_in; [apply Permutation_sym, (perm_keys L m r Hl HP)|apply HS, Hv]. }
      pose proof (as_samples_deprecated il m L' ND' HK) as HF.
      exists ([map (assoc_value m) L'], L'). split; [unfold as_samples; rewrite HF; reflexivity|].
      destruct (as_samples_full_good _ _ _ HF) as [_ G]. cbn [fst snd arr_rows spec_rows] in G.
      unfold table_agrees. cbn [fst snd]. inversion G as [|? ? ? ? [_ HR] _]; subst.
      constructor; [|constructor]. intros v Hv. rewrite HR by (apply HS, Hv). apply HV.
Qed.

Lemma Forall2_weaken {A B} (R1 R2 : A -> B -> Prop) l l' :
  (forall a b, R1 a b -> R2 a b) -> Forall2 R1 l l' -> Forall2 R2 l l'.
Proof. intros H HF. induction HF; constructor; auto. Qed.

(* the energies of a model do not depend on which accepted form of the assignment table is passed: any two
   accepted inputs whose outputs agree with the table (L, R) on L, with the model's variables among L *)
Theorem energies_cy_forms il m vars L R s1 s2 o1 o2 :
  Adj.Inv m -> length vars = Adj.nvars m -> (forall v, In v vars -> In v L) ->
  as_samples il s1 = Some o1 -> as_samples il s2 = Some o2 ->
  (forall v, In v L -> In v (snd o1)) -> (forall v, In v L -> In v (snd o2)) ->
  table_agrees o1 L R -> table_agrees o2 L R ->
  energies_cy m vars (snd o1) (fst o1) = energies_cy m vars (snd o2) (fst o2).
Proof.
  intros HI HL HV _ _ H1 H2 T1 T2.
  assert (forall o, (forall v, In v L -> In v (snd o)) -> table_agrees o L R ->
                    energies_cy m vars (snd o) (fst o) = energies_cy m vars L R) as K.
  { intros o Ho T. apply energies_cy_rows_agree; auto.
    unfold table_agrees in T. eapply Forall2_weaken; [|exact T]. cbv beta. intros a b Hab v Hv. apply Hab, HV, Hv. }
  rewrite (K o1 H1 T1), (K o2 H2 T2). reflexivity.
Qed.

(* ---------- cross-checks against the real dimod.as_samples (build 5b47f2be...; labels 'a','b','c' = 10,11,12;
   the Python integer i = i) ---------- *)
Definition idl (i : nat) : label := i.
Definition q (n : Z) : Qc := qc n 1.
Definition agrees_obs (s : slike) (obs : res out) : bool := as_samples_full_eqb (as_samples_full idl s) obs.

(* as_samples({}) -> shape (1, 0), [] ;  as_samples([]) -> shape (0, 0), [] *)
Example ex_empty_dict : agrees_obs (SMap []) (Ok ((0, [[]]), []))%nat = true. Proof. vm_compute. reflexivity. Qed.
Example ex_empty_list : agrees_obs (SArr (A1 [])) (Ok ((0, []), []))%nat = true. Proof. vm_compute. reflexivity. Qed.
(* as_samples(([], ['a'])) -> shape (0, 1), ['a'] ;  as_samples(([[]], ['a'])) -> ValueError (reshape) *)
Example ex_empty_tuple : agrees_obs (STup (TFArr (A1 [])) [10]%nat) (Ok ((1, []), [10]))%nat = true.
Proof. vm_compute. reflexivity. Qed.
Example ex_empty_row_tuple : agrees_obs (STup (TFArr (A2 0 [[]])) [10]%nat) (Err ValueError) = true.
Proof. vm_compute. reflexivity. Qed.
(* as_samples([{'a':1,'b':2},{'b':3,'a':4}]) -> [[1,2],[4,3]], ['a','b'] *)
Example ex_dicts_reordered :
  agrees_obs (SList [SMap [(10, q 1); (11, q 2)]; SMap [(11, q 3); (10, q 4)]]%nat)
             (Ok ((2, [[q 1; q 2]; [q 4; q 3]]), [10; 11]))%nat = true.
Proof. vm_compute. reflexivity. Qed.
(* as_samples([{'a':1,'b':2},{'b':3,'c':4}]) -> ValueError *)
Example ex_dicts_other_keys :
  agrees_obs (SList [SMap [(10, q 1); (11, q 2)]; SMap [(11, q 3); (12, q 4)]]%nat) (Err ValueError) = true.
Proof. vm_compute. reflexivity. Qed.
(* as_samples([[3,4],{1:1,0:2}]) -> [[3,4],[2,1]], [0,1]  (mixed list: iterator handler, the list element gets range labels) *)
Example ex_mixed :
  agrees_obs (SList [SArr (A1 [q 3; q 4]); SMap [(1, q 1); (0, q 2)]]%nat)
             (Ok ((2, [[q 3; q 4]; [q 2; q 1]]), [0; 1]))%nat = true.
Proof. vm_compute. reflexivity. Qed.
(* as_samples(({'a':1,'b':2}, ['b','a'])) -> [[2,1]], ['b','a'] ; fewer labels than keys is allowed: (.., ['a']) -> [[1]], ['a'] ;
   a missing label -> ValueError ; a duplicated label -> ValueError (dimensions) *)
Example ex_deprecated_order :
  agrees_obs (STup (TFMap [(10, q 1); (11, q 2)]) [11; 10])%nat (Ok ((2, [[q 2; q 1]]), [11; 10]))%nat = true.
Proof. vm_compute. reflexivity. Qed.
Example ex_deprecated_fewer :
  agrees_obs (STup (TFMap [(10, q 1); (11, q 2)]) [10])%nat (Ok ((1, [[q 1]]), [10]))%nat = true.
Proof. vm_compute. reflexivity. Qed.
Example ex_deprecated_missing :
  agrees_obs (STup (TFMap [(10, q 1)]) [10; 11])%nat (Err ValueError) = true.
Proof. vm_compute. reflexivity. Qed.
Example ex_deprecated_dup :
  agrees_obs (STup (TFMap [(10, q 1); (11, q 2)]) [11; 10; 11])%nat (Err ValueError) = true.
Proof. vm_compute. reflexivity. Qed.
(* as_samples((iter([1]), ['a'])) -> TypeError ; a tuple of length 3 -> ValueError *)
Example ex_tuple_iterator : agrees_obs (STup TFIter [10]%nat) (Err TypeError) = true. Proof. vm_compute. reflexivity. Qed.
Example ex_tuple_len3 : agrees_obs STupBad (Err ValueError) = true. Proof. vm_compute. reflexivity. Qed.
(* as_samples(iter([([1,2,3],['a','a','b']), ([3,4,5],['a','b','b'])])) -> [[1,2,3],[3,3,4]], ['a','a','b'] (duplicated labels) *)
Example ex_iter_duplicated_labels :
  agrees_obs (SIter [STup (TFArr (A1 [q 1; q 2; q 3])) [10; 10; 11]; STup (TFArr (A1 [q 3; q 4; q 5])) [10; 11; 11]]%nat)
             (Ok ((3, [[q 1; q 2; q 3]; [q 3; q 3; q 4]]), [10; 10; 11]))%nat = true.
Proof. vm_compute. reflexivity. Qed.
(* as_samples([{'a':1,'b':2}, ([[3,4],[5,6]],['b','a'])]) -> [[1,2],[4,3],[6,5]], ['a','b'] *)
Example ex_nested_tuple :
  agrees_obs (SList [SMap [(10, q 1); (11, q 2)]; STup (TFArr (A2 2 [[q 3; q 4]; [q 5; q 6]])) [11; 10]]%nat)
             (Ok ((2, [[q 1; q 2]; [q 4; q 3]; [q 6; q 5]]), [10; 11]))%nat = true.
Proof. vm_compute. reflexivity. Qed.
(* as_samples([{'a':1}, {'b':1}, (iter([1]),['a'])]) -> ValueError (the key-set error comes first);
   as_samples([{'a':1}, (iter([1]),['a']), {'b':1}]) -> TypeError *)
Example ex_error_order_1 :
  agrees_obs (SList [SMap [(10, q 1)]; SMap [(11, q 1)]; STup TFIter [10]]%nat) (Err ValueError) = true.
Proof. vm_compute. reflexivity. Qed.
Example ex_error_order_2 :
  agrees_obs (SList [SMap [(10, q 1)]; STup TFIter [10]; SMap [(11, q 1)]]%nat) (Err TypeError) = true.
Proof. vm_compute. reflexivity. Qed.
(* as_samples([SampleSet(['a','b'], [[1,0],[0,1]]), {'b':1,'a':0}]) -> [[1,0],[0,1],[0,1]], ['a','b'] *)
Example ex_sampleset_and_dict :
  agrees_obs (SList [SSet [10; 11] [[q 1; q 0]; [q 0; q 1]]; SMap [(11, q 1); (10, q 0)]]%nat)
             (Ok ((2, [[q 1; q 0]; [q 0; q 1]; [q 0; q 1]]), [10; 11]))%nat = true.
Proof. vm_compute. reflexivity. Qed.
(* the hypotheses of as_samples_forms_agree are satisfiable on non-trivial data *)
Example ex_forms_hyp :
  Forall2 (fun m r => Permutation m (combine [10; 11]%nat r))
          [[(11, q 2); (10, q 1)]; [(10, q 4); (11, q 3)]]%nat [[q 1; q 2]; [q 4; q 3]].
Proof. repeat constructor. Qed.

Print Assumptions as_samples_full_good.
Print Assumptions as_samples_table.
Print Assumptions as_samples_forms_agree.
Print Assumptions energies_cy_as_samples_form_independent.
Print Assumptions energies_cy_forms.
Print Assumptions as_samples_list_of_dicts_none_iff.
Print Assumptions as_samples_tuple_none_iff.
Print Assumptions as_samples_deprecated_none_iff.
