(* Facts about the heap model of future-backed sample sets (Model/Alias.v):
   resolution and relabel_variables never write into an existing record cell and never touch another
   resolved object; a relabelled copy owns a fresh cell. *)
From Coq Require Import List ZArith QArith Qcanon Bool Arith Lia.
From Dimod Require Import Base.Util Model.Poly Model.Samples Model.SSet Model.Alias.
Import ListNotations.
Local Open Scope nat_scope.

(* every record reference of a resolved object points into the heap *)
Definition wf (h : aheap) : Prop :=
  forall j r ls v inf, nth_error (objs h) j = Some (AResolved r ls v inf) -> r < length (cells h).

(* no pending change_vartype wrapper (a history whose calls are all relabel_variables) *)
Definition no_chvt (h : aheap) : Prop :=
  forall j s v off f post, nth_error (objs h) j <> Some (APending (HWrapChangeVt s v off f) post).

(* h' is h with more cells, the same resolved objects, and some pending objects resolved *)
Definition grows (h h' : aheap) : Prop :=
  (exists extra, cells h' = cells h ++ extra)
  /\ length (objs h') = length (objs h)
  /\ futdone h' = futdone h
  /\ forall j, match nth_error (objs h) j with
               | Some (AResolved r ls v inf) => nth_error (objs h') j = Some (AResolved r ls v inf)
               | Some (APending h0 post) =>
                   nth_error (objs h') j = Some (APending h0 post)
                   \/ exists r ls v inf, nth_error (objs h') j = Some (AResolved r ls v inf)
               | None => nth_error (objs h') j = None
               end.

Lemma grows_refl : forall h, grows h h.
Proof.
  intro h. split; [exists []; now rewrite app_nil_r|]. split; [reflexivity|]. split; [reflexivity|].
  intro j. destruct (nth_error (objs h) j) as [[r ls v inf|h0 post]|]; auto.
Qed.

Lemma grows_trans : forall a b c, grows a b -> grows b c -> grows a c.
Proof.
  intros a b c (E1 & L1 & F1 & O1) (E2 & L2 & F2 & O2).
  split. { destruct E1 as [x Hx]. destruct E2 as [y Hy]. exists (x ++ y). rewrite Hy, Hx. now rewrite app_assoc. }
  split; [congruence|]. split; [congruence|].
  intro j. specialize (O1 j). specialize (O2 j).
  destruct (nth_error (objs a) j) as [[r ls v inf|h0 post]|].
  - rewrite O1 in O2. exact O2.
  - destruct O1 as [O1|(r & ls & v & inf & O1)]; rewrite O1 in O2.
    + exact O2.
    + right. eauto.
  - rewrite O1 in O2. exact O2.
Qed.

Lemma grows_alloc_cell : forall h c, grows h (fst (alloc_cell h c)).
Proof.
  intros h c. unfold grows, alloc_cell. simpl.
  split; [exists [c]; reflexivity|]. split; [reflexivity|]. split; [reflexivity|].
  intro j. simpl. destruct (nth_error (objs h) j) as [[r ls v inf|h0 post]|]; auto.
Qed.

Lemma nth_error_lset_same : forall {A} (l : list A) i x, i < length l -> nth_error (lset l i x) i = Some x.
Proof.
  induction l as [|y l IH]; intros i x Hi; cbn in Hi; [lia|].
  destruct i; cbn; [reflexivity|]. apply IH. lia.
Qed.
Lemma nth_error_lset_other : forall {A} (l : list A) i j x, i <> j -> nth_error (lset l i x) j = nth_error l j.
Proof.
  induction l as [|y l IH]; intros i j x Hij; [destruct i; reflexivity|].
  destruct i, j; cbn; try reflexivity; try congruence. apply IH. congruence.
Qed.
Lemma length_lset : forall {A} (l : list A) i x, length (lset l i x) = length l.
Proof. induction l as [|y l IH]; intros [|i] x; cbn; auto. Qed.

(* a pending object becomes resolved *)
Lemma grows_set_obj : forall h i h0 post r ls v inf,
  nth_error (objs h) i = Some (APending h0 post) -> grows h (set_obj h i (AResolved r ls v inf)).
Proof.
  intros h i h0 post r ls v inf Hi. unfold grows, set_obj. simpl.
  split; [exists []; now rewrite app_nil_r|]. split; [apply length_lset|]. split; [reflexivity|].
  intro j. destruct (Nat.eq_dec i j) as [->|Hn].
  - rewrite Hi. right. exists r, ls, v, inf. apply nth_error_lset_same. apply nth_error_Some. congruence.
  - rewrite (nth_error_lset_other _ _ _ _ Hn).
    destruct (nth_error (objs h) j) as [[r' ls' v' inf'|h0' post']|]; auto.
Qed.

Lemma grows_pending : forall h h' i h0 post, grows h h' ->
  nth_error (objs h') i = Some (APending h0 post) -> nth_error (objs h) i = Some (APending h0 post).
Proof.
  intros h h' i h0 post (_ & _ & _ & O) Hi. specialize (O i).
  destruct (nth_error (objs h) i) as [[r ls v inf|h0' post']|]; try congruence.
  destruct O as [O|(r & ls & v & inf & O)]; congruence.
Qed.

Lemma no_chvt_grows : forall h h', grows h h' -> no_chvt h -> no_chvt h'.
Proof.
  intros h h' G N j s v off f post Hj. apply (N j s v off f post). eapply grows_pending; eauto.
Qed.

Lemma run_post_grows : forall post h r ls h' res, run_post h r ls post = (h', res) -> grows h h'.
Proof.
  induction post as [|m rest IH]; intros h r ls h' res H; cbn in H.
  - inversion H; subst. apply grows_refl.
  - destruct (relabel_labels m ls) as [ls'|].
    + eapply grows_trans; [|eapply IH; exact H]. apply (grows_alloc_cell h (get_cell h r)).
    + inversion H; subst. apply (grows_alloc_cell h (get_cell h r)).
Qed.

Lemma run_post_objs : forall post h r ls h' res, run_post h r ls post = (h', res) -> objs h' = objs h.
Proof.
  induction post as [|m rest IH]; intros h r ls h' res H; cbn in H.
  - inversion H; subst. reflexivity.
  - destruct (relabel_labels m ls) as [ls'|].
    + apply IH in H. exact H.
    + inversion H; subst. reflexivity.
Qed.

(* wrappers refer to objects created earlier *)
Definition ordered (h : aheap) : Prop :=
  forall j h0 post, nth_error (objs h) j = Some (APending h0 post) ->
    match h0 with HResult _ => True | HWrapRelabel s _ => s < j | HWrapChangeVt s _ _ _ => s < j end.

Lemma ordered_grows : forall h h', grows h h' -> ordered h -> ordered h'.
Proof. intros h h' G O j h0 post Hj. apply (O j h0 post). eapply grows_pending; eauto. Qed.

Definition above (i : nat) (h h' : aheap) : Prop := forall j, i < j -> nth_error (objs h') j = nth_error (objs h) j.

(* resolution, in a heap without change_vartype wrappers, only grows the heap, and does not touch later objects *)
Lemma aresolve_grows : forall fuel h i h' ok, no_chvt h -> ordered h -> aresolve fuel h i = (h', ok) ->
  grows h h' /\ above i h h'.
Proof.
  assert (A0 : forall i h, above i h h) by (intros i h j _; reflexivity).
  induction fuel as [|f IH]; intros h i h' ok N Ord H; cbn in H.
  - destruct (nth_error (objs h) i) as [[r ls v inf|h0 post]|]; inversion H; subst; split; auto using grows_refl.
  - destruct (nth_error (objs h) i) as [[r ls v inf|h0 post]|] eqn:Hi;
      [inversion H; subst; split; auto using grows_refl| |inversion H; subst; split; auto using grows_refl].
    destruct h0 as [b|s m|s v off offf].
    + (* default hook *)
      destruct (futdone h); [|inversion H; subst; split; auto using grows_refl].
      destruct (nth_error (objs h) b) as [[r ls v inf|h0' post']|];
        [|inversion H; subst; split; auto using grows_refl|inversion H; subst; split; auto using grows_refl].
      destruct (run_post h r ls post) as [h2 [[r2 ls2]|]] eqn:Hp; inversion H; subst.
      * pose proof (run_post_grows _ _ _ _ _ _ Hp) as G. pose proof (run_post_objs _ _ _ _ _ _ Hp) as E.
        split.
        -- eapply grows_trans; [exact G|]. eapply grows_set_obj. rewrite E. exact Hi.
        -- intros j Hj. unfold set_obj. simpl. rewrite nth_error_lset_other by lia. now rewrite E.
      * split; [eapply run_post_grows; eauto|]. intros j Hj. now rewrite (run_post_objs _ _ _ _ _ _ Hp).
    + (* relabel wrapper *)
      pose proof (Ord _ _ _ Hi) as Hlt. cbn in Hlt.
      destruct (aresolve f h s) as [h1 ok1] eqn:Hs.
      destruct (IH _ _ _ _ N Ord Hs) as [G1 A1].
      assert (Ai : above i h h1) by (intros j Hj; apply A1; lia).
      assert (Hi1 : nth_error (objs h1) i = Some (APending (HWrapRelabel s m) post)) by (rewrite A1 by lia; exact Hi).
      destruct ok1; [|inversion H; subst; split; assumption].
      destruct (nth_error (objs h1) s) as [[r ls v inf|h0' post']|];
        [|inversion H; subst; split; assumption|inversion H; subst; split; assumption].
      pose proof (grows_alloc_cell h1 (get_cell h1 r)) as G2.
      unfold copy_cell, alloc_cell in H. unfold alloc_cell in G2. cbn [fst] in G2.
      destruct (relabel_labels m ls) as [ls'|].
      * match type of H with context [run_post ?hh ?rr ?ll post] => destruct (run_post hh rr ll post) as [h3 [[r3 ls3]|]] eqn:Hp end;
          inversion H; subst.
        -- pose proof (run_post_grows _ _ _ _ _ _ Hp) as G3. pose proof (run_post_objs _ _ _ _ _ _ Hp) as E3. simpl in E3.
           split.
           ++ eapply grows_trans; [exact G1|]. eapply grows_trans; [exact G2|]. eapply grows_trans; [exact G3|].
              eapply grows_set_obj. rewrite E3. exact Hi1.
           ++ intros j Hj. unfold set_obj. simpl. rewrite nth_error_lset_other by lia. rewrite E3. apply Ai. exact Hj.
        -- pose proof (run_post_grows _ _ _ _ _ _ Hp) as G3. pose proof (run_post_objs _ _ _ _ _ _ Hp) as E3. simpl in E3.
           split.
           ++ eapply grows_trans; [exact G1|]. eapply grows_trans; [exact G2|exact G3].
           ++ intros j Hj. rewrite E3. apply Ai. exact Hj.
      * inversion H; subst. split; [eapply grows_trans; [exact G1|exact G2]|]. intros j Hj. simpl. apply Ai. exact Hj.
    + exfalso. eapply N. exact Hi.
Qed.

(* ---------- well-formedness ---------- *)
Lemma wf_ext : forall h h', wf h -> objs h' = objs h -> (exists extra, cells h' = cells h ++ extra) -> wf h'.
Proof.
  intros h h' W E [x Hx] j r ls v inf Hj. rewrite E in Hj. apply W in Hj. rewrite Hx, app_length. lia.
Qed.

Lemma wf_set_obj : forall h i r ls v inf, wf h -> r < length (cells h) -> wf (set_obj h i (AResolved r ls v inf)).
Proof.
  intros h i r ls v inf W Hr j r' ls' v' inf' Hj. unfold set_obj in *. simpl in *.
  destruct (Nat.eq_dec i j) as [->|Hn].
  - destruct (Nat.lt_ge_cases j (length (objs h))) as [Hl|Hl].
    + rewrite nth_error_lset_same in Hj by exact Hl. inversion Hj; subst. exact Hr.
    + assert (nth_error (lset (objs h) j (AResolved r ls v inf)) j = None) by (apply nth_error_None; rewrite length_lset; exact Hl).
      congruence.
  - rewrite nth_error_lset_other in Hj by exact Hn. eapply W; eauto.
Qed.

Lemma run_post_cells : forall post h r ls h' res, run_post h r ls post = (h', res) -> exists extra, cells h' = cells h ++ extra.
Proof. intros. destruct (run_post_grows _ _ _ _ _ _ H) as (E & _). exact E. Qed.

Lemma run_post_ref : forall post h r ls h' r2 ls2, r < length (cells h) ->
  run_post h r ls post = (h', Some (r2, ls2)) -> r2 < length (cells h').
Proof.
  induction post as [|m rest IH]; intros h r ls h' r2 ls2 Hr H; cbn in H.
  - inversion H; subst. exact Hr.
  - destruct (relabel_labels m ls) as [ls'|]; [|discriminate].
    eapply IH; [|exact H]. simpl. rewrite app_length. simpl. lia.
Qed.

Lemma aresolve_wf : forall fuel h i h' ok, no_chvt h -> ordered h -> wf h -> aresolve fuel h i = (h', ok) -> wf h'.
Proof.
  induction fuel as [|f IH]; intros h i h' ok N Ord W H; cbn in H.
  - destruct (nth_error (objs h) i) as [[r ls v inf|h0 post]|]; inversion H; subst; exact W.
  - destruct (nth_error (objs h) i) as [[r ls v inf|h0 post]|] eqn:Hi;
      [inversion H; subst; exact W| |inversion H; subst; exact W].
    destruct h0 as [b|s m|s v off offf].
    + destruct (futdone h); [|inversion H; subst; exact W].
      destruct (nth_error (objs h) b) as [[r ls v inf|h0' post']|] eqn:Hb;
        [|inversion H; subst; exact W|inversion H; subst; exact W].
      destruct (run_post h r ls post) as [h2 [[r2 ls2]|]] eqn:Hp; inversion H; subst.
      * apply wf_set_obj.
        -- eapply wf_ext; [exact W|eapply run_post_objs; eauto|eapply run_post_cells; eauto].
        -- eapply run_post_ref; [|exact Hp]. eapply W; eauto.
      * eapply wf_ext; [exact W|eapply run_post_objs; eauto|eapply run_post_cells; eauto].
    + destruct (aresolve f h s) as [h1 ok1] eqn:Hs.
      pose proof (IH _ _ _ _ N Ord W Hs) as W1.
      destruct ok1; [|inversion H; subst; exact W1].
      destruct (nth_error (objs h1) s) as [[r ls v inf|h0' post']|] eqn:Hs1;
        [|inversion H; subst; exact W1|inversion H; subst; exact W1].
      unfold copy_cell, alloc_cell in H.
      set (h2 := {| cells := cells h1 ++ [get_cell h1 r]; objs := objs h1; futdone := futdone h1 |}) in *.
      assert (W2 : wf h2) by (eapply wf_ext; [exact W1|reflexivity|exists [get_cell h1 r]; reflexivity]).
      destruct (relabel_labels m ls) as [ls'|].
      * destruct (run_post h2 (length (cells h1)) ls' post) as [h3 [[r3 ls3]|]] eqn:Hp; inversion H; subst.
        -- apply wf_set_obj.
           ++ eapply wf_ext; [exact W2|eapply run_post_objs; eauto|eapply run_post_cells; eauto].
           ++ eapply run_post_ref; [|exact Hp]. subst h2. simpl. rewrite app_length. simpl. lia.
        -- eapply wf_ext; [exact W2|eapply run_post_objs; eauto|eapply run_post_cells; eauto].
      * inversion H; subst. exact W2.
    + exfalso. eapply N. exact Hi.
Qed.

(* what a resolved object shows is unaffected by growth *)
Lemma view_grows : forall h h' j s, grows h h' -> wf h -> view h j = Some s -> view h' j = Some s.
Proof.
  intros h h' j s (E & _ & _ & O) W V. unfold view in *. specialize (O j).
  destruct (nth_error (objs h) j) as [[r ls v inf|h0 post]|] eqn:Hj; try discriminate.
  rewrite O. rewrite <- V. unfold get_cell. destruct E as [x Hx]. rewrite Hx.
  rewrite app_nth1 by (eapply W; eauto). reflexivity.
Qed.

(* SampleSet.resolve() of ANY object, in a history without change_vartype, leaves every resolved object as it is *)
Theorem resolve_keeps_views : forall fuel h i h' ok j s,
  no_chvt h -> ordered h -> wf h -> aresolve fuel h i = (h', ok) -> view h j = Some s -> view h' j = Some s.
Proof.
  intros fuel h i h' ok j s N Ord W H V. destruct (aresolve_grows _ _ _ _ _ N Ord H) as [G _]. eapply view_grows; eauto.
Qed.

(* ---------- relabel_variables: one call ---------- *)
Definition good (h : aheap) : Prop := no_chvt h /\ ordered h /\ wf h.

(* same rows, vartype, info, data vectors; labels too unless this is the receiver of an in-place call *)
Definition kept (h h' : aheap) (recv : option nat) : Prop :=
  forall j s, view h j = Some s ->
    exists s', view h' j = Some s' /\ rws s' = rws s /\ vt s' = vt s /\ info s' = info s /\ fields s' = fields s
               /\ (labels s' = labels s \/ recv = Some j).

Lemma kept_same : forall h h' recv, (forall j s, view h j = Some s -> view h' j = Some s) -> kept h h' recv.
Proof. intros h h' recv H j s V. exists s. repeat split; auto. Qed.

Lemma nth_error_snoc_old : forall {A} (l : list A) x j y, nth_error l j = Some y -> nth_error (l ++ [x]) j = Some y.
Proof. intros A l x j y H. rewrite nth_error_app1; [exact H|]. apply nth_error_Some. congruence. Qed.

Lemma good_alloc_obj_resolved : forall h r ls v inf, good h -> r < length (cells h) ->
  good (fst (alloc_obj h (AResolved r ls v inf))).
Proof.
  intros h r ls v inf (N & O & W) Hr. unfold alloc_obj. simpl.
  assert (X : forall j o, nth_error (objs h ++ [AResolved r ls v inf]) j = Some o ->
                          nth_error (objs h) j = Some o \/ o = AResolved r ls v inf).
  { intros j o Hj. destruct (Nat.lt_ge_cases j (length (objs h))) as [Hl|Hl].
    - rewrite nth_error_app1 in Hj by exact Hl. auto.
    - rewrite nth_error_app2 in Hj by exact Hl. destruct (j - length (objs h)) as [|k]; simpl in Hj.
      + inversion Hj. auto. + destruct k; discriminate. }
  split; [|split].
  - intros j s v' off f post Hj. simpl in Hj. apply X in Hj. destruct Hj as [Hj|Hj]; [eapply N; eauto|discriminate].
  - intros j h0 post Hj. simpl in Hj. apply X in Hj. destruct Hj as [Hj|Hj]; [eapply O; eauto|discriminate].
  - intros j r' ls' v' inf' Hj. simpl in *. apply X in Hj. destruct Hj as [Hj|Hj]; [eapply W; eauto|].
    inversion Hj; subst. exact Hr.
Qed.

Lemma good_alloc_obj_pending : forall h h0, good h ->
  match h0 with HResult _ => True | HWrapRelabel s _ => s < length (objs h) | HWrapChangeVt _ _ _ _ => False end ->
  good (fst (alloc_obj h (APending h0 []))).
Proof.
  intros h h0 (N & O & W) Hh. unfold alloc_obj. simpl.
  assert (X : forall j o, nth_error (objs h ++ [APending h0 []]) j = Some o ->
                          nth_error (objs h) j = Some o \/ (o = APending h0 [] /\ j = length (objs h))).
  { intros j o Hj. destruct (Nat.lt_ge_cases j (length (objs h))) as [Hl|Hl].
    - rewrite nth_error_app1 in Hj by exact Hl. auto.
    - rewrite nth_error_app2 in Hj by exact Hl. destruct (j - length (objs h)) as [|k] eqn:Hk; simpl in Hj.
      + inversion Hj. right. split; [reflexivity|lia]. + destruct k; discriminate. }
  split; [|split].
  - intros j s v' off f post Hj. simpl in Hj. apply X in Hj. destruct Hj as [Hj|[Hj _]]; [eapply N; eauto|].
    inversion Hj; subst. exact Hh.
  - intros j h0' post Hj. simpl in Hj. apply X in Hj. destruct Hj as [Hj|[Hj Hl]]; [eapply O; eauto|].
    inversion Hj; subst. destruct h0; auto. contradiction.
  - intros j r' ls' v' inf' Hj. simpl in *. apply X in Hj. destruct Hj as [Hj|[Hj _]]; [eapply W; eauto|discriminate].
Qed.

Lemma good_resolve : forall fuel h i h' ok, good h -> aresolve fuel h i = (h', ok) -> good h'.
Proof.
  intros fuel h i h' ok (N & O & W) H. destruct (aresolve_grows _ _ _ _ _ N O H) as [G _].
  split; [eapply no_chvt_grows; eauto|]. split; [eapply ordered_grows; eauto|]. eapply aresolve_wf; eauto.
Qed.

Lemma view_alloc_obj : forall h o j s, view h j = Some s -> view (fst (alloc_obj h o)) j = Some s.
Proof.
  intros h o j s V. unfold view, alloc_obj in *. simpl.
  destruct (nth_error (objs h) j) as [x|] eqn:Hj; [|discriminate].
  rewrite (nth_error_snoc_old _ _ _ _ Hj). exact V.
Qed.

Lemma view_alloc_cell : forall h c j s, wf h -> view h j = Some s -> view (fst (alloc_cell h c)) j = Some s.
Proof. intros h c j s W V. eapply view_grows; [apply grows_alloc_cell|exact W|exact V]. Qed.

(* relabel_variables (any receiver state, in place or not) never alters the data of any sample set, and
   alters the labels of the receiver of an in-place call only *)
Theorem relabel_call_frame : forall h i m b offf h' ret,
  good h -> acall h i (DRelabel m b) offf = (h', ret) ->
  good h' /\ kept h h' (if b then Some i else None).
Proof.
  intros h i m b offf h' ret Gd H. unfold acall in H.
  destruct (adone (S (length (objs h))) h i).
  - destruct (aresolve (S (length (objs h))) h i) as [h1 ok] eqn:Hr.
    pose proof (good_resolve _ _ _ _ _ Gd Hr) as Gd1.
    assert (V1 : forall j s, view h j = Some s -> view h1 j = Some s).
    { destruct Gd as (N & O & W). intros j s. eapply resolve_keeps_views; eauto. }
    destruct ok; simpl in H; [|inversion H; subst; split; [exact Gd1|apply kept_same; exact V1]].
    destruct (nth_error (objs h1) i) as [[r ls v inf|h0 post]|] eqn:Hi;
      [|inversion H; subst; split; [exact Gd1|apply kept_same; exact V1]
       |inversion H; subst; split; [exact Gd1|apply kept_same; exact V1]].
    destruct Gd1 as (N1 & O1 & W1).
    assert (Hr1 : r < length (cells h1)) by (eapply W1; eauto).
    destruct b.
    + (* in place *)
      destruct (relabel_labels m ls) as [ls'|]; inversion H; subst;
        [|split; [repeat split; assumption|apply kept_same; exact V1]].
      split.
      * split; [|split].
        -- intros j s v' off f post Hj. unfold set_obj in Hj. simpl in Hj.
           destruct (Nat.eq_dec i j) as [->|Hn].
           ++ rewrite nth_error_lset_same in Hj by (apply nth_error_Some; congruence). discriminate.
           ++ rewrite nth_error_lset_other in Hj by exact Hn. eapply N1; eauto.
        -- intros j h0 post Hj. unfold set_obj in Hj. simpl in Hj.
           destruct (Nat.eq_dec i j) as [->|Hn].
           ++ rewrite nth_error_lset_same in Hj by (apply nth_error_Some; congruence). discriminate.
           ++ rewrite nth_error_lset_other in Hj by exact Hn. eapply O1; eauto.
        -- apply wf_set_obj; assumption.
      * intros j s V. apply V1 in V. unfold view, set_obj in *. simpl.
        destruct (Nat.eq_dec i j) as [->|Hn].
        -- rewrite nth_error_lset_same by (apply nth_error_Some; congruence). rewrite Hi in V. inversion V; subst.
           eexists. split; [reflexivity|]. simpl. repeat split; auto.
        -- rewrite nth_error_lset_other by exact Hn. exists s. repeat split; auto.
    + (* a relabelled copy *)
      destruct (relabel_labels m ls) as [ls'|]; [|inversion H; subst; split; [repeat split; assumption|apply kept_same; exact V1]].
      unfold copy_cell in H.
      set (h2 := fst (alloc_cell h1 (get_cell h1 r))) in *.
      assert (Gd2 : good h2).
      { split; [eapply no_chvt_grows; [apply grows_alloc_cell|exact N1]|].
        split; [eapply ordered_grows; [apply grows_alloc_cell|exact O1]|].
        eapply wf_ext; [exact W1|reflexivity|exists [get_cell h1 r]; reflexivity]. }
      unfold alloc_cell in H. simpl in H. inversion H; subst.
      split.
      * apply (good_alloc_obj_resolved h2 (length (cells h1)) ls' v inf Gd2).
        subst h2. simpl. rewrite app_length. simpl. lia.
      * apply kept_same. intros j s V. apply V1 in V.
        apply (view_alloc_obj h2). subst h2. apply view_alloc_cell; assumption.
  - destruct (nth_error (objs h) i) as [[r ls v inf|h0 post]|] eqn:Hi;
      [inversion H; subst; split; [exact Gd|apply kept_same; auto]| |inversion H; subst; split; [exact Gd|apply kept_same; auto]].
    destruct Gd as (N & O & W).
    destruct b; inversion H; subst.
    + (* hook composed on the receiver *)
      split.
      * split; [|split].
        -- intros j s v' off f post' Hj. unfold set_obj in Hj. simpl in Hj.
           destruct (Nat.eq_dec i j) as [->|Hn].
           ++ rewrite nth_error_lset_same in Hj by (apply nth_error_Some; congruence). inversion Hj; subst. eapply N; eauto.
           ++ rewrite nth_error_lset_other in Hj by exact Hn. eapply N; eauto.
        -- intros j h0' post' Hj. unfold set_obj in Hj. simpl in Hj.
           destruct (Nat.eq_dec i j) as [->|Hn].
           ++ rewrite nth_error_lset_same in Hj by (apply nth_error_Some; congruence). inversion Hj; subst. eapply O; eauto.
           ++ rewrite nth_error_lset_other in Hj by exact Hn. eapply O; eauto.
        -- intros j r' ls' v' inf' Hj. unfold set_obj in Hj. simpl in *.
           destruct (Nat.eq_dec i j) as [->|Hn].
           ++ rewrite nth_error_lset_same in Hj by (apply nth_error_Some; congruence). discriminate.
           ++ rewrite nth_error_lset_other in Hj by exact Hn. eapply W; eauto.
      * apply kept_same. intros j s V. unfold view, set_obj in *. simpl.
        destruct (Nat.eq_dec i j) as [->|Hn]; [rewrite Hi in V; discriminate|].
        rewrite nth_error_lset_other by exact Hn. exact V.
    + (* a new unresolved wrapper *)
      split.
      * apply (good_alloc_obj_pending h (HWrapRelabel i m)); [repeat split; assumption|].
        apply nth_error_Some. congruence.
      * apply kept_same. intros j s V. apply (view_alloc_obj h). exact V.
Qed.

(* ---------- whole histories of relabel_variables calls ---------- *)
Fixpoint arun (h : aheap) (l : list aev) : aheap :=
  match l with [] => h | e :: r => arun (fst (astep h e)) r end.

Lemma good_empty : good aempty.
Proof.
  split; [|split].
  - intros j s v off f post Hj. destruct j; discriminate.
  - intros j h0 post Hj. destruct j; discriminate.
  - intros j r ls v inf Hj. destruct j; discriminate.
Qed.

Lemma astep_frame : forall h e, good h -> is_relabel_ev e = true ->
  good (fst (astep h e)) /\ kept h (fst (astep h e)) (ev_receiver e).
Proof.
  intros h e Gd R. destruct e as [s ei sn|b| |i c offf ret|i ok]; unfold astep.
  - (* a new sample set *)
    simpl.
    set (c := {| crows := rws s; cfields := fields s; eint := ei; snarrow := sn |}).
    assert (Gd2 : good (fst (alloc_cell h c))).
    { destruct Gd as (N & O & W).
      split; [eapply no_chvt_grows; [apply grows_alloc_cell|exact N]|].
      split; [eapply ordered_grows; [apply grows_alloc_cell|exact O]|].
      eapply wf_ext; [exact W|reflexivity|exists [c]; reflexivity]. }
    split.
    + apply (good_alloc_obj_resolved (fst (alloc_cell h c)) (length (cells h)) (labels s) (vt s) (info s) Gd2).
      simpl. rewrite app_length. simpl. lia.
    + apply kept_same. intros j s0 V. apply (view_alloc_obj (fst (alloc_cell h c))).
      apply view_alloc_cell; [apply Gd|exact V].
  - simpl. split.
    + apply (good_alloc_obj_pending h (HResult b) Gd). exact I.
    + apply kept_same. intros j s V. apply (view_alloc_obj h). exact V.
  - simpl. split; [|apply kept_same; auto]. destruct Gd as (N & O & W). split; [|split]; assumption.
  - destruct c as [m b|v off b]; [|discriminate].
    destruct (acall h i (DRelabel m b) offf) as [h1 r] eqn:Hc. simpl.
    destruct (relabel_call_frame _ _ _ _ _ _ _ Gd Hc) as [G1 K]. split; [exact G1|].
    destruct b; [exact K|]. intros j s V. destruct (K j s V) as (s' & A & B & C & D & E & [F|F]); [|discriminate].
    exists s'. repeat split; auto.
  - destruct (aresolve (S (length (objs h))) h i) as [h1 b] eqn:Hr. simpl.
    split; [eapply good_resolve; eauto|]. apply kept_same. intros j s V.
    destruct Gd as (N & O & W). eapply resolve_keeps_views; eauto.
Qed.

Definition never_receiver (j : nat) (l : list aev) : Prop := forall e, In e l -> ev_receiver e <> Some j.

(* Over ANY history of from_future / set_result / relabel_variables (in place or not, before or after the
   result exists) / reads: a sample set, once it can be read, keeps its rows, vartype, info and data
   vectors for ever, and keeps its labels unless it is itself the receiver of an in-place relabel. In
   particular the future's own result object and a second sample set built from the same future are never
   altered through another handle. *)
Theorem relabel_history_frame : forall l h, good h -> forallb is_relabel_ev l = true ->
  good (arun h l) /\
  forall j s, view h j = Some s ->
    exists s', view (arun h l) j = Some s' /\ rws s' = rws s /\ vt s' = vt s /\ info s' = info s /\ fields s' = fields s
               /\ (never_receiver j l -> labels s' = labels s).
Proof.
  induction l as [|e l IH]; intros h Gd R.
  - split; [exact Gd|]. intros j s V. exists s. repeat split; auto.
  - simpl in R. apply andb_prop in R. destruct R as [Re Rl].
    destruct (astep_frame h e Gd Re) as [G1 K].
    destruct (IH _ G1 Rl) as [G2 F]. split; [exact G2|].
    intros j s V. destruct (K j s V) as (s1 & V1 & A1 & B1 & C1 & D1 & E1).
    destruct (F j s1 V1) as (s2 & V2 & A2 & B2 & C2 & D2 & E2).
    exists s2. simpl. split; [exact V2|]. repeat split; try congruence.
    intro NR. rewrite E2.
    + destruct E1 as [E1|E1]; [exact E1|]. exfalso. apply (NR e); [left; reflexivity|exact E1].
    + intros e' He'. apply NR. right. exact He'.
Qed.

(* the future's result object (object 0 of a history that starts by creating it) *)
Corollary future_result_never_altered_by_relabel : forall s ei sn l,
  forallb is_relabel_ev l = true -> never_receiver 0 l ->
  view (arun aempty (ENewObj s ei sn :: l)) 0 = Some s.
Proof.
  intros s ei sn l R NR.
  destruct (astep_frame aempty (ENewObj s ei sn) good_empty eq_refl) as [G1 _].
  assert (V0 : view (fst (astep aempty (ENewObj s ei sn))) 0 = Some s) by (destruct s; reflexivity).
  destruct (relabel_history_frame l _ G1 R) as [_ F].
  destruct (F 0 s V0) as (s' & V & A & B & C & D & E).
  simpl. simpl in V. rewrite V. f_equal. specialize (E NR).
  destruct s, s'; simpl in *; congruence.
Qed.

(* ---------- inplace=False on a resolved receiver: an independent copy (C19) ---------- *)
Definition old_untouched (h h' : aheap) : Prop :=
  (forall k, k < length (objs h) -> nth_error (objs h') k = nth_error (objs h) k)
  /\ (forall r, r < length (cells h) -> nth_error (cells h') r = nth_error (cells h) r).

Lemma nth_error_lset_lt : forall {A} (l : list A) i j x, i <> j -> nth_error (lset l i x) j = nth_error l j.
Proof. intros. apply nth_error_lset_other. assumption. Qed.

(* an in-place change_vartype on an object whose record is a cell beyond L and whose index is beyond M touches
   no object below M and no cell below L, and the object's record stays beyond L *)
Lemma chvt_inplace_local : forall h j v off offf h' raised L M r ls cur inf,
  nth_error (objs h) j = Some (AResolved r ls cur inf) -> L <= r -> r < length (cells h) -> M <= j ->
  chvt_inplace h j v off offf = (h', raised) ->
  (forall k, k < M -> nth_error (objs h') k = nth_error (objs h) k)
  /\ (forall r', r' < L -> nth_error (cells h') r' = nth_error (cells h) r')
  /\ length (objs h') = length (objs h)
  /\ exists r2 ls2 v2 inf2, nth_error (objs h') j = Some (AResolved r2 ls2 v2 inf2) /\ L <= r2.
Proof.
  intros h j v off offf h' raised L M r ls cur inf Hj HL Hr HM H.
  unfold chvt_inplace in H. rewrite Hj in H.
  assert (Hjl : j < length (objs h)) by (apply nth_error_Some; congruence).
  (* stage 1 *)
  match type of H with (let '(h1, r1) := ?X in _) = _ => destruct X as [h1 r1] eqn:S1 end.
  assert (P1 : (forall k, k < M -> nth_error (objs h1) k = nth_error (objs h) k)
               /\ (forall r', r' < L -> nth_error (cells h1) r' = nth_error (cells h) r')
               /\ length (objs h1) = length (objs h)
               /\ nth_error (objs h1) j = Some (AResolved r1 ls cur inf) /\ L <= r1 /\ r1 < length (cells h1)).
  { destruct (Qc_eqb off 0).
    - inversion S1; subst. repeat split; auto.
    - destruct (eint (get_cell h r) && offf).
      + unfold alloc_cell in S1. inversion S1; subst. unfold set_obj. simpl.
        split; [intros k Hk; apply nth_error_lset_other; lia|].
        split; [intros r' Hr'; apply nth_error_app1; lia|].
        split; [apply length_lset|].
        split; [apply nth_error_lset_same; exact Hjl|]. rewrite app_length. simpl. lia.
      + inversion S1; subst. unfold set_cell. simpl.
        split; [auto|]. split; [intros r' Hr'; apply nth_error_lset_other; lia|].
        split; [reflexivity|]. split; [exact Hj|]. rewrite length_lset. lia. }
  destruct P1 as (A1 & B1 & C1 & D1 & E1 & F1).
  assert (Hjl1 : j < length (objs h1)) by lia.
  destruct (vartype_eqb v cur).
  { inversion H; subst. split; [exact A1|]. split; [exact B1|]. split; [exact C1|]. eauto 8. }
  destruct v, cur; try solve [inversion H; subst; split; [exact A1|]; split; [exact B1|]; split; [exact C1|]; eauto 8].
  - (* BINARY from SPIN *)
    inversion H; subst. unfold set_obj, set_cell. simpl.
    split; [intros k Hk; rewrite nth_error_lset_other by lia; apply A1; exact Hk|].
    split; [intros r' Hr'; rewrite nth_error_lset_other by lia; apply B1; exact Hr'|].
    split; [rewrite length_lset; exact C1|].
    exists r1, ls, BINARY, inf. split; [apply nth_error_lset_same; exact Hjl1|exact E1].
  - (* SPIN from BINARY *)
    destruct (snarrow (get_cell h1 r1)).
    + unfold alloc_cell in H. inversion H; subst. unfold set_obj. simpl.
      split; [intros k Hk; rewrite nth_error_lset_other by lia; apply A1; exact Hk|].
      split; [intros r' Hr'; rewrite nth_error_app1 by lia; apply B1; exact Hr'|].
      split; [rewrite length_lset; exact C1|].
      exists (length (cells h1)), ls, SPIN, inf. split; [apply nth_error_lset_same; exact Hjl1|lia].
    + inversion H; subst. unfold set_obj, set_cell. simpl.
      split; [intros k Hk; rewrite nth_error_lset_other by lia; apply A1; exact Hk|].
      split; [intros r' Hr'; rewrite nth_error_lset_other by lia; apply B1; exact Hr'|].
      split; [rewrite length_lset; exact C1|].
      exists r1, ls, SPIN, inf. split; [apply nth_error_lset_same; exact Hjl1|exact E1].
Qed.

(* relabel_variables / change_vartype with inplace=False on a resolved sample set: the receiver and every
   other existing object and record are untouched, and the returned object is new and owns a record that no
   existing object refers to *)
Theorem copy_call_independent : forall h i c offf h' j r ls v inf,
  wf h -> nth_error (objs h) i = Some (AResolved r ls v inf) -> dcall_inplace c = false ->
  acall h i c offf = (h', Some j) ->
  j = length (objs h) /\ old_untouched h h'
  /\ exists rj ls' v' inf', nth_error (objs h') j = Some (AResolved rj ls' v' inf') /\ length (cells h) <= rj.
Proof.
  intros h i c offf h' j r ls v inf W Hi Hc H. unfold acall in H.
  assert (D : adone (S (length (objs h))) h i = true) by (simpl; rewrite Hi; reflexivity).
  assert (R : aresolve (S (length (objs h))) h i = (h, true)) by (simpl; rewrite Hi; reflexivity).
  rewrite D, R in H. simpl negb in H. cbv iota in H. rewrite Hi in H.
  assert (Hr : r < length (cells h)) by (eapply W; eauto).
  destruct c as [m b|v' off b]; simpl in Hc; subst b.
  - destruct (relabel_labels m ls) as [ls'|]; [|discriminate].
    unfold copy_cell, alloc_cell, alloc_obj in H. simpl in H. inversion H; subst.
    split; [reflexivity|]. split.
    + split; simpl; intros k Hk; apply nth_error_app1; exact Hk.
    + exists (length (cells h)), ls', v, inf. simpl. split; [|lia].
      rewrite nth_error_app2 by lia. rewrite Nat.sub_diag. reflexivity.
  - unfold copy_cell, alloc_cell, alloc_obj in H. simpl fst in H. simpl snd in H. cbv beta iota in H.
    match type of H with (let '(h4, raised) := chvt_inplace ?hh ?jj _ _ _ in _) = _ =>
      destruct (chvt_inplace hh jj v' off offf) as [h4 raised] eqn:Hch end.
    destruct raised; [discriminate|]. inversion H; subst.
    eapply (chvt_inplace_local _ _ _ _ _ _ _ (length (cells h)) (length (objs h))) in Hch.
    + destruct Hch as (A & B & C & (r2 & ls2 & v2 & inf2 & E & F)). simpl in *.
      split; [reflexivity|]. split.
      * split.
        -- intros k Hk. rewrite A by exact Hk. apply nth_error_app1. exact Hk.
        -- intros r' Hr'. rewrite B by exact Hr'. apply nth_error_app1. exact Hr'.
      * eauto 8.
    + simpl. rewrite nth_error_app2 by lia. rewrite Nat.sub_diag. reflexivity.
    + lia.
    + simpl. rewrite app_length. simpl. lia.
    + simpl. lia.
Qed.

(* on genuine spin values the code's floor division is the exact affine map of the specification *)
Lemma floor_half_code_on_spins : forall x : Qc, x = 1%Qc \/ x = (- (1))%Qc -> floor_half_code x = ((x + 1) * half)%Qc.
Proof. intros x [->| ->]; apply Qc_is_canon; vm_compute; reflexivity. Qed.

(* an in-place change_vartype writes at most ONE existing record cell - the receiver's own - and changes no
   object but the receiver (general form of chvt_inplace_local) *)
Theorem chvt_inplace_writes_own_record_only : forall h i v off offf h' raised r ls cur inf,
  nth_error (objs h) i = Some (AResolved r ls cur inf) ->
  chvt_inplace h i v off offf = (h', raised) ->
  (forall k, k <> i -> nth_error (objs h') k = nth_error (objs h) k)
  /\ (forall r', r' <> r -> r' < length (cells h) -> nth_error (cells h') r' = nth_error (cells h) r').
Proof.
  intros h i v off offf h' raised r ls cur inf Hi H.
  unfold chvt_inplace in H. rewrite Hi in H.
  assert (Hil : i < length (objs h)) by (apply nth_error_Some; congruence).
  match type of H with (let '(h1, r1) := ?X in _) = _ => destruct X as [h1 r1] eqn:S1 end.
  assert (P1 : (forall k, k <> i -> nth_error (objs h1) k = nth_error (objs h) k)
               /\ (forall r', r' <> r -> r' < length (cells h) -> nth_error (cells h1) r' = nth_error (cells h) r')
               /\ length (objs h1) = length (objs h) /\ length (cells h) <= length (cells h1)
               /\ (r1 = r \/ length (cells h) <= r1)).
  { destruct (Qc_eqb off 0).
    - inversion S1; subst. repeat split; auto.
    - destruct (eint (get_cell h r) && offf).
      + unfold alloc_cell in S1. inversion S1; subst. unfold set_obj. simpl.
        split; [intros k Hk; apply nth_error_lset_other; congruence|].
        split; [intros r' _ Hr'; apply nth_error_app1; exact Hr'|].
        split; [apply length_lset|]. rewrite app_length. simpl. split; [lia|]. right. lia.
      + inversion S1; subst. unfold set_cell. simpl.
        split; [auto|]. split; [intros r' Hn _; apply nth_error_lset_other; congruence|].
        split; [reflexivity|]. rewrite length_lset. split; [lia|]. left. reflexivity. }
  destruct P1 as (A1 & B1 & C1 & D1 & E1).
  destruct (vartype_eqb v cur); [inversion H; subst; split; assumption|].
  destruct v, cur; try solve [inversion H; subst; split; assumption].
  - (* BINARY from SPIN *)
    inversion H; subst. unfold set_obj, set_cell. simpl.
    split; [intros k Hk; rewrite nth_error_lset_other by congruence; apply A1; exact Hk|].
    intros r' Hn Hr'. rewrite nth_error_lset_other; [apply B1; assumption|]. destruct E1; lia.
  - (* SPIN from BINARY *)
    destruct (snarrow (get_cell h1 r1)).
    + unfold alloc_cell in H. inversion H; subst. unfold set_obj. simpl.
      split; [intros k Hk; rewrite nth_error_lset_other by congruence; apply A1; exact Hk|].
      intros r' Hn Hr'. rewrite nth_error_app1 by lia. apply B1; assumption.
    + inversion H; subst. unfold set_obj, set_cell. simpl.
      split; [intros k Hk; rewrite nth_error_lset_other by congruence; apply A1; exact Hk|].
      intros r' Hn Hr'. rewrite nth_error_lset_other; [apply B1; assumption|]. destruct E1; lia.
Qed.

(* ... but the receiver's own record may be the FUTURE'S RESULT RECORD: as the code is, converting a sample set built by
   from_future in place rewrites the samples of the future's result object (whose vartype tag stays), and of every
   other sample set built from the same future.  Stated on the faithful model; the implementation shows the same
   (feature future_result_altered of the alias stream). *)
Theorem future_result_altered_by_inplace_change_vartype_witness :
  exists s l, view (arun aempty (ENewObj s false false :: l)) 0 <> Some s
              /\ forall e, In e l -> ev_receiver e <> Some 0.
Proof.
  exists (mkSS [0] SPIN [mkRow [1%Qc] 0%Qc 1%Z 0 []; mkRow [(- (1))%Qc] 0%Qc 1%Z 1 []] 0 []).
  exists [EFromFuture 0; ESetResult; ECall 1 (DChangeVt BINARY 0%Qc true) false (Some 1)].
  split.
  - vm_compute. intro H. inversion H.
  - intros e [<-|[<-|[<-|[]]]]; simpl; discriminate.
Qed.

(* the relabels composed on an unresolved sample set resolve, in the heap model, to exactly what the value-level
   `resolve` of Model/SSet.v (the DeferCase reading: the same relabels applied to the resolved set, one after the
   other) gives - same labels, same raising - over an equal but separate record *)
Lemma get_cell_copy : forall h r, get_cell (fst (copy_cell h r)) (snd (copy_cell h r)) = get_cell h r.
Proof.
  intros h r. unfold copy_cell, alloc_cell, get_cell. simpl. rewrite app_nth2 by lia. rewrite Nat.sub_diag. reflexivity.
Qed.

Theorem run_post_is_resolve : forall K post h r ls v inf,
  let c := get_cell h r in
  let s0 := mkSS ls v (crows c) inf (cfields c) in
  match run_post h r ls post with
  | (h', Some (r2, ls2)) => get_cell h' r2 = c /\ resolve K (map ORelabel post) s0 = Some (mkSS ls2 v (crows c) inf (cfields c))
  | (_, None) => resolve K (map ORelabel post) s0 = None
  end.
Proof.
  intros K post. induction post as [|m rest IH]; intros h r ls v inf; cbn zeta.
  - simpl. split; reflexivity.
  - cbn [run_post map resolve apply]. unfold relabel_ss, relabel_labels. cbn [labels].
    destruct (relabel_valid m ls).
    + pose proof (get_cell_copy h r) as G. destruct (copy_cell h r) as [h1 r1]. cbn [fst snd] in G.
      specialize (IH h1 r1 (map (subst_label m) ls) v inf). cbn zeta in IH. rewrite G in IH.
      cbn [vt rws info fields]. exact IH.
    + destruct (copy_cell h r) as [h1 r1]. reflexivity.
Qed.

(* C14, last clause, on the heap: a sample set built by from_future on which relabel_variables(inplace=True) was
   called any number of times while unresolved shows, once resolved, exactly what the same relabels give on the
   future's result (`resolve`), and raises exactly when they raise *)
Theorem pending_relabels_resolve_like_resolved : forall K fuel h i b post r ls v inf,
  futdone h = true ->
  nth_error (objs h) i = Some (APending (HResult b) post) ->
  nth_error (objs h) b = Some (AResolved r ls v inf) ->
  let base := mkSS ls v (crows (get_cell h r)) inf (cfields (get_cell h r)) in
  match resolve K (map ORelabel post) base with
  | Some s => exists h', aresolve (S fuel) h i = (h', true) /\ view h' i = Some s
  | None => exists h', aresolve (S fuel) h i = (h', false)
  end.
Proof.
  intros K fuel h i b post r ls v inf Fd Hi Hb. cbn zeta.
  pose proof (run_post_is_resolve K post h r ls v inf) as RP. cbn zeta in RP.
  cbn [aresolve]. rewrite Hi, Fd, Hb.
  destruct (run_post h r ls post) as [h2 [[r2 ls2]|]] eqn:Hp.
  - destruct RP as [G R]. rewrite R. eexists. split; [reflexivity|].
    unfold view, set_obj. simpl.
    rewrite nth_error_lset_same.
    + unfold get_cell in *. simpl. rewrite G. reflexivity.
    + rewrite (run_post_objs _ _ _ _ _ _ Hp). apply nth_error_Some. congruence.
  - rewrite RP. eexists. reflexivity.
Qed.

(* ---------- histories with copies by change_vartype(inplace=False) as well ---------- *)
Lemma chvt_inplace_shape : forall h i v off offf h' raised r ls cur inf,
  nth_error (objs h) i = Some (AResolved r ls cur inf) -> r < length (cells h) ->
  chvt_inplace h i v off offf = (h', raised) ->
  length (cells h) <= length (cells h') /\ length (objs h') = length (objs h)
  /\ exists r2 ls2 v2 inf2, nth_error (objs h') i = Some (AResolved r2 ls2 v2 inf2) /\ r2 < length (cells h').
Proof.
  intros h i v off offf h' raised r ls cur inf Hi Hr H.
  unfold chvt_inplace in H. rewrite Hi in H.
  assert (Hil : i < length (objs h)) by (apply nth_error_Some; congruence).
  match type of H with (let '(h1, r1) := ?X in _) = _ => destruct X as [h1 r1] eqn:S1 end.
  assert (P1 : length (cells h) <= length (cells h1) /\ length (objs h1) = length (objs h)
               /\ nth_error (objs h1) i = Some (AResolved r1 ls cur inf) /\ r1 < length (cells h1)).
  { destruct (Qc_eqb off 0).
    - inversion S1; subst. repeat split; auto.
    - destruct (eint (get_cell h r) && offf).
      + unfold alloc_cell in S1. inversion S1; subst. unfold set_obj. simpl.
        rewrite app_length, length_lset. simpl. split; [lia|]. split; [reflexivity|].
        split; [apply nth_error_lset_same; exact Hil|lia].
      + inversion S1; subst. unfold set_cell. simpl. rewrite length_lset. repeat split; auto. }
  destruct P1 as (A1 & B1 & C1 & D1).
  assert (Hil1 : i < length (objs h1)) by lia.
  destruct (vartype_eqb v cur); [inversion H; subst; split; [exact A1|]; split; [exact B1|]; eauto 8|].
  destruct v, cur; try solve [inversion H; subst; split; [exact A1|]; split; [exact B1|]; eauto 8].
  - inversion H; subst. unfold set_obj, set_cell. simpl. rewrite !length_lset.
    split; [exact A1|]. split; [exact B1|].
    exists r1, ls, BINARY, inf. split; [apply nth_error_lset_same; exact Hil1|exact D1].
  - destruct (snarrow (get_cell h1 r1)).
    + unfold alloc_cell in H. inversion H; subst. unfold set_obj. simpl. rewrite app_length, length_lset. simpl.
      split; [lia|]. split; [exact B1|].
      exists (length (cells h1)), ls, SPIN, inf. split; [apply nth_error_lset_same; exact Hil1|lia].
    + inversion H; subst. unfold set_obj, set_cell. simpl. rewrite !length_lset.
      split; [exact A1|]. split; [exact B1|].
      exists r1, ls, SPIN, inf. split; [apply nth_error_lset_same; exact Hil1|exact D1].
Qed.

Lemma good_chvt_inplace : forall h i v off offf h' raised r ls cur inf,
  good h -> nth_error (objs h) i = Some (AResolved r ls cur inf) ->
  chvt_inplace h i v off offf = (h', raised) -> good h'.
Proof.
  intros h i v off offf h' raised r ls cur inf (N & O & W) Hi H.
  destruct (chvt_inplace_writes_own_record_only _ _ _ _ _ _ _ _ _ _ _ Hi H) as [A _].
  destruct (chvt_inplace_shape _ _ _ _ _ _ _ _ _ _ _ Hi (W _ _ _ _ _ Hi) H) as (L1 & L2 & r2 & ls2 & v2 & inf2 & E & F).
  split; [|split].
  - intros k s v' off' f post Hk. destruct (Nat.eq_dec k i) as [->|Hn]; [congruence|].
    rewrite (A k Hn) in Hk. eapply N; eauto.
  - intros k h0 post Hk. destruct (Nat.eq_dec k i) as [->|Hn]; [congruence|].
    rewrite (A k Hn) in Hk. eapply O; eauto.
  - intros k r' ls' v' inf' Hk. destruct (Nat.eq_dec k i) as [->|Hn].
    + rewrite E in Hk. inversion Hk; subst. exact F.
    + rewrite (A k Hn) in Hk. apply W in Hk. lia.
Qed.

Definition is_copy_ev (e : aev) : bool :=
  match e with ECall _ (DChangeVt _ _ true) _ _ => false | _ => true end.

(* change_vartype(inplace=False), whatever the state of the receiver: every readable sample set stays as it is *)
Lemma chvt_copy_call_frame : forall h i v off offf h' ret,
  good h -> acall h i (DChangeVt v off false) offf = (h', ret) ->
  good h' /\ kept h h' None.
Proof.
  intros h i v off offf h' ret Gd H. unfold acall in H.
  destruct (adone (S (length (objs h))) h i).
  - destruct (aresolve (S (length (objs h))) h i) as [h1 ok] eqn:Hr.
    pose proof (good_resolve _ _ _ _ _ Gd Hr) as Gd1.
    assert (V1 : forall j s, view h j = Some s -> view h1 j = Some s).
    { destruct Gd as (N & O & W). intros j s. eapply resolve_keeps_views; eauto. }
    destruct ok; simpl in H; [|inversion H; subst; split; [exact Gd1|apply kept_same; exact V1]].
    destruct (nth_error (objs h1) i) as [[r ls cur inf|h0 post]|] eqn:Hi;
      [|inversion H; subst; split; [exact Gd1|apply kept_same; exact V1]
       |inversion H; subst; split; [exact Gd1|apply kept_same; exact V1]].
    assert (Hr1 : r < length (cells h1)) by (destruct Gd1 as (_ & _ & W1); eapply W1; eauto).
    unfold copy_cell, alloc_cell, alloc_obj in H. simpl fst in H. simpl snd in H. cbv beta iota in H.
    set (h3 := {| cells := cells h1 ++ [get_cell h1 r];
                  objs := objs h1 ++ [AResolved (length (cells h1)) ls cur inf]; futdone := futdone h1 |}) in *.
    assert (Gd3 : good h3).
    { assert (Gd2 : good (fst (alloc_cell h1 (get_cell h1 r)))).
      { destruct Gd1 as (N1 & O1 & W1).
        split; [eapply no_chvt_grows; [apply grows_alloc_cell|exact N1]|].
        split; [eapply ordered_grows; [apply grows_alloc_cell|exact O1]|].
        eapply wf_ext; [exact W1|reflexivity|exists [get_cell h1 r]; reflexivity]. }
      apply (good_alloc_obj_resolved _ (length (cells h1)) ls cur inf Gd2). simpl. rewrite app_length. simpl. lia. }
    assert (Hj3 : nth_error (objs h3) (length (objs h1)) = Some (AResolved (length (cells h1)) ls cur inf)).
    { subst h3. simpl. rewrite nth_error_app2 by lia. rewrite Nat.sub_diag. reflexivity. }
    destruct (chvt_inplace h3 (length (objs h1)) v off offf) as [h4 raised] eqn:Hch.
    destruct raised; inversion H; subst; [split; [exact Gd1|apply kept_same; exact V1]|].
    split; [eapply good_chvt_inplace; eauto|].
    apply kept_same. intros j s V. apply V1 in V.
    (* old objects and old cells are untouched by the conversion of the fresh copy *)
    assert (L : forall k, k < length (objs h1) -> nth_error (objs h') k = nth_error (objs h1) k).
    { intros k Hk. eapply (chvt_inplace_local _ _ _ _ _ _ _ (length (cells h1)) (length (objs h1))) in Hch;
        [|exact Hj3|lia|subst h3; simpl; rewrite app_length; simpl; lia|lia].
      destruct Hch as (A & _). rewrite (A k Hk). subst h3. simpl. apply nth_error_app1. exact Hk. }
    assert (C : forall r', r' < length (cells h1) -> nth_error (cells h') r' = nth_error (cells h1) r').
    { intros r' Hr'. eapply (chvt_inplace_local _ _ _ _ _ _ _ (length (cells h1)) (length (objs h1))) in Hch;
        [|exact Hj3|lia|subst h3; simpl; rewrite app_length; simpl; lia|lia].
      destruct Hch as (_ & B & _). rewrite (B r' Hr'). subst h3. simpl. apply nth_error_app1. exact Hr'. }
    unfold view in *. destruct (nth_error (objs h1) j) as [[rj lsj vj infj|h0 post]|] eqn:Hj; try discriminate.
    assert (Hjl : j < length (objs h1)) by (apply nth_error_Some; congruence).
    rewrite (L j Hjl), Hj. rewrite <- V.
    assert (Hrj : rj < length (cells h1)) by (destruct Gd1 as (_ & _ & W1); eapply W1; eauto).
    assert (EQ : nth rj (cells h') cellz = nth rj (cells h1) cellz).
    { pose proof (C rj Hrj) as E. destruct (nth_error (cells h1) rj) as [c|] eqn:Ec.
      - rewrite (nth_error_nth _ _ cellz E), (nth_error_nth _ _ cellz Ec). reflexivity.
      - exfalso. apply nth_error_None in Ec. lia. }
    unfold get_cell. rewrite EQ. reflexivity.
  - destruct (nth_error (objs h) i) as [[r ls cur inf|h0 post]|];
      inversion H; subst; split; try exact Gd; apply kept_same; auto.
Qed.

Lemma astep_frame_copy : forall h e, good h -> is_copy_ev e = true ->
  good (fst (astep h e)) /\ kept h (fst (astep h e)) (ev_receiver e).
Proof.
  intros h e Gd R.
  destruct (is_relabel_ev e) eqn:Re; [apply astep_frame; assumption|].
  destruct e as [s ei sn|b| |i c offf ret|i ok]; try discriminate.
  destruct c as [m b|v off b]; [discriminate|]. destruct b; [discriminate|].
  unfold astep. destruct (acall h i (DChangeVt v off false) offf) as [h1 r] eqn:Hc. simpl.
  apply (chvt_copy_call_frame _ _ _ _ _ _ _ Gd Hc).
Qed.

(* Over ANY history of from_future / set_result / reads / relabel_variables (in place or not) / change_vartype with
   inplace=False - before or after the result exists, on any handle: a sample set, once it can be read, keeps its rows,
   vartype, info and data vectors for ever, and its labels unless it is the receiver of an in-place relabel.  (The only
   call excluded is change_vartype(inplace=True), which as the code is may write a shared record.) *)
Theorem copy_history_frame : forall l h, good h -> forallb is_copy_ev l = true ->
  good (arun h l) /\
  forall j s, view h j = Some s ->
    exists s', view (arun h l) j = Some s' /\ rws s' = rws s /\ vt s' = vt s /\ info s' = info s /\ fields s' = fields s
               /\ (never_receiver j l -> labels s' = labels s).
Proof.
  induction l as [|e l IH]; intros h Gd R.
  - split; [exact Gd|]. intros j s V. exists s. repeat split; auto.
  - simpl in R. apply andb_prop in R. destruct R as [Re Rl].
    destruct (astep_frame_copy h e Gd Re) as [G1 K].
    destruct (IH _ G1 Rl) as [G2 F]. split; [exact G2|].
    intros j s V. destruct (K j s V) as (s1 & V1 & A1 & B1 & C1 & D1 & E1).
    destruct (F j s1 V1) as (s2 & V2 & A2 & B2 & C2 & D2 & E2).
    exists s2. simpl. split; [exact V2|]. repeat split; try congruence.
    intro NR. rewrite E2.
    + destruct E1 as [E1|E1]; [exact E1|]. exfalso. apply (NR e); [left; reflexivity|exact E1].
    + intros e' He'. apply NR. right. exact He'.
Qed.

(* the wrapper returned by relabel_variables(inplace=False) on an unresolved receiver i (and relabelled in place any
   number of times afterwards) resolves to exactly what the same relabels give on the resolved receiver *)
Theorem pending_wrapper_resolves_like_resolved : forall K fuel h j i m post h1 r ls v inf,
  nth_error (objs h) j = Some (APending (HWrapRelabel i m) post) ->
  aresolve fuel h i = (h1, true) ->
  nth_error (objs h1) i = Some (AResolved r ls v inf) ->
  nth_error (objs h1) j = Some (APending (HWrapRelabel i m) post) ->
  let recv := mkSS ls v (crows (get_cell h1 r)) inf (cfields (get_cell h1 r)) in
  match resolve K (ORelabel m :: map ORelabel post) recv with
  | Some s => exists h', aresolve (S fuel) h j = (h', true) /\ view h' j = Some s
  | None => exists h', aresolve (S fuel) h j = (h', false)
  end.
Proof.
  intros K fuel h j i m post h1 r ls v inf Hj Hr Hi Hj1. cbn zeta.
  cbn [aresolve]. rewrite Hj, Hr, Hi.
  cbn [resolve apply]. unfold relabel_ss, relabel_labels. cbn [labels].
  pose proof (get_cell_copy h1 r) as G.
  destruct (copy_cell h1 r) as [h2 r2] eqn:Hc. cbn [fst snd] in G.
  destruct (relabel_valid m ls); [|eexists; reflexivity].
  pose proof (run_post_is_resolve K post h2 r2 (map (subst_label m) ls) v inf) as RP. cbn zeta in RP.
  rewrite G in RP. cbn [vt rws info fields].
  destruct (run_post h2 r2 (map (subst_label m) ls) post) as [h3 [[r3 ls3]|]] eqn:Hp.
  - destruct RP as [G3 R]. rewrite R. eexists. split; [reflexivity|].
    unfold view, set_obj. simpl. rewrite nth_error_lset_same.
    + unfold get_cell in *. simpl. rewrite G3. reflexivity.
    + rewrite (run_post_objs _ _ _ _ _ _ Hp).
      unfold copy_cell, alloc_cell in Hc. inversion Hc; subst. simpl. apply nth_error_Some. congruence.
  - rewrite RP. eexists. reflexivity.
Qed.
