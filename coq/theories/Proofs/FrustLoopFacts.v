(* C17 - frustrated_loop: every loop is frustrated (its minimum is -(L - 2), one edge violated), the planted
   all-(+1) assignment attains the minimum of EVERY loop, hence of their sum - for all loops, all positions of the
   anti-ferromagnetic edge, all spin assignments.  Also for plant_solution=False: any loop with an odd number of
   anti-ferromagnetic couplers has minimum >= -(L - 2). *)
From Coq Require Import List ZArith Lia.
From Dimod Require Import Model.FrustLoop.
Import ListNotations.
Open Scope Z_scope.

Lemma zprod_app a b : fl_zprod (a ++ b) = fl_zprod a * fl_zprod b.
Proof. unfold fl_zprod. induction a as [|x a IH]; cbn [app fold_right]; [ring|]. rewrite IH. ring. Qed.

Lemma zprod_prev s : fl_zprod (prev s) = fl_zprod s.
Proof.
  destruct s as [|x r]; [reflexivity|]. unfold prev.
  assert (Hne : x :: r <> []) by discriminate.
  rewrite (app_removelast_last 0 Hne) at 3. rewrite zprod_app.
  cbn [fl_zprod fold_right]. fold (fl_zprod (removelast (x :: r))). ring.
Qed.

Lemma zprod_combine_mul a : forall b, length a = length b ->
  fl_zprod (map (fun p => fst p * snd p) (combine a b)) = fl_zprod a * fl_zprod b.
Proof.
  induction a as [|x a IH]; intros [|y b] H; try discriminate H; [reflexivity|].
  cbn [combine map fl_zprod fold_right fst snd]. fold (fl_zprod (map (fun p => fst p * snd p) (combine a b))) (fl_zprod a) (fl_zprod b).
  rewrite IH by (injection H; auto). ring.
Qed.

Lemma zprod_pm1_sq s : Forall fl_pm1 s -> fl_zprod s * fl_zprod s = 1.
Proof.
  induction 1 as [|x s Hx _ IH]; [reflexivity|]. cbn [fl_zprod fold_right]. fold (fl_zprod s).
  replace (x * fl_zprod s * (x * fl_zprod s)) with (x * x * (fl_zprod s * fl_zprod s)) by ring. rewrite IH.
  destruct Hx as [-> | ->]; reflexivity.
Qed.

Lemma length_prev s : length (prev s) = length s.
Proof.
  destruct s as [|x r]; [reflexivity|]. unfold prev. cbn [length]. f_equal.
  assert (Hne : x :: r <> []) by discriminate.
  pose proof (f_equal (@length Z) (app_removelast_last 0 Hne)) as H. rewrite app_length in H. cbn [length] in H. lia.
Qed.

(* a closed walk: the product of the edge products is +1 *)
Theorem closed_walk s : Forall fl_pm1 s -> fl_zprod (sigmas s) = 1.
Proof.
  intros H. unfold sigmas. rewrite zprod_combine_mul by apply length_prev. rewrite zprod_prev. apply zprod_pm1_sq, H.
Qed.

(* odd number of anti-ferromagnetic couplers + closed walk => at least one violated edge *)
Lemma frustrated_aux J : forall sg, length J = length sg -> Forall fl_pm1 J -> Forall fl_pm1 sg ->
  - Z.of_nat (length J) <= loop_energy J sg /\
  (fl_zprod (map Z.opp J) * fl_zprod sg = -1 -> 2 - Z.of_nat (length J) <= loop_energy J sg).
Proof.
  induction J as [|j J IH]; intros [|x sg] Hl HJ Hs; try discriminate Hl.
  - split; [cbn; lia|]. cbn. lia.
  - inversion HJ as [|? ? Hj HJ']; inversion Hs as [|? ? Hx Hs']; subst.
    destruct (IH sg (eq_add_S _ _ Hl) HJ' Hs') as [Hw Hst].
    unfold loop_energy in *. cbn [combine map fl_zsum fold_right fst snd length].
    fold (fl_zsum (map (fun p => fst p * snd p) (combine J sg))).
    cbn [map fl_zprod fold_right]. fold (fl_zprod (map Z.opp J)) (fl_zprod sg).
    rewrite Nat2Z.inj_succ.
    set (E := fl_zsum (map (fun p : Z * Z => fst p * snd p) (combine J sg))) in *.
    set (A := fl_zprod (map Z.opp J)) in *. set (B := fl_zprod sg) in *.
    destruct Hj as [-> | ->], Hx as [-> | ->]; (split; [lia|]); intros HP.
    + lia.
    + assert (A * B = -1) by (rewrite <- HP; ring). specialize (Hst H). lia.
    + assert (A * B = -1) by (rewrite <- HP; ring). specialize (Hst H). lia.
    + lia.
Qed.

Theorem frustrated_bound J sg : length J = length sg -> Forall fl_pm1 J -> Forall fl_pm1 sg ->
  fl_zprod (map Z.opp J) = -1 -> fl_zprod sg = 1 -> 2 - Z.of_nat (length J) <= loop_energy J sg.
Proof.
  intros Hl HJ Hs HA HB. apply (proj2 (frustrated_aux J sg Hl HJ Hs)). rewrite HA, HB. reflexivity.
Qed.

(* the planted couplings: +-1, exactly one anti-ferromagnetic coupler *)
Lemma planted_J_pm1 L idx : Forall fl_pm1 (planted_J L idx).
Proof.
  unfold planted_J. apply Forall_forall. intros x Hx. apply in_map_iff in Hx. destruct Hx as [i [<- _]].
  destruct (Nat.eqb i idx); [left|right]; reflexivity.
Qed.

Lemma planted_J_length L idx : length (planted_J L idx) = L.
Proof. unfold planted_J. rewrite map_length, seq_length. reflexivity. Qed.

Lemma planted_tail st L idx : (idx < st)%nat ->
  fl_zprod (map Z.opp (map (fun i => if Nat.eqb i idx then 1 else -1) (seq st L))) = 1 /\
  fl_zsum (map (fun i => if Nat.eqb i idx then 1 else -1) (seq st L)) = - Z.of_nat L.
Proof.
  revert st. induction L as [|L IH]; intros st H; [split; reflexivity|].
  cbn [seq map fl_zprod fl_zsum fold_right]. destruct (Nat.eqb_spec st idx) as [E|E]; [lia|].
  destruct (IH (S st) ltac:(lia)) as [Hp Hs].
  fold (fl_zprod (map Z.opp (map (fun i => if Nat.eqb i idx then 1 else -1) (seq (S st) L)))).
  fold (fl_zsum (map (fun i => if Nat.eqb i idx then 1 else -1) (seq (S st) L))).
  rewrite Hp, Hs, Nat2Z.inj_succ. split; lia.
Qed.

Lemma planted_from st L idx : (st <= idx < st + L)%nat ->
  fl_zprod (map Z.opp (map (fun i => if Nat.eqb i idx then 1 else -1) (seq st L))) = -1 /\
  fl_zsum (map (fun i => if Nat.eqb i idx then 1 else -1) (seq st L)) = 2 - Z.of_nat L.
Proof.
  revert st. induction L as [|L IH]; intros st H; [lia|].
  cbn [seq map fl_zprod fl_zsum fold_right].
  fold (fl_zprod (map Z.opp (map (fun i => if Nat.eqb i idx then 1 else -1) (seq (S st) L)))).
  fold (fl_zsum (map (fun i => if Nat.eqb i idx then 1 else -1) (seq (S st) L))).
  rewrite Nat2Z.inj_succ. destruct (Nat.eqb_spec st idx) as [E|E].
  - destruct (planted_tail (S st) L idx ltac:(lia)) as [Hp Hs]. rewrite Hp, Hs. split; lia.
  - destruct (IH (S st) ltac:(lia)) as [Hp Hs]. rewrite Hp, Hs. split; lia.
Qed.

Theorem planted_frustrated L idx : (idx < L)%nat -> fl_zprod (map Z.opp (planted_J L idx)) = -1.
Proof. intros H. apply (planted_from 0 L idx). lia. Qed.

Lemma sigmas_ones_aux (s : list Z) : Forall (fun x => x = 1) s -> Forall (fun x => x = 1) (sigmas s).
Proof.
  intros H. unfold sigmas. apply Forall_forall. intros x Hx. apply in_map_iff in Hx.
  destruct Hx as [[p q] [<- Hin]]. cbn [fst snd].
  pose proof (in_combine_l _ _ _ _ Hin) as Hp. pose proof (in_combine_r _ _ _ _ Hin) as Hq.
  rewrite Forall_forall in H. rewrite (H q Hq).
  assert (Hp' : In p s).
  { destruct s as [|y r]; [destruct Hp|]. unfold prev in Hp. destruct Hp as [<-|Hp].
    - assert (Hne : y :: r <> []) by discriminate. rewrite (app_removelast_last 0 Hne) at 2.
      apply in_or_app. right. left. reflexivity.
    - assert (Hne : y :: r <> []) by discriminate. rewrite (app_removelast_last 0 Hne).
      apply in_or_app. left. exact Hp. }
  rewrite (H p Hp'). reflexivity.
Qed.

Lemma loop_energy_ones J : forall sg, length J = length sg -> Forall (fun x => x = 1) sg -> loop_energy J sg = fl_zsum J.
Proof.
  unfold loop_energy. induction J as [|j J IH]; intros [|x sg] Hl H; try discriminate Hl; [reflexivity|].
  inversion H as [|? ? Hx H']; subst. cbn [combine map fl_zsum fold_right fst snd].
  fold (fl_zsum (map (fun p => fst p * snd p) (combine J sg))) (fl_zsum J). rewrite IH by (try (injection Hl; auto); exact H'). ring.
Qed.

Lemma length_sigmas s : length (sigmas s) = length s.
Proof.
  unfold sigmas. rewrite map_length, combine_length, length_prev. apply Nat.min_id.
Qed.

(* one loop: the all-(+1) assignment has energy -(L - 2), and no assignment is lower *)
Theorem planted_loop_ground (cyc : list nat) idx (a : nat -> Z) :
  (idx < length cyc)%nat -> (forall v, fl_pm1 (a v)) ->
  let J := planted_J (length cyc) idx in
  loop_energy J (sigmas (map (fun _ => 1) cyc)) = 2 - Z.of_nat (length cyc) /\
  loop_energy J (sigmas (map (fun _ => 1) cyc)) <= loop_energy J (sigmas (map a cyc)).
Proof.
  intros Hidx Ha J.
  assert (Hones : Forall (fun x => x = 1) (map (fun _ : nat => 1) cyc)).
  { apply Forall_forall. intros x Hx. apply in_map_iff in Hx. destruct Hx as [? [<- _]]. reflexivity. }
  assert (E1 : loop_energy J (sigmas (map (fun _ => 1) cyc)) = 2 - Z.of_nat (length cyc)).
  { rewrite loop_energy_ones.
    - apply (planted_from 0 (length cyc) idx). lia.
    - unfold J. rewrite planted_J_length, length_sigmas, map_length. reflexivity.
    - apply sigmas_ones_aux, Hones. }
  split; [exact E1|]. rewrite E1.
  assert (Hs : Forall fl_pm1 (map a cyc)).
  { apply Forall_forall. intros x Hx. apply in_map_iff in Hx. destruct Hx as [v [<- _]]. apply Ha. }
  assert (Hsg : Forall fl_pm1 (sigmas (map a cyc))).
  { unfold sigmas. apply Forall_forall. intros x Hx. apply in_map_iff in Hx. destruct Hx as [[p q] [<- Hin]]. cbn [fst snd].
    pose proof (in_combine_r _ _ _ _ Hin) as Hq. pose proof (in_combine_l _ _ _ _ Hin) as Hp.
    rewrite Forall_forall in Hs. pose proof (Hs q Hq) as Hq'.
    assert (Hp' : fl_pm1 p).
    { destruct (map a cyc) as [|y r] eqn:Em; [destruct Hp|]. unfold prev in Hp.
      assert (Hne : y :: r <> []) by discriminate.
      apply Hs. rewrite (app_removelast_last 0 Hne). apply in_or_app.
      destruct Hp as [<-|Hp]; [right; left; reflexivity|left; exact Hp]. }
    destruct Hp' as [-> | ->], Hq' as [-> | ->]; [left|right|right|left]; reflexivity. }
  pose proof (frustrated_bound J (sigmas (map a cyc))) as B.
  assert (HL : length J = length cyc) by apply planted_J_length.
  rewrite HL in B.
  apply B; [rewrite length_sigmas, map_length; reflexivity|apply planted_J_pm1|exact Hsg|apply planted_frustrated, Hidx|apply closed_walk, Hs].
Qed.

(* the whole problem: the planted assignment minimises the sum because it minimises every loop *)
Theorem fl_planted_ground_state loops (a : nat -> Z) :
  (forall lp, In lp loops -> (snd lp < length (fst lp))%nat) -> (forall v, fl_pm1 (a v)) ->
  fl_energy loops (fun _ => 1) <= fl_energy loops a.
Proof.
  intros Hl Ha. unfold fl_energy. induction loops as [|lp loops IH]; [cbn; lia|].
  cbn [map fl_zsum fold_right].
  fold (fl_zsum (map (fun lp => loop_energy (planted_J (length (fst lp)) (snd lp)) (sigmas (map (fun _ => 1) (fst lp)))) loops)).
  fold (fl_zsum (map (fun lp => loop_energy (planted_J (length (fst lp)) (snd lp)) (sigmas (map a (fst lp)))) loops)).
  pose proof (planted_loop_ground (fst lp) (snd lp) a (Hl lp (or_introl eq_refl)) Ha) as [_ H1].
  cbv zeta in H1.
  assert (H2 := IH (fun lp' Hin => Hl lp' (or_intror Hin))). lia.
Qed.
