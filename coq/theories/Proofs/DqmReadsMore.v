(* C20 - cyDiscreteQuadraticModel: the order of the COO dump, get_quadratic_case read-after-write, what get_quadratic
   lists, and the rejection half of energies (Model/DqmReadsChecked.v). *)
From Coq Require Import List ZArith QArith Qcanon Bool Arith Lia Sorted.
From Dimod Require Import Base.Util Model.Poly Model.Adj Model.AdjMore Model.DqmNative Model.DqmReadsChecked
  Proofs.AdjNb Proofs.AdjInv Proofs.AdjRW Proofs.DqmNativeFacts Proofs.DqmRoundTrip Proofs.DqmReads
  Proofs.DqmRoundTripId Proofs.DqmEnergyFull Proofs.DqmOneHot.
Import ListNotations.
Local Open Scope nat_scope.

(* ================= A. the COO dump is strictly sorted by (row, col) ================= *)
Definition coo_lt (t1 t2 : nat * nat * Qc) : Prop :=
  fst (fst t1) < fst (fst t2) \/ (fst (fst t1) = fst (fst t2) /\ snd (fst t1) < snd (fst t2)).

Lemma SS_app {A} (R : A -> A -> Prop) l1 : forall l2,
  StronglySorted R l1 -> StronglySorted R l2 -> (forall a b, In a l1 -> In b l2 -> R a b) -> StronglySorted R (l1 ++ l2).
Proof.
  induction l1 as [|x l1 IH]; intros l2 S1 S2 H; [exact S2|]. cbn [app].
  apply StronglySorted_inv in S1. destruct S1 as [S1 F1]. constructor.
  - apply IH; [exact S1|exact S2|]. intros a b Ha Hb. apply H; [right; exact Ha|exact Hb].
  - apply Forall_forall. intros y Hy. apply in_app_or in Hy. destruct Hy as [Hy|Hy].
    + rewrite Forall_forall in F1. apply F1, Hy.
    + apply H; [left; reflexivity|exact Hy].
Qed.

Lemma flat_map_sorted {A} (R : A -> A -> Prop) (f : nat -> list A) : forall l,
  StronglySorted lt l -> (forall x, In x l -> StronglySorted R (f x)) ->
  (forall x y a b, x < y -> In a (f x) -> In b (f y) -> R a b) -> StronglySorted R (flat_map f l).
Proof.
  induction l as [|x l IH]; intros HS H1 H2; [constructor|]. cbn [flat_map].
  apply StronglySorted_inv in HS. destruct HS as [HS HF]. apply SS_app.
  - apply H1. left. reflexivity.
  - apply IH; [exact HS| |exact H2]. intros y Hy. apply H1. right. exact Hy.
  - intros a b Ha Hb. apply in_flat_map in Hb. destruct Hb as [y [Hy Hb]]. rewrite Forall_forall in HF.
    apply (H2 x y a b (HF y Hy) Ha Hb).
Qed.

Lemma lower_prefix_sorted ci n : ksorted n -> StronglySorted coo_lt (lower_prefix ci n).
Proof.
  induction n as [|[w b] r IH]; intros HS; cbn [lower_prefix]; [constructor|].
  apply ksorted_cons in HS. destruct HS as [HA HS]. destruct (w <? ci); [|constructor].
  constructor; [apply IH; exact HS|]. apply Forall_forall. intros t Ht. apply lower_prefix_in in Ht.
  destruct Ht as [A [_ C]]. right. cbn [fst snd]. split; [symmetry; exact A|].
  specialize (HA _ C). cbn [fst] in HA. exact HA.
Qed.

Theorem to_coo_sorted b : Inv b -> StronglySorted coo_lt (to_coo b).
Proof.
  intros HI. unfold to_coo. apply flat_map_sorted.
  - rewrite <- (map_id (seq 0 (nvars b))). apply (SS_map_seq (fun x => x)). intros x y _ H _. exact H.
  - intros x _. apply lower_prefix_sorted. apply Inv_sorted. exact HI.
  - intros x y a c Hxy Ha Hc. apply lower_prefix_in in Ha, Hc. destruct Ha as [A _], Hc as [C _].
    left. rewrite A, C. exact Hxy.
Qed.

Lemma coo_sorted_NoDup l : StronglySorted coo_lt l -> NoDup (map fst l).
Proof.
  induction 1 as [|t l HS IH HF]; [constructor|]. cbn [map]. constructor; [|exact IH].
  intros Hin. apply in_map_iff in Hin. destruct Hin as [t' [E Ht']]. rewrite Forall_forall in HF.
  destruct (HF t' Ht') as [L|[_ L]]; rewrite E in L; lia.
Qed.

Theorem to_coo_keys_NoDup b : Inv b -> NoDup (map fst (to_coo b)).
Proof. intros HI. apply coo_sorted_NoDup, to_coo_sorted, HI. Qed.

(* ================= B. get_quadratic_case ================= *)
Theorem get_quadratic_case_None_iff d u cu v cv :
  get_quadratic_case d u cu v cv = None <-> ~ (cu < d_ncases d u /\ cv < d_ncases d v).
Proof.
  unfold get_quadratic_case.
  destruct (Nat.ltb_spec cu (d_ncases d u)) as [A|A]; destruct (Nat.ltb_spec cv (d_ncases d v)) as [B|B];
    (split; [try discriminate; intros _; lia | try reflexivity; intros HH; exfalso; apply HH; split; assumption]).
Qed.

Lemma cs_inj d x cx u cu :
  DInv d -> x < d_nvars d -> u < d_nvars d -> cx < d_ncases d x -> cu < d_ncases d u ->
  (cs d x cx =? cs d u cu) = (x =? u) && (cx =? cu).
Proof.
  intros HD Hx Hu Hcx Hcu. pose proof HD as HP. apply DInv_iff in HP. destruct HP as [_ [_ [H3 [_ [H5 [H6 _]]]]]].
  destruct (st_facts (d_st d) (d_nvars d) (nvars (d_b d)) H3 H5 H6 x cx Hx Hcx) as [_ Ex].
  destruct (st_facts (d_st d) (d_nvars d) (nvars (d_b d)) H3 H5 H6 u cu Hu Hcu) as [_ Eu].
  destruct (Nat.eqb_spec (cs d x cx) (cs d u cu)) as [E|Ne].
  - unfold cs, d_start in E. assert (x = u) by (rewrite <- Ex, <- Eu, E; reflexivity). subst u.
    assert (cx = cu) by lia. subst cu. rewrite !Nat.eqb_refl. reflexivity.
  - destruct (Nat.eqb_spec x u) as [->|_]; [|reflexivity]. destruct (Nat.eqb_spec cx cu) as [->|_]; [|reflexivity].
    contradiction.
Qed.

(* the case pair (x,cx)-(y,cy) is the one written, in either order *)
Definition case_pair_hit (x cx y cy u cu v cv : nat) : bool :=
  ((x =? u) && (cx =? cu) && ((y =? v) && (cy =? cv))) || ((x =? v) && (cx =? cv) && ((y =? u) && (cy =? cu))).

Theorem get_quadratic_case_after_set d u cu v cv b x cx y cy :
  DInv d -> dop_ok d (DSetQuadCase u cu v cv b) = true ->
  x < d_nvars d -> y < d_nvars d -> cx < d_ncases d x -> cy < d_ncases d y ->
  get_quadratic_case (dstep d (DSetQuadCase u cu v cv b)) x cx y cy
  = Some (if case_pair_hit x cx y cy u cu v cv then b else quadratic (d_b d) (cs d x cx) (cs d y cy)).
Proof.
  intros HD Hok Hx Hy Hcx Hcy. cbn [dop_ok] in Hok.
  rewrite !andb_true_iff, !Nat.ltb_lt, negb_true_iff, Nat.eqb_neq in Hok. destruct Hok as [[[[Hu Hv] Hne] Hcu] Hcv].
  pose proof HD as HP. apply DInv_iff in HP. destruct HP as [HI [_ [H3 [_ [H5 [H6 _]]]]]].
  destruct (st_facts (d_st d) (d_nvars d) (nvars (d_b d)) H3 H5 H6 u cu Hu Hcu) as [Bu Eu].
  destruct (st_facts (d_st d) (d_nvars d) (nvars (d_b d)) H3 H5 H6 v cv Hv Hcv) as [Bv Ev].
  assert (Hcne : cs d u cu <> cs d v cv).
  { intros E. apply Hne. unfold cs, d_start in E. rewrite <- Eu, <- Ev, E. reflexivity. }
  set (d' := dstep d (DSetQuadCase u cu v cv b)).
  assert (Enc : forall z, d_ncases d' z = d_ncases d z) by reflexivity.
  assert (Ecs : forall z c, cs d' z c = cs d z c) by reflexivity.
  assert (Eb : d_b d' = bset_quadratic (cs d u cu) (cs d v cv) b (d_b d)) by reflexivity.
  unfold get_quadratic_case. rewrite !Enc, !Ecs, Eb.
  destruct (Nat.ltb_spec cx (d_ncases d x)) as [_|?]; [|lia]. destruct (Nat.ltb_spec cy (d_ncases d y)) as [_|?]; [|lia].
  f_equal.
  assert (E : set_quadratic (cs d u cu) (cs d v cv) b (d_b d)
              = Some (mkQM (lin (d_b d)) (upsert_both (fun _ => b) (cs d u cu) (cs d v cv) (adj (d_b d))) (off (d_b d)) (vts (d_b d)))).
  { unfold set_quadratic. destruct (Nat.eqb_spec (cs d u cu) (cs d v cv)); [contradiction|reflexivity]. }
  unfold bset_quadratic. rewrite E.
  rewrite (quadratic_set_quadratic (d_b d) _ (cs d u cu) (cs d v cv) b (cs d x cx) (cs d y cy) (Inv_len_adj _ HI) Bu Bv E).
  unfold same_pair, case_pair_hit.
  rewrite (cs_inj d x cx u cu), (cs_inj d y cy v cv), (cs_inj d x cx v cv), (cs_inj d y cy u cu) by assumption.
  reflexivity.
Qed.

(* the dict form and get_quadratic_case tell the same story *)
Theorem get_quadratic_case_vs_dict d u v l cu cv :
  DInv d -> u < d_nvars d -> v < d_nvars d -> cu < d_ncases d u -> cv < d_ncases d v ->
  get_quadratic d u v = Some l ->
  (forall x, In (cu, cv, x) l -> get_quadratic_case d u cu v cv = Some x)
  /\ ((forall x, ~ In (cu, cv, x) l) -> get_quadratic_case d u cu v cv = Some 0%Qc).
Proof.
  intros HD Hu Hv Hcu Hcv HG. unfold get_quadratic_case.
  destruct (Nat.ltb_spec cu (d_ncases d u)) as [_|?]; [|lia]. destruct (Nat.ltb_spec cv (d_ncases d v)) as [_|?]; [|lia].
  unfold quadratic. split.
  - intros x Hx. apply (get_quadratic_lists_stored d u v l cu cv x HD Hu Hv Hcu Hcv HG) in Hx. rewrite Hx. reflexivity.
  - intros Hn. destruct (nb_get (cs d v cv) (nb (d_b d) (cs d u cu))) as [x|] eqn:E; [|reflexivity].
    apply (get_quadratic_lists_stored d u v l cu cv x HD Hu Hv Hcu Hcv HG) in E. destruct (Hn x E).
Qed.

(* ================= C. what get_quadratic lists ================= *)
Theorem get_quadratic_entries_in_range d u v l cu cv x :
  DInv d -> u < d_nvars d -> v < d_nvars d -> get_quadratic d u v = Some l -> In (cu, cv, x) l ->
  cu < d_ncases d u /\ cv < d_ncases d v /\ nb_get (cs d v cv) (nb (d_b d) (cs d u cu)) = Some x.
Proof.
  intros HD Hu Hv HG Hin. pose proof HG as HG'. unfold get_quadratic in HG'. destruct (lb_has v (d_nb d u)); [|discriminate].
  injection HG' as HG'. rewrite <- HG' in Hin. apply in_flat_map in Hin. destruct Hin as [cu' [Hc He]]. apply in_seq in Hc.
  apply in_map_iff in He. destruct He as [[w y] [E He]]. cbn [fst snd] in E. injection E as E1 E2 E3. subst cu' y.
  pose proof HD as HP. apply DInv_iff in HP. destruct HP as [HI _].
  apply span_from_In in He; [|apply Inv_sorted; exact HI]. destruct He as [A [B C]]. cbn [fst] in B, C.
  assert (Hcv : cv < d_ncases d v) by (unfold d_ncases; lia). split; [lia|]. split; [exact Hcv|].
  apply (get_quadratic_lists_stored d u v l cu cv x HD Hu Hv ltac:(lia) Hcv HG).
  rewrite <- HG'. apply in_flat_map. exists cu. split; [apply in_seq; lia|]. apply in_map_iff. exists (w, x).
  split; [cbn [fst snd]; rewrite E2; reflexivity|]. apply span_from_In; [apply Inv_sorted; exact HI|]. auto.
Qed.

(* ================= D. energies: the rejection half ================= *)
Lemma energies_walk_spec d s : forall us e,
  energies_walk d s us e =
  if forallb (fun u => nth u s 0 <? d_ncases d u) us
  then Some (fold_left (fun e u =>
               let cu := cs d u (nth u s 0) in
               fold_left (fun e' v => (e' + quadratic (d_b d) cu (cs d v (nth v s 0%nat)))%Qc)
                         (below_or_eq u (d_nb d u)) (e + linear (d_b d) cu)%Qc) us e)
  else None.
Proof.
  induction us as [|u r IH]; intros e; [reflexivity|]. cbn [energies_walk forallb fold_left].
  destruct (nth u s 0 <? d_ncases d u); [|reflexivity]. cbn [andb]. apply IH.
Qed.

Theorem energies_checked_Some d s e :
  energies_checked d s = Some e -> length s = d_nvars d /\ valid_sample d s /\ e = d_energy d s.
Proof.
  unfold energies_checked. destruct (Nat.eqb_spec (length s) (d_nvars d)) as [EL|]; [|discriminate].
  rewrite energies_walk_spec. destruct (forallb _ _) eqn:F; [|discriminate]. intros [= <-].
  split; [exact EL|]. split; [|reflexivity]. intros u Hu. rewrite forallb_forall in F.
  apply Nat.ltb_lt. apply F. apply in_seq. lia.
Qed.

Theorem energies_checked_None_iff d s :
  energies_checked d s = None <->
  length s <> d_nvars d \/ exists u, u < d_nvars d /\ d_ncases d u <= nth u s 0.
Proof.
  unfold energies_checked. destruct (Nat.eqb_spec (length s) (d_nvars d)) as [EL|NL].
  - rewrite energies_walk_spec. destruct (forallb _ _) eqn:F.
    + split; [discriminate|]. intros [H|[u [Hu Hc]]]; [contradiction|]. rewrite forallb_forall in F.
      specialize (F u ltac:(apply in_seq; lia)). apply Nat.ltb_lt in F. lia.
    + split; [|reflexivity]. intros _. right.
      assert (G : exists u, In u (seq 0 (d_nvars d)) /\ (nth u s 0 <? d_ncases d u) = false).
      { clear - F. induction (seq 0 (d_nvars d)) as [|a r IH]; [discriminate|]. cbn [forallb] in F.
        destruct (nth a s 0 <? d_ncases d a) eqn:E.
        - destruct (IH F) as [u [Hu Hf]]. exists u. split; [right; exact Hu|exact Hf].
        - exists a. split; [left; reflexivity|exact E]. }
      destruct G as [u [Hu Hf]]. apply in_seq in Hu. apply Nat.ltb_ge in Hf. exists u. split; [lia|exact Hf].
  - split; [intros _; left; exact NL|reflexivity].
Qed.

Theorem energies_checked_valid d s :
  length s = d_nvars d -> valid_sample d s -> energies_checked d s = Some (d_energy d s).
Proof.
  intros EL HV. destruct (energies_checked d s) as [e|] eqn:E.
  - apply energies_checked_Some in E. destruct E as [_ [_ ->]]. reflexivity.
  - apply energies_checked_None_iff in E. destruct E as [H|[u [Hu Hc]]]; [contradiction|]. specialize (HV u Hu). lia.
Qed.

Print Assumptions to_coo_sorted.
Print Assumptions to_coo_keys_NoDup.
Print Assumptions get_quadratic_case_after_set.
Print Assumptions get_quadratic_case_vs_dict.
Print Assumptions get_quadratic_entries_in_range.
Print Assumptions energies_checked_None_iff.
Print Assumptions energies_checked_valid.
