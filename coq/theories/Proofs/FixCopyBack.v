(* C03, copying path, the ordering promise of add_quadratic_back: the quadratic phase of
   fix_variables_expr walks the source with the lower-triangle iterator (rows ascending, inside
   a row the indices <= row ascending) and re-issues every surviving interaction with
   add_quadratic_back on the new local indices, which are a strictly monotone function of the
   old ones.  Every such call satisfies the promise (AdjInv.back_pre) at the moment it is
   issued, so add_quadratic_back coincides with add_quadratic throughout and the rebuilt
   adjacency satisfies the structural invariant. *)
From Coq Require Import List ZArith QArith Qcanon Bool Arith Lia Sorted.
From Dimod Require Import Base.Util Model.Poly Model.Adj Proofs.AdjNb Proofs.AdjInv Proofs.AdjRW Proofs.AdjMoreInv.
From Dimod Require Model.FixCopy.
Import ListNotations.
Local Open Scope nat_scope.

Notation row_lower := FixCopy.row_lower.
Notation lower_iter := FixCopy.lower_iter.
Notation back_calls := FixCopy.back_calls.
Notation rebuild := FixCopy.rebuild.
Notation rebuild_add := FixCopy.rebuild_add.

(* ---------- the order of the lower-triangle iteration: by (row, column), column <= row ---------- *)
Definition LT (s t : nat * nat * Qc) : Prop := pair_lt (term_key s) (term_key t).

Definition lower_ok (N : nat) (l : list (nat * nat * Qc)) : Prop :=
  StronglySorted LT l /\ Forall (fun t => snd (term_key t) <= fst (term_key t) /\ fst (term_key t) < N) l.

Lemma row_lower_ok u n : ksorted n ->
  StronglySorted LT (row_lower u n)
  /\ (forall t, In t (row_lower u n) -> fst (term_key t) = u /\ snd (term_key t) <= u /\ In (snd (term_key t), snd t) n).
Proof.
  induction n as [|[w b] r IH]; intros Hs; cbn [FixCopy.row_lower]; [split; [constructor|intros ? []]|].
  apply ksorted_cons in Hs. destruct Hs as [Hall Hs]. destruct (IH Hs) as [S1 S2].
  destruct (Nat.leb_spec w u) as [L|L]; [|split; [constructor|intros ? []]]. split.
  - constructor; [exact S1|]. apply Forall_forall. intros t Ht. destruct (S2 t Ht) as [E1 [E2 E3]].
    specialize (Hall _ E3). unfold LT, pair_lt, term_key in *. cbn [fst snd] in *. lia.
  - intros t [<-|Ht]; unfold term_key; cbn [fst snd]; [repeat split; [exact L|left; reflexivity]|].
    destruct (S2 t Ht) as [E1 [E2 E3]]. repeat split; try assumption. right. exact E3.
Qed.

Lemma lower_rows_ok m : (forall u, ksorted (nb m u)) -> forall k s,
  StronglySorted LT (flat_map (fun u => row_lower u (nb m u)) (seq s k))
  /\ (forall t, In t (flat_map (fun u => row_lower u (nb m u)) (seq s k)) ->
        s <= fst (term_key t) < s + k /\ snd (term_key t) <= fst (term_key t)).
Proof.
  intros Hs. induction k as [|k IH]; intros s; cbn [seq flat_map]; [split; [constructor|intros ? []]|].
  destruct (IH (S s)) as [S1 S2]. destruct (row_lower_ok s (nb m s) (Hs s)) as [R1 R2]. split.
  - apply SS_app; [exact R1|exact S1|]. intros a b Ha Hb. destruct (R2 a Ha) as [E1 _]. destruct (S2 b Hb) as [E2 _].
    unfold LT, pair_lt. lia.
  - intros t Ht. apply in_app_or in Ht. destruct Ht as [Ht|Ht].
    + destruct (R2 t Ht) as [E1 [E2 _]]. lia.
    + destruct (S2 t Ht). lia.
Qed.

Theorem lower_iter_ok m : Inv m -> lower_ok (nvars m) (lower_iter m).
Proof.
  intros HI. destruct (lower_rows_ok m (fun u => Inv_sorted m u HI) (nvars m) 0) as [S1 S2]. split; [exact S1|].
  apply Forall_forall. intros t Ht. destruct (S2 t Ht). lia.
Qed.

(* ---------- re-indexing by a strictly monotone partial map keeps the order ---------- *)
Definition mono_keep (keep : nat -> option nat) : Prop :=
  forall a b ka kb, a < b -> keep a = Some ka -> keep b = Some kb -> ka < kb.

Lemma back_calls_ok keep N N' l : mono_keep keep -> (forall a ka, keep a = Some ka -> ka < N') -> lower_ok N l ->
  lower_ok N' (flat_map (fun t => match keep (fst (fst t)), keep (snd (fst t)) with
                                  | Some nu, Some nv => [(nu, nv, snd t)]
                                  | _, _ => []
                                  end) l).
Proof.
  intros HM HB [Hs Hr]. induction l as [|t l IH]; cbn [flat_map]; [split; constructor|].
  inversion Hs as [|? ? Hs' Hall]; subst. inversion Hr as [|? ? [Hvu Hu] Hr']; subst.
  destruct (IH Hs' Hr') as [S1 S2]. destruct t as [[u v] b]. unfold term_key in *. cbn [fst snd] in *.
  destruct (keep u) as [nu|] eqn:Eu; [|split; assumption]. destruct (keep v) as [nv|] eqn:Ev; [|split; assumption].
  cbn [app]. split.
  - constructor; [exact S1|]. apply Forall_forall. intros t' Ht'. apply in_flat_map in Ht'.
    destruct Ht' as [[[u2 v2] b2] [Hin Ht']]. cbn [fst snd] in Ht'.
    destruct (keep u2) as [nu2|] eqn:Eu2; [|destruct Ht']. destruct (keep v2) as [nv2|] eqn:Ev2; [|destruct Ht'].
    destruct Ht' as [<-|[]]. rewrite Forall_forall in Hall. specialize (Hall _ Hin).
    unfold LT, pair_lt, term_key in *. cbn [fst snd] in *. destruct Hall as [L|[E L]].
    + left. apply (HM u u2); assumption.
    + right. subst u2. split; [congruence|]. apply (HM v v2); assumption.
  - constructor; [|exact S2]. cbv beta. cbn [fst snd]. split; [|apply (HB u); exact Eu].
    unfold term_key. cbn [fst snd]. destruct (Nat.eq_dec v u) as [->|Hne]; [rewrite Eu in Ev; injection Ev as <-; lia|].
    assert (L : nv < nu) by (apply (HM v u); [lia|assumption|assumption]). lia.
Qed.

(* ---------- the promise holds along the whole loop ---------- *)
(* everything stored so far comes before p in the (row, column) order *)
Definition stored_before_l (p : nat * nat) (m : qm) : Prop :=
  forall x k c, nb_get k (nb m x) = Some c -> pair_lt (Nat.max x k, Nat.min x k) p.

Lemma back_pre_of_before_l u v m :
  Inv m -> v <= u -> stored_before_l (u, v) m -> back_pre u v m.
Proof.
  intros HI Hvu Hb.
  assert (G : forall x y, (forall k c, nb_get k (nb m x) = Some c -> k < y) -> back_ok (nb m x) y).
  { intros x y H. unfold back_ok. destruct (rev (nb m x)) as [|e r] eqn:E; [exact I|].
    assert (Hin : In e (nb m x)) by (apply in_rev; rewrite E; left; reflexivity).
    destruct e as [k c]. cbn [fst]. apply (H k c). apply nb_get_In_2; [apply Inv_sorted, HI|exact Hin]. }
  split; apply G; intros k c Hg; specialize (Hb _ _ _ Hg); unfold pair_lt in Hb; cbn [fst snd] in Hb; lia.
Qed.

Lemma same_pair_maxmin x y u v :
  same_pair x y u v = true -> v <= u -> (Nat.max x y, Nat.min x y) = (u, v).
Proof.
  unfold same_pair. intros H Hvu. apply orb_true_iff in H.
  destruct H as [H|H]; apply andb_true_iff in H; destruct H as [H1 H2];
    apply Nat.eqb_eq in H1, H2; subst; f_equal; lia.
Qed.

Lemma stored_before_l_step u v b m p :
  Inv m -> u < nvars m -> v < nvars m -> v <= u ->
  stored_before_l (u, v) m -> pair_lt (u, v) p -> stored_before_l p (add_quadratic u v b m).
Proof.
  intros HI Hu Hv Hvu Hb Hp x k c. rewrite get_add_quadratic by (try assumption; apply Inv_len_adj, HI).
  destruct (aq_hit m u v x k) eqn:E.
  - intros _. unfold aq_hit in E. apply andb_true_iff in E. destruct E as [E _].
    rewrite (same_pair_maxmin _ _ _ _ E Hvu). exact Hp.
  - intros Hg. specialize (Hb _ _ _ Hg). unfold pair_lt in *. cbn [fst snd] in *. lia.
Qed.

(* each call finds the promise of add_quadratic_back true at the moment it is issued *)
Fixpoint calls_ok (l : list (nat * nat * Qc)) (d : qm) : Prop :=
  match l with
  | [] => True
  | t :: r => back_pre (fst (fst t)) (snd (fst t)) d
              /\ calls_ok r (add_quadratic_back (fst (fst t)) (snd (fst t)) (snd t) d)
  end.

Lemma fold_back_lower l : forall m,
  Inv m -> lower_ok (nvars m) l -> (forall t, In t l -> stored_before_l (term_key t) m) ->
  calls_ok l m
  /\ fold_left (fun d t => add_quadratic_back (fst (fst t)) (snd (fst t)) (snd t) d) l m
     = fold_left (fun d t => add_quadratic (fst (fst t)) (snd (fst t)) (snd t) d) l m
  /\ Inv (fold_left (fun d t => add_quadratic_back (fst (fst t)) (snd (fst t)) (snd t) d) l m).
Proof.
  induction l as [|[[u v] b] l IH]; intros m HI [Hs Hr] Hb; cbn [fold_left calls_ok]; [repeat split; assumption|].
  cbn [fst snd]. inversion Hs as [|? ? Hs' Hall]; subst. inversion Hr as [|? ? [Hvu Hu] Hr']; subst.
  unfold term_key in *. cbn [fst snd] in *.
  assert (Hpre : back_pre u v m).
  { apply back_pre_of_before_l; [exact HI|exact Hvu|]. apply (Hb (u, v, b)). left. reflexivity. }
  rewrite (add_quadratic_back_eq_Inv u v b m HI Hpre).
  destruct (IH (add_quadratic u v b m)) as [C [E I']].
  - apply Inv_add_quadratic; [exact HI|exact Hu|lia].
  - rewrite nvars_add_quadratic. split; assumption.
  - intros t Ht. apply stored_before_l_step; try assumption; try lia.
    + apply (Hb (u, v, b)). left. reflexivity.
    + rewrite Forall_forall in Hall. apply (Hall t Ht).
  - split; [split; assumption|]. split; assumption.
Qed.

(* ---------- the theorem ---------- *)
(* dst: the surviving variables, no interaction yet (the linear phase only calls add_linear /
   add_offset / add_variable); keep: old local index -> new local index of a surviving
   variable, strictly monotone (the linear phase enforces the survivors in source order) *)
Theorem fix_copy_back_pre_holds : forall keep src dst,
  Inv src -> Inv dst -> (forall x, nb dst x = []) ->
  mono_keep keep -> (forall a ka, keep a = Some ka -> ka < nvars dst) ->
  calls_ok (back_calls keep src) dst
  /\ rebuild keep src dst = rebuild_add keep src dst
  /\ Inv (rebuild keep src dst).
Proof.
  intros keep src dst HS HD Hnil HM HB. unfold FixCopy.rebuild, FixCopy.rebuild_add.
  apply fold_back_lower.
  - exact HD.
  - unfold FixCopy.back_calls. apply (back_calls_ok keep (nvars src)); try assumption. apply lower_iter_ok. exact HS.
  - intros t _ x k c Hg. rewrite Hnil in Hg. discriminate Hg.
Qed.

(* under the invariant the iterator's "while index <= row" is the lower triangle of Adj.abs *)
Theorem lower_iter_is_abs_quad : forall m, Inv m -> lower_iter m = p_quad (Adj.abs m).
Proof.
  intros m HI. unfold FixCopy.lower_iter, Adj.abs. cbn [p_quad]. apply flat_map_ext. intros u.
  pose proof (Inv_sorted m u HI) as Hs. unfold lower_terms. induction (nb m u) as [|[w b] r IH]; [reflexivity|].
  apply ksorted_cons in Hs. destruct Hs as [Hall Hs]. cbn [FixCopy.row_lower filter fst].
  destruct (Nat.leb_spec w u) as [L|L].
  - cbn [map fst snd]. f_equal. apply IH. exact Hs.
  - assert (F : filter (fun e : nat * Qc => fst e <=? u) r = []).
    { clear IH Hs. induction r as [|e r IHr]; [reflexivity|]. cbn [filter].
      pose proof (Hall e (or_introl eq_refl)) as He. destruct (Nat.leb_spec (fst e) u); [lia|].
      apply IHr. intros e' He'. apply Hall. right. exact He'. }
    rewrite F. reflexivity.
Qed.

(* the promise is not vacuous: issued in another order the same calls break the structure *)
Theorem back_order_matters :
  exists u v b m, Inv m /\ u < nvars m /\ v < nvars m /\ ~ Inv (add_quadratic_back u v b m).
Proof. exact add_quadratic_back_unordered_breaks. Qed.

Print Assumptions fix_copy_back_pre_holds.
Print Assumptions lower_iter_ok.
Print Assumptions lower_iter_is_abs_quad.
