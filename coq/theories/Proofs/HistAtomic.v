(* C04: a raising call changes nothing - for EVERY all-or-nothing call of the
   model (`atomic o = true`), on the base object and through view handles.
   Method: on a BQM every primitive write either raises before touching the
   state or cannot raise at all ("good"); each method is a guard followed by a
   composition of good steps. *)
From Coq Require Import List ZArith QArith Qcanon Bool Arith Lia.
From Dimod Require Import Base.Util Model.Poly Model.View Model.Hist Proofs.PolyFacts Proofs.HistFacts Proofs.HistWf Proofs.HistWf2.
Import ListNotations.
Open Scope Qc_scope.

Definition B (s : state) : Prop := is_bqm s = true.
Definition ge (s s' : state) : Prop := forall x, has_var s x = true -> has_var s' x = true.
(* the computation started in s succeeded, still on a BQM, no variable lost *)
Definition good (s : state) (r : res) : Prop := snd r = Ok /\ B (fst r) /\ ge s (fst r).

Lemma ge_refl s : ge s s.
Proof. intros x H. exact H. Qed.

Lemma ge_trans a b c : ge a b -> ge b c -> ge a c.
Proof. intros H1 H2 x H. apply H2, H1, H. Qed.

Lemma good_ok s : B s -> good s (ok s).
Proof. intros H. split; [reflexivity|]. split; [exact H|apply ge_refl]. Qed.

Lemma good_bind s r g : good s r -> (forall s', B s' -> good s' (g s')) -> good s (r >>= g).
Proof.
  intros (H1 & H2 & H3) Hg. unfold bind. rewrite H1. destruct (Hg (fst r) H2) as (G1 & G2 & G3).
  split; [exact G1|]. split; [exact G2|]. eapply ge_trans; eassumption.
Qed.

Lemma good_seqm {A : Type} (f : A -> state -> res) l s :
  (forall x, In x l -> forall s', B s' -> good s' (f x s')) -> B s -> good s (seqm f l s).
Proof.
  revert s. induction l as [|x l IH]; intros s Hf Hs; [apply good_ok; exact Hs|].
  cbn [seqm]. apply good_bind; [apply Hf; [left; reflexivity|exact Hs]|].
  intros s' Hs'. apply IH; [|exact Hs']. intros y Hy. apply Hf. right. exact Hy.
Qed.

Lemma B_kind s : B s -> exists vt, st_kind s = Some vt.
Proof. unfold B, is_bqm. destruct (st_kind s) as [vt|]; [eexists; reflexivity|discriminate]. Qed.

Lemma B_ensure v s : B s -> B (ensure v s).
Proof. unfold B, is_bqm. rewrite kind_ensure. tauto. Qed.

Lemma ge_ensure v s : ge s (ensure v s).
Proof. intros x H. apply has_var_In. apply In_labels_ensure. apply has_var_In. exact H. Qed.

Lemma has_var_with_poly s p x : has_var (with_poly s p) x = has_var s x.
Proof. reflexivity. Qed.

(* ---------- primitives on a BQM ---------- *)
Lemma good_d_add_linear v b s : B s -> good s (d_add_linear v b s).
Proof.
  intros Hs. destruct (B_kind s Hs) as [vt K]. unfold d_add_linear. rewrite (resolve_bqm_ok v s vt K), bind_ok.
  split; [reflexivity|]. split; [apply (B_ensure v s Hs)|apply ge_ensure].
Qed.

Lemma good_d_set_linear v b s : B s -> good s (d_set_linear v b s).
Proof.
  intros Hs. destruct (B_kind s Hs) as [vt K]. unfold d_set_linear. rewrite (resolve_bqm_ok v s vt K), bind_ok.
  split; [reflexivity|]. split; [apply (B_ensure v s Hs)|apply ge_ensure].
Qed.

Lemma good_d_add_offset b s : B s -> good s (d_add_offset b s).
Proof. intros Hs. split; [reflexivity|]. split; [exact Hs|intros x H; exact H]. Qed.

Lemma good_d_set_offset b s : B s -> good s (d_set_offset b s).
Proof. intros Hs. split; [reflexivity|]. split; [exact Hs|intros x H; exact H]. Qed.

Lemma bqm_guard u v s : B s -> quad_guard u v s = (u =? v)%nat.
Proof. intros Hs. destruct (B_kind s Hs) as [vt K]. unfold quad_guard. rewrite K. reflexivity. Qed.

Lemma resolve2_bqm u v s vt : st_kind s = Some vt -> resolve u s >>= resolve v = ok (ensure v (ensure u s)).
Proof.
  intros K. rewrite (resolve_bqm_ok u s vt K), bind_ok.
  assert (K2 : st_kind (ensure u s) = Some vt) by (rewrite kind_ensure; exact K).
  apply (resolve_bqm_ok v _ vt K2).
Qed.

Lemma good_d_add_quadratic u v b s : B s -> u <> v -> good s (d_add_quadratic u v b s).
Proof.
  intros Hs Hne. destruct (B_kind s Hs) as [vt K]. unfold d_add_quadratic. rewrite (bqm_guard u v s Hs).
  destruct (Nat.eqb_spec u v); [contradiction|]. rewrite (resolve2_bqm u v s vt K), bind_ok.
  split; [reflexivity|]. split; [apply B_ensure, B_ensure, Hs|]. eapply ge_trans; apply ge_ensure.
Qed.

Lemma good_d_set_quadratic u v b s : B s -> u <> v -> good s (d_set_quadratic u v b s).
Proof.
  intros Hs Hne. destruct (B_kind s Hs) as [vt K]. unfold d_set_quadratic. rewrite (bqm_guard u v s Hs).
  destruct (Nat.eqb_spec u v); [contradiction|]. rewrite (resolve2_bqm u v s vt K), bind_ok.
  split; [reflexivity|]. split; [apply B_ensure, B_ensure, Hs|]. eapply ge_trans; apply ge_ensure.
Qed.

(* ---------- handle-level primitives ---------- *)
Lemma good_h_add_linear h v b s : B s -> good s (h_add_linear h v b s).
Proof.
  intros Hs. unfold h_add_linear. destruct (vdir_of h s) as [[|]|]; try (apply good_d_add_linear; exact Hs);
    (apply good_bind; [apply good_d_add_linear; exact Hs|intros; apply good_d_add_offset; assumption]).
Qed.

Lemma good_h_set_offset h b s : B s -> good s (h_set_offset h b s).
Proof. intros Hs. unfold h_set_offset. destruct (vdir_of h s); [apply good_d_add_offset|apply good_d_set_offset]; exact Hs. Qed.

Lemma good_h_add_offset h (g : state -> Qc) s : B s -> good s (h_add_offset h (g s) s).
Proof. intros Hs. unfold h_add_offset. apply good_h_set_offset. exact Hs. Qed.

Lemma good_h_add_quadratic h u v b s : B s -> u <> v -> good s (h_add_quadratic h u v b s).
Proof.
  intros Hs Hne. unfold h_add_quadratic. destruct (vdir_of h s) as [[|]|]; try (apply good_d_add_quadratic; assumption);
    (apply good_bind; [apply good_bind; [apply good_bind; [apply good_d_add_quadratic; assumption|]|]|];
     intros; try apply good_d_add_linear; try apply good_d_add_offset; assumption).
Qed.

Lemma good_h_set_linear h v b s : B s -> good s (h_set_linear h v b s).
Proof.
  intros Hs. unfold h_set_linear. destruct (vdir_of h s); [|apply good_d_set_linear; exact Hs].
  apply good_bind; [apply good_h_add_linear; exact Hs|]. intros s' Hs'. apply good_h_add_linear. exact Hs'.
Qed.

Lemma good_h_add_variable h v b s : B s -> good s (h_add_variable h v b s).
Proof.
  intros Hs. destruct (B_kind s Hs) as [vt K]. unfold h_add_variable. rewrite (resolve_bqm_ok v s vt K), bind_ok.
  destruct (good_h_add_linear h v b (ensure v s) (B_ensure v s Hs)) as (G1 & G2 & G3).
  split; [exact G1|]. split; [exact G2|]. eapply ge_trans; [apply ge_ensure|exact G3].
Qed.

Lemma good_h_set_quadratic h u v b s : B s -> u <> v -> good s (h_set_quadratic h u v b s).
Proof.
  intros Hs Hne. unfold h_set_quadratic. destruct h; [apply good_d_set_quadratic; assumption|].
  rewrite (bqm_guard u v s Hs). destruct (Nat.eqb_spec u v); [contradiction|].
  apply good_bind; [apply good_bind; [apply good_bind; [apply good_h_add_variable; exact Hs|]|]|];
    intros; try apply good_h_add_variable; try apply good_h_add_quadratic; assumption.
Qed.

(* h_set_quadratic raises only at its guard *)
Lemma h_set_quadratic_raise h u v b s e :
  B s -> snd (h_set_quadratic h u v b s) = Raised e -> fst (h_set_quadratic h u v b s) = s /\ u = v.
Proof.
  intros Hs H. destruct (Nat.eq_dec u v) as [E|E].
  - split; [|exact E]. unfold h_set_quadratic in *. destruct h.
    + eapply d_set_quadratic_raise. exact H.
    + rewrite (bqm_guard u v s Hs) in *. subst. rewrite Nat.eqb_refl. reflexivity.
  - destruct (good_h_set_quadratic h u v b s Hs E) as (G & _). congruence.
Qed.

(* after a successful add_quadratic the interaction exists *)
Lemma hasq_push u v b s : hasq (with_poly s (push_quad u v b (st_poly s))) u v = true.
Proof. unfold hasq, with_poly, push_quad; cbn [st_poly p_quad has_pair existsb fst snd]. unfold same_pair. rewrite !Nat.eqb_refl. reflexivity. Qed.

Definition sameq (s s' : state) : Prop := p_quad (st_poly s') = p_quad (st_poly s).

Lemma sameq_d_add_linear v b s : B s -> sameq s (fst (d_add_linear v b s)).
Proof.
  intros Hs. destruct (B_kind s Hs) as [vt K]. unfold d_add_linear. rewrite (resolve_bqm_ok v s vt K), bind_ok.
  unfold sameq, ensure. cbn [ok fst with_poly st_poly add_linear p_quad]. destruct (has_var s v); reflexivity.
Qed.

Lemma sameq_d_add_offset b s : sameq s (fst (d_add_offset b s)).
Proof. reflexivity. Qed.

Lemma sameq_d_set_offset b s : sameq s (fst (d_set_offset b s)).
Proof. reflexivity. Qed.

Lemma sameq_trans a b c : sameq a b -> sameq b c -> sameq a c.
Proof. unfold sameq. congruence. Qed.

Lemma sameq_h_add_linear h v b s : B s -> sameq s (fst (h_add_linear h v b s)).
Proof.
  intros Hs. unfold h_add_linear. destruct (vdir_of h s) as [[|]|]; try (apply sameq_d_add_linear; exact Hs).
  - unfold bind. destruct (good_d_add_linear v (b * half) s Hs) as (G1 & G2 & G3). rewrite G1.
    eapply sameq_trans; [apply sameq_d_add_linear; exact Hs|apply sameq_d_add_offset].
  - unfold bind. destruct (good_d_add_linear v (two * b) s Hs) as (G1 & G2 & G3). rewrite G1.
    eapply sameq_trans; [apply sameq_d_add_linear; exact Hs|apply sameq_d_add_offset].
Qed.

Lemma sameq_h_set_offset h b s : sameq s (fst (h_set_offset h b s)).
Proof. unfold h_set_offset. destruct (vdir_of h s); reflexivity. Qed.

Lemma hasq_sameq s s' u v : sameq s s' -> hasq s' u v = hasq s u v.
Proof. unfold sameq, hasq. intros ->. reflexivity. Qed.

Lemma nbh_in s v t : In t (nbh s v) -> hasq s v (fst t) = true /\ has_var s (fst t) = true.
Proof.
  unfold nbh. intros H. apply in_map_iff in H. destruct H as [w [<- Hw]]. apply filter_In in Hw.
  cbn [fst]. split; [apply Hw|apply has_var_In, Hw].
Qed.

Lemma h_nbh_in h s v t : In t (h_nbh h v s) -> hasq s v (fst t) = true /\ has_var s (fst t) = true.
Proof.
  unfold h_nbh. intros H. apply in_map_iff in H. destruct H as [t0 [<- H0]]. cbn [fst]. apply nbh_in. exact H0.
Qed.

(* in a well-formed BQM no variable interacts with itself *)
Lemma bqm_no_self s v : B s -> wf s -> hasq s v v = false.
Proof.
  intros Hs (Hnd & _ & Hq & Hk). destruct (B_kind s Hs) as [vt K]. destruct (Hk vt K) as [Hsb Hall].
  apply not_true_is_false. intros H. unfold hasq, has_pair in H. apply existsb_exists in H. destruct H as [t [Ht E]].
  destruct (Hq t Ht) as (H1 & H2 & H3). unfold same_pair in E.
  assert (E1 : fst (fst t) = v /\ snd (fst t) = v).
  { repeat match goal with H : context [(?p =? ?q)%nat] |- _ => destruct (Nat.eqb_spec p q) end; cbn in E; try discriminate; auto. }
  destruct E1 as [E1 E2]. assert (E3 : fst (fst t) = snd (fst t)) by congruence. specialize (H3 E3).
  destruct (in_labels_vinfo s _ H1) as [j [Hj Ej]]. rewrite <- Ej, (vt_of_in s j Hnd Hj), (Hall j Hj), Hsb in H3. discriminate.
Qed.

(* ---------- shape of the quadratic bag after the quadratic writes ---------- *)
Lemma quad_d_add_linear v b s : B s -> p_quad (st_poly (fst (d_add_linear v b s))) = p_quad (st_poly s).
Proof. apply sameq_d_add_linear. Qed.

Lemma quad_d_add_quadratic u v b s :
  B s -> u <> v -> p_quad (st_poly (fst (d_add_quadratic u v b s))) = (u, v, b) :: p_quad (st_poly s).
Proof.
  intros Hs Hne. destruct (B_kind s Hs) as [vt K]. unfold d_add_quadratic. rewrite (bqm_guard u v s Hs).
  destruct (Nat.eqb_spec u v); [contradiction|]. rewrite (resolve2_bqm u v s vt K), bind_ok.
  cbn [ok fst with_poly st_poly push_quad p_quad]. unfold ensure.
  destruct (has_var s u); cbn [with_vars st_poly st_vars]; destruct (has_var _ v); reflexivity.
Qed.

Lemma quad_h_add_quadratic h u v b s :
  B s -> u <> v -> exists b', p_quad (st_poly (fst (h_add_quadratic h u v b s))) = (u, v, b') :: p_quad (st_poly s).
Proof.
  intros Hs Hne. unfold h_add_quadratic. destruct (vdir_of h s) as [[|]|].
  - destruct (good_d_add_quadratic u v (b * quarter) s Hs Hne) as (G1 & G2 & G3).
    exists (b * quarter). unfold bind at 3. rewrite G1.
    destruct (good_d_add_linear u (b * quarter) _ G2) as (L1 & L2 & L3). unfold bind at 2. rewrite L1.
    destruct (good_d_add_linear v (b * quarter) _ L2) as (M1 & M2 & M3). unfold bind at 1. rewrite M1.
    cbn [d_add_offset ok fst with_poly st_poly add_offset p_quad].
    rewrite (quad_d_add_linear v _ _ L2), (quad_d_add_linear u _ _ G2). apply quad_d_add_quadratic; assumption.
  - destruct (good_d_add_quadratic u v (four * b) s Hs Hne) as (G1 & G2 & G3).
    exists (four * b). unfold bind at 3. rewrite G1.
    destruct (good_d_add_linear u (- (two * b)) _ G2) as (L1 & L2 & L3). unfold bind at 2. rewrite L1.
    destruct (good_d_add_linear v (- (two * b)) _ L2) as (M1 & M2 & M3). unfold bind at 1. rewrite M1.
    cbn [d_add_offset ok fst with_poly st_poly add_offset p_quad].
    rewrite (quad_d_add_linear v _ _ L2), (quad_d_add_linear u _ _ G2). apply quad_d_add_quadratic; assumption.
  - exists b. apply quad_d_add_quadratic; assumption.
Qed.

Lemma hasq_cons u v b' s s' x y :
  p_quad (st_poly s') = (u, v, b') :: p_quad (st_poly s) -> hasq s' x y = same_pair x y u v || hasq s x y.
Proof. unfold hasq. intros ->. reflexivity. Qed.

Lemma hasq_h_add_quadratic h u v b s x y :
  B s -> u <> v -> hasq (fst (h_add_quadratic h u v b s)) x y = same_pair x y u v || hasq s x y.
Proof. intros Hs Hne. destruct (quad_h_add_quadratic h u v b s Hs Hne) as [b' E]. eapply hasq_cons. exact E. Qed.

Lemma sameq_h_add_variable h v b s : B s -> sameq s (fst (h_add_variable h v b s)).
Proof.
  intros Hs. destruct (B_kind s Hs) as [vt K]. unfold h_add_variable. rewrite (resolve_bqm_ok v s vt K), bind_ok.
  eapply sameq_trans; [|apply sameq_h_add_linear; apply B_ensure; exact Hs].
  unfold sameq, ensure. destruct (has_var s v); reflexivity.
Qed.

Lemma hasq_h_set_quadratic h u v b s x y :
  B s -> u <> v -> hasq (fst (h_set_quadratic h u v b s)) x y = same_pair x y u v || hasq s x y.
Proof.
  intros Hs Hne. unfold h_set_quadratic. destruct h.
  - destruct (B_kind s Hs) as [vt K]. unfold d_set_quadratic. rewrite (bqm_guard u v s Hs).
    destruct (Nat.eqb_spec u v); [contradiction|]. rewrite (resolve2_bqm u v s vt K), bind_ok. cbn [ok fst].
    unfold hasq at 1. cbn [with_poly st_poly]. rewrite has_pair_set_quadratic.
    unfold hasq, ensure. destruct (has_var s u); cbn [with_vars st_poly st_vars]; destruct (has_var _ v); reflexivity.
  - rewrite (bqm_guard u v s Hs). destruct (Nat.eqb_spec u v); [contradiction|].
    destruct (good_h_add_variable (Via wv) u 0 s Hs) as (A1 & A2 & A3). unfold bind at 3. rewrite A1.
    destruct (good_h_add_variable (Via wv) v 0 _ A2) as (C1 & C2 & C3). unfold bind at 2. rewrite C1.
    destruct (good_h_add_quadratic (Via wv) u v 0 _ C2 Hne) as (D1 & D2 & D3). unfold bind at 1. rewrite D1.
    rewrite hasq_h_add_quadratic by assumption. rewrite hasq_h_add_quadratic by assumption.
    rewrite (hasq_sameq _ _ x y (sameq_h_add_variable (Via wv) v 0 _ A2)).
    rewrite (hasq_sameq _ _ x y (sameq_h_add_variable (Via wv) u 0 _ Hs)).
    destruct (same_pair x y u v); reflexivity.
Qed.

(* ---------- remove_interaction ---------- *)
Definition noop (r : res) (s : state) : Prop := forall e, snd r = Raised e -> fst r = s.

Lemma noop_good s0 s r : good s0 r -> noop r s.
Proof. intros (G & _) e H. congruence. Qed.

Lemma noop_raise b s : noop (raise b s) s.
Proof. intros e _. reflexivity. Qed.

Lemma same_pair_refl u v : same_pair u v u v = true.
Proof. unfold same_pair. rewrite !Nat.eqb_refl. reflexivity. Qed.

(* outcome of remove_interaction on a BQM: raises untouched, or succeeds with the pair gone *)
Lemma h_remove_interaction_spec h u v s :
  B s ->
  (exists e, h_remove_interaction h u v s = raise e s) \/
  (good s (h_remove_interaction h u v s) /\ u <> v /\
   forall x y, hasq (fst (h_remove_interaction h u v s)) x y = negb (same_pair x y u v) && hasq s x y)
  \/ (u = v /\ noop (h_remove_interaction h u v s) s /\ vdir_of h s = None).
Proof.
  intros Hs. unfold h_remove_interaction. destruct (vdir_of h s) eqn:D.
  - unfold h_get_quadratic. destruct (has_var s u && has_var s v && hasq s u v) eqn:G; [|left; eexists; reflexivity].
    destruct (Nat.eq_dec u v) as [E|E].
    + left. exists BValue. subst. unfold h_set_quadratic. destruct h; [discriminate|].
      rewrite (bqm_guard v v s Hs), Nat.eqb_refl. reflexivity.
    + right. left. apply andb_true_iff in G. destruct G as [G Hq]. apply andb_true_iff in G. destruct G as [Hu Hv].
      destruct (good_h_set_quadratic h u v 0 s Hs E) as (S1 & S2 & S3). unfold bind. rewrite S1.
      assert (Hq1 : hasq (fst (h_set_quadratic h u v 0 s)) u v = true) by (rewrite hasq_h_set_quadratic by assumption; rewrite same_pair_refl; reflexivity).
      unfold d_remove_interaction. rewrite (S3 u Hu), (S3 v Hv), Hq1. cbn [andb ok fst snd].
      split; [split; [reflexivity|split; [exact S2|exact S3]]|]. split; [exact E|].
      intros x y. unfold hasq at 1. cbn [with_poly st_poly]. rewrite has_pair_remove_interaction.
      fold (hasq (fst (h_set_quadratic h u v 0 s)) x y). rewrite hasq_h_set_quadratic by assumption.
      destruct (same_pair x y u v); reflexivity.
  - unfold d_remove_interaction. destruct (has_var s u && has_var s v && hasq s u v) eqn:G; [|left; eexists; reflexivity].
    destruct (Nat.eq_dec u v) as [E|E].
    + right. right. split; [exact E|]. split; [intros e H; discriminate|reflexivity].
    + right. left. split; [split; [reflexivity|split; [exact Hs|intros x H; exact H]]|]. split; [exact E|].
      intros x y. cbn [ok fst]. unfold hasq at 1. cbn [with_poly st_poly]. apply has_pair_remove_interaction.
Qed.

Lemma noop_h_remove_interaction h u v s : B s -> noop (h_remove_interaction h u v s) s.
Proof.
  intros Hs. destruct (h_remove_interaction_spec h u v s Hs) as [[e ->]|[(G & _)|(_ & N & _)]].
  - apply noop_raise.
  - eapply noop_good. exact G.
  - exact N.
Qed.

(* ---------- remove_variable ---------- *)
Lemma fine_h_remove_variable h v s :
  B s -> has_var s v = true -> hasq s v v = false -> snd (h_remove_variable h (Some v) s) = Ok.
Proof.
  intros Hs Hv Hself. unfold h_remove_variable. destruct (vdir_of h s).
  - rewrite Hv.
    assert (G : good s (seqm (fun t => h_set_quadratic h (fst t) v 0) (h_nbh h v s) s)).
    { apply good_seqm; [|exact Hs]. intros t Ht s' Hs'. apply good_h_set_quadratic; [exact Hs'|].
      apply h_nbh_in in Ht. destruct Ht as [Ht _]. intros E. rewrite E in Ht. congruence. }
    destruct G as (G1 & G2 & G3). unfold bind at 2. rewrite G1.
    destruct (good_h_set_linear h v 0 _ G2) as (L1 & L2 & L3). unfold bind. rewrite L1.
    unfold d_remove_variable. rewrite (L3 v (G3 v Hv)). reflexivity.
  - unfold d_remove_variable. rewrite Hv. reflexivity.
Qed.

Lemma noop_h_remove_variable_some h v s : B s -> wf s -> noop (h_remove_variable h (Some v) s) s.
Proof.
  intros Hs Hw e H. destruct (has_var s v) eqn:Hv.
  - exfalso. rewrite (fine_h_remove_variable h v s Hs Hv (bqm_no_self s v Hs Hw)) in H. discriminate.
  - unfold h_remove_variable. destruct (vdir_of h s); [rewrite Hv; reflexivity|].
    unfold d_remove_variable. rewrite Hv. reflexivity.
Qed.

Lemma noop_h_remove_variable h ov s : B s -> wf s -> noop (h_remove_variable h ov s) s.
Proof.
  intros Hs Hw. destruct ov as [v|]; [apply noop_h_remove_variable_some; assumption|].
  destruct (last_label s) as [v|] eqn:Ev.
  - replace (h_remove_variable h None s) with (h_remove_variable h (Some v) s)
      by (unfold h_remove_variable; rewrite Ev; reflexivity).
    apply noop_h_remove_variable_some; assumption.
  - unfold h_remove_variable. rewrite Ev. apply noop_raise.
Qed.

(* ---------- fix, flip, scale, update ---------- *)
Lemma sameq_seqm_add_linear h (g : label * Qc -> Qc) l s :
  B s -> sameq s (fst (seqm (fun t => h_add_linear h (fst t) (g t)) l s)) /\ good s (seqm (fun t => h_add_linear h (fst t) (g t)) l s).
Proof.
  revert s. induction l as [|t l IH]; intros s Hs; [split; [reflexivity|apply good_ok; exact Hs]|].
  cbn [seqm]. destruct (good_h_add_linear h (fst t) (g t) s Hs) as (G1 & G2 & G3).
  destruct (IH _ G2) as [Q G]. split.
  - unfold bind. rewrite G1. eapply sameq_trans; [apply sameq_h_add_linear; exact Hs|exact Q].
  - apply good_bind; [split; [exact G1|split; [exact G2|exact G3]]|]. intros s' Hs'. apply IH. exact Hs'.
Qed.

Lemma noop_m_fix h v a s : B s -> wf s -> noop (m_fix h v a s) s.
Proof.
  intros Hs Hw e H. unfold m_fix in *. destruct (has_var s v) eqn:Hv; cbn [negb] in *; [|reflexivity].
  exfalso.
  destruct (sameq_seqm_add_linear h (fun t => a * snd t) (h_nbh h v s) s Hs) as [Q1 (G1 & G2 & G3)].
  unfold bind at 2 in H. rewrite G1 in H.
  set (s1 := fst (seqm (fun t => h_add_linear h (fst t) (a * snd t)) (h_nbh h v s) s)) in *.
  destruct (good_h_add_offset h (fun s => a * opt0 (h_get_linear h v s)) s1 G2) as (O1 & O2 & O3).
  unfold bind in H. rewrite O1 in H.
  rewrite fine_h_remove_variable in H; [discriminate|exact O2|apply O3, G3, Hv|].
  unfold h_add_offset. rewrite (hasq_sameq s1 _ v v (sameq_h_set_offset h _ s1)), (hasq_sameq s s1 v v Q1). apply bqm_no_self; assumption.
Qed.

Lemma nbh_not_self h v s t : B s -> wf s -> In t (h_nbh h v s) -> fst t <> v.
Proof.
  intros Hs Hw Ht E. apply h_nbh_in in Ht. destruct Ht as [Ht _]. rewrite E, (bqm_no_self s v Hs Hw) in Ht. discriminate.
Qed.

Lemma noop_m_flip h v s : B s -> wf s -> noop (m_flip h v s) s.
Proof.
  intros Hs Hw. unfold m_flip. destruct (has_var s v); cbn [negb]; [|apply noop_raise].
  destruct (B_kind s Hs) as [vt0 K]. rewrite K.
  destruct (hvt h s); try apply noop_raise.
  - apply (noop_good s). apply good_bind; [apply good_bind; [apply good_seqm; [|exact Hs]|]|].
    + intros t Ht s' Hs'. apply good_bind; [apply good_h_set_quadratic; [exact Hs'|apply (nbh_not_self h v s t Hs Hw Ht)]|].
      intros. apply good_h_add_linear. assumption.
    + intros s' Hs'. apply (good_h_add_offset h (fun s => opt0 (h_get_linear h v s))). exact Hs'.
    + intros s' Hs'. apply good_h_set_linear. exact Hs'.
  - apply (noop_good s). apply good_bind; [apply good_seqm; [|exact Hs]|].
    + intros t Ht s' Hs'. apply good_h_set_quadratic; [exact Hs'|apply (nbh_not_self h v s t Hs Hw Ht)].
    + intros s' Hs'. apply good_h_set_linear. exact Hs'.
Qed.

Lemma pairs_in_distinct q vs t :
  NoDup vs -> (forall v, has_pair q v v = false) -> In t (pairs_in q vs) -> fst t <> snd t.
Proof.
  intros Hnd Hself. induction vs as [|v rest IH]; [intros []|].
  inversion Hnd as [|? ? Hni Hnd']; subst. cbn [pairs_in]. rewrite Hself. cbn [app].
  intros H. apply in_app_or in H. destruct H as [H|H]; [apply IH; assumption|].
  apply in_map_iff in H. destruct H as [w [<- Hw]]. apply filter_In in Hw. cbn [fst snd]. intros E. subst. apply Hni, Hw.
Qed.

Lemma pairs_distinct s t : B s -> wf s -> In t (pairs s) -> fst t <> snd t.
Proof.
  intros Hs Hw. unfold pairs. apply pairs_in_distinct; [apply Hw|]. intros v. apply (bqm_no_self s v Hs Hw).
Qed.

Lemma noop_m_scale h k iv ii io s : B s -> wf s -> noop (m_scale h k iv ii io s) s.
Proof.
  intros Hs Hw.
  assert (Hloop : good s (seqm (fun v s => if mem_label v iv then ok s
                       else h_set_linear h v (k * opt0 (h_get_linear h v s)) s) (labels s) s
      >>= (fun s => seqm (fun t s => if mem_pair (fst t) (snd t) ii then ok s
                                     else h_set_quadratic h (fst t) (snd t)
                                            (k * opt0 (h_get_quadratic h (fst t) (snd t) s)) s)
                         (pairs s) s)
      >>= fun s => if io then ok s else h_set_offset h (h_get_offset h s * k) s)).
  { assert (G0 : good s (seqm (fun v s => if mem_label v iv then ok s
                       else h_set_linear h v (k * opt0 (h_get_linear h v s)) s) (labels s) s)).
    { apply good_seqm; [|exact Hs]. intros x _ s' Hs'. destruct (mem_label x iv); [apply good_ok|apply good_h_set_linear]; exact Hs'. }
    assert (W1 : wf (fst (seqm (fun v s => if mem_label v iv then ok s
                       else h_set_linear h v (k * opt0 (h_get_linear h v s)) s) (labels s) s))).
    { apply pres_seqm; [|exact Hw]. intros x s' Hs'. destruct (mem_label x iv); [exact Hs'|apply pres_h_set_linear; exact Hs']. }
    apply good_bind; [|intros s' Hs'; destruct io; [apply good_ok|apply good_h_set_offset]; exact Hs'].
    destruct G0 as (A1 & A2 & A3). unfold bind. rewrite A1.
    set (s1 := fst (seqm _ (labels s) s)) in *.
    assert (G1 : good s1 (seqm (fun t s => if mem_pair (fst t) (snd t) ii then ok s
                                     else h_set_quadratic h (fst t) (snd t)
                                            (k * opt0 (h_get_quadratic h (fst t) (snd t) s)) s) (pairs s1) s1)).
    { apply good_seqm; [|exact A2]. intros t Ht s' Hs'. destruct (mem_pair (fst t) (snd t) ii); [apply good_ok; exact Hs'|].
      apply good_h_set_quadratic; [exact Hs'|]. apply (pairs_distinct s1); assumption. }
    destruct G1 as (C1 & C2 & C3). split; [exact C1|]. split; [exact C2|]. eapply ge_trans; eassumption. }
  unfold m_scale. destruct h as [|wv].
  - destruct iv as [|x iv]; [destruct ii as [|y ii]; [destruct io|]|]; try (eapply noop_good; exact Hloop).
    intros e H. discriminate.
  - eapply noop_good. exact Hloop.
Qed.

Lemma noop_m_update_bqm h o s : B s -> B o -> wf o -> noop (m_update_bqm h o s) s.
Proof.
  intros Hs Ho Hwo. apply (noop_good s). unfold m_update_bqm.
  apply good_bind; [apply good_bind; [apply good_seqm; [|exact Hs]|]|].
  - intros x _ s' Hs'. apply good_h_add_linear. exact Hs'.
  - intros s' Hs'. apply good_seqm; [|exact Hs']. intros t Ht s'' Hs''. apply good_h_add_quadratic; [exact Hs''|].
    apply (pairs_distinct o); assumption.
  - intros s' Hs'. apply (good_h_add_offset h (fun _ => _)). exact Hs'.
Qed.

(* ---------- contract_variables ---------- *)
Lemma h_remove_interaction_ok h u v s :
  B s -> u <> v -> has_var s u = true -> has_var s v = true -> hasq s u v = true ->
  good s (h_remove_interaction h u v s) /\
  forall x y, hasq (fst (h_remove_interaction h u v s)) x y = negb (same_pair x y u v) && hasq s x y.
Proof.
  intros Hs E Hu Hv Hq. unfold h_remove_interaction. destruct (vdir_of h s) eqn:D.
  - unfold h_get_quadratic. rewrite Hu, Hv, Hq. cbn [andb].
    destruct (good_h_set_quadratic h u v 0 s Hs E) as (S1 & S2 & S3). unfold bind. rewrite S1.
    assert (Hq1 : hasq (fst (h_set_quadratic h u v 0 s)) u v = true) by (rewrite hasq_h_set_quadratic by assumption; rewrite same_pair_refl; reflexivity).
    unfold d_remove_interaction. rewrite (S3 u Hu), (S3 v Hv), Hq1. cbn [andb ok fst snd].
    split; [split; [reflexivity|split; [exact S2|exact S3]]|].
    intros x y. unfold hasq at 1. cbn [with_poly st_poly]. rewrite has_pair_remove_interaction.
    fold (hasq (fst (h_set_quadratic h u v 0 s)) x y). rewrite hasq_h_set_quadratic by assumption.
    destruct (same_pair x y u v); reflexivity.
  - unfold d_remove_interaction. rewrite Hu, Hv, Hq. cbn [andb ok fst snd].
    split; [split; [reflexivity|split; [exact Hs|intros x H; exact H]]|].
    intros x y. unfold hasq at 1. cbn [with_poly st_poly]. apply has_pair_remove_interaction.
Qed.

Lemma contract_loop h u v l s :
  B s -> u <> v -> (forall t, In t l -> fst t <> u) -> hasq s v v = false ->
  good s (seqm (fun t => h_add_quadratic h u (fst t) (snd t)) l s) /\
  hasq (fst (seqm (fun t => h_add_quadratic h u (fst t) (snd t)) l s)) v v = false.
Proof.
  revert s. induction l as [|t l IH]; intros s Hs Hne Hl Hself; [split; [apply good_ok; exact Hs|exact Hself]|].
  cbn [seqm]. assert (Ht : u <> fst t) by (intros E; apply (Hl t (or_introl eq_refl)); congruence).
  destruct (good_h_add_quadratic h u (fst t) (snd t) s Hs Ht) as (G1 & G2 & G3).
  assert (Hself' : hasq (fst (h_add_quadratic h u (fst t) (snd t) s)) v v = false).
  { rewrite hasq_h_add_quadratic by assumption. rewrite Hself. unfold same_pair.
    destruct (Nat.eqb_spec v u); [congruence|]. cbn [andb orb]. rewrite andb_false_r. reflexivity. }
  destruct (IH _ G2 Hne (fun t' H' => Hl t' (or_intror H')) Hself') as [GI HI].
  unfold bind. rewrite G1. split; [|exact HI].
  destruct GI as (I1 & I2 & I3). split; [exact I1|]. split; [exact I2|]. eapply ge_trans; eassumption.
Qed.

Lemma same_pair_vu v u : same_pair v u u v = true.
Proof. unfold same_pair. rewrite !Nat.eqb_refl. apply orb_true_r. Qed.

Lemma bind_inv (P Q : state -> Prop) r g :
  snd r = Ok /\ P (fst r) ->
  (forall s', P s' -> snd (g s') = Ok /\ Q (fst (g s'))) ->
  snd (r >>= g) = Ok /\ Q (fst (r >>= g)).
Proof. intros [H1 H2] Hg. unfold bind. rewrite H1. apply Hg. exact H2. Qed.

Lemma noop_m_contract h u v s : B s -> wf s -> noop (m_contract h u v s) s.
Proof.
  intros Hs Hw e H. unfold m_contract in *. cbv zeta in *.
  destruct (negb (has_var s u && has_var s v) || (u =? v)%nat) eqn:G; [reflexivity|]. exfalso.
  apply orb_false_elim in G. destruct G as [G Hne]. apply negb_false_iff, andb_true_iff in G. destruct G as [Hu Hv].
  apply Nat.eqb_neq in Hne.
  pose (P1 := fun s1 => B s1 /\ ge s s1 /\ sameq s s1).
  pose (P3 := fun s3 => B s3 /\ ge s s3 /\ hasq s3 v u = false /\ hasq s3 v v = false).
  pose (P4 := fun s4 => B s4 /\ has_var s4 v = true /\ hasq s4 v v = false).
  assert (R : snd (h_add_linear h u (opt0 (h_get_linear h v s)) s
      >>= (fun s0 => match hvt h s0 with
                     | BINARY => h_add_linear h u (opt0 (h_get_quadratic h u v s)) s0
                     | _ => h_add_offset h (opt0 (h_get_quadratic h u v s)) s0
                     end)
      >>= (fun s0 => if match h_get_quadratic h u v s with Some _ => true | None => false end
                     then h_remove_interaction h u v s0 else ok s0)
      >>= (fun s0 => seqm (fun t => h_add_quadratic h u (fst t) (snd t)) (h_nbh h v s0) s0)
      >>= h_remove_variable h (Some v)) = Ok /\ True).
  { apply (bind_inv P4 (fun _ => True)); [apply (bind_inv P3 P4); [apply (bind_inv P1 P3); [apply (bind_inv P1 P1)|]|]|].
    - (* 1: add_linear *)
      destruct (good_h_add_linear h u (opt0 (h_get_linear h v s)) s Hs) as (A1 & A2 & A3).
      split; [exact A1|]. split; [exact A2|]. split; [exact A3|apply sameq_h_add_linear; exact Hs].
    - (* 2: fold the interaction value into linear / offset *)
      intros s1 (B1 & G1 & Q1).
      destruct (hvt h s1);
        try (destruct (good_h_add_linear h u (opt0 (h_get_quadratic h u v s)) s1 B1) as (A1 & A2 & A3);
             split; [exact A1|]; split; [exact A2|]; split; [eapply ge_trans; eassumption|];
             eapply sameq_trans; [exact Q1|apply sameq_h_add_linear; exact B1]);
        (destruct (good_h_add_offset h (fun _ => opt0 (h_get_quadratic h u v s)) s1 B1) as (A1 & A2 & A3);
         split; [exact A1|]; split; [exact A2|]; split; [eapply ge_trans; eassumption|];
         eapply sameq_trans; [exact Q1|unfold h_add_offset; apply sameq_h_set_offset]).
    - (* 3: remove the (u, v) interaction if there is one *)
      intros s2 (B2 & G2 & Q2).
      assert (Hq2 : forall x y, hasq s2 x y = hasq s x y) by (intros x y; apply (hasq_sameq s s2 x y Q2)).
      destruct (h_get_quadratic h u v s) eqn:GQ.
      + unfold h_get_quadratic in GQ. rewrite Hu, Hv in GQ. cbn [andb] in GQ. destruct (hasq s u v) eqn:Hq; [|discriminate].
        destruct (h_remove_interaction_ok h u v s2 B2 Hne (G2 u Hu) (G2 v Hv)) as [(R1 & R2 & R3) RQ]; [rewrite Hq2; exact Hq|].
        split; [exact R1|]. split; [exact R2|]. split; [eapply ge_trans; eassumption|].
        rewrite !RQ, same_pair_vu. cbn [negb andb]. split; [reflexivity|].
        rewrite Hq2, (bqm_no_self s v Hs Hw). apply andb_false_r.
      + split; [reflexivity|]. split; [exact B2|]. split; [exact G2|]. cbn [ok fst].
        unfold h_get_quadratic in GQ. rewrite Hu, Hv in GQ. cbn [andb] in GQ. destruct (hasq s u v) eqn:Hq; [discriminate|].
        rewrite !Hq2. split; [unfold hasq in *; rewrite has_pair_sym; exact Hq|apply (bqm_no_self s v Hs Hw)].
    - (* 4: move v's interactions to u *)
      intros s3 (B3 & G3 & Hvu & Hvv).
      destruct (contract_loop h u v (h_nbh h v s3) s3 B3 Hne) as [(L1 & L2 & L3) Lself]; [|exact Hvv|].
      { intros t Ht E. apply h_nbh_in in Ht. destruct Ht as [Ht _]. rewrite E, Hvu in Ht. discriminate. }
      split; [exact L1|]. split; [exact L2|]. split; [apply L3, G3, Hv|exact Lself].
    - (* 5: remove v *)
      intros s4 (B4 & V4 & S4). split; [|exact I]. apply fine_h_remove_variable; assumption. }
  destruct R as [R _]. rewrite R in H. discriminate.
Qed.

(* ---------- every all-or-nothing call on a BQM, base object or view handle ---------- *)
Lemma noop_h_add_quadratic h u v b s : B s -> noop (h_add_quadratic h u v b s) s.
Proof.
  intros Hs. destruct (Nat.eq_dec u v) as [E|E]; [|eapply noop_good; apply good_h_add_quadratic; assumption].
  subst. assert (D : forall b', d_add_quadratic v v b' s = raise BValue s).
  { intros b'. unfold d_add_quadratic. rewrite (bqm_guard v v s Hs), Nat.eqb_refl. reflexivity. }
  unfold h_add_quadratic. destruct (vdir_of h s) as [[|]|]; rewrite D, ?bind_raise; apply noop_raise.
Qed.

Definition op_ok_bqm (o : op) : Prop := match o with OUpdate other => B other /\ wf other | _ => True end.

Theorem failed_op_is_noop_bqm s h o e :
  B s -> wf s -> atomic o = true -> op_ok_bqm o ->
  snd (step s (h, o)) = Raised e -> fst (step s (h, o)) = s.
Proof.
  intros Hs Hw Ha Ho. pose proof Hs as Hb. unfold B in Hb.
  destruct o; cbn [atomic] in Ha; try discriminate; cbn [step]; rewrite ?Hb;
    try (intros H; reflexivity).
  - apply (noop_good s). apply good_h_add_variable. exact Hs.
  - apply (noop_good s). apply good_h_add_linear. exact Hs.
  - apply (noop_good s). apply good_h_set_linear. exact Hs.
  - apply noop_h_add_quadratic. exact Hs.
  - intros H. apply (h_set_quadratic_raise h u v b s e Hs H).
  - apply noop_h_remove_variable; assumption.
  - apply noop_h_remove_interaction; assumption.
  - apply noop_m_contract; assumption.
  - apply noop_m_flip; assumption.
  - exact (failed_op_is_noop_direct s (ORelabel m) e eq_refl).
  - exact (failed_op_is_noop_direct s (ORelabelInts ints) e eq_refl).
  - exact (failed_op_is_noop_direct s (ORelabelPy m) e eq_refl).
  - exact (failed_op_is_noop_direct s (ORelabelIntsPy ints) e eq_refl).
  - apply noop_m_scale; assumption.
  - destruct Ho as [Bo Wo]. apply noop_m_update_bqm; assumption.
  - apply (noop_good s). apply good_h_set_offset. exact Hs.
  - pose proof (failed_op_is_noop_direct s (OResize n fresh) e eq_refl) as F. cbn [step] in F. rewrite Hb in F. exact F.
  - pose proof (failed_op_is_noop_direct s (OChangeVartype vt) e eq_refl) as F. cbn [step] in F. rewrite Hb in F. exact F.
  - apply noop_m_fix; assumption.
Qed.

(* QuadraticModel.update is all-or-nothing by construction *)
Lemma noop_m_update_qm o s : noop (m_update_qm o s) s.
Proof. intros e H. unfold m_update_qm in *. destruct (existsb (vinfo_conflict s) (st_vars o)); [reflexivity|discriminate]. Qed.
