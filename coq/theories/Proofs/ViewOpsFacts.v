(* binary/vartypeview.py: the reads of a .spin/.binary view report exactly the converted model, and the
   composed writes (set_linear, set_quadratic, offset setter, remove_variable) and `energies` do what the
   same operation on the converted model does.  All statements are over the GENERATED factor tables of
   Gen/Gen_View.v and Gen/Gen_ViewReads.v: a changed factor in vartypeview.py breaks these proofs. *)
From Coq Require Import List ZArith QArith Qcanon Qround Bool Arith Lia.
From Dimod Require Import Base.Util Model.Poly Model.View Model.ViewOps.
From Dimod Require Import Proofs.PolyFacts Proofs.ViewFacts Proofs.CoeffSound Proofs.SamplesFacts.
Import ListNotations.
Open Scope Qc_scope.

(* ---------- constants ---------- *)
Lemma two_neq0 : two <> 0.
Proof. unfold two. intro H. discriminate H. Qed.

(* identities between polynomial expressions in two, half, quarter, four *)
Ltac qc_consts := unfold quarter, four, half; field; exact two_neq0.

(* the base has no self-loop term (it is a BQM) *)
Definition no_self_loop (base : poly) : Prop :=
  forall t, In t (p_quad base) -> fst (fst t) <> snd (fst t).

Lemma no_self_loopb_spec base : no_self_loopb base = true <-> no_self_loop base.
Proof.
  unfold no_self_loopb, no_self_loop. rewrite forallb_forall. split; intros H t Ht; specialize (H t Ht).
  - apply negb_true_iff, Nat.eqb_neq in H. exact H.
  - apply negb_true_iff, Nat.eqb_neq. exact H.
Qed.

(* ---------- view_value / base_value are inverse affine maps ---------- *)
Definition bm (d : vdir) : Qc := match d with BinOverSpin => two | SpinOverBin => half end.
Definition bc (d : vdir) : Qc := match d with BinOverSpin => - (1) | SpinOverBin => half end.

Lemma base_value_affine d y : base_value d y = bm d * y + bc d.
Proof. destruct d; unfold base_value, bm, bc; ring. Qed.

Lemma view_base_value d y : view_value d (base_value d y) = y.
Proof. destruct d; unfold view_value, base_value; qc_consts. Qed.

Lemma base_view_value d x : base_value d (view_value d x) = x.
Proof. destruct d; unfold view_value, base_value; qc_consts. Qed.

Lemma base_value_zero d :
  base_value d 0 = match d with BinOverSpin => - (1) | SpinOverBin => half end.
Proof. destruct d; unfold base_value; ring. Qed.

(* ---------- energies under an affine change of every variable ---------- *)
Definition ends_sum (q : list qterm) (y : sample) : Qc :=
  qsum (map (fun t => snd t * (y (fst (fst t)) + y (snd (fst t)))) q).

Lemma lin_energy_affine l y m c :
  lin_energy l (fun w => m * y w + c) = m * lin_energy l y + c * qsum (map snd l).
Proof.
  induction l as [|t l IH]; [unfold lin_energy; cbn [map qsum]; ring|].
  rewrite !lin_energy_cons, IH. cbn [map qsum]. ring.
Qed.

Lemma quad_energy_affine (q : list qterm) y m c :
  quad_energy q (fun w => m * y w + c)
  = m * m * quad_energy q y + m * c * ends_sum q y + c * c * qsum (map snd q).
Proof.
  induction q as [|t q IH]; [unfold quad_energy, ends_sum; cbn [map qsum]; ring|].
  rewrite !quad_energy_cons, IH. unfold ends_sum. cbn [map qsum]. ring.
Qed.

Lemma ends_energy k (q : list qterm) y :
  lin_energy (flat_map (fun t => [(fst (fst t), k * snd t); (snd (fst t), k * snd t)]) q) y
  = k * ends_sum q y.
Proof.
  induction q as [|t q IH]; [unfold lin_energy, ends_sum; cbn [flat_map map qsum]; ring|].
  cbn [flat_map app]. rewrite !lin_energy_cons, IH. unfold ends_sum. cbn [map qsum fst snd]. ring.
Qed.

(* ---------- C02 (reads): the view reports exactly the converted model ---------- *)
Theorem view_poly_energy d base y :
  energy (view_poly d base) y = energy base (fun v => base_value d (y v)).
Proof.
  rewrite (energy_ext base (fun v => base_value d (y v)) (fun v => bm d * y v + bc d))
    by (intros w; apply base_value_affine).
  unfold energy at 2. rewrite lin_energy_affine, quad_energy_affine.
  unfold energy, view_poly; cbn [p_off p_lin p_quad].
  unfold view_lin_terms, view_iter_quadratic, view_offset_gen, sum_lin, sum_quad.
  destruct d; cbn [gen_get_linear gen_iter_quadratic gen_offset bm bc];
    rewrite lin_energy_app, lin_energy_scale, ends_energy, quad_energy_scale; qc_consts.
Qed.

(* the same read from the base side *)
Corollary view_poly_energy_base d base s :
  energy base s = energy (view_poly d base) (fun v => view_value d (s v)).
Proof.
  rewrite view_poly_energy. apply energy_ext. intros w. symmetry. apply base_view_value.
Qed.

(* ---------- coefficient form of the reads ---------- *)
Ltac qc_id := unfold quarter, four, half; (ring || (field; exact two_neq0)).

Lemma lin_coeff_app a b v : lin_coeff (a ++ b) v = lin_coeff a v + lin_coeff b v.
Proof. unfold lin_coeff. rewrite filter_app, map_app, qsum_app. reflexivity. Qed.

Lemma lin_coeff_scale k l v : lin_coeff (map (fun t => (fst t, k * snd t)) l) v = k * lin_coeff l v.
Proof.
  induction l as [|[x b] l IH]; [unfold lin_coeff; cbn [map filter qsum]; ring|].
  cbn [map fst snd]. rewrite !lin_coeff_cons, IH. destruct (x =? v)%nat; ring.
Qed.

Lemma mentions_pair v x y (b : Qc) : mentions v (x, y, b) = ((x =? v) || (y =? v))%nat.
Proof. reflexivity. Qed.

Lemma ends_lin_coeff k (q : list qterm) v :
  (forall t, In t q -> fst (fst t) <> snd (fst t)) ->
  lin_coeff (flat_map (fun t => [(fst (fst t), k * snd t); (snd (fst t), k * snd t)]) q) v
  = k * qsum (map snd (filter (mentions v) q)).
Proof.
  induction q as [|[[x y] b] q IH]; intros H; [unfold lin_coeff; cbn [flat_map map filter qsum]; ring|].
  assert (Hxy : x <> y) by (apply (H (x, y, b)); left; reflexivity).
  cbn [flat_map app fst snd]. rewrite !lin_coeff_cons, IH by (intros t Ht; apply H; right; exact Ht).
  cbn [filter]. rewrite mentions_pair.
  destruct (Nat.eqb_spec x v), (Nat.eqb_spec y v); cbn [orb map qsum snd];
    try (exfalso; congruence); ring.
Qed.

(* get_linear(v) is the linear coefficient of the reported polynomial *)
Theorem view_poly_lin_coeff d base v :
  no_self_loop base -> lin_coeff (p_lin (view_poly d base)) v = view_get_linear d base v.
Proof.
  intros H. unfold view_poly, view_lin_terms, view_get_linear, reduce_neighborhood. cbn [p_lin].
  destruct (gen_get_linear d) as [kl kn].
  rewrite lin_coeff_app, lin_coeff_scale, ends_lin_coeff by exact H. reflexivity.
Qed.

Lemma quad_coeff_scale k (q : list qterm) u v :
  quad_coeff (map (fun t => (fst t, k * snd t)) q) u v = k * quad_coeff q u v.
Proof.
  induction q as [|[[x y] b] q IH]; [unfold quad_coeff; cbn [map filter qsum]; ring|].
  cbn [map fst snd]. rewrite !quad_coeff_cons, IH. destruct (same_pair u v x y); ring.
Qed.

Lemma has_pair_scale k (q : list qterm) u v :
  has_pair (map (fun t => (fst t, k * snd t)) q) u v = has_pair q u v.
Proof.
  unfold has_pair. induction q as [|t q IH]; [reflexivity|]. cbn [map existsb fst snd]. rewrite IH. reflexivity.
Qed.

Theorem view_poly_quad_coeff d base u v :
  quad_coeff (p_quad (view_poly d base)) u v = gen_iter_quadratic d * quad_coeff (p_quad base) u v.
Proof. unfold view_poly, view_iter_quadratic. cbn [p_quad]. apply quad_coeff_scale. Qed.

(* the three quadratic read tables of the source agree *)
Lemma gen_get_iter_quadratic d : gen_get_quadratic d = gen_iter_quadratic d.
Proof. destruct d; reflexivity. Qed.
Lemma gen_iter_neighborhood_quadratic d : gen_iter_neighborhood d = gen_iter_quadratic d.
Proof. destruct d; reflexivity. Qed.

(* get_quadratic(u, v) is the quadratic coefficient of the reported polynomial (None = ValueError) *)
Theorem view_get_quadratic_poly d base u v :
  view_get_quadratic d base u v =
  if (u =? v)%nat then None
  else if has_pair (p_quad (view_poly d base)) u v
       then Some (quad_coeff (p_quad (view_poly d base)) u v) else None.
Proof.
  unfold view_get_quadratic. rewrite view_poly_quad_coeff, gen_get_iter_quadratic.
  unfold view_poly, view_iter_quadratic. cbn [p_quad]. rewrite has_pair_scale. reflexivity.
Qed.

(* the offset getter over the generated table is the hand-written View.view_offset *)
Theorem view_offset_gen_eq d base : view_offset_gen d base = view_offset d base.
Proof. destruct d; unfold view_offset_gen, view_offset; cbn [gen_offset]; ring. Qed.

Theorem view_poly_off d base : p_off (view_poly d base) = view_offset_gen d base.
Proof. reflexivity. Qed.

(* reduce_quadratic(add, 0) and reduce_neighborhood(v, add, 0) of the view *)
Lemma qsum_scale_snd {A} k (l : list (A * Qc)) :
  qsum (map snd (map (fun t => (fst t, k * snd t)) l)) = k * qsum (map snd l).
Proof. induction l as [|t l IH]; cbn [map qsum fst snd]; [ring|rewrite IH; ring]. Qed.

Theorem view_reduce_quadratic_spec d base :
  view_reduce_quadratic d base = gen_iter_quadratic d * sum_quad base.
Proof. unfold view_reduce_quadratic, view_iter_quadratic, sum_quad. apply qsum_scale_snd. Qed.

Theorem view_reduce_neighborhood_spec d base v :
  view_reduce_neighborhood d base v = gen_iter_neighborhood d * reduce_neighborhood base v.
Proof.
  unfold view_reduce_neighborhood, view_iter_neighborhood, base_neighborhood, reduce_neighborhood.
  rewrite qsum_scale_snd, map_map. cbn [snd]. reflexivity.
Qed.

(* ---------- the view reports the model a detached converted copy would hold ---------- *)
Lemma existsb_in v vars : In v vars -> existsb (Nat.eqb v) vars = true.
Proof. intros H. apply existsb_exists. exists v. split; [exact H|apply Nat.eqb_refl]. Qed.

(* __copy__ = copy + change_vartype: same energies as what the view reports *)
Theorem view_poly_is_converted d vars base y :
  NoDup vars -> mentions_only base vars ->
  energy (view_poly d base) y = energy (view_copy d vars base) y.
Proof.
  intros Hnd Hm. rewrite view_poly_energy.
  destruct d; unfold view_copy; rewrite substitute_many_energy by exact Hnd;
    apply (energy_depends_on_vars base vars); try exact Hm; intros v Hv;
    rewrite (existsb_in v vars Hv); unfold base_value; ring.
Qed.

(* ... hence the same coefficients *)
Theorem view_reads_are_converted_coefficients d vars base :
  NoDup vars -> mentions_only base vars -> no_self_loop base ->
  view_offset_gen d base = p_off (view_copy d vars base)
  /\ (forall v, view_get_linear d base v = lin_coeff (p_lin (view_copy d vars base)) v)
  /\ (forall u v, quad_coeff (view_iter_quadratic d base) u v
                  = quad_coeff (p_quad (view_copy d vars base)) u v).
Proof.
  intros Hnd Hm Hns.
  assert (E : forall s, energy (view_poly d base) s = energy (view_copy d vars base) s)
    by (intros s; apply view_poly_is_converted; assumption).
  repeat split.
  - apply (ce_off _ _ E).
  - intros v. rewrite <- view_poly_lin_coeff by exact Hns. apply (ce_lin _ _ E).
  - intros u v. apply (ce_quad _ _ E u v).
Qed.

(* ---------- how the two translated writes show in the reads ---------- *)
Lemma p_quad_view_add_linear d w c p : p_quad (view_add_linear d w c p) = p_quad p.
Proof. destruct d; reflexivity. Qed.

Lemma view_get_linear_add_linear d w c p v :
  view_get_linear d (view_add_linear d w c p) v
  = view_get_linear d p v + (if (w =? v)%nat then c else 0).
Proof.
  destruct d; unfold view_get_linear, view_add_linear, reduce_neighborhood, add_offset, add_linear;
    cbn [gen_get_linear gen_add_linear p_off p_lin p_quad]; rewrite lin_coeff_cons;
    destruct (w =? v)%nat; qc_id.
Qed.

Lemma view_offset_gen_add_linear d w c p :
  view_offset_gen d (view_add_linear d w c p) = view_offset_gen d p.
Proof.
  destruct d; unfold view_offset_gen, view_add_linear, add_offset, add_linear, sum_lin, sum_quad;
    cbn [gen_offset gen_add_linear p_off p_lin p_quad map qsum snd]; qc_id.
Qed.

Lemma view_get_quadratic_add_linear d w c p u v :
  view_get_quadratic d (view_add_linear d w c p) u v = view_get_quadratic d p u v.
Proof. unfold view_get_quadratic. rewrite p_quad_view_add_linear. reflexivity. Qed.

(* data.add_variable changes no read *)
Lemma view_get_linear_data_add_variable d w p v :
  view_get_linear d (data_add_variable w p) v = view_get_linear d p v.
Proof.
  unfold view_get_linear, data_add_variable, reduce_neighborhood, add_linear. cbn [p_lin p_quad].
  rewrite lin_coeff_cons. destruct (gen_get_linear d) as [kl kn]. destruct (w =? v)%nat; ring.
Qed.

Lemma view_offset_gen_data_add_variable d w p :
  view_offset_gen d (data_add_variable w p) = view_offset_gen d p.
Proof.
  unfold view_offset_gen, data_add_variable, add_linear, sum_lin, sum_quad.
  cbn [p_off p_lin p_quad map qsum snd]. destruct (gen_offset d) as [[ko kl] kq]. ring.
Qed.

Lemma p_quad_data_add_variable w p : p_quad (data_add_variable w p) = p_quad p.
Proof. reflexivity. Qed.

Lemma energy_data_add_variable w p s : energy (data_add_variable w p) s = energy p s.
Proof. unfold data_add_variable. rewrite energy_add_linear. ring. Qed.

(* factor of add_quadratic on the base interaction *)
Definition kq_add (d : vdir) : Qc := fst (fst (fst (gen_add_quadratic d))).

Lemma p_quad_view_add_quadratic d u v c p :
  p_quad (view_add_quadratic d u v c p) = (u, v, kq_add d * c) :: p_quad p.
Proof. destruct d; reflexivity. Qed.

Lemma get_add_quadratic_inverse d : gen_get_quadratic d * kq_add d = 1.
Proof. destruct d; unfold kq_add; cbn [gen_get_quadratic gen_add_quadratic fst]; qc_id. Qed.

Lemma view_get_linear_add_quadratic d u v c p w :
  u <> v -> view_get_linear d (view_add_quadratic d u v c p) w = view_get_linear d p w.
Proof.
  intros Huv.
  destruct d; unfold view_get_linear, view_add_quadratic, reduce_neighborhood, add_offset, add_linear;
    cbn [gen_get_linear gen_add_quadratic p_off p_lin p_quad filter]; rewrite !lin_coeff_cons, mentions_pair;
    destruct (Nat.eqb_spec u w), (Nat.eqb_spec v w); cbn [orb map qsum snd];
    try (exfalso; congruence); qc_id.
Qed.

Lemma view_offset_gen_add_quadratic d u v c p :
  view_offset_gen d (view_add_quadratic d u v c p) = view_offset_gen d p.
Proof.
  destruct d; unfold view_offset_gen, view_add_quadratic, add_offset, add_linear, sum_lin, sum_quad;
    cbn [gen_offset gen_add_quadratic p_off p_lin p_quad map qsum snd]; qc_id.
Qed.

Lemma same_pair_refl u v : same_pair u v u v = true.
Proof. unfold same_pair. rewrite !Nat.eqb_refl. reflexivity. Qed.

Lemma has_pair_cons x y (b : Qc) q u v :
  has_pair ((x, y, b) :: q) u v = same_pair u v x y || has_pair q u v.
Proof. reflexivity. Qed.

Lemma quad_coeff_same_pair (q : list qterm) x y u v :
  same_pair x y u v = true -> quad_coeff q x y = quad_coeff q u v.
Proof.
  intros H. unfold same_pair in H.
  destruct (Nat.eqb_spec x u), (Nat.eqb_spec y v), (Nat.eqb_spec x v), (Nat.eqb_spec y u);
    cbn [andb orb] in H; try discriminate H; subst; try reflexivity; apply quad_coeff_sym.
Qed.

(* ---------- C02 (writes): set_linear ---------- *)
Theorem view_set_linear_spec d v b base :
  view_get_linear d (view_set_linear d v b base) v = b
  /\ (forall w, w <> v -> view_get_linear d (view_set_linear d v b base) w = view_get_linear d base w)
  /\ p_quad (view_set_linear d v b base) = p_quad base
  /\ (forall x y, view_get_quadratic d (view_set_linear d v b base) x y = view_get_quadratic d base x y)
  /\ view_offset_gen d (view_set_linear d v b base) = view_offset_gen d base.
Proof.
  unfold view_set_linear. repeat split.
  - rewrite !view_get_linear_add_linear, Nat.eqb_refl. ring.
  - intros w Hw. rewrite !view_get_linear_add_linear.
    destruct (Nat.eqb_spec v w) as [E|_]; [exfalso; apply Hw; symmetry; exact E|ring].
  - rewrite !p_quad_view_add_linear. reflexivity.
  - intros x y. rewrite !view_get_quadratic_add_linear. reflexivity.
  - rewrite !view_offset_gen_add_linear. reflexivity.
Qed.

(* the same as an edit of the reported (converted) polynomial *)
Theorem view_set_linear_energy d v b base y :
  energy (view_poly d (view_set_linear d v b base)) y
  = energy (view_poly d base) y + (b - view_get_linear d base v) * y v.
Proof.
  rewrite !view_poly_energy. unfold view_set_linear.
  rewrite !view_add_linear_energy, view_base_value, view_get_linear_add_linear, Nat.eqb_refl. ring.
Qed.

(* ---------- C02 (writes): set_quadratic ---------- *)
Lemma view_set_quadratic_unfold d u v b base :
  u <> v ->
  let p3 := view_add_quadratic d u v 0 (view_add_variable d v 0 (view_add_variable d u 0 base)) in
  p_quad p3 = (u, v, kq_add d * 0) :: p_quad base
  /\ view_set_quadratic d u v b base
     = view_add_quadratic d u v (b - gen_get_quadratic d * quad_coeff (p_quad base) u v) p3.
Proof.
  intros Huv p3.
  assert (Hq : p_quad p3 = (u, v, kq_add d * 0) :: p_quad base).
  { unfold p3, view_add_variable. rewrite p_quad_view_add_quadratic.
    repeat (rewrite p_quad_view_add_linear || rewrite p_quad_data_add_variable). reflexivity. }
  split; [exact Hq|].
  unfold view_set_quadratic. fold p3. unfold view_get_quadratic.
  destruct (Nat.eqb_spec u v) as [E|_]; [contradiction|].
  rewrite Hq, has_pair_cons, same_pair_refl. cbn [orb].
  rewrite quad_coeff_cons, same_pair_refl. f_equal. f_equal. ring.
Qed.

Theorem view_set_quadratic_spec d u v b base :
  u <> v ->
  view_get_quadratic d (view_set_quadratic d u v b base) u v = Some b
  /\ (forall x y, same_pair x y u v = false ->
        view_get_quadratic d (view_set_quadratic d u v b base) x y = view_get_quadratic d base x y)
  /\ (forall x y, quad_coeff (view_iter_quadratic d (view_set_quadratic d u v b base)) x y
                  = if same_pair x y u v then b else quad_coeff (view_iter_quadratic d base) x y)
  /\ (forall w, view_get_linear d (view_set_quadratic d u v b base) w = view_get_linear d base w)
  /\ view_offset_gen d (view_set_quadratic d u v b base) = view_offset_gen d base.
Proof.
  intros Huv. destruct (view_set_quadratic_unfold d u v b base Huv) as [Hq3 ->].
  set (p3 := view_add_quadratic d u v 0 (view_add_variable d v 0 (view_add_variable d u 0 base))) in *.
  set (c := b - gen_get_quadratic d * quad_coeff (p_quad base) u v).
  assert (Hq : p_quad (view_add_quadratic d u v c p3)
               = (u, v, kq_add d * c) :: (u, v, kq_add d * 0) :: p_quad base)
    by (rewrite p_quad_view_add_quadratic, Hq3; reflexivity).
  assert (Hc : gen_get_quadratic d * (kq_add d * c + (kq_add d * 0 + quad_coeff (p_quad base) u v)) = b).
  { transitivity ((gen_get_quadratic d * kq_add d) * c + gen_get_quadratic d * quad_coeff (p_quad base) u v);
      [ring|]. rewrite get_add_quadratic_inverse. unfold c. ring. }
  repeat split.
  - unfold view_get_quadratic. destruct (Nat.eqb_spec u v) as [E|_]; [contradiction|].
    rewrite Hq, has_pair_cons, same_pair_refl. cbn [orb].
    rewrite !quad_coeff_cons, same_pair_refl. f_equal. exact Hc.
  - intros x y Hxy. unfold view_get_quadratic. rewrite Hq, !has_pair_cons, !quad_coeff_cons, Hxy.
    cbn [orb]. destruct (x =? y)%nat; [reflexivity|]. destruct (has_pair (p_quad base) x y); [|reflexivity].
    f_equal. ring.
  - intros x y. unfold view_iter_quadratic. rewrite !quad_coeff_scale, Hq, !quad_coeff_cons.
    destruct (same_pair x y u v) eqn:Hxy.
    + assert (Hsw : quad_coeff (p_quad base) x y = quad_coeff (p_quad base) u v)
        by (apply quad_coeff_same_pair; exact Hxy).
      rewrite Hsw, <- gen_get_iter_quadratic. exact Hc.
    + ring.
  - intros w. rewrite view_get_linear_add_quadratic by exact Huv. unfold p3, view_add_variable.
    rewrite view_get_linear_add_quadratic by exact Huv.
    repeat (rewrite view_get_linear_add_linear || rewrite view_get_linear_data_add_variable).
    destruct (v =? w)%nat, (u =? w)%nat; ring.
  - rewrite view_offset_gen_add_quadratic. unfold p3, view_add_variable.
    rewrite view_offset_gen_add_quadratic.
    repeat (rewrite view_offset_gen_add_linear || rewrite view_offset_gen_data_add_variable). reflexivity.
Qed.

Theorem view_set_quadratic_energy d u v b base y :
  u <> v ->
  energy (view_poly d (view_set_quadratic d u v b base)) y
  = energy (view_poly d base) y
    + (b - gen_get_quadratic d * quad_coeff (p_quad base) u v) * y u * y v.
Proof.
  intros Huv. destruct (view_set_quadratic_unfold d u v b base Huv) as [_ ->].
  rewrite !view_poly_energy. unfold view_add_variable.
  rewrite !view_add_quadratic_energy.
  repeat (rewrite view_add_linear_energy || rewrite energy_data_add_variable).
  rewrite !view_base_value. ring.
Qed.

(* ---------- C02 (writes): the offset setter ---------- *)
Lemma gen_offset_on_offset d : fst (fst (gen_offset d)) = 1.
Proof. destruct d; reflexivity. Qed.

Theorem view_set_offset_spec d b base :
  view_offset_gen d (view_set_offset d b base) = b
  /\ p_lin (view_set_offset d b base) = p_lin base
  /\ p_quad (view_set_offset d b base) = p_quad base
  /\ (forall v, view_get_linear d (view_set_offset d b base) v = view_get_linear d base v)
  /\ (forall u v, view_get_quadratic d (view_set_offset d b base) u v = view_get_quadratic d base u v).
Proof.
  repeat split.
  unfold view_set_offset, view_offset_gen, add_offset, sum_lin, sum_quad. cbn [p_off p_lin p_quad].
  pose proof (gen_offset_on_offset d) as H. destruct (gen_offset d) as [[ko kl] kq]. cbn [fst] in H. subst ko.
  ring.
Qed.

Theorem view_set_offset_energy d b base y :
  energy (view_poly d (view_set_offset d b base)) y
  = energy (view_poly d base) y + (b - view_offset_gen d base).
Proof. rewrite !view_poly_energy. unfold view_set_offset. rewrite energy_add_offset. reflexivity. Qed.

(* ---------- C01 through the view: energies ---------- *)
(* the sample values the view accepts *)
Definition in_view_domain (d : vdir) (x : Qc) : Prop :=
  match d with BinOverSpin => x = 0 \/ x = 1 | SpinOverBin => x = 1 \/ x = - (1) end.

Lemma floor_div_two_2 : floor_div (1 + 1) two = 1.
Proof. apply Qc_is_canon. vm_compute. reflexivity. Qed.
Lemma floor_div_two_0 : floor_div (- (1) + 1) two = 0.
Proof. apply Qc_is_canon. vm_compute. reflexivity. Qed.

(* the in-place conversion of `energies` is the exact change of variable on the view's domain
   (binary -> spin is exact everywhere; spin -> binary uses a floor division) *)
Theorem view_sample_value_spec d x : in_view_domain d x -> view_sample_value d x = base_value d x.
Proof.
  destruct d; unfold in_view_domain, view_sample_value, base_value;
    cbn [gen_energies_steps fold_left apply_step]; intros H.
  - ring.
  - destruct H as [-> | ->].
    + rewrite floor_div_two_2. symmetry. exact two_half.
    + rewrite floor_div_two_0. ring.
Qed.

Theorem view_energies_spec d base y :
  (forall v, in_view_domain d (y v)) -> view_energy d base y = energy (view_poly d base) y.
Proof.
  intros H. rewrite view_poly_energy. unfold view_energy. apply energy_ext. intros w.
  apply view_sample_value_spec, H.
Qed.

(* ---------- the composed writes seen from the base ---------- *)
Lemma view_set_quadratic_energy_base d u v b base s :
  u <> v ->
  energy (view_set_quadratic d u v b base) s
  = energy base s
    + (b - gen_get_quadratic d * quad_coeff (p_quad base) u v) * view_value d (s u) * view_value d (s v).
Proof.
  intros Huv. destruct (view_set_quadratic_unfold d u v b base Huv) as [_ ->]. unfold view_add_variable.
  rewrite !view_add_quadratic_energy.
  repeat (rewrite view_add_linear_energy || rewrite energy_data_add_variable). ring.
Qed.

Lemma view_set_linear_energy_base d v b base s :
  energy (view_set_linear d v b base) s
  = energy base s + (b - view_get_linear d base v) * view_value d (s v).
Proof.
  unfold view_set_linear. rewrite !view_add_linear_energy, view_get_linear_add_linear, Nat.eqb_refl. ring.
Qed.

Lemma no_self_loop_set_quadratic d u v b base :
  u <> v -> no_self_loop base -> no_self_loop (view_set_quadratic d u v b base).
Proof.
  intros Huv H. destruct (view_set_quadratic_unfold d u v b base Huv) as [Hq3 ->].
  unfold no_self_loop. rewrite p_quad_view_add_quadratic, Hq3.
  intros t [<- | [<- | Ht]]; cbn [fst snd]; [exact Huv|exact Huv|apply H; exact Ht].
Qed.

Lemma no_self_loop_set_linear d v b base :
  no_self_loop base -> no_self_loop (view_set_linear d v b base).
Proof.
  intros H. unfold no_self_loop, view_set_linear. rewrite !p_quad_view_add_linear. exact H.
Qed.

(* ---------- remove_interaction ---------- *)
Lemma quad_energy_split_pair (q : list qterm) u v s :
  quad_energy q s
  = quad_energy (filter (fun t => negb (same_pair u v (fst (fst t)) (snd (fst t)))) q) s
    + quad_coeff q u v * s u * s v.
Proof.
  induction q as [|[[x y] b] q IH]; [unfold quad_energy, quad_coeff; cbn [filter map qsum]; ring|].
  cbn [filter fst snd]. rewrite quad_coeff_cons, quad_energy_cons, IH. cbn [fst snd].
  destruct (same_pair u v x y) eqn:E; cbn [negb].
  - unfold same_pair in E.
    destruct (Nat.eqb_spec u x), (Nat.eqb_spec v y), (Nat.eqb_spec u y), (Nat.eqb_spec v x);
      cbn [andb orb] in E; try discriminate E; subst; ring.
  - rewrite quad_energy_cons. cbn [fst snd]. ring.
Qed.

Lemma energy_remove_interaction u v p s :
  energy (remove_interaction u v p) s = energy p s - quad_coeff (p_quad p) u v * s u * s v.
Proof.
  unfold energy, remove_interaction. cbn [p_off p_lin p_quad].
  rewrite (quad_energy_split_pair (p_quad p) u v s). ring.
Qed.

Lemma gen_get_quadratic_neq0 d : gen_get_quadratic d <> 0.
Proof.
  intros H. pose proof (get_add_quadratic_inverse d) as E. rewrite H in E.
  assert (E' : (0 : Qc) = 1) by (rewrite <- E; ring). discriminate E'.
Qed.

Lemma has_pair_remove_interaction u v (q : list qterm) :
  has_pair (filter (fun t => negb (same_pair u v (fst (fst t)) (snd (fst t)))) q) u v = false.
Proof.
  unfold has_pair. induction q as [|t q IH]; [reflexivity|]. cbn [filter].
  destruct (same_pair u v (fst (fst t)) (snd (fst t))) eqn:E; cbn [negb]; [exact IH|].
  cbn [existsb]. rewrite E, IH. reflexivity.
Qed.

(* remove_interaction through the view = remove_interaction on the reported polynomial;
   it fails (None) exactly when get_quadratic does *)
Theorem view_remove_interaction_spec d u v base base' :
  view_remove_interaction d u v base = Some base' ->
  view_get_quadratic d base' u v = None
  /\ forall y, energy (view_poly d base') y = energy (remove_interaction u v (view_poly d base)) y.
Proof.
  unfold view_remove_interaction. destruct (view_get_quadratic d base u v) as [q0|] eqn:G; [|discriminate].
  intros E. injection E as <-.
  assert (Huv : u <> v).
  { unfold view_get_quadratic in G. destruct (Nat.eqb_spec u v); [discriminate G|assumption]. }
  split.
  - unfold view_get_quadratic, remove_interaction. cbn [p_quad].
    rewrite has_pair_remove_interaction. destruct (u =? v)%nat; reflexivity.
  - intros y. rewrite view_poly_energy, !energy_remove_interaction, <- view_poly_energy.
    rewrite view_set_quadratic_energy by exact Huv.
    destruct (view_set_quadratic_spec d u v 0 base Huv) as [_ [_ [Hc _]]].
    specialize (Hc u v). rewrite same_pair_refl in Hc. unfold view_iter_quadratic in Hc.
    rewrite quad_coeff_scale in Hc.
    assert (Hz : quad_coeff (p_quad (view_set_quadratic d u v 0 base)) u v = 0).
    { destruct (Qcmult_integral _ _ Hc) as [H0|H0]; [|exact H0].
      exfalso. apply (gen_get_quadratic_neq0 d). rewrite gen_get_iter_quadratic. exact H0. }
    rewrite Hz, view_poly_quad_coeff, gen_get_iter_quadratic. ring.
Qed.

Theorem view_remove_interaction_none d u v base :
  view_remove_interaction d u v base = None <-> view_get_quadratic d base u v = None.
Proof.
  unfold view_remove_interaction. destruct (view_get_quadratic d base u v); split; intros H;
    try discriminate H; reflexivity.
Qed.

(* ---------- remove_variable ---------- *)

(* removing a variable = evaluating at 0 for it *)
Lemma upd_hit (s : sample) v a w : w = v -> upd s v a w = a.
Proof. intros ->. unfold upd. rewrite Nat.eqb_refl. reflexivity. Qed.
Lemma upd_miss (s : sample) v a w : w <> v -> upd s v a w = s w.
Proof. intros H. unfold upd. destruct (Nat.eqb_spec w v); [contradiction|reflexivity]. Qed.

Lemma energy_remove_variable_upd0 v p s : energy (remove_variable v p) s = energy p (upd s v 0).
Proof.
  unfold energy, remove_variable. cbn [p_off p_lin p_quad]. f_equal; [f_equal|].
  - induction (p_lin p) as [|t l IH]; [reflexivity|]. cbn [filter].
    rewrite (lin_energy_cons t l (upd s v 0)).
    destruct (Nat.eqb_spec (fst t) v) as [E|E]; cbn [negb].
    + rewrite IH, (upd_hit s v 0 _ E). ring.
    + rewrite lin_energy_cons, IH, (upd_miss s v 0 _ E). reflexivity.
  - induction (p_quad p) as [|t l IH]; [reflexivity|]. cbn [filter].
    rewrite (quad_energy_cons t l (upd s v 0)).
    destruct (mentions v t) eqn:M; cbn [negb]; unfold mentions in M.
    + apply orb_true_iff in M. destruct M as [M|M]; apply Nat.eqb_eq in M;
        rewrite IH, (upd_hit s v 0 _ M); ring.
    + apply orb_false_elim in M. destruct M as [M1 M2]. apply Nat.eqb_neq in M1, M2.
      rewrite quad_energy_cons, IH, (upd_miss s v 0 _ M1), (upd_miss s v 0 _ M2). reflexivity.
Qed.

(* every polynomial has a label bound *)
Definition all_labels (p : poly) : list nat :=
  map fst (p_lin p) ++ flat_map (fun t => [fst (fst t); snd (fst t)]) (p_quad p).

Lemma labels_below_exists p : exists n, labels_below n p.
Proof.
  exists (S (list_max (all_labels p))).
  assert (H : forall x, In x (all_labels p) -> (x < S (list_max (all_labels p)))%nat).
  { intros x Hx. apply Nat.lt_succ_r.
    pose proof (proj1 (list_max_le (all_labels p) (list_max (all_labels p))) (Nat.le_refl _)) as F.
    rewrite Forall_forall in F. apply F. exact Hx. }
  unfold all_labels in H. split.
  - intros t Ht. apply H. apply in_or_app. left. apply in_map. exact Ht.
  - intros t Ht. split; apply H; apply in_or_app; right; apply in_flat_map; exists t;
      (split; [exact Ht|]); [left|right; left]; reflexivity.
Qed.

(* a variable all of whose coefficients vanish does not influence the energy *)
Lemma energy_indep_var p v y a :
  lin_coeff (p_lin p) v = 0 -> (forall u, quad_coeff (p_quad p) u v = 0) ->
  energy p (upd y v a) = energy p y.
Proof.
  intros Hl Hq. destruct (labels_below_exists p) as [n Hn].
  rewrite !(energy_grouped n p _ Hn). f_equal; [f_equal|].
  - apply qsum_map_ext_in. intros w _. unfold upd.
    destruct (Nat.eqb_spec w v) as [->|_]; [rewrite Hl; ring|reflexivity].
  - apply qsum_map_ext_in. intros w _. apply qsum_map_ext_in. intros x _. unfold upd.
    destruct (Nat.eqb_spec w v) as [->|_]; [rewrite quad_coeff_sym, Hq; ring|].
    destruct (Nat.eqb_spec x v) as [->|_]; [rewrite Hq; ring|reflexivity].
Qed.

(* neighbours of v in the base *)
Lemma view_neighbors_eq d base v :
  map fst (view_iter_neighborhood d base v) = map (other_end v) (filter (mentions v) (p_quad base)).
Proof.
  unfold view_iter_neighborhood, base_neighborhood. rewrite !map_map. apply map_ext. reflexivity.
Qed.

Lemma neighbors_neq v (q : list qterm) u :
  (forall t, In t q -> fst (fst t) <> snd (fst t)) ->
  In u (map (other_end v) (filter (mentions v) q)) -> u <> v.
Proof.
  intros H Hin. apply in_map_iff in Hin. destruct Hin as [t [<- Ht]].
  apply filter_In in Ht. destruct Ht as [Ht Hm]. specialize (H t Ht).
  unfold other_end. unfold mentions in Hm.
  destruct (Nat.eqb_spec (fst (fst t)) v) as [E|E]; [congruence|exact E].
Qed.

Lemma quad_coeff_non_neighbor v (q : list qterm) u :
  ~ In u (map (other_end v) (filter (mentions v) q)) -> quad_coeff q u v = 0.
Proof.
  induction q as [|[[x y] b] q IH]; intros H; [reflexivity|].
  rewrite quad_coeff_cons. cbn [filter] in H. rewrite mentions_pair in H.
  destruct (same_pair u v x y) eqn:E.
  - exfalso. apply H. unfold same_pair in E.
    destruct (Nat.eqb_spec u x), (Nat.eqb_spec v y), (Nat.eqb_spec u y), (Nat.eqb_spec v x);
      cbn [andb orb] in E; try discriminate E; subst;
      rewrite ?Nat.eqb_refl, ?orb_true_r; cbn [orb map]; left; unfold other_end; cbn [fst snd];
      rewrite ?Nat.eqb_refl; try reflexivity.
    destruct (Nat.eqb_spec x y); congruence.
  - rewrite IH; [ring|]. intros Hin. apply H.
    destruct ((x =? v) || (y =? v))%nat; [right|]; exact Hin.
Qed.

(* after the loop `for u, _ in self.iter_neighborhood(v): self.set_quadratic(u, v, 0)` *)
Lemma zero_neighborhood_props d v us :
  (forall u, In u us -> u <> v) ->
  forall base, no_self_loop base ->
  no_self_loop (view_zero_neighborhood d v us base)
  /\ ((forall u, ~ In u us -> quad_coeff (view_iter_quadratic d base) u v = 0) ->
      forall u, quad_coeff (view_iter_quadratic d (view_zero_neighborhood d v us base)) u v = 0)
  /\ (forall w, view_get_linear d (view_zero_neighborhood d v us base) w = view_get_linear d base w)
  /\ (forall s, view_value d (s v) = 0 -> energy (view_zero_neighborhood d v us base) s = energy base s).
Proof.
  induction us as [|a us IH]; intros Hne base Hns.
  - unfold view_zero_neighborhood. cbn [fold_left]. repeat split; auto.
  - assert (Hav : a <> v) by (apply Hne; left; reflexivity).
    assert (Hne' : forall u, In u us -> u <> v) by (intros u Hu; apply Hne; right; exact Hu).
    unfold view_zero_neighborhood. cbn [fold_left].
    fold (view_zero_neighborhood d v us (view_set_quadratic d a v 0 base)).
    destruct (IH Hne' _ (no_self_loop_set_quadratic d a v 0 base Hav Hns)) as [I1 [I2 [I3 I4]]].
    destruct (view_set_quadratic_spec d a v 0 base Hav) as [_ [_ [S3 [S4 _]]]].
    repeat split.
    + exact I1.
    + intros H0. apply I2. intros u Hu. rewrite S3.
      destruct (same_pair u v a v) eqn:E; [reflexivity|]. apply H0. intros [Ha|Hin]; [|contradiction].
      subst u. rewrite same_pair_refl in E. discriminate E.
    + intros w. rewrite I3. apply S4.
    + intros s Hs. rewrite I4 by exact Hs. rewrite view_set_quadratic_energy_base by exact Hav.
      rewrite Hs. ring.
Qed.

(* the state just before `self.data.remove_variable(v)`: every coefficient the view reports for v is 0,
   nothing else the view reports has changed, and the base energy no longer depends on v *)
Lemma zero_variable_props d v base :
  no_self_loop base ->
  lin_coeff (p_lin (view_poly d (view_zero_variable d v base))) v = 0
  /\ (forall u, quad_coeff (p_quad (view_poly d (view_zero_variable d v base))) u v = 0)
  /\ (forall s, view_value d (s v) = 0 -> energy (view_zero_variable d v base) s = energy base s).
Proof.
  intros Hns. unfold view_zero_variable. rewrite view_neighbors_eq.
  set (us := map (other_end v) (filter (mentions v) (p_quad base))).
  assert (Hne : forall u, In u us -> u <> v) by (intros u Hu; apply (neighbors_neq v (p_quad base) u Hns Hu)).
  destruct (zero_neighborhood_props d v us Hne base Hns) as [Z1 [Z2 [Z3 Z4]]].
  set (b1 := view_zero_neighborhood d v us base) in *.
  destruct (view_set_linear_spec d v 0 b1) as [L1 [_ [L3 _]]].
  repeat split.
  - rewrite view_poly_lin_coeff by (apply no_self_loop_set_linear; exact Z1). exact L1.
  - intros u. unfold view_poly, view_iter_quadratic. cbn [p_quad]. rewrite L3.
    apply Z2. intros u0 Hu0. unfold view_iter_quadratic. rewrite quad_coeff_scale.
    rewrite (quad_coeff_non_neighbor v (p_quad base) u0 Hu0). ring.
  - intros s Hs. rewrite view_set_linear_energy_base, Hs, Z4 by exact Hs. ring.
Qed.

(* THE BASE after remove_variable through the view: v is evaluated at the base value that the view
   shows as 0 (spin -1 under a binary view, binary 1/2 under a spin view) - this is what the zeroing
   before data.remove_variable is for *)
Theorem view_remove_variable_base_energy d v base s :
  no_self_loop base ->
  energy (view_remove_variable d v base) s = energy base (upd s v (base_value d 0)).
Proof.
  intros Hns. destruct (zero_variable_props d v base Hns) as [P1 [P2 P3]].
  unfold view_remove_variable. rewrite energy_remove_variable_upd0.
  set (b1 := view_zero_variable d v base) in *.
  assert (Hind : forall a, energy b1 (upd s v a) = energy (view_poly d b1) (fun w => view_value d (s w))).
  { intros a. rewrite (view_poly_energy_base d b1).
    rewrite (energy_ext _ _ (upd (fun w => view_value d (s w)) v (view_value d a)))
      by (intros w; unfold upd; destruct (w =? v)%nat; reflexivity).
    apply energy_indep_var; assumption. }
  rewrite (Hind 0), <- (Hind (base_value d 0)).
  apply P3. unfold upd. rewrite Nat.eqb_refl. rewrite view_base_value. reflexivity.
Qed.

(* what the view reports afterwards is remove_variable on what it reported before *)
Theorem view_remove_variable_spec d v base y :
  no_self_loop base ->
  energy (view_poly d (view_remove_variable d v base)) y
  = energy (remove_variable v (view_poly d base)) y.
Proof.
  intros Hns. rewrite view_poly_energy, view_remove_variable_base_energy by exact Hns.
  rewrite energy_remove_variable_upd0, view_poly_energy. apply energy_ext. intros w.
  unfold upd. destruct (w =? v)%nat; reflexivity.
Qed.

(* the base afterwards = convert, remove, convert back *)
Theorem view_remove_variable_roundtrip d v vars base s :
  no_self_loop base -> NoDup vars -> mentions_only base vars ->
  energy (view_remove_variable d v base) s
  = energy (view_copy_back d vars (remove_variable v (view_copy d vars base))) s.
Proof.
  intros Hns Hnd Hm. rewrite view_remove_variable_base_energy by exact Hns.
  destruct d; unfold view_copy_back, view_copy;
    rewrite substitute_many_energy, energy_remove_variable_upd0, substitute_many_energy by exact Hnd;
    apply (energy_depends_on_vars base vars); try exact Hm; intros w Hw;
    rewrite (existsb_in w vars Hw); unfold upd, base_value;
    destruct (w =? v)%nat; rewrite ?(existsb_in w vars Hw); qc_id.
Qed.

(* ---------- the literal reading loop `{v: view.get_linear(v) for v in view.variables}` ---------- *)
Lemma lin_energy_by_vars (l : list lterm) vars y :
  NoDup vars -> (forall t, In t l -> In (fst t) vars) ->
  lin_energy l y = qsum (map (fun k => lin_coeff l k * y k) vars).
Proof.
  intros Hnd Hin. unfold lin_energy, lin_coeff, lterm_val.
  apply (group_sum Nat.eqb Nat.eqb_eq fst snd y l vars Hnd Hin).
Qed.

Theorem view_poly_vars_energy d vars base y :
  NoDup vars -> mentions_only base vars -> no_self_loop base ->
  energy (view_poly_vars d vars base) y = energy (view_poly d base) y.
Proof.
  intros Hnd [Hl Hq] Hns. unfold energy, view_poly_vars. cbn [p_off p_lin p_quad]. f_equal. f_equal.
  rewrite (lin_energy_by_vars (p_lin (view_poly d base)) vars y Hnd).
  - unfold lin_energy, lterm_val. rewrite map_map. cbn [fst snd].
    apply qsum_map_ext_in. intros k _. rewrite view_poly_lin_coeff by exact Hns. reflexivity.
  - intros t Ht. unfold view_poly, view_lin_terms in Ht. cbn [p_lin] in Ht.
    destruct (gen_get_linear d) as [kl kn]. apply in_app_or in Ht. destruct Ht as [Ht|Ht].
    + apply in_map_iff in Ht. destruct Ht as [t0 [<- Ht0]]. cbn [fst]. apply Hl. exact Ht0.
    + apply in_flat_map in Ht. destruct Ht as [t0 [Ht0 [<-|[<-|[]]]]]; cbn [fst]; apply (Hq t0 Ht0).
Qed.

(* view.reduce_linear(add, 0) is the sum of the reported linear coefficients *)
Theorem view_reduce_linear_spec d vars base :
  view_reduce_linear d vars base = sum_lin (view_poly_vars d vars base).
Proof. unfold view_reduce_linear, sum_lin, view_poly_vars. cbn [p_lin]. rewrite map_map. reflexivity. Qed.

Print Assumptions view_poly_energy.
Print Assumptions view_poly_lin_coeff.
Print Assumptions view_get_quadratic_poly.
Print Assumptions view_offset_gen_eq.
Print Assumptions view_poly_is_converted.
Print Assumptions view_reads_are_converted_coefficients.
Print Assumptions view_poly_vars_energy.
Print Assumptions view_set_linear_spec.
Print Assumptions view_set_linear_energy.
Print Assumptions view_set_quadratic_spec.
Print Assumptions view_set_quadratic_energy.
Print Assumptions view_set_offset_spec.
Print Assumptions view_set_offset_energy.
Print Assumptions view_remove_interaction_spec.
Print Assumptions view_remove_variable_base_energy.
Print Assumptions view_remove_variable_spec.
Print Assumptions view_remove_variable_roundtrip.
Print Assumptions view_sample_value_spec.
Print Assumptions view_energies_spec.
