(* C15 / BinaryPolynomial.__init__: repeated variables inside a term are reduced
   (x*x = x for BINARY, s*s = 1 for SPIN) without changing the energy *)
From Coq Require Import List ZArith QArith Qcanon Bool Arith Lia.
From Dimod Require Import Base.Util Model.Poly Model.HPoly Model.Reduce Proofs.PolyFacts Proofs.HPolyFacts.
Import ListNotations.
Open Scope Qc_scope.

Lemma existsb_eqb_In x l : existsb (Nat.eqb x) l = true <-> In x l.
Proof.
  rewrite existsb_exists. split.
  - intros [y [Hin He]]. apply Nat.eqb_eq in He. subst. exact Hin.
  - intros Hin. exists x. split; [exact Hin|apply Nat.eqb_refl].
Qed.

Lemma In_dedup v l : In v (dedup l) <-> In v l.
Proof.
  induction l as [|x xs IH]; cbn [dedup]; [tauto|].
  destruct (existsb (Nat.eqb x) xs) eqn:E.
  - rewrite IH. split; [right; assumption|]. intros [<-|H]; [apply existsb_eqb_In; exact E|exact H].
  - cbn [In]. rewrite IH. tauto.
Qed.

Lemma NoDup_dedup l : NoDup (dedup l).
Proof.
  induction l as [|x xs IH]; cbn [dedup]; [constructor|].
  destruct (existsb (Nat.eqb x) xs) eqn:E; [exact IH|].
  constructor; [|exact IH]. rewrite In_dedup. intros H. apply existsb_eqb_In in H. congruence.
Qed.

(* ---------- BINARY ---------- *)
Lemma idem_absorb (s : sample) x l :
  s x * s x = s x -> In x l -> s x * qprod (map s l) = qprod (map s l).
Proof.
  intros Hx. induction l as [|y ys IH]; intros Hin; [destruct Hin|]. cbn [map qprod].
  destruct Hin as [->|Hin].
  - rewrite Qcmult_assoc, Hx. reflexivity.
  - rewrite Qcmult_assoc, (Qcmult_comm (s x) (s y)), <- Qcmult_assoc, (IH Hin). reflexivity.
Qed.

Lemma dedup_val_binary (s : sample) vs :
  (forall v, s v * s v = s v) -> qprod (map s (binary_reduce_vars vs)) = qprod (map s vs).
Proof.
  intros Hb. unfold binary_reduce_vars. induction vs as [|x xs IH]; cbn [dedup map qprod]; [reflexivity|].
  destruct (existsb (Nat.eqb x) xs) eqn:E.
  - rewrite IH. symmetry. apply idem_absorb; [apply Hb|apply existsb_eqb_In; exact E].
  - cbn [map qprod]. rewrite IH. reflexivity.
Qed.

(* ---------- SPIN ---------- *)
Fixpoint qpow (q : Qc) (n : nat) : Qc := match n with O => 1 | S k => q * qpow q k end.

Lemma spin_pow q n : q * q = 1 -> qpow q n = if Nat.odd n then q else 1.
Proof.
  intros Hq. induction n as [|n IH]; [reflexivity|].
  cbn [qpow]. rewrite IH, Nat.odd_succ, <- Nat.negb_odd.
  destruct (Nat.odd n); cbn [negb]; [exact Hq|ring].
Qed.

Lemma prod_bump_notin (s : sample) x (c : nat -> nat) D :
  ~ In x D ->
  qprod (map (fun d => qpow (s d) ((if (x =? d)%nat then 1 else 0) + c d)) D)
  = qprod (map (fun d => qpow (s d) (c d)) D).
Proof.
  intros Hn. f_equal. apply map_ext_in. intros d Hd.
  destruct (Nat.eqb_spec x d) as [E|E]; [subst; contradiction|reflexivity].
Qed.

Lemma prod_bump_in (s : sample) x (c : nat -> nat) D :
  NoDup D -> In x D ->
  qprod (map (fun d => qpow (s d) ((if (x =? d)%nat then 1 else 0) + c d)) D)
  = s x * qprod (map (fun d => qpow (s d) (c d)) D).
Proof.
  induction D as [|d D' IH]; intros Hnd Hin; [destruct Hin|].
  inversion Hnd as [|d' D'' Hd Hnd']; subst. cbn [map qprod].
  destruct Hin as [->|Hin].
  - rewrite Nat.eqb_refl. rewrite (prod_bump_notin s x c D' Hd). cbn [plus qpow]. ring.
  - destruct (Nat.eqb_spec x d) as [E|E]; [subst; contradiction|].
    rewrite (IH Hnd' Hin). cbn [plus]. ring.
Qed.

Lemma qprod_ones {A} (l : list A) : qprod (map (fun _ => 1) l) = 1.
Proof. induction l as [|x xs IH]; cbn [map qprod]; [reflexivity|rewrite IH; ring]. Qed.

Lemma prod_by_count (s : sample) D vs :
  NoDup D -> (forall v, In v vs -> In v D) ->
  qprod (map s vs) = qprod (map (fun d => qpow (s d) (count_occ_nat d vs)) D).
Proof.
  intros Hnd. induction vs as [|x xs IH]; intros Hin.
  - cbn [map qprod count_occ_nat qpow]. symmetry. apply qprod_ones.
  - cbn [map qprod]. rewrite IH by (intros v Hv; apply Hin; right; exact Hv).
    symmetry. cbn [count_occ_nat].
    apply (prod_bump_in s x (fun d => count_occ_nat d xs) D Hnd). apply Hin. left. reflexivity.
Qed.

Lemma prod_filter (s : sample) (f : nat -> bool) D :
  qprod (map s (filter f D)) = qprod (map (fun d => if f d then s d else 1) D).
Proof.
  induction D as [|d D' IH]; cbn [filter map qprod]; [reflexivity|].
  destruct (f d); cbn [map qprod]; rewrite IH; ring.
Qed.

Lemma dedup_val_spin (s : sample) vs :
  (forall v, s v * s v = 1) -> qprod (map s (spin_reduce_vars vs)) = qprod (map s vs).
Proof.
  intros Hs. unfold spin_reduce_vars. rewrite prod_filter.
  rewrite (prod_by_count s (dedup vs) vs (NoDup_dedup vs)) by (intros v Hv; apply In_dedup; exact Hv).
  f_equal. apply map_ext. intros d. symmetry. apply spin_pow. apply Hs.
Qed.

(* ---------- the polynomial ---------- *)
Theorem normalise_energy_binary raw (s : sample) :
  (forall v, s v * s v = s v) -> henergy (normalise BINARY raw) s = henergy raw s.
Proof.
  intros Hb. unfold henergy, normalise. rewrite map_map. f_equal. apply map_ext. intros t.
  unfold mono_val. cbn [fst snd]. rewrite (dedup_val_binary s (fst t) Hb). reflexivity.
Qed.

Theorem normalise_energy_spin raw (s : sample) :
  (forall v, s v * s v = 1) -> henergy (normalise SPIN raw) s = henergy raw s.
Proof.
  intros Hs. unfold henergy, normalise. rewrite map_map. f_equal. apply map_ext. intros t.
  unfold mono_val. cbn [fst snd]. rewrite (dedup_val_spin s (fst t) Hs). reflexivity.
Qed.

(* normalised terms are duplicate-free: the hypothesis of the reduction theorem holds *)
Lemma NoDup_nodupb l : NoDup l -> nodupb l = true.
Proof.
  induction 1 as [|x l Hx Hnd IH]; [reflexivity|]. cbn [nodupb]. rewrite IH, andb_true_r.
  apply negb_true_iff. unfold mem. destruct (existsb (Nat.eqb x) l) eqn:E; [|reflexivity].
  apply existsb_eqb_In in E. contradiction.
Qed.

Theorem normalise_terms_nodup vt raw : terms_nodup (normalise vt raw) = true.
Proof.
  unfold terms_nodup, normalise. rewrite forallb_forall. intros t Ht. apply in_map_iff in Ht.
  destruct Ht as [t0 [<- _]]. cbn [fst]. apply NoDup_nodupb.
  destruct vt; try apply NoDup_dedup. unfold spin_reduce_vars. apply NoDup_filter. apply NoDup_dedup.
Qed.
