(* QuadraticModelBase::substitute_variables (all variables at once) and
   BinaryQuadraticModel::change_vartype on the adjacency model: closed forms,
   invariant, energy (needs: no self-loops), round trip, and the refutation
   showing that the no-self-loop hypothesis is necessary. *)
From Coq Require Import List ZArith QArith Qcanon Bool Arith Lia Sorted.
From Dimod Require Import Base.Util Model.Poly Model.Adj Model.AdjSubstAll Proofs.PolyFacts
  Proofs.AdjNb Proofs.AdjInv Proofs.AdjRW Proofs.AdjEnergy Proofs.AdjDense.
Import ListNotations.
Local Open Scope nat_scope.

(* ---------- closed forms of the three loops ---------- *)
Definition rsum (n : nbh) : Qc := qsum (map snd n).

Lemma pair_eq3 {A B C} (a a' : A) (b b' : B) (c c' : C) :
  a = a' -> b = b' -> c = c' -> (a, b, c) = (a', b', c').
Proof. intros -> -> ->. reflexivity. Qed.

Lemma sv_pass1_eq k c l o :
  sv_pass1 k c l o = (map (fun b => (b * k)%Qc) l, (o + c * qsum l)%Qc).
Proof.
  revert o. induction l as [|b r IH]; intros o; cbn [sv_pass1 map qsum].
  - f_equal. ring.
  - rewrite IH. f_equal. ring.
Qed.

Lemma sv_row_eq q lq qo n lv o :
  sv_row q lq qo n lv o = (nb_scale q n, (lv + lq * rsum n)%Qc, (o + qo * rsum n)%Qc).
Proof.
  revert lv o. induction n as [|[w b] r IH]; intros lv o; unfold rsum; cbn [sv_row nb_scale map qsum fst snd].
  - apply pair_eq3; [reflexivity|ring|ring].
  - rewrite IH. fold (nb_scale q r). unfold rsum. apply pair_eq3; [|ring|ring].
    f_equal. f_equal. ring.
Qed.

Fixpoint lin2 (lq : Qc) (l : list Qc) (a : list nbh) : list Qc :=
  match l, a with
  | lv :: l', n :: a' => (lv + lq * rsum n)%Qc :: lin2 lq l' a'
  | _, _ => l
  end.

Lemma sv_pass2_eq q lq qo l a o :
  length l = length a ->
  sv_pass2 q lq qo l a o =
  (lin2 lq l a, map (nb_scale q) a, (o + qo * qsum (map rsum a))%Qc).
Proof.
  revert a o. induction l as [|lv l IH]; intros [|n a] o Hlen; cbn [length] in Hlen; try discriminate.
  - cbn [sv_pass2 lin2 map qsum]. apply pair_eq3; [reflexivity|reflexivity|ring].
  - cbn [sv_pass2 lin2 map qsum]. rewrite sv_row_eq. rewrite IH by lia.
    apply pair_eq3; [reflexivity|reflexivity|ring].
Qed.

Lemma lin2_length lq l a : length (lin2 lq l a) = length l.
Proof.
  revert a. induction l as [|lv l IH]; intros [|n a]; cbn [lin2 length]; try reflexivity.
  rewrite IH. reflexivity.
Qed.

Lemma nth_lin2 lq l a u :
  length l = length a ->
  nth u (lin2 lq l a) 0%Qc = (nth u l 0 + lq * rsum (nth u a []))%Qc.
Proof.
  revert a u. induction l as [|lv l IH]; intros [|n a] u Hlen; cbn [length] in Hlen; try discriminate.
  - cbn [lin2]. destruct u; cbn [nth]; unfold rsum; cbn [map qsum]; ring.
  - cbn [lin2]. destruct u as [|u]; cbn [nth]; [reflexivity|]. apply IH. lia.
Qed.

Lemma nth_map_mulr k l u : nth u (map (fun b => (b * k)%Qc) l) 0%Qc = (nth u l 0 * k)%Qc.
Proof.
  revert u. induction l as [|b l IH]; intros [|u]; cbn [map nth]; try ring; try reflexivity. apply IH.
Qed.

Theorem substitute_variables_eq k c m :
  length (adj m) = nvars m ->
  substitute_variables k c m =
  mkQM (lin2 (k * c) (map (fun b => (b * k)%Qc) (lin m)) (adj m))
       (map (nb_scale (k * k)) (adj m))
       (off m + c * qsum (lin m) + (c * c / two) * qsum (map rsum (adj m)))%Qc
       (vts m).
Proof.
  intros Hlen. unfold substitute_variables. rewrite sv_pass1_eq.
  rewrite sv_pass2_eq by (rewrite map_length; unfold nvars in Hlen; lia).
  reflexivity.
Qed.

(* ---------- reads of the result ---------- *)
Lemma nvars_substitute_variables k c m :
  length (adj m) = nvars m -> nvars (substitute_variables k c m) = nvars m.
Proof.
  intros Hlen. rewrite substitute_variables_eq by exact Hlen. unfold nvars. cbn [lin].
  rewrite lin2_length, map_length. reflexivity.
Qed.

Lemma vts_substitute_variables k c m : vts (substitute_variables k c m) = vts m.
Proof.
  unfold substitute_variables. destruct (sv_pass1 _ _ _ _) as [l1 o1].
  destruct (sv_pass2 _ _ _ _ _ _) as [[l2 a2] o2]. reflexivity.
Qed.

Lemma linear_substitute_variables k c m u :
  length (adj m) = nvars m ->
  linear (substitute_variables k c m) u = (k * linear m u + (k * c) * rsum (nb m u))%Qc.
Proof.
  intros Hlen. rewrite substitute_variables_eq by exact Hlen. unfold linear, nb. cbn [lin].
  rewrite nth_lin2 by (rewrite map_length; unfold nvars in Hlen; lia).
  rewrite nth_map_mulr. ring.
Qed.

Lemma nb_substitute_variables k c m u :
  length (adj m) = nvars m ->
  nb (substitute_variables k c m) u = nb_scale (k * k) (nb m u).
Proof.
  intros Hlen. rewrite substitute_variables_eq by exact Hlen. unfold nb. cbn [adj].
  apply nth_map_nil. reflexivity.
Qed.

Lemma quadratic_substitute_variables k c m u w :
  length (adj m) = nvars m ->
  quadratic (substitute_variables k c m) u w = (k * k * quadratic m u w)%Qc.
Proof.
  intros Hlen. unfold quadratic. rewrite nb_substitute_variables by exact Hlen.
  rewrite nb_get_scale. destruct (nb_get w (nb m u)); cbn [option_map]; [reflexivity|ring].
Qed.

Lemma has_interaction_substitute_variables k c m u w :
  length (adj m) = nvars m ->
  has_interaction (substitute_variables k c m) u w = has_interaction m u w.
Proof.
  intros Hlen. unfold has_interaction. rewrite nb_substitute_variables by exact Hlen.
  rewrite nb_get_scale. destruct (nb_get w (nb m u)); reflexivity.
Qed.

Lemma off_substitute_variables k c m :
  length (adj m) = nvars m ->
  off (substitute_variables k c m) =
  (off m + c * qsum (lin m) + (c * c / two) * qsum (map rsum (adj m)))%Qc.
Proof. intros Hlen. rewrite substitute_variables_eq by exact Hlen. reflexivity. Qed.

(* ---------- the invariant ---------- *)
Lemma InvG_substitute_variables k c m : InvG m -> InvG (substitute_variables k c m).
Proof.
  intros [Hv HA]. pose proof HA as [Hlen _].
  unfold InvG. rewrite nvars_substitute_variables by exact Hlen.
  unfold vt_at. rewrite vts_substitute_variables. split; [exact Hv|].
  rewrite substitute_variables_eq by exact Hlen. cbn [adj]. apply AdjOK_scale. exact HA.
Qed.

Theorem substitute_variables_Inv k c m : Inv m -> Inv (substitute_variables k c m).
Proof. rewrite !Inv_InvG. apply InvG_substitute_variables. Qed.

(* ---------- sums over index ranges ---------- *)
Lemma qsum_map_nth {A} (f : A -> Qc) (d : A) l :
  qsum (map f l) = qsum (map (fun u => f (nth u l d)) (seq 0 (length l))).
Proof.
  induction l as [|x l IH]; [reflexivity|]. cbn [length seq]. rewrite <- seq_shift.
  cbn [map qsum nth]. rewrite map_map. cbn [nth]. rewrite IH. reflexivity.
Qed.

Lemma qsum_swap {A B} (F : A -> B -> Qc) l1 l2 :
  qsum (map (fun x => qsum (map (F x) l2)) l1) =
  qsum (map (fun y => qsum (map (fun x => F x y) l1)) l2).
Proof.
  induction l1 as [|x l1 IH]; cbn [map qsum].
  - symmetry. apply qsum_map_zero.
  - rewrite IH. symmetry. apply (qsum_map_add (F x) (fun y => qsum (map (fun x0 => F x0 y) l1))).
Qed.

Definition dsum (N : nat) (F : nat -> nat -> Qc) : Qc :=
  qsum (map (fun u => qsum (map (F u) (seq 0 N))) (seq 0 N)).

Lemma dsum_ext N F G :
  (forall u w, u < N -> w < N -> F u w = G u w) -> dsum N F = dsum N G.
Proof.
  intros H. unfold dsum. apply qsum_map_ext_in. intros u Hu. apply in_seq in Hu.
  apply qsum_map_ext_in. intros w Hw. apply in_seq in Hw. apply H; lia.
Qed.

(* full square = lower triangle of the symmetrised summand - diagonal *)
Lemma dsum_triangle N (f : nat -> nat -> Qc) :
  dsum N f =
  (dsum N (fun u w => if w <=? u then (f u w + f w u)%Qc else 0%Qc)
   - qsum (map (fun u => f u u) (seq 0 N)))%Qc.
Proof.
  pose (lo := fun u w => if w <=? u then f u w else 0%Qc).
  pose (up := fun u w => if u <? w then f u w else 0%Qc).
  pose (lot := fun u w => if w <=? u then f w u else 0%Qc).
  pose (upt := fun u w => if w <? u then f w u else 0%Qc).
  assert (E1 : dsum N f = (dsum N lo + dsum N up)%Qc).
  { unfold dsum. rewrite <- qsum_map_add. apply qsum_map_ext_in. intros u _.
    rewrite <- qsum_map_add. apply qsum_map_ext_in. intros w _. unfold lo, up.
    destruct (Nat.leb_spec w u); destruct (Nat.ltb_spec u w); try lia; ring. }
  assert (E2 : dsum N up = dsum N upt).
  { unfold dsum. rewrite qsum_swap. reflexivity. }
  assert (E3 : dsum N upt = (dsum N lot - qsum (map (fun u => f u u) (seq 0 N)))%Qc).
  { assert (E : dsum N lot = (dsum N upt + qsum (map (fun u => f u u) (seq 0 N)))%Qc).
    { unfold dsum. rewrite <- qsum_map_add. apply qsum_map_ext_in. intros u Hu. apply in_seq in Hu.
      rewrite <- (qsum_single (fun w => f w u) u N) by lia.
      rewrite <- qsum_map_add. apply qsum_map_ext_in. intros w _. unfold lot, upt.
      destruct (Nat.leb_spec w u); destruct (Nat.ltb_spec w u); destruct (Nat.eqb_spec w u);
        try lia; ring. }
    rewrite E. ring. }
  assert (E4 : dsum N (fun u w => if w <=? u then (f u w + f w u)%Qc else 0%Qc)
               = (dsum N lo + dsum N lot)%Qc).
  { unfold dsum. rewrite <- qsum_map_add. apply qsum_map_ext_in. intros u _.
    rewrite <- qsum_map_add. apply qsum_map_ext_in. intros w _. unfold lo, lot.
    destruct (w <=? u); ring. }
  rewrite E1, E2, E3, E4. ring.
Qed.

(* ---------- energy ---------- *)
Lemma rsum_dense m u :
  Inv m -> rsum (nb m u) = qsum (map (quadratic m u) (seq 0 (nvars m))).
Proof.
  intros HI. unfold rsum.
  rewrite (qsum_map_ext_in _ (fun e => (snd e * 1)%Qc)) by (intros; ring).
  rewrite (nb_sum_dense (fun _ => 1%Qc) (nb m u) (nvars m)).
  - apply qsum_map_ext_in. intros w _. rewrite quadratic_odef. ring.
  - apply Inv_sorted, HI.
  - intros [w b] He. cbn [fst]. apply (nb_get_In_2 w _ b (Inv_sorted m u HI)) in He.
    apply (Inv_bound m u w b HI He).
Qed.

Lemma half_sum (x : Qc) : (x / two + x / two = x)%Qc.
Proof. unfold two. field. intro H. discriminate H. Qed.

(* the algebra on the dense form: symmetric q with zero diagonal *)
Lemma dense_subst_all N o l q k c s :
  (forall u w, u < N -> w < N -> q u w = q w u) ->
  (forall u, u < N -> q u u = 0%Qc) ->
  dense N (o + c * qsum (map l (seq 0 N)) + (c * c / two) * dsum N q)
        (fun u => k * l u + (k * c) * qsum (map (q u) (seq 0 N)))%Qc
        (fun u w => k * k * q u w)%Qc s
  = dense N o l q (fun i => (k * s i + c)%Qc).
Proof.
  intros Hsym Hdiag.
  set (h := (c * c / two)%Qc).
  assert (Hh : (h + h = c * c)%Qc) by apply half_sum.
  pose (R := fun u => qsum (map (q u) (seq 0 N))).
  pose (Z := fun u => qsum (map (fun w => if w <=? u then (k * k * q u w * s u * s w)%Qc else 0%Qc) (seq 0 N))).
  pose (G := fun u => qsum (map (fun w => if w <=? u then (q u w * (k * c * s u + k * c * s w + c * c))%Qc
                                          else 0%Qc) (seq 0 N))).
  pose (f := fun u w => (q u w * (k * c * s u + h))%Qc).
  (* the cross terms: lower triangle = half of the full square *)
  assert (EG : qsum (map G (seq 0 N))
               = (k * c * qsum (map (fun u => (R u * s u)%Qc) (seq 0 N)) + h * dsum N q)%Qc).
  { assert (T1 : dsum N f = (k * c * qsum (map (fun u => (R u * s u)%Qc) (seq 0 N)) + h * dsum N q)%Qc).
    { unfold dsum. rewrite <- !qsum_map_scale, <- qsum_map_add. apply qsum_map_ext_in. intros u _.
      fold (R u). unfold f.
      rewrite (qsum_map_ext_in _ (fun w => ((k * c * s u + h) * q u w)%Qc)) by (intros; ring).
      rewrite qsum_map_scale. fold (R u). ring. }
    assert (T2 : dsum N (fun u w => if w <=? u then (f u w + f w u)%Qc else 0%Qc) = qsum (map G (seq 0 N))).
    { unfold dsum. apply qsum_map_ext_in. intros u Hu. apply in_seq in Hu. unfold G.
      apply qsum_map_ext_in. intros w Hw. apply in_seq in Hw. destruct (w <=? u); [|reflexivity].
      unfold f. rewrite (Hsym w u) by lia.
      transitivity (q u w * (k * c * s u + k * c * s w + (h + h)))%Qc; [ring|]. rewrite Hh. reflexivity. }
    assert (T3 : qsum (map (fun u => f u u) (seq 0 N)) = 0%Qc).
    { rewrite (qsum_map_ext_in _ (fun _ => 0%Qc)); [apply qsum_map_zero|].
      intros u Hu. apply in_seq in Hu. unfold f. rewrite Hdiag by lia. ring. }
    rewrite <- T2, <- T1, (dsum_triangle N f), T3. ring. }
  unfold dense.
  rewrite (qsum_map_ext_in
             (fun u => ((k * l u + k * c * qsum (map (q u) (seq 0 N))) * s u
                        + qsum (map (fun w => if w <=? u then (k * k * q u w * s u * s w)%Qc else 0%Qc)
                                    (seq 0 N)))%Qc)
             (fun u => ((fun _ => 0) u + k * (l u * s u) + (k * c) * (R u * s u) + Z u)%Qc))
    by (intros u _; unfold R, Z; ring).
  rewrite (qsum_map_ext_in
             (fun u => (l u * (k * s u + c)
                        + qsum (map (fun w => if w <=? u then (q u w * (k * s u + c) * (k * s w + c))%Qc
                                              else 0%Qc) (seq 0 N)))%Qc)
             (fun u => (G u + k * (l u * s u) + c * l u + Z u)%Qc)).
  - rewrite !qsum_map_lin4b, EG, qsum_map_zero. fold h. ring.
  - intros u _.
    assert (E : qsum (map (fun w => if w <=? u then (q u w * (k * s u + c) * (k * s w + c))%Qc else 0%Qc)
                          (seq 0 N)) = (G u + Z u)%Qc).
    { unfold G, Z. rewrite <- qsum_map_add. apply qsum_map_ext_in. intros w _.
      destruct (w <=? u); ring. }
    rewrite E. ring.
Qed.

Theorem substitute_variables_energy k c m :
  Inv m -> (forall u, u < nvars m -> has_interaction m u u = false) ->
  forall s, energy_adj (substitute_variables k c m) s = energy_adj m (fun i => (k * s i + c)%Qc).
Proof.
  intros HI Hns s. pose proof (Inv_len_adj m HI) as Hlen.
  rewrite (energy_dense _ _ (substitute_variables_Inv k c m HI)), (energy_dense m _ HI).
  rewrite nvars_substitute_variables by exact Hlen.
  rewrite <- (dense_subst_all (nvars m) (off m) (linear m) (quadratic m) k c s).
  - assert (EL : qsum (lin m) = qsum (map (linear m) (seq 0 (nvars m)))).
    { rewrite <- (map_id (lin m)) at 1. apply (qsum_map_nth (fun x => x) 0%Qc). }
    assert (ESQ : qsum (map rsum (adj m)) = dsum (nvars m) (quadratic m)).
    { rewrite (qsum_map_nth rsum [] (adj m)), Hlen. unfold dsum. apply qsum_map_ext_in.
      intros u _. apply (rsum_dense m u HI). }
    rewrite off_substitute_variables, EL, ESQ by exact Hlen.
    apply dense_ext.
    + intros u _. rewrite linear_substitute_variables by exact Hlen.
      rewrite (rsum_dense m u HI). reflexivity.
    + intros u w _ _. apply quadratic_substitute_variables. exact Hlen.
    + reflexivity.
  - intros u w _ _. apply quadratic_sym, HI.
  - intros u Hu. specialize (Hns u Hu). unfold has_interaction in Hns. unfold quadratic.
    destruct (nb_get u (nb m u)); [discriminate|reflexivity].
Qed.

(* ---------- BinaryQuadraticModel::change_vartype ---------- *)
Definition is_bqm (t : vartype) (m : qm) : Prop := forall u, u < nvars m -> vt_at m u = t.

Lemma vt_eqb_iff a b : vartype_eqb a b = true <-> a = b.
Proof. destruct a, b; cbn [vartype_eqb]; split; intros H; try reflexivity; discriminate H. Qed.

Lemma energy_adj_set_all_vts t m s : energy_adj (set_all_vts t m) s = energy_adj m s.
Proof. reflexivity. Qed.

Lemma energy_adj_ext m s s' :
  Inv m -> (forall i, i < nvars m -> s i = s' i) -> energy_adj m s = energy_adj m s'.
Proof.
  intros HI H. rewrite !(energy_dense m _ HI). apply dense_ext; [reflexivity|reflexivity|exact H].
Qed.

Lemma energy_adj_novars m s s' : nvars m = 0 -> energy_adj m s = energy_adj m s'.
Proof. intros H. unfold energy_adj. rewrite H. reflexivity. Qed.

Lemma binspin_no_self_loops m :
  Inv m -> (forall u, u < nvars m -> is_binspin (vt_at m u) = true) ->
  forall u, u < nvars m -> has_interaction m u u = false.
Proof.
  intros HI HB u Hu. apply Inv_iff in HI. destruct HI as [_ [_ [_ [_ [_ H6]]]]].
  apply H6; [exact Hu|apply HB, Hu].
Qed.

Lemma is_bqm_binspin t m :
  is_binspin t = true -> is_bqm t m -> forall u, u < nvars m -> is_binspin (vt_at m u) = true.
Proof. intros Ht HB u Hu. rewrite (HB u Hu). exact Ht. Qed.

Lemma same_vartype_other t t' m :
  length (vts m) = nvars m -> is_bqm t' m -> t <> t' -> bqm_same_vartype t m = true -> nvars m = 0.
Proof.
  intros Hlen HB Hne Hs. unfold bqm_same_vartype in Hs.
  destruct (nvars m) as [|n] eqn:EN; [reflexivity|]. exfalso.
  assert (H0 : 0 < nvars m) by lia. specialize (HB 0 H0). unfold vt_at in HB.
  destruct (vts m) as [|x r]; [cbn [length] in Hlen; lia|]. cbn [nth] in HB. subst x.
  cbn [forallb] in Hs. apply andb_true_iff in Hs. destruct Hs as [Hs _].
  apply vt_eqb_iff in Hs. exact (Hne Hs).
Qed.

Lemma same_vartype_bqm t m :
  length (vts m) = nvars m -> is_bqm t m -> bqm_same_vartype t m = true.
Proof.
  intros Hlen HB. unfold bqm_same_vartype. apply (forallb_nth _ _ BINARY). intros u Hu.
  apply vt_eqb_iff. symmetry. apply HB. lia.
Qed.

Theorem bqm_change_vartype_same t m :
  bqm_same_vartype t m = true -> bqm_change_vartype t m = m.
Proof. intros H. unfold bqm_change_vartype. rewrite H. reflexivity. Qed.

Theorem bqm_change_vartype_energy_to_spin m s :
  Inv m -> is_bqm BINARY m ->
  energy_adj (bqm_change_vartype SPIN m) s = energy_adj m (fun i => ((s i + 1) * half)%Qc).
Proof.
  intros HI HB. pose proof HI as HG. apply Inv_InvG in HG. destruct HG as [Hlv _].
  unfold bqm_change_vartype. destruct (bqm_same_vartype SPIN m) eqn:E.
  - apply energy_adj_novars. apply (same_vartype_other SPIN BINARY m Hlv HB); [discriminate|exact E].
  - rewrite energy_adj_set_all_vts.
    rewrite (substitute_variables_energy half half m HI
               (binspin_no_self_loops m HI (is_bqm_binspin BINARY m eq_refl HB))).
    apply energy_adj_ext; [exact HI|]. intros i _. ring.
Qed.

Theorem bqm_change_vartype_energy_to_binary m s :
  Inv m -> is_bqm SPIN m ->
  energy_adj (bqm_change_vartype BINARY m) s = energy_adj m (fun i => (two * s i - 1)%Qc).
Proof.
  intros HI HB. pose proof HI as HG. apply Inv_InvG in HG. destruct HG as [Hlv _].
  unfold bqm_change_vartype. destruct (bqm_same_vartype BINARY m) eqn:E.
  - apply energy_adj_novars. apply (same_vartype_other BINARY SPIN m Hlv HB); [discriminate|exact E].
  - rewrite energy_adj_set_all_vts.
    rewrite (substitute_variables_energy two (- (1))%Qc m HI
               (binspin_no_self_loops m HI (is_bqm_binspin SPIN m eq_refl HB))).
    apply energy_adj_ext; [exact HI|]. intros i _. ring.
Qed.

Theorem bqm_change_vartype_energy_same t m s :
  Inv m -> is_bqm t m -> energy_adj (bqm_change_vartype t m) s = energy_adj m s.
Proof.
  intros HI HB. pose proof HI as HG. apply Inv_InvG in HG. destruct HG as [Hlv _].
  rewrite bqm_change_vartype_same; [reflexivity|]. apply same_vartype_bqm; assumption.
Qed.

Theorem bqm_change_vartype_energy :
  (forall m s, Inv m -> is_bqm BINARY m ->
     energy_adj (bqm_change_vartype SPIN m) s = energy_adj m (fun i => ((s i + 1) * half)%Qc)) /\
  (forall m s, Inv m -> is_bqm SPIN m ->
     energy_adj (bqm_change_vartype BINARY m) s = energy_adj m (fun i => (two * s i - 1)%Qc)) /\
  (forall t m s, Inv m -> is_bqm t m ->
     energy_adj (bqm_change_vartype t m) s = energy_adj m s).
Proof.
  split; [|split].
  - intros m s. apply bqm_change_vartype_energy_to_spin.
  - intros m s. apply bqm_change_vartype_energy_to_binary.
  - intros t m s. apply bqm_change_vartype_energy_same.
Qed.

(* the resulting model: still well formed, and of the requested vartype *)
Lemma InvG_set_all_vts t m :
  InvG m -> (forall u, u < nvars m -> has_interaction m u u = false) -> InvG (set_all_vts t m).
Proof.
  intros [Hv [H1 [H2 [H3 [H4 H5]]]]] Hns. unfold InvG, set_all_vts, nvars in *. cbn [lin adj vts].
  rewrite map_length. split; [exact Hv|]. split; [exact H1|]. split; [exact H2|].
  split; [exact H3|]. split; [exact H4|]. intros u _.
  destruct (Nat.lt_ge_cases u (length (lin m))) as [L|L].
  - specialize (Hns u L). unfold has_interaction, nb in Hns.
    destruct (nb_get u (nth u (adj m) [])); [discriminate|reflexivity].
  - rewrite nth_overflow by lia. reflexivity.
Qed.

Theorem bqm_change_vartype_Inv t m :
  Inv m -> (forall u, u < nvars m -> is_binspin (vt_at m u) = true) -> Inv (bqm_change_vartype t m).
Proof.
  intros HI HB. pose proof (Inv_len_adj m HI) as Hlen.
  assert (HS : forall k c, forall u, u < nvars (substitute_variables k c m) ->
                 has_interaction (substitute_variables k c m) u u = false).
  { intros k c u Hu. rewrite nvars_substitute_variables in Hu by exact Hlen.
    rewrite has_interaction_substitute_variables by exact Hlen.
    apply (binspin_no_self_loops m HI HB u Hu). }
  unfold bqm_change_vartype. destruct (bqm_same_vartype t m); [exact HI|].
  destruct t; try exact HI.
  - apply Inv_InvG, InvG_set_all_vts; [apply Inv_InvG, substitute_variables_Inv, HI|apply HS].
  - apply Inv_InvG, InvG_set_all_vts; [apply Inv_InvG, substitute_variables_Inv, HI|apply HS].
Qed.

Theorem bqm_change_vartype_vartype t m :
  is_binspin t = true -> length (vts m) = nvars m -> length (adj m) = nvars m ->
  nvars (bqm_change_vartype t m) = nvars m /\ is_bqm t (bqm_change_vartype t m).
Proof.
  intros Ht Hlv Hlen. unfold bqm_change_vartype. destruct (bqm_same_vartype t m) eqn:E.
  - split; [reflexivity|]. intros u Hu. unfold bqm_same_vartype in E.
    rewrite (forallb_nth _ _ BINARY) in E. symmetry. apply vt_eqb_iff. apply E. lia.
  - assert (HN : forall k c u, u < nvars m ->
              nth u (map (fun _ : vartype => t) (vts (substitute_variables k c m))) BINARY = t).
    { intros k c u Hu. rewrite vts_substitute_variables.
      rewrite (nth_indep _ BINARY t) by (rewrite map_length; lia).
      exact (map_nth (fun _ : vartype => t) (vts m) BINARY u). }
    destruct t; try discriminate Ht.
    + split; [apply (nvars_substitute_variables _ _ m Hlen)|]. intros u Hu.
      change (nvars (set_all_vts BINARY (substitute_variables two (- (1))%Qc m)))
        with (nvars (substitute_variables two (- (1))%Qc m)) in Hu.
      rewrite nvars_substitute_variables in Hu by exact Hlen. apply HN, Hu.
    + split; [apply (nvars_substitute_variables _ _ m Hlen)|]. intros u Hu.
      change (nvars (set_all_vts SPIN (substitute_variables half half m)))
        with (nvars (substitute_variables half half m)) in Hu.
      rewrite nvars_substitute_variables in Hu by exact Hlen. apply HN, Hu.
Qed.

(* ---------- round trip: the inverse substitution restores every coefficient ---------- *)
Lemma nb_scale_scale x y n : nb_scale x (nb_scale y n) = nb_scale (x * y) n.
Proof.
  unfold nb_scale. rewrite map_map. apply map_ext. intros [w b]. cbn [fst snd]. f_equal. ring.
Qed.

Lemma nb_scale_one n : nb_scale 1 n = n.
Proof.
  unfold nb_scale. rewrite <- (map_id n) at 2. apply map_ext. intros [w b]. cbn [fst snd]. f_equal. ring.
Qed.

Lemma rsum_scale x n : rsum (nb_scale x n) = (x * rsum n)%Qc.
Proof.
  unfold rsum, nb_scale. rewrite map_map. cbn [snd]. apply qsum_map_scale.
Qed.

Lemma qsum_mulr k l : qsum (map (fun b => (b * k)%Qc) l) = (k * qsum l)%Qc.
Proof. induction l as [|b l IH]; cbn [map qsum]; [ring|rewrite IH; ring]. Qed.

Lemma qsum_lin2 lq l a :
  length l = length a -> qsum (lin2 lq l a) = (qsum l + lq * qsum (map rsum a))%Qc.
Proof.
  revert a. induction l as [|lv l IH]; intros [|n a] Hlen; cbn [length] in Hlen; try discriminate.
  - cbn [lin2 map qsum]. ring.
  - cbn [lin2 map qsum]. rewrite IH by lia. ring.
Qed.

Lemma qsum_rsum_scale x a : qsum (map rsum (map (nb_scale x) a)) = (x * qsum (map rsum a))%Qc.
Proof.
  rewrite map_map. rewrite (qsum_map_ext_in _ (fun n => (x * rsum n)%Qc)) by (intros; apply rsum_scale).
  apply qsum_map_scale.
Qed.

Lemma lin2_roundtrip k c k' c' l a :
  (k * k' = 1)%Qc -> (k * c' + c = 0)%Qc -> length l = length a ->
  lin2 (k' * c') (map (fun b => (b * k')%Qc) (lin2 (k * c) (map (fun b => (b * k)%Qc) l) a))
       (map (nb_scale (k * k)) a) = l.
Proof.
  intros H1 H2. revert a. induction l as [|lv l IH]; intros [|n a] Hlen; cbn [length] in Hlen; try discriminate.
  - reflexivity.
  - cbn [map lin2]. rewrite IH by lia. f_equal. rewrite rsum_scale.
    transitivity (lv * (k * k') + (k * k') * (k * c' + c) * rsum n)%Qc; [ring|]. rewrite H1, H2. ring.
Qed.

Theorem substitute_variables_inverse k c k' c' m :
  length (adj m) = nvars m -> (k * k' = 1)%Qc -> (k * c' + c = 0)%Qc ->
  substitute_variables k' c' (substitute_variables k c m) = m.
Proof.
  intros Hlen H1 H2. unfold nvars in Hlen.
  rewrite (substitute_variables_eq k c m) by exact Hlen.
  rewrite substitute_variables_eq
    by (unfold nvars; cbn [lin adj]; rewrite lin2_length, !map_length; exact Hlen).
  cbn [lin adj off vts].
  rewrite lin2_roundtrip by (try assumption; symmetry; exact Hlen).
  rewrite qsum_lin2 by (rewrite map_length; symmetry; exact Hlen).
  rewrite qsum_mulr, qsum_rsum_scale.
  assert (EA : map (nb_scale (k' * k')) (map (nb_scale (k * k)) (adj m)) = adj m).
  { rewrite map_map. rewrite <- (map_id (adj m)) at 2. apply map_ext. intros n.
    rewrite nb_scale_scale.
    assert (E : (k' * k' * (k * k) = 1)%Qc).
    { transitivity ((k * k') * (k * k'))%Qc; [ring|]. rewrite H1. ring. }
    rewrite E. apply nb_scale_one. }
  rewrite EA.
  set (L := qsum (lin m)). set (S := qsum (map rsum (adj m))).
  assert (EO : (off m + c * L + c * c / two * S + c' * (k * L + k * c * S) + c' * c' / two * (k * k * S)
                = off m)%Qc).
  { change (c * c / two)%Qc with (c * c * half)%Qc. change (c' * c' / two)%Qc with (c' * c' * half)%Qc.
    transitivity (off m + (k * c' + c) * L + (k * c' + c) * (k * c' + c) * half * S
                  + (1 - two * half) * (k * c' * c * S))%Qc; [unfold two; ring|].
    rewrite H2, two_half. ring. }
  rewrite EO. destruct m; reflexivity.
Qed.

Lemma substitute_variables_set_all_vts k c t m :
  substitute_variables k c (set_all_vts t m) = set_all_vts t (substitute_variables k c m).
Proof.
  unfold substitute_variables, set_all_vts. cbn [lin adj off vts].
  destruct (sv_pass1 _ _ _ _) as [l1 o1]. destruct (sv_pass2 _ _ _ _ _ _) as [[l2 a2] o2].
  reflexivity.
Qed.

Lemma set_all_vts_twice t t' m : set_all_vts t (set_all_vts t' m) = set_all_vts t m.
Proof. unfold set_all_vts. cbn [lin adj off vts]. rewrite map_map. reflexivity. Qed.

Lemma set_all_vts_id t m : (forall x, In x (vts m) -> x = t) -> set_all_vts t m = m.
Proof.
  intros H. unfold set_all_vts.
  assert (E : map (fun _ => t) (vts m) = vts m).
  { rewrite <- (map_id (vts m)) at 2. apply map_ext_in. intros x Hx. symmetry. apply H, Hx. }
  rewrite E. destruct m; reflexivity.
Qed.

Lemma half_two' : (half * two = 1)%Qc.
Proof. rewrite Qcmult_comm. apply two_half. Qed.

Theorem bqm_change_vartype_roundtrip_binary m :
  length (adj m) = nvars m -> (forall x, In x (vts m) -> x = BINARY) ->
  bqm_change_vartype BINARY (bqm_change_vartype SPIN m) = m.
Proof.
  intros Hlen HB. destruct (vts m) as [|x r] eqn:EV.
  - assert (E1 : bqm_change_vartype SPIN m = m)
      by (apply bqm_change_vartype_same; unfold bqm_same_vartype; rewrite EV; reflexivity).
    rewrite E1. apply bqm_change_vartype_same. unfold bqm_same_vartype. rewrite EV. reflexivity.
  - assert (Ex : x = BINARY) by (apply HB; left; reflexivity). subst x.
    unfold bqm_change_vartype at 2. unfold bqm_same_vartype at 1. rewrite EV.
    cbn [forallb vartype_eqb andb].
    unfold bqm_change_vartype, bqm_same_vartype. unfold set_all_vts at 1. cbn [vts].
    rewrite vts_substitute_variables, EV. cbn [map forallb vartype_eqb andb].
    rewrite substitute_variables_set_all_vts, set_all_vts_twice.
    rewrite (substitute_variables_inverse half half two (- (1))%Qc m Hlen).
    + apply set_all_vts_id. rewrite EV. exact HB.
    + apply half_two'.
    + ring.
Qed.

Theorem bqm_change_vartype_roundtrip_spin m :
  length (adj m) = nvars m -> (forall x, In x (vts m) -> x = SPIN) ->
  bqm_change_vartype SPIN (bqm_change_vartype BINARY m) = m.
Proof.
  intros Hlen HB. destruct (vts m) as [|x r] eqn:EV.
  - assert (E1 : bqm_change_vartype BINARY m = m)
      by (apply bqm_change_vartype_same; unfold bqm_same_vartype; rewrite EV; reflexivity).
    rewrite E1. apply bqm_change_vartype_same. unfold bqm_same_vartype. rewrite EV. reflexivity.
  - assert (Ex : x = SPIN) by (apply HB; left; reflexivity). subst x.
    unfold bqm_change_vartype at 2. unfold bqm_same_vartype at 1. rewrite EV.
    cbn [forallb vartype_eqb andb].
    unfold bqm_change_vartype, bqm_same_vartype. unfold set_all_vts at 1. cbn [vts].
    rewrite vts_substitute_variables, EV. cbn [map forallb vartype_eqb andb].
    rewrite substitute_variables_set_all_vts, set_all_vts_twice.
    rewrite (substitute_variables_inverse two (- (1))%Qc half half m Hlen).
    + apply set_all_vts_id. rewrite EV. exact HB.
    + apply two_half.
    + rewrite two_half. ring.
Qed.

Theorem bqm_change_vartype_roundtrip :
  (forall m, Inv m -> (forall x, In x (vts m) -> x = BINARY) ->
     bqm_change_vartype BINARY (bqm_change_vartype SPIN m) = m) /\
  (forall m, Inv m -> (forall x, In x (vts m) -> x = SPIN) ->
     bqm_change_vartype SPIN (bqm_change_vartype BINARY m) = m).
Proof.
  split; intros m HI HB.
  - apply bqm_change_vartype_roundtrip_binary; [apply Inv_len_adj, HI|exact HB].
  - apply bqm_change_vartype_roundtrip_spin; [apply Inv_len_adj, HI|exact HB].
Qed.

(* ---------- the no-self-loop hypothesis is necessary ---------- *)
(* one INTEGER variable with the self-loop x*x, x := x + 1: the true substitution
   is x^2 + 2x + 1, the code produces x^2 + x + 1/2 (a self-loop is stored once,
   but both the linear and the offset contribution assume it is visited twice) *)
Definition loop_model : qm := mkQM [0%Qc] [[(0, 1%Qc)]] 0%Qc [INTEGER].

Theorem substitute_variables_self_loop_refuted :
  exists m k c s, Inv m /\
    energy_adj (substitute_variables k c m) s <> energy_adj m (fun i => (k * s i + c)%Qc).
Proof.
  exists loop_model, 1%Qc, 1%Qc, (fun _ => 0%Qc). split; [vm_compute; reflexivity|].
  intros H. apply Qc_eqb_eq in H. vm_compute in H. discriminate H.
Qed.

Print Assumptions substitute_variables_energy.
Print Assumptions substitute_variables_Inv.
Print Assumptions substitute_variables_eq.
Print Assumptions bqm_change_vartype_energy.
Print Assumptions bqm_change_vartype_Inv.
Print Assumptions bqm_change_vartype_vartype.
Print Assumptions substitute_variables_inverse.
Print Assumptions bqm_change_vartype_roundtrip.
Print Assumptions substitute_variables_self_loop_refuted.
