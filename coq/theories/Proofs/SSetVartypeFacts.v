(* C02 for SampleSet.change_vartype: the energies a converted sample set reports are the
   energies of the converted model at the converted rows (plus the requested offset);
   there-and-back restores the sample set; nothing else is touched. *)
From Coq Require Import List ZArith QArith Qcanon Qround Bool Arith Lia.
From Dimod Require Import Base.Util Model.Poly Model.Samples Model.SSet Model.SSetVartype
  Proofs.PolyFacts Proofs.SamplesFacts.
Import ListNotations.
Open Scope Qc_scope.

Definition spin_val (x : Qc) : Prop := x = 1 \/ x = - (1).
Definition binary_val (x : Qc) : Prop := x = 0 \/ x = 1.

(* ---------- the value maps ---------- *)
Lemma to_binary_value_pos : to_binary_value 1 = 1.
Proof. apply Qc_is_canon. vm_compute. reflexivity. Qed.

Lemma to_binary_value_neg : to_binary_value (- (1)) = 0.
Proof. apply Qc_is_canon. vm_compute. reflexivity. Qed.

Lemma to_spin_value_0 : to_spin_value 0 = - (1).
Proof. unfold to_spin_value, two. ring. Qed.

Lemma to_spin_value_1 : to_spin_value 1 = 1.
Proof. unfold to_spin_value, two. ring. Qed.

Lemma spin_binary_spin_val x : spin_val x -> to_spin_value (to_binary_value x) = x.
Proof.
  intros [->| ->].
  - rewrite to_binary_value_pos. apply to_spin_value_1.
  - rewrite to_binary_value_neg. apply to_spin_value_0.
Qed.

Lemma binary_spin_binary_val x : binary_val x -> to_binary_value (to_spin_value x) = x.
Proof.
  intros [->| ->].
  - rewrite to_spin_value_0. apply to_binary_value_neg.
  - rewrite to_spin_value_1. apply to_binary_value_pos.
Qed.

Lemma to_binary_value_is_binary x : spin_val x -> binary_val (to_binary_value x).
Proof.
  intros [->| ->]; [right; apply to_binary_value_pos|left; apply to_binary_value_neg].
Qed.

Lemma to_spin_value_is_spin x : binary_val x -> spin_val (to_spin_value x).
Proof.
  intros [->| ->]; [right; apply to_spin_value_0|left; apply to_spin_value_1].
Qed.

(* on spin values the floor division is the exact affine map x = (s + 1) / 2
   (the map used by SSet.change_vartype_ss and by the model conversion) *)
Lemma to_binary_value_affine x : spin_val x -> to_binary_value x = (x + 1) * half.
Proof.
  intros [->| ->].
  - rewrite to_binary_value_pos. fold two. rewrite two_half. reflexivity.
  - rewrite to_binary_value_neg. ring.
Qed.

(* floor division on the integers:  (z + 1) // 2  is Z's floor division *)
Lemma to_binary_value_floor (z : Z) :
  to_binary_value (Q2Qc (inject_Z z)) = Q2Qc (inject_Z ((z + 1) / 2)).
Proof.
  unfold to_binary_value, floor_div2. f_equal. f_equal.
  assert (E : ((Q2Qc (inject_Z z) + 1)%Qc * half == (z + 1) # 2)%Q).
  { change (this (Q2Qc (inject_Z z) + 1)%Qc * this half)%Q
      with (Qred (Qred (inject_Z z) + Qred 1) * Qred (/ Qred (Qred 1 + Qred 1)))%Q.
    rewrite !Qred_correct. unfold Qeq, inject_Z. cbn. lia. }
  rewrite (Qfloor_comp _ _ E). unfold Qfloor. reflexivity.
Qed.

(* ---------- the energy shift ---------- *)
Lemma qceqb_true a b : Qc_eqb a b = true -> a = b.
Proof. unfold Qc_eqb. rewrite Qeq_bool_iff. apply Qc_is_canon. Qed.

Lemma vartype_eqb_true a b : vartype_eqb a b = true -> a = b.
Proof. destruct a, b; cbn [vartype_eqb]; intros H; try reflexivity; discriminate H. Qed.

Lemma set_en_same r : set_en r (en r + 0) = r.
Proof. destruct r as [v e o t x]. unfold set_en. cbn [vals en oc tag extra]. f_equal. ring. Qed.

Lemma shift_rws off s :
  rws (ss_shift_energy off s) = map (fun r => set_en r (en r + off)) (rws s).
Proof.
  unfold ss_shift_energy. destruct (Qc_eqb off 0) eqn:E; [|reflexivity].
  apply qceqb_true in E. subst off. rewrite <- (map_id (rws s)) at 1.
  apply map_ext. intros r. symmetry. apply set_en_same.
Qed.

Lemma shift_labels off s : labels (ss_shift_energy off s) = labels s.
Proof. unfold ss_shift_energy. destruct (Qc_eqb off 0); reflexivity. Qed.
Lemma shift_vt off s : vt (ss_shift_energy off s) = vt s.
Proof. unfold ss_shift_energy. destruct (Qc_eqb off 0); reflexivity. Qed.
Lemma shift_info off s : info (ss_shift_energy off s) = info s.
Proof. unfold ss_shift_energy. destruct (Qc_eqb off 0); reflexivity. Qed.
Lemma shift_fields off s : fields (ss_shift_energy off s) = fields s.
Proof. unfold ss_shift_energy. destruct (Qc_eqb off 0); reflexivity. Qed.

(* the three outcomes *)
Inductive cv_outcome (target : vartype) (off : Qc) (s : sset) : res -> Prop :=
| cv_same : target = vt s -> cv_outcome target off s (Ok (ss_shift_energy off s))
| cv_to_spin : target = SPIN -> vt s = BINARY ->
    cv_outcome target off s (Ok (ss_map_samples to_spin_value SPIN (ss_shift_energy off s)))
| cv_to_binary : target = BINARY -> vt s = SPIN ->
    cv_outcome target off s (Ok (ss_map_samples to_binary_value BINARY (ss_shift_energy off s)))
| cv_fail : target <> vt s -> ~ (target = SPIN /\ vt s = BINARY) -> ~ (target = BINARY /\ vt s = SPIN) ->
    cv_outcome target off s (Fail (ss_shift_energy off s)).

Lemma ss_change_vartype_outcome target off s : cv_outcome target off s (ss_change_vartype target off s).
Proof.
  unfold ss_change_vartype. rewrite shift_vt.
  destruct (vartype_eqb target (vt s)) eqn:E.
  - apply cv_same. apply vartype_eqb_true. assumption.
  - destruct target eqn:Et, (vt s) eqn:Ev; cbn [vartype_eqb] in E; try discriminate E;
      first [ apply cv_to_spin; [reflexivity|assumption]
            | apply cv_to_binary; [reflexivity|assumption]
            | apply cv_fail; rewrite Ev; [intro A; discriminate A | intros [A B]; congruence | intros [A B]; congruence] ].
Qed.

(* ---------- rows and samples ---------- *)
Lemma existsb_mem v (ls : list label) : In v ls -> existsb (Nat.eqb v) ls = true.
Proof. intros H. apply existsb_exists. exists v. split; [assumption|apply Nat.eqb_refl]. Qed.

Lemma row_sample_map f ls (row : list Qc) v :
  In v ls -> length row = length ls ->
  row_sample ls (map f row) v = f (row_sample ls row v).
Proof.
  intros Hin Hlen. unfold row_sample, row_value.
  rewrite (nth_indep (map f row) 0 (f 0)).
  - apply map_nth.
  - rewrite map_length, Hlen. apply idx_of_lt. assumption.
Qed.

Lemma row_sample_in ls (row : list Qc) v (P : Qc -> Prop) :
  In v ls -> length row = length ls -> Forall P row -> P (row_sample ls row v).
Proof.
  intros Hin Hlen HP. unfold row_sample, row_value.
  rewrite Forall_forall in HP. apply HP. apply nth_In. rewrite Hlen. apply idx_of_lt. assumption.
Qed.

Lemma convert_model_same v ls p : convert_model v v ls p = p.
Proof. destruct v; reflexivity. Qed.

(* a row is well formed for the label list and its energy is the model's energy at the row *)
Definition row_ok (p : poly) (s : sset) (r : row) : Prop :=
  length (vals r) = length (labels s) /\ en r = energy p (row_sample (labels s) (vals r)).

(* ===== the reported energies are those of the converted model at the converted rows ===== *)
Theorem ss_change_vartype_energy_consistent target off s s' p :
  ss_change_vartype target off s = Ok s' ->
  NoDup (labels s) -> mentions_only p (labels s) ->
  (forall r, In r (rws s) -> row_ok p s r) ->
  (vt s = SPIN -> target = BINARY -> forall r, In r (rws s) -> Forall spin_val (vals r)) ->
  forall r', In r' (rws s') ->
    en r' = energy (convert_model (vt s) target (labels s) p) (row_sample (labels s') (vals r')) + off.
Proof.
  intros Hcv Hnd Hm Hok Hspin r' Hr'.
  pose proof (ss_change_vartype_outcome target off s) as Ho. rewrite Hcv in Ho.
  inversion Ho as [Ht Hs | Ht Hv Hs | Ht Hv Hs | ]; subst s'; clear Ho.
  - (* same vartype *)
    rewrite shift_rws in Hr'. rewrite shift_labels. apply in_map_iff in Hr'.
    destruct Hr' as [r [<- Hr]]. destruct (Hok r Hr) as [_ He].
    rewrite Ht, convert_model_same. destruct r as [v e o t x]. cbn [set_en en vals] in *. rewrite He. reflexivity.
  - (* BINARY -> SPIN *)
    cbn [ss_map_samples rws labels] in *. rewrite shift_rws in Hr'. rewrite shift_labels.
    rewrite map_map in Hr'. apply in_map_iff in Hr'. destruct Hr' as [r [<- Hr]].
    destruct (Hok r Hr) as [Hlen He]. rewrite Hv, Ht. cbn [convert_model].
    destruct r as [v e o t x]. cbn [set_vals set_en en vals oc tag extra] in *.
    rewrite substitute_many_energy by assumption. rewrite He. f_equal.
    apply (energy_depends_on_vars p (labels s)); [assumption|]. intros w Hw. cbv beta.
    rewrite existsb_mem by assumption. rewrite row_sample_map by assumption.
    unfold to_spin_value. transitivity ((two * half) * row_sample (labels s) v w); [|ring].
    rewrite two_half. ring.
  - (* SPIN -> BINARY *)
    cbn [ss_map_samples rws labels] in *. rewrite shift_rws in Hr'. rewrite shift_labels.
    rewrite map_map in Hr'. apply in_map_iff in Hr'. destruct Hr' as [r [<- Hr]].
    destruct (Hok r Hr) as [Hlen He]. pose proof (Hspin Hv Ht r Hr) as Hsp. rewrite Hv, Ht. cbn [convert_model].
    destruct r as [v e o t x]. cbn [set_vals set_en en vals oc tag extra] in *.
    rewrite substitute_many_energy by assumption. rewrite He. f_equal.
    apply (energy_depends_on_vars p (labels s)); [assumption|]. intros w Hw. cbv beta.
    rewrite existsb_mem by assumption. rewrite row_sample_map by assumption.
    pose proof (row_sample_in (labels s) v w spin_val Hw Hlen Hsp) as Hx.
    rewrite <- (spin_binary_spin_val _ Hx) at 1. unfold to_spin_value. ring.
Qed.

(* when the conversion is refused the receiver keeps its rows and vartype but its energies
   have already been shifted *)
Theorem ss_change_vartype_fail_state target off s s' :
  ss_change_vartype target off s = Fail s' ->
  s' = ss_shift_energy off s /\ vt s' = vt s /\ target <> vt s /\
  rws s' = map (fun r => set_en r (en r + off)) (rws s).
Proof.
  intros Hcv. pose proof (ss_change_vartype_outcome target off s) as Ho. rewrite Hcv in Ho.
  inversion Ho as [ | | | Hne H1 H2 Hs]. subst s'.
  split; [reflexivity|split; [apply shift_vt|split; [assumption|apply shift_rws]]].
Qed.

(* the conversion succeeds exactly between SPIN and BINARY (or with the same vartype) *)
Theorem ss_change_vartype_ok_iff target off s :
  (exists s', ss_change_vartype target off s = Ok s') <->
  (target = vt s \/ (target = SPIN /\ vt s = BINARY) \/ (target = BINARY /\ vt s = SPIN)).
Proof.
  pose proof (ss_change_vartype_outcome target off s) as Ho. split.
  - intros [s' Hs']. rewrite Hs' in Ho. inversion Ho; tauto.
  - intros H. inversion Ho as [ | | | Hne H1 H2 Hs]; try (eexists; reflexivity).
    exfalso. tauto.
Qed.

(* ---------- frame ---------- *)
Definition row_frame (r : row) := (oc r, tag r, extra r, length (vals r)).

Theorem ss_change_vartype_preserves target off s s' :
  ss_change_vartype target off s = Ok s' \/ ss_change_vartype target off s = Fail s' ->
  labels s' = labels s /\ info s' = info s /\ fields s' = fields s /\
  map row_frame (rws s') = map row_frame (rws s) /\
  length (rws s') = length (rws s) /\
  map en (rws s') = map (fun r => en r + off) (rws s) /\
  (ss_change_vartype target off s = Ok s' -> vt s' = target) /\
  (ss_change_vartype target off s = Fail s' -> vt s' = vt s).
Proof.
  intros Hcv. pose proof (ss_change_vartype_outcome target off s) as Ho.
  assert (Hfr : forall f, map row_frame (map (fun r => set_vals r (map f (vals r)))
                                          (map (fun r => set_en r (en r + off)) (rws s))) =
                          map row_frame (rws s)).
  { intros f. rewrite !map_map. apply map_ext. intros [v e o t x].
    unfold row_frame. cbn [set_vals set_en vals en oc tag extra]. rewrite map_length. reflexivity. }
  assert (Hfr0 : map row_frame (map (fun r => set_en r (en r + off)) (rws s)) = map row_frame (rws s)).
  { rewrite map_map. apply map_ext. intros [v e o t x]. reflexivity. }
  assert (Hen : forall f, map en (map (fun r => set_vals r (map f (vals r)))
                                     (map (fun r => set_en r (en r + off)) (rws s))) =
                          map (fun r => en r + off) (rws s)).
  { intros f. rewrite !map_map. apply map_ext. intros [v e o t x]. reflexivity. }
  assert (Hen0 : map en (map (fun r => set_en r (en r + off)) (rws s)) = map (fun r => en r + off) (rws s)).
  { rewrite map_map. apply map_ext. intros [v e o t x]. reflexivity. }
  destruct Hcv as [Hcv|Hcv]; rewrite Hcv in Ho;
    inversion Ho as [Ht Hs | Ht Hv Hs | Ht Hv Hs | Hne H1 H2 Hs]; subst s';
    cbn [ss_map_samples labels info fields rws vt];
    rewrite ?shift_labels, ?shift_info, ?shift_fields, ?shift_rws, ?shift_vt, ?Hfr, ?Hfr0, ?Hen, ?Hen0, ?map_length;
    repeat split; try reflexivity; try (intros _; congruence); try (intros Hx; rewrite Hcv in Hx; discriminate Hx).
Qed.

(* ---------- there and back ---------- *)
Lemma sset_ext a b :
  labels a = labels b -> vt a = vt b -> rws a = rws b -> info a = info b -> fields a = fields b -> a = b.
Proof.
  destruct a as [l1 v1 r1 i1 f1], b as [l2 v2 r2 i2 f2]. cbn [labels vt rws info fields].
  intros; subst; reflexivity.
Qed.

Lemma map_id_in {A} (f : A -> A) l : (forall x, In x l -> f x = x) -> map f l = l.
Proof. intros H. rewrite <- (map_id l) at 2. apply map_ext_in. assumption. Qed.

Lemma roundtrip_rows (f g : Qc -> Qc) (P : Qc -> Prop) e (rows : list row) :
  (forall x, P x -> g (f x) = x) ->
  (forall r, In r rows -> Forall P (vals r)) ->
  map (fun r => set_vals r (map g (vals r)))
    (map (fun r => set_en r (en r + - e))
       (map (fun r => set_vals r (map f (vals r)))
          (map (fun r => set_en r (en r + e)) rows))) = rows.
Proof.
  intros Hgf HP. rewrite !map_map. apply map_id_in. intros r Hr.
  pose proof (HP r Hr) as HPr. destruct r as [v en0 o t x].
  unfold set_vals, set_en. cbn [vals en oc tag extra] in *. f_equal.
  - rewrite ?map_map. apply map_id_in. intros y Hy. apply Hgf.
    rewrite Forall_forall in HPr. apply HPr. assumption.
  - ring.
Qed.

Theorem ss_change_vartype_roundtrip_spin e s s1 s2 :
  vt s = SPIN -> (forall r, In r (rws s) -> Forall spin_val (vals r)) ->
  ss_change_vartype BINARY e s = Ok s1 ->
  ss_change_vartype SPIN (- e) s1 = Ok s2 ->
  s2 = s.
Proof.
  intros Hv Hsp H1 H2.
  pose proof (ss_change_vartype_outcome BINARY e s) as Ho1. rewrite H1 in Ho1.
  inversion Ho1 as [Ht Hs | Ht Hvv Hs | Ht Hvv Hs | ]; try congruence. subst s1. clear Ho1 H1.
  pose proof (ss_change_vartype_outcome SPIN (- e)
                (ss_map_samples to_binary_value BINARY (ss_shift_energy e s))) as Ho2.
  rewrite H2 in Ho2.
  inversion Ho2 as [Ht2 Hs | Ht2 Hv2 Hs | Ht2 Hv2 Hs | ]; try (cbn [ss_map_samples vt] in *; congruence).
  subst s2. clear Ho2 H2.
  apply sset_ext; cbn [ss_map_samples labels vt info fields rws];
    rewrite ?shift_labels, ?shift_info, ?shift_fields, ?shift_rws; cbn [ss_map_samples labels vt info fields rws];
    rewrite ?shift_labels, ?shift_info, ?shift_fields, ?shift_rws; try reflexivity.
  - symmetry. assumption.
  - apply (roundtrip_rows to_binary_value to_spin_value spin_val); [apply spin_binary_spin_val|assumption].
Qed.

Theorem ss_change_vartype_roundtrip_binary e s s1 s2 :
  vt s = BINARY -> (forall r, In r (rws s) -> Forall binary_val (vals r)) ->
  ss_change_vartype SPIN e s = Ok s1 ->
  ss_change_vartype BINARY (- e) s1 = Ok s2 ->
  s2 = s.
Proof.
  intros Hv Hsp H1 H2.
  pose proof (ss_change_vartype_outcome SPIN e s) as Ho1. rewrite H1 in Ho1.
  inversion Ho1 as [Ht Hs | Ht Hvv Hs | Ht Hvv Hs | ]; try congruence. subst s1. clear Ho1 H1.
  pose proof (ss_change_vartype_outcome BINARY (- e)
                (ss_map_samples to_spin_value SPIN (ss_shift_energy e s))) as Ho2.
  rewrite H2 in Ho2.
  inversion Ho2 as [Ht2 Hs | Ht2 Hv2 Hs | Ht2 Hv2 Hs | ]; try (cbn [ss_map_samples vt] in *; congruence).
  subst s2. clear Ho2 H2.
  apply sset_ext; cbn [ss_map_samples labels vt info fields rws];
    rewrite ?shift_labels, ?shift_info, ?shift_fields, ?shift_rws; cbn [ss_map_samples labels vt info fields rws];
    rewrite ?shift_labels, ?shift_info, ?shift_fields, ?shift_rws; try reflexivity.
  - symmetry. assumption.
  - apply (roundtrip_rows to_spin_value to_binary_value binary_val); [apply binary_spin_binary_val|assumption].
Qed.

(* the conversion always succeeds between SPIN and BINARY, and the converted rows are in the
   target domain: the hypotheses of the round trip are satisfiable *)
Theorem ss_change_vartype_spin_to_binary_ok e s :
  vt s = SPIN -> (forall r, In r (rws s) -> Forall spin_val (vals r)) ->
  exists s1, ss_change_vartype BINARY e s = Ok s1 /\ vt s1 = BINARY /\
             forall r, In r (rws s1) -> Forall binary_val (vals r).
Proof.
  intros Hv Hsp. pose proof (ss_change_vartype_outcome BINARY e s) as Ho.
  inversion Ho as [Ht Hs | Ht Hvv Hs | Ht Hvv Hs | Hne Ha Hb Hs]; try congruence.
  - eexists. split; [reflexivity|]. split; [reflexivity|].
    cbn [ss_map_samples rws]. rewrite shift_rws, map_map. intros r Hr. apply in_map_iff in Hr.
    destruct Hr as [r0 [<- Hr0]]. pose proof (Hsp r0 Hr0) as H0. destruct r0 as [v en0 o t x].
    cbn [set_vals set_en vals] in *. rewrite Forall_forall in *. intros y Hy.
    apply in_map_iff in Hy. destruct Hy as [y0 [<- Hy0]]. apply to_binary_value_is_binary. apply H0. assumption.
  - exfalso. apply Hb. split; [reflexivity|assumption].
Qed.

(* the model of Model/SSet.v (exact affine map) and this one (floor division) agree on spin rows *)
Theorem ss_change_vartype_agrees_with_affine target off s :
  (forall r, In r (rws s) -> Forall spin_val (vals r)) ->
  ss_change_vartype target off s = change_vartype_ss target off s.
Proof.
  intros Hsp. unfold ss_change_vartype, change_vartype_ss, ss_shift_energy.
  set (s1 := if Qc_eqb off 0 then s else with_rows s (map (fun r => set_en r (en r + off)) (rws s))).
  assert (Hv1 : vt s1 = vt s) by (subst s1; destruct (Qc_eqb off 0); reflexivity).
  assert (Hs1 : forall r, In r (rws s1) -> Forall spin_val (vals r)).
  { subst s1. destruct (Qc_eqb off 0); [assumption|]. cbn [with_rows rws]. intros r Hr.
    apply in_map_iff in Hr. destruct Hr as [r0 [<- Hr0]]. pose proof (Hsp _ Hr0) as H0. destruct r0 as [v0 e0 o0 t0 x0]. unfold set_en. cbn [vals] in *. exact H0. }
  rewrite Hv1. destruct (vartype_eqb target (vt s)); [reflexivity|].
  destruct target, (vt s); try reflexivity.
  unfold ss_map_samples, map_vals. f_equal. f_equal. apply map_ext_in. intros r Hr. f_equal.
  apply map_ext_in. intros x Hx. apply to_binary_value_affine.
  pose proof (Hs1 r Hr) as HF. rewrite Forall_forall in HF. apply HF. assumption.
Qed.

Print Assumptions ss_change_vartype_energy_consistent.
Print Assumptions ss_change_vartype_fail_state.
Print Assumptions ss_change_vartype_preserves.
Print Assumptions ss_change_vartype_roundtrip_spin.
Print Assumptions ss_change_vartype_roundtrip_binary.
Print Assumptions ss_change_vartype_agrees_with_affine.
Print Assumptions to_binary_value_floor.
