(* Facts about the model of the CQM version-1.x reader (Model/CqmFile.v): which variable order a file denotes. *)
From Coq Require Import List NArith ZArith Arith Bool Lia String.
From Dimod Require Import Base.Util Gen.Gen_Codec Gen.Gen_CqmLegacy Model.Codec Model.CodecEq Model.CqmFile Proofs.CodecBase Proofs.CodecLabel.
Import ListNotations.

(* ------------------------------------------------------------ label_eqb decides equality *)

Lemma label_eqb_refl : forall a, label_eqb a a = true.
Proof.
  induction a as [z|s|ls IH] using label_ind2.
  - cbn. apply Z.eqb_refl.
  - cbn. apply bytes_eqb_refl.
  - cbn [label_eqb]. induction IH as [|x r Hx Hr IHr]; [reflexivity|]. rewrite Hx. cbn [andb]. exact IHr.
Qed.

Lemma label_eqb_eq : forall a b, label_eqb a b = true -> a = b.
Proof.
  induction a as [z|s|ls IH] using label_ind2; intros b E; destruct b as [z'|s'|ls']; cbn [label_eqb] in E; try discriminate.
  - apply Z.eqb_eq in E. now subst.
  - apply bytes_eqb_eq in E. now subst.
  - f_equal. revert ls' E. induction IH as [|x r Hx Hr IHr]; intros ls' E; destruct ls' as [|y r']; try discriminate; [reflexivity|].
    apply andb_true_iff in E. destruct E as [E1 E2]. f_equal; [now apply Hx|now apply IHr].
Qed.

Lemma label_eqb_neq : forall a b, a <> b -> label_eqb a b = false.
Proof. intros a b N. destruct (label_eqb a b) eqn:E; [|reflexivity]. exfalso. apply N. now apply label_eqb_eq. Qed.

(* ------------------------------------------------------------ appending variables *)

Definition labels_of (vs : list (label * vinfo)) : list label := map fst vs.

Lemma seen_true : forall (vs : list (label * vinfo)) (v : label * vinfo), In (fst v) (labels_of vs) -> existsb (fun w => label_eqb (fst v) (fst w)) vs = true.
Proof.
  intros vs v H. apply existsb_exists. unfold labels_of in H. apply in_map_iff in H. destruct H as [w [E I]].
  exists w. split; [exact I|]. rewrite E. apply label_eqb_refl.
Qed.

Lemma seen_false : forall (vs : list (label * vinfo)) (v : label * vinfo), ~ In (fst v) (labels_of vs) -> existsb (fun w => label_eqb (fst v) (fst w)) vs = false.
Proof.
  intros vs v H. destruct (existsb _ vs) eqn:E; [|reflexivity]. exfalso. apply H.
  apply existsb_exists in E. destruct E as [w [I Ew]]. apply label_eqb_eq in Ew. unfold labels_of. rewrite Ew. now apply in_map.
Qed.

(* a label the model already has is never added again *)
Lemma add_vars_absorb : forall l vs, incl (labels_of l) (labels_of vs) -> add_vars vs l = vs.
Proof.
  unfold add_vars. induction l as [|v l IH]; intros vs H; [reflexivity|]. cbn [fold_left].
  unfold add_var at 2. rewrite (seen_true vs v); [|apply H; now left].
  apply IH. intros x Hx. apply H. now right.
Qed.

(* fresh, pairwise distinct labels are appended in order *)
Lemma add_vars_fresh : forall l vs, NoDup (labels_of l) -> (forall x, In x (labels_of l) -> ~ In x (labels_of vs)) ->
  add_vars vs l = vs ++ l.
Proof.
  unfold add_vars. induction l as [|v l IH]; intros vs ND F; [now rewrite app_nil_r|]. cbn [fold_left].
  unfold add_var at 2. rewrite (seen_false vs v); [|apply F; now left].
  cbn [labels_of map] in ND. inversion ND as [|a b Hn Hd]; subst.
  rewrite IH; [now rewrite <- app_assoc| exact Hd |].
  intros x Hx Hin. unfold labels_of in Hin. rewrite map_app in Hin. apply in_app_or in Hin. destruct Hin as [Hin|Hin].
  - apply (F x); [now right|exact Hin].
  - cbn in Hin. destruct Hin as [Hin|[]]. subst x. now apply Hn.
Qed.

(* the objective member of a version-1.x file lists every variable: the loaded model then has exactly the
   objective's variables, in the objective's order, with the objective's vartypes and bounds - whatever the
   constraints are and in whatever order the reader visits them (it iterates a Python set) *)
Theorem legacy_vars_objective : forall obj cons,
  NoDup (labels_of (nx_vars obj)) ->
  (forall c, In c cons -> incl (labels_of (nx_vars c)) (labels_of (nx_vars obj))) ->
  legacy_vars obj cons = nx_vars obj.
Proof.
  intros obj cons ND H. unfold legacy_vars, LEGACY_STEPS. cbn [fold_left legacy_step].
  rewrite (add_vars_fresh (nx_vars obj) [] ND); [|intros x _ []]. cbn [app].
  induction cons as [|c cons IH]; [reflexivity|]. cbn [fold_left].
  rewrite add_vars_absorb; [|apply H; now left]. apply IH. intros c' Hc'. apply H. now right.
Qed.

Corollary legacy_vars_order_independent : forall obj cons cons',
  NoDup (labels_of (nx_vars obj)) ->
  (forall c, In c cons -> incl (labels_of (nx_vars c)) (labels_of (nx_vars obj))) ->
  (forall c, In c cons' -> In c cons) ->
  legacy_vars obj cons' = legacy_vars obj cons.
Proof.
  intros obj cons cons' ND H P. rewrite (legacy_vars_objective obj cons ND H).
  apply legacy_vars_objective; [exact ND|]. intros c Hc. apply H. now apply P.
Qed.

(* a reader that loads the constraints BEFORE the objective does not compute this function: two variables, one
   constraint over the second one *)
Definition ex_vi : vinfo := bvt_vinfo BBINARY.
Definition ex_obj : nexpr := mkNexpr [(LStr [97%N], ex_vi); (LStr [98%N], ex_vi)] [F64_ZERO; F64_ZERO] [] F64_ZERO.
Definition ex_con : nexpr := mkNexpr [(LStr [98%N], ex_vi)] [F64_ONE] [] F64_ZERO.

Theorem constraints_first_differs :
  NoDup (labels_of (nx_vars ex_obj))
  /\ (forall c, In c [ex_con] -> incl (labels_of (nx_vars c)) (labels_of (nx_vars ex_obj)))
  /\ legacy_vars ex_obj [ex_con] = nx_vars ex_obj
  /\ constraints_first_vars ex_obj [ex_con] <> nx_vars ex_obj.
Proof.
  split; [|split; [|split]].
  - cbn. repeat constructor; cbn; intuition discriminate.
  - intros c [E|[]]. subst c. intros x [E|[]]. subst x. cbn. now right; left.
  - vm_compute. reflexivity.
  - vm_compute. discriminate.
Qed.

(* ------------------------------------------------------------ member names *)

(* the directory of a member "constraints/<dir>/<leaf>" is recovered when the leaf has no slash and dir is not
   empty - also when dir itself contains slashes (json labels such as "a/b") *)
Lemma split_last_slash_app : forall a leaf, forallb (fun c => negb (N.eqb c SLASH)) leaf = true ->
  split_last_slash (a ++ SLASH :: leaf) = Some (a, leaf).
Proof.
  intros a leaf NL.
  assert (L0 : split_last_slash leaf = None).
  { induction leaf as [|c r IH]; [reflexivity|]. cbn [forallb] in NL. apply andb_true_iff in NL. destruct NL as [Hc Hr].
    cbn [split_last_slash]. rewrite (IH Hr). apply negb_true_iff in Hc. now rewrite Hc. }
  induction a as [|c a IH].
  - cbn [app split_last_slash]. rewrite L0. now rewrite N.eqb_refl.
  - cbn [app split_last_slash]. now rewrite IH.
Qed.

Lemma starts_with_app : forall s r, starts_with s (s ++ r) = true.
Proof. induction s as [|c s IH]; intros r; [reflexivity|]. cbn. now rewrite N.eqb_refl, IH. Qed.

Lemma skipn_app_exact : forall (s r : bytes), skipn (length s) (s ++ r) = r.
Proof. induction s as [|c s IH]; intros r; [reflexivity|]. cbn. apply IH. Qed.

Theorem constraint_dir_member : forall dir leaf, dir <> [] ->
  forallb (fun c => negb (N.eqb c SLASH)) leaf = true ->
  constraint_dir (CONSTRAINTS_DIR ++ dir ++ [SLASH] ++ leaf) = Some dir.
Proof.
  intros dir leaf NE NL. unfold constraint_dir. rewrite starts_with_app, skipn_app_exact.
  cbn [app]. rewrite (split_last_slash_app dir leaf NL). destruct dir as [|c d]; [now contradiction NE|reflexivity].
Qed.

(* ------------------------------------------------------------ ties to the generated shape of the reader *)

Local Open Scope string_scope.
(* the member-name pattern and the member leaves the source reads are the ones the model implements
   (constraint_dir = group 1 of this pattern; read_constraint reads exactly these leaves) *)
Lemma legacy_shape_tie :
  LEGACY_DIR_REGEX = "constraints/(.+)/[^/]*$"
  /\ LEGACY_REQUIRED = ["discrete"; "lhs"; "rhs"; "sense"] /\ LEGACY_OPTIONAL = ["penalty"; "weight"].
Proof. repeat split; reflexivity. Qed.
