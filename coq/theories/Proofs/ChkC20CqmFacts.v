(* The expression-level functions of Model/ChkC20Cqm.v that are not part of g9's ExprOps
   (Expression::set_quadratic, Expression::fix_variable, scale with the sense flip of
   Constraint::scale, the copying fix_variables path, remove_constraints_if, is_onehot, energy):
   ExprInv preservation and functional statements, on top of Proofs/ExprFacts, ExprViewFacts, ExprSim. *)
From Coq Require Import List ZArith QArith Qcanon Bool Arith Lia.
From Dimod Require Import Base.Util Model.Poly Model.Expr Model.ExprOps Model.ChkC20Cqm
  Proofs.PolyFacts Proofs.ExprFacts Proofs.ExprViewFacts Proofs.ExprSim.
Import ListNotations.
Open Scope Qc_scope.

(* ---------- enforce: positions ---------- *)
Lemma enforce_snd_lt n e v : ExprInv n e -> (v < n)%nat ->
  (snd (enforce v e) < length (e_vars (fst (enforce v e))))%nat.
Proof.
  intros I Hv. pose proof (enforce_index n e v I Hv) as H.
  apply nth_error_Some. rewrite H. discriminate.
Qed.

Lemma enforce_len_mono n e v : ExprInv n e ->
  (length (e_vars e) <= length (e_vars (fst (enforce v e))))%nat.
Proof.
  intros I. destruct (index_of v (e_vars e)) as [i|] eqn:F.
  - rewrite (enforce_present n e v i I F). cbn [fst]. lia.
  - assert (Hn : ~ In v (e_vars e)) by (apply index_of_None; exact F).
    rewrite (enforce_absent n e v I Hn). cbn [fst e_vars]. rewrite app_length. lia.
Qed.

(* ---------- Expression::set_quadratic ---------- *)
Theorem set_quadratic_inv n vt e u v b :
  ExprInv n e -> (u < n)%nat -> (v < n)%nat -> ExprInv n (m_set_quadratic vt u v b e).
Proof.
  intros I Hu Hv. unfold m_set_quadratic.
  pose proof (enforce_inv n e v I Hv) as I1. pose proof (enforce_snd_lt n e v I Hv) as Hj.
  destruct (enforce v e) as [e1 j] eqn:E1. cbn [fst snd] in I1, Hj.
  pose proof (enforce_inv n e1 u I1 Hu) as I2. pose proof (enforce_snd_lt n e1 u I1 Hu) as Hi.
  pose proof (enforce_len_mono n e1 u I1) as Hm.
  destruct (enforce u e1) as [e2 i] eqn:E2. cbn [fst snd] in I2, Hi, Hm.
  destruct ((i =? j)%nat && binspin (vt (nth i (e_vars e2) 0%nat))); [exact I2|].
  destruct I2 as [ND LT LEN QD IDX]. constructor; cbn [e_vars e_idx e_lin e_quad]; try assumption.
  constructor; [cbn [fst snd]; lia|].
  apply Forall_forall. intros t Ht. apply filter_In in Ht. rewrite Forall_forall in QD. apply QD, Ht.
Qed.

(* after the call the pair carries exactly the bias that was set (when the call does not throw) *)
Theorem set_quadratic_reads n vt e u v b :
  ExprInv n e -> (u < n)%nat -> (v < n)%nat ->
  let i := snd (enforce u (fst (enforce v e))) in
  let j := snd (enforce v e) in
  ((i =? j)%nat && binspin (vt (nth i (e_vars (fst (enforce u (fst (enforce v e))))) 0%nat))) = false ->
  pair_sum (e_quad (m_set_quadratic vt u v b e)) i j = b
  /\ pair_present (e_quad (m_set_quadratic vt u v b e)) i j = true.
Proof.
  intros I Hu Hv i j Hc. unfold m_set_quadratic. subst i j.
  destruct (enforce v e) as [e1 j] eqn:E1. cbn [fst snd] in *.
  destruct (enforce u e1) as [e2 i] eqn:E2. cbn [fst snd] in *. rewrite Hc. cbn [e_quad].
  assert (Hs : same_upair (i, j, b) i j = true).
  { unfold same_upair. cbn [fst snd]. rewrite !Nat.eqb_refl. reflexivity. }
  unfold pair_sum, pair_present, pair_terms. cbn [filter]. rewrite Hs.
  assert (E : filter (fun t => same_upair t i j)
                (filter (fun t => negb (((fst (fst t) =? i) && (snd (fst t) =? j) || (fst (fst t) =? j) && (snd (fst t) =? i))%nat)) (e_quad e2)) = []).
  { induction (e_quad e2) as [|t q IH]; [reflexivity|]. cbn [filter].
    destruct (negb _) eqn:En; [|exact IH]. cbn [filter]. unfold same_upair at 1.
    apply negb_true_iff in En. rewrite En. exact IH. }
  rewrite E. cbn [map qsum snd]. split; [apply Qcplus_0_r|reflexivity].
Qed.

(* ---------- Expression::fix_variable ---------- *)
Lemma fix_fold_length i a (q : list lqterm) (l : list Qc) :
  length (fold_left (fun l t =>
            let x := fst (fst t) in let y := snd (fst t) in let w := snd t in
            if ((x =? i) && (y =? i))%nat then Expr.upd_nth i (fun z => z + w * a) l
            else if (x =? i)%nat then Expr.upd_nth y (fun z => z + w * a) l
            else if (y =? i)%nat then Expr.upd_nth x (fun z => z + w * a) l
            else l) q l) = length l.
Proof.
  revert l. induction q as [|t q IH]; intros l; cbn [fold_left]; [reflexivity|]. rewrite IH.
  cbv zeta. destruct ((fst (fst t) =? i) && (snd (fst t) =? i))%nat; [apply upd_nth_length|].
  destruct (fst (fst t) =? i)%nat; [apply upd_nth_length|].
  destruct (snd (fst t) =? i)%nat; [apply upd_nth_length|reflexivity].
Qed.

Theorem fix_variable_inv n e v a : ExprInv n e -> ExprInv n (m_fix_variable v a e).
Proof.
  intros I. unfold m_fix_variable. destruct (idx_find v (e_idx e)) as [i|]; [|exact I].
  apply remove_variable_inv. destruct I as [ND LT LEN QD IDX].
  constructor; cbn [e_vars e_idx e_lin e_quad]; try assumption.
  rewrite fix_fold_length. exact LEN.
Qed.

(* the variable is gone from the expression afterwards *)
Theorem fix_variable_forgets n e v a : ExprInv n e -> ~ In v (e_vars (m_fix_variable v a e)).
Proof.
  intros I. unfold m_fix_variable. destruct (idx_find v (e_idx e)) as [i|] eqn:F.
  - set (e' := mkE _ _ _ _ _). unfold m_remove_variable. cbn [e_idx e']. rewrite F. cbn [e_vars].
    rewrite (inv_idx _ _ I v) in F. apply (remove_nth_notin (e_vars e) i v (inv_nodup _ _ I)).
    apply index_of_nth, F.
  - rewrite (inv_idx _ _ I v) in F. apply index_of_None, F.
Qed.

(* ---------- scale ---------- *)
Theorem scale_inv n k e : ExprInv n e -> ExprInv n (m_scale k e).
Proof.
  intros [ND LT LEN QD IDX]. constructor; cbn [m_scale e_vars e_idx e_lin e_quad]; try assumption.
  - rewrite map_length. exact LEN.
  - apply Forall_forall. intros t Ht. apply in_map_iff in Ht. destruct Ht as [t0 [<- Ht0]].
    rewrite Forall_forall in QD. cbn [fst]. apply QD, Ht0.
Qed.

Lemma LinE_scale vars lin k s : LinE vars (map (fun x => x * k) lin) s = k * LinE vars lin s.
Proof.
  revert lin. unfold LinE. induction vars as [|a r IH]; intros [|b l]; cbn [map combine];
    try (unfold lin_energy; cbn [map qsum]; ring).
  rewrite !lin_energy_cons, IH. cbn [fst snd]. ring.
Qed.

Lemma QuadE_scale vars (quad : list lqterm) k s :
  QuadE vars (map (fun t => (fst t, snd t * k)) quad) s = k * QuadE vars quad s.
Proof.
  unfold QuadE, quad_energy. induction quad as [|t q IH]; cbn [map qsum]; [ring|].
  rewrite IH. unfold to_model, qterm_val. cbn [fst snd]. ring.
Qed.

Theorem scale_energy k e s : energy (abs_expr (m_scale k e)) s = k * energy (abs_expr e) s.
Proof.
  rewrite !energy_abs. cbn [m_scale e_vars e_lin e_quad e_off]. rewrite LinE_scale, QuadE_scale. ring.
Qed.

(* ---------- remove_constraints_if / per-constraint well-formedness ---------- *)
Definition cons_ok (n : nat) (l : list mcon) : Prop := Forall (fun k => ExprInv n (mc_e k)) l.

Theorem remove_constraints_if_ok n (p : mcon -> bool) l : cons_ok n l -> cons_ok n (filter p l).
Proof.
  unfold cons_ok. intros H. apply Forall_forall. intros k Hk. apply filter_In in Hk.
  rewrite Forall_forall in H. apply H, Hk.
Qed.

Theorem remove_constraints_if_spec (p : mcon -> bool) l k :
  In k (filter (fun c => negb (p c)) l) <-> In k l /\ p k = false.
Proof. rewrite filter_In, negb_true_iff. reflexivity. Qed.

(* ---------- is_onehot ---------- *)
Theorem is_onehot_spec vt c :
  is_onehot vt c = true <->
  e_quad (mc_e c) = [] /\ (2 <= length (e_vars (mc_e c)))%nat /\ mc_sense c = 2%nat /\ e_off (mc_e c) = 0
  /\ (forall v, In v (e_vars (mc_e c)) -> vt v = BINARY) /\ (forall l, In l (e_lin (mc_e c)) -> l = mc_rhs c).
Proof.
  unfold is_onehot. rewrite !andb_true_iff, !forallb_forall, Nat.leb_le, Nat.eqb_eq.
  assert (Q : forall a b, Qc_eqb a b = true <-> a = b).
  { intros a b. unfold Qc_eqb. rewrite Qeq_bool_iff. split; [apply Qc_is_canon|intros ->; reflexivity]. }
  rewrite Q. split.
  - intros [[[[[H1 H2] H3] H4] H5] H6]. repeat split; try assumption.
    + destruct (e_quad (mc_e c)); [reflexivity|discriminate].
    + intros v Hv. specialize (H5 v Hv). destruct (vt v); try discriminate; reflexivity.
    + intros l Hl. apply Q, H6, Hl.
  - intros [H1 [H2 [H3 [H4 [H5 H6]]]]]. repeat split; try assumption.
    + rewrite H1. reflexivity.
    + intros v Hv. rewrite (H5 v Hv). reflexivity.
    + intros l Hl. apply Q, H6, Hl.
Qed.

(* ---------- energy: the value the check compares is the energy of the abstraction ---------- *)
Lemma lin_sum_eq : forall vars lin s, length lin = length vars ->
  qsum (map (fun iv => nth (fst iv) lin 0 * s (snd iv)) (combine (seq 0 (length vars)) vars)) = LinE vars lin s.
Proof.
  assert (G : forall (vars : list nat) (lin pre : list Qc) (s : sample), length lin = length vars ->
             qsum (map (fun iv => nth (fst iv) (pre ++ lin) 0 * s (snd iv)) (combine (seq (length pre) (length vars)) vars))
             = LinE vars lin s).
  { induction vars as [|a r IH]; intros lin pre s H; destruct lin as [|b l]; cbn [length] in H; try discriminate.
    - reflexivity.
    - cbn [length seq combine map qsum fst snd]. unfold LinE. cbn [combine]. rewrite lin_energy_cons. cbn [fst snd].
      rewrite app_nth2 by lia. rewrite Nat.sub_diag. cbn [nth].
      replace (pre ++ b :: l) with ((pre ++ [b]) ++ l) by (rewrite <- app_assoc; reflexivity).
      replace (S (length pre)) with (length (pre ++ [b])) by (rewrite app_length; cbn; lia).
      rewrite (IH l (pre ++ [b]) s) by lia. unfold LinE. ring. }
  intros vars lin s H. apply (G vars lin [] s H).
Qed.

Theorem model_energy_is_energy n e x :
  ExprInv n e -> model_energy e x = energy (abs_expr e) (fun v => nth v x 0).
Proof.
  intros I. rewrite energy_abs. unfold model_energy.
  rewrite <- (lin_sum_eq (e_vars e) (e_lin e) (fun v => nth v x 0)) by (apply (inv_len _ _ I)).
  unfold QuadE, quad_energy. rewrite map_map. reflexivity.
Qed.

(* ---------- Constraint::scale: the sense flip keeps the meaning of the constraint ---------- *)
Definition holds (c : mcon) (s : sample) : Prop :=
  let E := energy (abs_expr (mc_e c)) s in
  match mc_sense c with
  | 0%nat => E <= mc_rhs c
  | 1%nat => mc_rhs c <= E
  | _ => E = mc_rhs c
  end.

Lemma mul_le_pos z x y : 0 < z -> (x * z <= y * z <-> x <= y).
Proof.
  intros Hz. split.
  - apply Qcmult_lt_0_le_reg_r, Hz.
  - intros H. apply Qcmult_le_compat_r; [exact H|apply Qclt_le_weak, Hz].
Qed.

Lemma opp_le_iff x y : - y <= - x <-> x <= y.
Proof.
  split; [|apply Qcopp_le_compat]. intros H. apply Qcopp_le_compat in H.
  rewrite !Qcopp_involutive in H. exact H.
Qed.

Lemma mul_le_neg z x y : z < 0 -> (x * z <= y * z <-> y <= x).
Proof.
  intros Hz. assert (Hp : 0 < - z).
  { apply Qclt_minus_iff. replace (- z + - 0) with (0 + - z) by ring. apply Qclt_minus_iff in Hz.
    replace (0 + - z) with (0 + - z) by ring. exact Hz. }
  rewrite <- (mul_le_pos (- z) y x Hp). rewrite <- opp_le_iff.
  replace (- (y * z)) with (y * - z) by ring. replace (- (x * z)) with (x * - z) by ring. reflexivity.
Qed.

Lemma mul_eq_nz z x y : z <> 0 -> (x * z = y * z <-> x = y).
Proof.
  intros Hz. split; [|intros ->; reflexivity]. intros H.
  assert (E : (x - y) * z = 0) by (replace ((x - y) * z) with (x * z - y * z) by ring; rewrite H; ring).
  apply Qcmult_integral in E. destruct E as [E|E]; [|contradiction].
  replace x with (x - y + y) by ring. rewrite E. ring.
Qed.

Theorem con_scale_holds k c s : k <> 0 -> (holds (con_scale k c) s <-> holds c s).
Proof.
  intros Hk. unfold holds, con_scale. cbn [mc_e mc_sense mc_rhs]. rewrite scale_energy.
  set (E := energy (abs_expr (mc_e c)) s). replace (k * E) with (E * k) by ring.
  destruct (Qle_bool 0 k) eqn:Eb; cbn [negb].
  - assert (Hp : 0 < k).
    { apply Qle_bool_iff in Eb. change (0 <= k) in Eb. apply Qcle_lt_or_eq in Eb. destruct Eb as [H|H]; [exact H|].
      exfalso. apply Hk. symmetry. exact H. }
    destruct (mc_sense c) as [|[|x]]; [apply mul_le_pos, Hp|apply mul_le_pos, Hp|apply mul_eq_nz, Hk].
  - assert (Hn : k < 0).
    { apply Qcnot_le_lt. intro H. change (this 0 <= this k)%Q in H. apply Qle_bool_iff in H. assert (T : Qle_bool 0 k = true) by (exact H). rewrite T in Eb. discriminate. }
    destruct (mc_sense c) as [|[|x]]; [apply mul_le_neg, Hn|apply mul_le_neg, Hn|apply mul_eq_nz, Hk].
Qed.

Theorem con_scale_inv n k c : ExprInv n (mc_e c) -> ExprInv n (mc_e (con_scale k c)).
Proof. intros I. cbn [con_scale mc_e]. apply scale_inv, I. Qed.

(* ---------- the copying fix_variables path ---------- *)
Definition bnd (K : nat) (o : option nat) : Prop := match o with Some x => (x < K)%nat | None => True end.

Lemma bnd_mono K K' o : bnd K o -> (K <= K')%nat -> bnd K' o.
Proof. destruct o; cbn [bnd]; [lia|auto]. Qed.

Definition free_in (vs : list nat) (i : nat) : bool := negb (existsb (Nat.eqb i) vs).

Lemma o2n_fold vs l : forall k acc,
  let r := fold_left (fun acc i => if existsb (Nat.eqb i) vs then (fst acc, snd acc ++ [None])
                                   else (S (fst acc), snd acc ++ [Some (fst acc)])) l (k, acc) in
  fst r = (k + length (filter (free_in vs) l))%nat /\ (Forall (bnd k) acc -> Forall (bnd (fst r)) (snd r)).
Proof.
  induction l as [|i l IH]; intros k acc; cbn [fold_left filter].
  - cbn [fst snd length]. split; [lia|auto].
  - unfold free_in at 1. destruct (existsb (Nat.eqb i) vs); cbn [fst snd negb].
    + destruct (IH k (acc ++ [None])) as [H1 H2]. split; [exact H1|]. intros Ha. apply H2.
      apply Forall_app. split; [exact Ha|repeat constructor].
    + destruct (IH (S k) (acc ++ [Some k])) as [H1 H2]. split; [rewrite H1; cbn [length]; lia|].
      intros Ha. apply H2. apply Forall_app. split.
      * eapply Forall_impl; [|exact Ha]. intros o Ho. apply (bnd_mono k); [exact Ho|lia].
      * constructor; [cbn [bnd]; lia|constructor].
Qed.

Definition count_free (n : nat) (vs : list nat) : nat := length (filter (free_in vs) (seq 0 n)).

Lemma old_to_new_bound n vs v nv : nth v (old_to_new n vs) None = Some nv -> (nv < count_free n vs)%nat.
Proof.
  intros H. unfold old_to_new in H.
  destruct (o2n_fold vs (seq 0 n) 0%nat []) as [H1 H2]. cbv zeta in H1, H2.
  specialize (H2 (Forall_nil _)). rewrite H1 in H2. cbn [Nat.add] in H2.
  assert (Hin : In (Some nv) (old_to_new n vs)).
  { unfold old_to_new. rewrite <- H. apply nth_In.
    destruct (Nat.lt_ge_cases v (length (snd (fold_left
      (fun acc i => if existsb (Nat.eqb i) vs then (fst acc, snd acc ++ [None]) else (S (fst acc), snd acc ++ [Some (fst acc)]))
      (seq 0 n) (0%nat, []))))) as [L|L]; [exact L|].
    rewrite nth_overflow in H by exact L. discriminate. }
  rewrite Forall_forall in H2. apply (H2 (Some nv) Hin).
Qed.

Lemma filter_combine_length {A B} (f : A -> bool) (l1 : list A) (l2 : list B) :
  length l1 = length l2 -> length (filter (fun p => f (fst p)) (combine l1 l2)) = length (filter f l1).
Proof.
  revert l2. induction l1 as [|a l1 IH]; intros [|b l2] H; cbn [length] in H; try discriminate; [reflexivity|].
  cbn [combine filter fst]. destruct (f a); cbn [length]; rewrite IH by lia; reflexivity.
Qed.

(* one rebuilt expression: labels below K whenever the table's entries are *)
Theorem fix_expr_inv K vt' o2n a e :
  (forall v nv, nth v o2n None = Some nv -> (nv < K)%nat) -> ExprInv K (fix_expr vt' o2n a e).
Proof.
  intros Hb. unfold fix_expr.
  assert (G : forall (A : Type) (step : mexpr -> A -> mexpr) (l : list A) d,
             (forall d x, ExprInv K d -> ExprInv K (step d x)) -> ExprInv K d -> ExprInv K (fold_left step l d)).
  { intros A step l. induction l as [|x l IH]; intros d Hs Hd; [exact Hd|]. cbn [fold_left]. apply IH; auto. }
  apply G; [|apply G; [|apply add_offset_inv, empty_inv]].
  - intros d t Hd. destruct (nth (nth (fst (fst t)) (e_vars e) 0%nat) o2n None) as [nu|] eqn:Eu;
      destruct (nth (nth (snd (fst t)) (e_vars e) 0%nat) o2n None) as [nv|] eqn:Ev.
    + apply add_quadratic_inv; [exact Hd|eapply Hb, Eu|eapply Hb, Ev].
    + apply add_linear_inv; [exact Hd|eapply Hb, Eu].
    + apply add_linear_inv; [exact Hd|eapply Hb, Ev].
    + apply add_offset_inv, Hd.
  - intros d iv Hd. destruct (nth (snd iv) o2n None) as [nv|] eqn:Ev.
    + apply add_linear_inv; [exact Hd|eapply Hb, Ev].
    + apply add_offset_inv, Hd.
Qed.

(* the whole model: every expression of the new model is well formed over the new variable count *)
Theorem cqm_fix_variables_ok vs asg q :
  let q' := cqm_fix_variables vs asg q in
  ExprInv (length (m_info q')) (m_obj q') /\ cons_ok (length (m_info q')) (m_cons q')
  /\ length (m_info q') = count_free (length (m_info q)) vs
  /\ length (m_cons q') = length (m_cons q).
Proof.
  cbv zeta. unfold cqm_fix_variables. cbn [m_info m_obj m_cons].
  set (n := length (m_info q)).
  assert (Hlen : length (map snd (filter (fun p : nat * minfo => negb (existsb (Nat.eqb (fst p)) vs))
                                         (combine (seq 0 n) (m_info q)))) = count_free n vs).
  { rewrite map_length. unfold count_free.
    change (fun p : nat * minfo => negb (existsb (Nat.eqb (fst p)) vs)) with (fun p : nat * minfo => free_in vs (fst p)).
    apply filter_combine_length. rewrite seq_length. reflexivity. }
  rewrite Hlen.
  assert (Hb : forall v nv, nth v (old_to_new n vs) None = Some nv -> (nv < count_free n vs)%nat)
    by (intros v nv; apply old_to_new_bound).
  split; [apply fix_expr_inv, Hb|]. split; [|split; [reflexivity|apply map_length]].
  unfold cons_ok. apply Forall_forall. intros k Hk. apply in_map_iff in Hk. destruct Hk as [k0 [<- _]].
  cbn [mc_e mc_set_e]. apply fix_expr_inv, Hb.
Qed.
