(* C07: the enumerations of the exact solvers list every assignment of their search
   space exactly once; the lowest row of a complete enumeration is a global optimum. *)
From Coq Require Import List ZArith QArith Qcanon Bool Arith Lia Permutation FinFun.
From Dimod Require Import Base.Util Model.Poly Model.Comb Gen.Gen_ExactHoc Model.Solve Proofs.CombGray.
Import ListNotations.
Local Open Scope nat_scope.

(* ------------------------------------------------------------------ *)
(* generic list facts *)

Lemma swap2_invol {A} (l : list A) : swap2 (swap2 l) = l.
Proof. destruct l as [|a [|b r]]; reflexivity. Qed.

Lemma Forall2_swap2 {A B} (R : A -> B -> Prop) l1 l2 :
  Forall2 R l1 l2 -> Forall2 R (swap2 l1) (swap2 l2).
Proof.
  intros H. destruct H as [|a b l1 l2 Hab H]; [constructor|].
  destruct H as [|a' b' l1' l2' Hab' H']; cbn [swap2]; repeat constructor; assumption.
Qed.

Lemma Forall2_rev' {A B} (R : A -> B -> Prop) l1 l2 :
  Forall2 R l1 l2 -> Forall2 R (rev l1) (rev l2).
Proof.
  induction 1 as [|a b l1 l2 Hab H IH]; cbn [rev]; [constructor|].
  apply Forall2_app; [exact IH|repeat constructor; exact Hab].
Qed.

Lemma Forall_swap2 {A} (P : A -> Prop) l : Forall P l -> Forall P (swap2 l).
Proof.
  intros H. destruct H as [|a l Ha H]; [constructor|].
  destruct H as [|b l' Hb H']; cbn [swap2]; repeat constructor; assumption.
Qed.

Lemma swap2_rev_inj {A} : Injective (fun r : list A => swap2 (rev r)).
Proof.
  intros x y H. apply (f_equal swap2) in H. rewrite !swap2_invol in H.
  apply (f_equal (@rev A)) in H. rewrite !rev_involutive in H. exact H.
Qed.

Lemma in_firstn_in {A} n (l : list A) x : In x (firstn n l) -> In x l.
Proof. intros H. rewrite <- (firstn_skipn n l). apply in_or_app. left. exact H. Qed.

(* local injectivity is enough for NoDup of a map *)
Lemma NoDup_map_in_inj {A B} (f : A -> B) l :
  (forall x y, In x l -> In y l -> f x = f y -> x = y) -> NoDup l -> NoDup (map f l).
Proof.
  intros Hinj Hnd. induction Hnd as [|x l Hx Hnd IH]; cbn [map]; constructor.
  - rewrite in_map_iff. intros [y [E Hy]]. apply Hx.
    rewrite (Hinj x y); [exact Hy|left; reflexivity|right; exact Hy|symmetry; exact E].
  - apply IH. intros a b Ha Hb. apply Hinj; right; assumption.
Qed.

(* blocks of equal length in front of a duplicate-free list of tails *)
Lemma NoDup_flat_map_app {A} (d : nat) (hs ts : list (list A)) :
  NoDup hs -> (forall h, In h hs -> length h = d) -> NoDup ts ->
  NoDup (flat_map (fun h => map (app h) ts) hs).
Proof.
  intros Hh Hlen Ht. induction Hh as [|h hs Hnotin Hh IH]; cbn [flat_map]; [constructor|].
  apply NoDup_app_intro.
  - apply Injective_map_NoDup; [|exact Ht]. intros a b E. apply app_inv_head in E. exact E.
  - apply IH. intros h' Hh'. apply Hlen. right. exact Hh'.
  - intros x Hx Hx'. apply in_map_iff in Hx. destruct Hx as [t [<- Htin]].
    apply in_flat_map in Hx'. destruct Hx' as [h' [Hh' Hin]].
    apply in_map_iff in Hin. destruct Hin as [t' [E Ht']].
    assert (h' = h) as ->.
    { apply (f_equal (firstn d)) in E.
      rewrite <- (Hlen h') in E at 1 by (right; exact Hh').
      rewrite <- (Hlen h) in E at 1 by (left; reflexivity).
      rewrite !firstn_app, !Nat.sub_diag, !firstn_all in E. cbn [firstn] in E.
      rewrite !app_nil_r in E. exact E. }
    contradiction.
Qed.

(* ------------------------------------------------------------------ *)
(* meshgrid order *)

Theorem mesh_In {A} (doms : list (list A)) xs :
  In xs (mesh doms) <-> Forall2 (fun x d => In x d) xs doms.
Proof.
  unfold mesh. rewrite in_map_iff. split.
  - intros [r [<- Hr]]. apply product_In in Hr.
    apply Forall2_rev' in Hr. rewrite rev_involutive in Hr.
    apply Forall2_swap2 in Hr. rewrite swap2_invol in Hr. exact Hr.
  - intros H. exists (rev (swap2 xs)). split.
    + rewrite rev_involutive, swap2_invol. reflexivity.
    + apply product_In. apply Forall2_rev'. apply Forall2_swap2. exact H.
Qed.

Theorem mesh_NoDup {A} (doms : list (list A)) :
  Forall (@NoDup A) doms -> NoDup (mesh doms).
Proof.
  intros H. unfold mesh. apply Injective_map_NoDup; [apply swap2_rev_inj|].
  apply product_NoDup. apply Forall_rev. apply Forall_swap2. exact H.
Qed.

(* the meshgrid order is a re-ordering of the lexicographic product *)
Theorem mesh_perm {A} (doms : list (list A)) :
  Forall (@NoDup A) doms -> Permutation (mesh doms) (product doms).
Proof.
  intros H. apply NoDup_Permutation; [apply mesh_NoDup; exact H|apply product_NoDup; exact H|].
  intros x. rewrite mesh_In, product_In. reflexivity.
Qed.

(* ------------------------------------------------------------------ *)
(* integer ranges and variable domains *)

Lemma zrange_In lb ub z : In z (zrange lb ub) <-> (lb <= z <= ub)%Z.
Proof.
  unfold zrange. rewrite in_map_iff. split.
  - intros [k [<- Hk]]. apply in_seq in Hk. lia.
  - intros H. exists (Z.to_nat (z - lb)). split; [lia|]. apply in_seq. lia.
Qed.

Lemma zrange_NoDup lb ub : NoDup (zrange lb ub).
Proof.
  unfold zrange. apply Injective_map_NoDup; [|apply seq_NoDup].
  intros a b E. lia.
Qed.

Lemma grange_In a b z : In z (grange a b) <-> (a <= z < b)%Z.
Proof.
  unfold grange. rewrite in_map_iff. split.
  - intros [k [<- Hk]]. apply in_seq in Hk. lia.
  - intros H. exists (Z.to_nat (z - a)). split; [lia|]. apply in_seq. lia.
Qed.

Lemma grange_NoDup a b : NoDup (grange a b).
Proof.
  unfold grange. apply Injective_map_NoDup; [|apply seq_NoDup]. intros x y E. lia.
Qed.

Lemma dom_values_NoDup d : NoDup (dom_values d).
Proof.
  destruct d; cbn [dom_values].
  - apply grange_NoDup.
  - unfold gen_spin_values. constructor; [cbn [In]; intros [E|[]]; discriminate E|constructor; [intros []|constructor]].
  - apply zrange_NoDup.
  - apply grange_NoDup.
Qed.

(* the specification of an INTEGER variable's domain: the integers between the bounds *)
Definition within_bounds (lb ub : Qc) (z : Z) : Prop :=
  (lb <= Q2Qc (inject_Z z))%Qc /\ (Q2Qc (inject_Z z) <= ub)%Qc.

Definition in_vdom (d : vdom) (z : Z) : Prop :=
  match d with
  | DBin => z = 0%Z \/ z = 1%Z
  | DSpin => z = (-1)%Z \/ z = 1%Z
  | DInt lb ub => (lb <= z <= ub)%Z
  | DIntQ lb ub => within_bounds lb ub z
  end.

Lemma qfloor_spec q z : (z <= qfloor q)%Z <-> (Q2Qc (inject_Z z) <= q)%Qc.
Proof.
  unfold Qcle, qfloor, gfloor. cbn [this Q2Qc]. rewrite Qred_correct. unfold Qle. cbn [Qnum Qden inject_Z].
  destruct q as [[n d] Hc]. cbn [this Qnum Qden].
  pose proof (Z.mul_div_le n (Zpos d) (eq_refl : (0 < Zpos d)%Z)) as H1. split; intros H.
  - nia.
  - apply Z.div_le_lower_bound; [reflexivity|lia].
Qed.

Lemma qceil_spec q z : (qceil q <= z)%Z <-> (q <= Q2Qc (inject_Z z))%Qc.
Proof.
  unfold Qcle, qceil, gceil. cbn [this Q2Qc]. rewrite Qred_correct. unfold Qle. cbn [Qnum Qden inject_Z].
  destruct q as [[n d] Hc]. cbn [this Qnum Qden].
  pose proof (Z.mul_div_le (- n) (Zpos d) (eq_refl : (0 < Zpos d)%Z)) as H1. split; intros H.
  - nia.
  - assert (- z <= (- n) / Zpos d)%Z; [apply Z.div_le_lower_bound; [reflexivity|lia]|lia].
Qed.

(* ExactCQMSolver, INTEGER variable with arbitrary (also non-integral) bounds: every enumerated
   value lies within the bounds and every integer within the bounds is enumerated *)
Theorem cqm_integer_domain_within_bounds lb ub z :
  In z (dom_values (DIntQ lb ub)) <-> within_bounds lb ub z.
Proof.
  cbn [dom_values]. unfold gen_integer_values. rewrite grange_In. unfold within_bounds.
  rewrite <- qfloor_spec, <- qceil_spec. unfold qfloor, qceil. lia.
Qed.

Lemma dom_values_In d z : In z (dom_values d) <-> in_vdom d z.
Proof.
  destruct d; [| |apply zrange_In|apply cqm_integer_domain_within_bounds]; cbn [dom_values in_vdom].
  - unfold gen_binary_values. rewrite grange_In. lia.
  - unfold gen_spin_values. cbn [In]. intuition congruence.
Qed.

(* ------------------------------------------------------------------ *)
(* ExactDQMSolver *)

Theorem dqm_cases_each_once (ncases : list nat) :
  NoDup (all_cases_dqm ncases) /\
  (forall row, In row (all_cases_dqm ncases) <->
               Forall2 (fun x n => (0 <= x < Z.of_nat n)%Z) row ncases) /\
  Permutation (all_cases_dqm ncases) (product (map gen_dqm_values ncases)).
Proof.
  assert (Hnd : Forall (@NoDup Z) (map gen_dqm_values ncases)).
  { apply Forall_forall. intros d Hd. apply in_map_iff in Hd. destruct Hd as [n [<- _]]. apply grange_NoDup. }
  unfold all_cases_dqm. split; [apply mesh_NoDup; exact Hnd|]. split; [|apply mesh_perm; exact Hnd].
  intros row. rewrite mesh_In. split.
  - intros H. remember (map gen_dqm_values ncases) as ds eqn:E.
    revert ncases E Hnd. induction H as [|x d row ds Hx H IH]; intros ncases E Hnd.
    + destruct ncases; [constructor|discriminate E].
    + destruct ncases as [|n ncases]; [discriminate E|]. cbn [map] in E. inversion E; subst.
      inversion Hnd; subst. constructor; [apply grange_In in Hx; lia|apply IH; [reflexivity|assumption]].
  - intros H. induction H as [|x n row ncases Hx H IH]; cbn [map]; [constructor|].
    inversion Hnd; subst. constructor; [apply grange_In; lia|apply IH; assumption].
Qed.

(* ------------------------------------------------------------------ *)
(* one-hot blocks *)

Definition hot (k : nat) (i : nat) : Z := if Nat.eqb i k then 1%Z else 0%Z.

Lemma onehot_eq d k : onehot d k = map (hot k) (seq 0 d).
Proof. reflexivity. Qed.

Lemma zsum_hot_seq k d : forall s,
  zsum (map (hot k) (seq s d)) = if (s <=? k)%nat && (k <? s + d)%nat then 1%Z else 0%Z.
Proof.
  induction d as [|d IH]; intros s; cbn [seq map zsum fold_right].
  - destruct (Nat.leb_spec s k), (Nat.ltb_spec k (s + 0)); cbn [andb]; try reflexivity; lia.
  - fold (zsum (map (hot k) (seq (S s) d))). rewrite IH. unfold hot.
    destruct (Nat.eqb_spec s k), (Nat.leb_spec (S s) k), (Nat.ltb_spec k (S s + d)),
      (Nat.leb_spec s k), (Nat.ltb_spec k (s + S d)); cbn [andb]; try reflexivity; lia.
Qed.

Lemma hot_01 k l : Forall (fun x => x = 0%Z \/ x = 1%Z) (map (hot k) l).
Proof.
  apply Forall_forall. intros x Hx. apply in_map_iff in Hx. destruct Hx as [i [<- _]].
  unfold hot. destruct (Nat.eqb i k); [right|left]; reflexivity.
Qed.

Lemma onehot_is_onehot d k : k < d -> is_onehot d (onehot d k).
Proof.
  intros Hk. rewrite onehot_eq. split; [rewrite map_length, seq_length; reflexivity|].
  split; [apply hot_01|]. rewrite zsum_hot_seq.
  destruct (Nat.leb_spec 0 k), (Nat.ltb_spec k (0 + d)); cbn [andb]; try reflexivity; lia.
Qed.

Lemma zsum_nonneg l : Forall (fun x => x = 0%Z \/ x = 1%Z) l -> (0 <= zsum l)%Z.
Proof.
  induction 1 as [|x l Hx H IH]; cbn [zsum fold_right]; [lia|]. fold (zsum l). lia.
Qed.

Lemma zsum_zero_all_zero l s k :
  Forall (fun x => x = 0%Z \/ x = 1%Z) l -> zsum l = 0%Z -> k < s ->
  l = map (hot k) (seq s (length l)).
Proof.
  intros H. revert s. induction H as [|x l Hx H IH]; intros s Hz Hk; [reflexivity|].
  cbn [zsum fold_right] in Hz. fold (zsum l) in Hz. pose proof (zsum_nonneg l H) as Hn.
  cbn [length seq map]. f_equal.
  - unfold hot. destruct (Nat.eqb_spec s k); lia.
  - apply IH; lia.
Qed.

Lemma is_onehot_shape l : forall s,
  Forall (fun x => x = 0%Z \/ x = 1%Z) l -> zsum l = 1%Z ->
  exists k, s <= k < s + length l /\ l = map (hot k) (seq s (length l)).
Proof.
  induction l as [|x l IH]; intros s H Hz; [discriminate Hz|].
  inversion H as [|? ? Hx Hl]; subst.
  cbn [zsum fold_right] in Hz. fold (zsum l) in Hz. destruct Hx as [-> | ->].
  - destruct (IH (S s) Hl) as [k [Hk E]]; [lia|]. exists k. cbn [length]. split; [lia|].
    cbn [seq map]. f_equal; [|exact E]. unfold hot. destruct (Nat.eqb_spec s k); [lia|reflexivity].
  - exists s. cbn [length]. split; [lia|]. cbn [seq map]. f_equal.
    + unfold hot. rewrite Nat.eqb_refl. reflexivity.
    + apply zsum_zero_all_zero; [exact Hl|lia|lia].
Qed.

Theorem onehots_In d l : In l (onehots d) <-> is_onehot d l.
Proof.
  unfold onehots. rewrite in_map_iff. split.
  - intros [k [<- Hk]]. apply in_seq in Hk. apply onehot_is_onehot. lia.
  - intros [Hlen [H01 Hs]]. destruct (is_onehot_shape l 0 H01 Hs) as [k [Hk E]].
    exists k. split; [|apply in_seq; lia]. rewrite onehot_eq, <- Hlen. symmetry. exact E.
Qed.

Lemma onehots_length d l : In l (onehots d) -> length l = d.
Proof. intros H. apply onehots_In in H. exact (proj1 H). Qed.

(* position of the 1 *)
Fixpoint pos1 (l : list Z) : nat :=
  match l with [] => 0 | x :: r => if Z.eqb x 1 then 0 else S (pos1 r) end.

Lemma pos1_hot k d : forall s, s <= k < s + d -> pos1 (map (hot k) (seq s d)) = k - s.
Proof.
  induction d as [|d IH]; intros s Hk; [lia|]. cbn [seq map pos1]. unfold hot at 1.
  destruct (Nat.eqb_spec s k) as [->|Hne].
  - change ((1 =? 1)%Z) with true. cbv iota. lia.
  - change ((0 =? 1)%Z) with false. cbv iota. rewrite IH by lia. lia.
Qed.

Theorem onehots_NoDup d : NoDup (onehots d).
Proof.
  unfold onehots. apply NoDup_map_in_inj; [|apply seq_NoDup].
  intros x y Hx Hy E. apply in_seq in Hx. apply in_seq in Hy.
  apply (f_equal pos1) in E. rewrite !onehot_eq, !pos1_hot in E by lia. lia.
Qed.

(* ------------------------------------------------------------------ *)
(* ExactCQMSolver *)

Lemma flat_map_map {A B C} (f : B -> list C) (g : A -> B) l :
  flat_map f (map g l) = flat_map (fun x => f (g x)) l.
Proof. induction l as [|x l IH]; cbn [map flat_map]; [reflexivity|]. rewrite IH. reflexivity. Qed.

Lemma map_flat_map {A B C} (f : A -> list B) (g : B -> C) l :
  map g (flat_map f l) = flat_map (fun x => map g (f x)) l.
Proof. induction l as [|x l IH]; cbn [flat_map]; [reflexivity|]. rewrite map_app, IH. reflexivity. Qed.

Lemma flat_map_flat_map {A B C} (f : A -> list B) (g : B -> list C) l :
  flat_map g (flat_map f l) = flat_map (fun x => flat_map g (f x)) l.
Proof. induction l as [|x l IH]; cbn [flat_map]; [reflexivity|]. rewrite flat_map_app, IH. reflexivity. Qed.

Lemma all_cases_cqm_nil doms : all_cases_cqm [] doms = mesh (map dom_values doms).
Proof.
  unfold all_cases_cqm, onehot_blocks. cbn [map product concat flat_map].
  rewrite app_nil_r. apply map_id.
Qed.

Lemma all_cases_cqm_cons d r doms :
  all_cases_cqm (d :: r) doms = flat_map (fun h => map (app h) (all_cases_cqm r doms)) (onehots d).
Proof.
  unfold all_cases_cqm, onehot_blocks. cbn [map product].
  rewrite map_flat_map, flat_map_flat_map. apply flat_map_ext. intros h.
  rewrite map_map, !flat_map_map, map_flat_map. apply flat_map_ext. intros t.
  rewrite map_map. cbn [concat]. apply map_ext. intros x. rewrite <- app_assoc. reflexivity.
Qed.

Theorem cqm_cases_In sizes doms : forall row,
  In row (all_cases_cqm sizes doms) <-> cqm_row_ok sizes doms row.
Proof.
  induction sizes as [|d r IH]; intros row.
  - rewrite all_cases_cqm_nil, mesh_In. cbn [cqm_row_ok]. split.
    + intros H. remember (map dom_values doms) as ds eqn:E. revert doms E.
      induction H as [|x dv row ds Hx H IHf]; intros doms E.
      * destruct doms; [constructor|discriminate E].
      * destruct doms as [|dm doms]; [discriminate E|]. inversion E; subst.
        constructor; [exact Hx|apply IHf; reflexivity].
    + intros H. induction H as [|x dm row doms Hx H IHf]; cbn [map]; constructor; assumption.
  - rewrite all_cases_cqm_cons, in_flat_map. cbn [cqm_row_ok]. split.
    + intros [h [Hh Hin]]. apply in_map_iff in Hin. destruct Hin as [t [<- Ht]].
      pose proof (onehots_length d h Hh) as Hlen.
      assert (E1 : firstn d (h ++ t) = h).
      { rewrite <- Hlen, firstn_app, Nat.sub_diag, firstn_all. cbn [firstn]. apply app_nil_r. }
      assert (E2 : skipn d (h ++ t) = t).
      { rewrite <- Hlen, skipn_app, Nat.sub_diag, skipn_all. reflexivity. }
      rewrite E1, E2.
      split; [apply onehots_In; exact Hh|apply IH; exact Ht].
    + intros [Hoh Hrest]. exists (firstn d row). split; [apply onehots_In; exact Hoh|].
      apply in_map_iff. exists (skipn d row). split; [apply firstn_skipn|apply IH; exact Hrest].
Qed.

Theorem cqm_cases_NoDup sizes doms : NoDup (all_cases_cqm sizes doms).
Proof.
  induction sizes as [|d r IH].
  - rewrite all_cases_cqm_nil. apply mesh_NoDup. apply Forall_forall. intros dv Hd.
    apply in_map_iff in Hd. destruct Hd as [dm [<- _]]. apply dom_values_NoDup.
  - rewrite all_cases_cqm_cons. apply (NoDup_flat_map_app d).
    + apply onehots_NoDup.
    + apply onehots_length.
    + exact IH.
Qed.

(* the enumeration has no duplicates and contains exactly the assignments that are
   one-hot on every group marked discrete and in-domain on the other variables *)
Theorem cqm_cases_each_once sizes doms :
  NoDup (all_cases_cqm sizes doms) /\
  (forall row, In row (all_cases_cqm sizes doms) <-> cqm_row_ok sizes doms row) /\
  (forall row, cqm_row_ok [] doms row <-> Forall2 (fun x d => in_vdom d x) row doms).
Proof.
  split; [apply cqm_cases_NoDup|]. split; [apply cqm_cases_In|].
  intros row. cbn [cqm_row_ok]. split; intros H; induction H; constructor; try assumption;
    apply dom_values_In; assumption.
Qed.

(* ------------------------------------------------------------------ *)
(* the lowest row of a complete enumeration *)
Open Scope Qc_scope.

Lemma Qc_leb_le a b : Qc_leb a b = true <-> a <= b.
Proof. unfold Qc_leb, Qcle. apply Qle_bool_iff. Qed.

Lemma Qc_leb_false a b : Qc_leb a b = false -> b <= a.
Proof.
  intros H. apply Qclt_le_weak. apply Qcnot_le_lt. intros Hle.
  apply Qc_leb_le in Hle. congruence.
Qed.

Lemma argmin_In {A} (f : A -> Qc) l m : argmin f l = Some m -> In m l.
Proof.
  revert m. induction l as [|x l IH]; intros m; cbn [argmin]; [discriminate|].
  destruct (argmin f l) as [y|].
  - destruct (Qc_leb (f x) (f y)); intros E; inversion E; subst; [left; reflexivity|right; apply IH; reflexivity].
  - intros E. inversion E. left. reflexivity.
Qed.

Lemma argmin_le {A} (f : A -> Qc) l m : argmin f l = Some m -> forall x, In x l -> f m <= f x.
Proof.
  revert m. induction l as [|y l IH]; intros m; cbn [argmin]; [discriminate|].
  destruct (argmin f l) as [z|] eqn:Ez.
  - destruct (Qc_leb (f y) (f z)) eqn:El; intros E x [->|Hx]; inversion E; subst.
    + apply Qcle_refl.
    + apply Qcle_trans with (f z); [apply Qc_leb_le; exact El|apply IH; [reflexivity|exact Hx]].
    + apply Qc_leb_false. exact El.
    + apply IH; [reflexivity|exact Hx].
  - destruct l as [|w l]; [|cbn [argmin] in Ez; destruct (argmin f l); [destruct (Qc_leb (f w) (f a))|]; discriminate Ez].
    intros E x [->|[]]. inversion E. apply Qcle_refl.
Qed.

Lemma argmin_nonempty {A} (f : A -> Qc) l : l <> [] -> exists m, argmin f l = Some m.
Proof.
  destruct l as [|x l]; [congruence|]. intros _. cbn [argmin].
  destruct (argmin f l) as [y|]; [destruct (Qc_leb (f x) (f y))|]; eexists; reflexivity.
Qed.

(* rows: what the solver returned; space: the search space.  If every assignment of the
   space was returned, the first row of lowest energy is a global optimum. *)
Theorem lowest_is_global_optimum {A} (f : A -> Qc) (space rows : list A) :
  (forall x, In x space -> In x rows) ->
  (space <> [] -> exists best, argmin f rows = Some best) /\
  (forall best, argmin f rows = Some best ->
     In best rows /\ forall x, In x space -> f best <= f x).
Proof.
  intros Hc. split.
  - intros Hne. apply argmin_nonempty. destruct space as [|x s]; [congruence|].
    intros E. specialize (Hc x (or_introl eq_refl)). rewrite E in Hc. exact Hc.
  - intros best Hb. split; [apply (argmin_In f); exact Hb|].
    intros x Hx. apply (argmin_le f rows); [exact Hb|apply Hc; exact Hx].
Qed.

(* ------------------------------------------------------------------ *)
(* the exact solvers' lowest row is optimal over the whole search space *)

Theorem exact_solver_lowest_is_optimal (n : nat) (f : list bool -> Qc) :
  (exists best, argmin f (graycode n) = Some best) /\
  forall best, argmin f (graycode n) = Some best ->
    length best = n /\ forall v, length v = n -> f best <= f v.
Proof.
  split.
  - apply argmin_nonempty. intros E. pose proof (graycode_length n) as H. rewrite E in H.
    cbn [length] in H. pose proof (pow2_pos_nat n). lia.
  - intros best Hb. split.
    + apply graycode_complete. apply (argmin_In f). exact Hb.
    + intros v Hv. apply (argmin_le f (graycode n)); [exact Hb|apply graycode_complete; exact Hv].
Qed.

Theorem exact_dqm_lowest_is_optimal (ncases : list nat) (f : list Z -> Qc) best :
  argmin f (all_cases_dqm ncases) = Some best ->
  Forall2 (fun x n => (0 <= x < Z.of_nat n)%Z) best ncases /\
  forall row, Forall2 (fun x n => (0 <= x < Z.of_nat n)%Z) row ncases -> f best <= f row.
Proof.
  intros Hb. destruct (dqm_cases_each_once ncases) as [_ [Hin _]]. split.
  - apply Hin. apply (argmin_In f). exact Hb.
  - intros row Hr. apply (argmin_le f (all_cases_dqm ncases)); [exact Hb|apply Hin; exact Hr].
Qed.

(* ExactCQMSolver: the lowest FEASIBLE row is optimal among the feasible assignments *)
Theorem exact_cqm_lowest_feasible_is_optimal sizes doms (f : list Z -> Qc) (feas : list Z -> bool) best :
  argmin f (filter feas (all_cases_cqm sizes doms)) = Some best ->
  (cqm_row_ok sizes doms best /\ feas best = true) /\
  forall row, cqm_row_ok sizes doms row -> feas row = true -> f best <= f row.
Proof.
  intros Hb. split.
  - apply (argmin_In f) in Hb. apply filter_In in Hb. destruct Hb as [Hin Hf].
    split; [apply cqm_cases_In; exact Hin|exact Hf].
  - intros row Hr Hf. apply (argmin_le f (filter feas (all_cases_cqm sizes doms))); [exact Hb|].
    apply filter_In. split; [apply cqm_cases_In; exact Hr|exact Hf].
Qed.

(* ------------------------------------------------------------------ *)
(* _all_cases_cqm as written (index product, zeros-with-a-one concatenation, the c1-empty
   branch, the early break and the final fallback) is the functional enumeration *)
Local Open Scope nat_scope.

Lemma fold_left_app_concat {A B} (f : B -> list A) xs : forall acc,
  fold_left (fun l x => l ++ f x) xs acc = acc ++ concat (map f xs).
Proof.
  induction xs as [|x xs IH]; intros acc; cbn [fold_left map concat]; [symmetry; apply app_nil_r|].
  rewrite IH, app_assoc. reflexivity.
Qed.

Definition onehot_list (sizes indexes : list nat) : list (list Z) :=
  map (fun di => onehot (fst di) (snd di)) (combine sizes indexes).

Lemma onehot_concat_eq sizes indexes : onehot_concat sizes indexes = concat (onehot_list sizes indexes).
Proof. unfold onehot_concat, onehot_list. rewrite fold_left_app_concat. reflexivity. Qed.

Lemma product_seq_onehots sizes :
  map (onehot_list sizes) (product (map (fun d => seq 0 d) sizes)) = product (map onehots sizes).
Proof.
  induction sizes as [|d r IH]; [reflexivity|]. cbn [map product].
  rewrite map_flat_map. change (onehots d) with (map (onehot d) (seq 0 d)). rewrite flat_map_map. apply flat_map_ext. intros x.
  rewrite <- IH, !map_map. apply map_ext. intros t. reflexivity.
Qed.

Lemma onehot_blocks_code sizes :
  onehot_blocks sizes = map (onehot_concat sizes) (product (map (fun d => seq 0 d) sizes)).
Proof.
  unfold onehot_blocks. rewrite <- product_seq_onehots, map_map. apply map_ext. intros idx.
  symmetry. apply onehot_concat_eq.
Qed.

Lemma product_nonempty {A} (doms : list (list A)) : Forall (fun d => d <> []) doms -> product doms <> [].
Proof.
  induction 1 as [|d r Hd Hr IH]; cbn [product]; [discriminate|].
  destruct d as [|x d]; [congruence|]. cbn [flat_map]. destruct (product r) as [|y ys]; [congruence|].
  cbn [map app]. discriminate.
Qed.

Lemma cqm_combinations_nonnil sizes c1 : sizes <> [] ->
  cqm_combinations sizes c1 =
  flat_map (fun indexes => let l := onehot_concat sizes indexes in
                           match c1 with [] => [l] | _ => map (fun row => l ++ row) c1 end)
           (product (map (fun d => seq 0 d) sizes)).
Proof. destruct sizes; [congruence|reflexivity]. Qed.

Lemma all_cases_cqm_code_discrete sizes doms :
  sizes <> [] -> Forall (fun d => 0 < d) sizes ->
  (doms <> [] -> mesh (map dom_values doms) <> []) ->
  all_cases_cqm_code sizes doms = all_cases_cqm sizes doms.
Proof.
  intros Hs Hpos Hmesh. unfold all_cases_cqm_code.
  assert (Hprod : product (map (fun d => seq 0 d) sizes) <> []).
  { apply product_nonempty. apply Forall_forall. intros l Hl. apply in_map_iff in Hl.
    destruct Hl as [d [<- Hd]]. rewrite Forall_forall in Hpos. specialize (Hpos d Hd).
    destruct d; [lia|cbn [seq]; discriminate]. }
  set (c1 := match doms with [] => [] | _ => mesh (map dom_values doms) end).
  assert (Hcomb : cqm_combinations sizes c1 = all_cases_cqm sizes doms).
  { rewrite cqm_combinations_nonnil by exact Hs. unfold all_cases_cqm.
    rewrite onehot_blocks_code, flat_map_map. apply flat_map_ext. intros idx. unfold c1.
    destruct doms as [|dm doms'].
    - cbn [map]. unfold mesh. cbn [swap2 rev product map]. rewrite app_nil_r. reflexivity.
    - destruct (mesh (map dom_values (dm :: doms'))) as [|row rows] eqn:Em; [|reflexivity].
      exfalso. apply Hmesh; [discriminate|reflexivity]. }
  destruct (cqm_combinations sizes c1) as [|x xs] eqn:Ea; [|exact Hcomb].
  exfalso. rewrite cqm_combinations_nonnil in Ea by exact Hs.
  destruct (product (map (fun d => seq 0 d) sizes)) as [|idx idxs]; [congruence|].
  cbn [flat_map] in Ea. apply app_eq_nil in Ea. destruct Ea as [Ea _]. unfold c1 in Ea.
  destruct doms as [|dm doms']; [discriminate Ea|].
  destruct (mesh (map dom_values (dm :: doms'))) as [|row rows] eqn:Em; [apply Hmesh; [discriminate|reflexivity]|].
  discriminate Ea.
Qed.

Theorem all_cases_cqm_code_eq sizes doms :
  (sizes <> [] \/ doms <> []) -> Forall (fun d => 0 < d) sizes ->
  (doms <> [] -> mesh (map dom_values doms) <> []) ->
  all_cases_cqm_code sizes doms = all_cases_cqm sizes doms.
Proof.
  intros Hne Hpos Hmesh. destruct sizes as [|d0 r0].
  - unfold all_cases_cqm_code. cbn [cqm_combinations]. rewrite all_cases_cqm_nil.
    destruct doms as [|dm doms']; [destruct Hne; congruence|reflexivity].
  - apply all_cases_cqm_code_discrete; [discriminate|exact Hpos|exact Hmesh].
Qed.

(* every domain of the generated rules is non-empty as soon as an integer lies within the bounds
   (dimod refuses INTEGER variables without one), so the side condition on c1 holds *)
Lemma mesh_nonempty {A} (doms : list (list A)) : Forall (fun d => d <> []) doms -> mesh doms <> [].
Proof.
  intros H. unfold mesh. assert (Hp : product (rev (swap2 doms)) <> []).
  { apply product_nonempty. apply Forall_rev. apply Forall_swap2. exact H. }
  destruct (product (rev (swap2 doms))); [congruence|discriminate].
Qed.
