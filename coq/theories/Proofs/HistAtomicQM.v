(* C04: a raising call changes nothing - the QuadraticModel methods that write
   through loops: fix_variable, add_linear(default_vartype=...), flip_variable.
   On a QM no primitive write changes the variable list, and whether a primitive
   raises depends on the variable list only; so a loop over existing neighbours
   either cannot raise at all (fix) or can raise only on a REAL neighbour (flip:
   set_quadratic refuses REAL variables).  Without that side condition flip is
   NOT all-or-nothing - in the model and in the code (see flip_qm_refuted). *)
From Coq Require Import List ZArith QArith Qcanon Bool Arith Lia.
From Dimod Require Import Base.Util Model.Poly Model.View Model.Hist Proofs.PolyFacts Proofs.HistFacts Proofs.HistWf Proofs.HistWf2 Proofs.HistAtomic.
Import ListNotations.
Open Scope Qc_scope.

Definition same_vars (s s' : state) : Prop := st_vars s' = st_vars s /\ st_kind s' = st_kind s.
Definition goodq (s : state) (r : res) : Prop := snd r = Ok /\ same_vars s (fst r).

Lemma same_vars_refl s : same_vars s s.
Proof. split; reflexivity. Qed.

Lemma same_vars_trans a b c : same_vars a b -> same_vars b c -> same_vars a c.
Proof. intros [H1 H2] [H3 H4]. split; congruence. Qed.

Lemma same_vars_has s s' x : same_vars s s' -> has_var s' x = has_var s x.
Proof. intros [H _]. unfold has_var. rewrite H. reflexivity. Qed.

Lemma same_vars_vt s s' x : same_vars s s' -> vt_of s' x = vt_of s x.
Proof. intros [H K]. unfold vt_of, find_var, bvt. rewrite H, K. reflexivity. Qed.

Lemma same_vars_guard s s' u v : same_vars s s' -> quad_guard u v s' = quad_guard u v s.
Proof.
  intros H. pose proof H as [Hv K]. unfold quad_guard. rewrite K.
  rewrite !(same_vars_has s s' _ H), !(same_vars_vt s s' _ H). reflexivity.
Qed.

Lemma goodq_ok s : goodq s (ok s).
Proof. split; [reflexivity|apply same_vars_refl]. Qed.

Lemma goodq_bind s r g : goodq s r -> (forall s', same_vars s s' -> goodq s' (g s')) -> goodq s (r >>= g).
Proof.
  intros [H1 H2] Hg. unfold bind. rewrite H1. destruct (Hg (fst r) H2) as [G1 G2].
  split; [exact G1|eapply same_vars_trans; eassumption].
Qed.

Lemma goodq_seqm {A : Type} (f : A -> state -> res) l s :
  (forall x, In x l -> forall s', same_vars s s' -> goodq s' (f x s')) -> goodq s (seqm f l s).
Proof.
  revert s. induction l as [|x l IH]; intros s Hf; [apply goodq_ok|].
  cbn [seqm]. apply goodq_bind; [apply Hf; [left; reflexivity|apply same_vars_refl]|].
  intros s' Hs'. apply IH. intros y Hy s'' Hs''. apply Hf; [right; exact Hy|eapply same_vars_trans; eassumption].
Qed.

(* resolving an existing label never fails and changes nothing *)
Lemma resolve_has v s : has_var s v = true -> resolve v s = ok s.
Proof. intros H. unfold resolve, ensure. rewrite H. destruct (st_kind s); reflexivity. Qed.

Lemma goodq_d_add_linear v b s : has_var s v = true -> goodq s (d_add_linear v b s).
Proof. intros H. unfold d_add_linear. rewrite (resolve_has v s H), bind_ok. split; [reflexivity|split; reflexivity]. Qed.

Lemma goodq_d_set_linear v b s : has_var s v = true -> goodq s (d_set_linear v b s).
Proof. intros H. unfold d_set_linear. rewrite (resolve_has v s H), bind_ok. split; [reflexivity|split; reflexivity]. Qed.

Lemma goodq_d_set_offset b s : goodq s (d_set_offset b s).
Proof. split; [reflexivity|split; reflexivity]. Qed.

Lemma goodq_d_set_quadratic u v b s :
  quad_guard u v s = false -> has_var s u = true -> has_var s v = true -> goodq s (d_set_quadratic u v b s).
Proof.
  intros G Hu Hv. unfold d_set_quadratic. rewrite G, (resolve_has u s Hu), bind_ok, (resolve_has v s Hv), bind_ok.
  split; [reflexivity|split; reflexivity].
Qed.

Lemma noop_goodq s0 s r : goodq s0 r -> noop r s.
Proof. intros [G _] e H. congruence. Qed.

(* ---------- fix_variable on a QM ---------- *)
Lemma fine_d_remove_variable v s : has_var s v = true -> snd (d_remove_variable v s) = Ok.
Proof. intros H. unfold d_remove_variable. rewrite H. reflexivity. Qed.

Theorem noop_m_fix_qm v a s : noop (m_fix Direct v a s) s.
Proof.
  intros e H. unfold m_fix in *. destruct (has_var s v) eqn:Hv; cbn [negb] in *; [|reflexivity]. exfalso.
  assert (G : goodq s (seqm (fun t => h_add_linear Direct (fst t) (a * snd t)) (h_nbh Direct v s) s
                       >>= (fun s0 => h_add_offset Direct (a * opt0 (h_get_linear Direct v s0)) s0))).
  { apply goodq_bind; [apply goodq_seqm|].
    - intros t Ht s' Hs'. unfold h_add_linear; cbn [vdir_of]. apply goodq_d_add_linear.
      rewrite (same_vars_has s s' _ Hs'). apply h_nbh_in in Ht. apply Ht.
    - intros s' Hs'. unfold h_add_offset, h_set_offset; cbn [vdir_of]. apply goodq_d_set_offset. }
  destruct G as [G1 G2]. unfold bind at 1 in H. rewrite G1 in H.
  unfold h_remove_variable in H; cbn [vdir_of] in H.
  rewrite fine_d_remove_variable in H; [discriminate|]. rewrite (same_vars_has s _ v G2). exact Hv.
Qed.

(* ---------- add_linear(v, bias, default_vartype=...) ---------- *)
Lemma has_var_find s v : has_var s v = false -> find_var s v = None.
Proof.
  unfold has_var, find_var. induction (st_vars s) as [|i l IH]; [reflexivity|]. cbn [existsb find].
  destruct (v_lab i =? v)%nat; [discriminate|exact IH].
Qed.

Theorem noop_q_add_linear_dflt v b vt lb ub s : noop (q_add_linear_dflt v b vt lb ub s) s.
Proof.
  intros e H. unfold q_add_linear_dflt in *. destruct (has_var s v) eqn:Hv.
  - exfalso. destruct (goodq_d_add_linear v b s Hv) as [G _]. congruence.
  - unfold q_add_variable in *. rewrite (has_var_find s v Hv) in *.
    destruct (bounds_for vt lb ub) as [l u]. destruct (bounds_bad vt l u); [reflexivity|]. exfalso.
    rewrite bind_ok in H.
    assert (Hv' : has_var (with_vars s (st_vars s ++ [mkV v vt l u])) v = true).
    { unfold has_var, with_vars; cbn [st_vars]. rewrite existsb_app. cbn [existsb v_lab]. rewrite Nat.eqb_refl. apply orb_true_iff. right. reflexivity. }
    destruct (goodq_d_add_linear v b _ Hv') as [G _]. congruence.
Qed.

(* ---------- flip_variable on a QM ---------- *)
(* side condition: no neighbour of v is a REAL variable *)
Definition no_real_nb (s : state) (v : label) : Prop := forall w, hasq s v w = true -> is_real (vt_of s w) = false.

Theorem noop_m_flip_qm v s : st_kind s = None -> wf s -> no_real_nb s v -> noop (m_flip Direct v s) s.
Proof.
  intros K Hw Hreal. unfold m_flip. destruct (has_var s v) eqn:Hv; cbn [negb]; [|apply noop_raise]. rewrite K.
  assert (Hg : forall t, In t (h_nbh Direct v s) -> is_sb (vt_of s v) = true ->
                         quad_guard (fst t) v s = false /\ has_var s (fst t) = true).
  { intros t Ht Hsb. apply h_nbh_in in Ht. destruct Ht as [Hq Hu]. split; [|exact Hu].
    unfold quad_guard. rewrite K, Hu, Hv. cbn [andb negb orb].
    assert (Hne : (fst t =? v)%nat = false).
    { apply Nat.eqb_neq. intros E. rewrite E in Hq. destruct Hw as (_ & _ & Hqq & _).
      unfold hasq, has_pair in Hq. apply existsb_exists in Hq. destruct Hq as [q [Iq Eq]]. destruct (Hqq q Iq) as (_ & _ & H3).
      unfold same_pair in Eq.
      assert (E1 : fst (fst q) = v /\ snd (fst q) = v).
      { repeat match goal with H : context [(?a =? ?b)%nat] |- _ => destruct (Nat.eqb_spec a b) end; cbn in Eq; try discriminate; auto. }
      destruct E1 as [E1 E2]. assert (E3 : fst (fst q) = snd (fst q)) by congruence. specialize (H3 E3). rewrite E1, Hsb in H3. discriminate. }
    rewrite Hne. cbn [andb orb]. rewrite (Hreal _ Hq). cbn [orb].
    destruct (vt_of s v); try discriminate; reflexivity. }
  destruct (vt_of s v) eqn:Ev; try apply noop_raise.
  - (* BINARY *)
    apply (noop_goodq s). apply goodq_bind; [apply goodq_bind; [apply goodq_seqm|]|].
    + intros t Ht s' Hs'. destruct (Hg t Ht eq_refl) as [G Hu]. unfold h_set_quadratic, h_add_linear; cbn [vdir_of].
      apply goodq_bind; [apply goodq_d_set_quadratic; [rewrite (same_vars_guard s s' _ _ Hs'); exact G| |]|].
      * rewrite (same_vars_has s s' _ Hs'). exact Hu.
      * rewrite (same_vars_has s s' _ Hs'). exact Hv.
      * intros s'' Hs''. apply goodq_d_add_linear. rewrite (same_vars_has s' s'' _ Hs''), (same_vars_has s s' _ Hs'). exact Hu.
    + intros s' Hs'. unfold h_add_offset, h_set_offset; cbn [vdir_of]. apply goodq_d_set_offset.
    + intros s' Hs'. unfold h_set_linear; cbn [vdir_of]. apply goodq_d_set_linear. rewrite (same_vars_has s s' _ Hs'). exact Hv.
  - (* SPIN *)
    apply (noop_goodq s). apply goodq_bind; [apply goodq_seqm|].
    + intros t Ht s' Hs'. destruct (Hg t Ht eq_refl) as [G Hu]. unfold h_set_quadratic.
      apply goodq_d_set_quadratic; [rewrite (same_vars_guard s s' _ _ Hs'); exact G| |].
      * rewrite (same_vars_has s s' _ Hs'). exact Hu.
      * rewrite (same_vars_has s s' _ Hs'). exact Hv.
    + intros s' Hs'. unfold h_set_linear; cbn [vdir_of]. apply goodq_d_set_linear. rewrite (same_vars_has s s' _ Hs'). exact Hv.
Qed.

(* without the side condition flip is not all-or-nothing: b BINARY with neighbours a (BINARY), x (REAL) *)
Definition flip_cex : state :=
  mkSt None [mkvar BINARY 0%nat; mkvar BINARY 1%nat; mkV 2%nat REAL 0 1]
       (mkPoly 0 [(0%nat, qc 5 1)] [(1%nat, 0%nat, qc 2 1); (2%nat, 0%nat, qc 3 1)]).

Theorem flip_qm_refuted :
  wfb flip_cex = true /\ snd (step flip_cex (Direct, OFlip 0%nat)) = Raised BValue
  /\ poly_coeff_eqb 3 (st_poly (fst (step flip_cex (Direct, OFlip 0%nat)))) (st_poly flip_cex) = false.
Proof. vm_compute. repeat split. Qed.
