(* C15: make_quadratic is exact on consistent assignments and never below the reduced objective *)
From Coq Require Import List ZArith QArith Qcanon Bool Arith Lia.
From Dimod Require Import Base.Util Model.Poly Model.HPoly Model.Reduce
  Proofs.PolyFacts Proofs.HPolyFacts Proofs.ReduceFacts Proofs.PenaltyFacts.
Import ListNotations.
Open Scope Qc_scope.

Lemma Qc_le_add_r (x e : Qc) : 0 <= e -> x <= e + x.
Proof. intros H. replace x with (0 + x) at 1 by ring. apply Qcplus_le_compat; [exact H|apply Qcle_refl]. Qed.

Lemma Qc_le_add_r_gap (x s e : Qc) : s <= e -> x + s <= e + x.
Proof. intros H. replace (x + s) with (s + x) by ring. apply Qcplus_le_compat; [exact H|apply Qcle_refl]. Qed.

(* ---------------- BINARY ---------------- *)
Theorem make_quadratic_binary_exact s poly cons (a : sample) :
  terms_nodup poly = true -> valid_cons (hvars poly) cons = true ->
  all_degree_le2 (reduce_with cons poly) = true ->
  is_binary a -> consistent cons a ->
  energy (mq_binary s cons (reduce_with cons poly)) a = henergy poly a.
Proof.
  intros Hnd Hv Hd Hb Hc.
  rewrite mq_binary_energy, (and_pen_sum_zero cons a Hc Hb), (poly_of_hpoly_energy _ a Hd).
  rewrite (reduce_energy_on_consistent poly cons a Hnd Hv Hc). ring.
Qed.

Theorem make_quadratic_binary_lower s cons red (a : sample) :
  0 < s -> all_degree_le2 red = true -> is_binary a ->
  henergy red a <= energy (mq_binary s cons red) a /\
  (consistentb cons a = false -> henergy red a + s <= energy (mq_binary s cons red) a).
Proof.
  intros Hs Hd Hb. rewrite mq_binary_energy, (poly_of_hpoly_energy _ a Hd). split.
  - apply Qc_le_add_r. apply scale_nonneg; [exact Hs|apply and_pen_sum_nonneg; exact Hb].
  - intros Hc. apply Qc_le_add_r_gap. apply scale_gap; [exact Hs|apply and_pen_sum_gap; assumption].
Qed.

(* every assignment of the original variables has a consistent extension whose
   energy in the quadratic model is the polynomial's energy *)
Theorem make_quadratic_binary_attained s poly cons (a : sample) :
  terms_nodup poly = true -> valid_cons (hvars poly) cons = true ->
  all_degree_le2 (reduce_with cons poly) = true -> is_binary a ->
  is_binary (extend cons a) /\
  (forall x, In x (hvars poly) -> extend cons a x = a x) /\
  energy (mq_binary s cons (reduce_with cons poly)) (extend cons a) = henergy poly a.
Proof.
  intros Hnd Hv Hd Hb.
  destruct (reduce_energy_extend poly cons a Hnd Hv) as [Hc [Hs He]].
  assert (Hb' : is_binary (extend cons a)).
  { clear -Hb. unfold extend. revert a Hb. induction cons as [|[[u v] p] r IH]; intros a Hb; cbn [fold_left]; [exact Hb|].
    apply IH. intros x. unfold upd. destruct (x =? p)%nat; [|apply Hb].
    destruct (Hb u) as [->| ->], (Hb v) as [->| ->]; [left|left|left|right]; ring. }
  split; [exact Hb'|]. split; [exact Hs|].
  rewrite (make_quadratic_binary_exact s poly cons _ Hnd Hv Hd Hb' Hc).
  apply henergy_ext. exact Hs.
Qed.

(* ---------------- SPIN ---------------- *)
Lemma valid_cons_vars_in cons : forall vars W,
  valid_cons vars cons = true -> incl vars W -> incl (map prod_of cons) W ->
  forall u v p, In (u, v, p) cons -> In u W /\ In v W /\ In p W.
Proof.
  induction cons as [|[[u v] p] r IH]; intros vars W Hv Hi Hp u' v' p' Hin; [destruct Hin|].
  apply valid_cons_cons in Hv. destruct Hv as [_ [Hu [Hv' [_ Hr]]]].
  assert (HpW : In p W) by (apply Hp; left; reflexivity).
  destruct Hin as [E|Hin].
  - inversion E; subst. repeat split; [apply Hi; exact Hu|apply Hi; exact Hv'|exact HpW].
  - apply (IH (p :: vars) W Hr); [|intros x Hx; apply Hp; right; exact Hx|exact Hin].
    intros x [<-|Hx]; [exact HpW|apply Hi; exact Hx].
Qed.

Theorem make_quadratic_spin_lower s cons red (a : sample) :
  0 < s -> all_degree_le2 red = true -> is_spin a ->
  henergy red a <= energy (mq_spin s cons red) a /\
  (consistentb (map drop_aux cons) a = false -> henergy red a + s <= energy (mq_spin s cons red) a).
Proof.
  intros Hs Hd Hb. rewrite mq_spin_energy, (poly_of_hpoly_energy _ a Hd). split.
  - apply Qc_le_add_r. apply scale_nonneg; [exact Hs|apply spin_pen_sum_nonneg; exact Hb].
  - intros Hc. apply Qc_le_add_r_gap. apply scale_gap; [exact Hs|apply spin_pen_sum_gap; assumption].
Qed.

(* with the product variables consistent, the best auxiliary spins give exactly
   the polynomial's energy (and by the lower bound nothing gives less) *)
Theorem make_quadratic_spin_exact s poly cons (a : sample) :
  terms_nodup poly = true -> valid_cons4 poly cons = true ->
  all_degree_le2 (reduce_with (map drop_aux cons) poly) = true ->
  is_spin a -> consistent (map drop_aux cons) a ->
  let a' := set_aux cons a in
  (forall x, In x (known_vars poly cons) -> a' x = a x) /\ is_spin a' /\
  energy (mq_spin s cons (reduce_with (map drop_aux cons) poly)) a' = henergy poly a.
Proof.
  intros Hnd Hv4 Hd Hb Hc a'. unfold valid_cons4 in Hv4. apply andb_true_iff in Hv4.
  destruct Hv4 as [Hv Ha].
  assert (Hin : cons4_vars_in (known_vars poly cons) cons).
  { intros u v p w H4.
    apply (valid_cons_vars_in (map drop_aux cons) (hvars poly) (known_vars poly cons) Hv).
    - intros x Hx. unfold known_vars. apply in_or_app. left. exact Hx.
    - intros x Hx. unfold known_vars. apply in_or_app. right. exact Hx.
    - apply in_map_iff. exists (u, v, p, w). split; [reflexivity|exact H4]. }
  destruct (set_aux_optimal cons (known_vars poly cons) a Hb Ha Hin Hc) as [Hsame [Hspin Hzero]].
  fold a' in Hsame, Hspin, Hzero.
  split; [exact Hsame|]. split; [exact Hspin|].
  assert (Hc' : consistent (map drop_aux cons) a').
  { intros u v p H3. apply in_map_iff in H3. destruct H3 as [[[[u0 v0] p0] w0] [E H4]].
    cbn [drop_aux] in E. inversion E; subst u0 v0 p0.
    destruct (Hin u v p w0 H4) as [Hu [Hv' Hp]].
    rewrite (Hsame u Hu), (Hsame v Hv'), (Hsame p Hp). apply Hc.
    apply in_map_iff. exists (u, v, p, w0). split; [reflexivity|exact H4]. }
  rewrite mq_spin_energy, Hzero, (poly_of_hpoly_energy _ a' Hd).
  rewrite (reduce_energy_on_consistent poly _ a' Hnd Hv Hc').
  replace (s * 0 + henergy poly a') with (henergy poly a') by ring.
  apply henergy_ext. intros x Hx. apply Hsame. unfold known_vars. apply in_or_app. left. exact Hx.
Qed.
