(* The executable coefficient comparisons of the correspondence check
   (poly_coeff_eqb, hpoly_eqb) are sound decision procedures for equality of
   energies: a bag of terms has the same energy as the sum grouped by key. *)
From Coq Require Import List ZArith QArith Qcanon Bool Arith Lia Permutation.
From Dimod Require Import Base.Util Model.Poly Model.HPoly Proofs.PolyFacts.
Import ListNotations.
Open Scope Qc_scope.

(* ---------- Qc_eqb decides equality (canonical representation) ---------- *)
Lemma Qc_eqb_iff a b : Qc_eqb a b = true <-> a = b.
Proof.
  unfold Qc_eqb. rewrite Qeq_bool_iff. split; [apply Qc_is_canon|intros ->; reflexivity].
Qed.

(* ---------- every label of the polynomial lies in [0,n) ---------- *)
Definition labels_below (n : nat) (p : poly) : Prop :=
  (forall t, In t (p_lin p) -> (fst t < n)%nat) /\
  (forall t, In t (p_quad p) -> (fst (fst t) < n)%nat /\ (snd (fst t) < n)%nat).

Definition labels_belowb (n : nat) (p : poly) : bool :=
  forallb (fun t => (fst t <? n)%nat) (p_lin p) &&
  forallb (fun t => ((fst (fst t) <? n) && (snd (fst t) <? n))%nat) (p_quad p).

Lemma labels_belowb_spec n p : labels_belowb n p = true <-> labels_below n p.
Proof.
  unfold labels_belowb, labels_below. rewrite andb_true_iff, !forallb_forall.
  split; intros [H1 H2]; split; intros t Ht.
  - apply Nat.ltb_lt. auto.
  - specialize (H2 t Ht). apply andb_true_iff in H2. rewrite !Nat.ltb_lt in H2. exact H2.
  - apply Nat.ltb_lt. auto.
  - apply andb_true_iff. rewrite !Nat.ltb_lt. auto.
Qed.

Lemma labels_below_mono n m p : (n <= m)%nat -> labels_below n p -> labels_below m p.
Proof.
  intros L [H1 H2]. split; intros t Ht.
  - specialize (H1 t Ht). lia.
  - specialize (H2 t Ht). lia.
Qed.

(* ---------- sums ---------- *)
Lemma qsum_map_add {A} (f g : A -> Qc) l :
  qsum (map (fun x => f x + g x) l) = qsum (map f l) + qsum (map g l).
Proof. induction l as [|x l IH]; cbn [map qsum]; [ring|rewrite IH; ring]. Qed.

Lemma qsum_map_zero {A} (l : list A) : qsum (map (fun _ => 0) l) = 0.
Proof. induction l as [|x l IH]; cbn [map qsum]; [reflexivity|rewrite IH; ring]. Qed.

Lemma qsum_map_ext_in {A} (f g : A -> Qc) l :
  (forall x, In x l -> f x = g x) -> qsum (map f l) = qsum (map g l).
Proof. intros H. f_equal. apply map_ext_in. exact H. Qed.

(* an indicator picks exactly one summand of a duplicate-free index list *)
Section Indicator.
  Context {A : Type} (eqb : A -> A -> bool).
  Hypothesis eqb_eq : forall a b, eqb a b = true <-> a = b.

  Lemma qsum_ind_out (f : A -> Qc) x l :
    ~ In x l -> qsum (map (fun v => if eqb x v then f v else 0) l) = 0.
  Proof.
    induction l as [|y l IH]; intros H; cbn [map qsum]; [reflexivity|].
    rewrite IH by (intros H'; apply H; right; exact H').
    destruct (eqb x y) eqn:E.
    - apply eqb_eq in E. exfalso. apply H. left. symmetry; exact E.
    - ring.
  Qed.

  Lemma qsum_ind_in (f : A -> Qc) x l :
    NoDup l -> In x l -> qsum (map (fun v => if eqb x v then f v else 0) l) = f x.
  Proof.
    induction 1 as [|y l Hni Hnd IH]; intros Hin; [destruct Hin|].
    cbn [map qsum]. destruct Hin as [->|Hin].
    - rewrite qsum_ind_out by exact Hni.
      assert (eqb x x = true) as -> by (apply eqb_eq; reflexivity). ring.
    - rewrite IH by exact Hin. destruct (eqb x y) eqn:E.
      + apply eqb_eq in E. subst y. contradiction.
      + ring.
  Qed.

  (* a bag sum equals the sum grouped by key, over any duplicate-free key
     list that covers the bag *)
  Lemma group_sum {T} (key : T -> A) (coef : T -> Qc) (w : A -> Qc) l ks :
    NoDup ks -> (forall t, In t l -> In (key t) ks) ->
    qsum (map (fun t => coef t * w (key t)) l) =
    qsum (map (fun k => qsum (map coef (filter (fun t => eqb (key t) k) l)) * w k) ks).
  Proof.
    intros Hnd. induction l as [|t l IH]; intros Hin.
    - cbn [map filter qsum].
      transitivity (qsum (map (fun _ : A => 0) ks)); [symmetry; apply qsum_map_zero|].
      apply qsum_map_ext_in. intros; ring.
    - cbn [map qsum]. rewrite IH by (intros; apply Hin; right; assumption).
      transitivity (qsum (map (fun k => (if eqb (key t) k then coef t * w k else 0) +
                   qsum (map coef (filter (fun t0 => eqb (key t0) k) l)) * w k) ks)).
      + rewrite qsum_map_add.
        rewrite (qsum_ind_in (fun k => coef t * w k)); [reflexivity|exact Hnd|].
        apply Hin. left. reflexivity.
      + apply qsum_map_ext_in. intros k _. cbn [filter].
        destruct (eqb (key t) k); cbn [map qsum]; ring.
  Qed.
End Indicator.

(* ---------- linear part ---------- *)
Lemma lin_coeff_cons x b l v :
  lin_coeff ((x, b) :: l) v = (if (x =? v)%nat then b else 0) + lin_coeff l v.
Proof.
  unfold lin_coeff. cbn [filter fst]. destruct (x =? v)%nat; cbn [map qsum snd]; ring.
Qed.

Lemma lin_energy_grouped n l s :
  (forall t, In t l -> (fst t < n)%nat) ->
  lin_energy l s = qsum (map (fun v => lin_coeff l v * s v) (seq 0 n)).
Proof.
  intros H. unfold lin_energy, lin_coeff, lterm_val.
  apply (group_sum Nat.eqb Nat.eqb_eq fst snd s l (seq 0 n)).
  - apply seq_NoDup.
  - intros t Ht. apply in_seq. specialize (H t Ht). lia.
Qed.

(* ---------- quadratic part ---------- *)
Lemma same_pair_flip u v a b :
  same_pair u v a b = ((a =? u) && (b =? v) || (b =? u) && (a =? v))%nat.
Proof.
  unfold same_pair.
  rewrite (Nat.eqb_sym u a), (Nat.eqb_sym v b), (Nat.eqb_sym u b), (Nat.eqb_sym v a).
  reflexivity.
Qed.

Lemma same_pair_sym u v a b : same_pair u v a b = same_pair v u a b.
Proof.
  unfold same_pair.
  repeat match goal with |- context [(?a =? ?b)%nat] => destruct (Nat.eqb_spec a b) end;
    cbn [andb orb]; try reflexivity; exfalso; lia.
Qed.

(* on ordered index pairs v <= u the unordered pair {x,y} is matched exactly
   at (max x y, min x y) *)
Lemma same_pair_ordered u v x y : (v <= u)%nat ->
  same_pair u v x y = ((Nat.max x y =? u) && (Nat.min x y =? v))%nat.
Proof.
  intros H. unfold same_pair.
  repeat match goal with |- context [(?a =? ?b)%nat] => destruct (Nat.eqb_spec a b) end;
    cbn [andb orb]; try reflexivity; exfalso; lia.
Qed.

Lemma quad_coeff_cons x y b q u v :
  quad_coeff ((x, y, b) :: q) u v = (if same_pair u v x y then b else 0) + quad_coeff q u v.
Proof.
  unfold quad_coeff. cbn [filter fst snd].
  destruct (same_pair u v x y); cbn [map qsum snd]; ring.
Qed.

Lemma quad_coeff_sym q u v : quad_coeff q u v = quad_coeff q v u.
Proof.
  induction q as [|[[x y] b] q IH]; [reflexivity|].
  rewrite !quad_coeff_cons, IH, same_pair_sym. reflexivity.
Qed.

Lemma quad_one_term n x y (g : nat -> nat -> Qc) :
  (x < n)%nat -> (y < n)%nat ->
  qsum (map (fun u => qsum (map (fun v => if same_pair u v x y then g u v else 0)
                              (seq 0 (S u)))) (seq 0 n))
  = g (Nat.max x y) (Nat.min x y).
Proof.
  intros Hx Hy.
  transitivity (qsum (map (fun u => if (Nat.max x y =? u)%nat then g u (Nat.min x y) else 0)
                        (seq 0 n))).
  - apply qsum_map_ext_in. intros u _.
    transitivity (qsum (map (fun v => if (Nat.max x y =? u)%nat
                                      then (if (Nat.min x y =? v)%nat then g u v else 0)
                                      else 0) (seq 0 (S u)))).
    + apply qsum_map_ext_in. intros v Hv. apply in_seq in Hv.
      rewrite same_pair_ordered by lia.
      destruct (Nat.max x y =? u)%nat, (Nat.min x y =? v)%nat; reflexivity.
    + destruct (Nat.eqb_spec (Nat.max x y) u) as [E|E].
      * apply (qsum_ind_in Nat.eqb Nat.eqb_eq (fun v => g u v)); [apply seq_NoDup|].
        apply in_seq. lia.
      * apply qsum_map_zero.
  - apply (qsum_ind_in Nat.eqb Nat.eqb_eq (fun u => g u (Nat.min x y))); [apply seq_NoDup|].
    apply in_seq. lia.
Qed.

Lemma quad_energy_grouped n q s :
  (forall t, In t q -> (fst (fst t) < n)%nat /\ (snd (fst t) < n)%nat) ->
  quad_energy q s =
  qsum (map (fun u => qsum (map (fun v => quad_coeff q u v * s u * s v) (seq 0 (S u))))
          (seq 0 n)).
Proof.
  induction q as [|[[x y] b] q IH]; intros H.
  - unfold quad_energy, quad_coeff. cbn [map filter qsum].
    symmetry. transitivity (qsum (map (fun _ : nat => 0) (seq 0 n))); [|apply qsum_map_zero].
    apply qsum_map_ext_in. intros u _.
    transitivity (qsum (map (fun _ : nat => 0) (seq 0 (S u)))); [|apply qsum_map_zero].
    apply qsum_map_ext_in. intros; ring.
  - rewrite quad_energy_cons, IH by (intros; apply H; right; assumption). cbn [fst snd].
    destruct (H (x, y, b) (or_introl eq_refl)) as [Hx Hy]. cbn [fst snd] in Hx, Hy.
    symmetry.
    transitivity (qsum (map (fun u =>
        qsum (map (fun v => if same_pair u v x y then b * s u * s v else 0) (seq 0 (S u))) +
        qsum (map (fun v => quad_coeff q u v * s u * s v) (seq 0 (S u)))) (seq 0 n))).
    + apply qsum_map_ext_in. intros u _. rewrite <- qsum_map_add.
      apply qsum_map_ext_in. intros v _.
      rewrite quad_coeff_cons. destruct (same_pair u v x y); ring.
    + rewrite qsum_map_add, (quad_one_term n x y (fun u v => b * s u * s v)) by assumption.
      f_equal. destruct (Nat.le_ge_cases x y) as [L|L].
      * rewrite Nat.max_r, Nat.min_l by assumption. ring.
      * rewrite Nat.max_l, Nat.min_r by assumption. ring.
Qed.

(* ---------- grouping: bag energy = coefficient-wise energy ---------- *)
Theorem energy_grouped n p s :
  labels_below n p ->
  energy p s =
  p_off p
  + qsum (map (fun v => lin_coeff (p_lin p) v * s v) (seq 0 n))
  + qsum (map (fun u => qsum (map (fun v => quad_coeff (p_quad p) u v * s u * s v)
                                (seq 0 (S u)))) (seq 0 n)).
Proof.
  intros [Hl Hq]. unfold energy.
  rewrite (lin_energy_grouped n), (quad_energy_grouped n) by assumption. reflexivity.
Qed.

(* ---------- soundness of poly_coeff_eqb ---------- *)
Theorem poly_coeff_eqb_sound n a b :
  labels_below n a -> labels_below n b -> poly_coeff_eqb n a b = true ->
  forall s, energy a s = energy b s.
Proof.
  intros Ha Hb H s. unfold poly_coeff_eqb, labels_upto in H.
  apply andb_true_iff in H. destruct H as [H Hq].
  apply andb_true_iff in H. destruct H as [Ho Hl].
  apply Qc_eqb_iff in Ho. rewrite forallb_forall in Hl, Hq.
  rewrite (energy_grouped n a s Ha), (energy_grouped n b s Hb), Ho.
  f_equal; [f_equal|].
  - apply qsum_map_ext_in. intros v Hv. specialize (Hl v Hv).
    apply Qc_eqb_iff in Hl. rewrite Hl. reflexivity.
  - apply qsum_map_ext_in. intros u Hu. specialize (Hq u Hu). rewrite forallb_forall in Hq.
    apply qsum_map_ext_in. intros v Hv. specialize (Hq v Hv).
    apply Qc_eqb_iff in Hq. rewrite Hq. reflexivity.
Qed.

(* ---------- completeness: equal energies force equal coefficients ---------- *)
Definition ind1 (x : label) (t : Qc) : sample := fun w => if (w =? x)%nat then t else 0.
Definition ind2 (x y : label) : sample :=
  fun w => if (w =? x)%nat then 1 else if (w =? y)%nat then 1 else 0.

Lemma lin_energy_ind1 l x t : lin_energy l (ind1 x t) = lin_coeff l x * t.
Proof.
  induction l as [|[y b] l IH].
  - unfold lin_energy, lin_coeff. cbn [map filter qsum]. ring.
  - rewrite lin_energy_cons, lin_coeff_cons, IH. cbn [fst snd]. unfold ind1.
    destruct (y =? x)%nat; ring.
Qed.

Lemma quad_energy_ind1 q x t : quad_energy q (ind1 x t) = quad_coeff q x x * t * t.
Proof.
  induction q as [|[[y z] b] q IH].
  - unfold quad_energy, quad_coeff. cbn [map filter qsum]. ring.
  - rewrite quad_energy_cons, quad_coeff_cons, IH, same_pair_flip. cbn [fst snd]. unfold ind1.
    destruct (y =? x)%nat, (z =? x)%nat; cbn [andb orb]; ring.
Qed.

Lemma energy_ind1 p x t :
  energy p (ind1 x t) =
  p_off p + lin_coeff (p_lin p) x * t + quad_coeff (p_quad p) x x * t * t.
Proof. unfold energy. rewrite lin_energy_ind1, quad_energy_ind1. reflexivity. Qed.

Lemma lin_energy_ind2 l x y : x <> y ->
  lin_energy l (ind2 x y) = lin_coeff l x + lin_coeff l y.
Proof.
  intros Hne. induction l as [|[z b] l IH].
  - unfold lin_energy, lin_coeff. cbn [map filter qsum]. ring.
  - rewrite lin_energy_cons, !lin_coeff_cons, IH. cbn [fst snd]. unfold ind2.
    destruct (Nat.eqb_spec z x), (Nat.eqb_spec z y); try (exfalso; congruence); ring.
Qed.

Lemma quad_energy_ind2 q x y : x <> y ->
  quad_energy q (ind2 x y) = quad_coeff q x x + quad_coeff q y y + quad_coeff q x y.
Proof.
  intros Hne. induction q as [|[[z w] b] q IH].
  - unfold quad_energy, quad_coeff. cbn [map filter qsum]. ring.
  - rewrite quad_energy_cons, !quad_coeff_cons, IH, !same_pair_flip. cbn [fst snd]. unfold ind2.
    destruct (Nat.eqb_spec z x), (Nat.eqb_spec z y), (Nat.eqb_spec w x), (Nat.eqb_spec w y);
      cbn [andb orb]; try (exfalso; congruence); ring.
Qed.

Lemma energy_ind2 p x y : x <> y ->
  energy p (ind2 x y) =
  p_off p + (lin_coeff (p_lin p) x + lin_coeff (p_lin p) y)
  + (quad_coeff (p_quad p) x x + quad_coeff (p_quad p) y y + quad_coeff (p_quad p) x y).
Proof. intros H. unfold energy. rewrite lin_energy_ind2, quad_energy_ind2 by exact H. reflexivity. Qed.

Lemma Qc_double_inj (x y : Qc) : x + x = y + y -> x = y.
Proof.
  intros H.
  assert (D : forall z : Qc, z = (z + z) * / (1 + 1)).
  { intros z. field. intro H0. discriminate H0. }
  rewrite (D x), (D y), H. reflexivity.
Qed.

Section Complete.
  Variables a b : poly.
  Hypothesis E : forall s, energy a s = energy b s.

  Lemma ce_off : p_off a = p_off b.
  Proof.
    pose proof (E (ind1 0%nat 0)) as H. rewrite !energy_ind1 in H.
    transitivity (p_off a + lin_coeff (p_lin a) 0%nat * 0 + quad_coeff (p_quad a) 0%nat 0%nat * 0 * 0);
      [ring|]. rewrite H. ring.
  Qed.

  Lemma ce_self x : quad_coeff (p_quad a) x x = quad_coeff (p_quad b) x x.
  Proof.
    pose proof (E (ind1 x 1)) as H1. pose proof (E (ind1 x (- (1)))) as H2.
    rewrite !energy_ind1, ce_off in H1, H2.
    apply Qc_double_inj.
    set (La := lin_coeff (p_lin a) x) in *. set (Lb := lin_coeff (p_lin b) x) in *.
    set (Qa := quad_coeff (p_quad a) x x) in *. set (Qb := quad_coeff (p_quad b) x x) in *.
    set (o := p_off b) in *.
    transitivity ((o + La * 1 + Qa * 1 * 1) + (o + La * - (1) + Qa * - (1) * - (1)) - o - o); [ring|].
    rewrite H1, H2. ring.
  Qed.

  Lemma ce_lin x : lin_coeff (p_lin a) x = lin_coeff (p_lin b) x.
  Proof.
    pose proof (E (ind1 x 1)) as H1. rewrite !energy_ind1, ce_off, (ce_self x) in H1.
    set (La := lin_coeff (p_lin a) x) in *. set (Lb := lin_coeff (p_lin b) x) in *.
    set (Qb := quad_coeff (p_quad b) x x) in *. set (o := p_off b) in *.
    transitivity ((o + La * 1 + Qb * 1 * 1) - o - Qb); [ring|]. rewrite H1. ring.
  Qed.

  Lemma ce_quad x y : quad_coeff (p_quad a) x y = quad_coeff (p_quad b) x y.
  Proof.
    destruct (Nat.eq_dec x y) as [->|Hne]; [apply ce_self|].
    pose proof (E (ind2 x y)) as H.
    rewrite !energy_ind2, ce_off, !ce_lin, !ce_self in H by exact Hne.
    set (Qa := quad_coeff (p_quad a) x y) in *. set (Qb := quad_coeff (p_quad b) x y) in *.
    set (k := p_off b + (lin_coeff (p_lin b) x + lin_coeff (p_lin b) y)) in *.
    set (d := quad_coeff (p_quad b) x x + quad_coeff (p_quad b) y y) in *.
    transitivity ((k + (d + Qa)) - k - d); [ring|]. rewrite H. ring.
  Qed.
End Complete.

Theorem coeff_eq_complete n a b :
  (forall s, energy a s = energy b s) -> poly_coeff_eqb n a b = true.
Proof.
  intros E. unfold poly_coeff_eqb.
  rewrite !andb_true_iff, !forallb_forall. repeat split.
  - apply Qc_eqb_iff. apply ce_off. exact E.
  - intros v _. apply Qc_eqb_iff. apply ce_lin. exact E.
  - intros u _. apply forallb_forall. intros v _. apply Qc_eqb_iff. apply ce_quad. exact E.
Qed.

(* poly_coeff_eqb decides energy equality on the label range *)
Theorem poly_coeff_eqb_iff n a b :
  labels_below n a -> labels_below n b ->
  (poly_coeff_eqb n a b = true <-> forall s, energy a s = energy b s).
Proof.
  intros Ha Hb. split; [apply poly_coeff_eqb_sound; assumption|apply coeff_eq_complete].
Qed.

(* ---------- higher order ---------- *)
Lemma insert_sorted_perm v l : Permutation (insert_sorted v l) (v :: l).
Proof.
  induction l as [|x l IH]; cbn [insert_sorted]; [apply Permutation_refl|].
  destruct (v <=? x)%nat; [apply Permutation_refl|].
  eapply perm_trans; [apply perm_skip; exact IH|apply perm_swap].
Qed.

Lemma sort_nats_perm l : Permutation (sort_nats l) l.
Proof.
  induction l as [|x l IH]; [apply Permutation_refl|].
  unfold sort_nats. cbn [fold_right]. fold (sort_nats l).
  eapply perm_trans; [apply insert_sorted_perm|apply perm_skip; exact IH].
Qed.

Lemma qprod_perm l l' : Permutation l l' -> qprod l = qprod l'.
Proof.
  induction 1 as [|x l l' _ IH|x y l|l l' l'' _ IH1 _ IH2]; cbn [qprod].
  - reflexivity.
  - rewrite IH. reflexivity.
  - ring.
  - rewrite IH1. exact IH2.
Qed.

Lemma nats_eqb_eq a b : nats_eqb a b = true <-> a = b.
Proof.
  unfold nats_eqb. revert b. induction a as [|x a IH]; intros [|y b]; cbn [list_eqb].
  - split; reflexivity.
  - split; intros H; discriminate H.
  - split; intros H; discriminate H.
  - rewrite andb_true_iff, Nat.eqb_eq, IH. split.
    + intros [-> ->]. reflexivity.
    + intros H. injection H as -> ->. split; reflexivity.
Qed.

Lemma mono_val_sorted s t : mono_val s t = snd t * qprod (map s (sort_nats (fst t))).
Proof.
  unfold mono_val. f_equal. apply qprod_perm, Permutation_map, Permutation_sym, sort_nats_perm.
Qed.

Lemma henergy_grouped p s ks :
  NoDup ks -> (forall k, In k (hkeys p) -> In k ks) ->
  henergy p s = qsum (map (fun k => hcoeff p k * qprod (map s k)) ks).
Proof.
  intros Hnd Hin. unfold henergy, hcoeff.
  rewrite (map_ext _ _ (mono_val_sorted s)).
  apply (group_sum nats_eqb nats_eqb_eq (fun t => sort_nats (fst t)) snd
           (fun k => qprod (map s k)) p ks Hnd).
  intros t Ht. apply Hin. unfold hkeys. apply (in_map (fun t => sort_nats (fst t))). exact Ht.
Qed.

(* no duplicate-freeness of the monomials is needed: sort_nats keeps
   repeated variables, so the key is the multiset of variables *)
Theorem hpoly_eqb_sound a b :
  hpoly_eqb a b = true -> forall s, henergy a s = henergy b s.
Proof.
  intros H s. unfold hpoly_eqb in H. rewrite forallb_forall in H.
  set (ks := nodup (list_eq_dec Nat.eq_dec) (hkeys a ++ hkeys b)).
  rewrite (henergy_grouped a s ks), (henergy_grouped b s ks).
  - apply qsum_map_ext_in. intros k Hk. apply nodup_In in Hk. specialize (H k Hk).
    apply Qc_eqb_iff in H. rewrite H. reflexivity.
  - apply NoDup_nodup.
  - intros k Hk. apply nodup_In, in_or_app. right. exact Hk.
  - apply NoDup_nodup.
  - intros k Hk. apply nodup_In, in_or_app. left. exact Hk.
Qed.

Corollary hpoly_eqb_sound_nodup a b :
  (forall t, In t a -> NoDup (fst t)) -> (forall t, In t b -> NoDup (fst t)) ->
  hpoly_eqb a b = true -> forall s, henergy a s = henergy b s.
Proof. intros _ _. apply hpoly_eqb_sound. Qed.
