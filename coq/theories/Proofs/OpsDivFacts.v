(* C06: the translated division `self * (1 / other)` (__truediv__, __itruediv__) is the specified division. *)
From Coq Require Import List ZArith QArith Qcanon Bool Arith Lia.
From Dimod Require Import Base.Util Model.Poly Model.Sym Model.OpsLang Gen.Gen_Ops Gen.Gen_AddVar Model.Ops
  Proofs.PolyFacts Proofs.SymFacts Proofs.OpsFacts.
Import ListNotations.
Open Scope Qc_scope.

Lemma one_div x : qc 1 1 / x = / x.
Proof. rewrite qc_1. unfold Qcdiv. ring. Qed.

Local Opaque merge padd psub pneg scale add_offset pmul_linear pmul_linear_tab unexpected_pair real_interaction
  Qcplus Qcmult Qcopp Qcinv Qcminus Qcdiv qc qpow qis0 pzero gen_upd_err upd_err mul_err gen_mul_err.

(* multiplication of a model by a number, with any amount of fuel >= 2: scale *)
Lemma disp_scale f c t p k :
  disp (S (S f)) (RBin OMul (VMdl (mkM c t p)) (VNum k)) = Ok (VMdl (mkM c t (scale k p))).
Proof. destruct c as [[| | |]|]; reflexivity. Qed.

Lemma disp_div_model f c t p x :
  disp (S (S (S (S f)))) (RBin ODiv (VMdl (mkM c t p)) (VNum x)) =
  if qis0 x then Err EZeroDiv else Ok (VMdl (mkM c t (scale (qc 1 1 / x) p))).
Proof.
  destruct c as [[| | |]|]; rewrite disp_S; cbn; rewrite disp_S; cbn;
    destruct (qis0 x); try reflexivity; cbn; rewrite disp_scale; reflexivity.
Qed.

Lemma disp_iscale f c t p k :
  disp (S (S f)) (RIBin OMul (VMdl (mkM c t p)) (VNum k)) = Ok (VMdl (mkM c t (scale k p))).
Proof. destruct c as [[| | |]|]; reflexivity. Qed.

Lemma disp_idiv_model f c t p x :
  disp (S (S (S (S f)))) (RIBin ODiv (VMdl (mkM c t p)) (VNum x)) =
  if qis0 x then Err EZeroDiv else Ok (VMdl (mkM c t (scale (qc 1 1 / x) p))).
Proof.
  destruct c as [[| | |]|]; rewrite disp_S; cbn; rewrite disp_S; cbn;
    destruct (qis0 x); try reflexivity; cbn; rewrite disp_iscale; reflexivity.
Qed.

Lemma requiv_refl r : requiv r r.
Proof.
  destruct r as [[x|m|m]|e]; cbn [requiv veq]; try reflexivity.
  split; [reflexivity|]. split; [reflexivity|]. apply peq_refl.
Qed.

Lemma v_div_model_num c t p x :
  v_div (VMdl (mkM c t p)) (VNum x) = if qis0 x then Err EZeroDiv else Ok (VMdl (mkM c t (scale (/ x) p))).
Proof. reflexivity. Qed.

Ltac other_cases :=
  unfold g_op, g_iop, FUEL; cbn;
  repeat (first [ rewrite disp_S | progress unfold on_slot ]; cbn);
  repeat match goal with |- context [if ?c then _ else _] => destruct c eqn:? end;
  cbn [requiv veq]; try reflexivity.

Lemma div_case_view_num ma y : requiv (g_op ODiv (VView ma) (VNum y)) (v_div (VView ma) (VNum y)).
Proof. other_cases. Qed.

Lemma div_case_num_num x y : requiv (g_op ODiv (VNum x) (VNum y)) (v_div (VNum x) (VNum y)).
Proof. unfold g_op, FUEL. rewrite disp_S. cbn [binop_with num_op v_div]. destruct (qis0 y); apply requiv_refl. Qed.

Lemma div_case_mdl_num c t p y : requiv (g_op ODiv (VMdl (mkM c t p)) (VNum y)) (v_div (VMdl (mkM c t p)) (VNum y)).
Proof. unfold g_op, FUEL. rewrite disp_div_model, v_div_model_num, one_div. apply requiv_refl. Qed.

Lemma div_case_by_model a mb : requiv (g_op ODiv a (VMdl mb)) (v_div a (VMdl mb)).
Proof.
  destruct a as [x|[[va|] ta pa]|ma]; destruct mb as [[vb|] tb pb]; vm_compute; reflexivity.
Qed.

Lemma div_case_by_view a mb : requiv (g_op ODiv a (VView mb)) (v_div a (VView mb)).
Proof.
  destruct a as [x|[[va|] ta pa]|ma]; vm_compute; reflexivity.
Qed.

Theorem g_div_correct a b : wfv a -> wfv b -> requiv (g_op ODiv a b) (v_div a b).
Proof.
  intros _ _. destruct b as [y|mb|mb].
  - destruct a as [x|[c t p]|ma]; [apply div_case_num_num|apply div_case_mdl_num|apply div_case_view_num].
  - apply div_case_by_model.
  - apply div_case_by_view.
Qed.

Lemma idiv_case_num_num x y : requiv (g_iop ODiv (VNum x) (VNum y)) (v_div (VNum x) (VNum y)).
Proof. unfold g_iop, FUEL. rewrite disp_S. cbn [call kind_of gen_method binop_with num_op v_div]. destruct (qis0 y); apply requiv_refl. Qed.

Lemma idiv_case_mdl_num c t p y : requiv (g_iop ODiv (VMdl (mkM c t p)) (VNum y)) (v_div (VMdl (mkM c t p)) (VNum y)).
Proof. unfold g_iop, FUEL. rewrite disp_idiv_model, v_div_model_num, one_div. apply requiv_refl. Qed.

Lemma idiv_case_view_num ma y : requiv (g_iop ODiv (VView ma) (VNum y)) (v_div (VView ma) (VNum y)).
Proof. vm_compute. reflexivity. Qed.

Lemma idiv_case_by_model a mb : requiv (g_iop ODiv a (VMdl mb)) (v_div a (VMdl mb)).
Proof. destruct a as [x|[[va|] ta pa]|ma]; destruct mb as [[vb|] tb pb]; vm_compute; reflexivity. Qed.

Lemma idiv_case_by_view a mb : requiv (g_iop ODiv a (VView mb)) (v_div a (VView mb)).
Proof. destruct a as [x|[[va|] ta pa]|ma]; vm_compute; reflexivity. Qed.

Theorem g_idiv_correct a b : wfv a -> wfv b -> requiv (g_iop ODiv a b) (v_div a b).
Proof.
  intros _ _. destruct b as [y|mb|mb].
  - destruct a as [x|[c t p]|ma]; [apply idiv_case_num_num|apply idiv_case_mdl_num|apply idiv_case_view_num].
  - apply idiv_case_by_model.
  - apply idiv_case_by_view.
Qed.
