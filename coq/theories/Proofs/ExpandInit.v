(* C15 - HigherOrderComposite.sample_poly(initial_state=...) / expand_initial_state: the state handed to the child
   sampler (every product variable set to its product in constraint order, every auxiliary spin to its minimiser -
   Model/ChkC15.v CInit compares it with `set_aux cons (extend ...)`) agrees with the given state on the polynomial's
   variables and has, in the quadratic model, exactly the polynomial's energy. *)
From Coq Require Import List ZArith QArith Qcanon Bool Arith Lia.
From Dimod Require Import Base.Util Model.Poly Model.HPoly Model.Reduce
  Proofs.PolyFacts Proofs.HPolyFacts Proofs.ReduceFacts Proofs.PenaltyFacts Proofs.MakeQuadratic.
Import ListNotations.
Open Scope Qc_scope.

Lemma extend_is_spin cons : forall a, is_spin a -> is_spin (extend cons a).
Proof.
  unfold extend. induction cons as [|[[u v] p] r IH]; intros a Hs; cbn [fold_left]; [exact Hs|].
  apply IH. intros x. unfold upd. destruct (x =? p)%nat; [|apply Hs].
  destruct (Hs u) as [->| ->], (Hs v) as [->| ->]; [left|right|right|left]; ring.
Qed.

Theorem expand_initial_state_spin s poly cons (a : sample) :
  terms_nodup poly = true -> valid_cons4 poly cons = true ->
  all_degree_le2 (reduce_with (map drop_aux cons) poly) = true -> is_spin a ->
  let e := set_aux cons (extend (map drop_aux cons) a) in
  (forall x, In x (hvars poly) -> e x = a x) /\ is_spin e /\
  consistent (map drop_aux cons) (extend (map drop_aux cons) a) /\
  energy (mq_spin s cons (reduce_with (map drop_aux cons) poly)) e = henergy poly a.
Proof.
  intros Hnd Hv Hd Hs e.
  assert (Hv3 : valid_cons (hvars poly) (map drop_aux cons) = true).
  { unfold valid_cons4 in Hv. apply andb_true_iff in Hv. tauto. }
  destruct (reduce_energy_extend poly (map drop_aux cons) a Hnd Hv3) as [Hc [Hsame _]].
  pose proof (extend_is_spin (map drop_aux cons) a Hs) as Hs'.
  destruct (make_quadratic_spin_exact s poly cons _ Hnd Hv Hd Hs' Hc) as [Hk [Hse He]].
  split; [|split; [exact Hse|split; [exact Hc|]]].
  - intros x Hx. unfold e. rewrite Hk; [apply Hsame; exact Hx|].
    unfold known_vars. apply in_or_app. left. exact Hx.
  - unfold e. rewrite He. apply henergy_ext. exact Hsame.
Qed.
