(* The index-level removal of a model variable, read through the label list,
   is the plain-polynomial removal of that label (refinement M -> S). *)
From Coq Require Import List ZArith QArith Qcanon Bool Arith Lia.
From Dimod Require Import Base.Util Model.Poly Model.Expr Model.CQMSpec Proofs.ExprFacts.
Import ListNotations.
Local Open Scope nat_scope.

Definition lab_abs (labels : list nat) (e : mexpr) : poly :=
  relabel (fun i => nth i labels 0) (abs_expr e).

Lemma filter_map_comm : forall {A B} (f : B -> bool) (g : A -> B) l,
  filter f (map g l) = map g (filter (fun x => f (g x)) l).
Proof.
  intros A B f g l. induction l as [|a r IH]; [reflexivity|]. cbn [map filter].
  destruct (f (g a)); cbn [map]; rewrite IH; reflexivity.
Qed.

Lemma map_filter_agree : forall {A B} (l : list A) (P Q : A -> bool) (h1 h2 : A -> B),
  (forall t, In t l -> P t = Q t) -> (forall t, In t l -> P t = true -> h1 t = h2 t) ->
  map h1 (filter P l) = map h2 (filter Q l).
Proof.
  intros A B l P Q h1 h2. induction l as [|a r IH]; intros HP Hh; [reflexivity|]. cbn [filter].
  rewrite <- (HP a (or_introl eq_refl)). destruct (P a) eqn:E; cbn [map].
  - rewrite (Hh a (or_introl eq_refl) E). f_equal. apply IH; intros t Ht; [apply HP|apply Hh]; right; exact Ht.
  - apply IH; intros t Ht; [apply HP|apply Hh]; right; exact Ht.
Qed.

Lemma label_eqb : forall labels v a, NoDup labels -> v < length labels -> a < length labels ->
  (nth a labels 0 =? nth v labels 0) = (a =? v).
Proof.
  intros labels v a ND Hv Ha. apply nth_eq_iff; [exact ND| |exact Ha].
  apply nth_error_nth'. exact Hv.
Qed.

Theorem remove_variable_refines_spec : forall n e v labels,
  ExprInv n e -> NoDup labels -> length labels = n -> v < n ->
  lab_abs (remove_nth v labels) (m_reindex v e) = remove_variable (nth v labels 0) (lab_abs labels e).
Proof.
  intros n e v labels I ND Hlen Hv. unfold lab_abs. rewrite (reindex_abs n e v I).
  destruct I as [NDv LT LEN QD IDX].
  unfold relabel, remove_variable, abs_expr. cbn [p_off p_lin p_quad]. f_equal.
  - rewrite map_map, filter_map_comm. apply map_filter_agree.
    + intros t Ht. cbn [fst]. f_equal. symmetry. apply label_eqb; [exact ND|lia|].
      destruct t as [a b]. apply in_combine_l in Ht. rewrite Forall_forall in LT. rewrite Hlen. apply LT. exact Ht.
    + intros t Ht E. cbn [fst snd]. f_equal. apply nth_remove_nth.
      apply negb_true_iff in E. apply Nat.eqb_neq in E. exact E.
  - pose (L := map (to_model (e_vars e)) (e_quad e)).
    change (map (fun t : nat * nat * Qc => (nth (fst (fst t)) (e_vars e) 0, nth (snd (fst t)) (e_vars e) 0, snd t)) (e_quad e)) with L.
    assert (HL : forall t, In t L -> fst (fst t) < length labels /\ snd (fst t) < length labels).
    { intros t Ht. subst L. apply in_map_iff in Ht. destruct Ht as [[[a b] w] [<- Hin]]. unfold to_model. cbn [fst snd].
      rewrite Forall_forall in QD, LT. destruct (QD _ Hin) as [Ha Hb]. cbn [fst snd] in Ha, Hb.
      rewrite Hlen. split; apply LT; apply nth_In; assumption. }
    clearbody L. rewrite map_map. rewrite (filter_map_comm _ _ L). apply map_filter_agree.
    + intros t Ht. unfold mentions. cbn [fst snd]. destruct (HL t Ht) as [Ha Hb].
      rewrite !label_eqb; try exact ND; try lia. reflexivity.
    + intros t Ht E. cbn [fst snd]. unfold mentions in E. apply negb_true_iff in E. apply orb_false_iff in E.
      destruct E as [E1 E2]. apply Nat.eqb_neq in E1. apply Nat.eqb_neq in E2.
      rewrite !nth_remove_nth by assumption. reflexivity.
Qed.

(* the same for the whole constrained model: objective, every constraint, and the
   surviving variables keep their own vartype and bounds *)
Theorem cqm_remove_variable_refines_spec : forall q v labels,
  CqmInv q -> NoDup labels -> length labels = length (m_info q) -> v < length (m_info q) ->
  let q' := cqm_remove_variable v q in
  let l := nth v labels 0 in
  lab_abs (remove_nth v labels) (m_obj q') = remove_variable l (lab_abs labels (m_obj q))
  /\ map (fun k => lab_abs (remove_nth v labels) (mc_e k)) (m_cons q')
     = map (fun k => remove_variable l (lab_abs labels (mc_e k))) (m_cons q)
  /\ (forall u, u <> v ->
        nth_error (combine (remove_nth v labels) (m_info q')) (shift v u) = nth_error (combine labels (m_info q)) u).
Proof.
  intros q v labels [Io Ic] ND Hlen Hv q' l. unfold q', l, cqm_remove_variable. cbn [m_obj m_cons m_info].
  split; [|split].
  - eapply remove_variable_refines_spec; eassumption.
  - rewrite map_map. apply map_ext_in. intros k Hk. cbn [mc_e mc_set_e].
    rewrite Forall_forall in Ic. eapply remove_variable_refines_spec; try eassumption. apply Ic. exact Hk.
  - intros u Hu.
    assert (C : forall {A B} (l1 : list A) (l2 : list B) i, remove_nth i (combine l1 l2) = combine (remove_nth i l1) (remove_nth i l2)).
    { intros A B l1. induction l1 as [|x r IH]; intros l2 i; [destruct i; reflexivity|].
      destruct l2 as [|y s]; [destruct i; cbn [remove_nth combine]; [destruct r; reflexivity|destruct (remove_nth i r); reflexivity]|].
      destruct i; cbn [remove_nth combine]; [reflexivity|]. f_equal. apply IH. }
    rewrite <- C. apply nth_error_remove_nth. exact Hu.
Qed.

(* S level frame: an edit through the view of one constraint changes that constraint's terms only *)
Theorem view_edit_frame_spec : forall l f q q' e, on_target (TCon l) f q = (q', e) ->
  q_vars q' = q_vars q /\ q_obj q' = q_obj q
  /\ map k_lbl (q_cons q') = map k_lbl (q_cons q)
  /\ (forall k', In k' (q_cons q') -> k_lbl k' <> l -> In k' (q_cons q))
  /\ map (fun k => (k_sense k, k_rhs k, k_soft k, k_mark k)) (q_cons q')
     = map (fun k => (k_sense k, k_rhs k, k_soft k, k_mark k)) (q_cons q).
Proof.
  intros l f q q' e H. unfold on_target in H. destruct (has_con l (q_cons q)).
  - injection H as <- _. unfold upd_con, set_cons. cbn [q_vars q_obj q_cons].
    split; [reflexivity|]. split; [reflexivity|]. split; [|split].
    + rewrite map_map. apply map_ext. intros k. destruct (k_lbl k =? l); reflexivity.
    + intros k' Hin Hne. apply in_map_iff in Hin. destruct Hin as [k [Hk Hin]].
      destruct (Nat.eqb_spec (k_lbl k) l) as [E|E]; [|subst; exact Hin].
      subst k'. cbn [con_set_p k_lbl] in Hne. congruence.
    + rewrite map_map. apply map_ext. intros k. destruct (k_lbl k =? l); reflexivity.
  - injection H as <- _. repeat split; try reflexivity. intros k' Hin _. exact Hin.
Qed.

(* S level: removing a variable leaves every coefficient of every other variable, in every expression *)
From Dimod Require Import Proofs.PolyFacts.
Theorem spec_remove_variable_others : forall l q w,
  w <> l ->
  lin_coeff (p_lin (q_obj (remove_var_raw l q))) w = lin_coeff (p_lin (q_obj q)) w
  /\ map (fun k => lin_coeff (p_lin (k_p k)) w) (q_cons (remove_var_raw l q))
     = map (fun k => lin_coeff (p_lin (k_p k)) w) (q_cons q)
  /\ map (fun k => (k_lbl k, k_sense k, k_rhs k, k_soft k, k_mark k)) (q_cons (remove_var_raw l q))
     = map (fun k => (k_lbl k, k_sense k, k_rhs k, k_soft k, k_mark k)) (q_cons q)
  /\ (forall x, In x (q_vars (remove_var_raw l q)) <-> In x (q_vars q) /\ v_lbl x <> l).
Proof.
  intros l q w Hw. unfold remove_var_raw, set_vars, map_exprs. cbn [q_obj q_cons q_vars].
  split; [|split; [|split]].
  - unfold remove_variable. cbn [p_lin]. apply lin_coeff_remove_other. exact Hw.
  - rewrite map_map. apply map_ext. intros k. cbn [con_set_p k_p]. unfold remove_variable. cbn [p_lin].
    apply lin_coeff_remove_other. exact Hw.
  - rewrite map_map. apply map_ext. intros k. reflexivity.
  - intros x. unfold del_var. rewrite filter_In. split; intros [H1 H2]; split; try exact H1.
    + apply negb_true_iff in H2. apply Nat.eqb_neq in H2. exact H2.
    + apply negb_true_iff. apply Nat.eqb_neq. exact H2.
Qed.

(* S level, discrete marks (the rules of the repaired code):
   fixing a BINARY variable to a non-zero value clears the mark of every constraint that contains it *)
Theorem fix_variable_marks : forall l a q q' x,
  find_var l (q_vars q) = Some x -> v_vt x = BINARY -> Qc_eqb a 0 = false ->
  fix_one l a q = (q', XNone) ->
  map k_mark (q_cons q') = map (fun k => k_mark k && negb (pmentions (k_p k) l)) (q_cons q).
Proof.
  intros l a q q' x Hf Hvt Ha H. unfold fix_one in H. rewrite Hf, Hvt, Ha in H. cbn [is_binary negb andb] in H.
  injection H as <-. unfold set_vars, map_exprs, set_cons. cbn [q_cons]. rewrite !map_map.
  apply map_ext. intros k. destruct (k_mark k) eqn:M; destruct (pmentions (k_p k) l) eqn:P; cbn [andb negb];
    cbn [con_set_p con_set_mark k_mark]; try rewrite M; reflexivity.
Qed.

(* ... and any other fix leaves all marks *)
Theorem fix_variable_marks_other : forall l a q q' x,
  find_var l (q_vars q) = Some x -> (is_binary (v_vt x) && negb (Qc_eqb a 0) = false) ->
  fix_one l a q = (q', XNone) ->
  map k_mark (q_cons q') = map k_mark (q_cons q).
Proof.
  intros l a q q' x Hf Hc H. unfold fix_one in H. rewrite Hf, Hc in H.
  injection H as <-. unfold set_vars, map_exprs. cbn [q_cons]. rewrite !map_map. apply map_ext. intros k. reflexivity.
Qed.

(* flipping clears the mark of exactly the constraints that were discrete and contained the variable *)
Theorem flip_variable_marks : forall l q q',
  flip l q = (q', XNone) ->
  map k_mark (q_cons q') = map (fun k => k_mark k && negb (is_discrete (q_vars q) k && pmentions (k_p k) l)) (q_cons q).
Proof.
  intros l q q' H. unfold flip in H. destruct (find_var l (q_vars q)) as [x|]; [|discriminate].
  destruct (v_vt x); try discriminate; injection H as <-; cbn [q_cons]; rewrite !map_map; apply map_ext; intros k;
    destruct (is_discrete (q_vars q) k && pmentions (k_p k) l); cbn [negb];
    cbn [con_set_p con_set_mark k_mark]; rewrite ?andb_true_r, ?andb_false_r; reflexivity.
Qed.
