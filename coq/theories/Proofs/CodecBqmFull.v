(* Whole BQM files without JSON hypotheses, with the exact acceptance threshold. *)
From Coq Require Import List NArith ZArith Arith Bool Lia.
From Dimod Require Import Gen.Gen_Codec Model.Codec Proofs.CodecBase Proofs.CodecFrame Proofs.CodecBqm
  Proofs.CodecBqmTop Proofs.CodecLabel Proofs.CodecJson.
Import ListNotations.
Open Scope nat_scope.

Definition BqmWFL (f : bqmfile) : Prop :=
  BqmWF f /\ (forall l, bf_labels f = Some l -> LabelsWF l).

Lemma hvars_wf : forall f, (forall l, bf_labels f = Some l -> LabelsWF l) -> HvWF (bqm_hvars f).
Proof.
  intros f H. unfold bqm_hvars. destruct (vlt (bf_version f) BQM_LABELS_IN_HEADER_BELOW); [|exact I].
  cbn [HvWF]. destruct (bf_labels f) as [l|]; [now apply H|constructor].
Qed.

Lemma hdr_ok : forall f, BqmWFL f -> HdrOK (bqm_hdr f).
Proof. intros f [_ HL]. apply bqm_hdr_ok. unfold bqm_hdr. cbn [h_vars]. now apply hvars_wf. Qed.

Lemma labels_ok : forall l, LabelsWF l -> LabelsOK l.
Proof.
  intros l W. split.
  - intros j. now apply label_roundtrip.
  - intros k Hk. now apply label_prefix_rejected.
Qed.

Theorem bqm_decode_encode_full : forall f, BqmWFL f -> run bqm_decode (bqm_encode f) = Ok f.
Proof.
  intros f W. apply bqm_decode_encode; [apply W|now apply hdr_ok|].
  intros l E. apply labels_ok. destruct W as [_ HL]. now apply HL.
Qed.

Theorem bqm_decode_prefix_safe_full : forall f k, BqmWFL f -> k < length (bqm_encode f) ->
  run bqm_decode (firstn k (bqm_encode f)) = Err \/ run bqm_decode (firstn k (bqm_encode f)) = Ok f.
Proof.
  intros f k W Hk. apply bqm_decode_prefix_safe; [apply W|now apply hdr_ok| |assumption].
  intros l E. apply labels_ok. destruct W as [_ HL]. now apply HL.
Qed.

(* ------------------------------------------------------------ exact threshold *)

Lemma good_bind_ne : forall {A B} (d1 : parser A) (f : A -> parser B) e1 e2 a b t1 t2,
  good d1 e1 a t1 -> good (f a) e2 b t2 -> 0 < length e2 -> 0 < t2 ->
  good (bind d1 f) (e1 ++ e2) b (length e1 + t2).
Proof.
  intros A B d1 f e1 e2 a b t1 t2 G1 G2 Hl Ht.
  pose proof (good_bind_gen d1 f e1 e2 a b t1 t2 G1 G2 (fun _ => Ht)) as G.
  destruct e2; [cbn in Hl; lia|exact G].
Qed.

(* the bytes of the VARS section that must be present: everything but its padding *)
Definition bqm_lab_thr (f : bqmfile) : nat :=
  if vlt (bf_version f) BQM_LABELS_IN_HEADER_BELOW then 0
  else match bf_labels f with
       | Some l => length MAGIC_VARS + (NLEN_VARS + length (pr_labels l))
       | None => 0
       end.

Definition bqm_essential (f : bqmfile) : nat :=
  length (header BQM_PREFIX (bf_version f) (bqm_json (bqm_hdr f)))
  + (length (bqm_body (bf_lin f) (bf_adj f) (bf_off f)) + bqm_lab_thr f).

Theorem bqm_good_exact : forall f, BqmWFL f -> good bqm_decode (bqm_encode f) f (bqm_essential f).
Proof.
  intros f W. pose proof (hdr_ok f W) as [Hj1 Hj2]. destruct W as [WF HLw].
  assert (HL : forall l, bf_labels f = Some l -> LabelsOK l) by (intros l E; apply labels_ok; now apply HLw).
  destruct WF as [Hv Ho Hl Hn Ha Hm Hs Hv1 Hjf Hvf].
  unfold bqm_encode, bqm_decode, bqm_essential.
  apply (good_bind_ne _ _ _ _ (bf_version f, bqm_hdr f) f
           (length BQM_PREFIX + (2 + (HEADER_LEN_BYTES + length (bqm_json (bqm_hdr f)))))).
  { split; [apply header_rt|apply header_psafe]; assumption. }
  2:{ rewrite app_length. pose proof (body_nonempty (bf_lin f) (bf_adj f) (bf_off f) (bf_dtype f) Ho). lia. }
  2:{ pose proof (body_nonempty (bf_lin f) (bf_adj f) (bf_off f) (bf_dtype f) Ho). lia. }
  cbv beta. cbn [fst snd].
  assert (Hrej : vle BQM_REJECT_FROM (bf_version f) = false) by (destruct Hv as [-> | ->]; reflexivity).
  rewrite Hrej.
  apply (good_bind_strict _ _ _ _ (bf_off f, bf_lin f, bf_adj f)).
  { unfold bqm_hdr. cbn [h_dtype h_n h_m]. rewrite Nat2N.id. apply body_rt_all; assumption. }
  { unfold bqm_hdr. cbn [h_dtype h_n h_m]. rewrite Nat2N.id. apply body_strict_all; assumption. }
  cbv beta iota. unfold bqm_hdr. cbn [h_dtype h_n h_m h_vars h_vt].
  unfold dec_bqm_labels, bqm_hvars, bqm_lab_thr.
  destruct f as [v dt vt m off lin adj labs]. cbn [bf_version bf_dtype bf_vt bf_m bf_off bf_lin bf_adj bf_labels] in *.
  destruct Hv as [-> | ->].
  - change (vlt (1, 0)%N BQM_LABELS_IN_HEADER_BELOW) with true. cbv iota.
    destruct labs as [[|x l]|].
    + contradiction Hv1. reflexivity.
    + cbn [hvars_truthy]. apply good_nil. intros rest. reflexivity.
    + cbn [hvars_truthy]. apply good_nil. intros rest. reflexivity.
  - change (vlt (2, 0)%N BQM_LABELS_IN_HEADER_BELOW) with false. cbv iota.
    destruct labs as [l|].
    + cbn [hvars_truthy]. destruct (HL l eq_refl) as [L1 L2].
      apply (good_bind_ret (bind (dec_tsection MAGIC_VARS NLEN_VARS labels_dec) (fun x => ret (Some x)))
               (fun labs => mkBqmFile (2, 0)%N dt vt m off lin adj labs) _ (Some l)).
      apply (good_bind_ret (dec_tsection MAGIC_VARS NLEN_VARS labels_dec) (fun x => Some x)).
      split; [apply tsection_rt|apply tsection_psafe]; try assumption; apply Hvf; reflexivity.
    + cbn [hvars_truthy]. apply good_nil. intros rest. reflexivity.
Qed.

(* the bytes after the essential part are the padding of the trailing VARS section *)
Definition bqm_tail_pad (f : bqmfile) : nat :=
  if vlt (bf_version f) BQM_LABELS_IN_HEADER_BELOW then 0
  else match bf_labels f with
       | Some l => pad_len (length MAGIC_VARS + NLEN_VARS + length (pr_labels l))
       | None => 0
       end.

Lemma bqm_length_split : forall f, length (bqm_encode f) = bqm_essential f + bqm_tail_pad f.
Proof.
  intros f. unfold bqm_encode, bqm_essential, bqm_lab_thr, bqm_tail_pad. rewrite !app_length.
  destruct (vlt (bf_version f) BQM_LABELS_IN_HEADER_BELOW); [cbn [length]; lia|].
  destruct (bf_labels f) as [l|]; [|cbn [length]; lia].
  unfold section. rewrite !app_length, le_enc_length, spaces_length. lia.
Qed.

Theorem bqm_ok_only_if_padding_lost : forall f k x, BqmWFL f -> k < length (bqm_encode f) ->
  run bqm_decode (firstn k (bqm_encode f)) = Ok x ->
  x = f /\ length (bqm_encode f) - bqm_tail_pad f <= k.
Proof.
  intros f k x W Hk E. destruct (bqm_good_exact f W) as [_ P].
  unfold run in E. destruct (P k Hk) as [E'|[L E']]; rewrite E' in E; [discriminate|].
  assert (T : length (bqm_encode f) - bqm_tail_pad f <= k) by (rewrite bqm_length_split; lia).
  split; [congruence|exact T].
Qed.
