(* C20 - cyDiscreteQuadraticModel: what set_quadratic_case writes is what get_quadratic reads, in both directions. *)
From Coq Require Import List ZArith QArith Qcanon Bool Arith Lia.
From Dimod Require Import Base.Util Model.Poly Model.Adj Model.AdjMore Model.DqmNative
  Proofs.AdjNb Proofs.AdjInv Proofs.DqmNativeFacts Proofs.DqmRoundTrip Proofs.DqmReads.
Import ListNotations.
Local Open Scope nat_scope.

Theorem set_quadratic_case_read_back d u cu v cv b :
  DInv d -> dop_ok d (DSetQuadCase u cu v cv b) = true ->
  let d' := dstep d (DSetQuadCase u cu v cv b) in
  (exists l, get_quadratic d' u v = Some l /\ In (cu, cv, b) l)
  /\ (exists l, get_quadratic d' v u = Some l /\ In (cv, cu, b) l).
Proof.
  intros HD Hok d'.
  assert (HD' : DInv d') by (apply dstep_preserves_DInv_all; assumption).
  cbn [dop_ok] in Hok. rewrite !Bool.andb_true_iff, !Nat.ltb_lt, Bool.negb_true_iff, Nat.eqb_neq in Hok.
  destruct Hok as [[[[Hu Hv] Hne] Hcu] Hcv].
  pose proof HD as HP. apply DInv_iff in HP. destruct HP as [HI [_ [H3 [_ [H5 [H6 [HW _]]]]]]].
  destruct (st_facts (d_st d) (d_nvars d) (nvars (d_b d)) H3 H5 H6 u cu Hu Hcu) as [Bu Vu].
  destruct (st_facts (d_st d) (d_nvars d) (nvars (d_b d)) H3 H5 H6 v cv Hv Hcv) as [Bv Vv].
  assert (Hcne : cs d u cu <> cs d v cv).
  { intros E. unfold cs, d_start in E. rewrite E in Vu. rewrite Vu in Vv. congruence. }
  assert (HL : length (adj (d_b d)) = nvars (d_b d)) by (apply inv_b_iff in HI; destruct HI as [HL _]; exact HL).
  (* the stored biases *)
  assert (G : nb_get (cs d v cv) (nb (d_b d') (cs d u cu)) = Some b /\ nb_get (cs d u cu) (nb (d_b d') (cs d v cv)) = Some b).
  { unfold d', dstep. cbn [d_b]. unfold bset_quadratic, set_quadratic.
    destruct (Nat.eqb_spec (cs d u cu) (cs d v cv)) as [E|_]; [contradiction|]. unfold nb. cbn [adj].
    rewrite !get_upsert_both by (try exact Hcne; rewrite HL; assumption).
    rewrite !Nat.eqb_refl. cbn [andb].
    destruct (Nat.eqb_spec (cs d u cu) (cs d v cv)) as [E|_]; [contradiction|]. cbn [andb].
    split; reflexivity. }
  destruct G as [G1 G2].
  assert (Nn : d_nvars d' = d_nvars d).
  { unfold d', dstep, d_nvars. cbn [d_adj]. apply track_length. }
  assert (Ss : d_st d' = d_st d) by reflexivity.
  assert (Lk : In v (d_nb d' u) /\ In u (d_nb d' v)).
  { unfold d', dstep, d_nb. cbn [d_adj]. apply track_links; assumption. }
  destruct Lk as [L1 L2]. split.
  - destruct (get_quadratic d' u v) as [l|] eqn:E.
    + exists l. split; [reflexivity|].
      apply (get_quadratic_lists_stored d' u v l cu cv b HD'); try (rewrite Nn; assumption); try assumption.
    + exfalso. apply (get_quadratic_none_iff d' u v HD') in E; [contradiction|rewrite Nn; exact Hu].
  - destruct (get_quadratic d' v u) as [l|] eqn:E.
    + exists l. split; [reflexivity|].
      apply (get_quadratic_lists_stored d' v u l cv cu b HD'); try (rewrite Nn; assumption); try assumption.
    + exfalso. apply (get_quadratic_none_iff d' v u HD') in E; [contradiction|rewrite Nn; exact Hv].
Qed.

Print Assumptions set_quadratic_case_read_back.
