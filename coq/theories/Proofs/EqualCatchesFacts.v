(* C18: the except clauses of the model (Model/Equal.v: catches_of, almost_catches) are DEFINED from the lists read
   from the source (translators/equal_catches.py -> Gen/Gen_EqualCatches.v); here: the three classes agree where
   the model uses one list, and the default `places` the check asks for is the source's. *)
From Coq Require Import List.
From Dimod Require Import Base.Util Model.Poly Model.Equal Gen.Gen_EqualCatches.
Import ListNotations.

(* is_equal: a BQM receiver answers with BinaryQuadraticModel's except clause, a QM or an expression view
   (both class EQ of the model) with QuadraticModel's resp. _ExpressionMixin's - which are the same *)
Lemma catches_of_gen a :
  catches_of a = match e_cls a with EB _ => gen_catches_is_equal_bqm | EQ => gen_catches_is_equal_qm end.
Proof. unfold catches_of. destruct (e_cls a); reflexivity. Qed.

Lemma catches_view_is_qm : gen_catches_is_equal_view = gen_catches_is_equal_qm.
Proof. reflexivity. Qed.

(* is_almost_equal: one except clause for all three classes *)
Lemma almost_catches_gen :
  almost_catches = gen_catches_is_almost_equal_bqm /\ almost_catches = gen_catches_is_almost_equal_qm
  /\ almost_catches = gen_catches_is_almost_equal_view.
Proof. repeat split; reflexivity. Qed.

(* the default number of places is 7 for every class *)
Lemma default_places_gen :
  gen_default_places_bqm = 7 /\ gen_default_places_qm = 7 /\ gen_default_places_view = 7 /\ gen_default_places_cqm = 7.
Proof. repeat split; reflexivity. Qed.
