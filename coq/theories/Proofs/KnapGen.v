(* C17: the constructions TRANSLATED from generators/{knapsack,multi_knapsack,binpacking}.py
   (Gen/Gen_Knap.v) are the models the theorems are about; the quadratic variants are specified here
   directly on the translated constructions *)
From Coq Require Import List ZArith QArith Qcanon Bool Arith Lia.
From Dimod Require Import Base.Util Model.Poly Model.Knap Model.Qap Model.QKnap Gen.Gen_Knap
  Proofs.PolyFacts Proofs.KnapFacts Proofs.QapFacts.
Import ListNotations.
Open Scope Qc_scope.

(* the generators reject values / weights of different shapes *)
Theorem gen_knapsack_is_model values weights capacity :
  length weights = length values -> gen_knapsack values weights capacity = knapsack_model values weights capacity.
Proof. intros H. unfold gen_knapsack, knapsack_model. rewrite H. reflexivity. Qed.

Theorem gen_multi_knapsack_is_model values weights capacities :
  length weights = length values -> gen_multi_knapsack values weights capacities = mk_model values weights capacities.
Proof. intros H. unfold gen_multi_knapsack, mk_model. rewrite H. reflexivity. Qed.

Theorem gen_bin_packing_is_model weights capacity : gen_bin_packing weights capacity = bp_model weights capacity.
Proof. reflexivity. Qed.

(* ---------- quadratic_knapsack ---------- *)
Theorem gen_quadratic_knapsack_objective values weights profits capacity (x : sample) :
  energy (q_obj (gen_quadratic_knapsack values weights profits capacity)) x
  = - ks_value values (length values) x - pair_profit profits x.
Proof.
  unfold gen_quadratic_knapsack, energy, pair_profit. cbn [q_obj p_off p_lin p_quad].
  rewrite lin_energy_lin_of, quad_energy_flat_map_seq.
  assert (Hl : range_sum (length values) (fun i => - wt values i * x (0 + i)%nat) = - ks_value values (length values) x).
  { unfold ks_value. rewrite <- range_sum_opp. apply range_sum_ext. intros i _. cbn [plus]. ring. }
  rewrite Hl.
  assert (Hq : range_sum (length profits) (fun a => quad_energy (flat_map (fun i1 =>
                   if (a <? i1)%nat then [((0 + a)%nat, (0 + i1)%nat, - mget profits a i1)] else []) (seq 0 (length profits))) x)
               = - range_sum (length profits) (fun i0 => range_sum (length profits) (fun i1 =>
                   if (i0 <? i1)%nat then mget profits i0 i1 * x i0 * x i1 else 0))).
  { rewrite <- range_sum_opp. apply range_sum_ext. intros i0 _. rewrite quad_energy_flat_map_seq, <- range_sum_opp.
    apply range_sum_ext. intros i1 _. destruct (i0 <? i1)%nat; unfold quad_energy; cbn [map qsum]; [|ring].
    unfold qterm_val. cbn [fst snd plus]. ring. }
  rewrite Hq. ring.
Qed.

Theorem gen_quadratic_knapsack_feasible values weights profits capacity (x : sample) :
  feasibleb (gen_quadratic_knapsack values weights profits capacity) x = true
  <-> ks_weight weights (length weights) x <= capacity.
Proof.
  unfold feasibleb, gen_quadratic_knapsack. cbn [q_cons forallb]. rewrite andb_true_r.
  unfold lc_satb, lc_value. cbn [lc_sense lc_lin lc_const]. rewrite lin_energy_lin_of, qleb_le, le_shift.
  unfold ks_weight. cbn [plus]. reflexivity.
Qed.

(* ---------- quadratic_multi_knapsack: same constraints as multi_knapsack ---------- *)
Theorem gen_quadratic_multi_knapsack_constraints values weights profits capacities :
  q_cons (gen_quadratic_multi_knapsack values weights profits capacities)
  = q_cons (gen_multi_knapsack values weights capacities).
Proof. reflexivity. Qed.

Theorem gen_quadratic_multi_knapsack_objective values weights profits capacities (x : sample) :
  energy (q_obj (gen_quadratic_multi_knapsack values weights profits capacities)) x
  = energy (q_obj (gen_multi_knapsack values weights capacities)) x
    - pair_profit_multi profits (length capacities) x.
Proof.
  unfold gen_quadratic_multi_knapsack, gen_multi_knapsack, energy, pair_profit_multi. cbn [q_obj p_off p_lin p_quad].
  assert (Hq : quad_energy (flat_map (fun i0 => flat_map (fun i1 =>
                 if (i0 <? i1)%nat
                 then map (fun j => ((0 + i0 * length capacities + j)%nat, (0 + i1 * length capacities + j)%nat, - mget profits i0 i1))
                          (seq 0 (length capacities))
                 else []) (seq 0 (length profits))) (seq 0 (length profits))) x
               = - range_sum (length profits) (fun i0 => range_sum (length profits) (fun i1 =>
                   if (i0 <? i1)%nat
                   then range_sum (length capacities) (fun j => mget profits i0 i1 * x (mk_idx (length capacities) i0 j) * x (mk_idx (length capacities) i1 j))
                   else 0))).
  { rewrite quad_energy_flat_map_seq, <- range_sum_opp. apply range_sum_ext. intros i0 _.
    rewrite quad_energy_flat_map_seq, <- range_sum_opp. apply range_sum_ext. intros i1 _.
    destruct (i0 <? i1)%nat; [|unfold quad_energy; cbn [map qsum]; ring].
    unfold quad_energy. rewrite map_map. rewrite <- range_sum_opp. unfold range_sum. f_equal. apply map_ext.
    intros j. unfold qterm_val, mk_idx. cbn [fst snd plus]. ring. }
  rewrite Hq. unfold quad_energy. cbn [map qsum]. ring.
Qed.
