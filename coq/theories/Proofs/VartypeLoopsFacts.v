(* The hand-written loops of Model/VartypeOps.v are the generic loop of Model/VartypeLoopsGen.v instantiated with
   the iteration domain / tested vartype / target vartype GENERATED from quadratic_model.py and constrained.py. *)
From Coq Require Import List ZArith QArith Qcanon Bool Arith.
From Dimod Require Import Base.Util Model.Poly Model.Adj Model.Expr Model.VartypeOps Gen.Gen_VartypeLoops
  Model.VartypeLoopsGen.
Import ListNotations.

Lemma is_spin_eqb t : is_spin t = vartype_eqb t SPIN.
Proof. destruct t; reflexivity. Qed.

Lemma fold_left_ext_fn {A B} (f g : A -> B -> A) (l : list B) (a : A) :
  (forall x y, f x y = g x y) -> fold_left f l a = fold_left g l a.
Proof. intros H. revert a. induction l as [|y l IH]; intros a; cbn [fold_left]; [reflexivity|]. rewrite H. apply IH. Qed.

Theorem qm_spin_to_binary_uses_source_loop q : qm_spin_to_binary q = qm_stb_loop gen_qm_stb_loop q.
Proof.
  unfold qm_spin_to_binary, qm_stb_loop, gen_qm_stb_loop, dom_indices.
  apply fold_left_ext_fn. intros [a|] v; cbn [qm_stb_step qm_loop_step]; [|reflexivity].
  rewrite is_spin_eqb. reflexivity.
Qed.

Theorem cqm_spin_to_binary_uses_source_loop q : cqm_spin_to_binary q = cqm_stb_loop gen_cqm_stb_loop q.
Proof.
  unfold cqm_spin_to_binary, cqm_stb_loop, gen_cqm_stb_loop, dom_indices.
  apply fold_left_ext_fn. intros [a|] v; cbn [cqm_stb_step cqm_loop_step]; [|reflexivity].
  rewrite is_spin_eqb. reflexivity.
Qed.
Print Assumptions qm_spin_to_binary_uses_source_loop.
Print Assumptions cqm_spin_to_binary_uses_source_loop.
