(* Generic layer of the file codec: little-endian integers, padding, parser combinators with
   round-trip (rt) and prefix-safety (psafeT) lemmas, header and section framing. *)
From Coq Require Import List NArith ZArith Arith Bool Lia.
From Dimod Require Import Gen.Gen_Codec Model.Codec.
Import ListNotations.
Open Scope nat_scope.

(* ------------------------------------------------------------ little endian *)

Lemma le_enc_length : forall n x, length (le_enc n x) = n.
Proof. induction n as [|n IH]; intros x; cbn [le_enc length]; [reflexivity | now rewrite IH]. Qed.

Lemma le_decode_encode : forall n x, (x < 256 ^ N.of_nat n)%N -> le_dec (le_enc n x) = x.
Proof.
  induction n as [|n IH]; intros x Hx.
  - cbn in *. lia.
  - cbn [le_enc le_dec].
    rewrite IH.
    + pose proof (N.div_mod x 256 ltac:(lia)) as E. lia.
    + rewrite Nat2N.inj_succ, N.pow_succ_r' in Hx.
      apply N.div_lt_upper_bound; lia.
Qed.

Lemma le_enc_bytes : forall n x, Forall (fun b => (b < 256)%N) (le_enc n x).
Proof.
  induction n as [|n IH]; intros x; cbn [le_enc]; constructor; [|apply IH].
  apply N.mod_lt. lia.
Qed.

(* ------------------------------------------------------------ list helpers *)

Lemma bytes_eqb_refl : forall a, bytes_eqb a a = true.
Proof. induction a as [|x a IH]; cbn; [reflexivity|]. now rewrite N.eqb_refl, IH. Qed.

Lemma bytes_eqb_eq : forall a b, bytes_eqb a b = true -> a = b.
Proof.
  induction a as [|x a IH]; intros [|y b] H; cbn in H; try discriminate; [reflexivity|].
  apply andb_true_iff in H as [H1 H2]. apply N.eqb_eq in H1. subst. f_equal. now apply IH.
Qed.

Lemma firstn_app_l : forall {A} (l1 l2 : list A), firstn (length l1) (l1 ++ l2) = l1.
Proof. intros. rewrite firstn_app, Nat.sub_diag, firstn_all. cbn. now rewrite app_nil_r. Qed.

Lemma skipn_app_l : forall {A} (l1 l2 : list A), skipn (length l1) (l1 ++ l2) = l2.
Proof. intros. rewrite skipn_app, Nat.sub_diag, skipn_all. reflexivity. Qed.

Lemma firstn_app_len : forall {A} n (l1 l2 : list A), length l1 = n -> firstn n (l1 ++ l2) = l1.
Proof. intros. subst. apply firstn_app_l. Qed.

Lemma skipn_app_len : forall {A} n (l1 l2 : list A), length l1 = n -> skipn n (l1 ++ l2) = l2.
Proof. intros. subst. apply skipn_app_l. Qed.

Lemma firstn_short : forall {A} k (l : list A), k <= length l -> length (firstn k l) = k.
Proof. intros. rewrite firstn_length. lia. Qed.

Lemma firstn_firstn_le : forall {A} a b (l : list A), a <= b -> firstn a (firstn b l) = firstn a l.
Proof. intros. rewrite firstn_firstn. f_equal. lia. Qed.

(* a prefix of l1 ++ l2 *)
Lemma firstn_app_cases : forall {A} k (l1 l2 : list A),
  (k < length l1 /\ firstn k (l1 ++ l2) = firstn k l1) \/
  (length l1 <= k /\ firstn k (l1 ++ l2) = l1 ++ firstn (k - length l1) l2).
Proof.
  intros A k l1 l2. destruct (Nat.lt_ge_cases k (length l1)) as [H|H]; [left|right]; split; try assumption.
  - rewrite firstn_app. replace (k - length l1) with 0 by lia. cbn. now rewrite app_nil_r.
  - rewrite firstn_app. rewrite firstn_all2 by assumption. reflexivity.
Qed.

Lemma clamp_firstn : forall v (l : bytes), firstn (clamp v l) l = firstn (N.to_nat v) l.
Proof.
  intros v l. unfold clamp. rewrite N2Nat.inj_min, Nat2N.id.
  destruct (Nat.le_ge_cases (N.to_nat v) (length l)) as [H|H].
  - now rewrite Nat.min_l.
  - rewrite Nat.min_r by assumption. rewrite firstn_all, firstn_all2; auto.
Qed.

Lemma clamp_skipn : forall v (l : bytes), skipn (clamp v l) l = skipn (N.to_nat v) l.
Proof.
  intros v l. unfold clamp. rewrite N2Nat.inj_min, Nat2N.id.
  destruct (Nat.le_ge_cases (N.to_nat v) (length l)) as [H|H].
  - now rewrite Nat.min_l.
  - rewrite Nat.min_r by assumption. rewrite skipn_all, skipn_all2; auto.
Qed.

(* ------------------------------------------------------------ padding *)

Lemma ALIGN_pos : ALIGN <> 0.
Proof. discriminate. Qed.

Lemma pad_len_lt : forall n, pad_len n < ALIGN.
Proof.
  intros n. unfold pad_len. pose proof (Nat.mod_upper_bound n ALIGN ALIGN_pos) as H.
  destruct (n mod ALIGN) eqn:E; [pose proof ALIGN_pos; lia | lia].
Qed.

Lemma pad_len_aligned : forall n, (n + pad_len n) mod ALIGN = 0.
Proof.
  intros n. unfold pad_len. pose proof (Nat.mod_upper_bound n ALIGN ALIGN_pos) as H.
  destruct (n mod ALIGN) eqn:E.
  - now rewrite Nat.add_0_r.
  - rewrite (Nat.div_mod n ALIGN ALIGN_pos) at 1. rewrite E.
    replace (ALIGN * (n / ALIGN) + S n0 + (ALIGN - S n0)) with (ALIGN + ALIGN * (n / ALIGN)) by lia.
    rewrite Nat.mul_comm, Nat.mod_add by apply ALIGN_pos. now apply Nat.mod_same, ALIGN_pos.
Qed.

Lemma spaces_length : forall k, length (spaces k) = k.
Proof. intros. apply repeat_length. Qed.

Lemma firstn_spaces : forall j k, firstn j (spaces k) = spaces (Nat.min j k).
Proof.
  induction j as [|j IH]; intros [|k]; cbn; try reflexivity. f_equal. apply IH.
Qed.

(* ------------------------------------------------------------ round trip / prefix safety *)

Definition rt {A} (d : parser A) (e : bytes) (a : A) : Prop :=
  forall rest, d (e ++ rest) = Ok (a, rest).

(* every proper prefix of e is rejected, or - only from position t on - accepted with the same value
   and nothing left over *)
Definition psafeT {A} (d : parser A) (e : bytes) (a : A) (t : nat) : Prop :=
  forall k, k < length e -> d (firstn k e) = Err \/ (t <= k /\ d (firstn k e) = Ok (a, [])).

Lemma rt_ret : forall {A} (a : A), rt (ret a) [] a.
Proof. intros A a rest. reflexivity. Qed.

Lemma rt_bind : forall {A B} (d1 : parser A) (f : A -> parser B) e1 e2 a b,
  rt d1 e1 a -> rt (f a) e2 b -> rt (bind d1 f) (e1 ++ e2) b.
Proof. intros A B d1 f e1 e2 a b H1 H2 rest. unfold bind. rewrite <- app_assoc, H1. apply H2. Qed.

Lemma rt_bind_ret : forall {A B} (d1 : parser A) (g : A -> B) e1 a,
  rt d1 e1 a -> rt (bind d1 (fun x => ret (g x))) e1 (g a).
Proof. intros A B d1 g e1 a H1 rest. unfold bind. now rewrite H1. Qed.

Lemma psafeT_weaken : forall {A} (d : parser A) e a t t', t' <= t -> psafeT d e a t -> psafeT d e a t'.
Proof. intros A d e a t t' Ht H k Hk. destruct (H k Hk) as [E|[L E]]; [left|right]; auto. split; [lia|auto]. Qed.

Lemma psafeT_bind : forall {A B} (d1 : parser A) (f : A -> parser B) e1 e2 a b t1 t2,
  rt d1 e1 a -> psafeT d1 e1 a t1 -> psafeT (f a) e2 b t2 -> 0 < t2 -> 0 < length e2 ->
  psafeT (bind d1 f) (e1 ++ e2) b (length e1 + t2).
Proof.
  intros A B d1 f e1 e2 a b t1 t2 R1 P1 P2 Ht Hne k Hk. rewrite app_length in Hk. unfold bind.
  destruct (firstn_app_cases k e1 e2) as [[Hl E]|[Hl E]]; rewrite E.
  - destruct (P1 k Hl) as [E1|[_ E1]]; rewrite E1; [now left|].
    destruct (P2 0 Hne) as [E2|[L2 _]]; [|lia]. cbn in E2. now left.
  - rewrite R1. destruct (P2 (k - length e1) ltac:(lia)) as [E2|[L2 E2]]; [now left|right].
    split; [lia|assumption].
Qed.

(* the continuation consumes nothing *)
Lemma psafeT_bind_ret : forall {A B} (d1 : parser A) (g : A -> B) e1 a t1,
  psafeT d1 e1 a t1 -> psafeT (bind d1 (fun x => ret (g x))) e1 (g a) t1.
Proof.
  intros A B d1 g e1 a t1 P1 k Hk. unfold bind.
  destruct (P1 k Hk) as [E1|[L E1]]; rewrite E1; [now left|right]. split; [assumption|reflexivity].
Qed.

(* the first parser consumes nothing of the encoding (e.g. a pure check) *)
Lemma psafeT_strict : forall {A} (d : parser A) e a, (forall k, k < length e -> d (firstn k e) = Err) -> psafeT d e a (length e).
Proof. intros A d e a H k Hk. left. now apply H. Qed.

Lemma psafeT_bind_strict : forall {A B} (d1 : parser A) (f : A -> parser B) e1 e2 a b t2,
  rt d1 e1 a -> (forall k, k < length e1 -> d1 (firstn k e1) = Err) -> psafeT (f a) e2 b t2 ->
  psafeT (bind d1 f) (e1 ++ e2) b (length e1 + t2).
Proof.
  intros A B d1 f e1 e2 a b t2 R1 P1 P2 k Hk. rewrite app_length in Hk. unfold bind.
  destruct (firstn_app_cases k e1 e2) as [[Hl E]|[Hl E]]; rewrite E.
  - rewrite (P1 k Hl). now left.
  - rewrite R1. destruct (P2 (k - length e1) ltac:(lia)) as [E2|[L2 E2]]; [now left|right].
    split; [lia|assumption].
Qed.

Definition thr (e2 : bytes) (t1 l1 t2 : nat) : nat := match e2 with [] => t1 | _ => l1 + t2 end.

Lemma psafeT_bind_gen : forall {A B} (d1 : parser A) (f : A -> parser B) e1 e2 a b t1 t2,
  rt d1 e1 a -> psafeT d1 e1 a t1 -> rt (f a) e2 b -> psafeT (f a) e2 b t2 -> (0 < length e2 -> 0 < t2) ->
  psafeT (bind d1 f) (e1 ++ e2) b (thr e2 t1 (length e1) t2).
Proof.
  intros A B d1 f e1 e2 a b t1 t2 R1 P1 R2 P2 Ht.
  destruct e2 as [|x e2]; unfold thr.
  - rewrite app_nil_r. intros k Hk. unfold bind.
    destruct (P1 k Hk) as [E1|[L E1]]; rewrite E1; [now left|right]. split; [assumption|].
    apply (R2 []).
  - apply (psafeT_bind d1 f e1 (x :: e2) a b t1 t2); auto; cbn; try lia. apply Ht. cbn. lia.
Qed.

(* ------------------------------------------------------------ lit / version / take *)

Lemma starts_with_app : forall s r, starts_with s (s ++ r) = true.
Proof. induction s as [|x s IH]; intros r; cbn; [reflexivity|]. now rewrite N.eqb_refl, IH. Qed.

Lemma starts_with_short : forall s bs, length bs < length s -> starts_with s bs = false.
Proof.
  induction s as [|x s IH]; intros bs H; cbn in *; [lia|].
  destruct bs as [|y bs]; [reflexivity|]. cbn in H. rewrite IH by lia. apply andb_false_r.
Qed.

Lemma lit_rt : forall s, rt (lit s) s tt.
Proof. intros s rest. unfold lit. now rewrite starts_with_app, skipn_app_l. Qed.

Lemma lit_strict : forall s k, k < length s -> lit s (firstn k s) = Err.
Proof. intros s k H. unfold lit. rewrite starts_with_short; [reflexivity|]. rewrite firstn_length. lia. Qed.

Lemma version_rt : forall a b, rt p_version [a; b] (a, b).
Proof. intros a b rest. reflexivity. Qed.

Lemma version_strict : forall a b k, k < length [a; b] -> p_version (firstn k [a; b]) = Err.
Proof. intros a b k H. cbn in H. destruct k as [|[|k]]; cbn; try reflexivity. lia. Qed.

Lemma take_rt : forall w c, length c = w -> rt (take w) c c.
Proof.
  intros w c H rest. unfold take. rewrite app_length.
  replace (length c + length rest <? w) with false by (symmetry; apply Nat.ltb_ge; lia).
  subst w. now rewrite firstn_app_l, skipn_app_l.
Qed.

Lemma take_strict : forall w c k, length c = w -> k < length c -> take w (firstn k c) = Err.
Proof.
  intros w c k H Hk. unfold take. rewrite firstn_length.
  replace (Nat.min k (length c) <? w) with true; [reflexivity|]. symmetry. apply Nat.ltb_lt. lia.
Qed.

(* ------------------------------------------------------------ length-prefixed payload *)

Section PBlob.
  Context {A : Type} (nlen : nat) (pd : bytes -> option A) (e pad : bytes) (a : A).
  Hypothesis fits : (N.of_nat (length (e ++ pad)) < 256 ^ N.of_nat nlen)%N.
  Hypothesis pd_ok : forall j, j <= length pad -> pd (e ++ firstn j pad) = Some a.
  Hypothesis pd_strict : forall k, k < length e -> pd (firstn k e) = None.

  Definition pblob_enc : bytes := le_enc nlen (N.of_nat (length (e ++ pad))) ++ e ++ pad.

  Lemma pblob_rt : rt (dec_pblob nlen pd) pblob_enc a.
  Proof.
    intros rest. unfold dec_pblob, pblob_enc. rewrite <- !app_assoc.
    set (lenc := le_enc nlen _).
    assert (Hl : length lenc = nlen) by apply le_enc_length.
    rewrite (firstn_app_len nlen lenc _ Hl), (skipn_app_len nlen lenc _ Hl), Hl, Nat.eqb_refl. cbn [negb].
    unfold lenc. rewrite le_decode_encode by assumption.
    rewrite clamp_firstn, clamp_skipn, Nat2N.id.
    rewrite (app_assoc e pad rest). rewrite firstn_app_l, skipn_app_l.
    specialize (pd_ok (length pad) (le_n _)). rewrite firstn_all in pd_ok. now rewrite pd_ok.
  Qed.

  Lemma pblob_psafe : psafeT (dec_pblob nlen pd) pblob_enc a (nlen + length e).
  Proof.
    intros k Hk. unfold pblob_enc in *. set (lenc := le_enc nlen _) in *.
    assert (Hl : length lenc = nlen) by apply le_enc_length.
    rewrite app_length, Hl in Hk. unfold dec_pblob.
    destruct (firstn_app_cases k lenc (e ++ pad)) as [[Hlt E]|[Hge E]]; rewrite E.
    - left. rewrite Hl in Hlt. rewrite firstn_firstn.
      rewrite firstn_length, Hl. replace (Nat.min (Nat.min nlen k) nlen) with k by lia.
      replace (k =? nlen) with false by (symmetry; apply Nat.eqb_neq; lia). reflexivity.
    - rewrite Hl in *. set (k' := k - nlen). assert (Hk' : k' < length (e ++ pad)) by (unfold k'; lia).
      rewrite (firstn_app_len nlen lenc _ Hl), (skipn_app_len nlen lenc _ Hl), Hl, Nat.eqb_refl. cbn [negb].
      unfold lenc. rewrite le_decode_encode by assumption.
      rewrite clamp_firstn, clamp_skipn, Nat2N.id.
      rewrite firstn_all2 by (rewrite firstn_length; lia).
      rewrite skipn_all2 by (rewrite firstn_length; lia).
      destruct (firstn_app_cases k' e pad) as [[Hlt2 E2]|[Hge2 E2]]; rewrite E2.
      + left. now rewrite pd_strict.
      + right. rewrite app_length in Hk'. rewrite pd_ok by (unfold k' in *; lia). split; [unfold k' in *; lia|reflexivity].
  Qed.
End PBlob.
