(* List level facts about one neighbourhood (a list of (index, bias) kept
   strictly sorted by index) and about the positional list editors of
   Model/Adj.v.  Everything is by induction on lists, no bound on sizes. *)
From Coq Require Import List ZArith QArith Qcanon Bool Arith Lia Sorted.
From Dimod Require Import Base.Util Model.Poly Model.Adj.
Import ListNotations.
Local Open Scope nat_scope.

(* ---------- sortedness ---------- *)
Definition lt_all (w : nat) (r : nbh) : Prop := forall e, In e r -> w < fst e.
Definition ksorted (n : nbh) : Prop := StronglySorted lt (map fst n).

(* value of an optional bias, 0 when absent (what `quadratic` reads) *)
Definition odef (o : option Qc) : Qc := match o with Some b => b | None => 0%Qc end.

Lemma ksorted_nil : ksorted [].
Proof. constructor. Qed.

Lemma ksorted_cons w b r : ksorted ((w, b) :: r) <-> lt_all w r /\ ksorted r.
Proof.
  unfold ksorted, lt_all; cbn [map fst]. split.
  - intros H. inversion H as [|? ? Hs Hf]; subst. split; [|exact Hs].
    intros e He. rewrite Forall_forall in Hf. apply Hf. apply in_map. exact He.
  - intros [Hf Hs]. constructor; [exact Hs|]. apply Forall_forall. intros x Hx.
    apply in_map_iff in Hx. destruct Hx as [e [<- He]]. auto.
Qed.

Lemma ksorted_tail e r : ksorted (e :: r) -> ksorted r.
Proof. destruct e as [w b]. rewrite ksorted_cons. tauto. Qed.

Lemma ksorted_single w b : ksorted [(w, b)].
Proof. apply ksorted_cons. split; [intros e []|apply ksorted_nil]. Qed.

Lemma strictly_sorted_iff n : strictly_sorted n = true <-> ksorted n.
Proof.
  induction n as [|[w b] r IH].
  - split; [intros _; apply ksorted_nil | reflexivity].
  - rewrite ksorted_cons. destruct r as [|[w' b'] r'].
    + cbn. split; [intros _; split; [intros e []| apply ksorted_nil] | reflexivity].
    + change (strictly_sorted ((w,b)::(w',b')::r')) with ((w <? w') && strictly_sorted ((w',b')::r')).
      rewrite andb_true_iff, IH, Nat.ltb_lt. rewrite ksorted_cons. split.
      * intros [Hlt [Hall Hs]]. split; [|split; assumption].
        intros e [<-|He]; cbn [fst]; [exact Hlt|]. specialize (Hall e He). lia.
      * intros [Hall [Hall' Hs]]. split; [|split; assumption].
        apply (Hall (w',b')). left; reflexivity.
Qed.

Lemma ksorted_app n1 n2 :
  ksorted (n1 ++ n2) <->
  ksorted n1 /\ ksorted n2 /\ (forall e1 e2, In e1 n1 -> In e2 n2 -> fst e1 < fst e2).
Proof.
  induction n1 as [|[w b] r IH]; cbn [app].
  - split; [intros H; repeat split; [apply ksorted_nil|exact H|intros ? ? []] | tauto].
  - rewrite !ksorted_cons, IH. unfold lt_all. split.
    + intros [Hall [H1 [H2 H12]]]. repeat split; try assumption.
      * intros e He. apply Hall. apply in_or_app. auto.
      * intros e1 e2 [<-|H] He2; [cbn [fst]; apply Hall, in_or_app; auto|auto].
    + intros [[Hall H1] [H2 H12]]. repeat split; try assumption.
      * intros e He. apply in_app_or in He. destruct He as [He|He]; [auto|].
        apply (H12 (w,b) e); [left; reflexivity|exact He].
      * intros e1 e2 H He2. apply H12; [right|]; assumption.
Qed.

Lemma ksorted_NoDup n : ksorted n -> NoDup (map fst n).
Proof.
  induction n as [|[w b] r IH]; [constructor|]. rewrite ksorted_cons. intros [Hall Hs].
  cbn [map fst]. constructor; [|auto]. intros Hin. apply in_map_iff in Hin.
  destruct Hin as [e [E He]]. specialize (Hall e He). lia.
Qed.

(* ---------- lookup ---------- *)
Lemma nb_get_In_1 v n b : nb_get v n = Some b -> In (v, b) n.
Proof.
  induction n as [|[w c] r IH]; cbn [nb_get]; [discriminate|].
  destruct (Nat.ltb_spec w v) as [L|L]; [intros Hg; right; auto|].
  destruct (Nat.eqb_spec w v) as [E|E]; [|discriminate]. intros [= <-]. subst; left; reflexivity.
Qed.

Lemma nb_get_lt_all v w r : lt_all w r -> v <= w -> nb_get v r = None.
Proof.
  destruct r as [|[k c] r]; [reflexivity|]. intros H Hv.
  specialize (H (k,c) (or_introl eq_refl)). cbn [fst] in H. cbn [nb_get].
  destruct (Nat.ltb_spec k v) as [?L|?L]; [lia|]. destruct (Nat.eqb_spec k v) as [?L|?L]; [lia|reflexivity].
Qed.

Lemma nb_get_In_2 v n b : ksorted n -> In (v, b) n -> nb_get v n = Some b.
Proof.
  induction n as [|[w c] r IH]; [intros _ []|]. rewrite ksorted_cons.
  intros [Hall Hs] [E|Hin]; cbn [nb_get].
  - injection E as -> ->. rewrite Nat.ltb_irrefl, Nat.eqb_refl. reflexivity.
  - specialize (Hall _ Hin). cbn [fst] in Hall. destruct (Nat.ltb_spec w v) as [?L|?L]; [|lia]. auto.
Qed.

Lemma nb_get_In v n b : ksorted n -> (nb_get v n = Some b <-> In (v, b) n).
Proof. intros H; split; [apply nb_get_In_1|apply nb_get_In_2; exact H]. Qed.

Lemma nb_get_None_iff v n : ksorted n -> (nb_get v n = None <-> ~ In v (map fst n)).
Proof.
  intros Hs. split.
  - intros HN Hin. apply in_map_iff in Hin. destruct Hin as [[k b] [E He]]. cbn [fst] in E. subst k.
    apply (nb_get_In_2 _ _ _ Hs) in He. congruence.
  - intros Hn. destruct (nb_get v n) as [b|] eqn:E; [|reflexivity].
    exfalso. apply Hn. apply nb_get_In_1 in E. apply in_map_iff. exists (v, b). auto.
Qed.

(* two sorted lists with the same membership at a key read the same there *)
Lemma nb_get_eq_of_In y y' n1 n2 :
  ksorted n1 -> ksorted n2 -> (forall b, In (y, b) n1 <-> In (y', b) n2) ->
  nb_get y n1 = nb_get y' n2.
Proof.
  intros H1 H2 H. destruct (nb_get y n1) as [b|] eqn:E1.
  - symmetry. apply nb_get_In_2; [exact H2|]. apply H. apply nb_get_In_1. exact E1.
  - destruct (nb_get y' n2) as [b|] eqn:E2; [|reflexivity].
    apply nb_get_In_1, H, (nb_get_In_2 _ _ _ H1) in E2. congruence.
Qed.

(* a sorted neighbourhood is determined by its lookups *)
Lemma ksorted_ext n1 n2 :
  ksorted n1 -> ksorted n2 -> (forall w, nb_get w n1 = nb_get w n2) -> n1 = n2.
Proof.
  revert n2. induction n1 as [|[w b] r IH]; intros [|[w' b'] r'] H1 H2 H.
  - reflexivity.
  - specialize (H w'). cbn [nb_get] in H. rewrite Nat.ltb_irrefl, Nat.eqb_refl in H. discriminate.
  - specialize (H w). cbn [nb_get] in H. rewrite Nat.ltb_irrefl, Nat.eqb_refl in H. discriminate.
  - assert (Hw : nb_get w ((w', b') :: r') = Some b).
    { rewrite <- H. cbn [nb_get]. rewrite Nat.ltb_irrefl, Nat.eqb_refl. reflexivity. }
    assert (Hw' : nb_get w' ((w, b) :: r) = Some b').
    { rewrite H. cbn [nb_get]. rewrite Nat.ltb_irrefl, Nat.eqb_refl. reflexivity. }
    apply nb_get_In_1 in Hw, Hw'. apply ksorted_cons in H1, H2.
    destruct H1 as [A1 S1], H2 as [A2 S2].
    assert (E : w = w' /\ b = b').
    { destruct Hw as [E|Hw]; [injection E; auto|]. destruct Hw' as [E|Hw']; [injection E; auto|].
      specialize (A1 _ Hw'). specialize (A2 _ Hw). cbn [fst] in *. lia. }
    destruct E as [<- <-]. f_equal. apply IH; [assumption..|].
    intros k. specialize (H k). cbn [nb_get] in H.
    destruct (Nat.ltb_spec w k) as [?L|?L]; [exact H|].
    rewrite (nb_get_lt_all k w r A1), (nb_get_lt_all k w r' A2) by lia. reflexivity.
Qed.

(* ---------- nb_upsert ---------- *)
Lemma nb_get_upsert_same f v n :
  nb_get v (nb_upsert f v n) = Some (f (odef (nb_get v n))).
Proof.
  induction n as [|[w b] r IH]; cbn [nb_upsert nb_get].
  - rewrite Nat.ltb_irrefl, Nat.eqb_refl. reflexivity.
  - destruct (Nat.ltb_spec w v) as [L|L]; cbn [nb_get].
    + destruct (Nat.ltb_spec w v) as [?L|?L]; [exact IH|lia].
    + destruct (Nat.eqb_spec w v) as [E|E]; cbn [nb_get].
      * subst. rewrite Nat.ltb_irrefl, Nat.eqb_refl. reflexivity.
      * rewrite Nat.ltb_irrefl, Nat.eqb_refl. reflexivity.
Qed.

Lemma nb_get_upsert_other f v w n :
  w <> v -> nb_get w (nb_upsert f v n) = nb_get w n.
Proof.
  intros Hne. induction n as [|[k b] r IH]; cbn [nb_upsert nb_get].
  - destruct (Nat.ltb_spec v w) as [?L|?L]; [reflexivity|]. destruct (Nat.eqb_spec v w) as [?L|?L]; [congruence|reflexivity].
  - destruct (Nat.ltb_spec k v) as [L|L]; cbn [nb_get].
    + rewrite IH. reflexivity.
    + destruct (Nat.eqb_spec k v) as [E|E]; cbn [nb_get].
      * subst. destruct (Nat.ltb_spec v w) as [?L|?L]; [reflexivity|].
        destruct (Nat.eqb_spec v w) as [?L|?L]; [congruence|reflexivity].
      * destruct (Nat.ltb_spec v w) as [?L|?L]; [reflexivity|].
        destruct (Nat.eqb_spec v w) as [?L|?L]; [congruence|].
        destruct (Nat.ltb_spec k w) as [?L|?L]; [lia|]. destruct (Nat.eqb_spec k w) as [?L|?L]; [lia|reflexivity].
Qed.

Lemma nb_upsert_keys f v n k :
  In k (map fst (nb_upsert f v n)) <-> k = v \/ In k (map fst n).
Proof.
  induction n as [|[w b] r IH]; cbn [nb_upsert map fst In].
  - intuition.
  - destruct (Nat.ltb_spec w v) as [L|L]; cbn [map fst In].
    + rewrite IH. tauto.
    + destruct (Nat.eqb_spec w v) as [E|E]; cbn [map fst In]; [subst|]; intuition.
Qed.

Lemma nb_upsert_in f v n e : In e (nb_upsert f v n) -> fst e = v \/ In (fst e) (map fst n).
Proof. intros H. apply (nb_upsert_keys f v n). apply in_map. exact H. Qed.

Lemma lt_all_keys w r : lt_all w r <-> (forall k, In k (map fst r) -> w < k).
Proof.
  unfold lt_all. split.
  - intros H k Hk. apply in_map_iff in Hk. destruct Hk as [e [<- He]]. auto.
  - intros H e He. apply H. apply in_map. exact He.
Qed.

Lemma nb_upsert_sorted f v n : ksorted n -> ksorted (nb_upsert f v n).
Proof.
  induction n as [|[w b] r IH]; cbn [nb_upsert].
  - intros _. apply ksorted_single.
  - intros Hs. pose proof Hs as Hs0. apply ksorted_cons in Hs. destruct Hs as [Hall Hs].
    destruct (Nat.ltb_spec w v) as [L|L].
    + apply ksorted_cons. split; [|auto]. intros e He. apply nb_upsert_in in He.
      destruct He as [->|He]; [exact L|]. apply (proj1 (lt_all_keys w r) Hall). exact He.
    + destruct (Nat.eqb_spec w v) as [E|E].
      * apply ksorted_cons. split; assumption.
      * apply ksorted_cons. split; [|exact Hs0]. intros e [<-|He]; cbn [fst]; [lia|].
        specialize (Hall e He). lia.
Qed.

(* ---------- nb_erase ---------- *)
Lemma nb_erase_in v n e : In e (nb_erase v n) -> In e n.
Proof.
  induction n as [|[w b] r IH]; cbn [nb_erase]; [tauto|].
  destruct (Nat.ltb_spec w v) as [?L|?L]; [intros [H|H]; [left; exact H|right; auto]|].
  destruct (Nat.eqb_spec w v) as [?L|?L]; [intros H; right; exact H|tauto].
Qed.

Lemma nb_erase_sorted v n : ksorted n -> ksorted (nb_erase v n).
Proof.
  induction n as [|[w b] r IH]; cbn [nb_erase]; [tauto|].
  intros Hs. pose proof Hs as Hs0. apply ksorted_cons in Hs. destruct Hs as [Hall Hs].
  destruct (Nat.ltb_spec w v) as [?L|?L].
  - apply ksorted_cons. split; [|auto]. intros e He. apply Hall. eapply nb_erase_in; eassumption.
  - destruct (Nat.eqb_spec w v) as [?L|?L]; assumption.
Qed.

Lemma nb_get_erase_same v n : ksorted n -> nb_get v (nb_erase v n) = None.
Proof.
  induction n as [|[w b] r IH]; cbn [nb_erase]; [reflexivity|].
  intros Hs. apply ksorted_cons in Hs. destruct Hs as [Hall Hs].
  destruct (Nat.ltb_spec w v) as [L|L]; cbn [nb_get].
  - destruct (Nat.ltb_spec w v) as [?L|?L]; [auto|lia].
  - destruct (Nat.eqb_spec w v) as [E|E].
    + apply (nb_get_lt_all v w r Hall). lia.
    + cbn [nb_get]. destruct (Nat.ltb_spec w v) as [?L|?L]; [lia|].
      destruct (Nat.eqb_spec w v) as [?L|?L]; [lia|reflexivity].
Qed.

Lemma nb_get_erase_other v w n : ksorted n -> w <> v -> nb_get w (nb_erase v n) = nb_get w n.
Proof.
  intros Hs Hne. induction n as [|[k b] r IH]; cbn [nb_erase]; [reflexivity|].
  apply ksorted_cons in Hs. destruct Hs as [Hall Hs].
  destruct (Nat.ltb_spec k v) as [L|L]; cbn [nb_get].
  - rewrite IH by assumption. reflexivity.
  - destruct (Nat.eqb_spec k v) as [E|E]; [|reflexivity]. subst k.
    destruct (Nat.ltb_spec v w) as [?L|?L]; [reflexivity|].
    destruct (Nat.eqb_spec v w) as [?L|?L]; [congruence|]. apply (nb_get_lt_all w v r Hall). lia.
Qed.

Lemma nb_erase_keys v n k : ksorted n ->
  (In k (map fst (nb_erase v n)) <-> k <> v /\ In k (map fst n)).
Proof.
  intros Hs. pose proof (nb_erase_sorted v n Hs) as Hs'. split.
  - intros Hin. destruct (Nat.eq_dec k v) as [->|Hne].
    + exfalso. apply (proj1 (nb_get_None_iff v _ Hs') (nb_get_erase_same v n Hs)). exact Hin.
    + split; [exact Hne|]. apply in_map_iff in Hin. destruct Hin as [e [<- He]].
      apply in_map. eapply nb_erase_in; eassumption.
  - intros [Hne Hin]. destruct (nb_get k (nb_erase v n)) as [b|] eqn:E.
    + apply nb_get_In_1 in E. apply in_map_iff. exists (k, b). auto.
    + rewrite nb_get_erase_other in E by assumption.
      apply (nb_get_None_iff k n Hs) in E. contradiction.
Qed.

(* ---------- nb_below (resize) ---------- *)
Lemma nb_below_in k n e : In e (nb_below k n) -> In e n /\ fst e < k.
Proof.
  induction n as [|[w b] r IH]; cbn [nb_below]; [intros []|].
  destruct (Nat.ltb_spec w k) as [Lk|Lk]; [|intros []].
  intros [<-|H]; [split; [left; reflexivity|exact Lk]|]. destruct (IH H) as [I1 I2]. split; [right|]; assumption.
Qed.

Lemma nb_below_sorted k n : ksorted n -> ksorted (nb_below k n).
Proof.
  induction n as [|[w b] r IH]; cbn [nb_below]; [tauto|].
  intros Hs. apply ksorted_cons in Hs. destruct Hs as [Hall Hs].
  destruct (Nat.ltb_spec w k) as [?L|?L]; [|apply ksorted_nil].
  apply ksorted_cons. split; [|auto]. intros e He. apply Hall. apply (nb_below_in k r e He).
Qed.

Lemma nb_get_below k y n : nb_get y (nb_below k n) = if y <? k then nb_get y n else None.
Proof.
  induction n as [|[w b] r IH]; cbn [nb_below nb_get]; [destruct (y <? k); reflexivity|].
  destruct (Nat.ltb_spec w k) as [L|L]; cbn [nb_get].
  - rewrite IH. destruct (Nat.ltb_spec y k) as [Y|Y]; [reflexivity|].
    destruct (Nat.ltb_spec w y) as [?L|?L]; [reflexivity|lia].
  - destruct (Nat.ltb_spec y k) as [Y|Y]; [|reflexivity].
    destruct (Nat.ltb_spec w y) as [?L|?L]; [lia|]. destruct (Nat.eqb_spec w y) as [?L|?L]; [lia|reflexivity].
Qed.

Lemma nb_below_filter k n : ksorted n -> nb_below k n = filter (fun e => fst e <? k) n.
Proof.
  induction n as [|[w b] r IH]; cbn [nb_below filter fst]; [reflexivity|].
  intros Hs. apply ksorted_cons in Hs. destruct Hs as [Hall Hs].
  destruct (Nat.ltb_spec w k) as [L|L]; [rewrite IH by assumption; reflexivity|].
  symmetry. clear IH Hs. induction r as [|e r IHr]; [reflexivity|]. cbn [filter].
  pose proof (Hall e (or_introl eq_refl)) as He. destruct (Nat.ltb_spec (fst e) k) as [?L|?L]; [lia|].
  apply IHr. intros e' He'. apply Hall. right. exact He'.
Qed.

(* ---------- scaling ---------- *)
Definition nb_scale (k : Qc) (n : nbh) : nbh := map (fun e => (fst e, (k * snd e)%Qc)) n.

Lemma nb_scale_keys k n : map fst (nb_scale k n) = map fst n.
Proof. unfold nb_scale. rewrite map_map. apply map_ext. reflexivity. Qed.

Lemma nb_scale_sorted k n : ksorted n -> ksorted (nb_scale k n).
Proof. unfold ksorted. rewrite nb_scale_keys. tauto. Qed.

Lemma nb_get_scale k y n : nb_get y (nb_scale k n) = option_map (Qcmult k) (nb_get y n).
Proof.
  induction n as [|[w b] r IH]; cbn [nb_scale map nb_get fst snd]; [reflexivity|].
  fold (nb_scale k r). rewrite IH. destruct (w <? y); [reflexivity|]. destruct (w =? y); reflexivity.
Qed.

(* ---------- order preserving renaming of the keys of a filtered neighbourhood ---------- *)
Lemma map_filter_sorted (g : nat -> nat) (p : nat * Qc -> bool) n :
  ksorted n ->
  (forall e1 e2, In e1 n -> In e2 n -> p e1 = true -> p e2 = true ->
                 fst e1 < fst e2 -> g (fst e1) < g (fst e2)) ->
  ksorted (map (fun e => (g (fst e), snd e)) (filter p n)).
Proof.
  induction n as [|[w b] r IH]; cbn [filter map]; [intros; apply ksorted_nil|].
  intros Hs Hg. apply ksorted_cons in Hs. destruct Hs as [Hall Hs].
  assert (IH' : ksorted (map (fun e => (g (fst e), snd e)) (filter p r))).
  { apply IH; [exact Hs|]. intros e1 e2 H1 H2. apply Hg; right; assumption. }
  destruct (p (w, b)) eqn:Ep; [|exact IH']. cbn [map fst snd].
  apply ksorted_cons. split; [|exact IH']. intros e He. apply in_map_iff in He.
  destruct He as [e0 [<- He0]]. apply filter_In in He0. destruct He0 as [He0 Hp0]. cbn [fst].
  apply (Hg (w, b) e0); [left; reflexivity|right; exact He0|exact Ep|exact Hp0|apply Hall; exact He0].
Qed.

(* ---------- remove_variable's walk (item 6) ---------- *)
Definition shift_key (v k : nat) : nat := if v <? k then k - 1 else k.
Definition skip (v x : nat) : nat := if x <? v then x else S x.

Definition nb_remove_var_spec (v : nat) (n : nbh) : nbh :=
  map (fun e => (shift_key v (fst e), snd e)) (filter (fun e => negb (fst e =? v)) n).

Lemma filter_rev {A} (p : A -> bool) l : filter p (rev l) = rev (filter p l).
Proof.
  induction l as [|x l IH]; [reflexivity|]. cbn [rev filter].
  rewrite filter_app, IH. cbn [filter]. destruct (p x); cbn [rev]; [reflexivity|apply app_nil_r].
Qed.

Lemma spec_id_below v l :
  (forall e, In e l -> fst e < v) ->
  map (fun e : nat * Qc => (shift_key v (fst e), snd e)) (filter (fun e => negb (fst e =? v)) l) = l.
Proof.
  induction l as [|[w b] r IH]; [reflexivity|]. intros H. cbn [filter fst].
  pose proof (H (w, b) (or_introl eq_refl)) as Hw. cbn [fst] in Hw.
  destruct (Nat.eqb_spec w v) as [?L|?L]; [lia|]. cbn [negb map fst snd]. unfold shift_key at 1.
  destruct (Nat.ltb_spec v w) as [?L|?L]; [lia|]. f_equal. apply IH. intros e He. apply H. right. exact He.
Qed.

Lemma nb_remove_var_eq v n : ksorted n -> nb_remove_var v n = nb_remove_var_spec v n.
Proof.
  unfold nb_remove_var, nb_remove_var_spec.
  induction n as [|[w b] n' IH] using rev_ind; [reflexivity|].
  intros Hs. apply ksorted_app in Hs. destruct Hs as [Hs [_ H12]].
  assert (Hlt : forall e, In e n' -> fst e < w).
  { intros e He. apply (H12 e (w, b) He). left; reflexivity. }
  rewrite rev_app_distr. cbn [rev app walk_back].
  rewrite filter_app, map_app. cbn [filter fst].
  destruct (Nat.ltb_spec v w) as [L|L].
  - cbn [rev]. rewrite IH by assumption. destruct (Nat.eqb_spec w v) as [?L|?L]; [lia|].
    cbn [negb map fst snd]. unfold shift_key at 3. destruct (Nat.ltb_spec v w) as [?L|?L]; [|lia]. reflexivity.
  - destruct (Nat.eqb_spec w v) as [E|E]; cbn [negb map].
    + rewrite rev_involutive, app_nil_r. symmetry. apply spec_id_below. subst. exact Hlt.
    + cbn [rev]. rewrite rev_involutive. cbn [fst snd]. unfold shift_key at 2.
      destruct (Nat.ltb_spec v w) as [?L|?L]; [lia|]. f_equal. symmetry. apply spec_id_below.
      intros e He. specialize (Hlt e He). lia.
Qed.

Lemma nb_remove_var_spec_sorted v n : ksorted n -> ksorted (nb_remove_var_spec v n).
Proof.
  intros Hs. unfold nb_remove_var_spec. apply map_filter_sorted; [exact Hs|].
  intros e1 e2 _ _ H1 H2 Hlt. apply negb_true_iff, Nat.eqb_neq in H1, H2. unfold shift_key.
  destruct (Nat.ltb_spec v (fst e1)) as [?L|?L]; destruct (Nat.ltb_spec v (fst e2)) as [?L|?L]; lia.
Qed.

Lemma nb_remove_var_spec_in v n y b :
  In (y, b) (nb_remove_var_spec v n) <-> In (skip v y, b) n.
Proof.
  unfold nb_remove_var_spec, skip. rewrite in_map_iff. split.
  - intros [[k c] [E He]]. apply filter_In in He. destruct He as [He Hp].
    cbn [fst snd] in *. apply negb_true_iff, Nat.eqb_neq in Hp. injection E as <- <-.
    unfold shift_key. destruct (Nat.ltb_spec v k) as [?L|?L].
    + destruct (Nat.ltb_spec (k - 1) v) as [?L|?L]; [lia|]. replace (S (k - 1)) with k by lia. exact He.
    + destruct (Nat.ltb_spec k v) as [?L|?L]; [exact He|lia].
  - intros He. eexists. split; [|apply filter_In; split; [exact He|]]; cbn [fst snd].
    + f_equal. unfold shift_key. destruct (Nat.ltb_spec y v) as [Y|Y].
      * destruct (Nat.ltb_spec v y) as [?L|?L]; [lia|reflexivity].
      * destruct (Nat.ltb_spec v (S y)) as [?L|?L]; lia.
    + apply negb_true_iff, Nat.eqb_neq. destruct (Nat.ltb_spec y v) as [?L|?L]; lia.
Qed.

Lemma nb_remove_var_sorted v n : ksorted n -> ksorted (nb_remove_var v n).
Proof. intros H. rewrite nb_remove_var_eq by exact H. apply nb_remove_var_spec_sorted, H. Qed.

Lemma nb_get_remove_var v n y : ksorted n -> nb_get y (nb_remove_var v n) = nb_get (skip v y) n.
Proof.
  intros H. rewrite nb_remove_var_eq by exact H.
  apply nb_get_eq_of_In; [apply nb_remove_var_spec_sorted, H|exact H|].
  intros b. apply nb_remove_var_spec_in.
Qed.

(* ---------- append at the back (add_quadratic_back) ---------- *)
Lemma nb_upsert_back f v n :
  (forall e, In e n -> fst e < v) -> nb_upsert f v n = n ++ [(v, f 0%Qc)].
Proof.
  induction n as [|[w b] r IH]; [reflexivity|]. intros H. cbn [nb_upsert app].
  pose proof (H (w, b) (or_introl eq_refl)) as Hw. cbn [fst] in Hw.
  destruct (Nat.ltb_spec w v) as [?L|?L]; [|lia]. f_equal. apply IH. intros e He. apply H. right. exact He.
Qed.

(* "the last index is below v, or the neighbourhood is empty" *)
Definition back_ok (n : nbh) (v : nat) : Prop :=
  match rev n with [] => True | e :: _ => fst e < v end.

Lemma back_ok_all n v : ksorted n -> back_ok n v -> forall e, In e n -> fst e < v.
Proof.
  unfold back_ok. induction n as [|[w b] n' _] using rev_ind; [intros _ _ e []|].
  rewrite rev_app_distr. cbn [rev app fst]. intros Hs Hw e He.
  apply ksorted_app in Hs. destruct Hs as [_ [_ H12]].
  apply in_app_or in He. destruct He as [He|[<-|[]]]; [|exact Hw].
  specialize (H12 e (w, b) He (or_introl eq_refl)). cbn [fst] in H12. lia.
Qed.

(* ---------- positional editors ---------- *)
Lemma upd_nth_length {A} i (f : A -> A) l : length (upd_nth i f l) = length l.
Proof. revert i. induction l as [|x r IH]; intros [|j]; cbn [upd_nth length]; auto. Qed.

Lemma nth_upd_nth_same {A} i (f : A -> A) l d :
  i < length l -> nth i (upd_nth i f l) d = f (nth i l d).
Proof.
  revert i. induction l as [|x r IH]; intros [|j]; cbn [upd_nth length nth]; try lia; auto.
  intros H. apply IH. lia.
Qed.

Lemma nth_upd_nth_other {A} i x (f : A -> A) l d :
  x <> i -> nth x (upd_nth i f l) d = nth x l d.
Proof.
  revert i x. induction l as [|a r IH]; intros [|j] [|x'] H; cbn [upd_nth nth]; try reflexivity; try lia.
  apply IH. lia.
Qed.

Lemma upd_nth_oob {A} i (f : A -> A) l : length l <= i -> upd_nth i f l = l.
Proof.
  revert i. induction l as [|a r IH]; intros [|j]; cbn [upd_nth length]; try reflexivity; try lia.
  intros H. f_equal. apply IH. lia.
Qed.

Lemma upd_nth_ext_at {A} i (f g : A -> A) l :
  (forall x, nth_error l i = Some x -> f x = g x) -> upd_nth i f l = upd_nth i g l.
Proof.
  revert i. induction l as [|a r IH]; intros [|j] H; cbn [upd_nth]; try reflexivity.
  - f_equal. apply H. reflexivity.
  - f_equal. apply IH. exact H.
Qed.

Lemma del_nth_length {A} i (l : list A) : i < length l -> length (del_nth i l) = length l - 1.
Proof.
  revert i. induction l as [|a r IH]; intros [|j]; cbn [del_nth length]; try lia.
  intros H. rewrite IH by lia. lia.
Qed.

Lemma nth_del_nth {A} i x (l : list A) d : nth x (del_nth i l) d = nth (skip i x) l d.
Proof.
  unfold skip. revert i x. induction l as [|a r IH]; intros i x.
  - destruct i; cbn [del_nth]; destruct x; destruct (_ <? _); reflexivity.
  - destruct i as [|j]; cbn [del_nth].
    + reflexivity.
    + destruct x as [|x']; [reflexivity|]. cbn [nth]. rewrite IH.
      change (S x' <? S j) with (x' <? j). destruct (x' <? j); reflexivity.
Qed.

Lemma nth_firstn {A} k x (l : list A) d : nth x (firstn k l) d = if x <? k then nth x l d else d.
Proof.
  revert x l. induction k as [|k IH]; intros x l.
  - cbn [firstn]. destruct x; reflexivity.
  - destruct l as [|a r]; cbn [firstn].
    + destruct x; destruct (_ <? _); reflexivity.
    + destruct x as [|x']; [reflexivity|]. cbn [nth]. rewrite IH. reflexivity.
Qed.

Lemma nth_app_repeat {A} x (l : list A) d k : nth x (l ++ repeat d k) d = nth x l d.
Proof.
  destruct (Nat.lt_ge_cases x (length l)) as [H|H].
  - apply app_nth1. exact H.
  - rewrite app_nth2 by exact H. rewrite (nth_overflow l) by exact H.
    generalize (x - length l). induction k as [|k IH]; intros [|j]; cbn [repeat nth]; auto.
Qed.

Lemma nth_map_nil (F : nbh -> nbh) x (l : list nbh) :
  F [] = [] -> nth x (map F l) [] = F (nth x l []).
Proof. intros H. rewrite <- H at 1. apply map_nth. Qed.
