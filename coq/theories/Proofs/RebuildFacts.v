(* Loading restores the whole adjacency: rebuild (lowers a) = a for every well-formed adjacency a. *)
From Coq Require Import List Arith Bool Lia.
From Dimod Require Import Model.Rebuild.
Import ListNotations.

Section Facts.
  Context {B : Type}.
  Notation nbhd := (@nbhd B).

  (* strictly ascending keys, all >= lo *)
  Fixpoint lb_sorted (lo : nat) (l : nbhd) : Prop :=
    match l with
    | [] => True
    | (k, _) :: r => lo <= k /\ lb_sorted (S k) r
    end.

  Fixpoint get (k : nat) (l : nbhd) : option B :=
    match l with
    | [] => None
    | (k', b) :: r => if k' =? k then Some b else get k r
    end.

  Definition opt (v : nat) (o : option B) : nbhd := match o with Some b => [(v, b)] | None => [] end.

  Record AdjWF (a : list nbhd) : Prop := {
    wf_sorted : forall u, u < length a -> lb_sorted 0 (nth u a []);
    wf_range : forall u, u < length a -> Forall (fun e => fst e < length a) (nth u a []);
    wf_sym : forall u v, u < length a -> v < length a -> get v (nth u a []) = get u (nth v a [])
  }.

  (* ------------------------------------------------------------ list updates *)

  Lemma upd_nth_length : forall {A} i (f : A -> A) l, length (upd_nth i f l) = length l.
  Proof. intros A i f l. revert i. induction l as [|x r IH]; intros [|i]; cbn; auto. Qed.

  Lemma nth_upd_nth : forall {A} (d : A) i f l x, i < length l ->
    nth x (upd_nth i f l) d = if x =? i then f (nth i l d) else nth x l d.
  Proof.
    intros A d i f l. revert i. induction l as [|y r IH]; intros [|i] x H; cbn in H; try lia.
    - destruct x; reflexivity.
    - destruct x as [|x]; [reflexivity|]. cbn. apply IH. lia.
  Qed.

  Definition contrib (x : nat) (t : nat * nat * B) : nbhd :=
    match t with
    | (u, v, b) => (if x =? u then [(v, b)] else []) ++ (if (x =? v) && negb (u =? v) then [(u, b)] else [])
    end.

  Lemma push_length : forall (a : list nbhd) t, length (push a t) = length a.
  Proof. intros a [[u v] b]. unfold push. destruct (u =? v); now rewrite ?upd_nth_length. Qed.

  Lemma nth_push : forall (a : list nbhd) u v b x, u < length a -> v < length a ->
    nth x (push a (u, v, b)) [] = nth x a [] ++ contrib x (u, v, b).
  Proof.
    intros a u v b x Hu Hv. unfold push, contrib.
    destruct (u =? v) eqn:E.
    - apply Nat.eqb_eq in E. subst v. rewrite nth_upd_nth by assumption. cbn [negb]. rewrite andb_false_r.
      destruct (x =? u) eqn:E2; [apply Nat.eqb_eq in E2; subst x; now rewrite app_nil_r|now rewrite !app_nil_r].
    - rewrite nth_upd_nth by (now rewrite upd_nth_length). rewrite !nth_upd_nth by assumption.
      rewrite (Nat.eqb_sym v u), E. cbn [negb]. rewrite andb_true_r.
      destruct (x =? v) eqn:E2; destruct (x =? u) eqn:E3.
      + apply Nat.eqb_eq in E2. apply Nat.eqb_eq in E3. subst. now rewrite Nat.eqb_refl in E.
      + apply Nat.eqb_eq in E2. subst x. reflexivity.
      + apply Nat.eqb_eq in E3. subst x. cbn [app]. now rewrite ?app_nil_r.
      + cbn [app]. now rewrite ?app_nil_r.
  Qed.

  Lemma nth_fold_push : forall T (a : list nbhd) x,
    Forall (fun t => fst (fst t) < length a /\ snd (fst t) < length a) T ->
    nth x (fold_left push T a) [] = nth x a [] ++ flat_map (contrib x) T.
  Proof.
    induction T as [|[[u v] b] T IH]; intros a x H; cbn [fold_left flat_map].
    - now rewrite app_nil_r.
    - inversion H as [|? ? [Hu Hv] HT]; subst. cbn [fst snd] in *. rewrite IH.
      + rewrite nth_push by assumption. now rewrite app_assoc.
      + rewrite push_length. exact HT.
  Qed.

  Lemma fold_push_length : forall T (a : list nbhd), length (fold_left push T a) = length a.
  Proof. induction T as [|t T IH]; intros a; cbn; [reflexivity|]. now rewrite IH, push_length. Qed.

  (* ------------------------------------------------------------ sorted association lists *)

  Lemma lb_sorted_weaken : forall l lo lo', lo' <= lo -> lb_sorted lo l -> lb_sorted lo' l.
  Proof. intros [|[k b] r] lo lo' H S; cbn in *; [exact I|]. destruct S. split; [lia|assumption]. Qed.

  Lemma get_below : forall l lo k, lb_sorted lo l -> k < lo -> get k l = None.
  Proof.
    induction l as [|[k' b] r IH]; intros lo k S H; cbn in *; [reflexivity|]. destruct S as [H1 H2].
    replace (k' =? k) with false by (symmetry; apply Nat.eqb_neq; lia). apply (IH (S k')); [assumption|lia].
  Qed.

  Lemma flat_map_nil : forall {A C} (f : A -> list C) l, (forall x, In x l -> f x = []) -> flat_map f l = [].
  Proof. intros A C f l H. induction l as [|x r IH]; cbn; [reflexivity|]. rewrite H by now left. apply IH. intros y Hy. apply H. now right. Qed.

  Lemma flat_map_ext_in : forall {A C} (f g : A -> list C) l, (forall x, In x l -> f x = g x) -> flat_map f l = flat_map g l.
  Proof. intros A C f g l H. induction l as [|x r IH]; cbn; [reflexivity|]. rewrite H by now left. f_equal. apply IH. intros y Hy. apply H. now right. Qed.

  Lemma flat_map_map : forall {A C D} (g : A -> C) (f : C -> list D) l, flat_map f (map g l) = flat_map (fun x => f (g x)) l.
  Proof. intros A C D g f l. induction l as [|x r IH]; cbn; [reflexivity|]. now rewrite IH. Qed.

  Lemma flat_map_flat_map : forall {A C D} (g : A -> list C) (f : C -> list D) l,
    flat_map f (flat_map g l) = flat_map (fun x => flat_map f (g x)) l.
  Proof. intros A C D g f l. induction l as [|x r IH]; cbn; [reflexivity|]. now rewrite flat_map_app, IH. Qed.

  Lemma flat_map_single : forall {A} (f : A -> list A) l, (forall x, In x l -> f x = [x]) -> flat_map f l = l.
  Proof. intros A f l H. induction l as [|x r IH]; cbn; [reflexivity|]. rewrite H by now left. cbn. f_equal. apply IH. intros y Hy. apply H. now right. Qed.

  (* a sorted association list is the enumeration of its keys *)
  Lemma enum : forall len lo l, lb_sorted lo l -> Forall (fun e => fst e < lo + len) l ->
    l = flat_map (fun v => opt v (get v l)) (seq lo len).
  Proof.
    induction len as [|len IH]; intros lo l S R.
    - destruct l as [|[k b] r]; [reflexivity|]. cbn in S. inversion R; subst. cbn in *. lia.
    - cbn [seq flat_map]. destruct l as [|[k b] r].
      + cbn. symmetry. apply flat_map_nil. reflexivity.
      + cbn in S. destruct S as [S1 S2]. inversion R as [|? ? R1 R2]; subst. cbn [fst] in R1.
        destruct (Nat.eq_dec k lo) as [->|Hne].
        * cbn [get]. rewrite Nat.eqb_refl. cbn [opt app]. f_equal.
          rewrite (IH (S lo) r S2) at 1.
          -- apply flat_map_ext_in. intros v Hv. apply in_seq in Hv. cbn [get].
             replace (lo =? v) with false by (symmetry; apply Nat.eqb_neq; lia). reflexivity.
          -- eapply Forall_impl; [|exact R2]. intros e He. cbn in *. lia.
        * rewrite (get_below ((k, b) :: r) k lo) by (cbn; auto; lia). cbn [opt app].
          apply (IH (S lo)); [cbn; split; [lia|assumption]|].
          constructor; [cbn; lia|]. eapply Forall_impl; [|exact R2]. intros e He. cbn in *. lia.
  Qed.

  Lemma lower_sorted : forall v (l : nbhd) lo, lb_sorted lo l -> lb_sorted lo (lower v l).
  Proof.
    unfold lower. induction l as [|[k b] r IH]; intros lo S; cbn in *; [exact I|]. destruct S as [S1 S2].
    destruct (k <=? v); cbn.
    - split; [assumption|now apply IH].
    - apply (lb_sorted_weaken _ (S k)); [lia|now apply IH].
  Qed.

  Lemma lower_range : forall v (l : nbhd), Forall (fun e => fst e < S v) (lower v l).
  Proof.
    unfold lower. intros v l. apply Forall_forall. intros e He. apply filter_In in He as [_ He].
    apply Nat.leb_le in He. lia.
  Qed.

  Lemma get_lower : forall v (l : nbhd) k, k <= v -> get k (lower v l) = get k l.
  Proof.
    unfold lower. induction l as [|[k' b] r IH]; intros k H; cbn; [reflexivity|].
    destruct (k' <=? v) eqn:E; cbn.
    - destruct (k' =? k); [reflexivity|now apply IH].
    - apply Nat.leb_gt in E. replace (k' =? k) with false by (symmetry; apply Nat.eqb_neq; lia). now apply IH.
  Qed.

  Lemma lower_in : forall v (l : nbhd) e, In e (lower v l) -> In e l.
  Proof. unfold lower. intros v l e H. now apply filter_In in H. Qed.

  (* the entries with key x, relabelled: at most one because keys are distinct *)
  Lemma pick_key : forall l lo x v, lb_sorted lo l ->
    flat_map (fun e => if x =? fst e then [(v, snd e)] else []) l = opt v (get x l).
  Proof.
    induction l as [|[k b] r IH]; intros lo x v S; cbn in *; [reflexivity|]. destruct S as [S1 S2].
    rewrite (Nat.eqb_sym x k). destruct (k =? x) eqn:E.
    - apply Nat.eqb_eq in E. subst k. rewrite (IH (S x) x v S2), (get_below r (S x) x S2) by lia. reflexivity.
    - cbn. now apply (IH (S k)).
  Qed.

  Lemma nth_map_seq : forall {C} (f : nat -> C) len v d, v < len -> nth v (map f (seq 0 len)) d = f v.
  Proof.
    intros C f len v d H. rewrite (nth_indep _ d (f 0)) by (now rewrite map_length, seq_length).
    rewrite (map_nth f (seq 0 len) 0 v). now rewrite seq_nth.
  Qed.

  (* ------------------------------------------------------------ the main theorem *)

  Section Main.
    Variable a : list nbhd.
    Hypothesis W : AdjWF a.
    Let n := length a.

    Lemma lowers_length : length (lowers a) = n.
    Proof. unfold lowers. now rewrite map_length, seq_length. Qed.

    Lemma nth_lowers : forall v, v < n -> nth v (lowers a) [] = lower v (nth v a []).
    Proof.
      intros v H. unfold lowers. exact (nth_map_seq (fun v => lower v (nth v a [])) (length a) v [] H).
    Qed.

    Definition row (v : nat) : list (nat * nat * B) := map (fun e => (fst e, v, snd e)) (lower v (nth v a [])).

    Lemma triples_eq : triples (lowers a) = flat_map row (seq 0 n).
    Proof.
      unfold triples. rewrite lowers_length. apply flat_map_ext_in. intros v Hv. apply in_seq in Hv.
      unfold row. now rewrite nth_lowers by lia.
    Qed.

    Lemma triples_range : Forall (fun t => fst (fst t) < n /\ snd (fst t) < n) (triples (lowers a)).
    Proof.
      rewrite triples_eq. apply Forall_forall. intros t Ht. apply in_flat_map in Ht as [v [Hv Ht]].
      apply in_seq in Hv. unfold row in Ht. apply in_map_iff in Ht as [e [<- He]]. cbn [fst snd].
      split; [|lia]. apply lower_in in He. pose proof (wf_range a W v ltac:(unfold n in *; lia)) as R.
      rewrite Forall_forall in R. now apply R.
    Qed.

    (* what row v contributes to the neighbourhood of x *)
    Lemma row_contrib : forall x v, x < n -> v < n ->
      flat_map (contrib x) (row v) =
      if v <? x then [] else if v =? x then lower x (nth x a []) else opt v (get x (nth v a [])).
    Proof.
      intros x v Hx Hv. unfold row. rewrite flat_map_map.
      pose proof (wf_sorted a W v Hv) as Sv.
      destruct (v <? x) eqn:E1.
      - apply Nat.ltb_lt in E1. apply flat_map_nil. intros e He. cbn [contrib fst snd].
        pose proof (lower_range v (nth v a [])) as R. rewrite Forall_forall in R. specialize (R e He).
        replace (x =? fst e) with false by (symmetry; apply Nat.eqb_neq; lia).
        replace (x =? v) with false by (symmetry; apply Nat.eqb_neq; lia). reflexivity.
      - apply Nat.ltb_ge in E1. destruct (v =? x) eqn:E2.
        + apply Nat.eqb_eq in E2. subst v. apply flat_map_single. intros [k b] He. cbn [contrib fst snd].
          rewrite Nat.eqb_refl. cbn [andb]. destruct (x =? k) eqn:E3.
          * apply Nat.eqb_eq in E3. subst k. rewrite Nat.eqb_refl. reflexivity.
          * rewrite (Nat.eqb_sym k x), E3. reflexivity.
        + apply Nat.eqb_neq in E2.
          rewrite <- (get_lower v (nth v a []) x) by lia.
          rewrite <- (pick_key (lower v (nth v a [])) 0 x v (lower_sorted v _ 0 Sv)).
          apply flat_map_ext_in. intros e He. cbn [contrib fst snd].
          replace (x =? v) with false by (symmetry; apply Nat.eqb_neq; lia). cbn [andb]. now rewrite app_nil_r.
    Qed.

    Lemma nth_rebuild : forall x, x < n -> nth x (rebuild (lowers a)) [] = nth x a [].
    Proof.
      intros x Hx. unfold rebuild. rewrite nth_fold_push.
      2:{ rewrite repeat_length, lowers_length. exact triples_range. }
      rewrite lowers_length. rewrite nth_repeat. cbn [app]. rewrite triples_eq, flat_map_flat_map.
      (* split the rows at x *)
      replace n with (x + S (n - S x)) at 1 by lia. rewrite seq_app, flat_map_app. cbn [seq flat_map plus].
      rewrite (flat_map_nil _ (seq 0 x)).
      2:{ intros v Hv. apply in_seq in Hv. rewrite row_contrib by lia.
          replace (v <? x) with true by (symmetry; apply Nat.ltb_lt; lia). reflexivity. }
      rewrite row_contrib by lia. rewrite Nat.ltb_irrefl, Nat.eqb_refl. cbn [app].
      rewrite (flat_map_ext_in _ (fun v => opt v (get v (nth x a []))) (seq (S x) (n - S x))).
      2:{ intros v Hv. apply in_seq in Hv. rewrite row_contrib by lia.
          replace (v <? x) with false by (symmetry; apply Nat.ltb_ge; lia).
          replace (v =? x) with false by (symmetry; apply Nat.eqb_neq; lia).
          now rewrite (wf_sym a W v x) by (unfold n in *; lia). }
      (* both halves are enumerations of the neighbourhood of x *)
      pose proof (wf_sorted a W x Hx) as Sx. pose proof (wf_range a W x Hx) as Rx. fold n in Rx.
      rewrite (enum (S x) 0 (lower x (nth x a [])) (lower_sorted x _ 0 Sx) (lower_range x _)).
      rewrite (flat_map_ext_in _ (fun v => opt v (get v (nth x a []))) (seq 0 (S x))).
      2:{ intros v Hv. apply in_seq in Hv. now rewrite get_lower by lia. }
      rewrite <- flat_map_app, <- seq_app. replace (S x + (n - S x)) with (0 + n) by lia.
      symmetry. apply (enum n 0); assumption.
    Qed.

    Theorem rebuild_lowers : rebuild (lowers a) = a.
    Proof.
      apply (nth_ext _ _ [] []).
      - unfold rebuild. now rewrite fold_push_length, repeat_length, lowers_length.
      - intros x Hx. unfold rebuild in Hx. rewrite fold_push_length, repeat_length, lowers_length in Hx.
        now apply nth_rebuild.
    Qed.
  End Main.
End Facts.
