(* C16: the sorted neighbourhood merge of cyDQM.add_linear_equality_constraint computes the union, keeps
   the lists sorted / irreflexive / symmetric, and covers every interaction the expansion creates *)
From Coq Require Import List ZArith QArith Qcanon Bool Arith Lia Sorted.
From Dimod Require Import Base.Util Model.Poly Model.Penalty Model.DqmAdj Proofs.PolyFacts Proofs.PenaltyEq.
Import ListNotations.
Open Scope nat_scope.

(* ---------- the merge loop ---------- *)

Lemma merge_adj_nil v adj : merge_adj v [] adj = adj.
Proof. destruct adj; reflexivity. Qed.

Lemma merge_adj_cons v x vr adj :
  merge_adj v (x :: vr) adj =
  if (x =? v)%nat then merge_adj v vr adj
  else match adj with
       | [] => x :: merge_adj v vr []
       | n :: ar => if (x <? n)%nat then x :: merge_adj v vr adj
                    else if (n <? x)%nat then n :: merge_adj v (x :: vr) ar
                    else n :: merge_adj v vr ar
       end.
Proof. destruct adj; reflexivity. Qed.

Lemma merge_adj_In v vars : forall adj x,
  In x (merge_adj v vars adj) <-> In x adj \/ (In x vars /\ x <> v).
Proof.
  induction vars as [|y vr IHv]; intros adj x.
  - rewrite merge_adj_nil. cbn [In]. tauto.
  - induction adj as [|n ar IHa]; rewrite merge_adj_cons.
    + destruct (Nat.eqb_spec y v) as [->|Hne].
      * rewrite IHv. cbn [In]. split; [intros [H|[H1 H2]]; [tauto|right; tauto]|intros [H|[[H|H] H2]]; [tauto|congruence|tauto]].
      * cbn [In]. rewrite IHv. cbn [In]. split.
        -- intros [H|[H|[H1 H2]]]; [subst; right; split; [left; reflexivity|exact Hne]|tauto|right; tauto].
        -- intros [[]|[[H|H] H2]]; [left; exact H|right; right; tauto].
    + destruct (Nat.eqb_spec y v) as [->|Hne].
      * rewrite IHv. cbn [In]. split; [intros [H|[H1 H2]]; [tauto|right; tauto]|intros [H|[[H|H] H2]]; [tauto|congruence|tauto]].
      * destruct (Nat.ltb_spec y n) as [Hlt|Hge].
        -- cbn [In]. rewrite IHv. cbn [In]. split.
           ++ intros [H|[H|[H1 H2]]]; [subst; right; split; [left; reflexivity|exact Hne]|tauto|right; tauto].
           ++ intros [H|[[H|H] H2]]; [tauto|left; exact H|right; right; tauto].
        -- destruct (Nat.ltb_spec n y) as [Hlt2|Hge2].
           ++ cbn [In]. rewrite IHa. cbn [In]. tauto.
           ++ assert (n = y) by lia. subst n. cbn [In]. rewrite IHv. split.
              ** intros [H|[H|[H1 H2]]]; [tauto|tauto|right; tauto].
              ** intros [[H|H]|[[H|H] H2]]; [tauto|tauto|left; exact H|right; right; tauto].
Qed.

Lemma merge_adj_lower v vars adj k :
  Forall (lt k) vars -> Forall (lt k) adj -> Forall (lt k) (merge_adj v vars adj).
Proof.
  intros Hv Ha. apply Forall_forall. intros x Hx. apply merge_adj_In in Hx.
  rewrite Forall_forall in Hv, Ha. destruct Hx as [H|[H _]]; auto.
Qed.

Lemma merge_adj_sorted v vars : forall adj,
  StronglySorted lt vars -> StronglySorted lt adj -> StronglySorted lt (merge_adj v vars adj).
Proof.
  induction vars as [|y vr IHv]; intros adj Hv Ha.
  - rewrite merge_adj_nil. exact Ha.
  - inversion Hv as [|y' vr' Hvr Hy]; subst.
    induction adj as [|n ar IHa]; rewrite merge_adj_cons.
    + destruct (y =? v)%nat; [apply IHv; assumption|].
      constructor; [apply IHv; assumption|]. apply merge_adj_lower; [exact Hy|constructor].
    + inversion Ha as [|n' ar' Har Hn]; subst.
      destruct (y =? v)%nat; [apply IHv; assumption|].
      destruct (Nat.ltb_spec y n) as [Hlt|Hge].
      * constructor; [apply IHv; assumption|]. apply merge_adj_lower; [exact Hy|].
        constructor; [exact Hlt|]. eapply Forall_impl; [|exact Hn]. intros z Hz. lia.
      * destruct (Nat.ltb_spec n y) as [Hlt2|Hge2].
        -- constructor; [apply IHa; exact Har|]. apply merge_adj_lower; [|exact Hn].
           constructor; [exact Hlt2|]. eapply Forall_impl; [|exact Hy]. intros z Hz. lia.
        -- assert (n = y) by lia. subst n. constructor; [apply IHv; assumption|].
           apply merge_adj_lower; assumption.
Qed.

(* ---------- the loop over the constraint variables ---------- *)

Lemma set_nth_length {A} i (x : A) l : length (set_nth i x l) = length l.
Proof. revert i. induction l as [|y r IH]; intros [|i]; cbn [set_nth length]; try reflexivity. rewrite IH. reflexivity. Qed.

Lemma nth_set_nth {A} (d : A) i j (x : A) l :
  nth j (set_nth i x l) d = if (j =? i)%nat && (i <? length l)%nat then x else nth j l d.
Proof.
  revert i j. induction l as [|y r IH]; intros i j.
  - cbn [set_nth length]. destruct i, j; cbn; try reflexivity. rewrite andb_false_r. reflexivity.
  - destruct i as [|i], j as [|j]; cbn [set_nth nth length]; try reflexivity.
    rewrite IH. cbn [Nat.eqb]. replace (S i <? S (length r))%nat with (i <? length r)%nat; [reflexivity|].
    destruct (Nat.ltb_spec i (length r)), (Nat.ltb_spec (S i) (S (length r))); try reflexivity; lia.
Qed.

Lemma fix_fold_nth (VS : list nat) (l : list nat) : forall adjs i,
  NoDup l -> (forall v, In v l -> v < length adjs) ->
  nth i (fold_left (fun a v => set_nth v (merge_adj v VS (nth v a [])) a) l adjs) []
  = if existsb (Nat.eqb i) l then merge_adj i VS (nth i adjs []) else nth i adjs [].
Proof.
  induction l as [|v r IH]; intros adjs i Hnd Hlt; cbn [fold_left existsb]; [reflexivity|].
  inversion Hnd as [|v' r' Hni Hndr]; subst.
  rewrite IH; [|exact Hndr|intros w Hw; rewrite set_nth_length; apply Hlt; right; exact Hw].
  rewrite nth_set_nth.
  assert (Hvl : (v <? length adjs)%nat = true) by (apply Nat.ltb_lt; apply Hlt; left; reflexivity).
  rewrite Hvl, andb_true_r.
  destruct (Nat.eqb_spec i v) as [->|Hne].
  - assert (Hex : existsb (Nat.eqb v) r = false).
    { destruct (existsb (Nat.eqb v) r) eqn:E; [|reflexivity]. apply existsb_exists in E.
      destruct E as [w [Hw He]]. apply Nat.eqb_eq in He. subst w. contradiction. }
    rewrite Hex. cbn [orb]. reflexivity.
  - cbn [orb]. reflexivity.
Qed.

Lemma fix_adjacency_nth vars adjs i :
  NoDup vars -> (forall v, In v vars -> v < length adjs) ->
  nth i (fix_adjacency vars adjs) []
  = if existsb (Nat.eqb i) vars then merge_adj i vars (nth i adjs []) else nth i adjs [].
Proof. apply fix_fold_nth. Qed.

Lemma fix_fold_length (VS l : list nat) : forall adjs,
  length (fold_left (fun a v => set_nth v (merge_adj v VS (nth v a [])) a) l adjs) = length adjs.
Proof.
  induction l as [|v r IH]; intros adjs; cbn [fold_left]; [reflexivity|].
  rewrite IH, set_nth_length. reflexivity.
Qed.

Lemma fix_adjacency_length vars adjs : length (fix_adjacency vars adjs) = length adjs.
Proof. apply fix_fold_length. Qed.

(* ---------- the variables of the terms ---------- *)

Lemma ins_var_In x l y : In y (ins_var x l) <-> y = x \/ In y l.
Proof.
  induction l as [|z r IH]; cbn [ins_var In]; [intuition congruence|].
  destruct (x <? z)%nat; [cbn [In]; intuition congruence|].
  destruct (Nat.eqb_spec x z) as [->|Hne]; cbn [In]; [intuition congruence|]. rewrite IH. intuition congruence.
Qed.

Lemma ins_var_lower k x l : k < x -> Forall (lt k) l -> Forall (lt k) (ins_var x l).
Proof.
  intros Hk Hl. apply Forall_forall. intros y Hy. apply ins_var_In in Hy. rewrite Forall_forall in Hl.
  destruct Hy as [->|Hy]; auto.
Qed.

Lemma ins_var_sorted x l : StronglySorted lt l -> StronglySorted lt (ins_var x l).
Proof.
  induction l as [|z r IH]; intros Hs; cbn [ins_var].
  - constructor; constructor.
  - inversion Hs as [|z' r' Hr Hz]; subst.
    destruct (Nat.ltb_spec x z) as [Hlt|Hge].
    + constructor; [exact Hs|]. constructor; [exact Hlt|]. eapply Forall_impl; [|exact Hz]. intros w Hw. lia.
    + destruct (Nat.eqb_spec x z) as [->|Hne]; [exact Hs|].
      constructor; [apply IH; exact Hr|]. apply ins_var_lower; [lia|exact Hz].
Qed.

Lemma term_variables_aux (grp : label -> nat) (terms : list lterm) : forall acc,
  StronglySorted lt acc ->
  StronglySorted lt (fold_left (fun a t => ins_var (grp (fst t)) a) terms acc) /\
  (forall x, In x (fold_left (fun a t => ins_var (grp (fst t)) a) terms acc)
             <-> In x acc \/ exists t, In t terms /\ grp (fst t) = x).
Proof.
  induction terms as [|t r IH]; intros acc Hs; cbn [fold_left].
  - split; [exact Hs|]. intros x. split; [tauto|]. intros [H|[t [[] _]]]. exact H.
  - destruct (IH (ins_var (grp (fst t)) acc) (ins_var_sorted _ _ Hs)) as [H1 H2]. split; [exact H1|].
    intros x. rewrite H2, ins_var_In. split.
    + intros [[->|H]|[u [Hu He]]]; [right; exists t; split; [left; reflexivity|reflexivity]|tauto|right; exists u; split; [right; exact Hu|exact He]].
    + intros [H|[u [[<-|Hu] He]]]; [tauto|left; left; symmetry; exact He|right; exists u; split; assumption].
Qed.

Lemma term_variables_sorted grp terms : StronglySorted lt (term_variables grp terms).
Proof. apply (term_variables_aux grp terms []). constructor. Qed.

Lemma term_variables_In grp terms x :
  In x (term_variables grp terms) <-> exists t, In t terms /\ grp (fst t) = x.
Proof.
  unfold term_variables. destruct (term_variables_aux grp terms [] ltac:(constructor)) as [_ H].
  rewrite H. cbn [In]. tauto.
Qed.

Lemma sorted_NoDup l : StronglySorted lt l -> NoDup l.
Proof.
  induction 1 as [|x l Hs IH Hx]; constructor; [|exact IH].
  intro Hin. rewrite Forall_forall in Hx. specialize (Hx x Hin). lia.
Qed.

(* merge_terms keeps the set of case labels *)
Lemma ins_term_keys t l k : In k (map fst (ins_term t l)) <-> k = fst t \/ In k (map fst l).
Proof.
  induction l as [|u r IH]; cbn [ins_term map In]; [intuition congruence|].
  destruct (fst t <? fst u)%nat; [cbn [map In fst]; intuition congruence|].
  destruct (Nat.eqb_spec (fst t) (fst u)) as [E|E]; cbn [map In fst]; [rewrite E; intuition congruence|].
  rewrite IH. intuition congruence.
Qed.

Lemma merge_terms_keys terms k : In k (map fst (merge_terms terms)) <-> In k (map fst terms).
Proof.
  unfold merge_terms.
  assert (G : forall acc, In k (map fst (fold_left (fun a t => ins_term t a) terms acc))
                          <-> In k (map fst acc) \/ In k (map fst terms)).
  { induction terms as [|t r IH]; intros acc; cbn [fold_left map In]; [tauto|].
    rewrite IH, ins_term_keys. split; [intros [[H|H]|H]; [right; left; symmetry; exact H|tauto|tauto]
                                      |intros [H|[H|H]]; [tauto|left; left; symmetry; exact H|tauto]]. }
  rewrite G. cbn [map In]. tauto.
Qed.

Definition con_var (grp : label -> nat) (terms : list lterm) (x : nat) : Prop :=
  exists t, In t terms /\ grp (fst t) = x.

Lemma con_var_merge grp terms x : con_var grp (merge_terms terms) x <-> con_var grp terms x.
Proof.
  unfold con_var. split; intros [t [Ht He]].
  - assert (Hk : In (fst t) (map fst (merge_terms terms))) by (apply in_map; exact Ht).
    apply (proj1 (merge_terms_keys _ _)) in Hk. apply in_map_iff in Hk. destruct Hk as [u [Hu Hin]].
    exists u. split; [exact Hin|]. rewrite Hu. exact He.
  - assert (Hk : In (fst t) (map fst terms)) by (apply in_map; exact Ht).
    apply (proj2 (merge_terms_keys _ _)) in Hk. apply in_map_iff in Hk. destruct Hk as [u [Hu Hin]].
    exists u. split; [exact Hin|]. rewrite Hu. exact He.
Qed.

(* ---------- the adjacency after add_linear_equality_constraint ---------- *)

Lemma existsb_eqb_In i l : existsb (Nat.eqb i) l = true <-> In i l.
Proof.
  rewrite existsb_exists. split; [intros [x [Hx He]]; apply Nat.eqb_eq in He; subst; exact Hx|].
  intros H. exists i. split; [exact H|apply Nat.eqb_refl].
Qed.

Theorem dqm_eq_adjacency_spec grp terms adjs :
  (forall t, In t terms -> grp (fst t) < length adjs) ->
  forall i j,
    In j (nth i (dqm_eq_adjacency grp terms adjs) [])
    <-> In j (nth i adjs []) \/ (i <> j /\ con_var grp terms i /\ con_var grp terms j).
Proof.
  intros Hwf i j. unfold dqm_eq_adjacency.
  set (vars := term_variables grp (merge_terms terms)).
  assert (Hnd : NoDup vars) by (apply sorted_NoDup; apply term_variables_sorted).
  assert (Hin : forall x, In x vars <-> con_var grp terms x).
  { intros x. unfold vars. rewrite term_variables_In. apply con_var_merge. }
  assert (Hlt : forall v, In v vars -> v < length adjs).
  { intros v Hv. apply Hin in Hv. destruct Hv as [t [Ht <-]]. apply Hwf. exact Ht. }
  rewrite fix_adjacency_nth by assumption.
  destruct (existsb (Nat.eqb i) vars) eqn:Ei.
  - apply existsb_eqb_In in Ei. rewrite merge_adj_In. rewrite !Hin in *. split.
    + intros [H|[H1 H2]]; [left; exact H|right; split; [congruence|split; [exact Ei|exact H1]]].
    + intros [H|[H1 [H2 H3]]]; [left; exact H|right; split; [exact H3|congruence]].
  - split; [intros H; left; exact H|]. intros [H|[_ [H _]]]; [exact H|].
    apply Hin in H. apply existsb_eqb_In in H. rewrite H in Ei. discriminate Ei.
Qed.

Theorem dqm_eq_adjacency_sorted grp terms adjs :
  (forall t, In t terms -> grp (fst t) < length adjs) ->
  (forall i, StronglySorted lt (nth i adjs [])) ->
  forall i, StronglySorted lt (nth i (dqm_eq_adjacency grp terms adjs) []).
Proof.
  intros Hwf Hs i. unfold dqm_eq_adjacency.
  set (vars := term_variables grp (merge_terms terms)).
  assert (Hsv : StronglySorted lt vars) by apply term_variables_sorted.
  assert (Hlt : forall v, In v vars -> v < length adjs).
  { intros v Hv. unfold vars in Hv. apply term_variables_In in Hv. apply (proj1 (con_var_merge _ _ _)) in Hv.
    destruct Hv as [t [Ht <-]]. apply Hwf. exact Ht. }
  rewrite fix_adjacency_nth by (try apply sorted_NoDup; assumption).
  destruct (existsb (Nat.eqb i) vars); [apply merge_adj_sorted; [exact Hsv|apply Hs]|apply Hs].
Qed.

(* ---------- every interaction the expansion creates is recorded ---------- *)

Lemma p_quad_add_quadratic_bin a b w p q :
  In q (p_quad (add_quadratic (cvt BINARY) a b w p)) -> In q (p_quad p) \/ (q = (a, b, w) /\ a <> b).
Proof.
  unfold add_quadratic. destruct (Nat.eqb_spec a b) as [->|Hne].
  - unfold cvt. cbn [add_linear p_quad]. intros H. left. exact H.
  - cbn [p_quad In]. intros [<-|H]; [right; split; [reflexivity|exact Hne]|left; exact H].
Qed.

Lemma dqm_row_quad grp lam t r : forall p q,
  In q (p_quad (dqm_row grp lam t r p)) ->
  In q (p_quad p) \/ exists u, In u r /\ fst (fst q) = fst t /\ snd (fst q) = fst u /\ grp (fst t) <> grp (fst u).
Proof.
  unfold dqm_row. induction r as [|u r IH]; intros p q Hq; cbn [fold_left] in Hq; [left; exact Hq|].
  apply IH in Hq. destruct Hq as [Hq|[w [Hw H]]]; [|right; exists w; split; [right; exact Hw|exact H]].
  destruct (Nat.eqb_spec (grp (fst t)) (grp (fst u))) as [E|E]; [left; exact Hq|].
  apply p_quad_add_quadratic_bin in Hq. destruct Hq as [Hq|[-> _]]; [left; exact Hq|].
  right. exists u. split; [left; reflexivity|]. cbn [fst snd]. split; [reflexivity|]. split; [reflexivity|exact E].
Qed.

Lemma dqm_terms_quad grp lam c terms : forall p q,
  In q (p_quad (dqm_terms grp lam c terms p)) ->
  In q (p_quad p) \/ exists t u, In t terms /\ In u terms /\ fst (fst q) = fst t /\ snd (fst q) = fst u
                                 /\ grp (fst t) <> grp (fst u).
Proof.
  induction terms as [|t r IH]; intros p q Hq; cbn [dqm_terms] in Hq; [left; exact Hq|].
  apply IH in Hq. destruct Hq as [Hq|[a [b [Ha [Hb H]]]]].
  - apply dqm_row_quad in Hq. destruct Hq as [Hq|[u [Hu H]]].
    + left. exact Hq.
    + right. exists t, u. split; [left; reflexivity|]. split; [right; exact Hu|exact H].
  - right. exists a, b. split; [right; exact Ha|]. split; [right; exact Hb|exact H].
Qed.

Definition adj_covers (grp : label -> nat) (adjs : list (list nat)) (quad : list qterm) : Prop :=
  forall q, In q quad -> grp (fst (fst q)) <> grp (snd (fst q)) ->
    In (grp (snd (fst q))) (nth (grp (fst (fst q))) adjs []) /\
    In (grp (fst (fst q))) (nth (grp (snd (fst q))) adjs []).

(* what DQM.energies relies on: after the call every case-level interaction between two variables is
   recorded in both adjacency lists *)
Theorem dqm_eq_adjacency_covers grp terms lam c p adjs :
  (forall t, In t terms -> grp (fst t) < length adjs) ->
  adj_covers grp adjs (p_quad p) ->
  adj_covers grp (dqm_eq_adjacency grp terms adjs) (p_quad (add_eq_dqm grp terms lam c p)).
Proof.
  intros Hwf Hc q Hq Hne. unfold add_eq_dqm in Hq. apply dqm_terms_quad in Hq.
  rewrite !(dqm_eq_adjacency_spec grp terms adjs Hwf).
  destruct Hq as [Hq|[t [u [Ht [Hu [Ea [Eb Hd]]]]]]].
  - cbn [add_offset p_quad] in Hq. destruct (Hc q Hq Hne) as [H1 H2]. split; left; assumption.
  - assert (Ct : con_var grp terms (grp (fst (fst q)))).
    { apply con_var_merge. exists t. split; [exact Ht|]. rewrite Ea. reflexivity. }
    assert (Cu : con_var grp terms (grp (snd (fst q)))).
    { apply con_var_merge. exists u. split; [exact Hu|]. rewrite Eb. reflexivity. }
    split; right; (split; [congruence|split; assumption]).
Qed.

Definition adj_sym (adjs : list (list nat)) : Prop := forall i j, In j (nth i adjs []) -> In i (nth j adjs []).
Definition adj_irrefl (adjs : list (list nat)) : Prop := forall i, ~ In i (nth i adjs []).

Theorem dqm_eq_adjacency_invariants grp terms adjs :
  (forall t, In t terms -> grp (fst t) < length adjs) ->
  adj_sym adjs -> adj_irrefl adjs -> (forall i, StronglySorted lt (nth i adjs [])) ->
  adj_sym (dqm_eq_adjacency grp terms adjs) /\ adj_irrefl (dqm_eq_adjacency grp terms adjs) /\
  (forall i, StronglySorted lt (nth i (dqm_eq_adjacency grp terms adjs) [])) /\
  length (dqm_eq_adjacency grp terms adjs) = length adjs.
Proof.
  intros Hwf Hs Hi Hsorted. split; [|split; [|split]].
  - intros i j. rewrite !(dqm_eq_adjacency_spec grp terms adjs Hwf).
    intros [H|[H1 [H2 H3]]]; [left; apply Hs; exact H|right; split; [congruence|split; assumption]].
  - intros i. rewrite (dqm_eq_adjacency_spec grp terms adjs Hwf). intros [H|[H _]]; [apply (Hi i H)|apply H; reflexivity].
  - apply dqm_eq_adjacency_sorted; assumption.
  - apply fix_adjacency_length.
Qed.
