(* C02, energies THROUGH a live view (VartypeView.energies): what a passing ChkC02 ViewEn case establishes. *)
From Coq Require Import List ZArith QArith Qcanon Bool Arith.
From Dimod Require Import Base.Util Model.Poly Proofs.PolyFacts Model.ChkC02.
Import ListNotations.
Open Scope Qc_scope.

Lemma ve_Qc_eqb_eq a b : Qc_eqb a b = true -> a = b.
Proof. unfold Qc_eqb. rewrite Qeq_bool_iff. apply Qc_is_canon. Qed.

Lemma ve_qlist_eqb_eq (a b : list Qc) : list_eqb Qc_eqb a b = true -> a = b.
Proof.
  revert b. induction a as [|x a IH]; intros [|y b] H; cbn [list_eqb] in H; try discriminate; [reflexivity|].
  apply andb_true_iff in H. destruct H as [Hx Hr]. apply ve_Qc_eqb_eq in Hx. subst. f_equal. apply IH. exact Hr.
Qed.

(* the base model at the back-converted sample = the converted model at the view's own sample *)
Lemma convert_energy d vars p s : NoDup vars ->
  energy (convert d vars p) (sample_of_list s) = energy p (old_sample d vars s).
Proof.
  intros Hnd. destruct d; unfold convert; rewrite substitute_many_energy by exact Hnd;
    apply energy_ext; intros w; unfold old_sample, back_value;
    destruct (existsb (Nat.eqb w) vars); try reflexivity; unfold two, half; ring.
Qed.

(* a passing ViewEn case: the energies the view returned are those of the CONVERTED model (the model the view stands
   for) at the rows it was given, whatever integer / bool / unsigned dtype stored them *)
Theorem view_energies_check_sound d vars base samples seen : NoDup vars ->
  check (ViewEn d vars base samples seen) = true ->
  seen = map (fun s => energy (convert d vars (obs_poly base)) (sample_of_list s)) samples.
Proof.
  intros Hnd H. cbn [check] in H. apply ve_qlist_eqb_eq in H. rewrite <- H.
  apply map_ext. intros s. symmetry. apply convert_energy. exact Hnd.
Qed.
Print Assumptions view_energies_check_sound.
