(* "Exactly the terms": besides the coefficients (Proofs/CqmSim.v) every expression of the
   index-level model has, after EVERY history, the variable ORDER computed by the history on the
   order lists (Model/ExprOrder.v ostep) and the same ordered list of interactions - explicit
   zeros included - as the plain polynomial of the specification run. *)
From Coq Require Import List ZArith QArith Qcanon Bool Arith Lia.
From Dimod Require Import Base.Util Model.Poly Model.Expr Model.ExprOps Model.CQMSpec Model.ExprOrder Model.ExprLab
  Proofs.PolyFacts Proofs.ExprFacts Proofs.ExprViewFacts Proofs.RefineFacts Proofs.ExprSim Proofs.CqmSim Proofs.LabVars Proofs.LabSim.
Import ListNotations.
Open Scope Qc_scope.

(* ---------- order of the variables ---------- *)
Lemma enforce_order : forall n e v, ExprInv n e -> e_vars (fst (enforce v e)) = enf v (e_vars e).
Proof.
  intros n e v I. unfold enf. destruct (memb v (e_vars e)) eqn:M.
  - apply memb_In in M. rewrite (enforce_abs_present n e v I M). reflexivity.
  - assert (Hn : ~ In v (e_vars e)) by (intros H; apply memb_In in H; congruence).
    rewrite (enforce_absent n e v I Hn). reflexivity.
Qed.

Lemma del_remove_nth : forall (l : list nat) i v, NoDup l -> nth_error l i = Some v -> del v l = remove_nth i l.
Proof.
  induction l as [|a r IH]; intros i v ND H; [destruct i; discriminate|]. inversion ND as [|? ? Hn ND']; subst.
  unfold del in *. destruct i as [|i']; cbn [nth_error remove_nth filter] in *.
  - injection H as ->. rewrite Nat.eqb_refl. cbn [negb]. apply filter_all. intros x Hx. apply negb_true_iff. apply Nat.eqb_neq.
    intros ->. contradiction.
  - destruct (Nat.eqb_spec a v) as [->|_]; [exfalso; apply Hn; eapply nth_error_In; exact H|]. cbn [negb]. f_equal. apply IH; assumption.
Qed.

Lemma del_absent : forall (l : list nat) v, ~ In v l -> del v l = l.
Proof.
  intros l v H. unfold del. apply filter_all. intros x Hx. apply negb_true_iff. apply Nat.eqb_neq. intros ->. contradiction.
Qed.

Lemma remove_variable_order : forall n e v, ExprInv n e -> e_vars (m_remove_variable v e) = del v (e_vars e).
Proof.
  intros n e v I. unfold m_remove_variable. rewrite (inv_idx _ _ I v). destruct (index_of v (e_vars e)) as [i|] eqn:F.
  - cbn [e_vars]. symmetry. apply del_remove_nth; [exact (inv_nodup _ _ I)|apply index_of_nth; exact F].
  - symmetry. apply del_absent. apply index_of_None. exact F.
Qed.

Lemma reindex_order : forall n e v, ExprInv n e -> e_vars (m_reindex v e) = ord_reindex v (e_vars e).
Proof.
  intros n e v I. destruct (reindex_fields v e) as [Hv _]. rewrite Hv. unfold pre_reindex, ord_reindex.
  rewrite (inv_idx _ _ I v). destruct (index_of v (e_vars e)) as [i|] eqn:F; cbn [snd e_vars]; f_equal.
  - symmetry. apply del_remove_nth; [exact (inv_nodup _ _ I)|apply index_of_nth; exact F].
  - symmetry. apply del_absent. apply index_of_None. exact F.
Qed.

Lemma substitute_order : forall v m c e, e_vars (m_substitute v m c e) = e_vars e.
Proof.
  intros v m c e. unfold m_substitute. destruct (idx_find v (e_idx e)); [|reflexivity]. rewrite base_substitute_eq. reflexivity.
Qed.

Lemma eop_order : forall n vt o e, ExprInv n e -> eop_ok n o = true -> e_vars (apply_eop vt o e) = ord_eop o (e_vars e).
Proof.
  intros n vt o e I OK. destruct o; cbn [apply_eop ord_eop eop_ok] in *.
  - unfold m_add_linear. pose proof (enforce_order n e v I) as H. destruct (enforce v e). exact H.
  - unfold m_set_linear. pose proof (enforce_order n e v I) as H. destruct (enforce v e). exact H.
  - apply andb_true_iff in OK. destruct OK as [Hu Hv]. apply Nat.ltb_lt in Hu. apply Nat.ltb_lt in Hv.
    unfold m_add_quadratic. pose proof (enforce_order n e v I) as H1. pose proof (enforce_inv n e v I Hv) as I1.
    destruct (enforce v e) as [e1 j]. cbn [fst] in *. pose proof (enforce_order n e1 u I1) as H2.
    destruct (enforce u e1) as [e2 i]. cbn [fst] in *. rewrite <- H1, <- H2.
    unfold base_add_quadratic. destruct (i =? j)%nat; [destruct (vt (nth i (e_vars e2) 0%nat))|]; reflexivity.
  - unfold m_remove_interaction. destruct (idx_find u (e_idx e)); [|reflexivity]. destruct (idx_find v (e_idx e)); reflexivity.
  - apply (remove_variable_order n). exact I.
  - reflexivity.
  - reflexivity.
  - reflexivity.
Qed.

(* ---------- the ordered interaction list ---------- *)
Lemma qpairs_filter : forall (P : qterm -> bool) (P' : nat * nat -> bool) (q : list qterm),
  (forall t, P t = P' (fst t)) -> map fst (filter P q) = filter P' (map fst q).
Proof. intros P P' q H. apply map_filter_comm. intros t _. apply H. Qed.

Lemma qp_spec_eop : forall vt o p, qpairs (spec_eop vt o p) = qp_eop vt o (qpairs p).
Proof.
  intros vt o p. unfold qpairs. destruct o; cbn [spec_eop qp_eop]; try reflexivity.
  - unfold spec_add_quadratic, add_quadratic. destruct (u =? v)%nat; [destruct (vt u)|]; reflexivity.
  - unfold remove_interaction. cbn [p_quad]. apply qpairs_filter. intros t. reflexivity.
  - unfold remove_variable. cbn [p_quad]. apply qpairs_filter. intros t. reflexivity.
Qed.

Lemma qp_reindex_spec : forall v p, qpairs (relabel (shift v) (remove_variable v p)) = qp_reindex v (qpairs p).
Proof.
  intros v p. unfold qpairs, qp_reindex, relabel, remove_variable. cbn [p_quad]. rewrite map_map.
  rewrite <- (qpairs_filter (fun t => negb (mentions v t)) (fun ab => negb (pmention v ab))) by (intros t; reflexivity).
  rewrite map_map. reflexivity.
Qed.

Lemma p_quad_padd : forall a b, p_quad (padd a b) = p_quad a ++ p_quad b. Proof. reflexivity. Qed.

Lemma psum_cons : forall a l, psum (a :: l) = padd a (psum l). Proof. reflexivity. Qed.

Lemma qpairs_substitute : forall v m c p, qpairs (substitute v m c p) = qpairs p.
Proof.
  intros v m c p. unfold qpairs, substitute. rewrite !p_quad_padd. cbn [p_quad app].
  assert (L : forall l, p_quad (psum (map (subst_lterm v m c) l)) = []).
  { induction l as [|t r IH]; [reflexivity|]. cbn [map]. rewrite psum_cons, p_quad_padd, IH.
    unfold subst_lterm. destruct (fst t =? v)%nat; reflexivity. }
  assert (Q : forall r, map fst (p_quad (psum (map (subst_qterm v m c) r))) = map fst r).
  { induction r as [|t r IH]; [reflexivity|]. cbn [map]. rewrite psum_cons, p_quad_padd, map_app.
    change (fst t :: map fst r) with ([fst t] ++ map fst r). f_equal; [|exact IH].
    destruct t as [[x y] b]. unfold subst_qterm.
    destruct (Nat.eqb_spec x v) as [->|_]; destruct (Nat.eqb_spec y v) as [->|_]; reflexivity. }
  rewrite L. cbn [app]. apply Q.
Qed.

Lemma qpairs_enforce : forall n e v, ExprInv n e -> p_quad (abs_expr (fst (enforce v e))) = p_quad (abs_expr e).
Proof.
  intros n e v I. destruct (in_dec Nat.eq_dec v (e_vars e)) as [Hin|Hn].
  - rewrite (enforce_abs_present n e v I Hin). reflexivity.
  - rewrite (enforce_abs_fresh n e v I Hn). reflexivity.
Qed.

Lemma qp_apply_eop : forall n vt o e, ExprInv n e -> eop_ok n o = true ->
  qpairs (abs_expr (apply_eop vt o e)) = qp_eop vt o (qpairs (abs_expr e)).
Proof.
  intros n vt o e I OK. destruct o; cbn [apply_eop eop_ok] in *.
  - cbn [qp_eop]. unfold qpairs. f_equal. unfold m_add_linear. pose proof (qpairs_enforce n e v I) as H.
    destruct (enforce v e) as [e1 i]. exact H.
  - cbn [qp_eop]. unfold qpairs. f_equal. unfold m_set_linear. pose proof (qpairs_enforce n e v I) as H.
    destruct (enforce v e) as [e1 i]. exact H.
  - apply andb_true_iff in OK. destruct OK as [Hu Hv]. apply Nat.ltb_lt in Hu. apply Nat.ltb_lt in Hv.
    cbn [qp_eop]. unfold m_add_quadratic.
    pose proof (enforce_inv n e v I Hv) as I1. pose proof (enforce_index n e v I Hv) as Hj. pose proof (qpairs_enforce n e v I) as Q1.
    destruct (enforce v e) as [e1 j]. cbn [fst snd] in *.
    pose proof (enforce_inv n e1 u I1 Hu) as I2. pose proof (enforce_index n e1 u I1 Hu) as Hi.
    pose proof (enforce_keeps_positions n e1 u j v I1 Hj) as Hj2. pose proof (qpairs_enforce n e1 u I1) as Q2.
    destruct (enforce u e1) as [e2 i]. cbn [fst snd] in *.
    assert (Hij : (i =? j)%nat = (u =? v)%nat).
    { destruct (Nat.eqb_spec i j) as [->|Hne]; destruct (Nat.eqb_spec u v) as [->|Hne']; try reflexivity.
      - congruence.
      - exfalso. apply Hne. pose proof (nth_index_of _ _ _ (inv_nodup _ _ I2) Hi) as P1.
        pose proof (nth_index_of _ _ _ (inv_nodup _ _ I2) Hj2) as P2. congruence. }
    assert (Q : qpairs (abs_expr e2) = qpairs (abs_expr e)) by (unfold qpairs; rewrite Q2, Q1; reflexivity).
    unfold base_add_quadratic. rewrite Hij, (nth_error_nth_nat _ _ _ Hi).
    destruct (u =? v)%nat eqn:Euv.
    + destruct (vt u); rewrite <- Q; unfold qpairs, abs_expr; cbn [p_quad e_vars e_quad map fst snd]; try reflexivity;
        rewrite (nth_error_nth_nat _ _ _ Hi); reflexivity.
    + rewrite <- Q. unfold qpairs, abs_expr. cbn [p_quad e_vars e_quad map fst snd].
      rewrite (nth_error_nth_nat _ _ _ Hi), (nth_error_nth_nat _ _ _ Hj2). reflexivity.
  - rewrite (remove_interaction_abs n e u v I). apply (qp_spec_eop vt (ERemoveInteraction u v)).
  - rewrite (remove_variable_abs n e v I). apply (qp_spec_eop vt (ERemoveVariable v)).
  - reflexivity.
  - reflexivity.
  - reflexivity.
Qed.

Lemma qp_substitute_M : forall n e v m c, ExprInv n e -> qpairs (abs_expr (m_substitute v m c e)) = qpairs (abs_expr e).
Proof.
  intros n e v m c I. unfold m_substitute. destruct (idx_find v (e_idx e)) as [i|]; [|reflexivity].
  rewrite base_substitute_eq. unfold qpairs, abs_expr. cbn [p_quad e_vars e_quad]. rewrite !map_map. apply map_ext.
  intros [[a b] w]. unfold subst_q. destruct ((a =? i)%nat && (b =? i)%nat); [reflexivity|].
  destruct ((a =? i)%nat || (b =? i)%nat); reflexivity.
Qed.

(* ---------- one expression: order and interaction list move together with the specification ---------- *)
Definition Str (e : mexpr) (p : poly) (o : list nat) : Prop := e_vars e = o /\ qpairs (abs_expr e) = qpairs p.

Lemma str_eop : forall n vt op e p o, ExprInv n e -> eop_ok n op = true -> Str e p o ->
  Str (apply_eop vt op e) (spec_eop vt op p) (ord_eop op o).
Proof.
  intros n vt op e p o I OK [Ho Hq]. split.
  - rewrite (eop_order n vt op e I OK), Ho. reflexivity.
  - rewrite (qp_apply_eop n vt op e I OK), Hq, qp_spec_eop. reflexivity.
Qed.

Lemma str_reindex : forall n e p o v, ExprInv n e -> Str e p o ->
  Str (m_reindex v e) (relabel (shift v) (remove_variable v p)) (ord_reindex v o).
Proof.
  intros n e p o v I [Ho Hq]. split.
  - rewrite (reindex_order n e v I), Ho. reflexivity.
  - rewrite (reindex_abs n e v I), !qp_reindex_spec, Hq. reflexivity.
Qed.

Lemma str_substitute : forall n e p o v m c, ExprInv n e -> Str e p o -> Str (m_substitute v m c e) (substitute v m c p) o.
Proof.
  intros n e p o v m c I [Ho Hq]. split.
  - rewrite substitute_order. exact Ho.
  - rewrite (qp_substitute_M n e v m c I), qpairs_substitute. exact Hq.
Qed.

Lemma str_fix : forall n e p o v a, ExprInv n e -> Str e p o ->
  Str (m_fix v a e) (relabel (shift v) (fix_variable v a p)) (ord_reindex v o).
Proof.
  intros n e p o v a I S. unfold m_fix, fix_variable.
  apply (str_reindex n); [apply substitute_inv; exact I|]. apply (str_substitute n); assumption.
Qed.

Lemma str_fold : forall {X} n (f : mexpr -> X -> mexpr) (g : poly -> X -> poly) (h : list nat -> X -> list nat) (xs : list X),
  (forall x e p o, In x xs -> ExprInv n e -> Str e p o -> ExprInv n (f e x) /\ Str (f e x) (g p x) (h o x)) ->
  forall e p o, ExprInv n e -> Str e p o ->
  ExprInv n (fold_left f xs e) /\ Str (fold_left f xs e) (fold_left g xs p) (fold_left h xs o).
Proof.
  intros X n f g h xs. induction xs as [|x r IH]; intros H e p o I S; [split; assumption|].
  cbn [fold_left]. destruct (H x e p o (or_introl eq_refl) I S) as [I' S'].
  apply IH; [|exact I'|exact S']. intros y e' p' o' Hy. apply H. right. exact Hy.
Qed.

Lemma str_copy : forall n vt lin quad off mapping, mapping_ok n lin quad mapping = true ->
  Str (expr_from_copy vt lin quad off mapping) (spec_from_copy vt lin quad off mapping) (ord_from_copy lin quad mapping).
Proof.
  intros n vt lin quad off mapping H. destruct (mapping_ok_spec _ _ _ _ H) as [ND [LT [LEN QD]]].
  assert (In_lt : forall i, (i < length mapping)%nat -> (nth i mapping 0 < n)%nat).
  { intros i Hi. rewrite Forall_forall in LT. apply LT. apply nth_In. exact Hi. }
  unfold expr_from_copy, spec_from_copy, ord_from_copy.
  destruct (str_fold n
              (fun (e : mexpr) (ib : nat * Qc) => m_add_linear (nth (fst ib) mapping 0%nat) (snd ib) e)
              (fun (p : poly) (ib : nat * Qc) => add_linear (nth (fst ib) mapping 0%nat) (snd ib) p)
              (fun (l : list nat) (ib : nat * Qc) => ord_eop (EAddLinear (nth (fst ib) mapping 0%nat) (snd ib)) l)
              (combine (seq 0 (length lin)) lin)) with (e := e_empty) (p := pzero) (o := @nil nat) as [I1 S1].
  { intros [i b] e p o Hin I S. apply in_combine_l in Hin. apply in_seq in Hin. cbn [fst snd].
    assert (G : eop_ok n (EAddLinear (nth i mapping 0%nat) b) = true) by (cbn [eop_ok]; apply Nat.ltb_lt; apply In_lt; lia).
    split; [exact (eop_inv n vt _ e I G)|exact (str_eop n vt (EAddLinear (nth i mapping 0%nat) b) e p o I G S)]. }
  { apply empty_inv. }
  { split; reflexivity. }
  assert (H2 : forall (x : lqterm) e p o, In x quad -> ExprInv n e -> Str e p o ->
            ExprInv n (m_add_quadratic vt (nth (fst (fst x)) mapping 0%nat) (nth (snd (fst x)) mapping 0%nat) (snd x) e)
            /\ Str (m_add_quadratic vt (nth (fst (fst x)) mapping 0%nat) (nth (snd (fst x)) mapping 0%nat) (snd x) e)
                   (spec_add_quadratic vt (nth (fst (fst x)) mapping 0%nat) (nth (snd (fst x)) mapping 0%nat) (snd x) p)
                   (ord_eop (EAddQuadratic (nth (fst (fst x)) mapping 0%nat) (nth (snd (fst x)) mapping 0%nat) (snd x)) o)).
  { intros [[a b] w] e p o Hin I S. rewrite Forall_forall in QD. destruct (QD _ Hin) as [Ha Hb]. cbn [fst snd] in *.
    assert (G : eop_ok n (EAddQuadratic (nth a mapping 0%nat) (nth b mapping 0%nat) w) = true).
    { cbn [eop_ok]. apply andb_true_iff. split; apply Nat.ltb_lt; apply In_lt; assumption. }
    split; [exact (eop_inv n vt _ e I G)|exact (str_eop n vt (EAddQuadratic (nth a mapping 0%nat) (nth b mapping 0%nat) w) e p o I G S)]. }
  destruct (str_fold n
              (fun (e : mexpr) (t : lqterm) => m_add_quadratic vt (nth (fst (fst t)) mapping 0%nat) (nth (snd (fst t)) mapping 0%nat) (snd t) e)
              (fun (p : poly) (t : lqterm) => spec_add_quadratic vt (nth (fst (fst t)) mapping 0%nat) (nth (snd (fst t)) mapping 0%nat) (snd t) p)
              (fun (l : list nat) (t : lqterm) => ord_eop (EAddQuadratic (nth (fst (fst t)) mapping 0%nat) (nth (snd (fst t)) mapping 0%nat) (snd t)) l)
              quad H2 _ _ _ I1 S1) as [I2 [O2 Q2]].
  split; [exact O2|]. exact Q2.
Qed.

(* ---------- the whole model ---------- *)
Definition SState (q : mcqm) (sq : sidx) (oq : oidx) : Prop :=
  o_n oq = length (m_info q)
  /\ Str (m_obj q) (s_obj sq) (o_obj oq)
  /\ Forall2 (fun k o => e_vars (mc_e k) = o) (m_cons q) (o_cons oq)
  /\ Forall2 (fun k p => qpairs (abs_expr (mc_e k)) = qpairs p) (m_cons q) (s_cons sq).

Lemma gen_ok_mop : forall q o, mop_ok q o = gen_ok (length (m_info q)) (length (m_cons q)) o.
Proof. intros q o. destruct o; try reflexivity. Qed.

Lemma Forall2_both : forall {A B C} (R1 : A -> B -> Prop) (R2 : A -> C -> Prop) (P : A -> Prop) l1 l2 l3,
  Forall P l1 -> Forall2 R1 l1 l2 -> Forall2 R2 l1 l3 ->
  forall (f : A -> A) (g : B -> B) (h : C -> C),
  (forall a b c, P a -> R1 a b -> R2 a c -> R1 (f a) (g b) /\ R2 (f a) (h c)) ->
  Forall2 R1 (map f l1) (map g l2) /\ Forall2 R2 (map f l1) (map h l3).
Proof.
  intros A B C R1 R2 P l1 l2 l3 HP H1. revert l3. induction H1 as [|a b r1 r2 Hab Hr IH]; intros l3 H2 f g h Hf.
  - inversion H2; subst. split; constructor.
  - inversion H2 as [|? c ? r3 Hac Hr3]; subst. inversion HP as [|? ? Pa Pr]; subst.
    destruct (IH Pr r3 Hr3 f g h Hf) as [A1 A2]. destruct (Hf a b c Pa Hab Hac) as [B1 B2].
    cbn [map]. split; constructor; assumption.
Qed.

Lemma Forall2_both_nth : forall {A B C} (R1 : A -> B -> Prop) (R2 : A -> C -> Prop) (P : A -> Prop) l1 l2 l3 c,
  Forall P l1 -> Forall2 R1 l1 l2 -> Forall2 R2 l1 l3 ->
  forall (f : A -> A) (g : B -> B) (h : C -> C),
  (forall a b c, P a -> R1 a b -> R2 a c -> R1 (f a) (g b) /\ R2 (f a) (h c)) ->
  Forall2 R1 (upd_nth c f l1) (upd_nth c g l2) /\ Forall2 R2 (upd_nth c f l1) (upd_nth c h l3).
Proof.
  intros A B C R1 R2 P l1 l2 l3 c HP H1. revert l3 c. induction H1 as [|a b r1 r2 Hab Hr IH]; intros l3 c H2 f g h Hf.
  - inversion H2; subst. destruct c; split; constructor.
  - inversion H2 as [|? x ? r3 Hac Hr3]; subst. inversion HP as [|? ? Pa Pr]; subst.
    destruct c as [|c']; cbn [upd_nth].
    + destruct (Hf a b x Pa Hab Hac) as [B1 B2]. split; constructor; assumption.
    + destruct (IH Pr r3 c' Hr3 f g h Hf) as [A1 A2]. split; constructor; assumption.
Qed.

Theorem step_sstate : forall q sq oq o, State q sq -> SState q sq oq ->
  SState (mstep q o) (sstep sq o) (ostep oq o).
Proof.
  intros q sq oq o St SS. pose proof (proj1 (State_iff q sq) St) as [[Io Ic] Sm]. pose proof (guards_agree q sq o Sm) as G.
  destruct Sm as [Hi [_ Sc]]. destruct SS as [Hn [So [Oc Qc]]].
  pose proof (Forall2_len _ _ _ Oc) as LO.
  unfold mstep, sstep, ostep. rewrite <- G, Hn, <- LO, <- gen_ok_mop.
  destruct (mop_ok q o) eqn:OK; cbn [negb]; [|exact (conj Hn (conj So (conj Oc Qc)))].
  rewrite <- Hi. cbv zeta. set (n := length (m_info q)) in *. set (vt := vt_info (m_info q)).
  destruct o; cbn [mop_ok] in OK; unfold SState; cbn [m_info m_obj m_cons s_info s_obj s_cons o_n o_obj o_cons].
  - (* add_variable *) rewrite app_length. cbn [length]. split; [lia|]. exact (conj So (conj Oc Qc)).
  - (* set info *) rewrite upd_nth_length. split; [exact Hn|]. exact (conj So (conj Oc Qc)).
  - (* remove_variable *)
    apply Nat.ltb_lt in OK. unfold cqm_remove_variable. cbn [m_info m_obj m_cons]. rewrite (remove_nth_length (m_info q) v OK). fold n.
    split; [reflexivity|]. split; [apply (str_reindex n); assumption|].
    apply (Forall2_both _ _ (fun k => ExprInv n (mc_e k)) _ _ _ Ic Oc Qc
             (fun k => mc_set_e k (m_reindex v (mc_e k))) (ord_reindex v) (fun p => relabel (shift v) (remove_variable v p))).
    intros k o p Ik Ho Hq. cbn [mc_e mc_set_e]. exact (str_reindex n (mc_e k) p o v Ik (conj Ho Hq)).
  - (* fix_variable *)
    apply Nat.ltb_lt in OK. unfold cqm_fix_variable, cqm_remove_variable, cqm_substitute. cbn [m_info m_obj m_cons].
    rewrite (remove_nth_length (m_info q) v OK). fold n. rewrite map_map.
    split; [reflexivity|]. split; [exact (str_fix n _ _ _ v a Io So)|].
    change (map (fun k => mc_set_e (mc_set_e k (m_substitute v 0 a (mc_e k))) (m_reindex v (mc_e (mc_set_e k (m_substitute v 0 a (mc_e k)))))) (m_cons q))
      with (map (fun k => mc_set_e k (m_fix v a (mc_e k))) (m_cons q)).
    apply (Forall2_both _ _ (fun k => ExprInv n (mc_e k)) _ _ _ Ic Oc Qc
             (fun k => mc_set_e k (m_fix v a (mc_e k))) (ord_reindex v) (fun p => relabel (shift v) (fix_variable v a p))).
    intros k o p Ik Ho Hq. cbn [mc_e mc_set_e]. exact (str_fix n (mc_e k) p o v a Ik (conj Ho Hq)).
  - (* substitute *)
    unfold cqm_substitute. cbn [m_info m_obj m_cons]. fold n.
    split; [exact Hn|]. split; [exact (str_substitute n _ _ _ v m c Io So)|].
    rewrite <- (map_id (o_cons oq)).
    apply (Forall2_both _ _ (fun k => ExprInv n (mc_e k)) _ _ _ Ic Oc Qc
             (fun k => mc_set_e k (m_substitute v m c (mc_e k))) (fun o => o) (substitute v m c)).
    intros k o p Ik Ho Hq. cbn [mc_e mc_set_e]. exact (str_substitute n (mc_e k) p o v m c Ik (conj Ho Hq)).
  - (* edit *)
    destruct t as [|c].
    + unfold cqm_edit_obj. cbn [m_info m_obj m_cons]. fold n. split; [reflexivity|].
      split; [exact (str_eop n vt o _ _ _ Io OK So)|]. exact (conj Oc Qc).
    + apply andb_true_iff in OK. destruct OK as [_ OK]. unfold cqm_edit_con. cbn [m_info m_obj m_cons]. fold n.
      split; [reflexivity|]. split; [exact So|].
      apply (Forall2_both_nth _ _ (fun k => ExprInv n (mc_e k)) _ _ _ c Ic Oc Qc
               (fun k => mc_set_e k (apply_eop vt o (mc_e k))) (ord_eop o) (spec_eop vt o)).
      intros k o' p Ik Ho Hq. cbn [mc_e mc_set_e]. exact (str_eop n vt o (mc_e k) p o' Ik OK (conj Ho Hq)).
  - (* copy *)
    fold n. split; [reflexivity|]. split; [exact So|]. destruct (str_copy n vt lin quad off mapping OK) as [A B].
    split; (apply Forall2_app; [assumption|]); constructor; try constructor; assumption.
  - (* move *)
    fold n. split; [reflexivity|]. split; [exact So|].
    split; (apply Forall2_app; [assumption|]); constructor; try constructor; reflexivity.
  - (* remove_constraint *)
    fold n. split; [reflexivity|]. split; [exact So|]. split; apply Forall2_remove_nth; assumption.
  - (* attributes *)
    fold n. split; [exact Hn|]. split; [exact So|].
    split; (apply Forall2_upd_nth_l; [assumption|]); intros k x H; exact H.
Qed.

(* for EVERY history: same energy function (coefficients), same variable order, same interaction list *)
Theorem history_exact : forall ops,
  State (mrun ops m_empty) (srun ops s_empty) /\ SState (mrun ops m_empty) (srun ops s_empty) (orun ops o_empty).
Proof.
  intros ops. unfold mrun, srun, orun.
  assert (G : forall q sq oq, State q sq -> SState q sq oq ->
              State (fold_left mstep ops q) (fold_left sstep ops sq)
              /\ SState (fold_left mstep ops q) (fold_left sstep ops sq) (fold_left ostep ops oq)).
  { induction ops as [|o r IH]; intros q sq oq St SS; [split; assumption|]. cbn [fold_left].
    apply IH; [apply step_state; exact St|apply step_sstate; assumption]. }
  apply G.
  - exact (history_state []).
  - unfold SState, m_empty, s_empty, o_empty. cbn. split; [reflexivity|]. split; [split; reflexivity|]. split; constructor.
Qed.

(* ---------- the labelled model: it is always an index-level history of resolved operations ---------- *)
Lemma lstep_resolved : forall q o, exists iops, l_q (lstep q o) = mrun iops (l_q q).
Proof.
  intros [labels m] o. unfold lstep. cbn [l_labels l_q].
  assert (N : exists iops : list mop, m = mrun iops m) by (exists []; reflexivity).
  assert (O : forall x, exists iops : list mop, mstep m x = mrun iops m) by (intros x; exists [x]; reflexivity).
  destruct o; cbn [l_q];
    repeat match goal with
           | |- context [if ?c then _ else _] => destruct c
           | |- context [match resolve ?a ?b with _ => _ end] => destruct (resolve a b)
           | |- context [match resolve_eop ?a ?b with _ => _ end] => destruct (resolve_eop a b)
           | |- context [match resolve_all ?a ?b with _ => _ end] => destruct (resolve_all a b)
           end; cbn [l_q]; auto.
Qed.

Lemma mrun_app : forall a b q, mrun (a ++ b) q = mrun b (mrun a q).
Proof. intros a b q. unfold mrun. apply fold_left_app. Qed.

Theorem labelled_history_exact : forall ops,
  exists iops,
    l_q (lrun ops l_empty) = mrun iops m_empty
    /\ State (mrun iops m_empty) (srun iops s_empty)
    /\ SState (mrun iops m_empty) (srun iops s_empty) (orun iops o_empty).
Proof.
  intros ops.
  assert (G : forall q, exists iops, l_q (lrun ops q) = mrun iops (l_q q)).
  { unfold lrun. induction ops as [|o r IH]; intros q; [exists []; reflexivity|]. cbn [fold_left].
    destruct (IH (lstep q o)) as [i2 H2]. destruct (lstep_resolved q o) as [i1 H1].
    exists (i1 ++ i2). rewrite mrun_app, <- H1. exact H2. }
  destruct (G l_empty) as [iops H]. exists iops. split; [exact H|]. exact (history_exact iops).
Qed.
