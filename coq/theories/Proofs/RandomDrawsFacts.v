(* C17 - the draws that translators/random_draws.py reads off dimod/generators/random.py stay in the documented ranges,
   for the linear biases, the quadratic biases AND the offset, for all parameter values; and the ranges are not
   narrower than documented.  (Semantics of the numpy calls: Model/RandomDraws.v, trusted.) *)
From Coq Require Import List ZArith Lia.
From Dimod Require Import Model.RandomDraws Gen.Gen_RandomDraws.
Import ListNotations.
Open Scope Z_scope.

(* randint(graph, vartype, low, high): every draw is an integer of the INCLUSIVE range [low, high] ... *)
Theorem randint_draws_in_range low high d x :
  In d (triple_list gen_randint_draws) -> in_draw2 low high d x -> low <= x <= high.
Proof.
  unfold gen_randint_draws, triple_list. intros Hin H.
  repeat (destruct Hin as [<-|Hin]; [cbn [in_draw2 eval2] in H; lia|]). destruct Hin.
Qed.

(* ... and every integer of [low, high] can be drawn, by each of the three draws *)
Theorem randint_draws_cover low high d x :
  In d (triple_list gen_randint_draws) -> low <= x <= high -> in_draw2 low high d x.
Proof.
  unfold gen_randint_draws, triple_list. intros Hin H.
  repeat (destruct Hin as [<-|Hin]; [cbn [in_draw2 eval2]; lia|]). destruct Hin.
Qed.

(* uniform(graph, vartype, low, high): each of the three draws is uniform(low, high) with exactly the declared bounds *)
Theorem uniform_draws_bounds d :
  In d (triple_list gen_uniform_draws) -> d = DUniform (1, 0, 0) (0, 1, 0).
Proof.
  unfold gen_uniform_draws, triple_list. intros Hin.
  repeat (destruct Hin as [<-|Hin]; [reflexivity|]). destruct Hin.
Qed.

Theorem uniform_draws_in_range low high d x :
  In d (triple_list gen_uniform_draws) -> in_draw2 low high d x -> low <= x <= high.
Proof. intros Hin H. rewrite (uniform_draws_bounds d Hin) in H. cbn [in_draw2 eval2] in H. lia. Qed.

(* ran_r / power_r: zero linear biases and offset; couplings exactly the non-zero integers of absolute value <= r *)
Definition pm_range (r x : Z) : Prop := (- r <= x <= -1) \/ (1 <= x <= r).

Lemma rvals_pm pieces r x :
  pieces = [((-1, 0), (0, 0)); ((0, 1), (1, 1))] -> (in_rvals r pieces x <-> pm_range r x).
Proof.
  intros ->. unfold in_rvals, pm_range. split.
  - intros [p [[<-|[<-|[]]] H]]; cbn [eval1 fst snd] in H; lia.
  - intros [H|H]; [exists ((-1, 0), (0, 0))|exists ((0, 1), (1, 1))]; (split; [cbn [In]; tauto|cbn [eval1 fst snd]; lia]).
Qed.

Theorem ran_r_draws r x :
  gen_ran_r_draws = (DZero, DChoice, DZero) /\ (in_rvals r gen_ran_r_rvals x <-> pm_range r x).
Proof. split; [reflexivity|apply rvals_pm; reflexivity]. Qed.

Theorem power_r_draws r x :
  gen_power_r_draws = (DZero, DChoice, DZero) /\ (in_rvals r gen_power_r_rvals x <-> pm_range r x).
Proof. split; [reflexivity|apply rvals_pm; reflexivity]. Qed.

(* zero is never a coupling of ran_r / power_r, whatever r *)
Theorem pm_range_nonzero r x : pm_range r x -> x <> 0 /\ Z.abs x <= r.
Proof. unfold pm_range. lia. Qed.
