(* C04: a BinaryQuadraticModel stays a well-formed BQM under every call, on the base object or through any view
   handle; hence after ANY history a raising atomic call is a no-op and a raising loop keeps a successful prefix. *)
From Coq Require Import List ZArith QArith Qcanon Bool Arith Lia.
From Dimod Require Import Base.Util Model.Poly Model.View Model.Hist Proofs.PolyFacts Proofs.HistFacts
  Proofs.HistWf Proofs.HistWf2 Proofs.HistAtomic Proofs.HistAtomicQM Proofs.HistQmAtomic Proofs.HistQmPres Proofs.HistLoops.
Import ListNotations.
Open Scope Qc_scope.

Definition PBW (f : state -> res) : Prop := forall s, BW s -> BW (fst (f s)).

Lemma BW_bind r g : BW (fst r) -> PBW g -> BW (fst (r >>= g)).
Proof. intros Hr Hg. unfold bind. destruct (snd r); [apply Hg; exact Hr|exact Hr]. Qed.
Lemma PBW_seqm {A : Type} (f : A -> state -> res) l : (forall x, PBW (f x)) -> PBW (seqm f l).
Proof.
  intros Hf. induction l as [|x l IH]; [intros s Hs; exact Hs|].
  intros s Hs. cbn [seqm]. apply BW_bind; [apply Hf; exact Hs|exact IH].
Qed.

Lemma PBW_of_good (f : state -> res) : (forall s, B s -> good s (f s)) -> pres f -> PBW f.
Proof. intros G P s [Hb Hw]. split; [apply (G s Hb)|apply P; exact Hw]. Qed.

Lemma PBW_h_add_linear h v (b : state -> Qc) : PBW (fun s => h_add_linear h v (b s) s).
Proof. intros s [Hb Hw]. split; [apply (good_h_add_linear h v (b s) s Hb)|apply pres_h_add_linear; exact Hw]. Qed.
Lemma PBW_h_set_linear h v (b : state -> Qc) : PBW (fun s => h_set_linear h v (b s) s).
Proof. intros s [Hb Hw]. split; [apply (good_h_set_linear h v (b s) s Hb)|apply pres_h_set_linear; exact Hw]. Qed.
Lemma PBW_h_add_variable h v b : PBW (h_add_variable h v b).
Proof. intros s [Hb Hw]. split; [apply (good_h_add_variable h v b s Hb)|apply pres_h_add_variable; exact Hw]. Qed.
Lemma PBW_h_set_offset h (b : state -> Qc) : PBW (fun s => h_set_offset h (b s) s).
Proof. intros s [Hb Hw]. split; [apply (good_h_set_offset h (b s) s Hb)|apply pres_h_set_offset; exact Hw]. Qed.
Lemma PBW_h_add_offset h (b : state -> Qc) : PBW (fun s => h_add_offset h (b s) s).
Proof. intros s Hs. unfold h_add_offset. exact (PBW_h_set_offset h (fun s => h_get_offset h s + b s) s Hs). Qed.
Lemma PBW_h_add_quadratic h u v (b : state -> Qc) : PBW (fun s => h_add_quadratic h u v (b s) s).
Proof. intros s [Hb Hw]. split; [apply B_h_add_quadratic; exact Hb|apply pres_h_add_quadratic; exact Hw]. Qed.
Lemma PBW_h_set_quadratic h u v (b : state -> Qc) : PBW (fun s => h_set_quadratic h u v (b s) s).
Proof.
  intros s [Hb Hw]. split; [|apply pres_h_set_quadratic; exact Hw].
  destruct (snd (h_set_quadratic h u v (b s) s)) eqn:R.
  - destruct (Nat.eq_dec u v) as [E|E]; [|apply (good_h_set_quadratic h u v (b s) s Hb E)].
    exfalso. subst. unfold h_set_quadratic in R. destruct h.
    + unfold d_set_quadratic in R. rewrite (bqm_guard v v s Hb), Nat.eqb_refl in R. discriminate.
    + rewrite (bqm_guard v v s Hb), Nat.eqb_refl in R. discriminate.
  - destruct (h_set_quadratic_raise h u v (b s) s b0 Hb R) as [E _]. rewrite E. exact Hb.
Qed.
Lemma PBW_h_remove_interaction h u v : PBW (h_remove_interaction h u v).
Proof. intros s [Hb Hw]. split; [apply B_h_remove_interaction; exact Hb|apply pres_h_remove_interaction; exact Hw]. Qed.
Lemma PBW_h_remove_variable h ov : PBW (h_remove_variable h ov).
Proof.
  intros s [Hb Hw]. split; [|apply pres_h_remove_variable; exact Hw].
  destruct ov as [v|]; [apply B_h_remove_variable_some; assumption|].
  destruct (last_label s) as [v|] eqn:Ev.
  - replace (h_remove_variable h None s) with (h_remove_variable h (Some v) s)
      by (unfold h_remove_variable; rewrite Ev; reflexivity).
    apply B_h_remove_variable_some; assumption.
  - unfold h_remove_variable. rewrite Ev. exact Hb.
Qed.

Lemma PBW_m_contract h u v : PBW (m_contract h u v).
Proof.
  intros s Hs. unfold m_contract. destruct (negb (has_var s u && has_var s v) || (u =? v)%nat); [exact Hs|].
  apply BW_bind; [apply BW_bind; [apply BW_bind; [apply BW_bind|]|]|].
  - exact (PBW_h_add_linear h u (fun _ => opt0 (h_get_linear h v s)) s Hs).
  - intros s' Hs'. destruct (hvt h s').
    + exact (PBW_h_add_linear h u (fun _ => opt0 (h_get_quadratic h u v s)) s' Hs').
    + exact (PBW_h_add_offset h (fun _ => opt0 (h_get_quadratic h u v s)) s' Hs').
    + exact (PBW_h_add_offset h (fun _ => opt0 (h_get_quadratic h u v s)) s' Hs').
    + exact (PBW_h_add_offset h (fun _ => opt0 (h_get_quadratic h u v s)) s' Hs').
  - intros s' Hs'. destruct (h_get_quadratic h u v s); [apply PBW_h_remove_interaction|]; exact Hs'.
  - intros s' Hs'. apply PBW_seqm; [|exact Hs']. intros t. exact (PBW_h_add_quadratic h u (fst t) (fun _ => snd t)).
  - apply PBW_h_remove_variable.
Qed.

Lemma PBW_m_flip h v : PBW (m_flip h v).
Proof.
  intros s Hs. unfold m_flip. destruct (negb (has_var s v)); [exact Hs|].
  destruct (match st_kind s with Some _ => hvt h s | None => vt_of s v end); try exact Hs.
  - apply BW_bind; [apply BW_bind; [apply PBW_seqm; [|exact Hs]|]|].
    + intros t s' Hs'. apply BW_bind; [exact (PBW_h_set_quadratic h (fst t) v (fun _ => - snd t) s' Hs')|].
      exact (PBW_h_add_linear h (fst t) (fun _ => snd t)).
    + exact (PBW_h_add_offset h (fun s => opt0 (h_get_linear h v s))).
    + exact (PBW_h_set_linear h v (fun s => - opt0 (h_get_linear h v s))).
  - apply BW_bind; [apply PBW_seqm; [|exact Hs]|].
    + intros t. exact (PBW_h_set_quadratic h (fst t) v (fun _ => - snd t)).
    + exact (PBW_h_set_linear h v (fun s => - opt0 (h_get_linear h v s))).
Qed.

Lemma PBW_m_fix h v a : PBW (m_fix h v a).
Proof.
  intros s Hs. unfold m_fix. destruct (negb (has_var s v)); [exact Hs|].
  apply BW_bind; [apply BW_bind; [apply PBW_seqm; [|exact Hs]|]|].
  - intros t. exact (PBW_h_add_linear h (fst t) (fun _ => a * snd t)).
  - exact (PBW_h_add_offset h (fun s => a * opt0 (h_get_linear h v s))).
  - apply PBW_h_remove_variable.
Qed.

Lemma PBW_m_scale h k iv ii io : PBW (m_scale h k iv ii io).
Proof.
  assert (Hloop : PBW (fun s =>
      seqm (fun v s => if mem_label v iv then ok s
                       else h_set_linear h v (k * opt0 (h_get_linear h v s)) s) (labels s) s
      >>= (fun s => seqm (fun t s => if mem_pair (fst t) (snd t) ii then ok s
                                     else h_set_quadratic h (fst t) (snd t)
                                            (k * opt0 (h_get_quadratic h (fst t) (snd t) s)) s)
                         (pairs s) s)
      >>= fun s => if io then ok s else h_set_offset h (h_get_offset h s * k) s)).
  { intros s Hs. apply BW_bind; [apply BW_bind; [apply PBW_seqm; [|exact Hs]|]|].
    - intros x s' Hs'. destruct (mem_label x iv); [exact Hs'|].
      exact (PBW_h_set_linear h x (fun s => k * opt0 (h_get_linear h x s)) s' Hs').
    - intros s' Hs'. apply PBW_seqm; [|exact Hs']. intros t s'' Hs''. destruct (mem_pair (fst t) (snd t) ii); [exact Hs''|].
      exact (PBW_h_set_quadratic h (fst t) (snd t) (fun s => k * opt0 (h_get_quadratic h (fst t) (snd t) s)) s'' Hs'').
    - intros s' Hs'. destruct io; [exact Hs'|]. exact (PBW_h_set_offset h (fun s => h_get_offset h s * k) s' Hs'). }
  intros s Hs. unfold m_scale.
  destruct h as [|wv]; [|exact (Hloop s Hs)].
  destruct iv as [|x iv']; [destruct ii as [|y ii']; [destruct io|]|]; try (exact (Hloop s Hs)).
  cbn [fst ok]. destruct Hs as [Hb Hw]. split; [exact Hb|apply wf_scale; exact Hw].
Qed.

Lemma PBW_m_update_bqm h o : PBW (m_update_bqm h o).
Proof.
  intros s Hs. unfold m_update_bqm. apply BW_bind; [apply BW_bind; [apply PBW_seqm; [|exact Hs]|]|].
  - intros x. exact (PBW_h_add_linear h x (fun _ => opt0 (h_get_linear (Via (hvt h s)) x o))).
  - intros s' Hs'. apply PBW_seqm; [|exact Hs']. intros t.
    exact (PBW_h_add_quadratic h (fst t) (snd t) (fun _ => opt0 (h_get_quadratic (Via (hvt h s)) (fst t) (snd t) o))).
  - intros s' Hs'. exact (PBW_h_add_offset h (fun _ => h_get_offset (Via (hvt h s)) o) s' Hs').
Qed.

(* ---------- every call ---------- *)
Theorem bqm_inv_step s h o : op_ok_bqm o -> BW s -> BW (fst (step s (h, o))).
Proof.
  intros Ho Hs. pose proof Hs as [Hb Hw]. pose proof Hb as Hb'. unfold B in Hb'.
  split; [|apply wf_step; [destruct o; try exact I; apply Ho|exact Hw]].
  destruct o; cbn [step]; rewrite ?Hb'; try exact Hb.
  - apply (PBW_h_add_variable h v b s Hs).
  - apply (PBW_h_add_linear h v (fun _ => b) s Hs).
  - apply (PBW_h_set_linear h v (fun _ => b) s Hs).
  - apply (PBW_h_add_quadratic h u v (fun _ => b) s Hs).
  - apply (PBW_h_set_quadratic h u v (fun _ => b) s Hs).
  - apply (PBW_seqm (fun t => h_add_linear h (fst t) (snd t))); [|exact Hs]. intros t. exact (PBW_h_add_linear h (fst t) (fun _ => snd t)).
  - apply (PBW_seqm (fun t => h_add_quadratic h (fst (fst t)) (snd (fst t)) (snd t))); [|exact Hs].
    intros t. exact (PBW_h_add_quadratic h (fst (fst t)) (snd (fst t)) (fun _ => snd t)).
  - apply (PBW_h_remove_variable h v s Hs).
  - apply (PBW_seqm (fun x => h_remove_variable h (Some x))); [|exact Hs]. intros x. apply PBW_h_remove_variable.
  - apply (PBW_h_remove_interaction h u v s Hs).
  - apply (PBW_seqm (fun t => h_remove_interaction h (fst t) (snd t))); [|exact Hs]. intros t. apply PBW_h_remove_interaction.
  - apply (PBW_m_contract h u v s Hs).
  - apply (PBW_m_flip h v s Hs).
  - unfold m_relabel. destruct (relabel_ok m s); exact Hb.
  - unfold m_relabel_ints, m_relabel. destruct (relabel_ok _ s); exact Hb.
  - unfold m_relabel_py. destruct (relabel_ok m s); exact Hb.
  - unfold m_relabel_ints_py, m_relabel_py. destruct (relabel_ok _ s); exact Hb.
  - apply (PBW_m_scale h k iv ii io s Hs).
  - apply (PBW_m_update_bqm h other s Hs).
  - apply (PBW_h_set_offset h (fun _ => b) s Hs).
  - unfold m_resize. destruct (n <? 0)%Z; [exact Hb|]. destruct (Z.to_nat n <=? num_variables s)%nat; [exact Hb|].
    cbn [ok fst]. generalize (firstn (Z.to_nat n - num_variables s) fresh). intros l. revert s Hb Hs Hw Hb'.
    induction l as [|x l IH]; intros s Hb Hs Hw Hb'; [exact Hb|]. cbn [fold_left].
    assert (Hb1 : B (ensure x s)) by (apply B_ensure; exact Hb).
    apply IH; [exact Hb1|split; [exact Hb1|apply wf_ensure; exact Hw]|apply wf_ensure; exact Hw|exact Hb1].
  - unfold m_change_vartype_bqm. destruct (negb (is_sb vt)); [exact Hb|]. destruct (vartype_eqb vt (bvt s)); [exact Hb|reflexivity].
  - apply (PBW_m_fix h v a s Hs).
Qed.

Definition bqm_hist_ok (l : list (handle * op)) : Prop := Forall (fun ho => op_ok_bqm (snd ho)) l.

Theorem bqm_inv_reachable l : forall s, BW s -> bqm_hist_ok l -> BW (run s l).
Proof.
  induction l as [|[h o] l IH]; intros s Hs Hl; [exact Hs|].
  inversion Hl as [|? ? Ho Hl']; subst. cbn [snd] in Ho. unfold run. cbn [fold_left].
  apply IH; [|exact Hl']. apply bqm_inv_step; assumption.
Qed.

(* after any history of calls - base object, fresh or stale view handles, loops, vartype changes included -
   a raising atomic call leaves the model unchanged *)
Theorem bqm_reachable_failed_op_is_noop s l h o e :
  B s -> wf s -> bqm_hist_ok l -> atomic o = true -> op_ok_bqm o ->
  snd (step (run s l) (h, o)) = Raised e -> fst (step (run s l) (h, o)) = run s l.
Proof.
  intros Hb Hw Hl Ha Ho. destruct (bqm_inv_reachable l s (conj Hb Hw) Hl) as [Hb' Hw'].
  apply failed_op_is_noop_bqm; assumption.
Qed.

Theorem bqm_reachable_failed_loop_keeps_prefix s l h o e :
  B s -> wf s -> bqm_hist_ok l -> bqm_loop o = true ->
  snd (step (run s l) (h, o)) = Raised e ->
  exists k, (k < arg_length o)%nat /\ snd (step (run s l) (h, take_op k o)) = Ok
            /\ fst (step (run s l) (h, o)) = fst (step (run s l) (h, take_op k o)).
Proof.
  intros Hb Hw Hl Ha. destruct (bqm_inv_reachable l s (conj Hb Hw) Hl) as [Hb' Hw'].
  apply failed_loop_keeps_prefix_bqm; assumption.
Qed.

Print Assumptions bqm_inv_step.
Print Assumptions bqm_reachable_failed_op_is_noop.
Print Assumptions bqm_reachable_failed_loop_keeps_prefix.
