From Coq Require Import List Arith Bool Lia.
From Dimod Require Import Model.Store.
Import ListNotations.

Section StoreFacts.
  Variable state : Type.
  Variable viewfn : nat -> state -> state.
  Notation store := (store state).
  Notation read := (read state viewfn).
  Notation step := (step state viewfn).
  Notation run := (run state viewfn).
  Notation owner := (owner state).
  Notation own_state := (own_state state).
  Notation set_nth := (set_nth state).

  Lemma set_nth_other (s : store) : forall i j c, i <> j -> nth_error (set_nth s i c) j = nth_error s j.
  Proof.
    induction s as [|x r IH]; intros i j c H; [destruct i; reflexivity|].
    destruct i as [|i], j as [|j]; cbn; try reflexivity; [congruence|]. apply IH. congruence.
  Qed.

  Lemma set_nth_same (s : store) : forall i c, i < length s -> nth_error (set_nth s i c) i = Some c.
  Proof.
    induction s as [|x r IH]; intros i c H; [cbn in H; lia|].
    destruct i as [|i]; cbn; [reflexivity|]. apply IH. cbn in H. lia.
  Qed.

  Lemma set_nth_length (s : store) : forall i c, length (set_nth s i c) = length s.
  Proof. induction s as [|x r IH]; intros [|i] c; cbn; auto. Qed.

  (* views point at owning cells *)
  Definition wf (s : store) : Prop :=
    forall i p w, nth_error s i = Some (View p w) -> exists st, nth_error s p = Some (Own st).

  Lemma own_state_Some (s : store) i st : own_state s i = Some st -> nth_error s i = Some (Own st).
  Proof. unfold own_state. destruct (nth_error s i) as [[x|p w]|]; intros H; inversion H; reflexivity. Qed.

  Lemma owner_is_owner (s : store) i : wf s -> i < length s -> exists st, nth_error s (owner s i) = Some (Own st).
  Proof.
    intros W Hi. unfold owner. destruct (nth_error s i) as [[st|p w]|] eqn:E.
    - exists st. assumption.
    - apply (W i p w E).
    - apply nth_error_None in E. lia.
  Qed.

  (* an edit through handle i rewrites only i's alias class *)
  Lemma edit_cells (s : store) i e j :
    owner s i <> j -> nth_error (step s (Edit i e)) j = nth_error s j.
  Proof.
    intros H. cbn [Store.step]. destruct (own_state s (owner s i)); [apply set_nth_other; assumption|reflexivity].
  Qed.

  Lemma edit_kind (s : store) i e j :
    match nth_error (step s (Edit i e)) j, nth_error s j with
    | Some (View p w), Some (View p' w') => p = p' /\ w = w'
    | Some (Own _), Some (Own _) => True
    | None, None => True
    | _, _ => False
    end.
  Proof.
    cbn [Store.step]. destruct (own_state s (owner s i)) as [st|] eqn:E.
    - destruct (Nat.eq_dec (owner s i) j) as [<-|Hne].
      + apply own_state_Some in E. rewrite E.
        rewrite set_nth_same by (apply nth_error_Some; congruence). exact I.
      + rewrite set_nth_other by assumption. destruct (nth_error s j) as [[x|p w]|]; auto.
    - destruct (nth_error s j) as [[x|p w]|]; auto.
  Qed.

  Lemma edit_owner (s : store) i e j : owner (step s (Edit i e)) j = owner s j.
  Proof.
    pose proof (edit_kind s i e j) as K. unfold owner.
    destruct (nth_error (step s (Edit i e)) j) as [[x|p w]|], (nth_error s j) as [[x'|p' w']|]; try contradiction; try reflexivity.
    destruct K; assumption.
  Qed.

  Theorem frame_non_alias (s : store) i e j :
    owner s i <> owner s j -> read (step s (Edit i e)) j = read s j.
  Proof.
    intros H. unfold Store.read.
    assert (nth_error (step s (Edit i e)) j = nth_error s j) as Ej.
    { cbn [Store.step]. destruct (own_state s (owner s i)) as [st|] eqn:Eo; [|reflexivity].
      apply set_nth_other. intros E. apply H. apply own_state_Some in Eo. rewrite E in Eo. rewrite E.
      unfold Store.owner. rewrite Eo. reflexivity. }
    rewrite Ej. destruct (nth_error s j) as [[x|p w]|] eqn:Ex; try reflexivity.
    f_equal. unfold Store.own_state. rewrite edit_cells; [reflexivity|].
    unfold owner in H at 2. rewrite Ex in H. assumption.
  Qed.

  (* ---- sequences of edits ---- *)
  Definition edits := list (nat * (state -> state)).
  Definition run_edits (s : store) (es : edits) : store := fold_left (fun s ie => step s (Edit (fst ie) (snd ie))) es s.

  Theorem edits_frame (es : edits) : forall (s : store) j,
    (forall ie, In ie es -> owner s (fst ie) <> owner s j) -> read (run_edits s es) j = read s j.
  Proof.
    induction es as [|[i e] r IH]; intros s j H; [reflexivity|].
    change (run_edits s ((i, e) :: r)) with (run_edits (step s (Edit i e)) r). rewrite IH.
    - apply frame_non_alias. apply (H (i, e)). left. reflexivity.
    - intros ie Hin. rewrite !edit_owner. apply H. right. assumption.
  Qed.

  Lemma nth_error_snoc (s : store) c i : i < length s -> nth_error (s ++ [c]) i = nth_error s i.
  Proof. intros H. apply nth_error_app1. assumption. Qed.

  Lemma read_snoc (s : store) c i : wf s -> i < length s -> read (s ++ [c]) i = read s i.
  Proof.
    intros W H. unfold Store.read. rewrite nth_error_snoc by assumption.
    destruct (nth_error s i) as [[x|p w]|] eqn:E; try reflexivity.
    destruct (W i p w E) as [st Hp]. unfold Store.own_state. rewrite nth_error_snoc; [reflexivity|].
    apply nth_error_Some. congruence.
  Qed.

  Lemma owner_snoc (s : store) c i : i < length s -> owner (s ++ [c]) i = owner s i.
  Proof. intros H. unfold Store.owner. rewrite nth_error_snoc by assumption. reflexivity. Qed.

  Lemma owner_lt (s : store) i : wf s -> i < length s -> owner s i < length s.
  Proof.
    intros W H. destruct (owner_is_owner s i W H) as [st E]. apply nth_error_Some. congruence.
  Qed.

  (* after a copy-producing call, no sequence of in-place edits through the old handles is visible
     through the new object, and no sequence of edits of the new object is visible through any old handle *)
  Theorem copy_then_edit_independent (s : store) src f st (es : edits) :
    wf s -> read s src = Some st ->
    let s1 := step s (CopyOf src f) in
    let k := length s in
    ((forall ie, In ie es -> fst ie < length s) -> read (run_edits s1 es) k = Some (f st))
    /\ ((forall ie, In ie es -> fst ie = k) -> forall j, j < length s -> read (run_edits s1 es) j = read s j).
  Proof.
    intros W R. cbn zeta. cbn [Store.step]. rewrite R.
    assert (nth_error (s ++ [Own (f st)]) (length s) = Some (Own (f st))) as Ek.
    { rewrite nth_error_app2 by lia. rewrite Nat.sub_diag. reflexivity. }
    assert (owner (s ++ [Own (f st)]) (length s) = length s) as Ok_ by (unfold Store.owner; rewrite Ek; reflexivity).
    split.
    - intros H. rewrite edits_frame.
      + unfold Store.read. rewrite Ek. reflexivity.
      + intros ie Hin. rewrite Ok_, owner_snoc by (apply H; assumption).
        pose proof (owner_lt s (fst ie) W (H ie Hin)). lia.
    - intros H j Hj. rewrite edits_frame.
      + apply read_snoc; assumption.
      + intros ie Hin. rewrite (H ie Hin), Ok_, owner_snoc by assumption.
        pose proof (owner_lt s j W Hj). lia.
  Qed.

  (* a view always shows the view function applied to what its parent currently holds, whatever happens *)
  Theorem views_track_parent (s : store) o v p w :
    wf s -> nth_error s v = Some (View p w) ->
    read (step s o) v = option_map (viewfn w) (own_state (step s o) p).
  Proof.
    intros W E.
    assert (v < length s) as Hv by (apply nth_error_Some; congruence).
    assert (nth_error (step s o) v = Some (View p w)) as E'.
    { destruct o as [st|src f|q w'|i e].
      - cbn [Store.step]. rewrite nth_error_snoc; assumption.
      - cbn [Store.step]. destruct (read s src); [rewrite nth_error_snoc; assumption|assumption].
      - cbn [Store.step]. rewrite nth_error_snoc; assumption.
      - pose proof (edit_kind s i e v) as K. rewrite E in K.
        destruct (nth_error (step s (Edit i e)) v) as [[x|p' w'']|] eqn:Ev; try contradiction.
        destruct K as [-> ->]. reflexivity. }
    unfold Store.read. rewrite E'. reflexivity.
  Qed.
End StoreFacts.
