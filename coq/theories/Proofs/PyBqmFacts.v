(* Proofs about the pyBQM model (Model/PyBqm.v): energies agrees with the specification
   Samples.energies on the reported polynomial; change_vartype (with the multipliers
   read from the source by translators/pybqm_multipliers.py) realises the affine change
   of variable on energies, preserves well-formedness and round-trips exactly. *)
From Coq Require Import List ZArith QArith Qcanon Bool Arith Lia.
From Dimod Require Import Base.Util Model.Poly Model.Samples Model.PyBqm Proofs.PolyFacts Proofs.SamplesFacts.
Import ListNotations.
Open Scope Qc_scope.

(* ---------- generic facts about finite sums ---------- *)

Lemma qsm_ext {A} (f g : A -> Qc) l :
  (forall x, In x l -> f x = g x) -> qsum (map f l) = qsum (map g l).
Proof.
  induction l as [|a r IH]; intros H; cbn [map qsum]; [reflexivity|].
  rewrite (H a (or_introl eq_refl)), IH; [reflexivity|]. intros x Hx. apply H. right. exact Hx.
Qed.

Lemma qsm_zero {A} (f : A -> Qc) l : (forall x, In x l -> f x = 0) -> qsum (map f l) = 0.
Proof.
  induction l as [|a r IH]; intros H; cbn [map qsum]; [reflexivity|].
  rewrite (H a (or_introl eq_refl)), IH; [ring|]. intros x Hx. apply H. right. exact Hx.
Qed.

Lemma qsm_add {A} (f g : A -> Qc) l :
  qsum (map (fun x => f x + g x) l) = qsum (map f l) + qsum (map g l).
Proof. induction l as [|a r IH]; cbn [map qsum]; [ring|rewrite IH; ring]. Qed.

Lemma qsm_scale {A} k (f : A -> Qc) l : qsum (map (fun x => k * f x) l) = k * qsum (map f l).
Proof. induction l as [|a r IH]; cbn [map qsum]; [ring|rewrite IH; ring]. Qed.

Lemma qsm_swap {A B} (F : A -> B -> Qc) l1 l2 :
  qsum (map (fun a => qsum (map (fun b => F a b) l2)) l1) =
  qsum (map (fun b => qsum (map (fun a => F a b) l1)) l2).
Proof.
  induction l1 as [|a r IH]; cbn [map qsum].
  - symmetry. apply qsm_zero. reflexivity.
  - rewrite IH. rewrite <- qsm_add. reflexivity.
Qed.

Lemma qsm_filter {A} (p : A -> bool) (f : A -> Qc) l :
  qsum (map f (filter p l)) = qsum (map (fun x => if p x then f x else 0) l).
Proof.
  induction l as [|a r IH]; cbn [filter map qsum]; [reflexivity|].
  destruct (p a); cbn [map qsum]; rewrite IH; ring.
Qed.

(* changing one point of the summand, over a duplicate-free index list *)
Lemma qsm_upd (K : list label) (g g' : label -> Qc) v d :
  NoDup K -> In v K -> g' v = g v + d -> (forall k, k <> v -> g' k = g k) ->
  qsum (map g' K) = d + qsum (map g K).
Proof.
  induction K as [|x r IH]; intros ND Hin Hv Ho; [destruct Hin|].
  inversion ND as [|x' r' Hx NDr]; subst. cbn [map qsum].
  destruct (Nat.eq_dec x v) as [->|Hne].
  - rewrite Hv. rewrite (qsm_ext g' g r); [ring|].
    intros k Hk. apply Ho. intros ->. exact (Hx Hk).
  - destruct Hin as [Hxv|Hin]; [contradiction|].
    rewrite (Ho x Hne), (IH NDr Hin Hv Ho). ring.
Qed.

(* ---------- association lists ---------- *)

Lemma pb_mem_spec v l : pb_mem v l = true <-> In v l.
Proof.
  unfold pb_mem. rewrite existsb_exists. split.
  - intros [x [Hx He]]. apply Nat.eqb_eq in He. subst. exact Hx.
  - intros H. exists v. split; [exact H|apply Nat.eqb_refl].
Qed.

Lemma pb_mem_false v l : pb_mem v l = false <-> ~ In v l.
Proof.
  rewrite <- pb_mem_spec. destruct (pb_mem v l); split; intro H.
  - discriminate H.
  - exfalso. apply H. reflexivity.
  - intro H'. discriminate H'.
  - reflexivity.
Qed.

Lemma pb_nodupb_spec l : pb_nodupb l = true -> NoDup l.
Proof.
  induction l as [|x r IH]; cbn [pb_nodupb]; intros H; [constructor|].
  apply andb_true_iff in H. destruct H as [H1 H2]. constructor.
  - apply negb_true_iff in H1. apply pb_mem_false. exact H1.
  - apply IH. exact H2.
Qed.

Lemma pb_get_notin (l : pb_rowt) v : ~ In v (map fst l) -> pb_get l v = 0.
Proof.
  induction l as [|[k b] r IH]; cbn [pb_get map fst]; intros H; [reflexivity|].
  destruct (Nat.eqb_spec k v) as [->|Hne]; [exfalso; apply H; left; reflexivity|].
  apply IH. intro Hin. apply H. right. exact Hin.
Qed.

Lemma pb_get_in (l : pb_rowt) v b : NoDup (map fst l) -> In (v, b) l -> pb_get l v = b.
Proof.
  induction l as [|[k c] r IH]; cbn [pb_get map fst]; intros ND Hin; [destruct Hin|].
  inversion ND as [|x' r' Hx NDr]; subst.
  destruct Hin as [Heq|Hin].
  - inversion Heq; subst. rewrite Nat.eqb_refl. reflexivity.
  - destruct (Nat.eqb_spec k v) as [->|Hne]; [|apply IH; assumption].
    exfalso. apply Hx. apply (in_map fst) in Hin. exact Hin.
Qed.

Lemma in_keys_ex {B} (l : list (label * B)) v : In v (map fst l) -> exists b, In (v, b) l.
Proof.
  intros H. apply in_map_iff in H. destruct H as [[k b] [He Hin]]. cbn [fst] in He. subst.
  exists b. exact Hin.
Qed.

Lemma pb_row_in adj u Nu : NoDup (map fst adj) -> In (u, Nu) adj -> pb_row adj u = Nu.
Proof.
  induction adj as [|[k Nk] r IH]; cbn [pb_row map fst]; intros ND Hin; [destruct Hin|].
  inversion ND as [|x' r' Hx NDr]; subst.
  destruct Hin as [Heq|Hin].
  - inversion Heq; subst. rewrite Nat.eqb_refl. reflexivity.
  - destruct (Nat.eqb_spec k u) as [->|Hne]; [|apply IH; assumption].
    exfalso. apply Hx. apply (in_map fst) in Hin. exact Hin.
Qed.

Lemma adj_functional {B} (adj : list (label * B)) u N1 N2 :
  NoDup (map fst adj) -> In (u, N1) adj -> In (u, N2) adj -> N1 = N2.
Proof.
  induction adj as [|[k Nk] r IH]; cbn [map fst]; intros ND H1 H2; [destruct H1|].
  inversion ND as [|x' r' Hx NDr]; subst.
  destruct H1 as [E1|H1], H2 as [E2|H2].
  - congruence.
  - inversion E1; subst. exfalso. apply Hx. apply (in_map fst) in H2. exact H2.
  - inversion E2; subst. exfalso. apply Hx. apply (in_map fst) in H1. exact H1.
  - apply IH; assumption.
Qed.

(* a sum over the entries of a row is a sum over any duplicate-free superset of its keys *)
Lemma row_sum_keys (f : label -> Qc -> Qc) (l : pb_rowt) (K : list label) :
  NoDup (map fst l) -> NoDup K -> incl (map fst l) K -> (forall v, f v 0 = 0) ->
  qsum (map (fun vb => f (fst vb) (snd vb)) l) = qsum (map (fun v => f v (pb_get l v)) K).
Proof.
  intros NDl NDK Hincl Hf0. induction l as [|[v b] r IH]; cbn [map qsum fst snd].
  - symmetry. apply qsm_zero. intros x _. cbn [pb_get]. apply Hf0.
  - cbn [map fst] in NDl, Hincl. inversion NDl as [|x' r' Hx NDr]; subst.
    rewrite IH; [|exact NDr|intros x Hxr; apply Hincl; right; exact Hxr].
    symmetry. apply (qsm_upd K (fun k => f k (pb_get r k)) (fun k => f k (pb_get ((v, b) :: r) k)) v (f v b)).
    + exact NDK.
    + apply Hincl. left. reflexivity.
    + cbn [pb_get]. rewrite Nat.eqb_refl. rewrite (pb_get_notin r v Hx), Hf0. ring.
    + intros k Hk. cbn [pb_get]. destruct (Nat.eqb_spec v k) as [->|_]; [contradiction|reflexivity].
Qed.

(* ---------- well-formed states ---------- *)

Definition pb_row_wf (adj : list (label * pb_rowt)) (u : label) (Nu : pb_rowt) : Prop :=
  NoDup (map fst Nu) /\ In u (map fst Nu) /\
  forall v b, In (v, b) Nu -> v <> u -> exists Nv, In (v, Nv) adj /\ In (u, b) Nv.

Definition pb_wf (m : pybqm) : Prop :=
  NoDup (pb_vars m) /\ forall u Nu, In (u, Nu) (pb_adj m) -> pb_row_wf (pb_adj m) u Nu.

Lemma Qc_eqb_eq (a b : Qc) : Qc_eqb a b = true -> a = b.
Proof. unfold Qc_eqb. intros H. apply Qc_is_canon. apply Qeq_bool_eq. exact H. Qed.

Lemma pb_has_in row v b : pb_has row v b = true -> In (v, b) row.
Proof.
  unfold pb_has. rewrite existsb_exists. intros [[k c] [Hin H]]. cbn [fst snd] in H.
  apply andb_true_iff in H. destruct H as [H1 H2]. apply Nat.eqb_eq in H1. apply Qc_eqb_eq in H2.
  subst. exact Hin.
Qed.

Lemma pb_row_in_keys adj v : In v (map fst adj) -> In (v, pb_row adj v) adj.
Proof.
  induction adj as [|[k Nk] r IH]; cbn [pb_row map fst]; intros H; [destruct H|].
  destruct (Nat.eqb_spec k v) as [->|Hne]; [left; reflexivity|].
  destruct H as [H|H]; [contradiction|]. right. apply IH. exact H.
Qed.

(* the executable check implies the predicate the theorems assume *)
Theorem pb_wfb_sound m : pb_wfb m = true -> pb_wf m.
Proof.
  unfold pb_wfb. intros H. apply andb_true_iff in H. destruct H as [H1 H2].
  split; [apply pb_nodupb_spec; exact H1|].
  intros u Nu Hin. rewrite forallb_forall in H2. specialize (H2 (u, Nu) Hin).
  cbn [fst snd] in H2. unfold pb_row_wfb in H2.
  apply andb_true_iff in H2. destruct H2 as [H2 H3]. apply andb_true_iff in H2. destruct H2 as [Ha Hb].
  split; [apply pb_nodupb_spec; exact Ha|]. split; [apply pb_mem_spec; exact Hb|].
  intros v b Hvb Hne. rewrite forallb_forall in H3. specialize (H3 (v, b) Hvb). cbn [fst snd] in H3.
  apply orb_true_iff in H3. destruct H3 as [H3|H3]; [apply Nat.eqb_eq in H3; contradiction|].
  apply andb_true_iff in H3. destruct H3 as [Hk Hh].
  exists (pb_row (pb_adj m) v). split.
  - apply pb_row_in_keys. apply pb_mem_spec. exact Hk.
  - apply pb_has_in. exact Hh.
Qed.

Lemma wf_row_incl m u Nu : pb_wf m -> In (u, Nu) (pb_adj m) -> incl (map fst Nu) (pb_vars m).
Proof.
  intros [ND W] Hin v Hv. destruct (W u Nu Hin) as [_ [_ Hs]].
  destruct (in_keys_ex Nu v Hv) as [b Hb].
  destruct (Nat.eq_dec v u) as [->|Hne].
  - unfold pb_vars. apply (in_map fst) in Hin. exact Hin.
  - destruct (Hs v b Hb Hne) as [Nv [HNv _]]. unfold pb_vars. apply (in_map fst) in HNv. exact HNv.
Qed.

(* off-diagonal stored bias of row u at column v *)
Definition qrow (u : label) (Nu : pb_rowt) (v : label) : Qc := if (u =? v)%nat then 0 else pb_get Nu v.

Lemma qrow_sym m u Nu v Nv :
  pb_wf m -> In (u, Nu) (pb_adj m) -> In (v, Nv) (pb_adj m) -> qrow u Nu v = qrow v Nv u.
Proof.
  intros W Hu Hv. pose proof W as [ND Wr]. unfold qrow.
  destruct (Nat.eqb_spec u v) as [->|Hne].
  - rewrite Nat.eqb_refl. reflexivity.
  - destruct (Nat.eqb_spec v u) as [E|_]; [symmetry in E; contradiction|].
    destruct (Wr u Nu Hu) as [NDu [_ Su]]. destruct (Wr v Nv Hv) as [NDv [_ Sv]].
    destruct (in_dec Nat.eq_dec v (map fst Nu)) as [Hin|Hnin].
    + destruct (in_keys_ex Nu v Hin) as [b Hb].
      destruct (Su v b Hb (not_eq_sym Hne)) as [Nv' [HNv' Hub]].
      assert (Nv' = Nv) by (eapply adj_functional; eassumption). subst Nv'.
      rewrite (pb_get_in Nu v b NDu Hb), (pb_get_in Nv u b NDv Hub). reflexivity.
    + rewrite (pb_get_notin Nu v Hnin). symmetry. apply pb_get_notin. intro Hin.
      destruct (in_keys_ex Nv u Hin) as [b Hb].
      destruct (Sv u b Hb Hne) as [Nu' [HNu' Hvb]].
      assert (Nu' = Nu) by (eapply adj_functional; eassumption). subst Nu'.
      apply Hnin. apply (in_map fst) in Hvb. exact Hvb.
Qed.

(* ---------- energies ---------- *)

Lemma nth_S_tl (row : list Qc) n : nth (S n) row 0 = nth n (tl row) 0.
Proof. destruct row as [|a r]; [destruct n; reflexivity|reflexivity]. Qed.

Lemma nth_0_hd (row : list Qc) : nth 0 row 0 = hd 0 row.
Proof. destruct row; reflexivity. Qed.

Lemma lin_dot (L : label -> Qc) (K : list label) ls : forall row,
  NoDup ls -> NoDup K ->
  pb_dot row (map (fun v => if pb_mem v K then L v else 0) ls) =
  qsum (map (fun u => if pb_mem u ls then L u * nth (idx_of u ls) row 0 else 0) K).
Proof.
  induction ls as [|x ls' IH]; intros row NDl NDK.
  - cbn [map pb_dot]. symmetry. apply qsm_zero. reflexivity.
  - inversion NDl as [|x' r' Hx NDl']; subst. cbn [map pb_dot]. rewrite (IH (tl row) NDl' NDK).
    set (G' := fun u => if pb_mem u ls' then L u * nth (idx_of u ls') (tl row) 0 else 0).
    set (G := fun u => if pb_mem u (x :: ls') then L u * nth (idx_of u (x :: ls')) row 0 else 0).
    assert (Hother : forall k, k <> x -> G k = G' k).
    { intros k Hk. unfold G, G', pb_mem. cbn [existsb idx_of].
      destruct (Nat.eqb_spec k x) as [E|_]; [contradiction|].
      destruct (Nat.eqb_spec x k) as [E|_]; [symmetry in E; contradiction|].
      cbn [orb]. rewrite nth_S_tl. reflexivity. }
    destruct (pb_mem x K) eqn:EK.
    + apply pb_mem_spec in EK. symmetry.
      apply (qsm_upd K G' G x (hd 0 row * L x) NDK EK); [|exact Hother].
      unfold G, G'. apply pb_mem_false in Hx. rewrite Hx.
      unfold pb_mem. cbn [existsb idx_of]. rewrite Nat.eqb_refl. cbn [orb]. rewrite nth_0_hd. ring.
    + apply pb_mem_false in EK. rewrite (qsm_ext G G' K).
      * ring.
      * intros k Hk. apply Hother. intros ->. exact (EK Hk).
Qed.

Lemma quad_dot (iq : list qterm) ls row :
  pb_dot (pb_mul (pb_take row (map (fun t : qterm => idx_of (fst (fst t)) ls) iq))
                 (pb_take row (map (fun t : qterm => idx_of (snd (fst t)) ls) iq)))
         (map (fun t : qterm => snd t) iq)
  = quad_energy iq (row_sample ls row).
Proof.
  unfold pb_take. induction iq as [|t r IH]; [reflexivity|].
  cbn [map pb_mul pb_dot hd tl]. rewrite IH, quad_energy_cons. unfold row_sample, row_value. ring.
Qed.

Theorem pb_energies_eq_spec m ls rows :
  pb_wf m -> NoDup ls ->
  pb_energies m ls rows = energies (pb_abs m) (pb_vars m) ls rows.
Proof.
  intros [NDK _] NDl. unfold pb_energies, energies.
  change (forallb (fun v => pb_mem v ls) (pb_vars m)) with (covers ls (pb_vars m)).
  destruct (covers ls (pb_vars m)) eqn:C; cbn [negb]; [|reflexivity].
  f_equal. apply map_ext. intros row. rewrite quad_dot, (lin_dot _ _ ls row NDl NDK).
  unfold energy. cbn [pb_abs p_off p_lin p_quad].
  assert (HL : lin_energy (pb_linear m) (row_sample ls row) =
               qsum (map (fun u => if pb_mem u ls then pb_get_linear m u * nth (idx_of u ls) row 0 else 0)
                         (pb_vars m))).
  { unfold lin_energy, pb_linear. rewrite map_map. apply qsm_ext. intros u Hu.
    unfold lterm_val. cbn [fst snd]. rewrite covers_spec in C.
    assert (Hm : pb_mem u ls = true) by (apply pb_mem_spec; apply C; exact Hu).
    rewrite Hm. reflexivity. }
  rewrite HL. ring.
Qed.

(* ---------- the energy as a sum over rows ---------- *)

Fixpoint fwd {A} (F : A -> A -> Qc) (l : list A) : Qc :=
  match l with
  | [] => 0
  | a :: r => qsum (map (F a) r) + fwd F r
  end.

Definition tot {A} (F : A -> A -> Qc) (l : list A) : Qc := qsum (map (fun a => qsum (map (F a) l)) l).

(* a symmetric summand with zero diagonal: the full double sum is twice the forward sum *)
Lemma tot_fwd {A} (F : A -> A -> Qc) (l : list A) :
  (forall a b, In a l -> In b l -> F a b = F b a) -> (forall a, In a l -> F a a = 0) ->
  tot F l = two * fwd F l.
Proof.
  induction l as [|a r IH]; intros Hs Hd.
  - unfold tot, two. cbn [map qsum fwd]. ring.
  - unfold tot. cbn [map qsum fwd].
    rewrite (qsm_add (fun x => F x a) (fun x => qsum (map (F x) r)) r).
    change (qsum (map (fun x => qsum (map (F x) r)) r)) with (tot F r).
    rewrite IH.
    + rewrite (qsm_ext (fun x => F x a) (F a) r).
      * rewrite (Hd a (or_introl eq_refl)). unfold two. ring.
      * intros x Hx. apply Hs; [right; exact Hx|left; reflexivity].
    + intros x z Hx Hz. apply Hs; right; assumption.
    + intros x Hx. apply Hd. right. exact Hx.
Qed.

Definition Fy (y : sample) (a b : label * pb_rowt) : Qc :=
  qrow (fst a) (snd a) (fst b) * y (fst a) * y (fst b).

Lemma nodup_app_disj {A} (l1 l2 : list A) x : NoDup (l1 ++ l2) -> In x l1 -> In x l2 -> False.
Proof.
  induction l1 as [|a r IH]; intros ND H1 H2; [destruct H1|].
  cbn [app] in ND. inversion ND as [|a' r' Ha NDr]; subst.
  destruct H1 as [->|H1].
  - apply Ha. apply in_or_app. right. exact H2.
  - exact (IH NDr H1 H2).
Qed.

Lemma iq_rows_energy m y : pb_wf m -> forall rows pre seen,
  pb_adj m = pre ++ rows -> (forall v, pb_mem v seen = true <-> In v (map fst pre)) ->
  quad_energy (pb_iq_rows seen rows) y = fwd (Fy y) rows.
Proof.
  intros W. induction rows as [|[u Nu] r IH]; intros pre seen Hadj Hseen; [reflexivity|].
  cbn [pb_iq_rows fwd]. rewrite quad_energy_app.
  assert (Hseen' : forall v, pb_mem v (u :: seen) = true <-> In v (map fst (pre ++ [(u, Nu)]))).
  { intros v. rewrite map_app, in_app_iff. cbn [map fst In].
    change (pb_mem v (u :: seen)) with ((v =? u)%nat || pb_mem v seen).
    rewrite orb_true_iff, Hseen, Nat.eqb_eq. split.
    - intros [H|H]; [right; left; symmetry; exact H|left; exact H].
    - intros [H|[H|[]]]; [right; exact H|left; symmetry; exact H]. }
  rewrite (IH (pre ++ [(u, Nu)]) (u :: seen)); [|rewrite <- app_assoc; exact Hadj|exact Hseen'].
  f_equal.
  pose proof W as [NDK Wr].
  assert (Hin : In (u, Nu) (pb_adj m)) by (rewrite Hadj; apply in_or_app; right; left; reflexivity).
  destruct (Wr u Nu Hin) as [NDu _].
  unfold quad_energy. rewrite map_map.
  rewrite (qsm_ext _ (fun vb : label * Qc => snd vb * y u * y (fst vb))); [|intros x _; reflexivity].
  rewrite qsm_filter.
  rewrite (row_sum_keys (fun v b => if negb (pb_mem v (u :: seen)) then b * y u * y v else 0) Nu (pb_vars m)
             NDu NDK (wf_row_incl m u Nu W Hin)).
  2:{ intros v. destruct (negb (pb_mem v (u :: seen))); ring. }
  unfold pb_vars in *. rewrite Hadj in *. rewrite !map_app, qsum_app. cbn [map qsum fst].
  rewrite map_app in NDK. cbn [map fst] in NDK.
  rewrite qsm_zero.
  2:{ intros v Hv. assert (Hm : pb_mem v (u :: seen) = true).
      { apply Hseen'. rewrite map_app. apply in_or_app. left. exact Hv. }
      rewrite Hm. reflexivity. }
  assert (Hmu : pb_mem u (u :: seen) = true) by (unfold pb_mem; cbn [existsb]; rewrite Nat.eqb_refl; reflexivity).
  rewrite Hmu. cbn [negb]. rewrite map_map.
  rewrite (qsm_ext _ (Fy y (u, Nu)) r); [ring|].
  intros b Hb. unfold Fy, qrow. cbn [fst snd].
  assert (Hkb : In (fst b) (map fst r)) by (apply in_map; exact Hb).
  assert (Hmb : pb_mem (fst b) (u :: seen) = false).
  { apply pb_mem_false. rewrite <- pb_mem_spec, Hseen'. rewrite map_app. cbn [map fst]. intro Hc.
    assert (NDK' : NoDup ((map fst pre ++ [u]) ++ map fst r)) by (rewrite <- app_assoc; exact NDK).
    exact (nodup_app_disj _ _ _ NDK' Hc Hkb). }
  rewrite Hmb. cbn [negb].
  destruct (Nat.eqb_spec u (fst b)) as [E|_]; [|reflexivity].
  exfalso. assert (NDK' : NoDup ((map fst pre ++ [u]) ++ map fst r)) by (rewrite <- app_assoc; exact NDK).
  apply (nodup_app_disj _ _ (fst b) NDK'); [|exact Hkb]. apply in_or_app. right. left. exact E.
Qed.

Lemma Fy_sym m y a b : pb_wf m -> In a (pb_adj m) -> In b (pb_adj m) -> Fy y a b = Fy y b a.
Proof.
  intros W Ha Hb. destruct a as [u Nu], b as [v Nv]. unfold Fy. cbn [fst snd].
  rewrite (qrow_sym m u Nu v Nv W Ha Hb). ring.
Qed.

Lemma Fy_diag y a : Fy y a a = 0.
Proof. unfold Fy, qrow. rewrite Nat.eqb_refl. ring. Qed.

Lemma pb_energy_form m y : pb_wf m ->
  energy (pb_abs m) y =
  pb_off m + qsum (map (fun a => pb_get (snd a) (fst a) * y (fst a)) (pb_adj m))
  + half * tot (Fy y) (pb_adj m).
Proof.
  intros W. pose proof W as [NDK _]. unfold energy. cbn [pb_abs p_off p_lin p_quad].
  unfold pb_iter_quadratic. rewrite (iq_rows_energy m y W (pb_adj m) [] []).
  2:{ reflexivity. }
  2:{ intros v. cbn. split; [discriminate|intros []]. }
  rewrite (tot_fwd (Fy y) (pb_adj m)).
  2:{ intros a b Ha Hb. apply (Fy_sym m); assumption. }
  2:{ intros a _. apply Fy_diag. }
  assert (HL : lin_energy (pb_linear m) y =
               qsum (map (fun a => pb_get (snd a) (fst a) * y (fst a)) (pb_adj m))).
  { unfold lin_energy, pb_linear, pb_vars. rewrite map_map, map_map. apply qsm_ext.
    intros [u Nu] Hin. unfold lterm_val, pb_get_linear. cbn [fst snd].
    rewrite (pb_row_in (pb_adj m) u Nu NDK Hin). reflexivity. }
  rewrite HL. pose proof two_half as H2.
  transitivity (pb_off m + qsum (map (fun a => pb_get (snd a) (fst a) * y (fst a)) (pb_adj m))
                + (two * half) * fwd (Fy y) (pb_adj m)); [rewrite H2; ring|ring].
Qed.

(* ---------- change_vartype: closed form of the loops ---------- *)

Lemma pb_get_set_same l v x : pb_get (pb_set l v x) v = x.
Proof.
  induction l as [|[k b] r IH]; cbn [pb_set pb_get].
  - rewrite Nat.eqb_refl. reflexivity.
  - destruct (Nat.eqb_spec k v) as [->|Hne]; cbn [pb_get].
    + rewrite Nat.eqb_refl. reflexivity.
    + destruct (Nat.eqb_spec k v) as [E|_]; [contradiction|exact IH].
Qed.

Lemma pb_get_set_other l v x k : k <> v -> pb_get (pb_set l v x) k = pb_get l k.
Proof.
  intros Hk. induction l as [|[j b] r IH]; cbn [pb_set pb_get].
  - destruct (Nat.eqb_spec v k) as [E|_]; [symmetry in E; contradiction|reflexivity].
  - destruct (Nat.eqb_spec j v) as [->|Hne]; cbn [pb_get].
    + destruct (Nat.eqb_spec v k) as [E|_]; [symmetry in E; contradiction|reflexivity].
    + rewrite IH. reflexivity.
Qed.

Lemma pb_set_keys l v x : In v (map fst l) -> map fst (pb_set l v x) = map fst l.
Proof.
  induction l as [|[k b] r IH]; cbn [pb_set map fst]; intros H; [destruct H|].
  destruct (Nat.eqb_spec k v) as [->|Hne]; cbn [map fst]; [reflexivity|].
  destruct H as [H|H]; [contradiction|]. rewrite (IH H). reflexivity.
Qed.

(* sum of the off-diagonal entries of row u *)
Definition offsum (u : label) (Nu : pb_rowt) : Qc :=
  qsum (map snd (filter (fun vb => negb (fst vb =? u)%nat) Nu)).

Lemma offsum_cons_diag u q r : offsum u ((u, q) :: r) = offsum u r.
Proof. unfold offsum. cbn [filter fst]. rewrite Nat.eqb_refl. reflexivity. Qed.

Lemma offsum_cons_other u v q r : v <> u -> offsum u ((v, q) :: r) = q + offsum u r.
Proof.
  intros H. unfold offsum. cbn [filter fst]. destruct (Nat.eqb_spec v u) as [E|_]; [contradiction|].
  reflexivity.
Qed.

Lemma offsum_set_diag u l x : offsum u (pb_set l u x) = offsum u l.
Proof.
  induction l as [|[k b] r IH]; cbn [pb_set].
  - rewrite offsum_cons_diag. reflexivity.
  - destruct (Nat.eqb_spec k u) as [->|Hne].
    + rewrite !offsum_cons_diag. reflexivity.
    + rewrite !offsum_cons_other by exact Hne. rewrite IH. reflexivity.
Qed.

Definition cv_h (mp : pb_mpt) (u : label) (Nu : pb_rowt) (k : label) (b : Qc) : Qc :=
  if (k =? u)%nat then mp_lin mp * pb_get Nu u + mp_lin_quad mp * offsum u Nu else mp_quad mp * b.

(* what one pass of the outer loop body leaves in row u *)
Definition cv_row_spec (mp : pb_mpt) (u : label) (Nu : pb_rowt) : pb_rowt :=
  map (fun kb => (fst kb, cv_h mp u Nu (fst kb) (snd kb))) Nu.

Lemma cv_inner_spec mp u : forall (items Nu : pb_rowt) (off : Qc),
  NoDup (map fst items) -> incl (map fst items) (map fst Nu) -> In u (map fst Nu) ->
  map fst (fst (pb_cv_inner mp u items (Nu, off))) = map fst Nu /\
  snd (pb_cv_inner mp u items (Nu, off)) = off + mp_quad_offset mp * offsum u items /\
  forall k, pb_get (fst (pb_cv_inner mp u items (Nu, off))) k =
            if (k =? u)%nat then pb_get Nu u + mp_lin_quad mp * offsum u items
            else if pb_mem k (map fst items) then mp_quad mp * pb_get items k else pb_get Nu k.
Proof.
  induction items as [|[v q] r IH]; intros Nu off ND Hincl Hu.
  - cbn [pb_cv_inner fst snd]. unfold offsum. cbn [filter map qsum]. split; [reflexivity|].
    split; [ring|]. intros k. destruct (Nat.eqb_spec k u) as [->|_]; [ring|reflexivity].
  - cbn [map fst] in ND, Hincl. inversion ND as [|x' r' Hv NDr]; subst.
    assert (Hincl' : incl (map fst r) (map fst Nu)) by (intros x Hx; apply Hincl; right; exact Hx).
    cbn [pb_cv_inner fst snd]. destruct (Nat.eqb_spec v u) as [->|Hne].
    + destruct (IH Nu off NDr Hincl' Hu) as [K1 [K2 K3]].
      rewrite offsum_cons_diag. split; [exact K1|]. split; [exact K2|].
      intros k. etransitivity; [apply K3|]. destruct (Nat.eqb_spec k u) as [->|Hku]; [reflexivity|].
      change (pb_mem k (map fst ((u, q) :: r))) with ((k =? u)%nat || pb_mem k (map fst r)).
      cbn [pb_get]. destruct (Nat.eqb_spec k u) as [E|_]; [contradiction|].
      destruct (Nat.eqb_spec u k) as [E|_]; [symmetry in E; contradiction|]. reflexivity.
    + set (Nu1 := pb_set Nu v (mp_quad mp * q)).
      set (Nu2 := pb_set Nu1 u (pb_get Nu1 u + mp_lin_quad mp * q)).
      assert (Hk1 : map fst Nu1 = map fst Nu) by (apply pb_set_keys; apply Hincl; left; reflexivity).
      assert (Hk2 : map fst Nu2 = map fst Nu).
      { unfold Nu2. rewrite pb_set_keys; [exact Hk1|rewrite Hk1; exact Hu]. }
      destruct (IH Nu2 (off + mp_quad_offset mp * q) NDr) as [K1 [K2 K3]].
      { rewrite Hk2. exact Hincl'. }
      { rewrite Hk2. exact Hu. }
      rewrite (offsum_cons_other u v q r Hne).
      split; [exact (eq_trans K1 Hk2)|]. split; [etransitivity; [exact K2|ring]|].
      intros k. etransitivity; [apply K3|]. destruct (Nat.eqb_spec k u) as [->|Hku].
      * unfold Nu2. rewrite pb_get_set_same. unfold Nu1.
        rewrite (pb_get_set_other Nu v _ u (not_eq_sym Hne)). ring.
      * change (pb_mem k (map fst ((v, q) :: r))) with ((k =? v)%nat || pb_mem k (map fst r)).
        cbn [pb_get]. unfold Nu2. rewrite (pb_get_set_other Nu1 u _ k Hku). unfold Nu1.
        destruct (Nat.eqb_spec k v) as [->|Hkv].
        -- rewrite Nat.eqb_refl. cbn [orb]. apply pb_mem_false in Hv. rewrite Hv.
           apply pb_get_set_same.
        -- destruct (Nat.eqb_spec v k) as [E|_]; [symmetry in E; contradiction|]. cbn [orb].
           rewrite (pb_get_set_other Nu v _ k Hkv). reflexivity.
Qed.

Lemma row_rebuild (h : label -> Qc -> Qc) : forall (l l' : pb_rowt),
  NoDup (map fst l) -> map fst l' = map fst l ->
  (forall k, In k (map fst l) -> pb_get l' k = h k (pb_get l k)) ->
  l' = map (fun kb => (fst kb, h (fst kb) (snd kb))) l.
Proof.
  induction l as [|[k b] r IH]; intros l' ND Hk Hg; destruct l' as [|[k' b'] r']; try discriminate Hk.
  - reflexivity.
  - cbn [map fst] in Hk, ND. injection Hk as E1 E2. subst k'. inversion ND as [|x' r'' Hx NDr]; subst.
    cbn [map fst snd]. f_equal.
    + f_equal. specialize (Hg k (or_introl eq_refl)). cbn [pb_get] in Hg. rewrite Nat.eqb_refl in Hg. exact Hg.
    + apply IH; [exact NDr|exact E2|]. intros j Hj.
      specialize (Hg j (or_intror Hj)). cbn [pb_get] in Hg.
      destruct (Nat.eqb_spec k j) as [->|_]; [contradiction|exact Hg].
Qed.

Lemma pb_cv_row_eq mp u Nu off :
  NoDup (map fst Nu) -> In u (map fst Nu) ->
  pb_cv_row mp u Nu off =
  (cv_row_spec mp u Nu, off + (mp_lin_offset mp * pb_get Nu u + mp_quad_offset mp * offsum u Nu)).
Proof.
  intros ND Hu. unfold pb_cv_row.
  set (Nu1 := pb_set Nu u (mp_lin mp * pb_get Nu u)).
  assert (Hk1 : map fst Nu1 = map fst Nu) by (apply pb_set_keys; exact Hu).
  destruct (cv_inner_spec mp u Nu1 Nu1 (off + mp_lin_offset mp * pb_get Nu u)) as [K1 [K2 K3]].
  { rewrite Hk1. exact ND. }
  { apply incl_refl. }
  { rewrite Hk1. exact Hu. }
  destruct (pb_cv_inner mp u Nu1 (Nu1, off + mp_lin_offset mp * pb_get Nu u)) as [R o].
  cbn [fst snd] in K1, K2, K3. unfold Nu1 in K2. rewrite offsum_set_diag in K2. f_equal.
  - unfold cv_row_spec. apply (row_rebuild (cv_h mp u Nu) Nu R ND).
    + rewrite K1. exact Hk1.
    + intros k Hk. rewrite K3. unfold cv_h. destruct (Nat.eqb_spec k u) as [->|Hku].
      * unfold Nu1. rewrite pb_get_set_same, offsum_set_diag. reflexivity.
      * assert (Hm : pb_mem k (map fst Nu1) = true) by (apply pb_mem_spec; rewrite Hk1; exact Hk).
        rewrite Hm. unfold Nu1. rewrite (pb_get_set_other Nu u _ k Hku). reflexivity.
  - rewrite K2. ring.
Qed.

Definition cv_adj_spec (mp : pb_mpt) (rows : list (label * pb_rowt)) : list (label * pb_rowt) :=
  map (fun a => (fst a, cv_row_spec mp (fst a) (snd a))) rows.

Lemma pb_cv_rows_eq mp : forall rows off,
  (forall u Nu, In (u, Nu) rows -> NoDup (map fst Nu) /\ In u (map fst Nu)) ->
  pb_cv_rows mp rows off =
  (cv_adj_spec mp rows,
   off + qsum (map (fun a => mp_lin_offset mp * pb_get (snd a) (fst a)
                             + mp_quad_offset mp * offsum (fst a) (snd a)) rows)).
Proof.
  induction rows as [|[u Nu] r IH]; intros off H.
  - cbn [pb_cv_rows cv_adj_spec map qsum]. f_equal. ring.
  - cbn [pb_cv_rows]. destruct (H u Nu (or_introl eq_refl)) as [ND Hu].
    rewrite (pb_cv_row_eq mp u Nu off ND Hu). cbn [fst snd].
    rewrite IH; [|intros u' Nu' Hin; apply H; right; exact Hin].
    cbn [fst snd cv_adj_spec map qsum]. f_equal. ring.
Qed.

Lemma pb_cv_with_eq mp m : pb_wf m ->
  pb_change_vartype_with mp m =
  mkPyBqm (cv_adj_spec mp (pb_adj m))
          (pb_off m + qsum (map (fun a => mp_lin_offset mp * pb_get (snd a) (fst a)
                                         + mp_quad_offset mp * offsum (fst a) (snd a)) (pb_adj m))).
Proof.
  intros [_ Wr]. unfold pb_change_vartype_with. rewrite pb_cv_rows_eq; [reflexivity|].
  intros u Nu Hin. destruct (Wr u Nu Hin) as [A [B _]]. split; assumption.
Qed.

(* ---------- change_vartype preserves well-formedness ---------- *)

Lemma cv_row_spec_keys mp u Nu : map fst (cv_row_spec mp u Nu) = map fst Nu.
Proof. unfold cv_row_spec. rewrite map_map. apply map_ext. reflexivity. Qed.

Lemma cv_adj_spec_keys mp rows : map fst (cv_adj_spec mp rows) = map fst rows.
Proof. unfold cv_adj_spec. rewrite map_map. apply map_ext. reflexivity. Qed.

Lemma in_cv_row_spec mp u Nu v b' :
  In (v, b') (cv_row_spec mp u Nu) -> v <> u -> exists b, In (v, b) Nu /\ b' = mp_quad mp * b.
Proof.
  unfold cv_row_spec. intros H Hne. apply in_map_iff in H. destruct H as [[k b] [He Hin]].
  cbn [fst snd] in He. inversion He; subst. exists b. split; [exact Hin|].
  unfold cv_h. destruct (Nat.eqb_spec v u) as [E|_]; [contradiction|reflexivity].
Qed.

Lemma in_cv_row_spec_other mp u Nu v b :
  In (v, b) Nu -> v <> u -> In (v, mp_quad mp * b) (cv_row_spec mp u Nu).
Proof.
  intros Hin Hne. unfold cv_row_spec. apply in_map_iff. exists (v, b). split; [|exact Hin].
  cbn [fst snd]. unfold cv_h. destruct (Nat.eqb_spec v u) as [E|_]; [contradiction|reflexivity].
Qed.

Theorem pb_cv_with_wf mp m : pb_wf m -> pb_wf (pb_change_vartype_with mp m).
Proof.
  intros W. rewrite (pb_cv_with_eq mp m W). destruct W as [NDK Wr].
  split; unfold pb_vars; cbn [pb_adj].
  - rewrite cv_adj_spec_keys. exact NDK.
  - intros u Nu' Hin. unfold cv_adj_spec in Hin. apply in_map_iff in Hin.
    destruct Hin as [[u0 Nu] [He Hin]]. cbn [fst snd] in He. inversion He; subst. clear He.
    destruct (Wr u Nu Hin) as [ND [Hu Hs]]. split; [|split].
    + rewrite cv_row_spec_keys. exact ND.
    + rewrite cv_row_spec_keys. exact Hu.
    + intros v b' Hvb Hne. destruct (in_cv_row_spec mp u Nu v b' Hvb Hne) as [b [Hb ->]].
      destruct (Hs v b Hb Hne) as [Nv [HNv Hub]].
      exists (cv_row_spec mp v Nv). split.
      * unfold cv_adj_spec. apply in_map_iff. exists (v, Nv). split; [reflexivity|exact HNv].
      * apply in_cv_row_spec_other; [exact Hub|apply not_eq_sym; exact Hne].
Qed.

Theorem pb_change_vartype_wf t m : pb_wf m -> pb_wf (pb_change_vartype t m).
Proof. apply pb_cv_with_wf. Qed.

(* ---------- change_vartype and energies ---------- *)

Lemma get_map_h (h : label -> Qc -> Qc) (l : pb_rowt) k :
  In k (map fst l) -> pb_get (map (fun kb => (fst kb, h (fst kb) (snd kb))) l) k = h k (pb_get l k).
Proof.
  induction l as [|[j b] r IH]; cbn [map fst snd pb_get]; intros H; [destruct H|].
  destruct (Nat.eqb_spec j k) as [->|Hne]; [reflexivity|].
  destruct H as [H|H]; [contradiction|apply IH; exact H].
Qed.

Lemma qrow_cv mp u Nu v : qrow u (cv_row_spec mp u Nu) v = mp_quad mp * qrow u Nu v.
Proof.
  unfold qrow. destruct (Nat.eqb_spec u v) as [->|Hne]; [ring|].
  destruct (in_dec Nat.eq_dec v (map fst Nu)) as [Hin|Hnin].
  - unfold cv_row_spec. rewrite (get_map_h (cv_h mp u Nu) Nu v Hin). unfold cv_h.
    destruct (Nat.eqb_spec v u) as [E|_]; [symmetry in E; contradiction|reflexivity].
  - rewrite (pb_get_notin Nu v Hnin), pb_get_notin; [ring|]. rewrite cv_row_spec_keys. exact Hnin.
Qed.

Definition qq (a b : label * pb_rowt) : Qc := qrow (fst a) (snd a) (fst b).
Definition rA0 (adj : list (label * pb_rowt)) (a : label * pb_rowt) : Qc := qsum (map (qq a) adj).
Definition rA1 (adj : list (label * pb_rowt)) (y : sample) (a : label * pb_rowt) : Qc :=
  qsum (map (fun b => qq a b * y (fst b)) adj).
Definition rL (a : label * pb_rowt) : Qc := pb_get (snd a) (fst a).

Lemma offsum_A0 m u Nu : pb_wf m -> In (u, Nu) (pb_adj m) -> offsum u Nu = rA0 (pb_adj m) (u, Nu).
Proof.
  intros W Hin. pose proof W as [NDK Wr]. destruct (Wr u Nu Hin) as [NDu _].
  unfold offsum, rA0. rewrite qsm_filter.
  rewrite (row_sum_keys (fun v b => if negb (v =? u)%nat then b else 0) Nu (pb_vars m)
             NDu NDK (wf_row_incl m u Nu W Hin)).
  2:{ intros v. destruct (negb (v =? u)%nat); reflexivity. }
  unfold pb_vars. rewrite map_map. apply qsm_ext. intros b _. unfold qq, qrow. cbn [fst snd].
  destruct (Nat.eqb_spec (fst b) u) as [->|Hne].
  - rewrite Nat.eqb_refl. reflexivity.
  - destruct (Nat.eqb_spec u (fst b)) as [E|_]; [symmetry in E; contradiction|reflexivity].
Qed.

Lemma A1_swap m y : pb_wf m ->
  qsum (map (rA1 (pb_adj m) y) (pb_adj m)) = qsum (map (fun a => rA0 (pb_adj m) a * y (fst a)) (pb_adj m)).
Proof.
  intros W. unfold rA1.
  rewrite (qsm_swap (fun a b => qq a b * y (fst b)) (pb_adj m) (pb_adj m)).
  apply qsm_ext. intros b Hb. cbv beta. unfold rA0.
  rewrite (qsm_ext (fun a => qq a b * y (fst b)) (fun a => y (fst b) * qq b a) (pb_adj m)).
  - rewrite qsm_scale. ring.
  - intros a Ha. destruct a as [u Nu], b as [v Nv]. unfold qq. cbn [fst snd].
    rewrite (qrow_sym m u Nu v Nv W Ha Hb). ring.
Qed.

Ltac sum_ind l := induction l as [|? ? IHs]; cbn [map qsum]; [ring|rewrite IHs; ring].

Lemma sum_lin2 {A} (l : list A) (f g : A -> Qc) k1 k2 :
  qsum (map (fun a => k1 * f a + k2 * g a) l) = k1 * qsum (map f l) + k2 * qsum (map g l).
Proof. sum_ind l. Qed.

Lemma sum_lin2y {A} (l : list A) (f g h : A -> Qc) k1 k2 :
  qsum (map (fun a => (k1 * f a + k2 * g a) * h a) l) =
  k1 * qsum (map (fun a => f a * h a) l) + k2 * qsum (map (fun a => g a * h a) l).
Proof. sum_ind l. Qed.

Lemma sum_ky {A} (l : list A) (f h : A -> Qc) k :
  qsum (map (fun a => k * h a * f a) l) = k * qsum (map (fun a => f a * h a) l).
Proof. sum_ind l. Qed.

Lemma sum_aff {A} (l : list A) (f h : A -> Qc) M C :
  qsum (map (fun a => f a * (M * h a + C)) l) = M * qsum (map (fun a => f a * h a) l) + C * qsum (map f l).
Proof. sum_ind l. Qed.

Lemma sum_aff2 {A} (l : list A) (f0 f1 h : A -> Qc) M C :
  qsum (map (fun a => (M * h a + C) * M * f1 a + (M * h a + C) * C * f0 a) l) =
  M * M * qsum (map (fun a => f1 a * h a) l) + M * C * qsum (map f1 l)
  + M * C * qsum (map (fun a => f0 a * h a) l) + C * C * qsum (map f0 l).
Proof. sum_ind l. Qed.

Lemma inner_aff {A} (l : list A) (f h : A -> Qc) al M C :
  qsum (map (fun b => f b * al * (M * h b + C)) l) =
  al * M * qsum (map (fun b => f b * h b) l) + al * C * qsum (map f l).
Proof. sum_ind l. Qed.

Section CvEnergy.
  Variables (mp : pb_mpt) (m : pybqm) (y : sample).
  Hypothesis W : pb_wf m.
  Let adj := pb_adj m.
  Let Y := fun a : label * pb_rowt => y (fst a).
  Let SL := qsum (map rL adj).
  Let SLY := qsum (map (fun a => rL a * Y a) adj).
  Let S0 := qsum (map (rA0 adj) adj).
  Let S0Y := qsum (map (fun a => rA0 adj a * Y a) adj).
  Let S1 := qsum (map (rA1 adj y) adj).
  Let S1Y := qsum (map (fun a => rA1 adj y a * Y a) adj).

  Lemma cv_lhs_form :
    energy (pb_abs (pb_change_vartype_with mp m)) y =
    pb_off m + (mp_lin_offset mp * SL + mp_quad_offset mp * S0 + mp_lin mp * SLY + mp_lin_quad mp * S0Y
                + half * (mp_quad mp * S1Y)).
  Proof.
    rewrite (pb_energy_form _ y (pb_cv_with_wf mp m W)). rewrite (pb_cv_with_eq mp m W).
    cbn [pb_adj pb_off]. fold adj.
    match goal with |- ?o + ?sa + ?sb + half * ?t = _ =>
      assert (H1 : sa = mp_lin_offset mp * SL + mp_quad_offset mp * S0);
      [|assert (H2 : sb = mp_lin mp * SLY + mp_lin_quad mp * S0Y);
        [|assert (H3 : t = mp_quad mp * S1Y); [|rewrite H1, H2, H3; ring]]] end.
    - etransitivity; [|exact (sum_lin2 adj rL (rA0 adj) (mp_lin_offset mp) (mp_quad_offset mp))].
      apply qsm_ext. intros [u Nu] Hin. cbn [fst snd].
      rewrite (offsum_A0 m u Nu W Hin). reflexivity.
    - etransitivity; [|exact (sum_lin2y adj rL (rA0 adj) Y (mp_lin mp) (mp_lin_quad mp))].
      unfold cv_adj_spec. rewrite map_map. apply qsm_ext.
      intros [u Nu] Hin. cbn [fst snd]. unfold Y, rL. cbn [fst snd].
      destruct W as [_ Wr]. destruct (Wr u Nu Hin) as [_ [Hu _]].
      unfold cv_row_spec. rewrite (get_map_h (cv_h mp u Nu) Nu u Hu). unfold cv_h.
      rewrite Nat.eqb_refl. rewrite (offsum_A0 m u Nu (conj (proj1 W) Wr) Hin). reflexivity.
    - etransitivity; [|exact (sum_ky adj (rA1 adj y) Y (mp_quad mp))].
      unfold tot, cv_adj_spec. rewrite map_map. apply qsm_ext.
      intros a Ha. cbv beta. rewrite map_map.
      etransitivity; [|exact (qsm_scale (mp_quad mp * Y a) (fun b => qq a b * y (fst b)) adj)].
      apply qsm_ext. intros b Hb. cbv beta. unfold Fy, qq, Y. cbn [fst snd].
      rewrite qrow_cv. ring.
  Qed.

  Lemma cv_rhs_form M C :
    energy (pb_abs m) (fun v => M * y v + C) =
    pb_off m + (M * SLY + C * SL
                + half * (M * M * S1Y + M * C * S1 + M * C * S0Y + C * C * S0)).
  Proof.
    rewrite (pb_energy_form m _ W). fold adj.
    match goal with |- ?o + ?sa + half * ?t = _ =>
      assert (H1 : sa = M * SLY + C * SL);
      [|assert (H3 : t = M * M * S1Y + M * C * S1 + M * C * S0Y + C * C * S0);
        [|rewrite H1, H3; ring]] end.
    - etransitivity; [|exact (sum_aff adj rL Y M C)]. apply qsm_ext. intros a _. reflexivity.
    - etransitivity; [|exact (sum_aff2 adj (rA0 adj) (rA1 adj y) Y M C)].
      unfold tot. apply qsm_ext. intros a _. cbv beta.
      etransitivity; [|exact (inner_aff adj (qq a) Y (M * Y a + C) M C)].
      apply qsm_ext. intros b _. cbv beta. unfold Fy, qq, Y. cbn [fst snd]. ring.
  Qed.

  Theorem pb_cv_with_energy M C :
    mp_lin mp = M -> mp_lin_offset mp = C -> mp_quad mp = M * M -> mp_lin_quad mp = M * C ->
    mp_quad_offset mp = C * C * half ->
    energy (pb_abs (pb_change_vartype_with mp m)) y = energy (pb_abs m) (fun v => M * y v + C).
  Proof.
    intros E1 E2 E3 E4 E5. rewrite cv_lhs_form, (cv_rhs_form M C).
    assert (HS : S1 = S0Y) by (apply (A1_swap m y W)).
    rewrite HS, E1, E2, E3, E4, E5. unfold half, two. field. intro H. discriminate H.
  Qed.
End CvEnergy.

(* ---------- the theorems over the GENERATED multipliers ---------- *)

(* equality of closed rational constants *)
Ltac qc_const := apply Qc_is_canon; vm_compute; reflexivity.

(* s = 2 x - 1 : the BINARY model obtained from a SPIN model *)
Theorem pb_change_vartype_energy_binary m y : pb_wf m ->
  energy (pb_abs (pb_change_vartype ToBinary m)) y = energy (pb_abs m) (fun v => two * y v - 1).
Proof.
  intros W. unfold pb_change_vartype.
  rewrite (pb_cv_with_energy (gen_pb_mp ToBinary) m y W two (- (1)));
    [apply energy_ext; intros w; ring|..];
    unfold gen_pb_mp, mp_lin, mp_lin_offset, mp_quad, mp_lin_quad, mp_quad_offset; cbn [fst snd];
    qc_const.
Qed.

(* x = (s + 1) / 2 : the SPIN model obtained from a BINARY model *)
Theorem pb_change_vartype_energy_spin m y : pb_wf m ->
  energy (pb_abs (pb_change_vartype ToSpin m)) y = energy (pb_abs m) (fun v => (y v + 1) * half).
Proof.
  intros W. unfold pb_change_vartype.
  rewrite (pb_cv_with_energy (gen_pb_mp ToSpin) m y W half half);
    [apply energy_ext; intros w; ring|..];
    unfold gen_pb_mp, mp_lin, mp_lin_offset, mp_quad, mp_lin_quad, mp_quad_offset; cbn [fst snd];
    qc_const.
Qed.

Definition pb_target_map (t : pb_target) (y : sample) : sample :=
  match t with
  | ToBinary => fun v => two * y v - 1
  | ToSpin => fun v => (y v + 1) * half
  end.

Theorem pb_change_vartype_energy t m y : pb_wf m ->
  energy (pb_abs (pb_change_vartype t m)) y = energy (pb_abs m) (pb_target_map t y).
Proof.
  destruct t; [apply pb_change_vartype_energy_binary|apply pb_change_vartype_energy_spin].
Qed.

(* ---------- round trip ---------- *)

Lemma offsum_map_h (h : label -> Qc -> Qc) u k (l : pb_rowt) :
  (forall v b, v <> u -> h v b = k * b) ->
  offsum u (map (fun kb => (fst kb, h (fst kb) (snd kb))) l) = k * offsum u l.
Proof.
  intros Hh. induction l as [|[v b] r IH]; cbn [map fst snd].
  - unfold offsum. cbn [filter map qsum]. ring.
  - destruct (Nat.eq_dec v u) as [->|Hne].
    + rewrite !offsum_cons_diag. exact IH.
    + rewrite !offsum_cons_other by exact Hne. rewrite IH, (Hh v b Hne). ring.
Qed.

Lemma offsum_cv_row_spec mp u Nu : offsum u (cv_row_spec mp u Nu) = mp_quad mp * offsum u Nu.
Proof.
  unfold cv_row_spec. apply offsum_map_h. intros v b Hne. unfold cv_h.
  destruct (Nat.eqb_spec v u) as [E|_]; [contradiction|reflexivity].
Qed.

Lemma get_cv_row_spec_diag mp u Nu : In u (map fst Nu) ->
  pb_get (cv_row_spec mp u Nu) u = mp_lin mp * pb_get Nu u + mp_lin_quad mp * offsum u Nu.
Proof.
  intros Hu. unfold cv_row_spec. rewrite (get_map_h (cv_h mp u Nu) Nu u Hu). unfold cv_h.
  rewrite Nat.eqb_refl. reflexivity.
Qed.

Section RoundTrip.
  Variables mp1 mp2 : pb_mpt.
  Hypothesis H1 : mp_lin mp2 * mp_lin mp1 = 1.
  Hypothesis H2 : mp_lin mp2 * mp_lin_quad mp1 + mp_lin_quad mp2 * mp_quad mp1 = 0.
  Hypothesis H3 : mp_quad mp2 * mp_quad mp1 = 1.
  Hypothesis H4 : mp_lin_offset mp1 + mp_lin_offset mp2 * mp_lin mp1 = 0.
  Hypothesis H5 : mp_quad_offset mp1 + mp_lin_offset mp2 * mp_lin_quad mp1
                  + mp_quad_offset mp2 * mp_quad mp1 = 0.

  Lemma cv_row_roundtrip u Nu : NoDup (map fst Nu) -> In u (map fst Nu) ->
    cv_row_spec mp2 u (cv_row_spec mp1 u Nu) = Nu.
  Proof.
    intros ND Hu.
    assert (Hd := get_cv_row_spec_diag mp1 u Nu Hu).
    assert (Ho := offsum_cv_row_spec mp1 u Nu).
    set (N1 := cv_row_spec mp1 u Nu) in *.
    unfold cv_row_spec at 1. unfold N1 at 2. unfold cv_row_spec. rewrite map_map.
    transitivity (map (fun x : label * Qc => x) Nu); [|apply map_id].
    apply map_ext_in. intros [k b] Hin. cbn [fst snd]. f_equal.
    unfold cv_h at 1. destruct (Nat.eqb_spec k u) as [->|Hne].
    - rewrite Hd, Ho. rewrite (pb_get_in Nu u b ND Hin).
      transitivity ((mp_lin mp2 * mp_lin mp1) * b
                    + (mp_lin mp2 * mp_lin_quad mp1 + mp_lin_quad mp2 * mp_quad mp1) * offsum u Nu);
        [ring|rewrite H1, H2; ring].
    - unfold cv_h. destruct (Nat.eqb_spec k u) as [E|_]; [contradiction|].
      transitivity ((mp_quad mp2 * mp_quad mp1) * b); [ring|rewrite H3; ring].
  Qed.

  Theorem pb_cv_with_roundtrip m : pb_wf m ->
    pb_change_vartype_with mp2 (pb_change_vartype_with mp1 m) = m.
  Proof.
    intros W. rewrite (pb_cv_with_eq mp2 _ (pb_cv_with_wf mp1 m W)), (pb_cv_with_eq mp1 m W).
    cbn [pb_adj pb_off]. destruct m as [adj off]. destruct W as [_ Wr]. cbn [pb_adj pb_off] in *.
    f_equal.
    - unfold cv_adj_spec. rewrite map_map.
      transitivity (map (fun x : label * pb_rowt => x) adj); [|apply map_id]. apply map_ext_in.
      intros [u Nu] Hin. cbn [fst snd]. destruct (Wr u Nu Hin) as [ND [Hu _]].
      rewrite (cv_row_roundtrip u Nu ND Hu). reflexivity.
    - unfold cv_adj_spec. rewrite map_map. rewrite <- Qcplus_assoc, <- qsm_add.
      rewrite qsm_zero; [ring|]. intros [u Nu] Hin. cbn [fst snd].
      destruct (Wr u Nu Hin) as [_ [Hu _]].
      rewrite (get_cv_row_spec_diag mp1 u Nu Hu), (offsum_cv_row_spec mp1 u Nu).
      transitivity ((mp_lin_offset mp1 + mp_lin_offset mp2 * mp_lin mp1) * pb_get Nu u
                    + (mp_quad_offset mp1 + mp_lin_offset mp2 * mp_lin_quad mp1
                       + mp_quad_offset mp2 * mp_quad mp1) * offsum u Nu);
        [ring|rewrite H4, H5; ring].
  Qed.
End RoundTrip.

Definition pb_other (t : pb_target) : pb_target := match t with ToBinary => ToSpin | ToSpin => ToBinary end.

(* changing the vartype and changing it back restores every stored entry and the offset
   exactly (rational arithmetic) *)
Theorem pb_change_vartype_roundtrip t m : pb_wf m ->
  pb_change_vartype (pb_other t) (pb_change_vartype t m) = m.
Proof.
  intros W. unfold pb_change_vartype.
  destruct t; cbn [pb_other]; apply pb_cv_with_roundtrip; try exact W;
    unfold gen_pb_mp, mp_lin, mp_lin_offset, mp_quad, mp_lin_quad, mp_quad_offset; cbn [fst snd];
    qc_const.
Qed.

(* the executable comparison decides equality of states *)
Lemma list_eqb_eq {A} (eqb : A -> A -> bool) :
  (forall x y, eqb x y = true -> x = y) -> forall l1 l2, list_eqb eqb l1 l2 = true -> l1 = l2.
Proof.
  intros He. induction l1 as [|x xs IH]; destruct l2 as [|z zs]; cbn [list_eqb]; intros H;
    try discriminate H; [reflexivity|].
  apply andb_true_iff in H. destruct H as [Ha Hb]. rewrite (He x z Ha), (IH zs Hb). reflexivity.
Qed.

Theorem pb_obs_eqb_eq a b : pb_obs_eqb a b = true -> a = b.
Proof.
  unfold pb_obs_eqb. intros H. apply andb_true_iff in H. destruct H as [Ha Hb].
  destruct a as [aa ao], b as [ba bo]. cbn [pb_adj pb_off] in *. apply Qc_eqb_eq in Hb. subst bo. f_equal.
  revert Ha. apply list_eqb_eq. intros [u Nu] [v Nv]. unfold pair_eqb. cbn [fst snd]. intros H.
  apply andb_true_iff in H. destruct H as [H1 H2]. apply Nat.eqb_eq in H1. subst v. f_equal.
  revert H2. unfold pb_row_eqb. apply list_eqb_eq. intros [k1 b1] [k2 b2]. unfold pair_eqb. cbn [fst snd].
  intros H. apply andb_true_iff in H. destruct H as [H1 H2]. apply Nat.eqb_eq in H1. apply Qc_eqb_eq in H2.
  subst. reflexivity.
Qed.

Print Assumptions pb_wfb_sound.
Print Assumptions pb_energies_eq_spec.
Print Assumptions pb_change_vartype_energy.
Print Assumptions pb_change_vartype_energy_binary.
Print Assumptions pb_change_vartype_energy_spin.
Print Assumptions pb_change_vartype_wf.
Print Assumptions pb_change_vartype_roundtrip.
Print Assumptions pb_obs_eqb_eq.
