(* Whole BQM files: decode (encode f) = f, with the JSON text layers as hypotheses. *)
From Coq Require Import List NArith ZArith Arith Bool Lia.
From Dimod Require Import Gen.Gen_Codec Model.Codec Proofs.CodecBase Proofs.CodecFrame Proofs.CodecBqm.
Import ListNotations.
Open Scope nat_scope.

Definition HdrOK (h : bqmhdr) : Prop :=
  (forall ws, forallb is_ws ws = true -> bqm_jd (bqm_json h ++ ws) = Some h) /\
  (forall k, k < length (bqm_json h) -> bqm_jd (firstn k (bqm_json h)) = None).

Definition LabelsOK (l : list label) : Prop :=
  (forall j, labels_dec (pr_labels l ++ spaces j) = Some l) /\
  (forall k, k < length (pr_labels l) -> labels_dec (firstn k (pr_labels l)) = None).

Record BqmWF (f : bqmfile) : Prop := {
  wf_ver : bf_version f = (1, 0)%N \/ bf_version f = (2, 0)%N;
  wf_off : length (bf_off f) = dwidth (bf_dtype f);
  wf_lin : Forall (fun b => length b = dwidth (bf_dtype f)) (bf_lin f);
  wf_len : length (bf_adj f) = length (bf_lin f);
  wf_adj : Forall (Forall (rec_ok IDX_BYTES (dwidth (bf_dtype f)))) (bf_adj f);
  wf_m : (2 * bf_m f = N.of_nat (sumn (map (@length _) (bf_adj f))))%N;
  wf_small : (2 * bf_m f < 256 ^ N.of_nat IDX_BYTES)%N;
  wf_v1 : bf_labels f <> Some [];
  wf_json_fits : (N.of_nat (length (bqm_json (bqm_hdr f)) + 1 + ALIGN) < 256 ^ N.of_nat HEADER_LEN_BYTES)%N;
  wf_vars_fits : forall l, bf_labels f = Some l ->
                   (N.of_nat (length (pr_labels l) + ALIGN) < 256 ^ N.of_nat NLEN_VARS)%N
}.

Lemma body_rt_all : forall w off lin adj m,
  length off = w -> Forall (fun b => length b = w) lin -> length adj = length lin ->
  Forall (Forall (rec_ok IDX_BYTES w)) adj ->
  (2 * m = N.of_nat (sumn (map (@length _) adj)))%N -> (2 * m < 256 ^ N.of_nat IDX_BYTES)%N ->
  rt (dec_bqm_body w (length lin) m) (bqm_body lin adj off) (off, lin, adj).
Proof.
  intros w off lin adj m H1 H2 H3 H4 H5 H6.
  destruct (Nat.eq_dec (length lin) 0) as [E|E].
  - destruct lin; [|discriminate]. destruct adj; [|discriminate]. exact (body_nil_rt w m off H1).
  - exact (body_rt w off lin adj m H1 H2 H3 H4 H5 H6 E).
Qed.

Theorem bqm_rt : forall f, BqmWF f -> HdrOK (bqm_hdr f) ->
  (forall l, bf_labels f = Some l -> LabelsOK l) -> rt bqm_decode (bqm_encode f) f.
Proof.
  intros f WF [Hj1 Hj2] HL. destruct WF as [Hv Ho Hl Hn Ha Hm Hs Hv1 Hjf Hvf].
  unfold bqm_encode, bqm_decode.
  apply (rt_bind _ _ _ _ (bf_version f, bqm_hdr f)).
  { apply header_rt; assumption. }
  cbv beta. cbn [fst snd].
  assert (Hrej : vle BQM_REJECT_FROM (bf_version f) = false) by (destruct Hv as [-> | ->]; reflexivity).
  rewrite Hrej.
  apply (rt_bind _ _ _ _ (bf_off f, bf_lin f, bf_adj f)).
  { unfold bqm_hdr. cbn [h_dtype h_n h_m]. rewrite Nat2N.id. apply body_rt_all; assumption. }
  cbv beta iota. unfold bqm_hdr. cbn [h_dtype h_n h_m h_vars h_vt].
  unfold dec_bqm_labels, bqm_hvars.
  destruct f as [v dt vt m off lin adj labs]. cbn [bf_version bf_dtype bf_vt bf_m bf_off bf_lin bf_adj bf_labels] in *.
  destruct Hv as [-> | ->].
  - (* version 1: labels in the header *)
    change (vlt (1, 0)%N BQM_LABELS_IN_HEADER_BELOW) with true. cbv iota.
    destruct labs as [[|x l]|].
    + contradiction Hv1. reflexivity.
    + cbn [hvars_truthy]. intros rest. reflexivity.
    + cbn [hvars_truthy]. intros rest. reflexivity.
  - (* version 2: VARS section *)
    change (vlt (2, 0)%N BQM_LABELS_IN_HEADER_BELOW) with false. cbv iota.
    destruct labs as [l|].
    + cbn [hvars_truthy]. destruct (HL l eq_refl) as [L1 L2].
      rewrite <- (app_nil_r (section MAGIC_VARS NLEN_VARS (pr_labels l))).
      apply (rt_bind _ _ _ _ (Some l)).
      * apply (rt_bind_ret (dec_tsection MAGIC_VARS NLEN_VARS labels_dec) (fun x => Some x)).
        apply tsection_rt; [apply Hvf; reflexivity|assumption].
      * intros rest. reflexivity.
    + cbn [hvars_truthy]. intros rest. reflexivity.
Qed.

(* ------------------------------------------------------------ round trip and prefix safety together *)

Definition good {A} (d : parser A) (e : bytes) (a : A) (t : nat) : Prop := rt d e a /\ psafeT d e a t.

Lemma good_bind_gen : forall {A B} (d1 : parser A) (f : A -> parser B) e1 e2 a b t1 t2,
  good d1 e1 a t1 -> good (f a) e2 b t2 -> (0 < length e2 -> 0 < t2) ->
  good (bind d1 f) (e1 ++ e2) b (thr e2 t1 (length e1) t2).
Proof.
  intros A B d1 f e1 e2 a b t1 t2 [R1 P1] [R2 P2] H. split.
  - apply (rt_bind d1 f e1 e2 a b); assumption.
  - apply (psafeT_bind_gen d1 f e1 e2 a b t1 t2); assumption.
Qed.

Lemma good_bind_strict : forall {A B} (d1 : parser A) (f : A -> parser B) e1 e2 a b t2,
  rt d1 e1 a -> (forall k, k < length e1 -> d1 (firstn k e1) = Err) -> good (f a) e2 b t2 ->
  good (bind d1 f) (e1 ++ e2) b (length e1 + t2).
Proof.
  intros A B d1 f e1 e2 a b t2 R1 S1 [R2 P2]. split.
  - apply (rt_bind d1 f e1 e2 a b); assumption.
  - apply (psafeT_bind_strict d1 f e1 e2 a b t2); assumption.
Qed.

Lemma good_bind_ret : forall {A B} (d1 : parser A) (g : A -> B) e1 a t1,
  good d1 e1 a t1 -> good (bind d1 (fun x => ret (g x))) e1 (g a) t1.
Proof. intros A B d1 g e1 a t1 [R P]. split; [now apply rt_bind_ret|now apply psafeT_bind_ret]. Qed.

Lemma good_nil : forall {A} (d : parser A) a t, (forall rest, d rest = Ok (a, rest)) -> good d [] a t.
Proof. intros A d a t H. split; [exact H|]. intros k Hk. cbn in Hk. lia. Qed.

Lemma body_strict_all : forall w off lin adj m,
  length off = w -> Forall (fun b => length b = w) lin -> length adj = length lin ->
  Forall (Forall (rec_ok IDX_BYTES w)) adj ->
  (2 * m = N.of_nat (sumn (map (@length _) adj)))%N -> (2 * m < 256 ^ N.of_nat IDX_BYTES)%N ->
  forall k, k < length (bqm_body lin adj off) -> dec_bqm_body w (length lin) m (firstn k (bqm_body lin adj off)) = Err.
Proof.
  intros w off lin adj m H1 H2 H3 H4 H5 H6 k Hk.
  destruct (Nat.eq_dec (length lin) 0) as [E|E].
  - destruct lin; [|discriminate]. destruct adj; [|discriminate]. exact (body_nil_strict w m off k H1 Hk).
  - exact (body_strict w off lin adj m H1 H2 H3 H4 H5 H6 E k Hk).
Qed.

Lemma body_nonempty : forall lin adj off dt, length off = dwidth dt -> 0 < length (bqm_body lin adj off).
Proof. intros lin adj off dt H. unfold bqm_body. rewrite app_length, H. destruct dt; cbn; lia. Qed.

Theorem bqm_good : forall f, BqmWF f -> HdrOK (bqm_hdr f) ->
  (forall l, bf_labels f = Some l -> LabelsOK l) -> exists t, good bqm_decode (bqm_encode f) f t.
Proof.
  intros f WF [Hj1 Hj2] HL. destruct WF as [Hv Ho Hl Hn Ha Hm Hs Hv1 Hjf Hvf].
  unfold bqm_encode, bqm_decode. eexists.
  apply (good_bind_gen _ _ _ _ (bf_version f, bqm_hdr f)).
  { split; [apply header_rt|apply header_psafe]; assumption. }
  1:{
  cbv beta. cbn [fst snd].
  assert (Hrej : vle BQM_REJECT_FROM (bf_version f) = false) by (destruct Hv as [-> | ->]; reflexivity).
  rewrite Hrej.
  apply (good_bind_strict _ _ _ _ (bf_off f, bf_lin f, bf_adj f)).
  { unfold bqm_hdr. cbn [h_dtype h_n h_m]. rewrite Nat2N.id. apply body_rt_all; assumption. }
  { unfold bqm_hdr. cbn [h_dtype h_n h_m]. rewrite Nat2N.id. apply body_strict_all; assumption. }
  cbv beta iota. unfold bqm_hdr. cbn [h_dtype h_n h_m h_vars h_vt].
  unfold dec_bqm_labels, bqm_hvars.
  destruct f as [v dt vt m off lin adj labs]. cbn [bf_version bf_dtype bf_vt bf_m bf_off bf_lin bf_adj bf_labels] in *.
  destruct Hv as [-> | ->].
  - change (vlt (1, 0)%N BQM_LABELS_IN_HEADER_BELOW) with true. cbv iota.
    destruct labs as [[|x l]|].
    + contradiction Hv1. reflexivity.
    + cbn [hvars_truthy]. apply (good_nil _ _ 0). intros rest. reflexivity.
    + cbn [hvars_truthy]. apply (good_nil _ _ 0). intros rest. reflexivity.
  - change (vlt (2, 0)%N BQM_LABELS_IN_HEADER_BELOW) with false. cbv iota.
    destruct labs as [l|].
    + cbn [hvars_truthy]. destruct (HL l eq_refl) as [L1 L2].
      apply (good_bind_ret (bind (dec_tsection MAGIC_VARS NLEN_VARS labels_dec) (fun x => ret (Some x)))
               (fun labs => mkBqmFile (2, 0)%N dt vt m off lin adj labs) _ (Some l)).
      apply (good_bind_ret (dec_tsection MAGIC_VARS NLEN_VARS labels_dec) (fun x => Some x)).
      split; [apply tsection_rt; [apply Hvf; reflexivity|assumption]|].
      apply (psafeT_weaken _ _ _ (length MAGIC_VARS + (NLEN_VARS + length (pr_labels l))) 0); [lia|].
      apply tsection_psafe; [apply Hvf; reflexivity|assumption|assumption].
    + cbn [hvars_truthy]. apply (good_nil _ _ 0). intros rest. reflexivity. }
  intros _; pose proof (body_nonempty (bf_lin f) (bf_adj f) (bf_off f) (bf_dtype f) Ho); lia.
Qed.

Theorem bqm_decode_encode : forall f, BqmWF f -> HdrOK (bqm_hdr f) ->
  (forall l, bf_labels f = Some l -> LabelsOK l) -> run bqm_decode (bqm_encode f) = Ok f.
Proof.
  intros f H1 H2 H3. pose proof (bqm_rt f H1 H2 H3 []) as R. rewrite app_nil_r in R.
  unfold run. now rewrite R.
Qed.

Theorem bqm_decode_prefix_safe : forall f k, BqmWF f -> HdrOK (bqm_hdr f) ->
  (forall l, bf_labels f = Some l -> LabelsOK l) -> k < length (bqm_encode f) ->
  run bqm_decode (firstn k (bqm_encode f)) = Err \/ run bqm_decode (firstn k (bqm_encode f)) = Ok f.
Proof.
  intros f k H1 H2 H3 Hk. destruct (bqm_good f H1 H2 H3) as [t [_ P]].
  unfold run. destruct (P k Hk) as [E|[_ E]]; rewrite E; [now left|now right].
Qed.
