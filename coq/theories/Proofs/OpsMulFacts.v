(* C06: the translated multiplication (__mul__, __rmul__, __imul__) for a number on either side and for two QMs. *)
From Coq Require Import List ZArith QArith Qcanon Bool Arith Lia.
From Dimod Require Import Base.Util Model.Poly Model.Sym Model.OpsLang Gen.Gen_Ops Gen.Gen_AddVar Model.Ops
  Proofs.PolyFacts Proofs.SymFacts Proofs.OpsFacts Proofs.AddVarFacts Proofs.OpsDivFacts.
Import ListNotations.
Open Scope Qc_scope.

Local Opaque merge padd psub pneg scale add_offset pmul_linear pmul_linear_tab unexpected_pair real_interaction
  Qcplus Qcmult Qcopp Qcinv Qcminus Qcdiv qc qpow qis0 pzero gen_upd_err upd_err mul_err gen_mul_err.

Lemma g_mul_num_num x y : g_op OMul (VNum x) (VNum y) = v_mul (VNum x) (VNum y).
Proof. reflexivity. Qed.

Lemma g_mul_mdl_num c t p k : g_op OMul (VMdl (mkM c t p)) (VNum k) = v_mul (VMdl (mkM c t p)) (VNum k).
Proof. unfold g_op, FUEL. rewrite disp_scale. reflexivity. Qed.

Lemma g_mul_num_mdl c t p k : g_op OMul (VNum k) (VMdl (mkM c t p)) = v_mul (VNum k) (VMdl (mkM c t p)).
Proof. destruct c as [[| | |]|]; reflexivity. Qed.

Lemma g_imul_mdl_num c t p k : g_iop OMul (VMdl (mkM c t p)) (VNum k) = v_mul (VMdl (mkM c t p)) (VNum k).
Proof. unfold g_iop, FUEL. rewrite disp_iscale. reflexivity. Qed.

Lemma is_linear_mk c t p : is_linear (mkM c t p) = match p_quad p with [] => true | _ => false end.
Proof. reflexivity. Qed.

Lemma disp_mul_qm_qm f tx px ty py :
  disp (S f) (RBin OMul (VMdl (mkM CQm tx px)) (VMdl (mkM CQm ty py))) =
  v_mul (VMdl (mkM CQm tx px)) (VMdl (mkM CQm ty py)).
Proof.
  pose proof (product_qm_correct (mkM CQm tx px) (mkM CQm ty py) eq_refl eq_refl) as PQ.
  pose proof (mul_nonlinear_rejected (mkM CQm tx px) (mkM CQm ty py)) as NL.
  rewrite !is_linear_mk in PQ, NL.
  rewrite disp_S. cbn -[product_qm m_mul is_linear]. rewrite !is_linear_mk.
  cbn [v_mul].
  destruct (p_quad px) eqn:Qx; destruct (p_quad py) eqn:Qy; cbn -[product_qm m_mul];
    try (rewrite NL by (auto; fail); reflexivity).
  change (product_qm _ ?a ?b) with (product_qm qm_table a b). rewrite PQ by reflexivity.
  destruct (m_mul _ _); reflexivity.
Qed.

(* operand pairs whose product does not go through BinaryQuadraticModel.__mul__ / __rmul__ / from_bqm *)
Definition no_bqm_product (a b : val) : Prop :=
  match a, b with
  | VMdl m1, VMdl m2 => m_cls m1 = CQm /\ m_cls m2 = CQm
  | _, _ => True
  end.

Theorem g_mul_correct_partial a b : no_bqm_product a b -> requiv (g_op OMul a b) (v_mul a b).
Proof.
  destruct a as [x|[ca ta pa]|ma], b as [y|[cb tb pb]|mb]; cbn [no_bqm_product m_cls]; intros H.
  - rewrite g_mul_num_num. apply requiv_refl.
  - rewrite g_mul_num_mdl. apply requiv_refl.
  - vm_compute. reflexivity.
  - rewrite g_mul_mdl_num. apply requiv_refl.
  - destruct H as [-> ->]. unfold g_op, FUEL. rewrite disp_mul_qm_qm. apply requiv_refl.
  - destruct ca as [va|]; vm_compute; reflexivity.
  - vm_compute. reflexivity.
  - destruct cb as [vb|]; vm_compute; reflexivity.
  - vm_compute. reflexivity.
Qed.

(* in place: QuadraticModel.__imul__ / BinaryQuadraticModel.__imul__ accept numbers only and fall back to __mul__ *)
Theorem g_imul_number_correct c t p k :
  requiv (g_iop OMul (VMdl (mkM c t p)) (VNum k)) (v_mul (VMdl (mkM c t p)) (VNum k)).
Proof. rewrite g_imul_mdl_num. apply requiv_refl. Qed.

(* ** on a QM: only 2, only linear, then the product with itself *)
Definition g_pow (a : val) (n : nat) : res val := disp FUEL (RPow a n).

Theorem g_pow_qm_correct t p n : g_pow (VMdl (mkM CQm t p)) n = v_pow (VMdl (mkM CQm t p)) n.
Proof.
  unfold g_pow, FUEL, v_pow, m_pow. rewrite disp_S. cbn -[disp m_mul is_linear Nat.eqb].
  destruct (n =? 2)%nat; cbn -[disp m_mul is_linear]; [|reflexivity].
  rewrite !is_linear_mk.
  destruct (p_quad p) eqn:Q; cbn -[disp m_mul]; [|reflexivity].
  rewrite disp_mul_qm_qm. cbn [v_mul]. destruct (m_mul _ _); reflexivity.
Qed.

(* ---------- two BQMs of one vartype: the double loop of BinaryQuadraticModel.__mul__ ---------- *)
Lemma bqm_table_expected v : is_unexpected (bqm_table v) = false.
Proof. destruct v; reflexivity. Qed.

Lemma product_bqm_correct v tx px ty py :
  bqm_terms_ok v tx px -> p_quad px = [] -> p_quad py = [] ->
  product_bqm bqm_table (mkM (CBqm v) tx px) (mkM (CBqm v) ty py) = m_mul (mkM (CBqm v) tx px) (mkM (CBqm v) ty py).
Proof.
  intros T Qx Qy. unfold product_bqm, m_mul, needs_promo. rewrite !is_linear_mk, Qx, Qy.
  cbn [m_cls m_tab m_poly andb negb]. rewrite vartype_eqb_refl. cbn [negb]. rewrite andb_false_r.
  rewrite merge_gen. destruct (merge upd_err tx ty) as [t|e] eqn:E; [|reflexivity].
  rewrite (unexpected_none bqm_table (fun _ => v) _ _ bqm_table_expected).
  rewrite (pmul_linear_bqm_table v t tx px py T (merge_left _ _ _ _ E)). reflexivity.
Qed.

Lemma disp_mul_bqm_bqm f v tx px ty py :
  bqm_terms_ok v tx px ->
  disp (S f) (RBin OMul (VMdl (mkM (CBqm v) tx px)) (VMdl (mkM (CBqm v) ty py))) =
  v_mul (VMdl (mkM (CBqm v) tx px)) (VMdl (mkM (CBqm v) ty py)).
Proof.
  intros T.
  pose proof (product_bqm_correct v tx px ty py T) as PB.
  pose proof (mul_nonlinear_rejected (mkM (CBqm v) tx px) (mkM (CBqm v) ty py)) as NL.
  rewrite !is_linear_mk in NL.
  assert (Vv : vartype_eqb v v = true) by apply vartype_eqb_refl.
  rewrite disp_S. cbn -[product_bqm m_mul is_linear vartype_eqb]. rewrite !is_linear_mk, Vv.
  cbn [v_mul].
  destruct (p_quad px) eqn:Qx; destruct (p_quad py) eqn:Qy; cbn -[product_bqm m_mul];
    try (rewrite NL by (auto; fail); reflexivity).
  rewrite andb_false_r. cbn -[product_bqm m_mul].
  change (product_bqm _ ?a ?b) with (product_bqm bqm_table a b). rewrite PB by reflexivity.
  destruct (m_mul _ _); reflexivity.
Qed.

(* ---------- a BQM times a QM: qm = QuadraticModel.from_bqm(self); qm *= other ---------- *)
Lemma m_mul_bqm_qm v tx px ty py :
  m_mul (mkM (CBqm v) tx px) (mkM CQm ty py) = m_mul (mkM CQm tx px) (mkM CQm ty py).
Proof. reflexivity. Qed.

(* QM *= QM: __imul__ answers NotImplemented, Python falls back to __mul__ *)
Lemma disp_imul_qm_qm f tx px ty py :
  disp (S (S f)) (RIBin OMul (VMdl (mkM CQm tx px)) (VMdl (mkM CQm ty py))) =
  v_mul (VMdl (mkM CQm tx px)) (VMdl (mkM CQm ty py)).
Proof.
  rewrite disp_S. cbn -[disp binop_with m_mul v_mul].
  change (binop_with (disp (S f)) OMul ?a ?b) with (disp (S (S f)) (RBin OMul a b)).
  apply disp_mul_qm_qm.
Qed.

Theorem g_mul_bqm_bqm_correct v tx px ty py :
  bqm_terms_ok v tx px ->
  g_op OMul (VMdl (mkM (CBqm v) tx px)) (VMdl (mkM (CBqm v) ty py)) =
  v_mul (VMdl (mkM (CBqm v) tx px)) (VMdl (mkM (CBqm v) ty py)).
Proof. intros T. unfold g_op, FUEL. apply disp_mul_bqm_bqm. exact T. Qed.

Theorem g_imul_qm_qm_correct tx px ty py :
  g_iop OMul (VMdl (mkM CQm tx px)) (VMdl (mkM CQm ty py)) = v_mul (VMdl (mkM CQm tx px)) (VMdl (mkM CQm ty py)).
Proof. unfold g_iop, FUEL. apply disp_imul_qm_qm. Qed.
