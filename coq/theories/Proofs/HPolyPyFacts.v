(* The code-shaped loops of Model/HPolyPy.v (BinaryPolynomial.to_binary / to_spin, the
   polynomial fix_variables) equal the specifications of Model/HPoly.v
   (h_spin_to_binary / h_binary_to_spin / hfix): same energy at every assignment and the
   same coefficient at every key, for ALL polynomials. *)
From Coq Require Import List ZArith QArith Qcanon Bool Arith Lia Permutation Sorted.
From Dimod Require Import Base.Util Model.Poly Model.HPoly Model.HPolyPy
  Proofs.PolyFacts Proofs.HPolyFacts Proofs.CoeffSound.
Import ListNotations.
Open Scope Qc_scope.

(* ---------- insertion sort: sorted output, idempotent ---------- *)
Lemma insert_sorted_sorted v l :
  StronglySorted le l -> StronglySorted le (insert_sorted v l).
Proof.
  induction l as [|x l IH]; intros Hs; cbn [insert_sorted].
  - constructor; constructor.
  - inversion Hs as [|x' l' Hs' Hall]; subst.
    destruct (v <=? x)%nat eqn:E.
    + apply Nat.leb_le in E. constructor; [exact Hs|].
      constructor; [exact E|]. eapply Forall_impl; [|exact Hall]. intros a Ha. cbv beta in *. lia.
    + apply Nat.leb_gt in E. constructor; [apply IH; exact Hs'|].
      eapply Permutation_Forall; [apply Permutation_sym, insert_sorted_perm|].
      constructor; [lia|exact Hall].
Qed.

Lemma sort_nats_sorted l : StronglySorted le (sort_nats l).
Proof.
  induction l as [|x l IH]; [constructor|].
  unfold sort_nats. cbn [fold_right]. fold (sort_nats l). apply insert_sorted_sorted, IH.
Qed.

Lemma insert_sorted_min v l : Forall (le v) l -> insert_sorted v l = v :: l.
Proof.
  destruct l as [|x l]; intros H; cbn [insert_sorted]; [reflexivity|].
  inversion H as [|x' l' Hx Hl]; subst. apply Nat.leb_le in Hx. rewrite Hx. reflexivity.
Qed.

Lemma sort_nats_of_sorted l : StronglySorted le l -> sort_nats l = l.
Proof.
  induction 1 as [|x l Hs IH Hall]; [reflexivity|].
  unfold sort_nats. cbn [fold_right]. fold (sort_nats l). rewrite IH. apply insert_sorted_min, Hall.
Qed.

Lemma sort_nats_idem l : sort_nats (sort_nats l) = sort_nats l.
Proof. apply sort_nats_of_sorted, sort_nats_sorted. Qed.

Lemma sort_nats_In v l : In v (sort_nats l) <-> In v l.
Proof.
  split; apply Permutation_in; [apply sort_nats_perm|apply Permutation_sym, sort_nats_perm].
Qed.

(* ---------- a linear functional of a bag of monomials ----------
   hmeas phi p = sum of coefficient * phi(variables).  The energy (phi = product of the
   values) and the coefficient at a key (phi = indicator of the key) are both of this form,
   and both are invariant under sorting the variable list. *)
Definition hmeas (phi : list label -> Qc) (p : hpoly) : Qc :=
  qsum (map (fun t => snd t * phi (fst t)) p).

Definition sort_invariant (phi : list label -> Qc) : Prop :=
  forall t, phi (sort_nats t) = phi t.

Lemma henergy_hmeas p s : henergy p s = hmeas (fun k => qprod (map s k)) p.
Proof. reflexivity. Qed.

Definition key_ind (k : list nat) (t : list label) : Qc :=
  if nats_eqb (sort_nats t) k then 1 else 0.

Lemma hcoeff_hmeas p k : hcoeff p k = hmeas (key_ind k) p.
Proof.
  unfold hcoeff, hmeas, key_ind. induction p as [|t p IH]; cbn [filter map qsum]; [reflexivity|].
  destruct (nats_eqb (sort_nats (fst t)) k); cbn [map qsum]; rewrite IH; ring.
Qed.

Lemma energy_sort_invariant s : sort_invariant (fun k => qprod (map s k)).
Proof. intros t. apply qprod_perm, Permutation_map, sort_nats_perm. Qed.

Lemma key_ind_sort_invariant k : sort_invariant (key_ind k).
Proof. intros t. unfold key_ind. rewrite sort_nats_idem. reflexivity. Qed.

Lemma hmeas_app phi a b : hmeas phi (a ++ b) = hmeas phi a + hmeas phi b.
Proof. unfold hmeas. rewrite map_app, qsum_app. reflexivity. Qed.

Lemma hmeas_cons phi t p : hmeas phi (t :: p) = snd t * phi (fst t) + hmeas phi p.
Proof. reflexivity. Qed.

(* the dict update adds b * phi(key), whether or not the key is present *)
Lemma hmeas_hdict_add phi d k b : hmeas phi (hdict_add d k b) = hmeas phi d + b * phi k.
Proof.
  induction d as [|[k' v] r IH]; cbn [hdict_add].
  - unfold hmeas; cbn [map qsum fst snd]. ring.
  - destruct (nats_eqb k' k) eqn:E.
    + apply nats_eqb_eq in E. subst k'. rewrite !hmeas_cons. cbn [fst snd]. ring.
    + rewrite !hmeas_cons, IH. cbn [fst snd]. ring.
Qed.

Lemma hmeas_fold_add phi (key : list label -> list label) (coef : list label -> Qc) l d :
  hmeas phi (fold_left (fun new t => hdict_add new (key t) (coef t)) l d) =
  hmeas phi d + qsum (map (fun t => coef t * phi (key t)) l).
Proof.
  revert d. induction l as [|t l IH]; intros d; cbn [fold_left map qsum]; [ring|].
  rewrite IH, hmeas_hdict_add. ring.
Qed.

Lemma qsum_perm l l' : Permutation l l' -> qsum l = qsum l'.
Proof.
  induction 1 as [|x l l' _ IH|x y l|l l' l'' _ IH1 _ IH2]; cbn [qsum].
  - reflexivity.
  - rewrite IH. reflexivity.
  - ring.
  - rewrite IH1. exact IH2.
Qed.

(* ---------- powerset_py enumerates exactly the sublists expand_affine enumerates ---------- *)
Fixpoint subs (vs : list label) : list (list label) :=
  match vs with
  | [] => [[]]
  | v :: vs' => map (cons v) (subs vs') ++ subs vs'
  end.

Lemma combinations_py_0 l : combinations_py l 0 = [[]].
Proof. destruct l; reflexivity. Qed.

Lemma combinations_py_gt l : forall r, (length l < r)%nat -> combinations_py l r = [].
Proof.
  induction l as [|x l IH]; intros [|r] H; cbn [combinations_py length] in *; try lia; try reflexivity.
  rewrite (IH r), (IH (S r)) by lia. reflexivity.
Qed.

Lemma flat_map_nil {A B} (f : A -> list B) l :
  (forall x, In x l -> f x = []) -> flat_map f l = [].
Proof.
  induction l as [|x l IH]; intros H; cbn [flat_map]; [reflexivity|].
  rewrite (H x) by (left; reflexivity). rewrite IH; [reflexivity|]. intros y Hy. apply H. right. exact Hy.
Qed.

Lemma flat_map_map {A B C} (g : A -> B) (f : B -> list C) l :
  flat_map f (map g l) = flat_map (fun x => f (g x)) l.
Proof. induction l as [|x l IH]; cbn [map flat_map]; [reflexivity|]. rewrite IH. reflexivity. Qed.

Lemma map_flat_map {A B C} (g : B -> C) (f : A -> list B) l :
  map g (flat_map f l) = flat_map (fun x => map g (f x)) l.
Proof. induction l as [|x l IH]; cbn [map flat_map]; [reflexivity|]. rewrite map_app, IH. reflexivity. Qed.

Lemma flat_map_app_perm {A B} (f g : A -> list B) l :
  Permutation (flat_map (fun x => f x ++ g x) l) (flat_map f l ++ flat_map g l).
Proof.
  induction l as [|x l IH]; cbn [flat_map]; [apply Permutation_refl|].
  rewrite <- !app_assoc. apply Permutation_app_head.
  eapply perm_trans; [apply Permutation_app_head; exact IH|].
  apply Permutation_app_swap_app.
Qed.

Lemma powerset_seq_perm l : forall n, (length l < n)%nat ->
  Permutation (flat_map (combinations_py l) (seq 0 n)) (subs l).
Proof.
  induction l as [|x xs IH]; intros [|n] Hn; cbn [length] in Hn; try lia.
  - cbn [seq flat_map combinations_py subs]. rewrite flat_map_nil; [apply Permutation_refl|].
    intros r Hr. apply in_seq in Hr. destruct r; [lia|reflexivity].
  - cbn [seq flat_map subs]. rewrite <- seq_shift, flat_map_map.
    cbn [combinations_py].
    eapply perm_trans; [apply Permutation_app_head, flat_map_app_perm|].
    eapply perm_trans; [apply Permutation_app_swap_app|].
    apply Permutation_app.
    + rewrite <- map_flat_map. apply Permutation_map, IH. lia.
    + specialize (IH (S n) ltac:(lia)). cbn [seq flat_map] in IH.
      rewrite <- seq_shift, flat_map_map, combinations_py_0 in IH. exact IH.
Qed.

Lemma powerset_py_perm l : Permutation (powerset_py l) (subs l).
Proof. apply powerset_seq_perm. lia. Qed.

Lemma subs_length t vs : In t (subs vs) -> (length t <= length vs)%nat.
Proof.
  revert t. induction vs as [|v vs IH]; intros t; cbn [subs length].
  - intros [<-|[]]. cbn. lia.
  - rewrite in_app_iff, in_map_iff. intros [[u [<- Hu]]|Ht].
    + specialize (IH u Hu). cbn [length]. lia.
    + specialize (IH t Ht). lia.
Qed.

(* the coefficient expand_affine gives to a sublist is m^|t| * c^(|vs|-|t|) *)
Lemma expand_affine_subs m c vs :
  expand_affine m c vs =
  map (fun t => (t, Qcpower m (length t) * Qcpower c (length vs - length t))) (subs vs).
Proof.
  induction vs as [|v vs IH]; cbn [expand_affine subs].
  - cbn [map length Nat.sub Qcpower]. rewrite Qcmult_1_l. reflexivity.
  - rewrite IH, map_app, !map_map. f_equal; apply map_ext_in; intros t Ht; cbn [fst snd length].
    + f_equal. cbn [Nat.sub Qcpower]. ring.
    + f_equal. rewrite Nat.sub_succ_l by (apply subs_length; exact Ht). cbn [Qcpower]. ring.
Qed.

Lemma hmeas_hsubst_all_mono phi m c t :
  hmeas phi (hsubst_all_mono m c t) =
  qsum (map (fun u => snd t * (Qcpower m (length u) * Qcpower c (length (fst t) - length u)) * phi u)
            (subs (fst t))).
Proof.
  unfold hsubst_all_mono, hmeas. rewrite expand_affine_subs, !map_map. reflexivity.
Qed.

(* ---------- to_binary ---------- *)
Lemma to_binary_term_hmeas phi new term bias : sort_invariant phi ->
  hmeas phi (to_binary_term new term bias) =
  hmeas phi new + hmeas phi (hsubst_all_mono two (- (1)) (term, bias)).
Proof.
  intros Hphi. unfold to_binary_term. rewrite hmeas_fold_add, hmeas_hsubst_all_mono. f_equal.
  rewrite (qsum_perm _ _ (Permutation_map _ (powerset_py_perm term))).
  f_equal. apply map_ext. intros u. cbn [fst snd]. rewrite Hphi. unfold to_binary_newbias. ring.
Qed.

Lemma to_binary_fold_hmeas phi p : sort_invariant phi -> forall new,
  hmeas phi (fold_left (fun new tb => to_binary_term new (fst tb) (snd tb)) p new) =
  hmeas phi new + hmeas phi (h_spin_to_binary p).
Proof.
  intros Hphi. unfold h_spin_to_binary, hsubst_all.
  induction p as [|[term bias] p IH]; intros new; cbn [fold_left flat_map].
  - unfold hmeas at 3. cbn [map qsum]. ring.
  - rewrite IH, hmeas_app. cbn [fst snd]. rewrite (to_binary_term_hmeas phi new term bias Hphi). ring.
Qed.

(* the generic statement: every sort-invariant linear functional agrees *)
Theorem to_binary_py_hmeas phi p : sort_invariant phi ->
  hmeas phi (to_binary_py p) = hmeas phi (h_spin_to_binary p).
Proof.
  intros Hphi. unfold to_binary_py. rewrite (to_binary_fold_hmeas phi p Hphi).
  unfold hmeas at 1. cbn [map qsum]. ring.
Qed.

(* coefficient-wise agreement with the specification, at EVERY key *)
Theorem to_binary_py_hcoeff p k : hcoeff (to_binary_py p) k = hcoeff (h_spin_to_binary p) k.
Proof. rewrite !hcoeff_hmeas. apply to_binary_py_hmeas, key_ind_sort_invariant. Qed.

Theorem to_binary_py_coeff p : hpoly_eqb (to_binary_py p) (h_spin_to_binary p) = true.
Proof.
  unfold hpoly_eqb. apply forallb_forall. intros k _. apply Qc_eqb_iff, to_binary_py_hcoeff.
Qed.

Theorem to_binary_py_eq_spec_energy p x :
  henergy (to_binary_py p) x = henergy (h_spin_to_binary p) x.
Proof. rewrite !henergy_hmeas. apply to_binary_py_hmeas, energy_sort_invariant. Qed.

(* the loop computes the substitution s = 2x - 1 *)
Theorem to_binary_py_energy p x :
  henergy (to_binary_py p) x = henergy p (fun v => two * x v - 1).
Proof. rewrite to_binary_py_eq_spec_energy. apply h_spin_to_binary_energy. Qed.

(* ---------- to_spin ---------- *)
Lemma qpow_add (q : Qc) a b : Qcpower q (a + b) = Qcpower q a * Qcpower q b.
Proof. induction a as [|a IH]; cbn [Nat.add Qcpower]; [ring|rewrite IH; ring]. Qed.

Lemma half_pow_two_pow n : Qcpower half n * Qcpower two n = 1.
Proof.
  induction n as [|n IH]; cbn [Qcpower]; [ring|].
  transitivity ((half * two) * (Qcpower half n * Qcpower two n)); [ring|].
  rewrite IH, Qcmult_comm, Qcmult_1_l. rewrite Qcmult_comm. apply two_half.
Qed.

Lemma two_pow_nz n : Qcpower two n <> 0.
Proof.
  intros H. pose proof (half_pow_two_pow n) as E. rewrite H in E.
  assert (E' : (0 : Qc) = 1) by (rewrite <- E; ring). discriminate E'.
Qed.

Lemma div_two_pow b n : b / Qcpower two n = b * Qcpower half n.
Proof.
  pose proof (half_pow_two_pow n) as E. pose proof (two_pow_nz n) as Hnz.
  assert (Hinv : / Qcpower two n = Qcpower half n).
  { transitivity ((Qcpower half n * Qcpower two n) * / Qcpower two n); [rewrite E; ring|].
    rewrite <- Qcmult_assoc, Qcmult_inv_r by exact Hnz. ring. }
  unfold Qcdiv. rewrite Hinv. reflexivity.
Qed.

Lemma to_spin_term_hmeas phi new term bias : sort_invariant phi ->
  hmeas phi (to_spin_term new term bias) =
  hmeas phi new + hmeas phi (hsubst_all_mono half half (term, bias)).
Proof.
  intros Hphi. unfold to_spin_term. rewrite hmeas_fold_add, hmeas_hsubst_all_mono. f_equal.
  rewrite (qsum_perm _ _ (Permutation_map _ (powerset_py_perm term))).
  f_equal. apply map_ext_in. intros u Hu. cbn [fst snd]. rewrite Hphi. unfold to_spin_newbias.
  rewrite div_two_pow, <- qpow_add. apply subs_length in Hu. cbn [fst] in Hu.
  replace (length u + (length term - length u))%nat with (length term) by lia.
  reflexivity.
Qed.

Lemma to_spin_fold_hmeas phi p : sort_invariant phi -> forall new,
  hmeas phi (fold_left (fun new tb => to_spin_term new (fst tb) (snd tb)) p new) =
  hmeas phi new + hmeas phi (h_binary_to_spin p).
Proof.
  intros Hphi. unfold h_binary_to_spin, hsubst_all.
  induction p as [|[term bias] p IH]; intros new; cbn [fold_left flat_map].
  - unfold hmeas at 3. cbn [map qsum]. ring.
  - rewrite IH, hmeas_app. cbn [fst snd]. rewrite (to_spin_term_hmeas phi new term bias Hphi). ring.
Qed.

Theorem to_spin_py_hmeas phi p : sort_invariant phi ->
  hmeas phi (to_spin_py p) = hmeas phi (h_binary_to_spin p).
Proof.
  intros Hphi. unfold to_spin_py. rewrite (to_spin_fold_hmeas phi p Hphi).
  unfold hmeas at 1. cbn [map qsum]. ring.
Qed.

Theorem to_spin_py_hcoeff p k : hcoeff (to_spin_py p) k = hcoeff (h_binary_to_spin p) k.
Proof. rewrite !hcoeff_hmeas. apply to_spin_py_hmeas, key_ind_sort_invariant. Qed.

Theorem to_spin_py_coeff p : hpoly_eqb (to_spin_py p) (h_binary_to_spin p) = true.
Proof.
  unfold hpoly_eqb. apply forallb_forall. intros k _. apply Qc_eqb_iff, to_spin_py_hcoeff.
Qed.

Theorem to_spin_py_eq_spec_energy p s :
  henergy (to_spin_py p) s = henergy (h_binary_to_spin p) s.
Proof. rewrite !henergy_hmeas. apply to_spin_py_hmeas, energy_sort_invariant. Qed.

(* the loop computes the substitution x = (s + 1) / 2 *)
Theorem to_spin_py_energy p s :
  henergy (to_spin_py p) s = henergy p (fun v => (s v + 1) * half).
Proof. rewrite to_spin_py_eq_spec_energy. apply h_binary_to_spin_energy. Qed.

(* ---------- round trips ---------- *)
Lemma henergy_ext p s s' : (forall v, s v = s' v) -> henergy p s = henergy p s'.
Proof.
  intros H. unfold henergy. f_equal. apply map_ext. intros t. unfold mono_val. f_equal. f_equal.
  apply map_ext. exact H.
Qed.

Theorem to_spin_to_binary_py_energy p s :
  henergy (to_spin_py (to_binary_py p)) s = henergy p s.
Proof.
  rewrite to_spin_py_energy, to_binary_py_energy. apply henergy_ext. intros v.
  transitivity (s v * (two * half) + (two * half - 1)); [ring|]. rewrite two_half. ring.
Qed.

Theorem to_binary_to_spin_py_energy p x :
  henergy (to_binary_py (to_spin_py p)) x = henergy p x.
Proof.
  rewrite to_binary_py_energy, to_spin_py_energy. apply henergy_ext. intros v.
  transitivity (x v * (two * half)); [ring|]. rewrite two_half. ring.
Qed.

(* ---------- fix_variables (polynomial path) ---------- *)
Lemma lookup_cons var value r w :
  lookup ((var, value) :: r) w = if (var =? w)%nat then Some value else lookup r w.
Proof. unfold lookup. cbn [find fst snd]. destruct (var =? w)%nat; reflexivity. Qed.

Lemma override_cons_ne var value r s w :
  w <> var -> override ((var, value) :: r) s w = override r s w.
Proof.
  intros H. unfold override. rewrite lookup_cons.
  destruct (Nat.eqb_spec var w) as [E|_]; [congruence|reflexivity].
Qed.

Lemma override_cons_eq var value r s : override ((var, value) :: r) s var = value.
Proof. unfold override. rewrite lookup_cons, Nat.eqb_refl. reflexivity. Qed.

Lemma existsb_eqb_In var k : existsb (Nat.eqb var) k = true <-> In var k.
Proof.
  rewrite existsb_exists. split.
  - intros [x [Hx E]]. apply Nat.eqb_eq in E. subst x. exact Hx.
  - intros H. exists var. split; [exact H|apply Nat.eqb_refl].
Qed.

Lemma filter_ne_notin var k :
  ~ In var k -> filter (fun w => negb (w =? var)%nat) k = k.
Proof.
  induction k as [|x k IH]; intros H; cbn [filter]; [reflexivity|].
  destruct (Nat.eqb_spec x var) as [E|Hne].
  - exfalso. apply H. left. exact E.
  - cbn [negb]. rewrite IH; [reflexivity|]. intros Hin. apply H. right. exact Hin.
Qed.

Lemma qprod_remove (f : label -> Qc) var k : NoDup k -> In var k ->
  qprod (map f k) = f var * qprod (map f (filter (fun w => negb (w =? var)%nat) k)).
Proof.
  induction k as [|x k IH]; intros Hnd Hin; [destruct Hin|].
  inversion Hnd as [|x' k' Hx Hk]; subst. cbn [filter].
  destruct (Nat.eqb_spec x var) as [E|Hne]; cbn [negb].
  - subst x. rewrite filter_ne_notin by exact Hx. cbn [map qprod]. reflexivity.
  - destruct Hin as [E|Hin]; [congruence|]. cbn [map qprod]. rewrite (IH Hk Hin). ring.
Qed.

(* the inner loop `for var, value in fixed_variables.items()` on one duplicate-free term *)
Lemma fix_term_py_val fixed : forall k v s, NoDup k ->
  snd (fix_term_py fixed k v) * qprod (map s (fst (fix_term_py fixed k v))) =
  v * qprod (map (override fixed s) k).
Proof.
  induction fixed as [|[var value] r IH]; intros k v s Hnd; cbn [fix_term_py].
  - cbn [fst snd]. reflexivity.
  - destruct (existsb (Nat.eqb var) k) eqn:E.
    + apply existsb_eqb_In in E. rewrite IH by (apply NoDup_filter; exact Hnd).
      rewrite (qprod_remove (override ((var, value) :: r) s) var k Hnd E), override_cons_eq.
      transitivity (v * value * qprod (map (override ((var, value) :: r) s)
                       (filter (fun w => negb (w =? var)%nat) k))); [|ring].
      f_equal. f_equal. apply map_ext_in. intros w Hw. apply filter_In in Hw.
      destruct Hw as [_ Hw]. symmetry. apply override_cons_ne. intros ->.
      rewrite Nat.eqb_refl in Hw. discriminate Hw.
    + rewrite IH by exact Hnd. f_equal. f_equal. apply map_ext_in. intros w Hw.
      symmetry. apply override_cons_ne. intros ->.
      apply existsb_eqb_In in Hw. rewrite Hw in E. discriminate E.
Qed.

Definition unfixedb (fixed : list (label * Qc)) (w : label) : bool :=
  match lookup fixed w with None => true | Some _ => false end.

Lemma fix_vars_in_fst fixed k : fst (fix_vars_in fixed k) = filter (unfixedb fixed) k.
Proof.
  induction k as [|w k IH]; cbn [fix_vars_in filter]; [reflexivity|].
  destruct (fix_vars_in fixed k) as [rest c]. unfold unfixedb at 1.
  destruct (lookup fixed w); cbn [fst] in *; rewrite IH; reflexivity.
Qed.

Lemma filter_filter_and {A} (f g : A -> bool) l :
  filter f (filter g l) = filter (fun x => g x && f x) l.
Proof.
  induction l as [|x l IH]; cbn [filter]; [reflexivity|].
  destruct (g x); cbn [filter andb]; [destruct (f x)|]; rewrite IH; reflexivity.
Qed.

Lemma filter_ext_in' {A} (f g : A -> bool) l :
  (forall x, In x l -> f x = g x) -> filter f l = filter g l.
Proof.
  induction l as [|x l IH]; intros H; cbn [filter]; [reflexivity|].
  rewrite (H x) by (left; reflexivity). rewrite IH; [reflexivity|].
  intros y Hy. apply H. right. exact Hy.
Qed.

Lemma unfixedb_cons var value r w :
  unfixedb ((var, value) :: r) w = negb (w =? var)%nat && unfixedb r w.
Proof.
  unfold unfixedb. rewrite lookup_cons, (Nat.eqb_sym w var).
  destruct (var =? w)%nat; reflexivity.
Qed.

(* the variables that survive: exactly the unfixed ones, in the original order (no NoDup needed) *)
Lemma fix_term_py_fst fixed : forall k v, fst (fix_term_py fixed k v) = filter (unfixedb fixed) k.
Proof.
  induction fixed as [|[var value] r IH]; intros k v; cbn [fix_term_py].
  - cbn [fst]. symmetry. induction k as [|x k IHk]; cbn [filter]; [reflexivity|].
    unfold unfixedb at 1. cbn [lookup find]. f_equal. exact IHk.
  - destruct (existsb (Nat.eqb var) k) eqn:E.
    + rewrite IH, filter_filter_and. apply filter_ext_in'. intros w _.
      rewrite unfixedb_cons. reflexivity.
    + rewrite IH. apply filter_ext_in'. intros w Hw. rewrite unfixedb_cons.
      destruct (Nat.eqb_spec w var) as [->|_]; [|reflexivity].
      apply existsb_eqb_In in Hw. rewrite Hw in E. discriminate E.
Qed.

Lemma qprod_map_one {A} (l : list A) : qprod (map (fun _ => 1) l) = 1.
Proof. induction l as [|x l IH]; cbn [map qprod]; [reflexivity|]. rewrite IH. ring. Qed.

(* on a duplicate-free term the inner loop IS the specification's hfix_mono *)
Lemma fix_term_py_hfix_mono fixed t :
  NoDup (fst t) -> fix_term_py fixed (fst t) (snd t) = hfix_mono fixed t.
Proof.
  intros Hnd. unfold hfix_mono.
  pose proof (fix_term_py_val fixed (fst t) (snd t) (fun _ => 1) Hnd) as H1.
  pose proof (fix_vars_in_val fixed (fst t) (fun _ => 1)) as H2.
  pose proof (fix_term_py_fst fixed (fst t) (snd t)) as H3.
  pose proof (fix_vars_in_fst fixed (fst t)) as H4.
  destruct (fix_vars_in fixed (fst t)) as [rest c].
  destruct (fix_term_py fixed (fst t) (snd t)) as [k' v']. cbn [fst snd] in *.
  rewrite qprod_map_one in H1, H2. rewrite <- H2 in H1.
  f_equal; [rewrite H3, H4; reflexivity|].
  transitivity (v' * 1); [ring|]. rewrite H1. ring.
Qed.

Definition terms_nodup (p : hpoly) : Prop := forall t, In t p -> NoDup (fst t).

Lemma fix_fold_hmeas phi fixed p : sort_invariant phi -> terms_nodup p -> forall st,
  hmeas phi (fst (fold_left (fix_step_py fixed) p st)) +
    snd (fold_left (fix_step_py fixed) p st) * phi [] =
  hmeas phi (fst st) + snd st * phi [] + hmeas phi (hfix fixed p).
Proof.
  intros Hphi. induction p as [|t p IH]; intros Hnd st; cbn [fold_left hfix map].
  - unfold hmeas at 3. cbn [map qsum]. ring.
  - rewrite IH by (intros u Hu; apply Hnd; right; exact Hu).
    fold (hfix fixed p). rewrite hmeas_cons. unfold fix_step_py.
    rewrite fix_term_py_hfix_mono by (apply Hnd; left; reflexivity).
    destruct (hfix_mono fixed t) as [k v]. destruct k as [|a k]; cbn [fst snd].
    + ring.
    + rewrite hmeas_hdict_add, Hphi. ring.
Qed.

(* generic: every sort-invariant linear functional agrees with the specification hfix *)
Theorem fix_variables_py_hmeas phi fixed p : sort_invariant phi -> terms_nodup p ->
  hmeas phi (fix_variables_py fixed p) = hmeas phi (hfix fixed p).
Proof.
  intros Hphi Hnd. unfold fix_variables_py, fix_loop_py. rewrite hmeas_app.
  pose proof (fix_fold_hmeas phi fixed p Hphi Hnd ([], 0)) as H. cbn [fst snd] in H.
  unfold hmeas at 2. cbn [map qsum fst snd]. unfold hmeas at 2 in H. cbn [map qsum] in H.
  transitivity (hmeas phi (fst (fold_left (fix_step_py fixed) p ([], 0))) +
                snd (fold_left (fix_step_py fixed) p ([], 0)) * phi []); [ring|].
  rewrite H. ring.
Qed.

Theorem fix_variables_py_hcoeff fixed p k : terms_nodup p ->
  hcoeff (fix_variables_py fixed p) k = hcoeff (hfix fixed p) k.
Proof. intros H. rewrite !hcoeff_hmeas. apply fix_variables_py_hmeas; [apply key_ind_sort_invariant|exact H]. Qed.

Theorem fix_variables_py_coeff fixed p : terms_nodup p ->
  hpoly_eqb (fix_variables_py fixed p) (hfix fixed p) = true.
Proof.
  intros H. unfold hpoly_eqb. apply forallb_forall. intros k _.
  apply Qc_eqb_iff, fix_variables_py_hcoeff, H.
Qed.

(* agreement with HPoly.hfix: same energy *)
Theorem fix_variables_py_eq_hfix_energy fixed p s : terms_nodup p ->
  henergy (fix_variables_py fixed p) s = henergy (hfix fixed p) s.
Proof. intros H. rewrite !henergy_hmeas. apply fix_variables_py_hmeas; [apply energy_sort_invariant|exact H]. Qed.

(* fixing = evaluating at the extended assignment *)
Theorem fix_variables_py_energy fixed p s : terms_nodup p ->
  henergy (fix_variables_py fixed p) s = henergy p (override fixed s).
Proof. intros H. rewrite (fix_variables_py_eq_hfix_energy fixed p s H). apply hfix_energy. Qed.

(* the hypothesis is needed: `k -= {var}` drops every occurrence, `v *= value` happens once *)
Example fix_variables_py_energy_needs_nodup :
  exists fixed p s, henergy (fix_variables_py fixed p) s <> henergy p (override fixed s).
Proof.
  exists [(0%nat, two)], [([0%nat; 0%nat], 1)], (fun _ => 0). intros H. vm_compute in H. discriminate H.
Qed.

(* no fixed variable survives (no hypothesis) *)
Lemma fix_term_py_rest fixed k v w :
  In w (fst (fix_term_py fixed k v)) -> In w k /\ lookup fixed w = None.
Proof.
  rewrite fix_term_py_fst, filter_In. unfold unfixedb. intros [Hin H]. split; [exact Hin|].
  destruct (lookup fixed w); [discriminate H|reflexivity].
Qed.

Lemma hdict_add_In d k b t :
  In t (hdict_add d k b) -> fst t = k \/ exists t', In t' d /\ fst t = fst t'.
Proof.
  induction d as [|[k' v] r IH]; cbn [hdict_add].
  - intros [<-|[]]. left. reflexivity.
  - destruct (nats_eqb k' k) eqn:E.
    + intros [<-|H].
      * right. exists (k', v). split; [left; reflexivity|reflexivity].
      * right. exists t. split; [right; exact H|reflexivity].
    + intros [<-|H].
      * right. exists (k', v). split; [left; reflexivity|reflexivity].
      * apply IH in H. destruct H as [H|[t' [H1 H2]]]; [left; exact H|].
        right. exists t'. split; [right; exact H1|exact H2].
Qed.

Definition keys_unfixed (fixed : list (label * Qc)) (d : hpoly) : Prop :=
  forall t v, In t d -> In v (fst t) -> lookup fixed v = None.

Lemma fix_fold_keys_unfixed fixed p : forall st,
  keys_unfixed fixed (fst st) -> keys_unfixed fixed (fst (fold_left (fix_step_py fixed) p st)).
Proof.
  induction p as [|t p IH]; intros st Hst; cbn [fold_left]; [exact Hst|].
  apply IH. unfold fix_step_py.
  pose proof (fix_term_py_rest fixed (fst t) (snd t)) as Hr.
  destruct (fix_term_py fixed (fst t) (snd t)) as [k v]. cbn [fst] in Hr.
  destruct k as [|a k]; cbn [fst]; [exact Hst|].
  intros u w Hu Hw. apply hdict_add_In in Hu. destruct Hu as [Hu|[u' [Hu1 Hu2]]].
  - rewrite Hu in Hw. apply (proj1 (sort_nats_In _ _)) in Hw. apply (Hr w Hw).
  - rewrite Hu2 in Hw. exact (Hst u' w Hu1 Hw).
Qed.

Theorem fix_variables_py_removes fixed p t v :
  In t (fix_variables_py fixed p) -> In v (fst t) -> lookup fixed v = None.
Proof.
  unfold fix_variables_py, fix_loop_py. rewrite in_app_iff. intros [Ht|[<-|[]]] Hv.
  - refine (fix_fold_keys_unfixed fixed p ([], 0) _ t v Ht Hv). intros u w [].
  - destruct Hv.
Qed.

Lemma fix_fold_keys_nonempty fixed p : forall st,
  (forall t, In t (fst st) -> fst t <> []) ->
  forall t, In t (fst (fold_left (fix_step_py fixed) p st)) -> fst t <> [].
Proof.
  induction p as [|u p IH]; intros st Hst; cbn [fold_left]; [exact Hst|].
  apply IH. unfold fix_step_py. destruct (fix_term_py fixed (fst u) (snd u)) as [k v].
  destruct k as [|a k]; cbn [fst]; [exact Hst|].
  intros t Ht. apply hdict_add_In in Ht. destruct Ht as [Ht|[t' [H1 H2]]].
  - rewrite Ht. intros E. pose proof (sort_nats_In a (a :: k)) as [_ Hin].
    rewrite E in Hin. apply Hin. left. reflexivity.
  - rewrite H2. apply Hst. exact H1.
Qed.

(* the final `poly_copy[()] = offset` entry is always there (also when the offset is 0), last,
   and it is the only entry with the empty key *)
Theorem fix_variables_py_has_offset fixed p :
  fix_variables_py fixed p = fst (fix_loop_py fixed p) ++ [([], snd (fix_loop_py fixed p))] /\
  forall t, In t (fst (fix_loop_py fixed p)) -> fst t <> [].
Proof.
  split; [reflexivity|]. unfold fix_loop_py. apply fix_fold_keys_nonempty. intros t [].
Qed.

(* ---------- the results are well-formed dicts: distinct, sorted keys ---------- *)
Definition hdict_wf (d : hpoly) : Prop :=
  NoDup (map fst d) /\ forall t, In t d -> sort_nats (fst t) = fst t.

Lemma hdict_wf_nil : hdict_wf [].
Proof. split; [constructor|intros t []]. Qed.

Lemma hdict_add_keys_in d k b : In k (map fst d) -> map fst (hdict_add d k b) = map fst d.
Proof.
  induction d as [|[k' v] r IH]; intros H; [destruct H|]. cbn [hdict_add].
  destruct (nats_eqb k' k) eqn:E; cbn [map fst]; [reflexivity|].
  f_equal. apply IH. destruct H as [H|H]; [|exact H]. cbn [fst] in H. subst k'.
  assert (E' : nats_eqb k k = true) by (apply nats_eqb_eq; reflexivity). rewrite E' in E. discriminate E.
Qed.

Lemma hdict_add_keys_notin d k b :
  ~ In k (map fst d) -> map fst (hdict_add d k b) = map fst d ++ [k].
Proof.
  induction d as [|[k' v] r IH]; intros H; [reflexivity|]. cbn [hdict_add].
  destruct (nats_eqb k' k) eqn:E.
  - apply nats_eqb_eq in E. subst k'. exfalso. apply H. left. reflexivity.
  - cbn [map fst app]. f_equal. apply IH. intros Hin. apply H. right. exact Hin.
Qed.

Lemma hdict_add_wf d k b : hdict_wf d -> sort_nats k = k -> hdict_wf (hdict_add d k b).
Proof.
  intros [Hnd Hs] Hk. split.
  - destruct (in_dec (list_eq_dec Nat.eq_dec) k (map fst d)) as [Hin|Hout].
    + rewrite hdict_add_keys_in by exact Hin. exact Hnd.
    + rewrite hdict_add_keys_notin by exact Hout.
      apply (Permutation_NoDup (Permutation_cons_append (map fst d) k)).
      constructor; assumption.
  - intros t Ht. apply hdict_add_In in Ht. destruct Ht as [Ht|[t' [H1 H2]]].
    + rewrite Ht. exact Hk.
    + rewrite H2. apply Hs. exact H1.
Qed.

Lemma fold_add_wf (coef : list label -> Qc) l : forall d, hdict_wf d ->
  hdict_wf (fold_left (fun new t => hdict_add new (sort_nats t) (coef t)) l d).
Proof.
  induction l as [|t l IH]; intros d Hd; cbn [fold_left]; [exact Hd|].
  apply IH, hdict_add_wf; [exact Hd|apply sort_nats_idem].
Qed.

Theorem to_binary_py_wf p : hdict_wf (to_binary_py p).
Proof.
  unfold to_binary_py. generalize hdict_wf_nil. generalize (@nil mono).
  induction p as [|[term bias] p IH]; intros d Hd; cbn [fold_left]; [exact Hd|].
  apply IH. unfold to_binary_term. cbn [fst snd]. apply fold_add_wf, Hd.
Qed.

Theorem to_spin_py_wf p : hdict_wf (to_spin_py p).
Proof.
  unfold to_spin_py. generalize hdict_wf_nil. generalize (@nil mono).
  induction p as [|[term bias] p IH]; intros d Hd; cbn [fold_left]; [exact Hd|].
  apply IH. unfold to_spin_term. cbn [fst snd].
  apply (fold_add_wf (fun _ => to_spin_newbias term bias)), Hd.
Qed.

Lemma fix_fold_wf fixed p : forall st, hdict_wf (fst st) ->
  hdict_wf (fst (fold_left (fix_step_py fixed) p st)).
Proof.
  induction p as [|u p IH]; intros st Hst; cbn [fold_left]; [exact Hst|].
  apply IH. unfold fix_step_py. destruct (fix_term_py fixed (fst u) (snd u)) as [k v].
  destruct k as [|a k]; cbn [fst]; [exact Hst|].
  apply hdict_add_wf; [exact Hst|apply sort_nats_idem].
Qed.

Theorem fix_variables_py_wf fixed p : hdict_wf (fix_variables_py fixed p).
Proof.
  destruct (fix_variables_py_has_offset fixed p) as [-> Hne].
  pose proof (fix_fold_wf fixed p ([], 0) hdict_wf_nil) as [Hnd Hs]. fold (fix_loop_py fixed p) in Hnd, Hs.
  split.
  - rewrite map_app. cbn [map fst].
    apply (Permutation_NoDup (Permutation_cons_append _ _)). constructor; [|exact Hnd].
    rewrite in_map_iff. intros [t [E Ht]]. exact (Hne t Ht E).
  - intros t Ht. apply in_app_or in Ht. destruct Ht as [Ht|[<-|[]]]; [apply Hs; exact Ht|reflexivity].
Qed.

(* in a well-formed dict the stored value IS the coefficient *)
Lemma hdict_get_notin d k : ~ In k (map fst d) -> hdict_get d k = None.
Proof.
  induction d as [|[k' v] r IH]; intros H; cbn [hdict_get]; [reflexivity|].
  destruct (nats_eqb k' k) eqn:E.
  - apply nats_eqb_eq in E. subst k'. exfalso. apply H. left. reflexivity.
  - apply IH. intros Hin. apply H. right. exact Hin.
Qed.

Lemma hcoeff_cons t p k :
  hcoeff (t :: p) k = (if nats_eqb (sort_nats (fst t)) k then snd t else 0) + hcoeff p k.
Proof.
  unfold hcoeff. cbn [filter]. destruct (nats_eqb (sort_nats (fst t)) k); cbn [map qsum]; ring.
Qed.

Lemma hcoeff_wf_get d k : hdict_wf d ->
  hcoeff d k = match hdict_get d k with Some v => v | None => 0 end.
Proof.
  induction d as [|[k' v] r IH]; intros [Hnd Hs]; [reflexivity|].
  inversion Hnd as [|x l Hx Hl]; subst.
  assert (Hr : hdict_wf r) by (split; [exact Hl|intros t Ht; apply Hs; right; exact Ht]).
  pose proof (Hs (k', v) (or_introl eq_refl)) as Hk. cbn [fst] in Hk.
  rewrite hcoeff_cons, (IH Hr). cbn [fst snd hdict_get]. rewrite Hk.
  destruct (nats_eqb k' k) eqn:E; [|ring].
  apply nats_eqb_eq in E. subst k'. rewrite hdict_get_notin by exact Hx. ring.
Qed.

Lemma hdict_get_In d k v : NoDup (map fst d) -> In (k, v) d -> hdict_get d k = Some v.
Proof.
  induction d as [|[k' v'] r IH]; intros Hnd Hin; [destruct Hin|].
  inversion Hnd as [|x l Hx Hl]; subst. cbn [hdict_get].
  destruct Hin as [E|Hin].
  - injection E as -> ->. assert (E' : nats_eqb k k = true) by (apply nats_eqb_eq; reflexivity).
    rewrite E'. reflexivity.
  - destruct (nats_eqb k' k) eqn:E; [|apply IH; assumption].
    apply nats_eqb_eq in E. subst k'. exfalso. apply Hx.
    change k with (fst (k, v)). apply in_map. exact Hin.
Qed.

(* every stored item of the result dict is the specification's coefficient at that key *)
Theorem to_binary_py_items p k v :
  In (k, v) (to_binary_py p) -> v = hcoeff (h_spin_to_binary p) k.
Proof.
  intros H. pose proof (to_binary_py_wf p) as Hwf.
  rewrite <- to_binary_py_hcoeff, (hcoeff_wf_get _ k Hwf), (hdict_get_In _ k v (proj1 Hwf) H). reflexivity.
Qed.

Theorem to_spin_py_items p k v :
  In (k, v) (to_spin_py p) -> v = hcoeff (h_binary_to_spin p) k.
Proof.
  intros H. pose proof (to_spin_py_wf p) as Hwf.
  rewrite <- to_spin_py_hcoeff, (hcoeff_wf_get _ k Hwf), (hdict_get_In _ k v (proj1 Hwf) H). reflexivity.
Qed.

Theorem fix_variables_py_items fixed p k v : terms_nodup p ->
  In (k, v) (fix_variables_py fixed p) -> v = hcoeff (hfix fixed p) k.
Proof.
  intros Hp H. pose proof (fix_variables_py_wf fixed p) as Hwf.
  rewrite <- (fix_variables_py_hcoeff fixed p k Hp), (hcoeff_wf_get _ k Hwf),
    (hdict_get_In _ k v (proj1 Hwf) H). reflexivity.
Qed.

(* ---------- cross-checks against the real code (outputs copied from dimod) ----------
   p = BinaryPolynomial({(3,1): 1.5, (2,): -2, (1,2,3): 0.25, (): 1, (1,): 4}, vartype)
   items() order: {1,3}, {2}, {1,2,3}, {}, {1}; the small-int frozensets iterate in increasing order *)
Definition ex_p : hpoly :=
  [([1; 3]%nat, qc 3 2); ([2]%nat, qc (-2) 1); ([1; 2; 3]%nat, qc 1 4); ([], qc 1 1); ([1]%nat, qc 4 1)].

(* list(BinaryPolynomial(ex_p, 'SPIN').to_binary().items()) *)
Example to_binary_py_matches_dimod :
  hdict_items_ordered_eqb (to_binary_py ex_p)
    [([], qc 1 4); ([1]%nat, qc 11 2); ([3]%nat, qc (-5) 2); ([1; 3]%nat, qc 5 1); ([2]%nat, qc (-7) 2);
     ([1; 2]%nat, qc (-1) 1); ([2; 3]%nat, qc (-1) 1); ([1; 2; 3]%nat, qc 2 1)] = true
  /\ hpoly_eqb (to_binary_py ex_p) (h_spin_to_binary ex_p) = true.
Proof. split; vm_compute; reflexivity. Qed.

(* list(BinaryPolynomial(ex_p, 'BINARY').to_spin().items()) *)
Example to_spin_py_matches_dimod :
  hdict_items_ordered_eqb (to_spin_py ex_p)
    [([], qc 77 32); ([1]%nat, qc 77 32); ([3]%nat, qc 13 32); ([1; 3]%nat, qc 13 32);
     ([2]%nat, qc (-31) 32); ([1; 2]%nat, qc 1 32); ([2; 3]%nat, qc 1 32); ([1; 2; 3]%nat, qc 1 32)] = true.
Proof. vm_compute. reflexivity. Qed.

(* fix_variables(BinaryPolynomial(ex_p, 'BINARY'), {3: 0.5, 2: -1}) ;
   fix_variables(BinaryPolynomial(ex_p, 'SPIN'), {1: -1, 7: 1}) ;
   fix_variables(BinaryPolynomial({(1,2): 1.0, (2,3): 2.0}, 'SPIN'), {})  -- the `(): 0.0` item is there *)
Example fix_variables_py_matches_dimod :
  hdict_items_ordered_eqb (fix_variables_py [(3%nat, qc 1 2); (2%nat, qc (-1) 1)] ex_p)
    [([1]%nat, qc 37 8); ([], qc 3 1)] = true
  /\ hdict_items_ordered_eqb (fix_variables_py [(1%nat, qc (-1) 1); (7%nat, qc 1 1)] ex_p)
    [([3]%nat, qc (-3) 2); ([2]%nat, qc (-2) 1); ([2; 3]%nat, qc (-1) 4); ([], qc (-3) 1)] = true
  /\ hdict_items_ordered_eqb (fix_variables_py [] [([1; 2]%nat, qc 1 1); ([2; 3]%nat, qc 2 1)])
    [([1; 2]%nat, qc 1 1); ([2; 3]%nat, qc 2 1); ([], 0)] = true.
Proof. repeat split; vm_compute; reflexivity. Qed.

Example powerset_py_order :
  powerset_py [5; 2; 9]%nat = [[]; [5]; [2]; [9]; [5; 2]; [5; 9]; [2; 9]; [5; 2; 9]]%nat.
Proof. reflexivity. Qed.

Print Assumptions to_binary_py_energy.
Print Assumptions to_spin_py_energy.
Print Assumptions to_binary_py_coeff.
Print Assumptions to_spin_py_coeff.
Print Assumptions to_binary_py_items.
Print Assumptions to_spin_py_items.
Print Assumptions to_spin_to_binary_py_energy.
Print Assumptions to_binary_to_spin_py_energy.
Print Assumptions fix_variables_py_energy.
Print Assumptions fix_variables_py_removes.
Print Assumptions fix_variables_py_eq_hfix_energy.
Print Assumptions fix_variables_py_coeff.
Print Assumptions fix_variables_py_items.
Print Assumptions fix_variables_py_has_offset.
Print Assumptions fix_variables_py_wf.
Print Assumptions to_binary_py_wf.
Print Assumptions to_spin_py_wf.
Print Assumptions fix_variables_py_energy_needs_nodup.
