(* C04: coefficient equivalence of two model states and its preservation by the calls of Model/Hist.v.
   Two BQM states are coefficient equivalent (`ceq`) when they have the same kind, the same SET of variable
   records, the same offset, the same linear bias per variable, the same bias per unordered pair and the same
   set of interactions present - the ORDER of the variables and of the terms in the two bags is free.  This is
   the relation under which the storage back-ends (array order / dict order, and any difference in the order in
   which a loop over a neighbourhood wrote its terms) are indistinguishable. *)
From Coq Require Import List ZArith QArith Qcanon Bool Arith Lia Permutation.
From Dimod Require Import Base.Util Model.Poly Model.View Model.Hist Proofs.PolyFacts Proofs.ViewFacts Proofs.CoeffSound
  Proofs.HistFacts Proofs.HistWf Proofs.HistWf2 Proofs.HistAtomic Proofs.HistAtomicQM Proofs.HistQmAtomic Proofs.HistQmPres
  Proofs.HistLoops Proofs.HistContract Proofs.HistViewStep Proofs.HistViewStep2 Proofs.HistBqmReach Proofs.HistGenTie
  Proofs.HistBackends.
Import ListNotations.
Open Scope Qc_scope.

Definition ceq (s s' : state) : Prop :=
  st_kind s = st_kind s'
  /\ (forall i, In i (st_vars s) <-> In i (st_vars s'))
  /\ p_off (st_poly s) = p_off (st_poly s')
  /\ (forall v, lin s v = lin s' v)
  /\ (forall u v, quad s u v = quad s' u v)
  /\ (forall u v, hasq s u v = hasq s' u v).

(* the working relation: both are well-formed BQMs and they are coefficient equivalent *)
Definition R (s s' : state) : Prop := BW s /\ BW s' /\ ceq s s'.
Definition Rr (r r' : res) : Prop := snd r = snd r' /\ R (fst r) (fst r').

Lemma ceq_refl s : ceq s s.
Proof. repeat split; intros; auto. Qed.

Lemma ceq_sym s s' : ceq s s' -> ceq s' s.
Proof.
  intros (K & V & O & L & Q & H). repeat split; intros; try (symmetry; auto; fail).
  - apply V; assumption.
  - apply V; assumption.
Qed.

Lemma ceq_trans a b c : ceq a b -> ceq b c -> ceq a c.
Proof.
  intros (K & V & O & L & Q & H) (K' & V' & O' & L' & Q' & H').
  split; [congruence|]. split; [intros i; rewrite V; apply V'|]. split; [congruence|].
  split; [intros v; rewrite L; apply L'|]. split; [intros u v; rewrite Q; apply Q'|intros u v; rewrite H; apply H'].
Qed.

Lemma R_refl_l s s' : R s s' -> R s s.
Proof. intros (A & _ & _). split; [exact A|]. split; [exact A|apply ceq_refl]. Qed.
Lemma R_sym s s' : R s s' -> R s' s.
Proof. intros (A & A' & C). split; [exact A'|]. split; [exact A|apply ceq_sym; exact C]. Qed.
Lemma R_trans a b c : R a b -> R b c -> R a c.
Proof. intros (A & _ & C) (_ & A' & C'). split; [exact A|]. split; [exact A'|exact (ceq_trans a b c C C')]. Qed.
Lemma R_refl_r s s' : R s s' -> R s' s'.
Proof. intros H. apply R_sym in H. exact (R_refl_l _ _ H). Qed.
Lemma R_self s : BW s -> R s s.
Proof. intros H. split; [exact H|]. split; [exact H|apply ceq_refl]. Qed.

Lemma Rr_trans a b c : Rr a b -> Rr b c -> Rr a c.
Proof. intros [E H] [E' H']. split; [congruence|exact (R_trans _ _ _ H H')]. Qed.

Lemma Rr_bind r r' g g' : Rr r r' -> (forall a a', R a a' -> Rr (g a) (g' a')) -> Rr (r >>= g) (r' >>= g').
Proof.
  intros [H1 H2] Hg. unfold bind. rewrite <- H1. destruct (snd r) eqn:E; [apply Hg; exact H2|]. split; [congruence|exact H2].
Qed.

Lemma Rr_seqm {A : Type} (f f' : A -> state -> res) l s s' :
  (forall x a a', In x l -> R a a' -> Rr (f x a) (f' x a')) -> R s s' -> Rr (seqm f l s) (seqm f' l s').
Proof.
  revert s s'. induction l as [|x l IH]; intros s s' Hf H; [split; [reflexivity|exact H]|].
  cbn [seqm]. apply Rr_bind; [apply Hf; [left; reflexivity|exact H]|]. intros a a' Ha. apply IH; [|exact Ha].
  intros y b b' Hy. apply Hf. right. exact Hy.
Qed.

Lemma Rr_ok s s' : R s s' -> Rr (ok s) (ok s').
Proof. intros H. split; [reflexivity|exact H]. Qed.
Lemma Rr_raise b s s' : R s s' -> Rr (raise b s) (raise b s').
Proof. intros H. split; [reflexivity|exact H]. Qed.

(* building Rr from the invariant lemmas and a coefficient computation *)
Lemma Rr_mk (f f' : state -> res) s s' :
  R s s' -> PBW f -> PBW f' -> snd (f s) = snd (f' s') -> ceq (fst (f s)) (fst (f' s')) -> Rr (f s) (f' s').
Proof. intros (A & A' & _) P P' E C. split; [exact E|]. split; [apply P; exact A|]. split; [apply P'; exact A'|exact C]. Qed.

(* ---------- what ceq determines ---------- *)
Lemma R_B s s' : R s s' -> B s /\ B s'.
Proof. intros ((b & _) & (b' & _) & _). split; assumption. Qed.
Lemma R_ceq s s' : R s s' -> ceq s s'.
Proof. intros (_ & _ & C). exact C. Qed.

Lemma ceq_has s s' x : ceq s s' -> has_var s x = has_var s' x.
Proof. intros (_ & V & _). unfold has_var. apply existsb_iff. exact V. Qed.
Lemma ceq_bvt s s' : ceq s s' -> bvt s = bvt s'.
Proof. intros (K & _). unfold bvt. rewrite K. reflexivity. Qed.
Lemma ceq_vdir h s s' : ceq s s' -> vdir_of h s = vdir_of h s'.
Proof. intros H. unfold vdir_of. rewrite (ceq_bvt s s' H). reflexivity. Qed.
Lemma ceq_hvt h s s' : ceq s s' -> hvt h s = hvt h s'.
Proof. intros H. unfold hvt. rewrite (ceq_bvt s s' H). reflexivity. Qed.
Lemma ceq_lin s s' v : ceq s s' -> lin s v = lin s' v.
Proof. intros (_ & _ & _ & L & _). apply L. Qed.
Lemma ceq_quad s s' u v : ceq s s' -> quad s u v = quad s' u v.
Proof. intros (_ & _ & _ & _ & Q & _). apply Q. Qed.
Lemma ceq_hasq s s' u v : ceq s s' -> hasq s u v = hasq s' u v.
Proof. intros (_ & _ & _ & _ & _ & H). apply H. Qed.
Lemma ceq_off s s' : ceq s s' -> p_off (st_poly s) = p_off (st_poly s').
Proof. intros (_ & _ & O & _). exact O. Qed.

(* the variable lists are permutations of each other *)
Lemma NoDup_map_inv' {A B : Type} (f : A -> B) l : NoDup (map f l) -> NoDup l.
Proof.
  induction l as [|a l IH]; intros H; [constructor|]. cbn [map] in H. inversion H as [|x xs N1 N2]; subst.
  constructor; [|apply IH; exact N2]. intros Hin. apply N1. apply in_map. exact Hin.
Qed.

Lemma R_perm_vars s s' : R s s' -> Permutation (st_vars s) (st_vars s').
Proof.
  intros ((_ & (N & _)) & (_ & (N' & _)) & (_ & V & _)).
  apply NoDup_Permutation; [apply (NoDup_map_inv' v_lab); exact N|apply (NoDup_map_inv' v_lab); exact N'|exact V].
Qed.
Lemma R_perm_labels s s' : R s s' -> Permutation (labels s) (labels s').
Proof. intros H. unfold labels. apply Permutation_map, R_perm_vars, H. Qed.

Lemma qsum_perm l l' : Permutation l l' -> qsum l = qsum l'.
Proof. intros H. induction H; cbn [qsum]; [reflexivity|rewrite IHPermutation; reflexivity|ring|congruence]. Qed.

Lemma filter_perm {A : Type} (f : A -> bool) l l' : Permutation l l' -> Permutation (filter f l) (filter f l').
Proof.
  intros H. induction H; cbn [filter].
  - constructor.
  - destruct (f x); [constructor|]; assumption.
  - destruct (f x), (f y); try apply perm_swap; try constructor; apply Permutation_refl.
  - eapply perm_trans; eassumption.
Qed.

Lemma filter_ext' {A : Type} (f g : A -> bool) l : (forall x, f x = g x) -> filter f l = filter g l.
Proof. intros H. induction l as [|a l IH]; [reflexivity|]. cbn [filter]. rewrite H, IH. reflexivity. Qed.

Lemma R_perm_nbh s s' v : R s s' -> Permutation (nbh s v) (nbh s' v).
Proof.
  intros H. pose proof (R_ceq s s' H) as C. unfold nbh.
  rewrite (map_ext (fun w => (w, quad s v w)) (fun w => (w, quad s' v w))) by (intros w; rewrite (ceq_quad s s' v w C); reflexivity).
  apply Permutation_map. rewrite (filter_ext' (hasq s v) (hasq s' v)) by (intros w; apply ceq_hasq; exact C).
  apply filter_perm, R_perm_labels, H.
Qed.

Lemma R_nbh_sum s s' v : R s s' -> nbh_sum s v = nbh_sum s' v.
Proof. intros H. unfold nbh_sum. apply qsum_perm, Permutation_map, R_perm_nbh, H. Qed.

Lemma R_h_nbh h s s' v : R s s' -> Permutation (h_nbh h v s) (h_nbh h v s').
Proof.
  intros H. unfold h_nbh.
  rewrite (map_ext (fun t => (fst t, vscale h s (snd t))) (fun t => (fst t, vscale h s' (snd t))))
    by (intros t; unfold vscale; rewrite (ceq_vdir h s s' (R_ceq s s' H)); reflexivity).
  apply Permutation_map, R_perm_nbh, H.
Qed.

(* same energies on every sample *)
Fixpoint lmax (l : list nat) : nat := match l with [] => 0%nat | x :: xs => Nat.max x (lmax xs) end.
Lemma lmax_ge l x : In x l -> (x <= lmax l)%nat.
Proof. induction l as [|a l IH]; intros H; [destruct H|]. cbn [lmax]. destruct H as [E|H]; [subst; lia|specialize (IH H); lia]. Qed.

Definition pbound (p : poly) : nat :=
  S (Nat.max (lmax (map fst (p_lin p))) (Nat.max (lmax (map (fun t : qterm => fst (fst t)) (p_quad p))) (lmax (map (fun t : qterm => snd (fst t)) (p_quad p))))).

Lemma labels_below_pbound p n : (pbound p <= n)%nat -> labels_below n p.
Proof.
  intros Hn. unfold pbound in Hn. split.
  - intros t Ht. pose proof (lmax_ge (map fst (p_lin p)) (fst t) (in_map fst _ _ Ht)). lia.
  - intros t Ht.
    pose proof (lmax_ge (map (fun t : qterm => fst (fst t)) (p_quad p)) (fst (fst t)) (in_map (fun t : qterm => fst (fst t)) _ _ Ht)).
    pose proof (lmax_ge (map (fun t : qterm => snd (fst t)) (p_quad p)) (snd (fst t)) (in_map (fun t : qterm => snd (fst t)) _ _ Ht)).
    lia.
Qed.

Lemma coeff_eq_energy a b :
  p_off a = p_off b -> (forall v, lin_coeff (p_lin a) v = lin_coeff (p_lin b) v) ->
  (forall u v, quad_coeff (p_quad a) u v = quad_coeff (p_quad b) u v) -> forall y, energy a y = energy b y.
Proof.
  intros O L Q. set (n := Nat.max (pbound a) (pbound b)).
  apply (poly_coeff_eqb_sound n); [apply labels_below_pbound; lia|apply labels_below_pbound; lia|].
  unfold poly_coeff_eqb. rewrite !andb_true_iff, !forallb_forall. repeat split.
  - apply Qc_eqb_iff. exact O.
  - intros v _. apply Qc_eqb_iff. apply L.
  - intros u _. apply forallb_forall. intros v _. apply Qc_eqb_iff. apply Q.
Qed.

Theorem ceq_energy s s' : ceq s s' -> forall y, energy (st_poly s) y = energy (st_poly s') y.
Proof. intros (_ & _ & O & L & Q & _). apply coeff_eq_energy; assumption. Qed.

Lemma energy_coeff_eq a b :
  (forall y, energy a y = energy b y) ->
  p_off a = p_off b /\ (forall v, lin_coeff (p_lin a) v = lin_coeff (p_lin b) v)
  /\ (forall u v, quad_coeff (p_quad a) u v = quad_coeff (p_quad b) u v).
Proof.
  intros E. split; [|split].
  - pose proof (coeff_eq_complete 0 a b E) as H. unfold poly_coeff_eqb in H. rewrite !andb_true_iff in H.
    destruct H as [[H _] _]. apply Qc_eqb_iff. exact H.
  - intros v. pose proof (coeff_eq_complete (S v) a b E) as H. unfold poly_coeff_eqb in H. rewrite !andb_true_iff in H.
    destruct H as [[_ H] _]. rewrite forallb_forall in H. apply Qc_eqb_iff, H. unfold labels_upto. apply in_seq. lia.
  - assert (forall u v, (v <= u)%nat -> quad_coeff (p_quad a) u v = quad_coeff (p_quad b) u v) as Hle.
    { intros u v Hv. pose proof (coeff_eq_complete (S u) a b E) as H. unfold poly_coeff_eqb in H. rewrite !andb_true_iff in H.
      destruct H as [_ H]. rewrite forallb_forall in H. assert (In u (labels_upto (S u))) as Hu by (unfold labels_upto; apply in_seq; lia).
      specialize (H u Hu). rewrite forallb_forall in H. apply Qc_eqb_iff, H. unfold labels_upto. apply in_seq. lia. }
    intros u v. destruct (Nat.le_ge_cases v u) as [Hv|Hv]; [apply Hle; exact Hv|].
    rewrite (HistFacts.quad_coeff_sym (p_quad a) u v), (HistFacts.quad_coeff_sym (p_quad b) u v). apply Hle. exact Hv.
Qed.

Lemma ceq_get_offset h s s' : ceq s s' -> h_get_offset h s = h_get_offset h s'.
Proof.
  intros H. unfold h_get_offset. rewrite <- (ceq_vdir h s s' H). destruct (vdir_of h s) as [d|]; [|apply ceq_off; exact H].
  rewrite !view_offset_is_energy_at_zero. apply ceq_energy. exact H.
Qed.

Lemma ceq_get_quadratic h u v s s' : ceq s s' -> h_get_quadratic h u v s = h_get_quadratic h u v s'.
Proof.
  intros H. unfold h_get_quadratic, vscale.
  rewrite <- !(ceq_has s s' _ H), <- (ceq_hasq s s' u v H), <- (ceq_vdir h s s' H), (ceq_quad s s' u v H). reflexivity.
Qed.

Lemma R_get_linear h v s s' : R s s' -> h_get_linear h v s = h_get_linear h v s'.
Proof.
  intros H. pose proof (R_ceq s s' H) as C. unfold h_get_linear.
  rewrite <- (ceq_has s s' v C), <- (ceq_vdir h s s' C), (ceq_lin s s' v C), (R_nbh_sum s s' v H). reflexivity.
Qed.

(* ---------- primitives ---------- *)
Lemma ceq_lin' s s' v : ceq s s' -> lin_coeff (p_lin (st_poly s)) v = lin_coeff (p_lin (st_poly s')) v.
Proof. exact (ceq_lin s s' v). Qed.
Lemma ceq_quad' s s' u v : ceq s s' -> quad_coeff (p_quad (st_poly s)) u v = quad_coeff (p_quad (st_poly s')) u v.
Proof. exact (ceq_quad s s' u v). Qed.
Lemma ceq_hasq' s s' u v : ceq s s' -> has_pair (p_quad (st_poly s)) u v = has_pair (p_quad (st_poly s')) u v.
Proof. exact (ceq_hasq s s' u v). Qed.

Lemma ceq_mk s s' p p' :
  ceq s s' -> p_off p = p_off p' -> (forall v, lin_coeff (p_lin p) v = lin_coeff (p_lin p') v) ->
  (forall u v, quad_coeff (p_quad p) u v = quad_coeff (p_quad p') u v) ->
  (forall u v, has_pair (p_quad p) u v = has_pair (p_quad p') u v) -> ceq (with_poly s p) (with_poly s' p').
Proof. intros (K & V & _) O L Q H. split; [exact K|]. split; [exact V|]. split; [exact O|]. split; [exact L|]. split; [exact Q|exact H]. Qed.

Lemma ceq_ensure v s s' : ceq s s' -> ceq (ensure v s) (ensure v s').
Proof.
  intros H. pose proof H as (K & V & O & L & Q & Hq).
  assert (E : forall a, st_poly (ensure v a) = st_poly a) by (intros a; apply poly_ensure).
  split; [rewrite !kind_ensure; exact K|]. split.
  - unfold ensure. rewrite <- (ceq_has s s' v H). destruct (has_var s v); [exact V|].
    intros i. cbn [with_vars st_vars]. rewrite !in_app_iff, (ceq_bvt s s' H), V. reflexivity.
  - unfold lin, quad, hasq. rewrite !E. split; [exact O|]. split; [exact L|]. split; [exact Q|exact Hq].
Qed.

Lemma PBW_d_add_offset b : PBW (d_add_offset b).
Proof. apply PBW_of_good; [intros s Hs; apply good_d_add_offset; exact Hs|apply pres_d_add_offset]. Qed.
Lemma PBW_d_remove_variable v : PBW (d_remove_variable v).
Proof. intros s [Hb Hw]. split; [apply B_d_remove_variable; exact Hb|apply pres_d_remove_variable; exact Hw]. Qed.

Lemma Rr_d_add_linear v b s s' : R s s' -> Rr (d_add_linear v b s) (d_add_linear v b s').
Proof.
  intros H. destruct (R_B s s' H) as [Hb Hb']. pose proof (R_ceq s s' H) as C.
  apply (Rr_mk (d_add_linear v b) (d_add_linear v b)); [exact H|exact (PBW_h_add_linear Direct v (fun _ => b))|exact (PBW_h_add_linear Direct v (fun _ => b))| |];
    rewrite (d_add_linear_bqm v b s Hb), (d_add_linear_bqm v b s' Hb'); [reflexivity|]. cbn [ok fst].
  apply ceq_mk; [apply ceq_ensure; exact C|apply (ceq_off s s' C)| | |].
  - intros w. rewrite !lin_coeff_add_linear, (ceq_lin' s s' w C). reflexivity.
  - intros x y. apply (ceq_quad' s s' x y C).
  - intros x y. apply (ceq_hasq' s s' x y C).
Qed.

Lemma d_set_linear_bqm v b s : B s -> d_set_linear v b s = ok (with_poly (ensure v s) (set_linear v b (st_poly s))).
Proof. intros Hs. destruct (B_kind s Hs) as [vt K]. unfold d_set_linear, resolve. rewrite K, bind_ok, poly_ensure. reflexivity. Qed.

Lemma Rr_d_set_linear v b s s' : R s s' -> Rr (d_set_linear v b s) (d_set_linear v b s').
Proof.
  intros H. destruct (R_B s s' H) as [Hb Hb']. pose proof (R_ceq s s' H) as C.
  apply (Rr_mk (d_set_linear v b) (d_set_linear v b)); [exact H|exact (PBW_h_set_linear Direct v (fun _ => b))|exact (PBW_h_set_linear Direct v (fun _ => b))| |];
    rewrite (d_set_linear_bqm v b s Hb), (d_set_linear_bqm v b s' Hb'); [reflexivity|]. cbn [ok fst].
  apply ceq_mk; [apply ceq_ensure; exact C|apply (ceq_off s s' C)| | |].
  - intros w. rewrite !lin_coeff_set_linear, (ceq_lin' s s' w C). reflexivity.
  - intros x y. apply (ceq_quad' s s' x y C).
  - intros x y. apply (ceq_hasq' s s' x y C).
Qed.

Lemma Rr_d_add_offset b s s' : R s s' -> Rr (d_add_offset b s) (d_add_offset b s').
Proof.
  intros H. pose proof (R_ceq s s' H) as C.
  apply (Rr_mk (d_add_offset b) (d_add_offset b)); [exact H|apply PBW_d_add_offset|apply PBW_d_add_offset|reflexivity|].
  cbn [d_add_offset ok fst]. apply ceq_mk; [exact C|cbn [add_offset p_off]; rewrite (ceq_off s s' C); reflexivity| | |].
  - intros w. apply (ceq_lin' s s' w C).
  - intros x y. apply (ceq_quad' s s' x y C).
  - intros x y. apply (ceq_hasq' s s' x y C).
Qed.

Lemma Rr_d_set_offset b s s' : R s s' -> Rr (d_set_offset b s) (d_set_offset b s').
Proof.
  intros H. pose proof (R_ceq s s' H) as C.
  apply (Rr_mk (d_set_offset b) (d_set_offset b)); [exact H|exact (PBW_h_set_offset Direct (fun _ => b))|exact (PBW_h_set_offset Direct (fun _ => b))|reflexivity|].
  cbn [d_set_offset ok fst]. apply ceq_mk; [exact C|reflexivity| | |].
  - intros w. apply (ceq_lin' s s' w C).
  - intros x y. apply (ceq_quad' s s' x y C).
  - intros x y. apply (ceq_hasq' s s' x y C).
Qed.

Lemma ceq_guard u v s s' : R s s' -> quad_guard u v s = quad_guard u v s'.
Proof. intros H. destruct (R_B s s' H) as [Hb Hb']. rewrite (bqm_guard u v s Hb), (bqm_guard u v s' Hb'). reflexivity. Qed.

Lemma Rr_d_add_quadratic u v b s s' : R s s' -> Rr (d_add_quadratic u v b s) (d_add_quadratic u v b s').
Proof.
  intros H. destruct (R_B s s' H) as [Hb Hb']. pose proof (R_ceq s s' H) as C.
  destruct (Nat.eq_dec u v) as [E|E].
  - unfold d_add_quadratic. rewrite (bqm_guard u v s Hb), (bqm_guard u v s' Hb'). subst. rewrite Nat.eqb_refl. apply Rr_raise. exact H.
  - apply (Rr_mk (d_add_quadratic u v b) (d_add_quadratic u v b)); [exact H|exact (PBW_h_add_quadratic Direct u v (fun _ => b))|exact (PBW_h_add_quadratic Direct u v (fun _ => b))| |];
      rewrite (d_add_quadratic_bqm u v b s Hb E), (d_add_quadratic_bqm u v b s' Hb' E); [reflexivity|]. cbn [ok fst].
    apply ceq_mk; [apply ceq_ensure, ceq_ensure; exact C|apply (ceq_off s s' C)| | |].
    + intros w. apply (ceq_lin' s s' w C).
    + intros x y. rewrite !quad_coeff_push, (ceq_quad' s s' x y C). reflexivity.
    + intros x y. rewrite !has_pair_push, (ceq_hasq' s s' x y C). reflexivity.
Qed.

Lemma d_set_quadratic_bqm u v b s :
  B s -> u <> v -> d_set_quadratic u v b s = ok (with_poly (ensure v (ensure u s)) (set_quadratic u v b (st_poly s))).
Proof.
  intros Hs E. destruct (B_kind s Hs) as [vt K]. unfold d_set_quadratic. rewrite (bqm_guard u v s Hs).
  destruct (Nat.eqb_spec u v) as [E'|_]; [contradiction|].
  rewrite (resolve2_bqm u v s vt K), bind_ok, !poly_ensure. reflexivity.
Qed.

Lemma Rr_d_set_quadratic u v b s s' : R s s' -> Rr (d_set_quadratic u v b s) (d_set_quadratic u v b s').
Proof.
  intros H. destruct (R_B s s' H) as [Hb Hb']. pose proof (R_ceq s s' H) as C.
  destruct (Nat.eq_dec u v) as [E|E].
  - unfold d_set_quadratic. rewrite (bqm_guard u v s Hb), (bqm_guard u v s' Hb'). subst. rewrite Nat.eqb_refl. apply Rr_raise. exact H.
  - apply (Rr_mk (d_set_quadratic u v b) (d_set_quadratic u v b)); [exact H|exact (PBW_h_set_quadratic Direct u v (fun _ => b))|exact (PBW_h_set_quadratic Direct u v (fun _ => b))| |];
      rewrite (d_set_quadratic_bqm u v b s Hb E), (d_set_quadratic_bqm u v b s' Hb' E); [reflexivity|]. cbn [ok fst].
    apply ceq_mk; [apply ceq_ensure, ceq_ensure; exact C|apply (ceq_off s s' C)| | |].
    + intros w. apply (ceq_lin' s s' w C).
    + intros x y. rewrite !quad_coeff_set_quadratic, (ceq_quad' s s' x y C). reflexivity.
    + intros x y. rewrite !has_pair_set_quadratic, (ceq_hasq' s s' x y C). reflexivity.
Qed.

Lemma Rr_d_remove_interaction u v s s' : R s s' -> Rr (d_remove_interaction u v s) (d_remove_interaction u v s').
Proof.
  intros H. pose proof (R_ceq s s' H) as C.
  apply (Rr_mk (d_remove_interaction u v) (d_remove_interaction u v)); [exact H|exact (PBW_h_remove_interaction Direct u v)|exact (PBW_h_remove_interaction Direct u v)| |];
    unfold d_remove_interaction; rewrite <- !(ceq_has s s' _ C), <- (ceq_hasq s s' u v C);
    destruct (has_var s u && has_var s v && hasq s u v); try reflexivity; [|exact C]. cbn [ok fst].
  apply ceq_mk; [exact C|apply (ceq_off s s' C)| | |].
  - intros w. apply (ceq_lin' s s' w C).
  - intros x y. rewrite !quad_coeff_remove_interaction, (ceq_quad' s s' x y C). reflexivity.
  - intros x y. rewrite !has_pair_remove_interaction, (ceq_hasq' s s' x y C). reflexivity.
Qed.

(* coefficients after remove_variable *)
Lemma has_pair_remove_var v x y (l : list qterm) :
  has_pair (filter (fun t => negb (mentions v t)) l) x y = negb ((x =? v)%nat || (y =? v)%nat) && has_pair l x y.
Proof.
  unfold has_pair. induction l as [|[[a b] c] l IH]; [cbn; rewrite andb_false_r; reflexivity|].
  cbn [filter]. destruct (negb (mentions v (a, b, c))) eqn:M; cbn [existsb]; rewrite IH; clear IH;
    unfold mentions, same_pair in *; cbn [fst snd] in *; match goal with |- context [existsb ?f l] => destruct (existsb f l) end;
    destruct (Nat.eqb_spec a v), (Nat.eqb_spec b v); cbn in M; try discriminate;
    destruct (Nat.eqb_spec x a), (Nat.eqb_spec y b), (Nat.eqb_spec x b), (Nat.eqb_spec y a), (Nat.eqb_spec x v), (Nat.eqb_spec y v);
    subst; cbn; try reflexivity; try congruence.
Qed.

Lemma quad_coeff_remove_var v x y (l : list qterm) :
  quad_coeff (filter (fun t => negb (mentions v t)) l) x y = if ((x =? v)%nat || (y =? v)%nat) then 0 else quad_coeff l x y.
Proof.
  destruct (Nat.eqb_spec x v) as [E|E]; [|destruct (Nat.eqb_spec y v) as [E'|E']].
  - apply quad_coeff_no_pair. rewrite has_pair_remove_var. subst. rewrite Nat.eqb_refl. reflexivity.
  - apply quad_coeff_no_pair. rewrite has_pair_remove_var. subst. rewrite Nat.eqb_refl, orb_true_r. reflexivity.
  - cbn [orb]. apply quad_coeff_remove_other; assumption.
Qed.

Lemma lin_coeff_remove_var v w l :
  lin_coeff (filter (fun t => negb (fst t =? v)%nat) l) w = if (w =? v)%nat then 0 else lin_coeff l w.
Proof.
  destruct (Nat.eqb_spec w v) as [E|E]; [subst; apply lin_coeff_filter_same|apply lin_coeff_remove_other; exact E].
Qed.

Lemma Rr_d_remove_variable v s s' : R s s' -> Rr (d_remove_variable v s) (d_remove_variable v s').
Proof.
  intros H. pose proof (R_ceq s s' H) as C.
  apply (Rr_mk (d_remove_variable v) (d_remove_variable v)); [exact H|apply PBW_d_remove_variable|apply PBW_d_remove_variable| |];
    unfold d_remove_variable; rewrite <- (ceq_has s s' v C); destruct (has_var s v); try reflexivity; [|exact C]. cbn [ok fst].
  pose proof C as (K & V & O & _). split; [exact K|]. split; [intros i; cbn [st_vars]; rewrite !filter_In, V; reflexivity|].
  unfold lin, quad, hasq. cbn [st_poly remove_variable p_off p_lin p_quad]. split; [exact O|]. split; [|split].
  - intros w. rewrite !lin_coeff_remove_var, (ceq_lin' s s' w C). reflexivity.
  - intros x y. rewrite !quad_coeff_remove_var, (ceq_quad' s s' x y C). reflexivity.
  - intros x y. rewrite !has_pair_remove_var, (ceq_hasq' s s' x y C). reflexivity.
Qed.

(* ---------- handle-level calls ---------- *)
Lemma ceq_view_offset d s s' : ceq s s' -> view_offset d (st_poly s) = view_offset d (st_poly s').
Proof. intros H. rewrite !view_offset_is_energy_at_zero. apply ceq_energy. exact H. Qed.

Lemma PBW_resolve v : PBW (resolve v).
Proof.
  intros s [Hb Hw]. split; [|apply pres_resolve; exact Hw].
  destruct (B_kind s Hb) as [vt K]. rewrite (resolve_bqm_ok v s vt K). apply B_ensure. exact Hb.
Qed.

Lemma Rr_resolve v s s' : R s s' -> Rr (resolve v s) (resolve v s').
Proof.
  intros H. destruct (R_B s s' H) as [Hb Hb']. destruct (B_kind s Hb) as [vt K]. destruct (B_kind s' Hb') as [vt' K'].
  apply (Rr_mk (resolve v) (resolve v)); [exact H|apply PBW_resolve|apply PBW_resolve| |];
    rewrite (resolve_bqm_ok v s vt K), (resolve_bqm_ok v s' vt' K'); [reflexivity|]. apply ceq_ensure, R_ceq, H.
Qed.

Lemma Rr_h_add_linear h v b s s' : R s s' -> Rr (h_add_linear h v b s) (h_add_linear h v b s').
Proof.
  intros H. unfold h_add_linear. rewrite <- (ceq_vdir h s s' (R_ceq s s' H)).
  destruct (vdir_of h s) as [[|]|]; try (apply Rr_d_add_linear; exact H);
    (apply Rr_bind; [apply Rr_d_add_linear; exact H|intros; apply Rr_d_add_offset; assumption]).
Qed.

Lemma Rr_h_add_quadratic h u v b s s' : R s s' -> Rr (h_add_quadratic h u v b s) (h_add_quadratic h u v b s').
Proof.
  intros H. unfold h_add_quadratic. rewrite <- (ceq_vdir h s s' (R_ceq s s' H)).
  destruct (vdir_of h s) as [[|]|]; try (apply Rr_d_add_quadratic; exact H);
    (apply Rr_bind; [apply Rr_bind; [apply Rr_bind; [apply Rr_d_add_quadratic; exact H|]|]|];
     intros; try apply Rr_d_add_linear; try apply Rr_d_add_offset; assumption).
Qed.

Lemma Rr_h_set_offset h b s s' : R s s' -> Rr (h_set_offset h b s) (h_set_offset h b s').
Proof.
  intros H. pose proof (R_ceq s s' H) as C. unfold h_set_offset. rewrite <- (ceq_vdir h s s' C).
  destruct (vdir_of h s) as [d|]; [rewrite (ceq_view_offset d s s' C); apply Rr_d_add_offset|apply Rr_d_set_offset]; exact H.
Qed.

Lemma Rr_h_add_offset h b s s' : R s s' -> Rr (h_add_offset h b s) (h_add_offset h b s').
Proof. intros H. unfold h_add_offset. rewrite (ceq_get_offset h s s' (R_ceq s s' H)). apply Rr_h_set_offset. exact H. Qed.

Lemma Rr_h_add_variable h v b s s' : R s s' -> Rr (h_add_variable h v b s) (h_add_variable h v b s').
Proof. intros H. unfold h_add_variable. apply Rr_bind; [apply Rr_resolve; exact H|intros; apply Rr_h_add_linear; assumption]. Qed.

Lemma Rr_h_set_linear h v b s s' : R s s' -> Rr (h_set_linear h v b s) (h_set_linear h v b s').
Proof.
  intros H. unfold h_set_linear. rewrite <- (ceq_vdir h s s' (R_ceq s s' H)).
  destruct (vdir_of h s) as [d|]; [|apply Rr_d_set_linear; exact H].
  apply Rr_bind; [apply Rr_h_add_linear; exact H|]. intros a a' Ha. rewrite (R_get_linear h v a a' Ha). apply Rr_h_add_linear. exact Ha.
Qed.

Lemma Rr_h_set_quadratic h u v b s s' : R s s' -> Rr (h_set_quadratic h u v b s) (h_set_quadratic h u v b s').
Proof.
  intros H. unfold h_set_quadratic. destruct h; [apply Rr_d_set_quadratic; exact H|].
  rewrite <- (ceq_guard u v s s' H). destruct (quad_guard u v s); [apply Rr_raise; exact H|].
  apply Rr_bind; [apply Rr_bind; [apply Rr_bind; [apply Rr_h_add_variable; exact H|]|]|].
  - intros; apply Rr_h_add_variable; assumption.
  - intros; apply Rr_h_add_quadratic; assumption.
  - intros a a' Ha. rewrite (ceq_get_quadratic (Via wv) u v a a' (R_ceq a a' Ha)). apply Rr_h_add_quadratic. exact Ha.
Qed.

Lemma Rr_h_remove_interaction h u v s s' : R s s' -> Rr (h_remove_interaction h u v s) (h_remove_interaction h u v s').
Proof.
  intros H. pose proof (R_ceq s s' H) as C. unfold h_remove_interaction.
  rewrite <- (ceq_vdir h s s' C), <- (ceq_get_quadratic h u v s s' C).
  destruct (vdir_of h s); [|apply Rr_d_remove_interaction; exact H].
  destruct (h_get_quadratic h u v s); [|apply Rr_raise; exact H].
  apply Rr_bind; [apply Rr_h_set_quadratic; exact H|intros; apply Rr_d_remove_interaction; assumption].
Qed.

(* update(other): the loops run over the operand's own variable order, the same on both sides *)
Lemma Rr_m_update_bqm h o s s' : R s s' -> Rr (m_update_bqm h o s) (m_update_bqm h o s').
Proof.
  intros H. unfold m_update_bqm. rewrite <- (ceq_hvt h s s' (R_ceq s s' H)).
  apply Rr_bind; [apply Rr_bind|].
  - apply Rr_seqm; [|exact H]. intros; apply Rr_h_add_linear; assumption.
  - intros a a' Ha. apply Rr_seqm; [|exact Ha]. intros; apply Rr_h_add_quadratic; assumption.
  - intros a a' Ha. apply Rr_h_add_offset. exact Ha.
Qed.

(* ---------- loops whose list is read off the state: the order of the list does not matter ---------- *)
Lemma bind_ok' r g : snd r = Ok -> r >>= g = g (fst r).
Proof. intros H. unfold bind. rewrite H. reflexivity. Qed.

Section Perm.
  Context {A K : Type} (f : A -> state -> res) (key : A -> K) (P : A -> Prop) (Rel : state -> state -> Prop).
  Hypothesis Rel_sym : forall a b, Rel a b -> Rel b a.
  Hypothesis Rel_trans : forall a b c, Rel a b -> Rel b c -> Rel a c.
  Hypothesis cong : forall x a a', P x -> Rel a a' ->
    snd (f x a) = Ok /\ snd (f x a') = Ok /\ Rel (fst (f x a)) (fst (f x a')).
  Hypothesis comm : forall x y a, P x -> P y -> key x <> key y -> Rel a a ->
    Rel (fst (f x (fst (f y a)))) (fst (f y (fst (f x a)))).

  Definition okRel (r r' : res) : Prop := snd r = Ok /\ snd r' = Ok /\ Rel (fst r) (fst r').

  Lemma seqm_cong_P l : Forall P l -> forall s s', Rel s s' -> okRel (seqm f l s) (seqm f l s').
  Proof.
    induction l as [|x l IH]; intros F s s' H; [split; [reflexivity|split; [reflexivity|exact H]]|].
    inversion F as [|x0 l0 Px Fl]; subst. destruct (cong x s s' Px H) as (O & O' & H1).
    cbn [seqm]. rewrite (bind_ok' _ _ O), (bind_ok' _ _ O'). apply IH; assumption.
  Qed.

  Lemma seqm_perm l l' :
    Permutation l l' -> Forall P l -> NoDup (map key l) -> forall s s', Rel s s' -> okRel (seqm f l s) (seqm f l' s').
  Proof.
    intros Hp. induction Hp as [|x l l' Hp IH|x y l|l l' l'' Hp1 IH1 Hp2 IH2]; intros F N s s' H.
    - split; [reflexivity|split; [reflexivity|exact H]].
    - inversion F as [|x0 l0 Px Fl]; subst. cbn [map] in N. inversion N as [|x0 l0 N1 N2]; subst.
      destruct (cong x s s' Px H) as (O & O' & H1).
      cbn [seqm]. rewrite (bind_ok' _ _ O), (bind_ok' _ _ O'). apply IH; assumption.
    - inversion F as [|x0 l0 Py Fl]; subst. inversion Fl as [|x0 l0 Px Fl']; subst.
      cbn [map] in N. inversion N as [|x0 l0 N1 N2]; subst.
      assert (Hk : key x <> key y) by (intros E; apply N1; left; exact E).
      assert (H' : Rel s' s') by (apply (Rel_trans _ s); [apply Rel_sym|]; exact H).
      destruct (cong y s s' Py H) as (Oy & Oy' & Ry).
      destruct (cong x _ _ Px Ry) as (Oxy & Oxy' & Rxy).
      destruct (cong x s' s' Px H') as (Ox & _ & Rx).
      destruct (cong y _ _ Py Rx) as (Oyx & _ & Ryx).
      cbn [seqm]. rewrite (bind_ok' (f y s) _ Oy), (bind_ok' (f x (fst (f y s))) _ Oxy),
        (bind_ok' (f x s') _ Ox), (bind_ok' (f y (fst (f x s'))) _ Oyx).
      apply seqm_cong_P; [exact Fl'|]. apply (Rel_trans _ _ _ Rxy). apply comm; assumption.
    - assert (F' : Forall P l') by (rewrite Forall_forall in *; intros z Hz; apply F; apply (Permutation_in z (Permutation_sym Hp1)); exact Hz).
      assert (N' : NoDup (map key l')) by (apply (Permutation_NoDup (Permutation_map key Hp1)); exact N).
      assert (H' : Rel s' s') by (apply (Rel_trans _ s); [apply Rel_sym|]; exact H).
      destruct (IH1 F N s s' H) as (O1 & O1' & R1). destruct (IH2 F' N' s' s' H') as (O2 & O2' & R2).
      split; [exact O1|]. split; [exact O2'|]. exact (Rel_trans _ _ _ R1 R2).
  Qed.
End Perm.

(* ---------- steps that change the coefficients additively and keep the variable list ---------- *)
Definition off (s : state) : Qc := p_off (st_poly s).
Definition delta (s s1 : state) (dO : Qc) (dL : label -> Qc) (dQ : label -> label -> Qc) (dH : label -> label -> bool) : Prop :=
  st_kind s1 = st_kind s /\ st_vars s1 = st_vars s /\ off s1 = off s + dO /\ (forall w, lin s1 w = lin s w + dL w)
  /\ (forall a b, quad s1 a b = quad s a b + dQ a b) /\ (forall a b, hasq s1 a b = dH a b || hasq s a b).

Lemma delta_has s s1 dO dL dQ dH x : delta s s1 dO dL dQ dH -> has_var s1 x = has_var s x.
Proof. intros (_ & V & _). unfold has_var. rewrite V. reflexivity. Qed.
Lemma delta_ge s0 s s1 dO dL dQ dH : delta s s1 dO dL dQ dH -> ge s0 s -> ge s0 s1.
Proof. intros D G x Hx. rewrite (delta_has _ _ _ _ _ _ x D). apply G. exact Hx. Qed.
Lemma delta_vdir h s s1 dO dL dQ dH : delta s s1 dO dL dQ dH -> vdir_of h s1 = vdir_of h s.
Proof. intros (K & _). apply vdir_kind. exact K. Qed.

Lemma delta_comp s s1 s2 O1 L1 Q1 H1 O2 L2 Q2 H2 :
  delta s s1 O1 L1 Q1 H1 -> delta s1 s2 O2 L2 Q2 H2 ->
  delta s s2 (O1 + O2) (fun w => L1 w + L2 w) (fun a b => Q1 a b + Q2 a b) (fun a b => H2 a b || H1 a b).
Proof.
  intros (K & V & O & L & Q & H) (K' & V' & O' & L' & Q' & H').
  split; [congruence|]. split; [congruence|]. split; [rewrite O', O; ring|]. split; [intros w; rewrite L', L; ring|].
  split; [intros a b; rewrite Q', Q; ring|intros a b; rewrite H', H, orb_assoc; reflexivity].
Qed.

Lemma delta_ext s s1 O L Q H O' L' Q' H' :
  delta s s1 O L Q H -> O = O' -> (forall w, L w = L' w) -> (forall a b, Q a b = Q' a b) -> (forall a b, H a b = H' a b) ->
  delta s s1 O' L' Q' H'.
Proof.
  intros (K & V & Of & Lf & Qf & Hf) EO EL EQ EH. split; [exact K|]. split; [exact V|]. split; [rewrite <- EO; exact Of|].
  split; [intros w; rewrite <- EL; apply Lf|]. split; [intros a b; rewrite <- EQ; apply Qf|intros a b; rewrite <- EH; apply Hf].
Qed.

Lemma delta_comm s sy sxy sx syx Ox Lx Qx Hx Oy Ly Qy Hy :
  delta s sy Oy Ly Qy Hy -> delta sy sxy Ox Lx Qx Hx -> delta s sx Ox Lx Qx Hx -> delta sx syx Oy Ly Qy Hy -> ceq sxy syx.
Proof.
  intros D1 D2 D3 D4. pose proof (delta_comp _ _ _ _ _ _ _ _ _ _ _ D1 D2) as (K & V & O & L & Q & H).
  pose proof (delta_comp _ _ _ _ _ _ _ _ _ _ _ D3 D4) as (K' & V' & O' & L' & Q' & H').
  split; [congruence|]. split; [rewrite V, V'; reflexivity|]. split; [fold (off sxy); fold (off syx); rewrite O, O'; ring|].
  split; [intros w; rewrite L, L'; ring|]. split; [intros a b; rewrite Q, Q'; ring|].
  intros a b. rewrite H, H'. destruct (Hx a b), (Hy a b); reflexivity.
Qed.

Section Loop.
  Context {A K : Type} (f : A -> state -> res) (key : A -> K) (P : A -> Prop) (s0 : state).
  Context (DO : A -> state -> Qc) (DL : A -> state -> label -> Qc) (DQ : A -> state -> label -> label -> Qc)
          (DH : A -> state -> label -> label -> bool).
  Hypothesis congR : forall x a a', P x -> R a a' -> Rr (f x a) (f x a').
  Hypothesis spec : forall x a, P x -> B a -> ge s0 a ->
    snd (f x a) = Ok /\ delta a (fst (f x a)) (DO x a) (DL x a) (DQ x a) (DH x a).
  Hypothesis frame : forall x y a, P x -> P y -> key x <> key y -> B a -> ge s0 a ->
    DO x (fst (f y a)) = DO x a /\ (forall w, DL x (fst (f y a)) w = DL x a w)
    /\ (forall u v, DQ x (fst (f y a)) u v = DQ x a u v) /\ (forall u v, DH x (fst (f y a)) u v = DH x a u v).

  Definition RelG (a a' : state) : Prop := R a a' /\ ge s0 a /\ ge s0 a'.

  Lemma loop_perm l l' s s' :
    Permutation l l' -> Forall P l -> NoDup (map key l) -> R s s' -> ge s0 s -> ge s0 s' ->
    Rr (seqm f l s) (seqm f l' s') /\ snd (seqm f l s) = Ok.
  Proof.
    intros Hp F N H G G'.
    assert (X : okRel RelG (seqm f l s) (seqm f l' s')).
    { apply (seqm_perm f key P RelG); try assumption.
      - intros a b (Hr & Ga & Gb). split; [apply R_sym; exact Hr|]. split; assumption.
      - intros a b c (Hr & Ga & _) (Hr' & _ & Gc). split; [exact (R_trans _ _ _ Hr Hr')|]. split; assumption.
      - intros x a a' Px (Hr & Ga & Ga'). destruct (R_B a a' Hr) as [Ba Ba'].
        destruct (spec x a Px Ba Ga) as [O D]. destruct (spec x a' Px Ba' Ga') as [O' D'].
        split; [exact O|]. split; [exact O'|]. split; [apply (congR x a a' Px Hr)|].
        split; [exact (delta_ge _ _ _ _ _ _ _ D Ga)|exact (delta_ge _ _ _ _ _ _ _ D' Ga')].
      - intros x y a Px Py Hk (Hr & Ga & _). destruct (R_B a a Hr) as [Ba _].
        destruct (spec y a Py Ba Ga) as [Oy Dy]. destruct (spec x a Px Ba Ga) as [Ox Dx].
        destruct (congR y a a Py Hr) as [_ Ry]. destruct (congR x a a Px Hr) as [_ Rx].
        pose proof (delta_ge _ _ _ _ _ _ _ Dy Ga) as Gy. pose proof (delta_ge _ _ _ _ _ _ _ Dx Ga) as Gx.
        destruct (R_B _ _ Ry) as [By _]. destruct (R_B _ _ Rx) as [Bx _].
        destruct (spec x _ Px By Gy) as [Oxy Dxy]. destruct (spec y _ Py Bx Gx) as [Oyx Dyx].
        destruct (congR x _ _ Px Ry) as [_ (Wxy & _ & _)]. destruct (congR y _ _ Py Rx) as [_ (Wyx & _ & _)].
        destruct (frame x y a Px Py Hk Ba Ga) as (F1 & F2 & F3 & F4).
        assert (Hk' : key y <> key x) by (intros E; apply Hk; symmetry; exact E).
        destruct (frame y x a Py Px Hk' Ba Ga) as (F1' & F2' & F3' & F4').
        split; [|split; [exact (delta_ge _ _ _ _ _ _ _ Dxy Gy)|exact (delta_ge _ _ _ _ _ _ _ Dyx Gx)]].
        split; [exact Wxy|]. split; [exact Wyx|].
        apply (delta_comm a (fst (f y a)) _ (fst (f x a)) _ (DO x a) (DL x a) (DQ x a) (DH x a) (DO y a) (DL y a) (DQ y a) (DH y a)).
        + exact Dy.
        + apply (delta_ext _ _ _ _ _ _ _ _ _ _ Dxy); assumption.
        + exact Dx.
        + apply (delta_ext _ _ _ _ _ _ _ _ _ _ Dyx); assumption.
      - split; [exact H|]. split; assumption. }
    destruct X as (O & O' & (Hr & _)). split; [|exact O]. split; [congruence|exact Hr].
  Qed.
End Loop.

(* ---------- additive specifications of the writes on existing variables ---------- *)
Definition shL (u v : label) (U V : Qc) : label -> Qc := fun w => (if (w =? u)%nat then U else 0) + (if (w =? v)%nat then V else 0).
Definition shQ (u v : label) (q : Qc) : label -> label -> Qc := fun a b => if same_pair a b u v then q else 0.
Definition shH (u v : label) (hq : bool) : label -> label -> bool := fun a b => hq && same_pair a b u v.
Definition sdelta (s s1 : state) (u v : label) (O U V q : Qc) (hq : bool) : Prop :=
  delta s s1 O (shL u v U V) (shQ u v q) (shH u v hq).

Lemma sdelta_comp s s1 s2 u v O1 U1 V1 q1 h1 O2 U2 V2 q2 h2 :
  sdelta s s1 u v O1 U1 V1 q1 h1 -> sdelta s1 s2 u v O2 U2 V2 q2 h2 ->
  sdelta s s2 u v (O1 + O2) (U1 + U2) (V1 + V2) (q1 + q2) (h2 || h1).
Proof.
  intros D1 D2. unfold sdelta. apply (delta_ext _ _ _ _ _ _ _ _ _ _ (delta_comp _ _ _ _ _ _ _ _ _ _ _ D1 D2)).
  - reflexivity.
  - intros w. unfold shL. destruct (w =? u)%nat, (w =? v)%nat; ring.
  - intros a b. unfold shQ. destruct (same_pair a b u v); ring.
  - intros a b. unfold shH. destruct h1, h2, (same_pair a b u v); reflexivity.
Qed.

Lemma sdelta_B s s1 u v O U V q hq : sdelta s s1 u v O U V q hq -> B s -> B s1.
Proof. intros (K & _) Hs. unfold B, is_bqm in *. rewrite K. exact Hs. Qed.

Lemma quad_same_pair (q : list qterm) a b u v : same_pair a b u v = true -> quad_coeff q a b = quad_coeff q u v.
Proof.
  unfold same_pair. intros H. apply orb_true_iff in H. destruct H as [H|H]; apply andb_true_iff in H; destruct H as [H1 H2];
    apply Nat.eqb_eq in H1; apply Nat.eqb_eq in H2; subst; [reflexivity|apply HistFacts.quad_coeff_sym].
Qed.

Ltac sd_open := unfold sdelta, delta, off, lin, quad, hasq, shL, shQ, shH;
  cbn [with_poly st_kind st_vars st_poly add_offset add_linear push_quad p_off p_lin p_quad];
  split; [reflexivity|]; split; [reflexivity|].

Lemma sd_add_linear_u s u v c : sdelta s (with_poly s (add_linear u c (st_poly s))) u v 0 c 0 0 false.
Proof.
  sd_open. split; [ring|]. split; [|split].
  - intros w. rewrite HistFacts.lin_coeff_cons. cbn [fst snd]. rewrite (Nat.eqb_sym u w). destruct (w =? u)%nat, (w =? v)%nat; ring.
  - intros a b. destruct (same_pair a b u v); ring.
  - intros a b. reflexivity.
Qed.

Lemma sd_add_linear_v s u v c : sdelta s (with_poly s (add_linear v c (st_poly s))) u v 0 0 c 0 false.
Proof.
  sd_open. split; [ring|]. split; [|split].
  - intros w. rewrite HistFacts.lin_coeff_cons. cbn [fst snd]. rewrite (Nat.eqb_sym v w). destruct (w =? u)%nat, (w =? v)%nat; ring.
  - intros a b. destruct (same_pair a b u v); ring.
  - intros a b. reflexivity.
Qed.

Lemma sd_add_offset s u v c : sdelta s (with_poly s (add_offset c (st_poly s))) u v c 0 0 0 false.
Proof.
  sd_open. split; [reflexivity|]. split; [|split].
  - intros w. destruct (w =? u)%nat, (w =? v)%nat; ring.
  - intros a b. destruct (same_pair a b u v); ring.
  - intros a b. reflexivity.
Qed.

Lemma sd_push s u v c : sdelta s (with_poly s (push_quad u v c (st_poly s))) u v 0 0 0 c true.
Proof.
  sd_open. split; [ring|]. split; [|split].
  - intros w. destruct (w =? u)%nat, (w =? v)%nat; ring.
  - intros a b. rewrite HistFacts.quad_coeff_cons. cbn [fst snd]. destruct (same_pair a b u v); ring.
  - intros a b. reflexivity.
Qed.

Lemma sd_setq s u v c : sdelta s (with_poly s (set_quadratic u v c (st_poly s))) u v 0 0 0 (c - quad s u v) true.
Proof.
  unfold sdelta, delta, off, lin, quad, hasq, shL, shQ, shH. cbn [with_poly st_kind st_vars st_poly].
  split; [reflexivity|]. split; [reflexivity|]. split; [cbn [set_quadratic remove_interaction p_off]; ring|]. split; [|split].
  - intros w. cbn [set_quadratic remove_interaction p_lin]. destruct (w =? u)%nat, (w =? v)%nat; ring.
  - intros a b. rewrite quad_coeff_set_quadratic. destruct (same_pair a b u v) eqn:E; [|ring].
    rewrite (quad_same_pair _ a b u v E). ring.
  - intros a b. rewrite has_pair_set_quadratic. reflexivity.
Qed.

Definition kko (od : option vdir) (b : Qc) : Qc := match od with None => 0 | Some d => kom d b end.
Definition kkl (od : option vdir) (b : Qc) : Qc := match od with None => b | Some d => klm d b end.

Lemma sp_h_add_linear_u h u v c s :
  B s -> has_var s u = true ->
  snd (h_add_linear h u c s) = Ok /\ sdelta s (fst (h_add_linear h u c s)) u v (kko (vdir_of h s) c) (kkl (vdir_of h s) c) 0 0 false.
Proof.
  intros Hs Hu. destruct (vdir_of h s) as [d|] eqn:D.
  - rewrite (h_add_linear_view_form h d u c s Hs D Hu). split; [reflexivity|]. cbn [ok fst kko kkl].
    pose proof (sdelta_comp _ _ _ u v _ _ _ _ _ _ _ _ _ _ (sd_add_linear_u s u v (klm d c))
                  (sd_add_offset (with_poly s (add_linear u (klm d c) (st_poly s))) u v (kom d c))) as X.
    cbn [with_poly st_kind st_vars st_poly orb] in X. unfold sdelta in *.
    apply (delta_ext _ _ _ _ _ _ _ _ _ _ X); [ring| | |]; intros; unfold shL, shQ; [destruct (w =? u)%nat, (w =? v)%nat; ring|destruct (same_pair a b u v); ring|reflexivity].
  - unfold h_add_linear. rewrite D, (d_add_linear_has u c s Hs Hu). split; [reflexivity|]. apply sd_add_linear_u.
Qed.

Lemma sp_h_add_linear_v h u v c s :
  B s -> has_var s v = true ->
  snd (h_add_linear h v c s) = Ok /\ sdelta s (fst (h_add_linear h v c s)) u v (kko (vdir_of h s) c) 0 (kkl (vdir_of h s) c) 0 false.
Proof.
  intros Hs Hu. destruct (vdir_of h s) as [d|] eqn:D.
  - rewrite (h_add_linear_view_form h d v c s Hs D Hu). split; [reflexivity|]. cbn [ok fst kko kkl].
    pose proof (sdelta_comp _ _ _ u v _ _ _ _ _ _ _ _ _ _ (sd_add_linear_v s u v (klm d c))
                  (sd_add_offset (with_poly s (add_linear v (klm d c) (st_poly s))) u v (kom d c))) as X.
    cbn [with_poly st_kind st_vars st_poly orb] in X. unfold sdelta in *.
    apply (delta_ext _ _ _ _ _ _ _ _ _ _ X); [ring| | |]; intros; unfold shL, shQ; [destruct (w =? u)%nat, (w =? v)%nat; ring|destruct (same_pair a b u v); ring|reflexivity].
  - unfold h_add_linear. rewrite D, (d_add_linear_has v c s Hs Hu). split; [reflexivity|]. apply sd_add_linear_v.
Qed.

Lemma sdelta_ext s s1 u v O U V q hq O' U' V' q' hq' :
  sdelta s s1 u v O U V q hq -> O = O' -> U = U' -> V = V' -> q = q' -> hq = hq' -> sdelta s s1 u v O' U' V' q' hq'.
Proof. intros D -> -> -> -> ->. exact D. Qed.

Definition qo (od : option vdir) (b : Qc) : Qc := match od with None => 0 | Some BinOverSpin => b * quarter | Some SpinOverBin => b end.
Definition qu (od : option vdir) (b : Qc) : Qc := match od with None => 0 | Some BinOverSpin => b * quarter | Some SpinOverBin => - (two * b) end.
Definition qq (od : option vdir) (b : Qc) : Qc := match od with None => b | Some BinOverSpin => b * quarter | Some SpinOverBin => four * b end.
Definition vsc (od : option vdir) (b : Qc) : Qc := match od with None => b | Some BinOverSpin => four * b | Some SpinOverBin => b * quarter end.

Lemma sp_h_add_quadratic h u v c s :
  B s -> u <> v -> has_var s u = true -> has_var s v = true ->
  snd (h_add_quadratic h u v c s) = Ok /\
  sdelta s (fst (h_add_quadratic h u v c s)) u v (qo (vdir_of h s) c) (qu (vdir_of h s) c) (qu (vdir_of h s) c) (qq (vdir_of h s) c) true.
Proof.
  intros Hs E Hu Hv. unfold h_add_quadratic. destruct (vdir_of h s) as [[|]|] eqn:D.
  - rewrite (d_add_quadratic_has u v _ s Hs E Hu Hv), bind_ok.
    rewrite (d_add_linear_has u _ (with_poly s _) Hs Hu), bind_ok.
    rewrite (d_add_linear_has v _ (with_poly (with_poly s _) _) Hs Hv), bind_ok, d_add_offset_eq.
    split; [reflexivity|]. cbn [ok fst qo qu qq].
    eapply sdelta_ext; [eapply sdelta_comp; [eapply sdelta_comp; [eapply sdelta_comp; [apply sd_push|apply sd_add_linear_u]|apply sd_add_linear_v]|apply sd_add_offset]| | | | |];
      try ring; reflexivity.
  - rewrite (d_add_quadratic_has u v _ s Hs E Hu Hv), bind_ok.
    rewrite (d_add_linear_has u _ (with_poly s _) Hs Hu), bind_ok.
    rewrite (d_add_linear_has v _ (with_poly (with_poly s _) _) Hs Hv), bind_ok, d_add_offset_eq.
    split; [reflexivity|]. cbn [ok fst qo qu qq].
    eapply sdelta_ext; [eapply sdelta_comp; [eapply sdelta_comp; [eapply sdelta_comp; [apply sd_push|apply sd_add_linear_u]|apply sd_add_linear_v]|apply sd_add_offset]| | | | |];
      try ring; reflexivity.
  - rewrite (d_add_quadratic_has u v _ s Hs E Hu Hv). split; [reflexivity|]. cbn [ok fst qo qu qq]. apply sd_push.
Qed.

Lemma d_set_quadratic_has u v b s :
  B s -> u <> v -> has_var s u = true -> has_var s v = true ->
  d_set_quadratic u v b s = ok (with_poly s (set_quadratic u v b (st_poly s))).
Proof. intros Hs E Hu Hv. rewrite (d_set_quadratic_bqm u v b s Hs E), (ensure_has u s Hu), (ensure_has v s Hv). reflexivity. Qed.

Lemma h_add_variable_has h v b s : B s -> has_var s v = true -> h_add_variable h v b s = h_add_linear h v b s.
Proof. intros Hs Hv. destruct (B_kind s Hs) as [vt K]. unfold h_add_variable. rewrite (resolve_bqm_ok v s vt K), bind_ok, (ensure_has v s Hv). reflexivity. Qed.

Definition sq_d (od : option vdir) (q c : Qc) : Qc := c - vsc od (q + qq od 0).
Definition SQO (h : handle) (od : option vdir) (q c : Qc) : Qc :=
  match h with Direct => 0 | Via _ => kko od 0 + kko od 0 + qo od 0 + qo od (sq_d od q c) end.
Definition SQU (h : handle) (od : option vdir) (q c : Qc) : Qc :=
  match h with Direct => 0 | Via _ => kkl od 0 + qu od 0 + qu od (sq_d od q c) end.
Definition SQQ (h : handle) (od : option vdir) (q c : Qc) : Qc :=
  match h with Direct => c - q | Via _ => qq od 0 + qq od (sq_d od q c) end.

Lemma same_pair_refl' u v : same_pair u v u v = true.
Proof. unfold same_pair. rewrite !Nat.eqb_refl. reflexivity. Qed.

Lemma sp_h_set_quadratic h u v c s :
  B s -> u <> v -> has_var s u = true -> has_var s v = true ->
  snd (h_set_quadratic h u v c s) = Ok /\
  sdelta s (fst (h_set_quadratic h u v c s)) u v
    (SQO h (vdir_of h s) (quad s u v) c) (SQU h (vdir_of h s) (quad s u v) c) (SQU h (vdir_of h s) (quad s u v) c)
    (SQQ h (vdir_of h s) (quad s u v) c) true.
Proof.
  intros Hs E Hu Hv. unfold h_set_quadratic. destruct h as [|wv].
  - rewrite (d_set_quadratic_has u v c s Hs E Hu Hv). split; [reflexivity|]. apply sd_setq.
  - rewrite (bqm_guard u v s Hs). destruct (Nat.eqb_spec u v) as [E'|_]; [contradiction|].
    set (h := Via wv). set (od := vdir_of h s).
    rewrite (h_add_variable_has h u 0 s Hs Hu).
    destruct (sp_h_add_linear_u h u v 0 s Hs Hu) as [O1 D1]. fold od in D1. set (s1 := fst (h_add_linear h u 0 s)) in *.
    rewrite (bind_ok' _ _ O1). fold s1.
    pose proof (sdelta_B _ _ _ _ _ _ _ _ _ D1 Hs) as B1.
    assert (Hu1 : has_var s1 u = true) by (rewrite (delta_has _ _ _ _ _ _ u D1); exact Hu).
    assert (Hv1 : has_var s1 v = true) by (rewrite (delta_has _ _ _ _ _ _ v D1); exact Hv).
    assert (V1 : vdir_of h s1 = od) by (apply (delta_vdir h _ _ _ _ _ _ D1)).
    rewrite (h_add_variable_has h v 0 s1 B1 Hv1).
    destruct (sp_h_add_linear_v h u v 0 s1 B1 Hv1) as [O2 D2]. rewrite V1 in D2. set (s2 := fst (h_add_linear h v 0 s1)) in *.
    rewrite (bind_ok' _ _ O2). fold s2.
    pose proof (sdelta_B _ _ _ _ _ _ _ _ _ D2 B1) as B2.
    assert (Hu2 : has_var s2 u = true) by (rewrite (delta_has _ _ _ _ _ _ u D2); exact Hu1).
    assert (Hv2 : has_var s2 v = true) by (rewrite (delta_has _ _ _ _ _ _ v D2); exact Hv1).
    assert (V2 : vdir_of h s2 = od) by (rewrite (delta_vdir h _ _ _ _ _ _ D2); exact V1).
    destruct (sp_h_add_quadratic h u v 0 s2 B2 E Hu2 Hv2) as [O3 D3]. rewrite V2 in D3. set (s3 := fst (h_add_quadratic h u v 0 s2)) in *.
    rewrite (bind_ok' _ _ O3). fold s3.
    pose proof (sdelta_B _ _ _ _ _ _ _ _ _ D3 B2) as B3.
    assert (Hu3 : has_var s3 u = true) by (rewrite (delta_has _ _ _ _ _ _ u D3); exact Hu2).
    assert (Hv3 : has_var s3 v = true) by (rewrite (delta_has _ _ _ _ _ _ v D3); exact Hv2).
    assert (V3 : vdir_of h s3 = od) by (rewrite (delta_vdir h _ _ _ _ _ _ D3); exact V2).
    pose proof (sdelta_comp _ _ _ _ _ _ _ _ _ _ _ _ _ _ _ (sdelta_comp _ _ _ _ _ _ _ _ _ _ _ _ _ _ _ D1 D2) D3) as D13.
    assert (Q3 : quad s3 u v = quad s u v + qq od 0).
    { destruct D13 as (_ & _ & _ & _ & Q & _). rewrite Q. unfold shQ. rewrite same_pair_refl'. ring. }
    assert (H3 : hasq s3 u v = true).
    { destruct D3 as (_ & _ & _ & _ & _ & H). rewrite H. unfold shH. rewrite same_pair_refl'. reflexivity. }
    assert (G3 : opt0 (h_get_quadratic h u v s3) = vsc od (quad s u v + qq od 0)).
    { unfold h_get_quadratic. rewrite Hu3, Hv3, H3. cbn [andb opt0]. unfold vscale. rewrite V3, Q3. unfold vsc. destruct od as [[|]|]; reflexivity. }
    rewrite G3. fold (sq_d od (quad s u v) c).
    destruct (sp_h_add_quadratic h u v (sq_d od (quad s u v) c) s3 B3 E Hu3 Hv3) as [O4 D4]. rewrite V3 in D4.
    split; [exact O4|]. unfold SQO, SQU, SQQ. subst h. cbv iota.
    eapply sdelta_ext; [exact (sdelta_comp _ _ _ _ _ _ _ _ _ _ _ _ _ _ _ D13 D4)| | | | |]; try ring; reflexivity.
Qed.

Lemma same_pair_other x y v : x <> y -> same_pair x v y v = false.
Proof.
  intros H. unfold same_pair. destruct (Nat.eqb_spec x y); [contradiction|]. cbn [andb orb].
  destruct (Nat.eqb_spec x v), (Nat.eqb_spec v y); subst; try reflexivity. contradiction.
Qed.

(* loops over a neighbourhood of v whose step at x changes only the coefficients of x, v and the pair (x, v),
   by amounts that depend on the state only through the view direction and the current bias of (x, v) *)
Section SLoop.
  Context {A : Type} (f : A -> state -> res) (kx : A -> label) (v : label) (h : handle) (P : A -> Prop) (s0 : state).
  Context (FO FU FV FQ : A -> option vdir -> Qc -> Qc) (hq : bool).
  Hypothesis congR : forall x a a', P x -> R a a' -> Rr (f x a) (f x a').
  Hypothesis spec : forall t a, P t -> B a -> has_var a (kx t) = true -> has_var a v = true ->
    snd (f t a) = Ok /\
    sdelta a (fst (f t a)) (kx t) v (FO t (vdir_of h a) (quad a (kx t) v)) (FU t (vdir_of h a) (quad a (kx t) v))
      (FV t (vdir_of h a) (quad a (kx t) v)) (FQ t (vdir_of h a) (quad a (kx t) v)) hq.

  Lemma sloop_perm l l' s s' :
    Permutation l l' -> Forall (fun t => P t /\ has_var s0 (kx t) = true) l -> has_var s0 v = true -> NoDup (map kx l) ->
    R s s' -> ge s0 s -> ge s0 s' -> Rr (seqm f l s) (seqm f l' s') /\ snd (seqm f l s) = Ok.
  Proof.
    intros Hp F Hv N H G G'.
    apply (loop_perm f kx (fun t => P t /\ has_var s0 (kx t) = true) s0
             (fun t a => FO t (vdir_of h a) (quad a (kx t) v))
             (fun t a => shL (kx t) v (FU t (vdir_of h a) (quad a (kx t) v)) (FV t (vdir_of h a) (quad a (kx t) v)))
             (fun t a => shQ (kx t) v (FQ t (vdir_of h a) (quad a (kx t) v)))
             (fun t a => shH (kx t) v hq)); try assumption.
    - intros x a a' [Px _] Ha. apply congR; assumption.
    - intros t a [Pt Ht] Ba Ga. apply (spec t a Pt Ba (Ga _ Ht) (Ga _ Hv)).
    - intros x y a [Px Hx] [Py Hy] Hk Ba Ga.
      destruct (spec y a Py Ba (Ga _ Hy) (Ga _ Hv)) as [_ Dy].
      assert (V : vdir_of h (fst (f y a)) = vdir_of h a) by (apply (delta_vdir h _ _ _ _ _ _ Dy)).
      assert (Q : quad (fst (f y a)) (kx x) v = quad a (kx x) v).
      { destruct Dy as (_ & _ & _ & _ & Q & _). rewrite Q. unfold shQ. rewrite (same_pair_other (kx x) (kx y) v Hk). ring. }
      rewrite V, Q. repeat split; reflexivity.
  Qed.
End SLoop.

Lemma NoDup_filter' {A : Type} (g : A -> bool) l : NoDup l -> NoDup (filter g l).
Proof.
  induction l as [|a l IH]; intros N; [constructor|]. inversion N as [|x xs N1 N2]; subst. cbn [filter].
  destruct (g a); [constructor; [intros Hin; apply N1; apply filter_In in Hin; apply Hin|apply IH; exact N2]|apply IH; exact N2].
Qed.

Lemma h_nbh_keys h v s : wf s -> NoDup (map fst (h_nbh h v s)).
Proof.
  intros (N & _). unfold h_nbh, nbh. rewrite !map_map. cbn [fst]. rewrite map_id. apply NoDup_filter'. exact N.
Qed.

Lemma ge_ceq s s' : ceq s s' -> ge s s'.
Proof. intros C x Hx. rewrite <- (ceq_has s s' x C). exact Hx. Qed.

(* the loop of flip_variable (SPIN) and of remove_variable through a translating view *)
Lemma Rr_loop_set_quadratic h v (c : label * Qc -> Qc) s s' :
  R s s' -> has_var s v = true ->
  Rr (seqm (fun t => h_set_quadratic h (fst t) v (c t)) (h_nbh h v s) s)
     (seqm (fun t => h_set_quadratic h (fst t) v (c t)) (h_nbh h v s') s')
  /\ snd (seqm (fun t => h_set_quadratic h (fst t) v (c t)) (h_nbh h v s) s) = Ok.
Proof.
  intros H Hv. pose proof H as ((Bs & Ws) & _ & C).
  apply (sloop_perm (fun t => h_set_quadratic h (fst t) v (c t)) fst v h (fun t => fst t <> v) s
           (fun t od q => SQO h od q (c t)) (fun t od q => SQU h od q (c t)) (fun t od q => SQU h od q (c t))
           (fun t od q => SQQ h od q (c t)) true).
  - intros x a a' _ Ha. apply Rr_h_set_quadratic. exact Ha.
  - intros t a Pt Ba Hx Hva. apply sp_h_set_quadratic; assumption.
  - apply R_h_nbh. exact H.
  - apply Forall_forall. intros t Ht. split; [apply (nbh_not_self h v s t Bs Ws Ht)|apply (h_nbh_in h s v t Ht)].
  - exact Hv.
  - apply h_nbh_keys. exact Ws.
  - exact H.
  - apply ge_refl.
  - apply ge_ceq. exact C.
Qed.

(* ---------- remove_variable (named), every handle ---------- *)
Lemma Rr_h_remove_variable_some h v s s' :
  R s s' -> Rr (h_remove_variable h (Some v) s) (h_remove_variable h (Some v) s').
Proof.
  intros H. pose proof (R_ceq s s' H) as C. unfold h_remove_variable. rewrite <- (ceq_vdir h s s' C).
  destruct (vdir_of h s) as [d|]; [|apply Rr_d_remove_variable; exact H].
  rewrite <- (ceq_has s s' v C). destruct (has_var s v) eqn:Hv; [|apply Rr_raise; exact H].
  apply Rr_bind; [apply Rr_bind|].
  - exact (proj1 (Rr_loop_set_quadratic h v (fun _ => 0) s s' H Hv)).
  - intros a a' Ha. apply Rr_h_set_linear. exact Ha.
  - intros a a' Ha. apply Rr_d_remove_variable. exact Ha.
Qed.

(* ---------- fix_variable ---------- *)
Lemma Rr_loop_add_linear h v (c : label * Qc -> Qc) s s' :
  R s s' ->
  Rr (seqm (fun t => h_add_linear h (fst t) (c t)) (h_nbh h v s) s)
     (seqm (fun t => h_add_linear h (fst t) (c t)) (h_nbh h v s') s').
Proof.
  intros H. pose proof H as ((Bs & Ws) & _ & C).
  destruct (has_var s v) eqn:Hv.
  - apply (sloop_perm (fun t => h_add_linear h (fst t) (c t)) fst v h (fun _ => True) s
             (fun t od q => kko od (c t)) (fun t od q => kkl od (c t)) (fun t od q => 0) (fun t od q => 0) false).
    + intros x a a' _ Ha. apply Rr_h_add_linear. exact Ha.
    + intros t a _ Ba Hx Hva. apply sp_h_add_linear_u; assumption.
    + apply R_h_nbh. exact H.
    + apply Forall_forall. intros t Ht. split; [exact I|apply (h_nbh_in h s v t Ht)].
    + exact Hv.
    + apply h_nbh_keys. exact Ws.
    + exact H.
    + apply ge_refl.
    + apply ge_ceq. exact C.
  - (* v is not a variable: well-formedness leaves it no neighbour *)
    assert (E : forall a, wf a -> has_var a v = false -> h_nbh h v a = []).
    { intros a Wa Ha. unfold h_nbh, nbh. destruct (filter (hasq a v) (labels a)) as [|w l] eqn:F; [reflexivity|]. exfalso.
      assert (Hw : In w (filter (hasq a v) (labels a))) by (rewrite F; left; reflexivity).
      apply filter_In in Hw. destruct Hw as [_ Hq]. unfold hasq, has_pair in Hq. apply existsb_exists in Hq.
      destruct Hq as [t [Ht Hs]]. destruct Wa as (_ & _ & Wq & _). destruct (Wq t Ht) as (I1 & I2 & _).
      apply has_var_In in I1. apply has_var_In in I2. unfold same_pair in Hs.
      apply orb_true_iff in Hs. destruct Hs as [Hs|Hs]; apply andb_true_iff in Hs; destruct Hs as [E1 E2];
        apply Nat.eqb_eq in E1; [rewrite <- E1 in I1|rewrite <- E1 in I2]; congruence. }
    pose proof H as (_ & (_ & Ws') & _).
    rewrite (E s Ws Hv), (E s' Ws' (eq_trans (eq_sym (ceq_has s s' v C)) Hv)). apply Rr_ok. exact H.
Qed.

Lemma Rr_m_fix h v a s s' : R s s' -> Rr (m_fix h v a s) (m_fix h v a s').
Proof.
  intros H. pose proof (R_ceq s s' H) as C. unfold m_fix. rewrite <- (ceq_has s s' v C).
  destruct (has_var s v); [|apply Rr_raise; exact H]. cbn [negb].
  apply Rr_bind; [apply Rr_bind|].
  - apply (Rr_loop_add_linear h v (fun t => a * snd t)). exact H.
  - intros b b' Hb. rewrite (R_get_linear h v b b' Hb). apply Rr_h_add_offset. exact Hb.
  - intros b b' Hb. apply Rr_h_remove_variable_some. exact Hb.
Qed.

(* ---------- the public calls ---------- *)
Lemma Rr_of_step s s' h o :
  op_ok_bqm o -> R s s' -> snd (step s (h, o)) = snd (step s' (h, o)) -> ceq (fst (step s (h, o))) (fst (step s' (h, o))) ->
  Rr (step s (h, o)) (step s' (h, o)).
Proof.
  intros Ho (W & W' & _) E C. split; [exact E|]. split; [apply bqm_inv_step; assumption|]. split; [apply bqm_inv_step; assumption|exact C].
Qed.

Lemma Rr_plain_scale k s s' : R s s' -> Rr (step s (Direct, OScale k [] [] false)) (step s' (Direct, OScale k [] [] false)).
Proof.
  intros H. pose proof (R_ceq s s' H) as C. apply Rr_of_step; [exact I|exact H|reflexivity|]. cbn [step m_scale ok fst].
  apply ceq_mk; [exact C|cbn [scale p_off]; rewrite (ceq_off s s' C); reflexivity| | |].
  - intros w. rewrite !lin_coeff_scale, (ceq_lin' s s' w C). reflexivity.
  - intros x y. rewrite !quad_coeff_scale, (ceq_quad' s s' x y C). reflexivity.
  - intros x y. rewrite !has_pair_scale. apply (ceq_hasq' s s' x y C).
Qed.

Lemma Rr_clear h s s' : R s s' -> Rr (step s (h, OClear)) (step s' (h, OClear)).
Proof.
  intros H. pose proof (R_ceq s s' H) as C. apply Rr_of_step; [exact I|exact H|reflexivity|]. cbn [step ok fst].
  destruct C as (K & _). rewrite K. apply ceq_refl.
Qed.

(* ---------- flip_variable ---------- *)
Lemma Rr_loop_flip_binary h v s s' :
  R s s' -> has_var s v = true ->
  Rr (seqm (fun t a => h_set_quadratic h (fst t) v (- snd t) a >>= h_add_linear h (fst t) (snd t)) (h_nbh h v s) s)
     (seqm (fun t a => h_set_quadratic h (fst t) v (- snd t) a >>= h_add_linear h (fst t) (snd t)) (h_nbh h v s') s').
Proof.
  intros H Hv. pose proof H as ((Bs & Ws) & _ & C).
  apply (sloop_perm (fun t a => h_set_quadratic h (fst t) v (- snd t) a >>= h_add_linear h (fst t) (snd t)) fst v h (fun t => fst t <> v) s
           (fun t od q => SQO h od q (- snd t) + kko od (snd t)) (fun t od q => SQU h od q (- snd t) + kkl od (snd t))
           (fun t od q => SQU h od q (- snd t) + 0) (fun t od q => SQQ h od q (- snd t) + 0) (false || true)).
  - intros x a a' _ Ha. apply Rr_bind; [apply Rr_h_set_quadratic; exact Ha|intros; apply Rr_h_add_linear; assumption].
  - intros t a Pt Ba Hx Hva. destruct (sp_h_set_quadratic h (fst t) v (- snd t) a Ba Pt Hx Hva) as [O1 D1].
    rewrite (bind_ok' _ _ O1).
    pose proof (sdelta_B _ _ _ _ _ _ _ _ _ D1 Ba) as B1.
    assert (Hx1 : has_var (fst (h_set_quadratic h (fst t) v (- snd t) a)) (fst t) = true) by (rewrite (delta_has _ _ _ _ _ _ (fst t) D1); exact Hx).
    destruct (sp_h_add_linear_u h (fst t) v (snd t) _ B1 Hx1) as [O2 D2]. rewrite (delta_vdir h _ _ _ _ _ _ D1) in D2.
    split; [exact O2|]. exact (sdelta_comp _ _ _ _ _ _ _ _ _ _ _ _ _ _ _ D1 D2).
  - apply R_h_nbh. exact H.
  - apply Forall_forall. intros t Ht. split; [apply (nbh_not_self h v s t Bs Ws Ht)|apply (h_nbh_in h s v t Ht)].
  - exact Hv.
  - apply h_nbh_keys. exact Ws.
  - exact H.
  - apply ge_refl.
  - apply ge_ceq. exact C.
Qed.

Lemma Rr_m_flip h v s s' : R s s' -> Rr (m_flip h v s) (m_flip h v s').
Proof.
  intros H. pose proof (R_ceq s s' H) as C. destruct (R_B s s' H) as [Bs Bs'].
  destruct (B_kind s Bs) as [vt K]. destruct (B_kind s' Bs') as [vt' K'].
  unfold m_flip. rewrite <- (ceq_has s s' v C). destruct (has_var s v) eqn:Hv; [|apply Rr_raise; exact H]. cbn [negb].
  rewrite K, K', <- (ceq_hvt h s s' C). destruct (hvt h s).
  - apply Rr_bind; [apply Rr_bind|].
    + apply Rr_loop_flip_binary; assumption.
    + intros b b' Hb. rewrite (R_get_linear h v b b' Hb). apply Rr_h_add_offset. exact Hb.
    + intros b b' Hb. rewrite (R_get_linear h v b b' Hb). apply Rr_h_set_linear. exact Hb.
  - apply Rr_bind.
    + exact (proj1 (Rr_loop_set_quadratic h v (fun t => - snd t) s s' H Hv)).
    + intros b b' Hb. rewrite (R_get_linear h v b b' Hb). apply Rr_h_set_linear. exact Hb.
  - apply Rr_raise; exact H.
  - apply Rr_raise; exact H.
Qed.

(* ---------- contract_variables ---------- *)
Lemma same_pair_swap2 a b u x : same_pair a b u x = same_pair a b x u.
Proof. rewrite <- (same_pair_swap u x a b), (HistFacts.same_pair_sym u x a b), (same_pair_swap x u a b). reflexivity. Qed.

Lemma sdelta_swap s s1 u x O U V q hq : sdelta s s1 u x O U V q hq -> sdelta s s1 x u O V U q hq.
Proof.
  intros D. unfold sdelta in *. apply (delta_ext _ _ _ _ _ _ _ _ _ _ D); [reflexivity| | |].
  - intros w. unfold shL. ring.
  - intros a b. unfold shQ. rewrite same_pair_swap2. reflexivity.
  - intros a b. unfold shH. rewrite same_pair_swap2. reflexivity.
Qed.

Lemma Rr_loop_contract h u v s s' :
  R s s' -> has_var s u = true -> hasq s v u = false ->
  Rr (seqm (fun t => h_add_quadratic h u (fst t) (snd t)) (h_nbh h v s) s)
     (seqm (fun t => h_add_quadratic h u (fst t) (snd t)) (h_nbh h v s') s').
Proof.
  intros H Hu Hq. pose proof H as ((Bs & Ws) & _ & C).
  apply (sloop_perm (fun t => h_add_quadratic h u (fst t) (snd t)) fst u h (fun t => fst t <> u) s
           (fun t od q => qo od (snd t)) (fun t od q => qu od (snd t)) (fun t od q => qu od (snd t)) (fun t od q => qq od (snd t)) true).
  - intros x a a' _ Ha. apply Rr_h_add_quadratic. exact Ha.
  - intros t a Pt Ba Hx Hua.
    assert (Pt' : u <> fst t) by (intros E; apply Pt; symmetry; exact E).
    destruct (sp_h_add_quadratic h u (fst t) (snd t) a Ba Pt' Hua Hx) as [O1 D1]. split; [exact O1|]. apply sdelta_swap. exact D1.
  - apply R_h_nbh. exact H.
  - apply Forall_forall. intros t Ht. destruct (h_nbh_in h s v t Ht) as [Ht1 Ht2]. split; [|exact Ht2].
    intros E. rewrite E, Hq in Ht1. discriminate.
  - exact Hu.
  - apply h_nbh_keys. exact Ws.
  - exact H.
  - apply ge_refl.
  - apply ge_ceq. exact C.
Qed.

Lemma Rr_bind_inv (Pl Ql : state -> Prop) r r' g g' :
  Rr r r' /\ (snd r = Ok -> Pl (fst r)) ->
  (forall a a', R a a' -> Pl a -> Rr (g a) (g' a') /\ (snd (g a) = Ok -> Ql (fst (g a)))) ->
  Rr (r >>= g) (r' >>= g') /\ (snd (r >>= g) = Ok -> Ql (fst (r >>= g))).
Proof.
  intros [[H1 H2] Hp] Hg. unfold bind. rewrite <- H1. destruct (snd r) eqn:E.
  - apply Hg; [exact H2|apply Hp; reflexivity].
  - split; [split; [congruence|exact H2]|]. intros X. rewrite E in X. discriminate.
Qed.

Lemma Rr_m_contract h u v s s' : R s s' -> Rr (m_contract h u v s) (m_contract h u v s').
Proof.
  intros H. pose proof H as ((Bs & Ws) & _ & C). unfold m_contract. cbv zeta.
  rewrite <- !(ceq_has s s' _ C). destruct (negb (has_var s u && has_var s v) || (u =? v)%nat) eqn:G; [apply Rr_raise; exact H|].
  apply orb_false_elim in G. destruct G as [G Hne]. apply negb_false_iff, andb_true_iff in G. destruct G as [Hu Hv].
  apply Nat.eqb_neq in Hne.
  rewrite <- (ceq_get_quadratic h u v s s' C), <- (R_get_linear h v s s' H).
  pose (P1 := fun s1 => ge s s1 /\ sameq s s1).
  pose (P3 := fun s3 => ge s s3 /\ hasq s3 v u = false).
  apply Rr_bind; [|intros; apply Rr_h_remove_variable_some; assumption].
  refine (proj1 (Rr_bind_inv P3 (fun _ => True) _ _ _ _ _ _)); [apply (Rr_bind_inv P1 P3); [apply (Rr_bind_inv P1 P1)|]|].
  - split; [apply Rr_h_add_linear; exact H|]. intros _.
    destruct (good_h_add_linear h u (opt0 (h_get_linear h v s)) s Bs) as (A1 & A2 & A3).
    split; [exact A3|apply sameq_h_add_linear; exact Bs].
  - intros s1 s1' H1 (G1 & Q1). destruct (R_B s1 s1' H1) as [B1 _]. rewrite <- (ceq_hvt h s1 s1' (R_ceq _ _ H1)).
    destruct (hvt h s1);
      try (split; [apply Rr_h_add_linear; exact H1|]; intros _;
           destruct (good_h_add_linear h u (opt0 (h_get_quadratic h u v s)) s1 B1) as (A1 & A2 & A3);
           split; [eapply ge_trans; eassumption|eapply sameq_trans; [exact Q1|apply sameq_h_add_linear; exact B1]]);
      (split; [apply Rr_h_add_offset; exact H1|]; intros _;
       destruct (good_h_add_offset h (fun _ => opt0 (h_get_quadratic h u v s)) s1 B1) as (A1 & A2 & A3);
       split; [eapply ge_trans; eassumption|eapply sameq_trans; [exact Q1|unfold h_add_offset; apply sameq_h_set_offset]]).
  - intros s2 s2' H2 (G2 & Q2). destruct (R_B s2 s2' H2) as [B2 _].
    assert (Hq2 : forall x y, hasq s2 x y = hasq s x y) by (intros x y; apply (hasq_sameq s s2 x y Q2)).
    destruct (h_get_quadratic h u v s) eqn:GQ.
    + split; [apply Rr_h_remove_interaction; exact H2|]. intros _.
      unfold h_get_quadratic in GQ. rewrite Hu, Hv in GQ. cbn [andb] in GQ. destruct (hasq s u v) eqn:Hq; [|discriminate].
      destruct (h_remove_interaction_ok h u v s2 B2 Hne (G2 u Hu) (G2 v Hv)) as [(R1 & R2 & R3) RQ]; [rewrite Hq2; exact Hq|].
      split; [eapply ge_trans; eassumption|]. rewrite RQ, same_pair_vu. reflexivity.
    + split; [apply Rr_ok; exact H2|]. intros _. split; [exact G2|]. cbn [ok fst].
      unfold h_get_quadratic in GQ. rewrite Hu, Hv in GQ. cbn [andb] in GQ. destruct (hasq s u v) eqn:Hq; [discriminate|].
      rewrite Hq2. unfold hasq in *. rewrite has_pair_sym. exact Hq.
  - intros s3 s3' H3 (G3 & Hvu). split; [|intros _; exact I]. apply Rr_loop_contract; [exact H3|apply G3; exact Hu|exact Hvu].
Qed.

(* ---------- change_vartype ---------- *)
Lemma has_pair_app (q1 q2 : list qterm) x y : has_pair (q1 ++ q2) x y = has_pair q1 x y || has_pair q2 x y.
Proof. unfold has_pair. apply existsb_app. Qed.

Lemma has_pair_psum l x y : has_pair (p_quad (psum l)) x y = existsb (fun p => has_pair (p_quad p) x y) l.
Proof.
  induction l as [|a l IH]; [reflexivity|]. unfold psum in *. cbn [fold_right padd p_quad existsb].
  rewrite has_pair_app, IH. reflexivity.
Qed.

Lemma has_pair_subst_lterms v m c (L : list lterm) x y :
  existsb (fun p => has_pair (p_quad p) x y) (map (subst_lterm v m c) L) = false.
Proof.
  induction L as [|a L IH]; [reflexivity|]. cbn [map existsb]. rewrite IH. unfold subst_lterm.
  destruct (fst a =? v)%nat; reflexivity.
Qed.

Lemma has_pair_subst_qterms v m c (Q : list qterm) x y :
  existsb (fun p => has_pair (p_quad p) x y) (map (subst_qterm v m c) Q) = has_pair Q x y.
Proof.
  induction Q as [|[[a b] w] Q IH]; [reflexivity|]. cbn [map existsb]. rewrite IH. unfold has_pair at 2. cbn [existsb fst snd].
  fold (has_pair Q x y). f_equal. unfold subst_qterm.
  destruct (Nat.eqb_spec a v), (Nat.eqb_spec b v); subst; cbn [p_quad has_pair existsb fst snd]; rewrite orb_false_r; reflexivity.
Qed.

Lemma has_pair_substitute v m c p x y : has_pair (p_quad (substitute v m c p)) x y = has_pair (p_quad p) x y.
Proof.
  unfold substitute. cbn [padd p_quad app]. rewrite has_pair_app, !has_pair_psum, has_pair_subst_lterms, has_pair_subst_qterms.
  reflexivity.
Qed.

Lemma has_pair_substitute_many L m c p x y : has_pair (p_quad (substitute_many L m c p)) x y = has_pair (p_quad p) x y.
Proof.
  revert p. induction L as [|v L IH]; intros p; [reflexivity|]. cbn [substitute_many fold_left].
  fold (substitute_many L m c (substitute v m c p)). rewrite IH. apply has_pair_substitute.
Qed.

Lemma ceq_substitute_many s s' m c :
  R s s' -> forall y, energy (substitute_many (labels s) m c (st_poly s)) y = energy (substitute_many (labels s') m c (st_poly s')) y.
Proof.
  intros H y. pose proof H as ((_ & (N & _)) & (_ & (N' & _)) & C).
  rewrite (substitute_many_energy _ m c _ y N), (substitute_many_energy _ m c _ y N').
  rewrite (ceq_energy s s' C). apply energy_ext. intros w.
  rewrite (existsb_iff (Nat.eqb w) (labels s) (labels s')); [reflexivity|].
  intros i. split; intros Hi; [apply (Permutation_in i (R_perm_labels s s' H)); exact Hi|apply (Permutation_in i (Permutation_sym (R_perm_labels s s' H))); exact Hi].
Qed.

Lemma Rr_change_vartype h vt s s' : R s s' -> Rr (step s (h, OChangeVartype vt)) (step s' (h, OChangeVartype vt)).
Proof.
  intros H. pose proof (R_ceq s s' H) as C. destruct (R_B s s' H) as [Bs Bs']. unfold B in Bs, Bs'.
  apply Rr_of_step; [exact I|exact H| |]; cbn [step]; rewrite Bs, Bs'; unfold m_change_vartype_bqm; rewrite <- (ceq_bvt s s' C);
    destruct (negb (is_sb vt)) eqn:S; try reflexivity; try exact C; destruct (vartype_eqb vt (bvt s)); try reflexivity; try exact C.
  cbn [ok fst].
  assert (X : forall m c,
    ceq (mkSt (Some vt) (map (fun i => mkvar vt (v_lab i)) (st_vars s)) (substitute_many (labels s) m c (st_poly s)))
        (mkSt (Some vt) (map (fun i => mkvar vt (v_lab i)) (st_vars s')) (substitute_many (labels s') m c (st_poly s')))).
  { intros m c. destruct (energy_coeff_eq _ _ (ceq_substitute_many s s' m c H)) as (O & L & Q).
    split; [reflexivity|]. split.
    - intros i. cbn [st_vars]. rewrite !in_map_iff. destruct C as (_ & V & _).
      split; intros [j [E Hj]]; exists j; (split; [exact E|apply V; exact Hj]).
    - unfold lin, quad, hasq. cbn [st_poly]. split; [exact O|]. split; [exact L|]. split; [exact Q|].
      intros x y. rewrite !has_pair_substitute_many. apply (ceq_hasq' s s' x y C). }
  destruct vt; try discriminate.
  - exact (X two (- (1))).
  - exact (X half half).
Qed.

(* ---------- relabel_variables (array order and dict order) ---------- *)
Lemma has_pair_relabel f p x y :
  has_pair (p_quad (relabel f p)) x y = true <->
  exists a b, has_pair (p_quad p) a b = true /\ same_pair x y (f a) (f b) = true.
Proof.
  unfold relabel; cbn [p_quad]. unfold has_pair. rewrite existsb_exists. split.
  - intros [t [Ht Hs]]. apply in_map_iff in Ht. destruct Ht as [[[a b] w] [E Ht]]. subst t. cbn [fst snd] in Hs.
    exists a, b. split; [|exact Hs]. apply existsb_exists. exists (a, b, w). split; [exact Ht|]. cbn [fst snd]. apply same_pair_refl'.
  - intros [a [b [Hab Hs]]]. apply existsb_exists in Hab. destruct Hab as [[[a' b'] w] [Ht Hp]]. cbn [fst snd] in Hp.
    exists (f a', f b', w). split; [apply in_map_iff; exists (a', b', w); split; [reflexivity|exact Ht]|]. cbn [fst snd].
    unfold same_pair in Hp. apply orb_true_iff in Hp. destruct Hp as [Hp|Hp]; apply andb_true_iff in Hp; destruct Hp as [E1 E2];
      apply Nat.eqb_eq in E1; apply Nat.eqb_eq in E2; subst; [exact Hs|].
    rewrite same_pair_swap2. exact Hs.
Qed.

Lemma ceq_relabel_state f s s' : ceq s s' -> ceq (relabel_state f s) (relabel_state f s').
Proof.
  intros C. pose proof C as (K & V & _ & _ & _ & Hq).
  assert (E : forall y, energy (relabel f (st_poly s)) y = energy (relabel f (st_poly s')) y)
    by (intros y; rewrite !energy_relabel; apply ceq_energy; exact C).
  destruct (energy_coeff_eq _ _ E) as (O & L & Q).
  split; [exact K|]. split.
  - intros i. cbn [relabel_state st_vars]. rewrite !in_map_iff. split; intros [j [Ej Hj]]; exists j; (split; [exact Ej|apply V; exact Hj]).
  - unfold lin, quad, hasq. cbn [relabel_state st_poly]. split; [exact O|]. split; [exact L|]. split; [exact Q|].
    intros x y. apply eq_true_iff_eq. rewrite !has_pair_relabel.
    split; intros [a [b [Hab Hs]]]; exists a, b; (split; [|exact Hs]); [rewrite <- (ceq_hasq' s s' a b C)|rewrite (ceq_hasq' s s' a b C)]; exact Hab.
Qed.

Lemma ceq_relabel_ok m s s' : ceq s s' -> relabel_ok m s = relabel_ok m s'.
Proof. intros C. unfold relabel_ok. f_equal. apply forallb_ext'. intros t. rewrite (ceq_has s s' _ C). reflexivity. Qed.

Lemma Rr_relabel h m s s' : R s s' -> Rr (step s (h, ORelabel m)) (step s' (h, ORelabel m)).
Proof.
  intros H. pose proof (R_ceq s s' H) as C. apply Rr_of_step; [exact I|exact H| |]; cbn [step]; unfold m_relabel;
    rewrite <- (ceq_relabel_ok m s s' C); destruct (relabel_ok m s); try reflexivity; [|exact C].
  cbn [ok fst]. apply ceq_relabel_state. exact C.
Qed.

(* the dict-order discipline differs from the array-order one only in where the relabelled variables sit *)
Lemma Rr_relabel_py h m s : BW s -> Rr (step s (h, ORelabel m)) (step s (h, ORelabelPy m)).
Proof.
  intros W. split; [|split; [apply bqm_inv_step; [exact I|exact W]|split; [apply bqm_inv_step; [exact I|exact W]|]]];
    cbn [step]; unfold m_relabel, m_relabel_py; destruct (relabel_ok m s); try reflexivity; [|apply ceq_refl].
  cbn [ok fst]. split; [reflexivity|]. split; [|repeat split; reflexivity].
  intros i. unfold move_to_end, with_vars; cbn [st_vars]. rewrite In_moved. reflexivity.
Qed.

Lemma Rr_self r r' : Rr r r' -> Rr r' r'.
Proof. intros [E H]. split; [reflexivity|exact (R_refl_r _ _ H)]. Qed.

(* ---------- calls covered: everything except the ones that address a variable by POSITION ---------- *)
Definition ceq_ok (ho : handle * op) : bool :=
  match ho with
  | (_, OAddVariable _ _) | (_, OAddLinear _ _) | (_, OSetLinear _ _) | (_, OAddQuadratic _ _ _) | (_, OSetQuadratic _ _ _)
  | (_, OAddLinearFrom _) | (_, OAddQuadraticFrom _) | (_, ORemoveInteraction _ _) | (_, ORemoveInteractionsFrom _)
  | (_, ORemoveVariable (Some _)) | (_, ORemoveVariablesFrom _)
  | (_, OFlip _) | (_, OFix _ _) | (_, OContract _ _) | (_, OChangeVartype _) | (_, OUpdate _) | (_, OSetOffset _) | (_, OClear) | (_, ORelabel _) => true
  | (Direct, OScale _ [] [] false) => true
  (* QuadraticModel-only calls: refused on a BQM before anything is read *)
  | (_, OQAddVariable _ _ _ _) | (_, OQAddLinearDflt _ _ _ _ _) | (_, OQAddLinearFromDflt _ _ _ _) | (_, OQAddVariablesFrom _ _)
  | (_, OQSetLb _ _) | (_, OQSetUb _ _) | (_, OQChangeVartype _ _) => true
  | _ => false
  end.

Theorem ceq_step s s' ho : ceq_ok ho = true -> R s s' -> Rr (step s ho) (step s' ho).
Proof.
  destruct ho as [h o]. intros Hc H. destruct (R_B s s' H) as [Bs Bs']. unfold B in Bs, Bs'.
  destruct o; cbn [ceq_ok] in Hc; try discriminate; try (destruct h; discriminate); cbn [step]; rewrite ?Bs, ?Bs'.
  - apply Rr_h_add_variable; exact H.
  - apply Rr_h_add_linear; exact H.
  - apply Rr_h_set_linear; exact H.
  - apply Rr_h_add_quadratic; exact H.
  - apply Rr_h_set_quadratic; exact H.
  - apply Rr_seqm; [|exact H]. intros; apply Rr_h_add_linear; assumption.
  - apply Rr_seqm; [|exact H]. intros; apply Rr_h_add_quadratic; assumption.
  - destruct v as [v|]; [|destruct h; discriminate]. apply Rr_h_remove_variable_some; exact H.
  - apply Rr_seqm; [|exact H]. intros; apply Rr_h_remove_variable_some; assumption.
  - apply Rr_h_remove_interaction; exact H.
  - apply Rr_seqm; [|exact H]. intros; apply Rr_h_remove_interaction; assumption.
  - apply Rr_m_contract; exact H.
  - apply Rr_m_flip; exact H.
  - pose proof (Rr_relabel h m s s' H) as X. cbn [step] in X. exact X.
  - destruct h; [|discriminate]. destruct iv; [|discriminate]. destruct ii; [|discriminate]. destruct io; [discriminate|].
    apply Rr_plain_scale; exact H.
  - apply Rr_m_update_bqm; exact H.
  - apply Rr_h_set_offset; exact H.
  - apply (Rr_clear h); exact H.
  - pose proof (Rr_change_vartype h vt s s' H) as X. cbn [step] in X. rewrite Bs, Bs' in X. exact X.
  - apply Rr_m_fix; exact H.
  - apply Rr_raise; exact H.
  - apply Rr_raise; exact H.
  - apply Rr_raise; exact H.
  - apply Rr_raise; exact H.
  - apply Rr_raise; exact H.
  - apply Rr_raise; exact H.
  - apply Rr_raise; exact H.
Qed.

(* whole histories: the same calls on two coefficient-equivalent well-formed BQMs give the same outcomes call by call
   and coefficient-equivalent (well-formed) final states *)
Theorem ceq_histories l : forall s s',
  forallb ceq_ok l = true -> R s s' -> outcomes s l = outcomes s' l /\ R (run s l) (run s' l).
Proof.
  induction l as [|ho l IH]; intros s s' Hl H; [split; [reflexivity|exact H]|].
  cbn [forallb] in Hl. apply andb_true_iff in Hl. destruct Hl as [Ho Hl].
  destruct (ceq_step s s' ho Ho H) as [E1 E2].
  cbn [outcomes]. unfold run. cbn [fold_left]. destruct (IH _ _ Hl E2) as [I1 I2].
  split; [rewrite E1; f_equal; exact I1|exact I2].
Qed.

(* the same with the dict-order discipline (object-dtype back-end) on the right-hand side *)
Theorem ceq_step_py s s' ho : ceq_ok ho = true -> R s s' -> Rr (step s ho) (step s' (fst ho, py_op (snd ho))).
Proof.
  intros Hc H. pose proof (ceq_step s s' ho Hc H) as X. apply (Rr_trans _ _ _ X). destruct ho as [h o]. cbn [fst snd].
  destruct o; try exact (Rr_self _ _ X). cbn [py_op]. apply Rr_relabel_py. destruct H as (_ & W' & _). exact W'.
Qed.

Theorem ceq_histories_py l : forall s s',
  forallb ceq_ok l = true -> R s s' -> outcomes s l = outcomes s' (py_hist l) /\ R (run s l) (run s' (py_hist l)).
Proof.
  induction l as [|ho l IH]; intros s s' Hl H; [split; [reflexivity|exact H]|].
  cbn [forallb] in Hl. apply andb_true_iff in Hl. destruct Hl as [Ho Hl].
  destruct (ceq_step_py s s' ho Ho H) as [E1 E2].
  cbn [outcomes py_hist map]. unfold run. cbn [fold_left]. destruct (IH _ _ Hl E2) as [I1 I2].
  split; [rewrite E1; f_equal; exact I1|exact I2].
Qed.

Corollary ceq_histories_energy l s s' :
  forallb ceq_ok l = true -> B s -> wf s -> B s' -> wf s' -> ceq s s' ->
  outcomes s l = outcomes s' l /\ ceq (run s l) (run s' l)
  /\ forall y, energy (st_poly (run s l)) y = energy (st_poly (run s' l)) y.
Proof.
  intros Hl Bs Ws Bs' Ws' C. destruct (ceq_histories l s s' Hl) as [E (_ & _ & C')]; [split; [split; assumption|split; [split; assumption|exact C]]|].
  split; [exact E|]. split; [exact C'|apply ceq_energy; exact C'].
Qed.

(* coefficient equivalence is exactly: same kind, same variable records, same interaction set, same energy everywhere *)
Theorem ceq_iff_energy s s' :
  ceq s s' <->
  (st_kind s = st_kind s' /\ (forall i, In i (st_vars s) <-> In i (st_vars s')) /\ (forall u v, hasq s u v = hasq s' u v)
   /\ forall y, energy (st_poly s) y = energy (st_poly s') y).
Proof.
  split.
  - intros C. pose proof C as (K & V & _ & _ & _ & Hq). split; [exact K|]. split; [exact V|]. split; [exact Hq|apply ceq_energy; exact C].
  - intros (K & V & Hq & E). destruct (energy_coeff_eq _ _ E) as (O & L & Q).
    split; [exact K|]. split; [exact V|]. split; [exact O|]. split; [exact L|]. split; [exact Q|exact Hq].
Qed.

(* the order-consulting calls are genuinely outside: pop removes a different variable *)
Definition pop_a : state := mkSt (Some BINARY) [mkvar BINARY 0%nat; mkvar BINARY 1%nat] (mkPoly 0 [(0%nat, 1)] []).
Definition pop_b : state := mkSt (Some BINARY) [mkvar BINARY 1%nat; mkvar BINARY 0%nat] (mkPoly 0 [(0%nat, 1)] []).

Theorem ceq_pop_refuted :
  wfb pop_a = true /\ wfb pop_b = true /\ ceq pop_a pop_b
  /\ lin (fst (step pop_a (Direct, ORemoveVariable None))) 0%nat <> lin (fst (step pop_b (Direct, ORemoveVariable None))) 0%nat.
Proof.
  split; [vm_compute; reflexivity|]. split; [vm_compute; reflexivity|]. split.
  - split; [reflexivity|]. split; [intros i; cbn; tauto|]. split; [reflexivity|]. split; [reflexivity|]. split; reflexivity.
  - vm_compute. intros E. inversion E.
Qed.

(* non-vacuity: two coefficient-equivalent states with different variable orders, and a history of covered calls that
   goes through neighbourhood loops on the base object and through translating views *)
Definition ex_ca : state :=
  mkSt (Some SPIN) [mkvar SPIN 0%nat; mkvar SPIN 1%nat; mkvar SPIN 2%nat]
       (mkPoly (qc 1 2) [(0%nat, 1); (2%nat, qc 3 1)] [(0%nat, 1%nat, qc 1 2); (1%nat, 2%nat, qc 2 1); (2%nat, 0%nat, qc 1 4)]).
Definition ex_cb : state :=
  mkSt (Some SPIN) [mkvar SPIN 2%nat; mkvar SPIN 0%nat; mkvar SPIN 1%nat]
       (mkPoly (qc 1 2) [(2%nat, qc 2 1); (0%nat, 1); (2%nat, 1)] [(2%nat, 1%nat, qc 2 1); (0%nat, 2%nat, qc 1 4); (1%nat, 0%nat, qc 1 2)]).
Definition ex_chist : list (handle * op) :=
  [(Via BINARY, OFlip 1%nat); (Direct, OFlip 0%nat); (Via BINARY, OSetLinear 2%nat (qc 1 2)); (Direct, OChangeVartype BINARY);
   (Via SPIN, OContract 0%nat 1%nat); (Via SPIN, OFix 2%nat (qc 1 1)); (Direct, ORelabel [(0%nat, 5%nat)])].

Definition ceqb (n : nat) (s s' : state) : bool :=
  poly_coeff_eqb n (st_poly s) (st_poly s') && poly_pairs_eqb n (st_poly s) (st_poly s')
  && forallb (fun v => Bool.eqb (has_var s v) (has_var s' v)) (labels_upto n).

Example ex_ceq_history :
  wfb ex_ca = true /\ wfb ex_cb = true /\ ceqb 6 ex_ca ex_cb = true /\ forallb ceq_ok ex_chist = true
  /\ outcomes ex_ca ex_chist = [Ok; Ok; Ok; Ok; Ok; Ok; Ok]
  /\ labels (run ex_ca ex_chist) = [5%nat] /\ ceqb 6 (run ex_ca ex_chist) (run ex_cb (py_hist ex_chist)) = true
  /\ st_poly (run ex_ca ex_chist) <> st_poly (run ex_cb (py_hist ex_chist)).
Proof. vm_compute. repeat split; try reflexivity. intros E. inversion E. Qed.

(* the other positional calls: resize keeps the first k variables, relabel_variables_as_integers labels by position *)
Theorem ceq_positional_refuted :
  lin (fst (step pop_a (Direct, OResize 1%Z []))) 0%nat <> lin (fst (step pop_b (Direct, OResize 1%Z []))) 0%nat
  /\ lin (fst (step pop_a (Direct, ORelabelInts [7%nat; 8%nat]))) 7%nat <> lin (fst (step pop_b (Direct, ORelabelInts [7%nat; 8%nat]))) 7%nat.
Proof. split; vm_compute; intros E; inversion E. Qed.
