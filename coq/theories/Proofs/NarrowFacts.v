From Coq Require Import List ZArith Bool Lia.
From Dimod Require Import Gen.Gen_Narrow Model.Narrow.
Import ListNotations.
Open Scope Z_scope.

Lemma min0_le vals v : In v vals -> min0 vals <= v.
Proof.
  induction vals as [|x r IH]; intros H; [destruct H|]. unfold min0 in *. cbn [fold_right].
  destruct H as [->|H]; [lia|]. specialize (IH H). lia.
Qed.

Lemma max0_ge vals v : In v vals -> v <= max0 vals.
Proof.
  induction vals as [|x r IH]; intros H; [destruct H|]. unfold max0 in *. cbn [fold_right].
  destruct H as [->|H]; [lia|]. specialize (IH H). lia.
Qed.

Lemma magnitude_bounds vals v : In v vals -> - magnitude vals <= v <= magnitude vals.
Proof. intros H. pose proof (min0_le vals v H). pose proof (max0_ge vals v H). unfold magnitude. lia. Qed.

(* the chosen type represents every value exactly: all values lie in [iinfo.min, iinfo.max] *)
Theorem narrow_in_represents cands vals w :
  narrow_in cands vals = Some w -> forall v, In v vals -> iinfo_min w <= v <= iinfo_max w.
Proof.
  unfold narrow_in. intros H v Hv. apply find_some in H. destruct H as [_ H]. apply Z.leb_le in H.
  pose proof (magnitude_bounds vals v Hv). unfold iinfo_min, iinfo_max in *. lia.
Qed.

(* it is the FIRST candidate that does: every candidate tried before is too small for the magnitude *)
Theorem narrow_in_first cands vals w :
  narrow_in cands vals = Some w ->
  exists before after, cands = before ++ w :: after /\ forall w', In w' before -> iinfo_max w' < magnitude vals.
Proof.
  unfold narrow_in. induction cands as [|c r IH]; cbn [find]; [discriminate|].
  destruct (magnitude vals <=? iinfo_max c) eqn:E.
  - intros H. inversion H; subst. exists [], r. split; [reflexivity|]. intros w' [].
  - intros H. destruct (IH H) as [b [a [-> Hb]]]. exists (c :: b), a. split; [reflexivity|].
    intros w' [<-|Hw]; [apply Z.leb_gt; assumption|apply Hb; assumption].
Qed.

(* ValueError exactly when no candidate is large enough *)
Theorem narrow_in_none cands vals :
  narrow_in cands vals = None <-> forall w, In w cands -> iinfo_max w < magnitude vals.
Proof.
  unfold narrow_in. split.
  - intros H w Hw. apply Z.leb_gt. apply (find_none _ _ H w Hw).
  - intros H. induction cands as [|c r IH]; [reflexivity|]. cbn [find].
    destruct (magnitude vals <=? iinfo_max c) eqn:E.
    + apply Z.leb_le in E. specialize (H c (or_introl eq_refl)). lia.
    + apply IH. intros w Hw. apply H. right. assumption.
Qed.

(* for the source's own candidate list *)
Theorem narrow_represents vals w :
  narrow vals = Some w -> forall v, In v vals -> iinfo_min w <= v <= iinfo_max w.
Proof. apply narrow_in_represents. Qed.

Theorem narrow_first vals w :
  narrow vals = Some w ->
  exists before after, gen_narrow_candidates = before ++ w :: after
                       /\ forall w', In w' before -> iinfo_max w' < magnitude vals.
Proof. apply narrow_in_first. Qed.

(* the candidate list generated from the source is the increasing list of the signed widths, so
   "first" means "smallest" *)
Theorem narrow_candidates_increasing : gen_narrow_candidates = [8; 16; 32; 64]%nat.
Proof. reflexivity. Qed.
