(* Deferred (future-backed) sample sets: resolving what the deferred branch of
   SampleSet.change_vartype returns gives exactly the immediate change_vartype, at any nesting
   depth; hence the Sampler.sample mixins report the submitted problem's energies whether or not
   the implemented method's sample set was resolved when the mixin adjusted it. *)
From Coq Require Import List ZArith QArith Qcanon Bool Arith.
From Dimod Require Import Base.Util Model.Poly Model.Samples Model.Solve Gen.Gen_Deferred Model.Deferred
     Proofs.SamplesFacts Proofs.SolveComp.
Import ListNotations.
Open Scope Qc_scope.

(* the generated forwarding facts the proofs below rest on (false for a source whose hook drops
   an argument: these lemmas then fail to compile, and so does everything that uses them) *)
Lemma hook_forwards_both :
  gen_cv_hook_forwards_vartype = true /\ gen_cv_hook_forwards_offset = true.
Proof. split; reflexivity. Qed.

Lemma copy_forwards_both :
  gen_cv_copy_forwards_vartype = true /\ gen_cv_copy_forwards_offset = true.
Proof. split; reflexivity. Qed.

Lemma mixin_forwards_offset : gen_mixin_forwards_offset = true.
Proof. reflexivity. Qed.

Lemma fwd_conv_true conv : fwd_conv true conv = conv.
Proof. reflexivity. Qed.
Lemma fwd_off_true off : fwd_off true off = off.
Proof. reflexivity. Qed.

Theorem change_vartype_ss_resolve conv off s :
  ss_resolve (change_vartype_ss conv off s) = change_vartype conv off (ss_resolve s).
Proof.
  unfold change_vartype_ss.
  destruct (ss_done s); cbn [negb ss_resolve].
  - reflexivity.
  - destruct hook_forwards_both as [Hv Ho]. rewrite Hv, Ho. reflexivity.
Qed.

(* change_vartype does not block: the returned set is pending exactly when the given one was *)
Theorem change_vartype_ss_done conv off s :
  ss_done (change_vartype_ss conv off s) = ss_done s.
Proof.
  unfold change_vartype_ss.
  destruct (ss_done s) eqn:E; cbn [negb ss_done]; [reflexivity | exact E].
Qed.

Theorem change_vartype_copy_ss_resolve conv off s :
  ss_resolve (change_vartype_copy_ss conv off s) = change_vartype conv off (ss_resolve s).
Proof.
  unfold change_vartype_copy_ss. rewrite change_vartype_ss_resolve.
  destruct copy_forwards_both as [Hv Ho]. rewrite Hv, Ho. reflexivity.
Qed.

Theorem stack_ss_resolve levels : forall base,
  ss_resolve (stack_ss levels base) = stack_result levels (ss_resolve base).
Proof.
  induction levels as [|[l off] rest IH]; intros base; cbn [stack_ss stack_result].
  - reflexivity.
  - rewrite IH, change_vartype_ss_resolve. reflexivity.
Qed.

Theorem stack_ss_done levels : forall base,
  ss_done (stack_ss levels base) = ss_done base.
Proof.
  induction levels as [|[l off] rest IH]; intros base; cbn [stack_ss].
  - reflexivity.
  - rewrite IH. apply change_vartype_ss_done.
Qed.

Lemma base_ss_resolve k r : ss_resolve (base_ss k r) = r.
Proof. destruct k; reflexivity. Qed.

Lemma base_ss_done k r :
  ss_done (base_ss k r) = match k with FNone => true | FObject hd d => negb hd || d end.
Proof.
  destruct k as [|hd d]; cbn [base_ss ss_done]; [reflexivity|].
  unfold gen_done_without_done_attr. destruct hd, d; reflexivity.
Qed.

(* the three mixins over a child that may return pending sample sets resolve to the mixins of
   Model/Solve.v over the child's resolved sample sets *)
Lemma sample_spin_via_qubo_ss_resolve child vars p :
  ss_resolve (sample_spin_via_qubo_ss child vars p) =
  sample_spin_via_qubo (fun q => ss_resolve (child q)) vars p.
Proof.
  unfold sample_spin_via_qubo_ss, sample_spin_via_qubo. cbv zeta.
  rewrite change_vartype_ss_resolve, mixin_forwards_offset. reflexivity.
Qed.

Lemma sample_binary_via_ising_ss_resolve child vars p :
  ss_resolve (sample_binary_via_ising_ss child vars p) =
  sample_binary_via_ising (fun q => ss_resolve (child q)) vars p.
Proof.
  unfold sample_binary_via_ising_ss, sample_binary_via_ising. cbv zeta.
  rewrite change_vartype_ss_resolve, mixin_forwards_offset. reflexivity.
Qed.

Lemma sample_same_vartype_ss_resolve child p :
  ss_resolve (sample_same_vartype_ss child p) =
  sample_same_vartype (fun q => ss_resolve (child q)) p.
Proof.
  unfold sample_same_vartype_ss, sample_same_vartype.
  rewrite change_vartype_ss_resolve, mixin_forwards_offset. reflexivity.
Qed.

Theorem mixin_deferred_energy_is_submitted_energy (child : poly -> sset) vars p :
  NoDup vars -> mentions_only p vars ->
  (let q := to_binary_all vars p in
   well_formed vars (ss_resolve (child (drop_offset q))) ->
   honest (energy (drop_offset q)) (ss_resolve (child (drop_offset q))) ->
   honest (energy p) (ss_resolve (sample_spin_via_qubo_ss child vars p))) /\
  (let q := to_spin_all vars p in
   well_formed vars (ss_resolve (child (drop_offset q))) ->
   honest (energy (drop_offset q)) (ss_resolve (child (drop_offset q))) ->
   honest (energy p) (ss_resolve (sample_binary_via_ising_ss child vars p))) /\
  (honest (energy (drop_offset p)) (ss_resolve (child (drop_offset p))) ->
   honest (energy p) (ss_resolve (sample_same_vartype_ss child p))).
Proof.
  intros Hnd Hm.
  destruct (mixin_energy_is_submitted_energy (fun q => ss_resolve (child q)) vars p Hnd Hm) as [H1 [H2 H3]].
  rewrite sample_spin_via_qubo_ss_resolve, sample_binary_via_ising_ss_resolve, sample_same_vartype_ss_resolve.
  split; [|split]; assumption.
Qed.

(* and the mixin itself never blocks *)
Theorem mixin_deferred_nonblocking (child : poly -> sset) vars p :
  ss_done (sample_spin_via_qubo_ss child vars p) = ss_done (child (drop_offset (to_binary_all vars p))) /\
  ss_done (sample_binary_via_ising_ss child vars p) = ss_done (child (drop_offset (to_spin_all vars p))) /\
  ss_done (sample_same_vartype_ss child p) = ss_done (child (drop_offset p)).
Proof.
  unfold sample_spin_via_qubo_ss, sample_binary_via_ising_ss, sample_same_vartype_ss. cbv zeta.
  rewrite !change_vartype_ss_done. repeat split.
Qed.

(* the statements as Props/C07.v quotes them *)
Theorem deferred_change_vartype conv off s :
  ss_resolve (change_vartype_ss conv off s) = change_vartype conv off (ss_resolve s) /\
  ss_done (change_vartype_ss conv off s) = ss_done s.
Proof. split; [apply change_vartype_ss_resolve | apply change_vartype_ss_done]. Qed.

Theorem deferred_stack levels base :
  ss_resolve (stack_ss levels base) = stack_result levels (ss_resolve base) /\
  ss_done (stack_ss levels base) = ss_done base.
Proof. split; [apply stack_ss_resolve | apply stack_ss_done]. Qed.

(* the harness recorders hand a pending sample set on inside from_future(SetFuture(inner)) with the
   default hook: transparent for both observables *)
Theorem recorder_transparent s :
  ss_resolve (OnSet s default_hook) = ss_resolve s /\ ss_done (OnSet s default_hook) = ss_done s.
Proof. split; reflexivity. Qed.
