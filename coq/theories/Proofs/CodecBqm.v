(* BQM files (format versions 1.0 and 2.0): decode (encode f) = f and prefix safety. *)
From Coq Require Import List NArith ZArith Arith Bool Lia.
From Dimod Require Import Gen.Gen_Codec Model.Codec Proofs.CodecBase Proofs.CodecFrame.
Import ListNotations.
Open Scope nat_scope.

(* ------------------------------------------------------------ fixed-width chunks *)

Lemma chunks_rt : forall sz cs, Forall (fun c => length c = sz) cs ->
  rt (chunks (length cs) sz) (List.concat cs) cs.
Proof.
  intros sz cs H. induction H as [|c cs Hc Hcs IH]; intros rest; cbn [length chunks List.concat].
  - reflexivity.
  - unfold bind. rewrite <- app_assoc. rewrite (take_rt sz c Hc). rewrite IH. reflexivity.
Qed.

Lemma chunks_strict : forall sz cs, Forall (fun c => length c = sz) cs ->
  forall k, k < length (List.concat cs) -> chunks (length cs) sz (firstn k (List.concat cs)) = Err.
Proof.
  intros sz cs H. induction H as [|c cs Hc Hcs IH]; intros k Hk; cbn [length chunks List.concat] in *.
  - cbn in Hk. lia.
  - rewrite app_length in Hk. unfold bind.
    destruct (firstn_app_cases k c (List.concat cs)) as [[Hl E]|[Hl E]]; rewrite E.
    + now rewrite (take_strict sz c k Hc Hl).
    + rewrite (take_rt sz c Hc). rewrite IH by lia. reflexivity.
Qed.

Definition rec_ok (iw w : nat) (e : N * bytes) : Prop :=
  (fst e < 256 ^ N.of_nat iw)%N /\ length (snd e) = w.

Lemma enc_rec_length : forall iw w e, rec_ok iw w e -> length (enc_rec iw e) = iw + w.
Proof. intros iw w e [_ H]. unfold enc_rec. now rewrite app_length, le_enc_length, H. Qed.

Lemma dec_enc_rec : forall iw w e, rec_ok iw w e -> dec_rec iw (enc_rec iw e) = e.
Proof.
  intros iw w [x b] [H1 H2]. unfold dec_rec, enc_rec. cbn [fst snd] in *.
  rewrite (firstn_app_len iw _ _ (le_enc_length iw x)), (skipn_app_len iw _ _ (le_enc_length iw x)).
  now rewrite le_decode_encode.
Qed.

Lemma map_dec_enc_rec : forall iw w l, Forall (rec_ok iw w) l -> map (dec_rec iw) (map (enc_rec iw) l) = l.
Proof.
  intros iw w l H. induction H as [|e l He Hl IH]; cbn; [reflexivity|].
  now rewrite (dec_enc_rec iw w e He), IH.
Qed.

Lemma Forall_enc_rec_length : forall iw w l, Forall (rec_ok iw w) l ->
  Forall (fun c => length c = iw + w) (map (enc_rec iw) l).
Proof.
  intros iw w l H. induction H as [|e l He Hl IH]; cbn; constructor; auto. now apply enc_rec_length.
Qed.

(* ------------------------------------------------------------ neighbourhood start indices *)

Fixpoint sumn (l : list nat) : nat := match l with [] => 0 | x :: r => x + sumn r end.

Lemma psums_length : forall ds acc, length (psums acc ds) = length ds.
Proof. induction ds as [|d ds IH]; intros acc; cbn; [reflexivity|]. now rewrite IH. Qed.

Lemma degrees_psums : forall ds acc, degrees (psums acc ds) (acc + N.of_nat (sumn ds)) = Some ds.
Proof.
  induction ds as [|d ds IH]; intros acc; cbn [psums degrees sumn]; [reflexivity|].
  assert (E : match psums (acc + N.of_nat d) ds with b :: _ => b | [] => (acc + N.of_nat (d + sumn ds))%N end
              = (acc + N.of_nat d)%N).
  { destruct ds as [|d' ds']; cbn [psums sumn]; [|reflexivity]. f_equal. lia. }
  rewrite E.
  replace (acc + N.of_nat d <? acc)%N with false by (symmetry; apply N.ltb_ge; lia).
  replace (acc + N.of_nat (d + sumn ds))%N with ((acc + N.of_nat d) + N.of_nat (sumn ds))%N by lia.
  rewrite IH. f_equal. f_equal. lia.
Qed.

(* ------------------------------------------------------------ neighbourhoods *)

Lemma read_neighs_rt : forall sz (nbs : list (list bytes)),
  Forall (Forall (fun c => length c = sz)) nbs ->
  rt (read_neighs (map (@length _) nbs) sz) (List.concat (map (@List.concat _) nbs)) nbs.
Proof.
  intros sz nbs H. induction H as [|nb nbs Hnb Hnbs IH]; intros rest; cbn [map read_neighs List.concat].
  - reflexivity.
  - unfold bind. rewrite <- app_assoc. rewrite (chunks_rt sz nb Hnb). rewrite IH. reflexivity.
Qed.

Lemma read_neighs_strict : forall sz (nbs : list (list bytes)),
  Forall (Forall (fun c => length c = sz)) nbs ->
  forall k, k < length (List.concat (map (@List.concat _) nbs)) ->
    read_neighs (map (@length _) nbs) sz (firstn k (List.concat (map (@List.concat _) nbs))) = Err.
Proof.
  intros sz nbs H. induction H as [|nb nbs Hnb Hnbs IH]; intros k Hk; cbn [map read_neighs List.concat] in *.
  - cbn in Hk. lia.
  - rewrite app_length in Hk. unfold bind.
    destruct (firstn_app_cases k (List.concat nb) (List.concat (map (@List.concat _) nbs))) as [[Hl E]|[Hl E]]; rewrite E.
    + pose proof (chunks_strict sz nb Hnb k Hl) as X. unfold bytes in *. now rewrite X.
    + rewrite (chunks_rt sz nb Hnb). rewrite IH by lia. reflexivity.
Qed.

Lemma Forall_enc_rec_length2 : forall iw w adj, Forall (Forall (rec_ok iw w)) adj ->
  Forall (Forall (fun c => length c = iw + w)) (map (map (enc_rec iw)) adj).
Proof.
  intros iw w adj H. induction H as [|nb nbs Hnb Hnbs IH]; cbn [map]; constructor; auto.
  now apply Forall_enc_rec_length.
Qed.

Lemma map_dec_enc_rec2 : forall iw w adj, Forall (Forall (rec_ok iw w)) adj ->
  map (map (dec_rec iw)) (map (map (enc_rec iw)) adj) = adj.
Proof.
  intros iw w adj H. induction H as [|nb nbs Hnb Hnbs IH]; cbn [map]; [reflexivity|].
  now rewrite (map_dec_enc_rec iw w nb Hnb), IH.
Qed.

Lemma combine_fst : forall {A B} (l1 : list A) (l2 : list B), length l1 = length l2 -> map fst (combine l1 l2) = l1.
Proof. induction l1 as [|x l IH]; intros [|y l2] L; cbn in *; try lia; try reflexivity. f_equal. apply IH. lia. Qed.

Lemma combine_snd : forall {A B} (l1 : list A) (l2 : list B), length l1 = length l2 -> map snd (combine l1 l2) = l2.
Proof. induction l1 as [|x l IH]; intros [|y l2] L; cbn in *; try lia; try reflexivity. f_equal. apply IH. lia. Qed.

(* ------------------------------------------------------------ the body *)

Definition body_cont (w : nat) (m : N) (n : nat) (off : bytes) : parser (bytes * list bytes * list (list (N * bytes))) :=
  bind (chunks n (IDX_BYTES + w)) (fun lrecs =>
    let l := map (dec_rec IDX_BYTES) lrecs in
    match degrees (map fst l) (2 * m) with
    | None => fail
    | Some ds => bind (read_neighs ds (IDX_BYTES + w))
                   (fun adjc => ret (off, map snd l, map (map (dec_rec IDX_BYTES)) adjc))
    end).

Lemma dec_bqm_body_S : forall w n m, n <> 0 ->
  dec_bqm_body w n m = bind (take w) (fun off => body_cont w m n off).
Proof. intros w [|n] m H; [contradiction|reflexivity]. Qed.

Lemma body_nil_rt : forall w m off, length off = w -> rt (dec_bqm_body w 0 m) (bqm_body [] [] off) (off, [], []).
Proof.
  intros w m off H rest. unfold dec_bqm_body, bqm_body, bind. cbn [map combine List.concat psums].
  rewrite !app_nil_r. now rewrite (take_rt w off H).
Qed.

Lemma body_nil_strict : forall w m off k, length off = w -> k < length (bqm_body [] [] off) ->
  dec_bqm_body w 0 m (firstn k (bqm_body [] [] off)) = Err.
Proof.
  intros w m off k H Hk. unfold dec_bqm_body, bqm_body, bind in *. cbn [map combine List.concat psums] in *.
  rewrite !app_nil_r in *. now rewrite (take_strict w off k H Hk).
Qed.


Section Body.
  Variables (w : nat) (off : bytes) (lin : list bytes) (adj : list (list (N * bytes))) (m : N).
  Hypothesis Hoff : length off = w.
  Hypothesis Hlin : Forall (fun b => length b = w) lin.
  Hypothesis Hlen : length adj = length lin.
  Hypothesis Hadj : Forall (Forall (rec_ok IDX_BYTES w)) adj.
  Hypothesis Hm : (2 * m = N.of_nat (sumn (map (@length _) adj)))%N.
  Hypothesis Hsmall : (2 * m < 256 ^ N.of_nat IDX_BYTES)%N.

  Let sz := IDX_BYTES + w.
  Let degs := map (@length (N * bytes)) adj.
  Let lrec := combine (psums 0 degs) lin.
  Let lenc := map (enc_rec IDX_BYTES) lrec.
  Let aenc := map (map (enc_rec IDX_BYTES)) adj.

  Lemma psums_bound : forall ds acc x, In x (psums acc ds) -> (x <= acc + N.of_nat (sumn ds))%N.
  Proof.
    induction ds as [|d ds IH]; intros acc x H; cbn in *; [contradiction|].
    destruct H as [H|H]; [lia|]. apply IH in H. lia.
  Qed.

  Lemma lrec_ok : Forall (rec_ok IDX_BYTES w) lrec.
  Proof.
    apply Forall_forall. intros [x b] Hin. unfold lrec in Hin. split; cbn [fst snd].
    - apply in_combine_l in Hin. apply psums_bound in Hin. fold degs in Hm. lia.
    - apply in_combine_r in Hin. rewrite Forall_forall in Hlin. now apply Hlin.
  Qed.

  Lemma lrec_len : length lrec = length lin.
  Proof. unfold lrec. rewrite combine_length, psums_length. unfold degs. rewrite map_length. lia. Qed.

  Lemma psums_len : length (psums 0 degs) = length lin.
  Proof. rewrite psums_length. unfold degs. rewrite map_length. lia. Qed.

  Lemma lrec_fst : map fst lrec = psums 0 degs.
  Proof. unfold lrec. apply combine_fst, psums_len. Qed.

  Lemma lrec_snd : map snd lrec = lin.
  Proof. unfold lrec. apply combine_snd, psums_len. Qed.

  Lemma aenc_ok : Forall (Forall (fun c => length c = sz)) aenc.
  Proof. unfold aenc, sz. now apply Forall_enc_rec_length2. Qed.

  Lemma aenc_degs : map (@length _) aenc = degs.
  Proof. unfold aenc, degs. rewrite map_map. apply map_ext. intros a. apply map_length. Qed.

  Lemma aenc_dec : map (map (dec_rec IDX_BYTES)) aenc = adj.
  Proof. unfold aenc. now apply (map_dec_enc_rec2 IDX_BYTES w). Qed.

  Lemma body_eq : bqm_body lin adj off
    = off ++ List.concat lenc ++ List.concat (map (@List.concat _) aenc).
  Proof. unfold bqm_body, lenc, lrec, degs, aenc. now rewrite map_map. Qed.

  Lemma degs_ok : degrees (map fst (map (dec_rec IDX_BYTES) lenc)) (2 * m) = Some degs.
  Proof.
    unfold lenc. rewrite (map_dec_enc_rec IDX_BYTES w lrec lrec_ok), lrec_fst, Hm.
    apply (degrees_psums degs 0%N).
  Qed.

  Let result := (off, lin, adj).

  Hypothesis Hne : length lin <> 0.

  Let cont := body_cont w m (length lin) off.

  Let lenc_ok : Forall (fun c => length c = sz) lenc := Forall_enc_rec_length IDX_BYTES w lrec lrec_ok.
  Let lenc_len : length lenc = length lin.
  Proof. unfold lenc. rewrite map_length. apply lrec_len. Qed.

  Lemma cont_after : forall bs,
    cont (List.concat lenc ++ bs)
    = bind (read_neighs degs sz) (fun adjc => ret (off, lin, map (map (dec_rec IDX_BYTES)) adjc)) bs.
  Proof.
    intros bs. unfold cont, body_cont. fold sz. unfold bind at 1. rewrite <- lenc_len. rewrite (chunks_rt sz lenc lenc_ok).
    cbv zeta. rewrite degs_ok. unfold lenc at 1. rewrite (map_dec_enc_rec IDX_BYTES w lrec lrec_ok), lrec_snd.
    reflexivity.
  Qed.

  Lemma cont_rt : rt cont (List.concat lenc ++ List.concat (map (@List.concat _) aenc)) result.
  Proof.
    intros rest. rewrite <- app_assoc, cont_after. unfold bind. rewrite <- aenc_degs.
    rewrite (read_neighs_rt sz aenc aenc_ok). unfold ret, result. now rewrite aenc_dec.
  Qed.

  Lemma cont_strict : forall k, k < length (List.concat lenc ++ List.concat (map (@List.concat _) aenc)) ->
    cont (firstn k (List.concat lenc ++ List.concat (map (@List.concat _) aenc))) = Err.
  Proof.
    intros k Hk. rewrite app_length in Hk.
    destruct (firstn_app_cases k (List.concat lenc) (List.concat (map (@List.concat _) aenc))) as [[Hl E]|[Hl E]]; rewrite E.
    - unfold cont, body_cont, bind. fold sz. rewrite <- lenc_len. pose proof (chunks_strict sz lenc lenc_ok k Hl) as X.
      unfold bytes in *. now rewrite X.
    - rewrite cont_after. unfold bind. rewrite <- aenc_degs.
      rewrite (read_neighs_strict sz aenc aenc_ok) by lia. reflexivity.
  Qed.

  Lemma body_rt : rt (dec_bqm_body w (length lin) m) (bqm_body lin adj off) result.
  Proof.
    rewrite body_eq. intros rest. rewrite (dec_bqm_body_S w (length lin) m Hne). unfold bind at 1.
    rewrite <- app_assoc. rewrite (take_rt w off Hoff). apply cont_rt.
  Qed.

  Lemma body_strict : forall k, k < length (bqm_body lin adj off) ->
    dec_bqm_body w (length lin) m (firstn k (bqm_body lin adj off)) = Err.
  Proof.
    rewrite body_eq. intros k Hk. rewrite (dec_bqm_body_S w (length lin) m Hne). unfold bind at 1.
    rewrite app_length in Hk.
    destruct (firstn_app_cases k off (List.concat lenc ++ List.concat (map (@List.concat _) aenc))) as [[Hl E]|[Hl E]]; rewrite E.
    - now rewrite (take_strict w off k Hoff Hl).
    - rewrite (take_rt w off Hoff). apply cont_strict. lia.
  Qed.
End Body.
