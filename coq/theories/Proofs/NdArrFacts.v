(* C11 - reshape/flatten and the byte codec are inverse *)
From Coq Require Import List Arith Lia.
From Dimod Require Import Model.Comb Model.NdArr Proofs.CombPack.
Import ListNotations.

Lemma firstn_exact {A} (l t : list A) : firstn (length l) (l ++ t) = l.
Proof. induction l as [|x l IH]; [destruct t; reflexivity|]. cbn [length app firstn]. rewrite IH. reflexivity. Qed.

Lemma skipn_exact {A} (l t : list A) : skipn (length l) (l ++ t) = t.
Proof. induction l as [|x l IH]; [reflexivity|]. cbn [length app skipn]. exact IH. Qed.

Lemma chunks_concat {A} c (rows : list (list A)) : 0 < c ->
  Forall (fun r => length r = c) rows -> forall fuel, length rows <= fuel ->
  chunks c fuel (concat rows) = rows.
Proof.
  intros Hc H. induction H as [|r rows Hr H IH]; intros fuel Hf.
  - cbn [concat]. apply chunks_nil.
  - destruct fuel as [|f]; [cbn [length] in Hf; lia|].
    cbn [concat]. destruct r as [|a r']; [cbn [length] in Hr; lia|].
    remember (a :: r') as r eqn:Er.
    assert (E : chunks c (S f) (r ++ concat rows) = firstn c (r ++ concat rows) :: chunks c f (skipn c (r ++ concat rows))).
    { subst r. reflexivity. }
    rewrite E.
    replace (firstn c (r ++ concat rows)) with r by (rewrite <- Hr; symmetry; apply firstn_exact).
    replace (skipn c (r ++ concat rows)) with (concat rows) by (rewrite <- Hr; symmetry; apply skipn_exact).
    rewrite IH by (cbn [length] in Hf; lia). reflexivity.
Qed.

Section Facts.
  Variables (A B : Type) (width : nat) (encb : A -> list B) (decb : list B -> A).
  Hypothesis Hw : 0 < width.
  Hypothesis Hlen : forall x, length (encb x) = width.
  Hypothesis Hcodec : forall x, decb (encb x) = x.

  Lemma frombuffer_tobytes (xs : list A) :
    frombuffer A B width decb (length xs) (tobytes A B encb xs) = xs.
  Proof.
    unfold frombuffer, tobytes.
    rewrite (chunks_concat width (map encb xs) Hw).
    - rewrite map_map. rewrite <- (map_id xs) at 2. apply map_ext. exact Hcodec.
    - apply Forall_forall. intros r Hr. apply in_map_iff in Hr. destruct Hr as [x [E _]]. subst r. apply Hlen.
    - rewrite map_length. apply Nat.le_refl.
  Qed.

  Lemma reshape_flatten r c (rows : list (list A)) :
    0 < c -> length rows = r -> Forall (fun row => length row = c) rows ->
    reshape2 A r c (flatten2 A rows) = rows.
  Proof.
    intros Hc Hr Hrows. unfold reshape2, flatten2. apply chunks_concat; [exact Hc | exact Hrows | lia].
  Qed.

  Lemma flatten_reshape r c (flat : list A) :
    0 < c -> length flat = r * c ->
    flatten2 A (reshape2 A r c flat) = flat /\
    length (reshape2 A r c flat) = r /\ Forall (fun row => length row = c) (reshape2 A r c flat).
  Proof.
    intros Hc Hl. unfold reshape2, flatten2.
    destruct (chunks_spec c r Hc r flat Hl (Nat.le_refl r)) as [H1 [H2 H3]]. auto.
  Qed.

  Lemma length_concat_rect r c (rows : list (list A)) :
    length rows = r -> Forall (fun row => length row = c) rows -> length (concat rows) = r * c.
  Proof.
    intros Hr H. subst r. induction H as [|x l Hx H IH]; [reflexivity|].
    cbn [concat length]. rewrite app_length, IH, Hx. lia.
  Qed.

  Theorem ndarray_roundtrip_1d use_bytes (xs : list A) :
    deserialize1 A B width decb (serialize1 A B encb use_bytes xs) = Some xs.
  Proof.
    unfold serialize1, deserialize1. destruct use_bytes; cbn [d_payload d_shape]; [|reflexivity].
    rewrite frombuffer_tobytes. reflexivity.
  Qed.

  Theorem ndarray_roundtrip_2d use_bytes r c (rows : list (list A)) :
    0 < c -> length rows = r -> Forall (fun row => length row = c) rows ->
    deserialize2 A B width decb (serialize2 A B encb use_bytes r c rows) = Some rows.
  Proof.
    intros Hc Hr Hrows. unfold serialize2, deserialize2. destruct use_bytes; cbn [d_payload d_shape].
    - rewrite <- (length_concat_rect r c rows Hr Hrows). unfold flatten2.
      rewrite frombuffer_tobytes. f_equal. apply reshape_flatten; assumption.
    - f_equal. apply reshape_flatten; assumption.
  Qed.
End Facts.
