(* C03: the generic Python fix_variable loop (views/quadratic.py) equals Poly.fix_variable:
   same energy at every sample, hence the same coefficients. *)
From Coq Require Import List ZArith QArith Qcanon Bool Arith Lia.
From Dimod Require Import Base.Util Model.Poly Model.FixPy Proofs.PolyFacts Proofs.CoeffSound.
From Dimod Require Proofs.ExprSim.
Import ListNotations.
Open Scope Qc_scope.

Definition scaled_add (a : Qc) (acc : poly) (ub : lterm) : poly := add_linear (fst ub) (a * snd ub) acc.

Lemma fold_add_energy a N : forall p s,
  energy (fold_left (scaled_add a) N p) s = energy p s + a * lin_energy N s.
Proof.
  induction N as [|[u b] N IH]; intros p s; cbn [fold_left].
  - unfold lin_energy. cbn [map qsum]. ring.
  - rewrite IH. unfold scaled_add at 1. rewrite energy_add_linear, lin_energy_cons. cbn [fst snd]. ring.
Qed.

Lemma fold_add_lin_coeff a N v : forall p,
  lin_coeff (p_lin (fold_left (scaled_add a) N p)) v = lin_coeff (p_lin p) v + a * lin_coeff N v.
Proof.
  induction N as [|[u b] N IH]; intros p; cbn [fold_left].
  - unfold lin_coeff at 3. cbn [filter map qsum]. ring.
  - rewrite IH. unfold scaled_add at 1. cbn [add_linear p_lin fst snd].
    rewrite !lin_coeff_cons. destruct (u =? v)%nat; ring.
Qed.

Lemma lin_energy_upd l s v a :
  lin_energy l (upd s v a) = lin_energy l (upd s v 0) + a * lin_coeff l v.
Proof.
  induction l as [|[u b] l IH].
  - unfold lin_energy, lin_coeff. cbn [filter map qsum]. ring.
  - rewrite !lin_energy_cons, IH, lin_coeff_cons. cbn [fst snd]. unfold upd.
    destruct (u =? v)%nat; ring.
Qed.

Lemma lin_coeff_app l1 l2 v : lin_coeff (l1 ++ l2) v = lin_coeff l1 v + lin_coeff l2 v.
Proof. unfold lin_coeff. rewrite filter_app, map_app, qsum_app. reflexivity. Qed.

Lemma quad_energy_upd q s v a :
  quad_energy q (upd s v a)
  = quad_energy q (upd s v 0) + a * lin_energy (nbhd v q) (upd s v 0) + a * a * lin_coeff (nbhd v q) v.
Proof.
  induction q as [|[[x y] b] q IH].
  - unfold quad_energy, lin_energy, lin_coeff, nbhd. cbn [flat_map filter map qsum]. ring.
  - unfold nbhd in *. cbn [flat_map]. rewrite !quad_energy_cons, IH, lin_energy_app, lin_coeff_app.
    cbn [fst snd nbhd_term]. unfold upd.
    destruct (Nat.eqb_spec x v) as [Ex|Nx]; destruct (Nat.eqb_spec y v) as [Ey|Ny].
    + rewrite lin_energy_cons, lin_coeff_cons. cbn [fst snd]. subst. rewrite Nat.eqb_refl.
      unfold lin_energy, lin_coeff. cbn [filter map qsum]. ring.
    + rewrite lin_energy_cons, lin_coeff_cons. cbn [fst snd].
      destruct (Nat.eqb_spec y v) as [|_]; [contradiction|].
      unfold lin_energy, lin_coeff. cbn [filter map qsum]. ring.
    + rewrite lin_energy_cons, lin_coeff_cons. cbn [fst snd].
      destruct (Nat.eqb_spec x v) as [|_]; [contradiction|].
      unfold lin_energy, lin_coeff. cbn [filter map qsum]. ring.
    + unfold lin_energy, lin_coeff. cbn [filter map qsum]. ring.
Qed.

(* the generic Python loop: the result at s is the original at s extended by v := value *)
Theorem py_fix_variable_energy v a p s :
  energy (py_fix_variable v a p) s = energy p (upd s v a).
Proof.
  unfold py_fix_variable.
  change (fun acc ub => add_linear (fst ub) (a * snd ub) acc) with (scaled_add a).
  rewrite ExprSim.energy_remove_variable_zero, energy_add_offset, fold_add_energy, fold_add_lin_coeff.
  unfold energy. rewrite (lin_energy_upd _ s v a), (quad_energy_upd _ s v a). ring.
Qed.

Theorem py_fix_variable_eq_spec_energy v a p s :
  energy (py_fix_variable v a p) s = energy (fix_variable v a p) s.
Proof. rewrite py_fix_variable_energy, energy_fix_variable. reflexivity. Qed.

(* ... hence coefficient-wise equal to Poly.fix_variable *)
Theorem py_fix_variable_coeffs v a p :
  p_off (py_fix_variable v a p) = p_off (fix_variable v a p)
  /\ (forall x, lin_coeff (p_lin (py_fix_variable v a p)) x = lin_coeff (p_lin (fix_variable v a p)) x)
  /\ (forall x y, quad_coeff (p_quad (py_fix_variable v a p)) x y = quad_coeff (p_quad (fix_variable v a p)) x y).
Proof.
  pose proof (py_fix_variable_eq_spec_energy v a p) as E.
  split; [|split].
  - apply ce_off, E.
  - intros x. apply ce_lin, E.
  - intros x y. apply ce_quad, E.
Qed.

Theorem py_fix_variable_coeff_eqb n v a p :
  poly_coeff_eqb n (py_fix_variable v a p) (fix_variable v a p) = true.
Proof. apply coeff_eq_complete, py_fix_variable_eq_spec_energy. Qed.

(* the fixed variable is gone *)
Theorem py_fix_variable_absent v a p :
  (forall t, In t (p_lin (py_fix_variable v a p)) -> fst t <> v)
  /\ (forall t, In t (p_quad (py_fix_variable v a p)) -> fst (fst t) <> v /\ snd (fst t) <> v).
Proof.
  unfold py_fix_variable. split; intros t Ht.
  - eapply remove_variable_no_mention_lin, Ht.
  - eapply remove_variable_no_mention_quad, Ht.
Qed.

(* fix_variables: the loop over the mapping *)
Theorem py_fix_variables_energy fs : forall p s,
  energy (py_fix_variables fs p) s = energy (fix_variables fs p) s.
Proof.
  unfold py_fix_variables, fix_variables.
  induction fs as [|[v a] fs IH]; intros p s; cbn [fold_left fst snd]; [reflexivity|].
  rewrite IH. rewrite !fix_variables_energy.
  rewrite py_fix_variable_eq_spec_energy. reflexivity.
Qed.

Theorem py_fix_variables_energy_value fs p s :
  energy (py_fix_variables fs p) s = energy p (fold_right (fun f acc => upd acc (fst f) (snd f)) s fs).
Proof. rewrite py_fix_variables_energy. apply fix_variables_energy. Qed.

Theorem py_fix_variables_coeff_eqb n fs p :
  poly_coeff_eqb n (py_fix_variables fs p) (fix_variables fs p) = true.
Proof. apply coeff_eq_complete. intros s. apply py_fix_variables_energy. Qed.

Print Assumptions py_fix_variable_energy.
Print Assumptions py_fix_variable_coeffs.
Print Assumptions py_fix_variables_energy_value.
Print Assumptions py_fix_variables_coeff_eqb.
