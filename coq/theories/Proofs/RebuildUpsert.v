(* The BQM loader calls add_quadratic (lower_bound + insert-if-absent + `+=`), not add_quadratic_back.
   On the call sequence of a load every such call finds only smaller keys in both neighbourhoods it
   touches, so it appends: the upsert replay equals the push-back replay, hence restores the adjacency. *)
From Coq Require Import List Arith Bool Lia Sorted.
From Dimod Require Import Model.Rebuild Proofs.RebuildFacts.
Import ListNotations.

Section Upsert.
  Context {B : Type}.
  Notation nbhd := (@nbhd B).
  Variable add : B -> B -> B.
  Notation id0 := (fun b : B => b).

  Lemma upsert_append : forall k b (l : nbhd),
    Forall (fun e => fst e < k) l -> upsert add id0 k b l = l ++ [(k, b)].
  Proof.
    intros k b l H. induction H as [|[k' b'] r Hk Hr IH]; cbn [upsert app]; [reflexivity|].
    cbn [fst] in Hk. replace (k' <? k) with true by (symmetry; apply Nat.ltb_lt; lia). now rewrite IH.
  Qed.

  Lemma upd_nth_ext_at : forall {A} (d : A) i (f g : A -> A) l, i < length l ->
    f (nth i l d) = g (nth i l d) -> upd_nth i f l = upd_nth i g l.
  Proof.
    intros A d i f g l. revert i. induction l as [|x r IH]; intros [|i] H E; cbn in *; try lia.
    - now rewrite E.
    - f_equal. apply IH; [lia|exact E].
  Qed.

  (* the situation in which add_quadratic(u, v, b) behaves like add_quadratic_back(u, v, b) *)
  Definition appendable (s : list nbhd) (t : nat * nat * B) : Prop :=
    match t with
    | (u, v, _) => u <> v /\ u < length s /\ v < length s
                   /\ Forall (fun e => fst e < v) (nth u s []) /\ Forall (fun e => fst e < u) (nth v s [])
    end.

  Lemma push_upsert_push : forall s t, appendable s t -> push_upsert add id0 s t = push s t.
  Proof.
    intros s [[u v] b] [Hne [Hu [Hv [Ku Kv]]]]. unfold push_upsert, push.
    replace (u =? v) with false by (symmetry; now apply Nat.eqb_neq).
    assert (E1 : upd_nth u (upsert add id0 v b) s = upd_nth u (fun l => l ++ [(v, b)]) s).
    { apply (upd_nth_ext_at []); [assumption|]. now apply upsert_append. }
    rewrite E1. apply (upd_nth_ext_at []); [now rewrite upd_nth_length|].
    rewrite nth_upd_nth by assumption. replace (v =? u) with false by (symmetry; apply Nat.eqb_neq; lia).
    now apply upsert_append.
  Qed.

  Lemma fold_upsert_push : forall T s,
    (forall T1 t T2, T = T1 ++ t :: T2 -> appendable (fold_left push T1 s) t) ->
    fold_left (push_upsert add id0) T s = fold_left push T s.
  Proof.
    induction T as [|t T IH]; intros s H; [reflexivity|]. cbn [fold_left].
    rewrite (push_upsert_push s t (H [] t T eq_refl)). apply IH.
    intros T1 t' T2 E. apply (H (t :: T1) t' T2). now rewrite E.
  Qed.

  (* ------------------------------------------------------------ order of the calls of a load *)

  (* row-major, strictly: earlier call = smaller v, or same v and smaller u *)
  Definition before (t' t : nat * nat * B) : Prop :=
    snd (fst t') < snd (fst t) \/ (snd (fst t') = snd (fst t) /\ fst (fst t') < fst (fst t)).

  Lemma sorted_app : forall {A} (R : A -> A -> Prop) l1 l2,
    StronglySorted R l1 -> StronglySorted R l2 -> (forall x y, In x l1 -> In y l2 -> R x y) ->
    StronglySorted R (l1 ++ l2).
  Proof.
    intros A R l1 l2 S1 S2 H. induction S1 as [|x l1 S1 IH Hx]; cbn; [exact S2|].
    constructor.
    - apply IH. intros a b Ha Hb. apply H; [now right|exact Hb].
    - apply Forall_app. split; [exact Hx|]. apply Forall_forall. intros y Hy. apply H; [now left|exact Hy].
  Qed.

  Lemma sorted_before_elt : forall {A} (R : A -> A -> Prop) T1 t T2,
    StronglySorted R (T1 ++ t :: T2) -> Forall (fun t' => R t' t) T1.
  Proof.
    intros A R T1 t T2. induction T1 as [|x T1 IH]; intros S; [constructor|].
    cbn in S. inversion S as [|? ? S' Hx]; subst. constructor; [|now apply IH].
    rewrite Forall_forall in Hx. apply Hx. apply in_elt.
  Qed.

  Lemma sorted_flat_map_seq : forall {A} (R : A -> A -> Prop) (row : nat -> list A) len lo,
    (forall v, StronglySorted R (row v)) ->
    (forall v v' x y, v < v' -> In x (row v) -> In y (row v') -> R x y) ->
    StronglySorted R (flat_map row (seq lo len)).
  Proof.
    intros A R row len. induction len as [|len IH]; intros lo H1 H2; cbn [seq flat_map]; [constructor|].
    apply sorted_app; [apply H1|now apply IH|].
    intros x y Hx Hy. apply in_flat_map in Hy as [v' [Hv' Hy]]. apply in_seq in Hv'.
    apply (H2 lo v'); [lia|assumption|assumption].
  Qed.

  Lemma lb_sorted_keys : forall (l : nbhd) lo, lb_sorted lo l -> Forall (fun e => lo <= fst e) l.
  Proof.
    induction l as [|[k b] r IH]; intros lo S; [constructor|]. cbn in S. destruct S as [S1 S2].
    constructor; [exact S1|]. specialize (IH (S k) S2). eapply Forall_impl; [|exact IH]. intros e He. cbn in *. lia.
  Qed.

  Lemma row_sorted : forall v (l : nbhd) lo, lb_sorted lo l ->
    StronglySorted before (map (fun e => (fst e, v, snd e)) l).
  Proof.
    induction l as [|[k b] r IH]; intros lo S; cbn [map]; [constructor|]. cbn in S. destruct S as [S1 S2].
    constructor; [now apply (IH (S k))|].
    apply Forall_forall. intros t Ht. apply in_map_iff in Ht as [e [<- He]].
    pose proof (lb_sorted_keys r (S k) S2) as K. rewrite Forall_forall in K. specialize (K e He).
    right. cbn [fst snd]. split; [reflexivity|lia].
  Qed.

  (* ------------------------------------------------------------ the theorem *)

  Section Main.
    Variable a : list nbhd.
    Hypothesis W : AdjWF a.
    Hypothesis NoSelf : forall x, x < length a -> get x (nth x a []) = None.
    Let n := length a.

    Lemma get_in : forall (l : nbhd) lo k b, lb_sorted lo l -> In (k, b) l -> get k l = Some b.
    Proof.
      induction l as [|[k' b'] r IH]; intros lo k b S H; [contradiction|]. cbn in S. destruct S as [S1 S2].
      cbn [get]. destruct H as [H|H].
      - inversion H; subst. now rewrite Nat.eqb_refl.
      - pose proof (lb_sorted_keys r (S k') S2) as K. rewrite Forall_forall in K. specialize (K _ H). cbn in K.
        replace (k' =? k) with false by (symmetry; apply Nat.eqb_neq; lia). now apply (IH (S k')).
    Qed.

    Lemma calls_sorted : StronglySorted before (triples (lowers a)).
    Proof.
      rewrite (triples_eq a). apply sorted_flat_map_seq.
      - intros v. unfold row. destruct (Nat.lt_ge_cases v (length a)) as [Hv|Hv].
        + apply (row_sorted v _ 0). apply lower_sorted. now apply (wf_sorted a W).
        + rewrite nth_overflow by lia. constructor.
      - intros v v' x y Hlt Hx Hy. unfold row in *. apply in_map_iff in Hx as [e [<- He]].
        apply in_map_iff in Hy as [e' [<- He']]. left. cbn [fst snd]. exact Hlt.
    Qed.

    Lemma calls_strict_lower : Forall (fun t => fst (fst t) < snd (fst t) /\ snd (fst t) < n) (triples (lowers a)).
    Proof.
      rewrite (triples_eq a). apply Forall_forall. intros t Ht. apply in_flat_map in Ht as [v [Hv Ht]].
      apply in_seq in Hv. unfold row in Ht. apply in_map_iff in Ht as [[k b] [<- He]]. cbn [fst snd].
      split; [|unfold n; lia].
      pose proof (lower_range v (nth v a [])) as R. rewrite Forall_forall in R. specialize (R _ He). cbn [fst] in R.
      assert (k <> v); [|lia]. intros ->.
      apply lower_in in He. pose proof (get_in _ 0 v b (wf_sorted a W v ltac:(lia)) He) as G.
      rewrite NoSelf in G by lia. discriminate.
    Qed.

    Lemma calls_appendable : forall T1 t T2, triples (lowers a) = T1 ++ t :: T2 ->
      appendable (fold_left push T1 (repeat [] (length (lowers a)))) t.
    Proof.
      intros T1 [[u v] b] T2 E. rewrite (lowers_length a).
      pose proof calls_sorted as S. rewrite E in S. pose proof (sorted_before_elt _ _ _ _ S) as Bf.
      pose proof calls_strict_lower as L. rewrite E in L. apply Forall_app in L as [L1 L2].
      inversion L2 as [|? ? [Luv Lv] _]; subst. cbn [fst snd] in Luv, Lv.
      pose proof (triples_range a W) as Rg. rewrite E in Rg. apply Forall_app in Rg as [Rg1 _].
      assert (Rg1' : Forall (fun t => fst (fst t) < length (repeat (@nil (nat * B)) (length a)) /\
                                       snd (fst t) < length (repeat (@nil (nat * B)) (length a))) T1)
        by (now rewrite repeat_length).
      unfold appendable. rewrite fold_push_length, repeat_length. unfold n in *.
      repeat split; try lia.
      - (* keys of the neighbourhood of u are smaller than v *)
        rewrite (nth_fold_push T1 _ u Rg1'), nth_repeat. cbn [app].
        apply Forall_forall. intros e He. apply in_flat_map in He as [[[u' v'] b'] [Ht He]].
        rewrite Forall_forall in Bf, L1. pose proof (Bf _ Ht) as Hb. pose proof (L1 _ Ht) as [Hl _].
        unfold before in Hb. cbn [fst snd] in Hb, Hl. unfold contrib in He. apply in_app_or in He as [He|He].
        + destruct (u =? u') eqn:Eu; [|contradiction]. apply Nat.eqb_eq in Eu. subst u'.
          destruct He as [<-|[]]. cbn [fst]. lia.
        + destruct ((u =? v') && negb (u' =? v')) eqn:Eu; [|contradiction]. apply andb_true_iff in Eu as [Eu _].
          apply Nat.eqb_eq in Eu. subst v'. destruct He as [<-|[]]. cbn [fst]. lia.
      - (* keys of the neighbourhood of v are smaller than u *)
        rewrite (nth_fold_push T1 _ v Rg1'), nth_repeat. cbn [app].
        apply Forall_forall. intros e He. apply in_flat_map in He as [[[u' v'] b'] [Ht He]].
        rewrite Forall_forall in Bf, L1. pose proof (Bf _ Ht) as Hb. pose proof (L1 _ Ht) as [Hl _].
        unfold before in Hb. cbn [fst snd] in Hb, Hl. unfold contrib in He. apply in_app_or in He as [He|He].
        + destruct (v =? u') eqn:Eu; [|contradiction]. apply Nat.eqb_eq in Eu. subst u'. lia.
        + destruct ((v =? v') && negb (u' =? v')) eqn:Eu; [|contradiction]. apply andb_true_iff in Eu as [Eu _].
          apply Nat.eqb_eq in Eu. subst v'. destruct He as [<-|[]]. cbn [fst]. lia.
    Qed.

    Theorem rebuild_upsert_lowers : rebuild_upsert add id0 (lowers a) = a.
    Proof.
      unfold rebuild_upsert. rewrite fold_upsert_push; [exact (rebuild_lowers a W)|].
      exact calls_appendable.
    Qed.
  End Main.
End Upsert.
