(* C07: the deterministic remainder of the stochastic samplers (from_samples_bqm on whatever
   rows the search produced), IdentitySampler / NullSampler completely, StructureComposite's
   structure test, TrackingComposite, and ExactCQMSolver's feasibility column. *)
From Coq Require Import List ZArith QArith Qcanon Bool Arith Lia.
From Dimod Require Import Base.Util Model.Poly Model.HPoly Model.Samples Model.Comb Model.Feas Model.Solve
  Proofs.PolyFacts Proofs.SamplesFacts Proofs.FeasFacts Proofs.SolveEnum Proofs.SolveComp.
Import ListNotations.
Local Open Scope nat_scope.

(* ------------------------------------------------------------------ *)
(* from_samples_bqm *)

Lemma from_samples_bqm_rows e vars ls rows : r_rows (from_samples_bqm e vars ls rows) = rows.
Proof. destruct rows; reflexivity. Qed.

Lemma from_samples_bqm_labels e vars ls rows :
  r_labels (from_samples_bqm e vars ls rows) = match rows with [] => vars | _ => ls end.
Proof. destruct rows; reflexivity. Qed.

Theorem from_samples_bqm_honest e vars ls rows : honest e (from_samples_bqm e vars ls rows).
Proof. destruct rows; reflexivity. Qed.

(* sorting the labels permutes the columns; the meaning of every row is unchanged *)
Theorem reorder_columns_honest (e : sample -> Qc) vars ls' r :
  (forall s s', (forall v, In v vars -> s v = s' v) -> e s = e s') ->
  (forall v, In v vars -> In v ls') ->
  honest e r -> honest e (reorder_columns ls' r).
Proof.
  intros He Hsub Hh. unfold honest, reorder_columns in *. cbn [r_labels r_rows r_energies].
  rewrite Hh, map_map. apply map_ext. intros row. apply He. intros v Hv.
  unfold row_sample. symmetry. apply reindex_row_value. apply Hsub. exact Hv.
Qed.

(* for ANY rows a search produced, the reported energies are the submitted problem's
   energies of those rows, whatever the (sorted) column order of the sample set *)
Theorem search_agnostic_energy p vars ls ls' rows :
  mentions_only p vars -> (forall v, In v vars -> In v ls') ->
  let out := reorder_columns ls' (from_samples_bqm (energy p) vars ls rows) in
  r_energies out = map (fun row => energy p (row_sample ls row)) rows /\
  honest (energy p) out.
Proof.
  intros Hm Hsub. cbn zeta. split.
  - destruct rows; reflexivity.
  - apply (reorder_columns_honest (energy p) vars); [|exact Hsub|apply from_samples_bqm_honest].
    intros s s' H. apply (energy_depends_on_vars p vars); assumption.
Qed.

(* SimulatedAnnealingSampler: whatever spin rows the annealer ends in *)
Theorem sa_search_agnostic_energy binary vars p ls rows :
  NoDup vars -> mentions_only p vars ->
  (forall v, In v vars -> In v ls) -> (forall row, In row rows -> length row = length ls) ->
  honest (energy p) (sa_sample binary vars p ls rows).
Proof.
  intros Hnd Hm Hsub Hlen. unfold sa_sample. destruct binary.
  - apply sample_binary_via_ising_honest; try assumption.
    + split; assumption.
    + reflexivity.
  - apply sample_same_vartype_honest. reflexivity.
Qed.

Theorem null_sample_spec (e : sample -> Qc) vars :
  honest e (null_sample vars) /\ r_labels (null_sample vars) = vars /\ r_rows (null_sample vars) = [].
Proof. repeat split. Qed.

(* ------------------------------------------------------------------ *)
(* IdentitySampler *)

Definition reads (num_reads : option nat) (k : nat) : nat :=
  match num_reads with Some n => n | None => match k with O => 1 | S j => S j end end.

Lemma identity_sample_unfold g num_reads e vars ls conv init extra :
  identity_sample g num_reads e vars ls conv init extra =
  if negb (same_label_set vars ls) then None
  else if reads num_reads (length init) <? 1 then None
  else match identity_rows g (reads num_reads (length init)) (map conv init) extra with
       | None => None
       | Some rows => Some (from_samples_bqm e vars ls (firstn (reads num_reads (length init)) rows))
       end.
Proof. unfold identity_sample, reads. rewrite map_length. reflexivity. Qed.

Theorem identity_honest g num_reads e vars ls conv init extra r :
  identity_sample g num_reads e vars ls conv init extra = Some r -> honest e r.
Proof.
  rewrite identity_sample_unfold. destruct (negb (same_label_set vars ls)); [discriminate|].
  destruct (_ <? 1); [discriminate|]. destruct (identity_rows _ _ _ _); [|discriminate].
  intros E. inversion E. apply from_samples_bqm_honest.
Qed.

(* the label test of parse_initial_states (bqm.variables ^ initial_states_variables) is a
   SYMMETRIC difference: missing labels and foreign labels are both rejected *)
Theorem same_label_set_symmetric vars ls :
  same_label_set vars ls = true <-> (forall v, In v vars <-> In v ls).
Proof.
  unfold same_label_set. rewrite andb_true_iff, !forallb_forall. split.
  - intros [H1 H2] v. split; intros Hv.
    + apply H1 in Hv. apply existsb_exists in Hv. destruct Hv as [x [Hx E]].
      apply Nat.eqb_eq in E. subst. exact Hx.
    + apply H2 in Hv. apply existsb_exists in Hv. destruct Hv as [x [Hx E]].
      apply Nat.eqb_eq in E. subst. exact Hx.
  - intros H. split; intros v Hv; apply existsb_exists; exists v; (split; [apply H; exact Hv|apply Nat.eqb_refl]).
Qed.

Theorem identity_rejects_foreign_or_missing g num_reads e vars ls conv init extra v :
  (In v ls /\ ~ In v vars) \/ (In v vars /\ ~ In v ls) ->
  identity_sample g num_reads e vars ls conv init extra = None.
Proof.
  intros H. rewrite identity_sample_unfold.
  destruct (same_label_set vars ls) eqn:E; [|reflexivity].
  exfalso. pose proof (proj1 (same_label_set_symmetric vars ls) E v) as E2. tauto.
Qed.

(* exactly when the call is rejected (ValueError) *)
Theorem identity_rejects g num_reads e vars ls conv init extra :
  identity_sample g num_reads e vars ls conv init extra = None <->
  same_label_set vars ls = false \/ reads num_reads (length init) < 1 \/
  (g = GNone /\ length init < reads num_reads (length init)) \/ (g = GTile /\ length init < 1).
Proof.
  rewrite identity_sample_unfold. set (n := reads num_reads (length init)).
  destruct (same_label_set vars ls); cbn [negb]; [|split; [left; reflexivity|reflexivity]].
  destruct (Nat.ltb_spec n 1) as [Hn|Hn]; [split; [right; left; exact Hn|reflexivity]|].
  unfold identity_rows. rewrite map_length. destruct g.
  - destruct (Nat.ltb_spec (length init) n) as [H|H].
    + split; [intros _; right; right; left; split; [reflexivity|exact H]|reflexivity].
    + split; [discriminate|]. intros [E|[E|[[_ E]|[E _]]]]; try discriminate; lia.
  - destruct (Nat.ltb_spec (length init) 1) as [H|H].
    + split; [intros _; right; right; right; split; [reflexivity|exact H]|reflexivity].
    + destruct (n <=? length init); (split; [discriminate|]);
        intros [E|[E|[[E _]|[_ E]]]]; try discriminate; lia.
  - split; [discriminate|]. intros [E|[E|[[E _]|[E _]]]]; try discriminate; lia.
Qed.

Lemma nth_firstn_lt {A} (l : list A) d : forall n i, i < n -> nth i (firstn n l) d = nth i l d.
Proof.
  induction l as [|x l IH]; intros n i Hi; [rewrite firstn_nil; reflexivity|].
  destruct n as [|n]; [lia|]. destruct i as [|i]; [reflexivity|]. cbn [firstn nth]. apply IH. lia.
Qed.

Lemma concat_repeat_length {A} (l : list A) q : length (concat (repeat l q)) = q * length l.
Proof. induction q as [|q IH]; cbn [repeat concat]; [reflexivity|]. rewrite app_length, IH. reflexivity. Qed.

Lemma nth_concat_repeat {A} (l : list A) d q : forall i,
  i < q * length l -> nth i (concat (repeat l q)) d = nth (i mod length l) l d.
Proof.
  induction q as [|q IH]; intros i Hi; [lia|]. cbn [repeat concat].
  assert (Hl : length l <> 0) by (intros E; rewrite E in Hi; lia).
  destruct (Nat.lt_ge_cases i (length l)) as [H|H].
  - rewrite app_nth1 by exact H. rewrite Nat.mod_small by exact H. reflexivity.
  - rewrite app_nth2 by exact H. rewrite IH by (cbn [Nat.mul] in Hi; lia).
    f_equal. replace i with ((i - length l) + 1 * length l) at 2 by lia.
    rewrite Nat.mod_add by exact Hl. reflexivity.
Qed.

(* np.tile + the first `rem` rows: read i is initial state i mod len *)
Lemma tile_rows_spec (rows : list (list Qc)) n d :
  rows <> [] ->
  length (tile_rows n rows) = n /\
  forall i, i < n -> nth i (tile_rows n rows) d = nth (i mod length rows) rows d.
Proof.
  intros Hne. assert (Hl : length rows <> 0) by (destruct rows; [congruence|cbn [length]; lia]).
  unfold tile_rows. pose proof (Nat.div_mod n (length rows) Hl) as Hdm.
  pose proof (Nat.mod_upper_bound n (length rows) Hl) as Hr. split.
  - rewrite app_length, concat_repeat_length, firstn_length. lia.
  - intros i Hi. destruct (Nat.lt_ge_cases i (n / length rows * length rows)) as [H|H].
    + rewrite app_nth1 by (rewrite concat_repeat_length; exact H). apply nth_concat_repeat. exact H.
    + rewrite app_nth2 by (rewrite concat_repeat_length; exact H). rewrite concat_repeat_length.
      rewrite nth_firstn_lt by lia. f_equal.
      rewrite (Nat.mul_comm (n / length rows)) in *.
      apply (Nat.mod_unique i (length rows) (n / length rows)); lia.
Qed.

(* 'none' and 'tile': exactly the given states, read i = (converted) initial state i mod len *)
Theorem identity_none_tile_exact g num_reads e vars ls conv init extra r d :
  g <> GRandom ->
  identity_sample g num_reads e vars ls conv init extra = Some r ->
  let n := reads num_reads (length init) in
  length (r_rows r) = n /\
  forall i, i < n -> nth i (r_rows r) d = nth (i mod length init) (map conv init) d.
Proof.
  intros Hg. rewrite identity_sample_unfold. cbn zeta. set (n := reads num_reads (length init)).
  destruct (negb (same_label_set vars ls)); [discriminate|].
  destruct (Nat.ltb_spec n 1) as [Hn|Hn]; [discriminate|].
  unfold identity_rows. rewrite map_length. destruct g; [| |congruence].
  - destruct (Nat.ltb_spec (length init) n) as [H|H]; [discriminate|]. intros E. inversion E.
    rewrite from_samples_bqm_rows. split; [rewrite firstn_length, map_length; lia|].
    intros i Hi. rewrite nth_firstn_lt by exact Hi. rewrite Nat.mod_small by lia. reflexivity.
  - destruct (Nat.ltb_spec (length init) 1) as [H|H]; [discriminate|].
    destruct (Nat.leb_spec n (length init)) as [H'|H']; intros E; inversion E; rewrite from_samples_bqm_rows.
    + split; [rewrite firstn_length, map_length; lia|].
      intros i Hi. rewrite nth_firstn_lt by exact Hi. rewrite Nat.mod_small by lia. reflexivity.
    + assert (Hne : map conv init <> []) by (destruct init; [cbn [length] in H; lia|discriminate]).
      destruct (tile_rows_spec (map conv init) n d Hne) as [Hlen Hnth]. rewrite map_length in Hnth.
      split; [rewrite firstn_length, Hlen; lia|].
      intros i Hi. rewrite nth_firstn_lt by exact Hi. apply Hnth. exact Hi.
Qed.

(* 'random' (and RandomSampler = no initial states): the given states come first *)
Theorem identity_random_prefix num_reads e vars ls conv init extra r :
  identity_sample GRandom num_reads e vars ls conv init extra = Some r ->
  r_rows r = firstn (reads num_reads (length init)) (map conv init ++ extra).
Proof.
  rewrite identity_sample_unfold. destruct (negb (same_label_set vars ls)); [discriminate|].
  destruct (_ <? 1); [discriminate|]. cbn [identity_rows]. intros E. inversion E.
  apply from_samples_bqm_rows.
Qed.

(* ------------------------------------------------------------------ *)
(* sample_qubo mixin: BinaryQuadraticModel.from_qubo folds self-loops; on binary samples the BQM
   has the energy of the QUBO as written *)
Open Scope Qc_scope.
Lemma from_qubo_fold Q s : respects (fun _ => BINARY) s -> forall p,
  energy (fold_left (fun p t => add_quadratic (fun _ => BINARY) (fst (fst t)) (snd (fst t)) (snd t) p) Q p) s
  = energy p s + quad_energy Q s.
Proof.
  intros Hr. induction Q as [|t Q IH]; intros p; cbn [fold_left].
  - unfold quad_energy. cbn [map qsum]. ring.
  - rewrite IH, energy_add_quadratic by exact Hr. rewrite quad_energy_cons. ring.
Qed.

Theorem from_qubo_energy Q s :
  respects (fun _ => BINARY) s -> energy (from_qubo Q) s = energy (qubo_poly Q) s.
Proof.
  intros Hr. unfold from_qubo. rewrite from_qubo_fold by exact Hr.
  unfold energy, qubo_poly, pzero. cbn [p_off p_lin p_quad]. unfold lin_energy. cbn [map qsum].
  change (quad_energy [] s) with 0. ring.
Qed.
Close Scope Qc_scope.

(* ------------------------------------------------------------------ *)
(* StructureComposite *)

Lemma mem_nat_In v l : mem_nat v l = true <-> In v l.
Proof.
  unfold mem_nat. rewrite existsb_exists. split.
  - intros [x [Hx E]]. apply Nat.eqb_eq in E. subst. exact Hx.
  - intros H. exists v. split; [exact H|apply Nat.eqb_refl].
Qed.

Lemma adjacent_spec edges u v : adjacent edges u v = true <-> In (u, v) edges \/ In (v, u) edges.
Proof.
  unfold adjacent. rewrite existsb_exists. split.
  - intros [[a b] [Hin E]]. unfold same_pair in E. cbn [fst snd] in E.
    apply orb_true_iff in E. destruct E as [E|E]; apply andb_true_iff in E; destruct E as [E1 E2];
      apply Nat.eqb_eq in E1; apply Nat.eqb_eq in E2; subst; [left|right]; exact Hin.
  - intros [H|H]; [exists (u, v)|exists (v, u)]; (split; [exact H|]); unfold same_pair; cbn [fst snd];
      rewrite !Nat.eqb_refl; cbn [andb orb]; [reflexivity|apply orb_true_r].
Qed.

(* accepted exactly when variables are nodes and every interaction is an edge, in either orientation *)
Theorem structured_spec nodes edges vars quad :
  structured nodes edges vars quad = true <->
  (forall v, In v vars -> In v nodes) /\
  (forall u v, In (u, v) quad -> In (u, v) edges \/ In (v, u) edges).
Proof.
  unfold structured. rewrite andb_true_iff, !forallb_forall. split.
  - intros [Hv Hq]. split.
    + intros v Hin. apply mem_nat_In. apply Hv. exact Hin.
    + intros u v Hin. apply adjacent_spec. apply (Hq (u, v)). exact Hin.
  - intros [Hv Hq]. split.
    + intros v Hin. apply mem_nat_In. apply Hv. exact Hin.
    + intros [u v] Hin. apply adjacent_spec. apply Hq. exact Hin.
Qed.

(* an accepted BQM goes to the child unchanged and the child's result comes back unchanged;
   a rejected one never reaches the child (the outcome does not depend on the child) *)
Theorem structure_sample_spec {I} nodes edges vars quad (child : I -> result) (bqm : I) :
  (structured nodes edges vars quad = true ->
     structure_sample nodes edges vars quad child bqm = Some (child bqm)) /\
  (structured nodes edges vars quad = false ->
     forall child' : I -> result, structure_sample nodes edges vars quad child' bqm = None).
Proof.
  unfold structure_sample. split; intros H; [|intros child']; rewrite H; reflexivity.
Qed.

(* ------------------------------------------------------------------ *)
(* TrackingComposite *)

Theorem tracking_sample_spec {I} (t : tracker I) (child : I -> result) (inp : I) :
  snd (tracking_sample t child inp) = child inp /\
  t_inputs (fst (tracking_sample t child inp)) = t_inputs t ++ [inp] /\
  t_outputs (fst (tracking_sample t child inp)) = t_outputs t ++ [child inp].
Proof. repeat split. Qed.

(* ------------------------------------------------------------------ *)
(* ExactCQMSolver: is_feasible is the hard-constraint definition on the enumeration *)
Open Scope Qc_scope.

Theorem exact_cqm_feasible_column atol rtol (m : cqm) order sizes doms garb :
  let cases := cqm_case_samples order sizes doms in
  v_is_feasible (exact_cqm_solver atol rtol m cases garb) = map (feasible atol rtol m) cases /\
  length (v_is_feasible (exact_cqm_solver atol rtol m cases garb)) = length (all_cases_cqm sizes doms) /\
  (forall s, feasible atol rtol m s = true <->
             forall k, In k (m_cons m) -> is_hard k = true -> satisfied atol rtol k s = true).
Proof.
  cbn zeta. unfold exact_cqm_solver. rewrite from_samples_cqm_spec. cbn [v_is_feasible].
  split; [reflexivity|]. split; [unfold cqm_case_samples; rewrite !map_length; reflexivity|].
  intros s. unfold feasible. rewrite forallb_forall. split.
  - intros H k Hk Hh. apply H. apply filter_In. split; assumption.
  - intros H k Hk. apply filter_In in Hk. destruct Hk as [Hk Hh]. apply H; assumption.
Qed.
