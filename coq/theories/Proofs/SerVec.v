(* C11 - the vector form of a BQM: from_vectors (to_vectors n p) has the energy of p *)
From Coq Require Import List ZArith NArith QArith Qcanon Bool Arith Lia.
From Dimod Require Import Base.Util Model.Poly Model.Ser Proofs.PolyFacts Proofs.CoeffSound.
Import ListNotations.
Open Scope Qc_scope.

Lemma lin_energy_combine (f : nat -> Qc) l s :
  lin_energy (combine l (map f l)) s = qsum (map (fun v => f v * s v) l).
Proof.
  induction l as [|v l IH]; [reflexivity|].
  cbn [map combine]. rewrite lin_energy_cons. cbn [fst snd qsum]. rewrite IH. reflexivity.
Qed.

Lemma quad_energy_flat_map {A} (F : A -> list qterm) l s :
  quad_energy (flat_map F l) s = qsum (map (fun u => quad_energy (F u) s) l).
Proof.
  induction l as [|u l IH]; [reflexivity|].
  cbn [flat_map map qsum]. rewrite quad_energy_app, IH. reflexivity.
Qed.

Lemma has_pair_false_coeff q u v : has_pair q u v = false -> quad_coeff q u v = 0.
Proof.
  unfold has_pair, quad_coeff. induction q as [|t q IH]; [reflexivity|].
  cbn [existsb filter]. intros H. apply orb_false_iff in H. destruct H as [H1 H2].
  rewrite H1. apply IH. exact H2.
Qed.

(* the entry list of to_vectors, as a double sum with an indicator *)
Definition ind (b : bool) (x : Qc) : Qc := if b then x else 0.

Lemma entry_energy p u v s :
  quad_energy (if (u <? v)%nat && has_pair (p_quad p) u v then [(u, v, quad_coeff (p_quad p) u v)] else []) s
  = ind (u <? v)%nat (quad_coeff (p_quad p) u v * s u * s v).
Proof.
  destruct (u <? v)%nat; cbn [andb ind].
  - destruct (has_pair (p_quad p) u v) eqn:H.
    + unfold quad_energy, qterm_val. cbn [map qsum fst snd]. ring.
    + rewrite (has_pair_false_coeff _ _ _ H). unfold quad_energy. cbn [map qsum]. ring.
  - reflexivity.
Qed.

Lemma qsum_map_ind_false {A} (c : A -> bool) (g : A -> Qc) l :
  (forall x, In x l -> c x = false) -> qsum (map (fun x => ind (c x) (g x)) l) = 0.
Proof.
  intros H. induction l as [|x l IH]; [reflexivity|].
  cbn [map qsum]. rewrite (H x (or_introl eq_refl)). cbn [ind].
  rewrite IH; [ring | intros y Hy; apply H; right; exact Hy].
Qed.

Lemma qsum_map_ind_true {A} (c : A -> bool) (g : A -> Qc) l :
  (forall x, In x l -> c x = true) -> qsum (map (fun x => ind (c x) (g x)) l) = qsum (map g l).
Proof.
  intros H. induction l as [|x l IH]; [reflexivity|].
  cbn [map qsum]. rewrite (H x (or_introl eq_refl)). cbn [ind].
  rewrite IH; [reflexivity | intros y Hy; apply H; right; exact Hy].
Qed.

(* sum over ordered pairs u < v  =  sum over pairs v < u, for a symmetric summand *)
Lemma pair_sum_swap (g : nat -> nat -> Qc) : (forall u v, g u v = g v u) -> forall n,
  qsum (map (fun u => qsum (map (fun v => ind (u <? v)%nat (g u v)) (seq 0 n))) (seq 0 n))
  = qsum (map (fun u => qsum (map (fun v => g u v) (seq 0 u))) (seq 0 n)).
Proof.
  intros Hs. induction n as [|n IH]; [reflexivity|].
  rewrite seq_S. cbn [plus]. rewrite !map_app, !qsum_app. cbn [map qsum].
  rewrite <- IH.
  assert (E1 : qsum (map (fun u => qsum (map (fun v => ind (u <? v)%nat (g u v)) (seq 0 n ++ [n]))) (seq 0 n))
             = qsum (map (fun u => qsum (map (fun v => ind (u <? v)%nat (g u v)) (seq 0 n))) (seq 0 n))
               + qsum (map (fun u => g u n) (seq 0 n))).
  { rewrite <- qsum_map_add. apply qsum_map_ext_in. intros u Hu.
    rewrite map_app, qsum_app. cbn [map qsum]. apply in_seq in Hu.
    rewrite (proj2 (Nat.ltb_lt u n)) by lia. cbn [ind]. ring. }
  rewrite E1.
  assert (E2 : qsum (map (fun v => ind (n <? v)%nat (g n v)) (seq 0 n ++ [n])) = 0).
  { apply qsum_map_ind_false. intros v Hv. apply Nat.ltb_ge.
    apply in_app_or in Hv. destruct Hv as [Hv | [Hv | []]]; [apply in_seq in Hv; lia | lia]. }
  rewrite E2.
  assert (E3 : qsum (map (fun u => g u n) (seq 0 n)) = qsum (map (fun v => g n v) (seq 0 n))).
  { apply qsum_map_ext_in. intros u _. apply Hs. }
  rewrite E3. ring.
Qed.

Definition no_selfloops (p : poly) : Prop := forall t, In t (p_quad p) -> fst (fst t) <> snd (fst t).

Lemma no_selfloops_diag p u : no_selfloops p -> quad_coeff (p_quad p) u u = 0.
Proof.
  intros H. unfold quad_coeff. unfold no_selfloops in H.
  induction (p_quad p) as [|t q IH]; [reflexivity|].
  cbn [filter]. destruct (same_pair u u (fst (fst t)) (snd (fst t))) eqn:E.
  - exfalso. apply (H t (or_introl eq_refl)). unfold same_pair in E.
    apply orb_true_iff in E. destruct E as [E | E]; apply andb_true_iff in E; destruct E as [E1 E2];
      apply Nat.eqb_eq in E1; apply Nat.eqb_eq in E2; congruence.
  - apply IH. intros t' Ht'. apply H. right. exact Ht'.
Qed.

Theorem bqm_vectors_roundtrip n p s :
  labels_below n p -> no_selfloops p ->
  energy (from_vectors (to_vectors n p)) s = energy p s.
Proof.
  intros Hb Hn. rewrite (energy_grouped n p s Hb).
  unfold from_vectors, to_vectors, energy. cbn [v_lin v_quad v_off p_off p_lin p_quad].
  rewrite map_length, seq_length, lin_energy_combine.
  f_equal.
  rewrite quad_energy_flat_map.
  transitivity (qsum (map (fun u => qsum (map (fun v =>
      ind (u <? v)%nat (quad_coeff (p_quad p) u v * s u * s v)) (seq 0 n))) (seq 0 n))).
  { apply qsum_map_ext_in. intros u _. rewrite quad_energy_flat_map.
    apply qsum_map_ext_in. intros v _. apply entry_energy. }
  rewrite (pair_sum_swap (fun u v => quad_coeff (p_quad p) u v * s u * s v)).
  - apply qsum_map_ext_in. intros u _. rewrite seq_S. cbn [plus].
    rewrite map_app, qsum_app. cbn [map qsum]. rewrite (no_selfloops_diag p u Hn). ring.
  - intros u v. rewrite (quad_coeff_sym (p_quad p) u v). ring.
Qed.

(* the vectors themselves: one linear entry per index, every interaction once with row < col *)
Theorem to_vectors_shape n p :
  length (v_lin (to_vectors n p)) = n /\
  Forall (fun t => (fst (fst t) < snd (fst t))%nat /\ (snd (fst t) < n)%nat) (v_quad (to_vectors n p)) /\
  v_off (to_vectors n p) = p_off p.
Proof.
  unfold to_vectors. cbn [v_lin v_quad v_off]. split; [rewrite map_length; apply seq_length|].
  split; [|reflexivity].
  apply Forall_forall. intros t Ht. apply in_flat_map in Ht. destruct Ht as [u [Hu Ht]].
  apply in_flat_map in Ht. destruct Ht as [v [Hv Ht]].
  destruct ((u <? v)%nat && has_pair (p_quad p) u v) eqn:E; [|contradiction].
  destruct Ht as [Ht | []]. subst t. cbn [fst snd].
  apply andb_true_iff in E. destruct E as [E _]. apply Nat.ltb_lt in E.
  apply in_seq in Hv. lia.
Qed.

(* with labels: `idx` numbers the labels in the chosen variable order (sorted or not - the
   statement holds for every order), `lab` is the label list read as a function *)
Theorem bqm_vectors_roundtrip_labelled n (idx lab : nat -> nat) p s :
  (forall l, lab (idx l) = l) ->
  labels_below n (relabel idx p) -> no_selfloops p ->
  energy (relabel lab (from_vectors (to_vectors n (relabel idx p)))) s = energy p s.
Proof.
  intros Hinv Hb Hn. rewrite energy_relabel.
  rewrite bqm_vectors_roundtrip; [|exact Hb|].
  - rewrite energy_relabel. apply energy_ext. intros w. rewrite Hinv. reflexivity.
  - intros t Ht. unfold relabel in Ht. cbn [p_quad] in Ht.
    apply in_map_iff in Ht. destruct Ht as [t0 [E H0]]. subst t. cbn [fst snd].
    intros E. apply (Hn t0 H0). rewrite <- (Hinv (fst (fst t0))), <- (Hinv (snd (fst t0))), E. reflexivity.
Qed.
