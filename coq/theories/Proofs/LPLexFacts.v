(* C12 - the reader's tokenizer (Model/LPLex.v) on the text the writer produces: the tokenizer looks
   ahead only up to the next blank, so a text made of blank-separated words is tokenized word by word,
   wherever the line breaks fall; the words the writer emits (labels, decimal numerals, the fixed
   words) are tokenized into exactly the raw tokens they stand for. *)
From Coq Require Import List ZArith NArith QArith Qcanon Bool Arith Lia.
From Dimod Require Import Base.Util Model.Poly Model.LP Model.LPTok Model.LPRead Model.LPLex Gen.Gen_LP
  Proofs.LPFacts Proofs.LPReadFacts Proofs.LPTokFacts.
Import ListNotations.

Lemma single_table_matches_source : map fst single_table = SINGLE_CHAR_TOKENS.
Proof. reflexivity. Qed.

(* ------------------------------------------------------------------ *)
(* blanks *)

(* a blank for the reader, or the colon *)
Definition stopc (b : N) : bool := rblank b || N.eqb b 58.

Lemma stopc_cases b : stopc b = true -> b = 10%N \/ b = 32%N \/ b = 9%N \/ b = 58%N.
Proof.
  unfold stopc, rblank, memN, BLANK_CHARS, NL. cbn [existsb]. intros H.
  apply orb_true_iff in H. destruct H as [H|H]; [|apply N.eqb_eq in H; auto].
  apply orb_true_iff in H. destruct H as [H|H]; [apply N.eqb_eq in H; auto|].
  apply orb_true_iff in H. destruct H as [H|H]; [apply N.eqb_eq in H; auto|].
  apply orb_true_iff in H. destruct H as [H|H]; [apply N.eqb_eq in H; auto|discriminate].
Qed.

(* the rest of the text: nothing, or something that starts with a blank or a colon *)
Definition stop (rest : text) : Prop :=
  match rest with [] => True | b :: _ => stopc b = true end.

Ltac blank_cases H b :=
  destruct (stopc_cases b H) as [-> | [-> | [-> | ->]]].

Lemma span_digits_app u rest : stop rest -> span_digits (u ++ rest) = span_digits u.
Proof.
  intros S. induction u as [|c u IH]; cbn [app span_digits].
  - destruct rest as [|b r]; [reflexivity|]. cbn in S. blank_cases S b; reflexivity.
  - rewrite IH. reflexivity.
Qed.

Lemma after_digits_app u rest : stop rest -> after_digits (u ++ rest) = after_digits u ++ rest.
Proof.
  intros S. induction u as [|c u IH]; cbn [app after_digits].
  - destruct rest as [|b r]; [reflexivity|]. cbn in S. blank_cases S b; reflexivity.
  - destruct (is_digitN c); [exact IH | reflexivity].
Qed.

Lemma span_exponent_app u rest : stop rest -> span_exponent (u ++ rest) = span_exponent u.
Proof.
  intros S. destruct u as [|c u]; cbn [app].
  - destruct rest as [|b r]; [reflexivity|]. cbn in S. blank_cases S b; reflexivity.
  - unfold span_exponent. destruct (is_e c); [|reflexivity].
    destruct u as [|d u]; cbn [app].
    + destruct rest as [|b r]; [reflexivity|]. cbn in S. blank_cases S b; reflexivity.
    + destruct (is_sign d).
      * rewrite (span_digits_app u rest S). reflexivity.
      * change (d :: u ++ rest) with ((d :: u) ++ rest). rewrite (span_digits_app (d :: u) rest S). reflexivity.
Qed.

Lemma span_decimal_app u rest : stop rest -> span_decimal (u ++ rest) = span_decimal u.
Proof.
  intros S. unfold span_decimal. rewrite (span_digits_app u rest S), (after_digits_app u rest S).
  destruct (after_digits u) as [|c r] eqn:A; cbn [app].
  - destruct rest as [|b r']; [reflexivity|]. cbn in S.
    blank_cases S b; cbn [N.eqb Pos.eqb]; destruct (span_digits u); cbn; try reflexivity; try lia.
  - destruct (N.eqb c 46).
    + rewrite (span_digits_app r rest S), (after_digits_app r rest S).
      destruct (span_digits u), (span_digits r); cbn [app];
        try rewrite (span_exponent_app _ rest S); try reflexivity.
    + change (c :: r ++ rest) with ((c :: r) ++ rest).
      destruct (span_digits u); [reflexivity|]. rewrite (span_exponent_app _ rest S). reflexivity.
Qed.

(* ------------------------------------------------------------------ *)
(* the span never passes the end of the text *)

Lemma digits_split s : (span_digits s + length (after_digits s) = length s)%nat.
Proof.
  induction s as [|c s IH]; [reflexivity|]. cbn [span_digits after_digits].
  destruct (is_digitN c); cbn [length]; lia.
Qed.

Lemma span_exponent_le s : (span_exponent s <= length s)%nat.
Proof.
  destruct s as [|c s]; [cbn; lia|]. unfold span_exponent. destruct (is_e c); [|lia].
  destruct s as [|d s]; [cbn; lia|]. destruct (is_sign d).
  - pose proof (digits_split s). destruct (span_digits s); cbn [length]; lia.
  - pose proof (digits_split (d :: s)). destruct (span_digits (d :: s)); cbn [length] in *; lia.
Qed.

Lemma span_decimal_le s : (span_decimal s <= length s)%nat.
Proof.
  unfold span_decimal. pose proof (digits_split s) as D.
  destruct (after_digits s) as [|c r] eqn:A.
  - destruct (span_digits s); cbn [length] in *; cbn; lia.
  - destruct (N.eqb c 46).
    + pose proof (digits_split r) as D2. pose proof (span_exponent_le (after_digits r)) as E.
      destruct (span_digits s), (span_digits r); cbn [length Nat.add] in *; try lia.
      all: rewrite ?Nat.add_0_r, ?Nat.add_1_r; cbn [Nat.add]; try lia.
      all: match goal with |- (match ?x with O => _ | S _ => _ end <= _)%nat => destruct x eqn:EE; lia end.
    + pose proof (span_exponent_le (c :: r)) as E. destruct (span_digits s); cbn [length] in *; lia.
Qed.

Lemma prefixb_length w s : prefixb w s = true -> (length w <= length s)%nat.
Proof.
  revert s. induction w as [|a w IH]; intros s H; [cbn; lia|].
  destruct s as [|b s]; [discriminate|]. cbn [prefixb] in H. apply andb_true_iff in H.
  destruct H as [_ H]. apply IH in H. cbn [length]. lia.
Qed.

Lemma lower_text_length s : length (lower_text s) = length s.
Proof. apply map_length. Qed.

Lemma strtod_span_le s : (strtod_span s <= length s)%nat.
Proof.
  unfold strtod_span.
  assert (F : forall w, prefixb w (lower_text (firstn 8 s)) = true -> (length w <= length s)%nat).
  { intros w H. apply prefixb_length in H. rewrite lower_text_length, firstn_length in H. lia. }
  destruct (prefixb w_infinity _) eqn:E1; [exact (F _ E1)|].
  destruct (prefixb w_inf _) eqn:E2; [exact (F _ E2)|].
  destruct (prefixb w_nan _) eqn:E3; [exact (F _ E3)|].
  apply span_decimal_le.
Qed.

(* ------------------------------------------------------------------ *)
(* the other look-aheads *)

Definition no_blank_char (a : N) : Prop := a <> 10%N /\ a <> 32%N /\ a <> 9%N /\ a <> 58%N.

Lemma prefixb_firstn_app w : Forall no_blank_char w -> forall n u rest, stop rest ->
  prefixb w (lower_text (firstn n (u ++ rest))) = prefixb w (lower_text (firstn n u)).
Proof.
  intros Hw. induction Hw as [|a w Ha Hw IH]; intros n u rest S; [reflexivity|].
  destruct n as [|n]; [reflexivity|]. destruct u as [|c u]; cbn [app].
  - destruct rest as [|b r]; [reflexivity|]. cbn in S. cbn [firstn lower_text map prefixb].
    destruct Ha as [A1 [A2 [A3 A4]]].
    blank_cases S b; cbn [lower]; match goal with |- (N.eqb a ?k && _) = _ =>
      destruct (N.eqb_spec a k) as [E|E]; [contradiction|reflexivity] end.
  - cbn [firstn lower_text map prefixb]. fold (lower_text (firstn n (u ++ rest))). fold (lower_text (firstn n u)).
    rewrite (IH n u rest S). reflexivity.
Qed.

Lemma strtod_span_app u rest : stop rest -> strtod_span (u ++ rest) = strtod_span u.
Proof.
  intros S. unfold strtod_span.
  assert (W : forall w, In w [w_infinity; w_inf; w_nan] -> Forall no_blank_char w).
  { intros w [<-|[<-|[<-|[]]]]; repeat constructor; discriminate. }
  rewrite (prefixb_firstn_app w_infinity (W _ (or_introl eq_refl)) 8 u rest S).
  rewrite (prefixb_firstn_app w_inf (W _ (or_intror (or_introl eq_refl))) 8 u rest S).
  rewrite (prefixb_firstn_app w_nan (W _ (or_intror (or_intror (or_introl eq_refl)))) 8 u rest S).
  rewrite (span_decimal_app u rest S). reflexivity.
Qed.

Lemma take_ident_fst_app u rest : stop rest -> fst (take_ident (u ++ rest)) = fst (take_ident u).
Proof.
  intros S. induction u as [|c u IH]; cbn [app].
  - destruct rest as [|b r]; [reflexivity|]. cbn in S. blank_cases S b; reflexivity.
  - cbn [take_ident]. destruct (memN c IDENT_DELIMS); [reflexivity|].
    destruct (take_ident (u ++ rest)), (take_ident u). cbn [fst] in *. rewrite IH. reflexivity.
Qed.

Lemma is_hex_start_app c u rest : stop rest -> is_hex_start ((c :: u) ++ rest) = is_hex_start (c :: u).
Proof.
  intros S. destruct u as [|d u]; [|reflexivity]. cbn [app].
  destruct rest as [|b r]; [reflexivity|]. cbn in S. unfold is_hex_start.
  blank_cases S b; cbn; apply andb_false_r.
Qed.

Lemma firstn_span_app u rest : firstn (strtod_span u) (u ++ rest) = firstn (strtod_span u) u.
Proof.
  rewrite firstn_app. pose proof (strtod_span_le u) as L.
  replace (strtod_span u - length u)%nat with O by lia. cbn [firstn]. apply app_nil_r.
Qed.

(* ------------------------------------------------------------------ *)
(* the tokenizer on u ++ rest, when rest is empty or starts with a blank: u, then rest *)

Definition then_lx (r1 : option (list rawtok * lmode)) (rest : text) : option (list rawtok * lmode) :=
  match r1 with
  | Some (x, m') => match lx m' rest with Some (y, e) => Some (x ++ y, e) | None => None end
  | None => None
  end.

Definition emit_tok (t : rawtok) (r : option (list rawtok * lmode)) : option (list rawtok * lmode) :=
  match r with Some (x, e) => Some (t :: x, e) | None => None end.

Lemma lx_start_eq c r :
  lx (LTok 0) (c :: r) =
    if N.eqb c NL then lx (LTok 0) r
    else if memN c SKIP_LINE_CHARS then lx LDrop r
    else match single_tok c with
         | Some t => emit_tok t (lx (LTok 0) r)
         | None =>
             if memN c BLANK_CHARS then lx (LTok 0) r
             else if is_hex_start (c :: r) then None
             else match strtod_span (c :: r) with
                  | S k => emit_tok (RCons (firstn (S k) (c :: r))) (lx (LTok k) r)
                  | O => match fst (take_ident (c :: r)) with
                         | [] => None
                         | (_ :: w') as w => emit_tok (RStr w) (lx (LTok (length w')) r)
                         end
                  end
         end.
Proof. reflexivity. Qed.

Lemma then_emit t r1 rest : then_lx (emit_tok t r1) rest = emit_tok t (then_lx r1 rest).
Proof.
  destruct r1 as [[x m']|]; [|reflexivity]. cbn [emit_tok then_lx].
  destruct (lx m' rest) as [[y e]|]; reflexivity.
Qed.

Lemma lx_app u : forall m rest, stop rest -> lx m (u ++ rest) = then_lx (lx m u) rest.
Proof.
  induction u as [|c u IH]; intros m rest S.
  - cbn [app lx then_lx]. destruct (lx m rest) as [[y e]|]; reflexivity.
  - destruct m as [[|k]|].
    + change ((c :: u) ++ rest) with (c :: (u ++ rest)).
      rewrite (lx_start_eq c (u ++ rest)), (lx_start_eq c u).
      change (c :: (u ++ rest)) with ((c :: u) ++ rest).
      rewrite (is_hex_start_app c u rest S), (strtod_span_app (c :: u) rest S), (take_ident_fst_app (c :: u) rest S).
      destruct (N.eqb c NL); [apply IH; exact S|].
      destruct (memN c SKIP_LINE_CHARS); [apply IH; exact S|].
      destruct (single_tok c) as [t|]; [rewrite then_emit, IH by exact S; reflexivity|].
      destruct (memN c BLANK_CHARS); [apply IH; exact S|].
      destruct (is_hex_start (c :: u)); [reflexivity|].
      destruct (strtod_span (c :: u)) as [|k] eqn:E.
      * destruct (fst (take_ident (c :: u))) as [|a w']; [reflexivity|].
        rewrite then_emit, IH by exact S. reflexivity.
      * rewrite <- E, firstn_span_app, E. rewrite then_emit, IH by exact S. reflexivity.
    + cbn [app lx]. apply IH. exact S.
    + cbn [app lx]. apply IH. exact S.
Qed.

(* ------------------------------------------------------------------ *)
(* a text is tokenized word by word *)

(* tokenizing the word on its own ends at a token start (no line is being discarded) *)
Definition closed_word (w : text) : Prop := exists x, lx (LTok 0) w = Some (x, LTok 0).

Definition word_toks (w : text) : list rawtok :=
  match lx (LTok 0) w with Some (x, _) => x | None => [] end.

Lemma word_toks_eq w x m : lx (LTok 0) w = Some (x, m) -> word_toks w = x.
Proof. intros H. unfold word_toks. rewrite H. reflexivity. Qed.

Lemma is_blank_stop c r : is_blank c = true -> stop (c :: r).
Proof.
  unfold is_blank, stop, stopc, rblank, NL, SP. intros H. apply orb_true_iff in H.
  destruct H as [H|H]; apply N.eqb_eq in H; subst c; reflexivity.
Qed.

Lemma lx_blank c r : is_blank c = true -> lx (LTok 0) (c :: r) = lx (LTok 0) r.
Proof.
  unfold is_blank, NL, SP. intros H. apply orb_true_iff in H.
  destruct H as [H|H]; apply N.eqb_eq in H; subst c; rewrite lx_start_eq; reflexivity.
Qed.

Lemma lx_tok s : forall cur, Forall closed_word (tok cur s) ->
  lx (LTok 0) (rev cur ++ s) = Some (flat_map word_toks (tok cur s), LTok 0).
Proof.
  induction s as [|c s IH]; intros cur H.
  - rewrite app_nil_r. cbn [tok] in *. destruct cur as [|a cur]; [reflexivity|].
    inversion H as [|? ? [x Hx] _]; subst. cbn [flat_map rev] in *. unfold word_toks. rewrite Hx, app_nil_r. reflexivity.
  - cbn [tok] in *. destruct (is_blank c) eqn:B.
    + destruct cur as [|a cur].
      * cbn [rev app]. rewrite (lx_blank c s B). exact (IH [] H).
      * inversion H as [|? ? [x Hx] Hr]; subst. cbn [rev] in *.
        rewrite (lx_app _ (LTok 0) (c :: s) (is_blank_stop c s B)), Hx. cbn [then_lx].
        rewrite (lx_blank c s B). pose proof (IH [] Hr) as E. cbn [rev app] in E. rewrite E.
        cbn [flat_map]. rewrite (word_toks_eq _ _ _ Hx). reflexivity.
    + pose proof (IH (c :: cur) H) as E. cbn [rev] in E. rewrite <- app_assoc in E. exact E.
Qed.

Theorem lex_by_words s :
  Forall closed_word (tokens s) -> lex_text s = Some (flat_map word_toks (tokens s)).
Proof.
  intros H. unfold lex_text, tokens in *. pose proof (lx_tok s [] H) as E. cbn [rev app] in E.
  rewrite E. reflexivity.
Qed.

(* the text the writer produces: words written with a blank behind them, lines broken by
   _WidthLimitedFile at any column *)
Theorem lex_written_text (render : token -> text) ts :
  (forall t, no_blank (render t)) -> (forall t, closed_word (render t)) ->
  lex_text (wrap (writes_of render ts)) = Some (flat_map (fun t => word_toks (render t)) ts).
Proof.
  intros Hn Hc.
  assert (T : tokens (wrap (writes_of render ts)) = map render ts).
  { rewrite (wrap_preserves_tokens _ (writes_sealed render _ Hn)). apply tokens_writes. exact Hn. }
  rewrite lex_by_words; rewrite T.
  - rewrite flat_map_concat_map, map_map, <- flat_map_concat_map. reflexivity.
  - apply Forall_forall. intros w Hw. apply in_map_iff in Hw. destruct Hw as [t [<- _]]. apply Hc.
Qed.

(* ------------------------------------------------------------------ *)
(* the words the writer emits *)

Lemma lx_skip t : lx (LTok (length t)) t = Some ([], LTok 0).
Proof. induction t as [|c t IH]; [reflexivity|]. cbn [length lx]. exact IH. Qed.

Lemma single_tok_none c : memN c SINGLE_CHAR_TOKENS = false -> single_tok c = None.
Proof.
  intros H. unfold single_tok. destruct (find _ single_table) as [p|] eqn:F; [|reflexivity].
  apply find_some in F. destruct F as [Hin E]. apply N.eqb_eq in E. subst c.
  assert (M : memN (fst p) SINGLE_CHAR_TOKENS = true).
  { apply memN_spec. rewrite <- single_table_matches_source. apply in_map. exact Hin. }
  rewrite M in H. discriminate.
Qed.

(* raw level: the first character does not discard the line and strtod takes nothing *)
Definition raw_safe (s : text) : bool :=
  match s with
  | [] => false
  | c :: _ => negb (memN c SKIP_LINE_CHARS) && negb (existsb (fun w => prefixb w (lower_text s)) strtod_words)
  end.

Lemma label_safe_raw r s : label_safe r s = true -> raw_safe s = true.
Proof.
  unfold label_safe, raw_safe. destruct s as [|c t]; [exact (fun H => H)|]. intros H.
  apply andb_true_iff in H. destruct H as [H _]. apply andb_true_iff in H. destruct H as [H _]. exact H.
Qed.

Lemma prefixb_firstn w : forall n s, (length w <= n)%nat -> prefixb w (firstn n s) = prefixb w s.
Proof.
  induction w as [|a w IH]; intros n s L; [reflexivity|].
  destruct n as [|n]; [cbn in L; lia|]. destruct s as [|b s]; [reflexivity|].
  cbn [firstn prefixb]. rewrite IH by (cbn in L; lia). reflexivity.
Qed.

Lemma prefixb_app a b s : prefixb (a ++ b) s = true -> prefixb a s = true.
Proof.
  revert s. induction a as [|x a IH]; intros s H; [reflexivity|].
  destruct s as [|y s]; [discriminate|]. cbn [app prefixb] in *. apply andb_true_iff in H.
  destruct H as [E H]. rewrite E, (IH s H). reflexivity.
Qed.

Lemma lower_text_firstn n s : lower_text (firstn n s) = firstn n (lower_text s).
Proof. unfold lower_text. symmetry. apply firstn_map. Qed.

Lemma strtod_span_no_word s :
  existsb (fun w => prefixb w (lower_text s)) strtod_words = false -> strtod_span s = span_decimal s.
Proof.
  unfold strtod_words. cbn [existsb]. intros H. apply orb_false_iff in H. destruct H as [H1 H].
  apply orb_false_iff in H. destruct H as [H2 _]. unfold strtod_span. rewrite lower_text_firstn.
  change [105; 110; 102]%N with w_inf in H1. change [110; 97; 110]%N with w_nan in H2.
  rewrite (prefixb_firstn w_inf 8 _ ltac:(cbn; lia)), (prefixb_firstn w_nan 8 _ ltac:(cbn; lia)), H1, H2.
  destruct (prefixb w_infinity (firstn 8 (lower_text s))) eqn:E; [|reflexivity].
  rewrite (prefixb_firstn w_infinity 8 _ ltac:(cbn; lia)) in E.
  change w_infinity with (w_inf ++ [105; 110; 105; 116; 121]%N) in E. apply prefixb_app in E.
  rewrite E in H1. discriminate.
Qed.

(* a label the writer accepts, not in the reported defect regions, is ONE identifier token *)
Theorem lx_label s :
  validate_label (Some s) = true -> raw_safe s = true -> lx (LTok 0) s = Some ([RStr s], LTok 0).
Proof.
  intros Hv Hs. destruct s as [|c t]; [discriminate|].
  pose proof (valid_label_chars _ Hv) as Hall.
  assert (Hc : valid_char c = true) by (cbn [forallb] in Hall; apply andb_true_iff in Hall; apply Hall).
  cbn [validate_label] in Hv. apply andb_true_iff in Hv. destruct Hv as [_ H3]. apply negb_true_iff in H3.
  pose proof (valid_char_forall _ alphabet_vs_tokenizer c Hc) as P.
  apply andb_true_iff in P. destruct P as [P Pb]. apply andb_true_iff in P. destruct P as [Pd Ps].
  apply negb_true_iff in Pb. apply negb_true_iff in Ps. apply negb_true_iff in Pd.
  pose proof (valid_char_forall _ alphabet_first_vs_strtod c Hc) as Q. cbv beta in Q. rewrite H3 in Q. cbn [orb] in Q.
  apply andb_true_iff in Q. destruct Q as [Qd Qp]. apply negb_true_iff in Qd. apply negb_true_iff in Qp.
  unfold raw_safe in Hs. apply andb_true_iff in Hs. destruct Hs as [Hk Hw].
  apply negb_true_iff in Hk. apply negb_true_iff in Hw.
  assert (Hnl : N.eqb c NL = false).
  { destruct (N.eqb_spec c NL) as [E|E]; [|reflexivity]. subst c. discriminate Pd. }
  assert (Hhex : is_hex_start (c :: t) = false).
  { unfold is_hex_start. destruct t as [|d t']; [reflexivity|].
    destruct (N.eqb_spec c 48) as [E|E]; [subst c; discriminate Qd | reflexivity]. }
  assert (Hspan : strtod_span (c :: t) = O).
  { rewrite (strtod_span_no_word _ Hw). unfold span_decimal. cbn [span_digits after_digits].
    rewrite Qd, Qp. reflexivity. }
  rewrite lx_start_eq, Hnl, Hk, (single_tok_none c Ps), Pb, Hhex, Hspan, (take_ident_valid (c :: t) Hall).
  cbn [fst]. rewrite lx_skip. reflexivity.
Qed.

(* ... and `label:` is that identifier and a colon *)
Theorem lx_label_colon s :
  validate_label (Some s) = true -> raw_safe s = true ->
  lx (LTok 0) (s ++ [58%N]) = Some ([RStr s; RColon], LTok 0).
Proof.
  intros Hv Hs. rewrite (lx_app s (LTok 0) [58%N] eq_refl), (lx_label s Hv Hs). reflexivity.
Qed.

(* decimal numerals: digits [. digits] [e [sign] digits], starting with a digit, not 0x *)
Definition decimal_word (w : text) : Prop :=
  (exists c t, w = c :: t /\ is_digitN c = true) /\ span_decimal w = length w /\ is_hex_start w = false.

Lemma digit_cases c : is_digitN c = true ->
  In c [48; 49; 50; 51; 52; 53; 54; 55; 56; 57]%N.
Proof.
  unfold is_digitN. intros H. apply andb_true_iff in H. destruct H as [A B].
  apply N.leb_le in A. apply N.leb_le in B. cbn [In].
  assert (c = 48 \/ c = 49 \/ c = 50 \/ c = 51 \/ c = 52 \/ c = 53 \/ c = 54 \/ c = 55 \/ c = 56 \/ c = 57)%N by lia.
  intuition auto.
Qed.

Lemma digit_start c : is_digitN c = true ->
  N.eqb c NL = false /\ memN c SKIP_LINE_CHARS = false /\ single_tok c = None /\ memN c BLANK_CHARS = false.
Proof.
  intros Hd. destruct (digit_cases c Hd) as [<-|[<-|[<-|[<-|[<-|[<-|[<-|[<-|[<-|[<-|[]]]]]]]]]]];
    repeat split; reflexivity.
Qed.

Theorem lx_decimal w : decimal_word w -> lx (LTok 0) w = Some ([RCons w], LTok 0).
Proof.
  intros [[c [t [-> Hd]]] [Hspan Hhex]].
  assert (Hstr : strtod_span (c :: t) = span_decimal (c :: t)).
  { apply strtod_span_no_word. unfold strtod_words. cbn [existsb lower_text map prefixb].
    destruct (digit_cases c Hd) as [<-|[<-|[<-|[<-|[<-|[<-|[<-|[<-|[<-|[<-|[]]]]]]]]]]]; reflexivity. }
  destruct (digit_start c Hd) as [D1 [D2 [D3 D4]]].
  rewrite lx_start_eq, Hhex, Hstr, Hspan, D1, D2, D3, D4. cbn [length firstn].
  rewrite firstn_all, lx_skip. reflexivity.
Qed.

(* the fixed words of lp.dump *)
Definition fixed_words : list (text * list rawtok) :=
  [ ([77; 105; 110; 105; 109; 105; 122; 101], [RStr [77; 105; 110; 105; 109; 105; 122; 101]]);   (* Minimize *)
    ([111; 98; 106; 58], [RStr [111; 98; 106]; RColon]);                                          (* obj: *)
    ([83; 117; 98; 106; 101; 99; 116], [RStr [83; 117; 98; 106; 101; 99; 116]]);                    (* Subject *)
    ([84; 111], [RStr [84; 111]]);                                                                  (* To *)
    ([66; 111; 117; 110; 100; 115], [RStr [66; 111; 117; 110; 100; 115]]);                          (* Bounds *)
    ([66; 105; 110; 97; 114; 121], [RStr [66; 105; 110; 97; 114; 121]]);                            (* Binary *)
    ([71; 101; 110; 101; 114; 97; 108], [RStr [71; 101; 110; 101; 114; 97; 108]]);                  (* General *)
    ([69; 110; 100], [RStr [69; 110; 100]]);                                                        (* End *)
    ([43], [RPlus]); ([45], [RMinus]); ([91], [RBrkOp]); ([93], [RBrkCl]);
    ([93; 47; 50], [RBrkCl; RSlash; RCons [50]]);                                                   (* ]/2 *)
    ([42], [RAsterisk]); ([60; 61], [RLess; REqual]); ([62; 61], [RGreater; REqual]); ([61], [REqual]) ]%N.

Theorem lx_fixed_words :
  Forall (fun p => lx (LTok 0) (fst p) = Some (snd p, LTok 0)) fixed_words.
Proof. repeat constructor. Qed.

(* ------------------------------------------------------------------ *)
(* the whole output language of the writer, as words *)

Definition word_writes (ws : list text) : list text := map (fun w => w ++ [SP]) ws.

Lemma word_writes_sealed ws : Forall no_blank ws -> sealed (word_writes ws).
Proof.
  intros H. induction H as [|w ws Hw Hws IH]; [exact I|].
  cbn [word_writes map sealed]. split; [|split].
  - destruct w; discriminate.
  - destruct ws as [|w2 ws2]; [exact I|]. cbn [map]. left. exists w, SP. split; reflexivity.
  - exact IH.
Qed.

Lemma tokens_word_writes ws : Forall no_blank ws -> flat_map tokens (word_writes ws) = ws.
Proof.
  intros H. induction H as [|w ws Hw Hws IH]; [reflexivity|].
  cbn [word_writes map flat_map]. rewrite (tokens_word w Hw). unfold word_writes in IH. rewrite IH. reflexivity.
Qed.

Theorem lex_written_words ws :
  Forall no_blank ws -> Forall closed_word ws ->
  lex_text (wrap (word_writes ws)) = Some (flat_map word_toks ws).
Proof.
  intros Hn Hc.
  assert (T : tokens (wrap (word_writes ws)) = ws).
  { rewrite (wrap_preserves_tokens _ (word_writes_sealed ws Hn)). apply tokens_word_writes. exact Hn. }
  rewrite lex_by_words; rewrite T; [reflexivity | exact Hc].
Qed.

(* the words lp.dump writes: a label, `label:`, a decimal numeral, one of the fixed words *)
Inductive writer_word : text -> list rawtok -> Prop :=
| WLabel s : validate_label (Some s) = true -> raw_safe s = true -> writer_word s [RStr s]
| WLabelColon s : validate_label (Some s) = true -> raw_safe s = true ->
                  writer_word (s ++ [58%N]) [RStr s; RColon]
| WNumeral w : decimal_word w -> writer_word w [RCons w]
| WNegative w : decimal_word w -> writer_word (45%N :: w) [RMinus; RCons w]      (* right-hand sides, bounds *)
| WFixed p : In p fixed_words -> writer_word (fst p) (snd p).

Lemma writer_word_lx w x : writer_word w x -> lx (LTok 0) w = Some (x, LTok 0).
Proof.
  intros H. destruct H as [s Hv Hs | s Hv Hs | w Hd | w Hd | p Hp].
  - apply lx_label; assumption.
  - apply lx_label_colon; assumption.
  - apply lx_decimal; assumption.
  - rewrite lx_start_eq. change (N.eqb 45 NL) with false. change (memN 45 SKIP_LINE_CHARS) with false.
    change (single_tok 45) with (Some RMinus). cbv iota. rewrite (lx_decimal w Hd). reflexivity.
  - exact (proj1 (Forall_forall _ _) lx_fixed_words p Hp).
Qed.

(* the text of any sequence of writer words, with the line breaks _WidthLimitedFile inserts at whatever
   column, is tokenized by the reader into exactly the raw tokens of those words, in order *)
Theorem lex_writer_language (wx : list (text * list rawtok)) :
  Forall (fun p => no_blank (fst p)) wx -> Forall (fun p => writer_word (fst p) (snd p)) wx ->
  lex_text (wrap (word_writes (map fst wx))) = Some (flat_map snd wx).
Proof.
  intros Hn Hw.
  rewrite lex_written_words.
  - f_equal. induction Hw as [|p wx Hp Hwx IH]; [reflexivity|].
    inversion Hn as [|? ? _ Hn']; subst. cbn [map flat_map].
    rewrite (word_toks_eq _ _ _ (writer_word_lx _ _ Hp)), (IH Hn'). reflexivity.
  - apply Forall_map. exact Hn.
  - apply Forall_map. eapply Forall_impl; [|exact Hw]. intros p Hp. exists (snd p).
    apply writer_word_lx. exact Hp.
Qed.

(* the fixed words above are exactly the ones generated from lp.py's dump (Gen/Gen_LP.v) *)
Theorem fixed_words_match_source :
  forallb (fun w => in_texts w (map fst fixed_words)) WRITER_FIXED_WORDS = true /\
  forallb (fun p => in_texts (fst p) WRITER_FIXED_WORDS) fixed_words = true /\
  length WRITER_FIXED_WORDS = length fixed_words.
Proof. vm_compute. repeat split; reflexivity. Qed.

(* ================================================================== *)
(* the keyword stage (Reader::processtokens) on the writer's language *)

(* the groups of raw tokens the writer's text consists of *)
Inductive item :=
| IName (a : text)                          (* a variable name *)
| ILabel (a : text)                         (* `label:` , `obj:` *)
| ISigned (neg : bool) (w : text) (q : Qc)  (* sign and numeral: coefficient, constant, negative rhs / bound *)
| INum (w : text) (q : Qc)                  (* numeral without sign: rhs, bound *)
| IOpen                                     (* + [ *)
| IClose                                    (* ] *)
| INegNum (w : text) (q : Qc)               (* `-numeral` in one word: negative rhs / bound *)
| ICloseHalf                                (* ]/2 *)
| IStar
| ICmp (c : cmp)
| ISec1 (w : text) (k : lpsection)          (* a one-word section keyword *)
| ISubjectTo.

Definition w_subject : text := [115; 117; 98; 106; 101; 99; 116]%N.
Definition w_such : text := [115; 117; 99; 104]%N.
Definition w_semi : text := [115; 101; 109; 105]%N.
Definition W_Subject : text := [83; 117; 98; 106; 101; 99; 116]%N.
Definition W_To : text := [84; 111]%N.

Definition raw_of (it : item) : list rawtok :=
  match it with
  | IName a => [RStr a]
  | ILabel a => [RStr a; RColon]
  | ISigned neg w _ => [if neg then RMinus else RPlus; RCons w]
  | INum w _ => [RCons w]
  | IOpen => [RPlus; RBrkOp]
  | IClose => [RBrkCl]
  | INegNum w _ => [RMinus; RCons w]
  | ICloseHalf => [RBrkCl; RSlash; RCons [50%N]]
  | IStar => [RAsterisk]
  | ICmp CLeq => [RLess; REqual]
  | ICmp CGeq => [RGreater; REqual]
  | ICmp CEq => [REqual]
  | ICmp CL => [RLess]
  | ICmp CG => [RGreater]
  | ISec1 w _ => [RStr w]
  | ISubjectTo => [RStr W_Subject; RStr W_To]
  end.

Definition ptok_of (it : item) : list ptok :=
  match it with
  | IName a => [PVarId a]
  | ILabel a => [PConId a]
  | ISigned neg _ q => [PNum (signed neg q)]
  | INum _ q => [PNum q]
  | IOpen => [PBrkOp]
  | IClose => [PBrkCl]
  | INegNum _ q => [PNum (signed true q)]
  | ICloseHalf => [PBrkCl; PSlash; PNum (Q2Qc 2)]
  | IStar => [PAsterisk]
  | ICmp c => [PCmp c]
  | ISec1 _ k => [PSec k]
  | ISubjectTo => [PSec SEC_CON]
  end.

(* a word that cannot be the first word of a two- or three-word keyword *)
Definition lone (a : text) : Prop :=
  ~ In SPACE (lower_text a) /\ ~ In MINUSC (lower_text a) /\
  in_texts (lower_text a) [w_subject; w_such; w_semi] = false.

Definition item_ok (tbl : numtable) (it : item) : Prop :=
  match it with
  | IName a => lone a /\ section_of (lower_text a) = None /\ ident_tok a = PVarId a
  | ILabel a => lone a /\ section_of (lower_text a) = None
  | ISigned _ w q | INum w q | INegNum w q => num_value tbl w = Some q
  | ICmp c => c = CLeq \/ c = CGeq \/ c = CEq
  | ISec1 w k => lone w /\ section_of (lower_text w) = Some k
  | IOpen | IClose | ICloseHalf | IStar | ISubjectTo => True
  end.

(* split at the first occurrence of c *)
Fixpoint split_at (c : N) (s : text) : option (text * text) :=
  match s with
  | [] => None
  | x :: r => if N.eqb x c then Some ([], r)
              else match split_at c r with Some (a, b) => Some (x :: a, b) | None => None end
  end.

Lemma split_at_app c a b : ~ In c a -> split_at c (a ++ c :: b) = Some (a, b).
Proof.
  induction a as [|x a IH]; intros H; cbn [app split_at].
  - rewrite N.eqb_refl. reflexivity.
  - destruct (N.eqb_spec x c) as [E|E]; [exfalso; apply H; left; exact E|].
    rewrite IH; [reflexivity|]. intros Hin. apply H. right. exact Hin.
Qed.

Lemma section_of_in w k : section_of w = Some k -> In w (map fst SECTION_KEYWORDS).
Proof.
  unfold section_of. destruct (find (fun p => text_eqb (fst p) w) SECTION_KEYWORDS) as [p|] eqn:F; [|discriminate]. intros _.
  apply find_some in F. destruct F as [Hin E]. apply text_eqb_eq in E. subst w. apply in_map. exact Hin.
Qed.

(* the keyword table: a keyword with a blank starts with subject / such, one with a dash with semi *)
Lemma keywords_first_words :
  forallb (fun w => match split_at SPACE w with
                    | Some (a, _) => in_texts a [w_subject; w_such; w_semi]
                    | None => true
                    end
                    && match split_at MINUSC w with
                       | Some (a, _) => in_texts a [w_subject; w_such; w_semi]
                       | None => true
                       end) (map fst SECTION_KEYWORDS) = true.
Proof. vm_compute. reflexivity. Qed.

Lemma lone_two a x : lone a -> section_of (lower_text a ++ [SPACE] ++ x) = None.
Proof.
  intros [Hs [_ Hw]]. destruct (section_of _) as [k|] eqn:E; [|reflexivity]. exfalso.
  apply section_of_in in E. pose proof (proj1 (forallb_forall _ _) keywords_first_words _ E) as F.
  cbv beta in F. apply andb_true_iff in F. destruct F as [F _].
  change (lower_text a ++ [SPACE] ++ x) with (lower_text a ++ SPACE :: x) in F.
  pose proof (split_at_app SPACE _ x Hs) as SA. unfold text, char in *. rewrite SA in F.
  rewrite F in Hw. discriminate.
Qed.

Lemma lone_three a x : lone a -> section_of (lower_text a ++ [MINUSC] ++ x) = None.
Proof.
  intros [_ [Hm Hw]]. destruct (section_of _) as [k|] eqn:E; [|reflexivity]. exfalso.
  apply section_of_in in E. pose proof (proj1 (forallb_forall _ _) keywords_first_words _ E) as F.
  cbv beta in F. apply andb_true_iff in F. destruct F as [_ F].
  change (lower_text a ++ [MINUSC] ++ x) with (lower_text a ++ MINUSC :: x) in F.
  pose proof (split_at_app MINUSC _ x Hm) as SA. unfold text, char in *. rewrite SA in F.
  rewrite F in Hw. discriminate.
Qed.

Lemma lone_three_word a rest : lone a -> three_word (lower_text a) rest = None.
Proof.
  intros H. unfold three_word. destruct rest as [|[] [|[] ?]]; try reflexivity. apply lone_three. exact H.
Qed.

Lemma lone_two_word a rest : lone a -> two_word (lower_text a) rest = None.
Proof.
  intros H. unfold two_word. destruct rest as [|[] ?]; try reflexivity. apply lone_two. exact H.
Qed.

(* what may follow an item: not a colon, not an opening bracket *)
Definition starts_ok (rest : list rawtok) : Prop :=
  match rest with RColon :: _ | RBrkOp :: _ => False | _ => True end.

Lemma process_item tbl it rest :
  item_ok tbl it -> starts_ok rest ->
  process tbl (raw_of it ++ rest) = option_map (app (ptok_of it)) (process tbl rest).
Proof.
  intros Hok Hst. destruct it as [a | a | neg w q | w q | | | w q | | | c | w k | ]; cbn [raw_of ptok_of app].
  - (* IName *)
    destruct Hok as [Hl [Hsec Hid]]. cbn [process].
    rewrite (lone_three_word a rest Hl), (lone_two_word a rest Hl), Hsec, Hid.
    destruct rest as [|[] rest']; try reflexivity; contradiction.
  - (* ILabel *)
    destruct Hok as [Hl Hsec]. cbn [process].
    rewrite (lone_three_word a (RColon :: rest) Hl), (lone_two_word a (RColon :: rest) Hl), Hsec.
    destruct rest as [|[] rest']; try reflexivity; contradiction.
  - (* ISigned *)
    cbn [item_ok] in Hok. destruct neg; cbn [process is_signtok after_sign xorb]; rewrite Hok; reflexivity.
  - (* INum *)
    cbn [item_ok] in Hok. cbn [process]. rewrite Hok.
    destruct rest as [|[] rest']; try reflexivity; contradiction.
  - reflexivity.
  - reflexivity.
  - (* INegNum *)
    cbn [item_ok] in Hok. cbn [process is_signtok after_sign xorb]. rewrite Hok. reflexivity.
  - (* ICloseHalf *)
    cbn [process]. change (num_value tbl [50%N]) with (Some (Q2Qc 2)).
    destruct rest as [|[] rest']; try contradiction; cbn [option_map];
      destruct (process tbl _) as [x|]; reflexivity.
  - reflexivity.
  - destruct Hok as [-> | [-> | ->]]; reflexivity.
  - (* ISec1 *)
    destruct Hok as [Hl Hsec]. cbn [process].
    rewrite (lone_three_word w rest Hl), (lone_two_word w rest Hl), Hsec. reflexivity.
  - (* Subject To *)
    cbn [process]. reflexivity.
Qed.

Lemma raw_of_starts_ok it rest : starts_ok (raw_of it ++ rest).
Proof. destruct it as [a | a | [] w q | w q | | | w q | | | [] | w k | ]; exact I. Qed.

(* every sequence of such groups - a language that contains what lp.dump writes - is turned by the
   keyword stage into exactly the processed tokens of the groups *)
Theorem process_items tbl its :
  Forall (item_ok tbl) its -> process_all tbl (flat_map raw_of its) = Some (flat_map ptok_of its).
Proof.
  unfold process_all. intros H. induction H as [|it its Hit Hits IH]; [reflexivity|].
  cbn [flat_map]. rewrite (process_item tbl it _ Hit).
  - rewrite IH. reflexivity.
  - destruct its as [|it2 its2]; [exact I|]. cbn [flat_map]. apply raw_of_starts_ok.
Qed.

(* ------------------------------------------------------------------ *)
(* from the characters to the processed tokens *)

(* the words a group is written as, with the raw tokens of each word *)
Definition words_of (it : item) : list (text * list rawtok) :=
  match it with
  | IName a => [(a, [RStr a])]
  | ILabel a => [(a ++ [58%N], [RStr a; RColon])]
  | ISigned neg w _ => [if neg then ([45%N], [RMinus]) else ([43%N], [RPlus]); (w, [RCons w])]
  | INum w _ => [(w, [RCons w])]
  | INegNum w _ => [(45%N :: w, [RMinus; RCons w])]
  | IOpen => [([43%N], [RPlus]); ([91%N], [RBrkOp])]
  | IClose => [([93%N], [RBrkCl])]
  | ICloseHalf => [([93; 47; 50]%N, [RBrkCl; RSlash; RCons [50%N]])]
  | IStar => [([42%N], [RAsterisk])]
  | ICmp CLeq => [([60; 61]%N, [RLess; REqual])]
  | ICmp CGeq => [([62; 61]%N, [RGreater; REqual])]
  | ICmp CEq => [([61%N], [REqual])]
  | ICmp CL => [([60%N], [RLess])]
  | ICmp CG => [([62%N], [RGreater])]
  | ISec1 w _ => [(w, [RStr w])]
  | ISubjectTo => [(W_Subject, [RStr W_Subject]); (W_To, [RStr W_To])]
  end.

Lemma words_raw it : flat_map snd (words_of it) = raw_of it.
Proof. destruct it as [a | a | [] w q | w q | | | w q | | | [] | w k | ]; reflexivity. Qed.

(* what makes the words of a group writer words *)
Definition item_lex_ok (it : item) : Prop :=
  match it with
  | IName a | ILabel a => validate_label (Some a) = true /\ raw_safe a = true
  | ISigned _ w _ | INum w _ | INegNum w _ => decimal_word w
  | ICmp c => c = CLeq \/ c = CGeq \/ c = CEq
  | ISec1 w _ => In (w, [RStr w]) fixed_words
  | _ => True
  end.

Lemma words_writer it : item_lex_ok it -> Forall (fun p => writer_word (fst p) (snd p)) (words_of it).
Proof.
  assert (FX : forall p, In p fixed_words -> writer_word (fst p) (snd p)) by (intros p Hp; apply (WFixed p Hp)).
  destruct it as [a | a | neg w q | w q | | | w q | | | c | w k | ]; cbn [item_lex_ok words_of]; intros H.
  - destruct H as [Hv Hs]. constructor; [exact (WLabel a Hv Hs) | constructor].
  - destruct H as [Hv Hs]. constructor; [exact (WLabelColon a Hv Hs) | constructor].
  - constructor; [|constructor; [exact (WNumeral w H) | constructor]].
    destruct neg; [apply (FX ([45%N], [RMinus])) | apply (FX ([43%N], [RPlus]))]; cbn; tauto.
  - constructor; [exact (WNumeral w H) | constructor].
  - constructor; [apply (FX ([43%N], [RPlus])) | constructor; [apply (FX ([91%N], [RBrkOp])) | constructor]]; cbn; tauto.
  - constructor; [apply (FX ([93%N], [RBrkCl])) | constructor]; cbn; tauto.
  - constructor; [exact (WNegative w H) | constructor].
  - constructor; [apply (FX ([93; 47; 50]%N, [RBrkCl; RSlash; RCons [50%N]])) | constructor]; cbn; tauto.
  - constructor; [apply (FX ([42%N], [RAsterisk])) | constructor]; cbn; tauto.
  - destruct H as [-> | [-> | ->]]; cbn [words_of]; (constructor; [|constructor]).
    + apply (FX ([60; 61]%N, [RLess; REqual])); cbn; tauto.
    + apply (FX ([62; 61]%N, [RGreater; REqual])); cbn; tauto.
    + apply (FX ([61%N], [REqual])); cbn; tauto.
  - constructor; [exact (FX _ H) | constructor].
  - constructor; [apply (FX (W_Subject, [RStr W_Subject])) | constructor; [apply (FX (W_To, [RStr W_To])) | constructor]]; cbn; tauto.
Qed.

(* THE CHAIN: the text of any sequence of groups (each word written with a blank behind it, lines
   broken by _WidthLimitedFile anywhere) goes through the reader's tokenizer and keyword stage to
   exactly the processed tokens of the groups *)
Theorem chars_to_processed tbl its :
  Forall (item_ok tbl) its -> Forall item_lex_ok its ->
  Forall (fun p => no_blank (fst p)) (flat_map words_of its) ->
  match lex_text (wrap (word_writes (map fst (flat_map words_of its)))) with
  | Some raws => process_all tbl raws
  | None => None
  end = Some (flat_map ptok_of its).
Proof.
  intros Hok Hlex Hnb.
  rewrite (lex_writer_language (flat_map words_of its) Hnb).
  - replace (flat_map snd (flat_map words_of its)) with (flat_map raw_of its).
    + apply process_items. exact Hok.
    + clear. induction its as [|it its IH]; [reflexivity|]. cbn [flat_map].
      rewrite flat_map_app, <- IH, words_raw. reflexivity.
  - clear Hok Hnb. induction Hlex as [|it its Hit Hits IH]; [constructor|].
    cbn [flat_map]. apply Forall_app. split; [apply words_writer; exact Hit | exact IH].
Qed.

(* ------------------------------------------------------------------ *)
(* the hypotheses on names and labels, from the label rules *)

Lemma valid_lower_nosep :
  forallb (fun c => negb (N.eqb (lower c) SPACE) && negb (N.eqb (lower c) MINUSC)) LABEL_VALID_CHARS = true.
Proof. vm_compute. reflexivity. Qed.

Lemma valid_chars_nosep a :
  forallb valid_char a = true -> ~ In SPACE (lower_text a) /\ ~ In MINUSC (lower_text a).
Proof.
  induction a as [|c a IH]; intros H; [split; intros []|].
  cbn [forallb] in H. apply andb_true_iff in H. destruct H as [Hc Ha].
  pose proof (valid_char_forall _ valid_lower_nosep c Hc) as P. cbv beta in P.
  apply andb_true_iff in P. destruct P as [P1 P2]. apply negb_true_iff in P1. apply negb_true_iff in P2.
  apply N.eqb_neq in P1. apply N.eqb_neq in P2. destruct (IH Ha) as [I1 I2].
  cbn [lower_text map In]. split; intros [E|E]; auto.
Qed.

Lemma not_keyword_section la :
  in_texts la (map fst SECTION_KEYWORDS) = false -> section_of la = None.
Proof.
  intros H. destruct (section_of la) as [k|] eqn:E; [|reflexivity]. apply section_of_in in E.
  assert (T : in_texts la (map fst SECTION_KEYWORDS) = true).
  { unfold in_texts. apply existsb_exists. exists la. split; [exact E | apply text_eqb_refl]. }
  rewrite T in H. discriminate.
Qed.

(* a label dump accepts, outside the reported defect regions (label_safe: no leading line-discarding
   character, no inf/nan prefix, not a keyword, for a variable not free / infinity) and not the first
   word of a two-word keyword (subject, such): its groups satisfy the hypotheses of the chain *)
Theorem safe_label_items tbl a :
  validate_label (Some a) = true ->
  in_texts (lower_text a) [w_subject; w_such; w_semi] = false ->
  (label_safe AsVariable a = true -> item_ok tbl (IName a) /\ item_lex_ok (IName a)) /\
  (label_safe AsConstraint a = true -> item_ok tbl (ILabel a) /\ item_lex_ok (ILabel a)).
Proof.
  intros Hv Hw. pose proof (valid_chars_nosep a (valid_label_chars a Hv)) as [N1 N2].
  assert (L : lone a) by (repeat split; assumption).
  split; intros Hs; pose proof (label_safe_raw _ a Hs) as Hr; unfold label_safe in Hs;
    destruct a as [|c t]; try discriminate.
  - apply andb_true_iff in Hs. destruct Hs as [Hs Hfi]. apply andb_true_iff in Hs. destruct Hs as [_ Hk].
    apply negb_true_iff in Hk. apply andb_true_iff in Hfi. destruct Hfi as [Hf Hi].
    apply negb_true_iff in Hf. apply negb_true_iff in Hi.
    repeat split; try assumption.
    + apply not_keyword_section. exact Hk.
    + unfold ident_tok. rewrite Hf, Hi. reflexivity.
  - apply andb_true_iff in Hs. destruct Hs as [Hs _]. apply andb_true_iff in Hs. destruct Hs as [_ Hk].
    apply negb_true_iff in Hk. repeat split; try assumption. apply not_keyword_section. exact Hk.
Qed.

Lemma lone_b w :
  negb (memN SPACE (lower_text w)) && negb (memN MINUSC (lower_text w))
  && negb (in_texts (lower_text w) [w_subject; w_such; w_semi]) = true -> lone w.
Proof.
  intros H. apply andb_true_iff in H. destruct H as [H H3]. apply andb_true_iff in H. destruct H as [H1 H2].
  apply negb_true_iff in H1. apply negb_true_iff in H2. apply negb_true_iff in H3.
  repeat split; [| |exact H3]; intros Hin; apply memN_spec in Hin; congruence.
Qed.

Lemma sec1_ok tbl w k :
  negb (memN SPACE (lower_text w)) && negb (memN MINUSC (lower_text w))
  && negb (in_texts (lower_text w) [w_subject; w_such; w_semi]) = true ->
  section_of (lower_text w) = Some k -> In (w, [RStr w]) fixed_words ->
  item_ok tbl (ISec1 w k) /\ item_lex_ok (ISec1 w k).
Proof. intros H1 H2 H3. split; [split; [apply lone_b; exact H1 | exact H2] | exact H3]. Qed.

(* the section words of the writer satisfy theirs *)
Theorem writer_sections_ok tbl :
  Forall (fun wk => item_ok tbl (ISec1 (fst wk) (snd wk)) /\ item_lex_ok (ISec1 (fst wk) (snd wk)))
    [ ([77; 105; 110; 105; 109; 105; 122; 101]%N, SEC_OBJMIN); ([66; 111; 117; 110; 100; 115]%N, SEC_BOUNDS);
      ([66; 105; 110; 97; 114; 121]%N, SEC_BIN); ([71; 101; 110; 101; 114; 97; 108]%N, SEC_GEN);
      ([69; 110; 100]%N, SEC_END) ].
Proof.
  constructor; [|constructor; [|constructor; [|constructor; [|constructor; [|constructor]]]]];
    cbn [fst snd]; (apply sec1_ok; [vm_compute; reflexivity | vm_compute; reflexivity | ]).
  - left. reflexivity.
  - do 4 right. left. reflexivity.
  - do 5 right. left. reflexivity.
  - do 6 right. left. reflexivity.
  - do 7 right. left. reflexivity.
Qed.

(* ================================================================== *)
(* the reader's keyword tables, PINNED.  Every theorem above holds for whatever tables the translator
   generates from reader.cpp / def.hpp, and the correspondence check compares the implementation with the
   model built from those same tables - so a keyword ADDED to the reader (one more label that is silently
   read as a section) moves model and implementation together.  This theorem is the tie that does not
   move: the generated tables are exactly the reviewed ones. *)
Definition PINNED_SECTION_WORDS : list (list N * lpsection) := [
  ([109; 105; 110; 105; 109; 105; 122; 101], SEC_OBJMIN); ([109; 105; 110], SEC_OBJMIN);
  ([109; 105; 110; 105; 109; 117; 109], SEC_OBJMIN);
  ([109; 97; 120; 105; 109; 105; 122; 101], SEC_OBJMAX); ([109; 97; 120], SEC_OBJMAX);
  ([109; 97; 120; 105; 109; 117; 109], SEC_OBJMAX);
  ([115; 117; 98; 106; 101; 99; 116; 32; 116; 111], SEC_CON); ([115; 117; 99; 104; 32; 116; 104; 97; 116], SEC_CON);
  ([115; 116], SEC_CON); ([115; 46; 116; 46], SEC_CON);
  ([98; 111; 117; 110; 100; 115], SEC_BOUNDS); ([98; 111; 117; 110; 100], SEC_BOUNDS);
  ([98; 105; 110; 97; 114; 121], SEC_BIN); ([98; 105; 110; 97; 114; 105; 101; 115], SEC_BIN); ([98; 105; 110], SEC_BIN);
  ([103; 101; 110; 101; 114; 97; 108], SEC_GEN); ([103; 101; 110; 101; 114; 97; 108; 115], SEC_GEN);
  ([103; 101; 110], SEC_GEN); ([105; 110; 116; 101; 103; 101; 114], SEC_GEN);
  ([105; 110; 116; 101; 103; 101; 114; 115], SEC_GEN);
  ([115; 101; 109; 105; 45; 99; 111; 110; 116; 105; 110; 117; 111; 117; 115], SEC_SEMI);
  ([115; 101; 109; 105], SEC_SEMI); ([115; 101; 109; 105; 115], SEC_SEMI);
  ([115; 111; 115], SEC_SOS); ([101; 110; 100], SEC_END) ]%N.

Theorem keyword_tables_pinned :
  SECTION_KEYWORDS = PINNED_SECTION_WORDS /\
  KEYWORD_INF = [[105; 110; 102; 105; 110; 105; 116; 121]; [105; 110; 102]]%N /\
  KEYWORD_FREE = [[102; 114; 101; 101]]%N /\
  SINGLE_CHAR_TOKENS = [91; 93; 60; 62; 61; 58; 43; 94; 47; 42; 45]%N /\
  SKIP_LINE_CHARS = [92; 59; 10]%N /\ BLANK_CHARS = [32; 9]%N /\
  IDENT_DELIMS = [9; 10; 92; 58; 43; 60; 62; 94; 61; 32; 47; 45; 42; 91; 93]%N.
Proof. repeat split; reflexivity. Qed.
