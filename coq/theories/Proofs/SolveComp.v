(* C07: the Sampler mixins and the reference composites report, for every row, the
   energy of the submitted problem; every column carries the values of the variable
   it is labelled with.  All statements are on the model (Model/Solve.v), for all inputs. *)
From Coq Require Import List ZArith QArith Qcanon Bool Arith Lia.
From Dimod Require Import Base.Util Model.Poly Model.HPoly Model.Samples Model.Solve
  Proofs.PolyFacts Proofs.HPolyFacts Proofs.SamplesFacts Proofs.SolveEnum.
Import ListNotations.
Open Scope Qc_scope.

(* ------------------------------------------------------------------ *)
(* rows and labels *)

Definition well_formed (vars : list label) (r : result) : Prop :=
  (forall v, In v vars -> In v (r_labels r)) /\
  (forall row, In row (r_rows r) -> length row = length (r_labels r)).

Lemma row_sample_map (g : Qc -> Qc) ls row v :
  In v ls -> length row = length ls -> row_sample ls (map g row) v = g (row_sample ls row v).
Proof.
  intros Hin Hlen. unfold row_sample, row_value.
  rewrite (nth_indep (map g row) 0 (g 0)) by (rewrite map_length, Hlen; apply idx_of_lt; exact Hin).
  apply map_nth.
Qed.

Lemma idx_of_app_in v ls m : In v ls -> idx_of v (ls ++ m) = idx_of v ls.
Proof.
  induction ls as [|x ls IH]; cbn [In app idx_of]; [tauto|].
  destruct (Nat.eqb_spec x v) as [->|Hne]; [reflexivity|].
  intros [H|H]; [contradiction|]. f_equal. apply IH. exact H.
Qed.

Lemma idx_of_app_notin v ls m : ~ In v ls -> idx_of v (ls ++ m) = (length ls + idx_of v m)%nat.
Proof.
  induction ls as [|x ls IH]; cbn [In app idx_of length]; [reflexivity|].
  intros H. destruct (Nat.eqb_spec x v) as [->|Hne]; [exfalso; apply H; left; reflexivity|].
  cbn [Nat.add]. f_equal. apply IH. tauto.
Qed.

Lemma idx_of_notin v ls : ~ In v ls -> idx_of v ls = length ls.
Proof.
  intros H. rewrite <- (app_nil_r ls) at 1. rewrite idx_of_app_notin by exact H.
  cbn [idx_of]. lia.
Qed.

Lemma nth_lookup (fs : list (label * Qc)) v :
  nth (idx_of v (map fst fs)) (map snd fs) 0 = match lookup fs v with Some a => a | None => 0 end.
Proof.
  unfold lookup. induction fs as [|f fs IH]; cbn [map idx_of find]; [reflexivity|].
  destruct (fst f =? v)%nat; cbn [nth]; [reflexivity|exact IH].
Qed.

Lemma lookup_Some_In (fs : list (label * Qc)) v a : lookup fs v = Some a -> exists f, In f fs /\ fst f = v.
Proof.
  unfold lookup. destruct (find (fun f => (fst f =? v)%nat) fs) as [f|] eqn:E; [|discriminate].
  intros _. apply find_some in E. destruct E as [Hin Heq]. apply Nat.eqb_eq in Heq. exists f. tauto.
Qed.

(* the table with the fixed columns appended means: the child's row, overridden by the fixed values *)
Lemma appended_sample fs ls row v :
  length row = length ls -> (forall f, In f fs -> ~ In (fst f) ls) ->
  row_sample (ls ++ map fst fs) (row ++ map snd fs) v = override fs (row_sample ls row) v.
Proof.
  intros Hlen Hdis. unfold override, row_sample, row_value.
  destruct (in_dec Nat.eq_dec v ls) as [Hin|Hnin].
  - rewrite idx_of_app_in by exact Hin.
    rewrite app_nth1 by (rewrite Hlen; apply idx_of_lt; exact Hin).
    destruct (lookup fs v) as [a|] eqn:El; [|reflexivity].
    apply lookup_Some_In in El. destruct El as [f [Hf <-]]. exfalso. apply (Hdis f Hf). exact Hin.
  - rewrite idx_of_app_notin by exact Hnin. rewrite <- Hlen, app_nth2_plus, nth_lookup.
    destruct (lookup fs v); [reflexivity|].
    rewrite idx_of_notin by exact Hnin. rewrite nth_overflow by lia. reflexivity.
Qed.

(* ------------------------------------------------------------------ *)
(* higher-order energies depend on the polynomial's variables only *)

Lemma henergy_ext p s s' : (forall v, s v = s' v) -> henergy p s = henergy p s'.
Proof.
  intros H. unfold henergy. f_equal. apply map_ext. intros t. unfold mono_val. f_equal. f_equal.
  apply map_ext. exact H.
Qed.

Definition hmentions_only (p : hpoly) (vars : list label) : Prop :=
  forall t v, In t p -> In v (fst t) -> In v vars.

Lemma henergy_depends_on_vars p vars s s' :
  hmentions_only p vars -> (forall v, In v vars -> s v = s' v) -> henergy p s = henergy p s'.
Proof.
  intros Hm H. unfold henergy. f_equal. apply map_ext_in. intros t Ht. unfold mono_val. f_equal. f_equal.
  apply map_ext_in. intros v Hv. apply H. apply (Hm t v); assumption.
Qed.

(* ------------------------------------------------------------------ *)
(* mixins *)

Lemma energy_drop_offset p s : energy (drop_offset p) s + p_off p = energy p s.
Proof. unfold energy, drop_offset. cbn [p_off p_lin p_quad]. ring. Qed.

Lemma change_vartype_honest (e e' : sample -> Qc) conv off r :
  (forall row, In row (r_rows r) ->
     e (row_sample (r_labels r) row) + off = e' (row_sample (r_labels r) (conv row))) ->
  honest e r -> honest e' (change_vartype conv off r).
Proof.
  unfold honest, change_vartype. cbn [r_labels r_rows r_energies]. intros H ->.
  rewrite !map_map. apply map_ext_in. exact H.
Qed.

Lemma existsb_eqb_in v vars : In v vars -> existsb (Nat.eqb v) vars = true.
Proof. intros H. apply existsb_exists. exists v. split; [exact H|apply Nat.eqb_refl]. Qed.

Theorem sample_spin_via_qubo_honest child vars p :
  NoDup vars -> mentions_only p vars ->
  let q := to_binary_all vars p in
  well_formed vars (child (drop_offset q)) ->
  honest (energy (drop_offset q)) (child (drop_offset q)) ->
  honest (energy p) (sample_spin_via_qubo child vars p).
Proof.
  intros Hnd Hm q [Hcov Hlen] Hh. unfold sample_spin_via_qubo. fold q.
  apply (change_vartype_honest (energy (drop_offset q))); [|exact Hh].
  intros row Hrow. rewrite energy_drop_offset. unfold q, to_binary_all.
  rewrite substitute_many_energy by exact Hnd.
  apply (energy_depends_on_vars p vars); [exact Hm|]. intros v Hv.
  rewrite existsb_eqb_in by exact Hv. unfold row_to_spin.
  rewrite row_sample_map by (auto). ring.
Qed.

Theorem sample_binary_via_ising_honest child vars p :
  NoDup vars -> mentions_only p vars ->
  let q := to_spin_all vars p in
  well_formed vars (child (drop_offset q)) ->
  honest (energy (drop_offset q)) (child (drop_offset q)) ->
  honest (energy p) (sample_binary_via_ising child vars p).
Proof.
  intros Hnd Hm q [Hcov Hlen] Hh. unfold sample_binary_via_ising. fold q.
  apply (change_vartype_honest (energy (drop_offset q))); [|exact Hh].
  intros row Hrow. rewrite energy_drop_offset. unfold q, to_spin_all.
  rewrite substitute_many_energy by exact Hnd.
  apply (energy_depends_on_vars p vars); [exact Hm|]. intros v Hv.
  rewrite existsb_eqb_in by exact Hv. unfold row_to_binary.
  rewrite row_sample_map by (auto). ring.
Qed.

Theorem sample_same_vartype_honest child p :
  honest (energy (drop_offset p)) (child (drop_offset p)) ->
  honest (energy p) (sample_same_vartype child p).
Proof.
  intros Hh. unfold sample_same_vartype.
  apply (change_vartype_honest (energy (drop_offset p))); [|exact Hh].
  intros row _. apply energy_drop_offset.
Qed.

(* for every row the energy reported is the energy of the submitted problem at the
   row mapped back to the submitted vartype; sample_ising(h, J) and sample_qubo(Q)
   are the same statements at p := ising_poly h J and p := qubo_poly Q *)
Theorem mixin_energy_is_submitted_energy child vars p :
  NoDup vars -> mentions_only p vars ->
  (let q := to_binary_all vars p in
   well_formed vars (child (drop_offset q)) -> honest (energy (drop_offset q)) (child (drop_offset q)) ->
   honest (energy p) (sample_spin_via_qubo child vars p)) /\
  (let q := to_spin_all vars p in
   well_formed vars (child (drop_offset q)) -> honest (energy (drop_offset q)) (child (drop_offset q)) ->
   honest (energy p) (sample_binary_via_ising child vars p)) /\
  (honest (energy (drop_offset p)) (child (drop_offset p)) ->
   honest (energy p) (sample_same_vartype child p)).
Proof.
  intros Hnd Hm. split; [|split].
  - apply sample_spin_via_qubo_honest; assumption.
  - apply sample_binary_via_ising_honest; assumption.
  - apply sample_same_vartype_honest.
Qed.

(* the values are mapped, the labels kept: the converted table is over the same variables *)
Lemma change_vartype_labels conv off r :
  r_labels (change_vartype conv off r) = r_labels r /\
  r_rows (change_vartype conv off r) = map conv (r_rows r).
Proof. split; reflexivity. Qed.

(* ------------------------------------------------------------------ *)
(* PolyScaleComposite *)

Lemma hscale_nil_energy k p s : henergy (hscale k [] p) s = k * henergy p s.
Proof.
  unfold henergy, hscale. rewrite map_map. rewrite <- qsum_map_scale. f_equal.
  apply map_ext. intros t. unfold ignored, mono_val. cbn [existsb fst snd]. ring.
Qed.

Lemma Qc_eqb_false a b : Qc_eqb a b = false -> a <> b.
Proof.
  unfold Qc_eqb. intros H E. subst. rewrite (proj2 (Qeq_bool_iff b b)) in H; [discriminate|reflexivity].
Qed.

Lemma Qcinv_nonzero a : a <> 0 -> / a <> 0.
Proof.
  intros Ha E. pose proof (Qcmult_inv_r a Ha) as H. rewrite E in H.
  rewrite Qcmult_0_r in H. discriminate H.
Qed.

(* ------------------------------------------------------------------ *)
(* PolyFixedVariableComposite *)

Lemma append_fixed_honest orig fs r :
  (forall row, In row (r_rows r) -> length row = length (r_labels r)) ->
  (forall f, In f fs -> ~ In (fst f) (r_labels r)) ->
  honest (henergy (hfix fs orig)) r -> honest (henergy orig) (append_fixed fs r).
Proof.
  intros Hlen Hdis Hh. unfold honest, append_fixed in *. cbn [r_labels r_rows r_energies].
  rewrite Hh, map_map. apply map_ext_in. intros row Hrow. rewrite hfix_energy.
  apply henergy_ext. intros v. symmetry. apply appended_sample; [apply Hlen; exact Hrow|exact Hdis].
Qed.

Theorem polyfixed_honest orig fs r :
  (forall row, In row (r_rows r) -> length row = length (r_labels r)) ->
  (forall f, In f fs -> ~ In (fst f) (r_labels r)) ->
  honest (henergy (hfix fs orig)) r -> honest (henergy orig) (polyfixed_result orig fs r).
Proof.
  intros Hlen Hdis Hh. unfold polyfixed_result.
  destruct (r_rows r) as [|row rows] eqn:Er.
  - destruct fs as [|f fs].
    + unfold honest in *. rewrite Er in *. exact Hh.
    + unfold honest. reflexivity.
  - rewrite <- Er in Hlen. apply append_fixed_honest; assumption.
Qed.

(* ------------------------------------------------------------------ *)
(* Truncate / PolyTruncate *)

Lemma insert_by_In x l y : In y (insert_by x l) <-> y = x \/ In y l.
Proof.
  induction l as [|z l IH]; cbn [insert_by In]; [intuition|].
  destruct (Qc_leb (fst z) (fst x)); cbn [In]; [rewrite IH|]; intuition.
Qed.

Lemma sort_by_energy_In l y : In y (sort_by_energy l) <-> In y l.
Proof.
  unfold sort_by_energy. induction l as [|x l IH]; cbn [fold_right In]; [tauto|].
  rewrite insert_by_In, IH. intuition.
Qed.

Lemma combine_map_In {A B} (f : A -> B) (l : list A) x : In x (combine (map f l) l) -> fst x = f (snd x).
Proof.
  induction l as [|a l IH]; cbn [map combine In]; [tauto|].
  intros [<-|H]; [reflexivity|apply IH; exact H].
Qed.

Theorem truncate_honest e n r :
  honest e r -> honest e (truncate_unsorted n r) /\ honest e (truncate_sorted n r).
Proof.
  intros Hh. unfold honest in *. split.
  - unfold truncate_unsorted. cbn [r_labels r_rows r_energies]. rewrite Hh. apply firstn_map.
  - unfold truncate_sorted. cbn [r_labels r_rows r_energies]. rewrite map_map. apply map_ext_in.
    intros x Hx. apply in_firstn_in in Hx. apply (proj1 (sort_by_energy_In _ _)) in Hx. rewrite Hh in Hx.
    apply (combine_map_In (fun row => e (row_sample (r_labels r) row))) in Hx. exact Hx.
Qed.

Lemma aggregate_pairs_In seen l x : In x (aggregate_pairs seen l) -> In x l.
Proof.
  revert seen. induction l as [|y l IH]; intros seen; cbn [aggregate_pairs]; [tauto|].
  destruct (existsb (row_eqb (snd y)) seen); cbn [In].
  - intros H. right. apply (IH seen). exact H.
  - intros [H|H]; [left; exact H|right; apply (IH (snd y :: seen)); exact H].
Qed.

(* aggregate=True: the kept rows still carry their own energies *)
Theorem aggregate_honest e r : honest e r -> honest e (aggregate r).
Proof.
  intros Hh. unfold honest in *. unfold aggregate. cbn [r_labels r_rows r_energies].
  rewrite map_map. apply map_ext_in. intros x Hx. apply aggregate_pairs_In in Hx. rewrite Hh in Hx.
  apply (combine_map_In (fun row => e (row_sample (r_labels r) row))) in Hx. exact Hx.
Qed.

(* the kept rows are rows of the child, under the same labels *)
Theorem truncate_rows_from_child n r :
  r_labels (truncate_unsorted n r) = r_labels r /\ r_labels (truncate_sorted n r) = r_labels r /\
  (forall row, In row (r_rows (truncate_unsorted n r)) -> In row (r_rows r)) /\
  (forall row, In row (r_rows (truncate_sorted n r)) -> In row (r_rows r)) /\
  (length (r_rows (truncate_unsorted n r)) <= n)%nat /\ (length (r_rows (truncate_sorted n r)) <= n)%nat.
Proof.
  repeat split.
  - intros row H. apply in_firstn_in in H. exact H.
  - unfold truncate_sorted. cbn [r_rows]. intros row H. apply in_map_iff in H.
    destruct H as [x [<- Hx]]. apply in_firstn_in in Hx. apply (proj1 (sort_by_energy_In _ _)) in Hx.
    destruct x as [a b]. apply in_combine_r in Hx. exact Hx.
  - unfold truncate_unsorted. cbn [r_rows]. apply firstn_le_length.
  - unfold truncate_sorted. cbn [r_rows]. rewrite map_length. apply firstn_le_length.
Qed.

(* ------------------------------------------------------------------ *)
(* HigherOrderComposite: polymorph_response *)

Theorem polymorph_honest poly pv red keep discard r :
  hmentions_only poly pv -> honest (henergy poly) (polymorph poly pv red keep discard r).
Proof.
  intros Hm. unfold polymorph, honest. destruct keep; cbn [r_labels r_rows r_energies]; [reflexivity|].
  rewrite map_map. apply map_ext. intros row. apply (henergy_depends_on_vars poly pv); [exact Hm|].
  intros v Hv. unfold row_sample. symmetry. apply reindex_row_value. exact Hv.
Qed.

(* dropping the penalty columns re-labels correctly: each kept column shows the value the
   child's row gave to the variable the column is labelled with *)
Theorem polymorph_columns poly pv red discard r :
  let out := polymorph poly pv red false discard r in
  r_labels out = pv /\
  forall row', In row' (r_rows out) ->
    exists row, In row (r_rows r) /\ forall v, In v pv -> row_value pv row' v = row_value (r_labels r) row v.
Proof.
  cbn zeta. unfold polymorph. cbn [r_labels r_rows]. split; [reflexivity|].
  intros row' H. apply in_map_iff in H. destruct H as [row [<- Hrow]].
  exists row. split.
  - destruct discard; [apply filter_In in Hrow; tauto|exact Hrow].
  - intros v Hv. apply reindex_row_value. exact Hv.
Qed.

(* discard_unsatisfied keeps exactly the rows whose product columns equal the products *)
Theorem polymorph_discard poly pv red keep r row :
  In row (r_rows (polymorph poly pv red keep true r)) ->
  exists row0, In row0 (r_rows r) /\ penalty_ok (r_labels r) red row0 = true.
Proof.
  unfold polymorph. destruct keep; cbn [r_rows]; intros H.
  - apply filter_In in H. exists row. exact H.
  - apply in_map_iff in H. destruct H as [row0 [_ H]]. apply filter_In in H. exists row0. exact H.
Qed.

(* the appended columns carry the fixed values, the others the child's values *)
Theorem append_fixed_columns fs r row :
  In row (r_rows r) -> length row = length (r_labels r) ->
  (forall f, In f fs -> ~ In (fst f) (r_labels r)) ->
  let out := append_fixed fs r in
  In (row ++ map snd fs) (r_rows out) /\
  (forall v, In v (r_labels r) -> row_value (r_labels out) (row ++ map snd fs) v = row_value (r_labels r) row v) /\
  (forall v a, lookup fs v = Some a -> row_value (r_labels out) (row ++ map snd fs) v = a).
Proof.
  intros Hrow Hlen Hdis. cbn zeta. unfold append_fixed. cbn [r_labels r_rows]. split; [|split].
  - apply in_map_iff. exists row. tauto.
  - intros v Hv. pose proof (appended_sample fs (r_labels r) row v Hlen Hdis) as H.
    unfold row_sample in H. rewrite H. unfold override.
    destruct (lookup fs v) as [a|] eqn:El; [|reflexivity].
    apply lookup_Some_In in El. destruct El as [f [Hf <-]]. exfalso. apply (Hdis f Hf). exact Hv.
  - intros v a El. pose proof (appended_sample fs (r_labels r) row v Hlen Hdis) as H.
    unfold row_sample in H. rewrite H. unfold override. rewrite El. reflexivity.
Qed.

Theorem passthrough_id r : passthrough r = r.
Proof. reflexivity. Qed.

(* ------------------------------------------------------------------ *)
(* sorted truncation keeps the lowest energies *)

Fixpoint sorted_pairs (l : list (Qc * list Qc)) : Prop :=
  match l with
  | [] => True
  | x :: r => (forall y, In y r -> fst x <= fst y) /\ sorted_pairs r
  end.

Lemma insert_by_sorted x l : sorted_pairs l -> sorted_pairs (insert_by x l).
Proof.
  induction l as [|y l IH]; cbn [insert_by sorted_pairs]; [intros _; split; [intros ? []|exact I]|].
  intros [Hy Hs]. destruct (Qc_leb (fst y) (fst x)) eqn:E; cbn [sorted_pairs].
  - split; [|apply IH; exact Hs]. intros z Hz. apply insert_by_In in Hz. destruct Hz as [->|Hz].
    + apply Qc_leb_le. exact E.
    + apply Hy. exact Hz.
  - apply Qc_leb_false in E. split; [|split; assumption].
    intros z [<-|Hz]; [exact E|]. apply Qcle_trans with (fst y); [exact E|apply Hy; exact Hz].
Qed.

Lemma sort_by_energy_sorted l : sorted_pairs (sort_by_energy l).
Proof.
  unfold sort_by_energy. induction l as [|x l IH]; cbn [fold_right]; [exact I|].
  apply insert_by_sorted. exact IH.
Qed.

Lemma sorted_firstn_skipn n : forall l, sorted_pairs l ->
  forall a b, In a (firstn n l) -> In b (skipn n l) -> fst a <= fst b.
Proof.
  induction n as [|n IH]; intros l Hs a b Ha Hb; [destruct Ha|].
  destruct l as [|x l]; [destruct Ha|]. cbn [firstn skipn In sorted_pairs] in *.
  destruct Hs as [Hx Hs]. destruct Ha as [<-|Ha].
  - apply Hx. rewrite <- (firstn_skipn n l). apply in_or_app. right. exact Hb.
  - apply (IH l Hs); assumption.
Qed.

Lemma insert_by_perm x l : Permutation.Permutation (insert_by x l) (x :: l).
Proof.
  induction l as [|y l IH]; cbn [insert_by]; [apply Permutation.Permutation_refl|].
  destruct (Qc_leb (fst y) (fst x)); [|apply Permutation.Permutation_refl].
  apply Permutation.perm_trans with (y :: x :: l); [apply Permutation.perm_skip; exact IH|apply Permutation.perm_swap].
Qed.

Lemma sort_by_energy_perm l : Permutation.Permutation (sort_by_energy l) l.
Proof.
  unfold sort_by_energy. induction l as [|x l IH]; cbn [fold_right]; [apply Permutation.perm_nil|].
  apply Permutation.perm_trans with (x :: fold_right insert_by [] l); [apply insert_by_perm|].
  apply Permutation.perm_skip. exact IH.
Qed.

(* the kept (energy,row) pairs and the dropped ones partition the child's pairs, and no
   dropped pair has a lower energy than a kept one; the kept ones are in ascending order *)
Theorem truncate_sorted_keeps_lowest n r :
  let all := combine (r_energies r) (r_rows r) in
  let s := sort_by_energy all in
  Permutation.Permutation (firstn n s ++ skipn n s) all /\
  sorted_pairs (firstn n s) /\
  (forall a b, In a (firstn n s) -> In b (skipn n s) -> fst a <= fst b) /\
  r_energies (truncate_sorted n r) = map fst (firstn n s) /\
  r_rows (truncate_sorted n r) = map snd (firstn n s).
Proof.
  cbn zeta. split; [rewrite firstn_skipn; apply sort_by_energy_perm|]. split; [|split; [|split; reflexivity]].
  - generalize (sort_by_energy_sorted (combine (r_energies r) (r_rows r))).
    generalize (sort_by_energy (combine (r_energies r) (r_rows r))). clear.
    induction n as [|n IH]; intros l Hs; [exact I|]. destruct l as [|x l]; [exact I|].
    cbn [firstn sorted_pairs] in *. destruct Hs as [Hx Hs]. split; [|apply IH; exact Hs].
    intros y Hy. apply Hx. apply in_firstn_in in Hy. exact Hy.
  - apply sorted_firstn_skipn. apply sort_by_energy_sorted.
Qed.
